/-
Lemmas for C05 / C13 (model: `GluonModel.GcHeap`).
-/
import GluonModel.GcHeap

namespace GluonModel.GcHeap

/-! ## Reachability -/

/-- `p` is reachable from a root in `R` along out-edges of live objects. -/
inductive Reach (s : State) (R : Nat → Prop) : Nat → Prop
  | root {p} : R p → Reach s R p
  | step {q p o} : Reach s R q → s.obj q = some o → p ∈ o.edges → Reach s R p

/-- A root of the running system: held by some thread (stack, host handle, child list — the
    out-edges of a `Thread` object) or by the global table. -/
def AllRoots (s : State) (p : Nat) : Prop :=
  (∃ i o, s.obj i = some o ∧ o.kind = .thread ∧ p ∈ o.edges) ∨ p ∈ s.groots

/-- What the marker can reach: from the roots of the collection, never entering an object of
    an older generation. -/
inductive ReachNS (s : State) (t : HeapId) : Nat → Prop
  | root {p} : p ∈ rootsOf s t → skip s t p = false → ReachNS s t p
  | step {q p o} : ReachNS s t q → s.obj q = some o → p ∈ o.edges → skip s t p = false →
      ReachNS s t p

/-- ids at or above `next` are unused. -/
def WF (s : State) : Prop := ∀ i, s.next ≤ i → s.obj i = none

/-- **The heap invariant**: every pointer goes to the same or an ancestor heap of the heap the
    holder may point into. -/
def Inv (s : State) : Prop :=
  ∀ q oq p op, s.obj q = some oq → p ∈ oq.edges → s.obj p = some op → op.owner <+: oq.home

/-- Every object other than a `Thread` object points only where it lives (`home = owner`). For a
    mutable cell this says `cell.thread`'s heap is the heap that owns the cell. -/
def Homed (s : State) : Prop :=
  ∀ q oq, s.obj q = some oq → oq.kind ≠ .thread → oq.home = oq.owner

/-- The global table only holds values of the global heap. -/
def GRootsGlobal (s : State) : Prop :=
  ∀ p op, p ∈ s.groots → s.obj p = some op → op.owner = []

theorem mem_rootsOf {s : State} {t : HeapId} {p : Nat} :
    p ∈ rootsOf s t ↔ ∃ i o, i < s.next ∧ s.obj i = some o ∧ o.kind = .thread ∧
      t <+: o.home ∧ p ∈ o.edges := by
  unfold rootsOf State.ids
  simp only [List.mem_flatMap, List.mem_range]
  constructor
  · rintro ⟨i, hi, h⟩
    cases ho : s.obj i with
    | none => simp [ho] at h
    | some o =>
      simp only [ho] at h
      split at h
      · rename_i hc
        exact ⟨i, o, hi, ho, hc.1, List.isPrefixOf_iff_prefix.mp hc.2, h⟩
      · simp at h
  · rintro ⟨i, o, hi, ho, hk, hp, he⟩
    refine ⟨i, hi, ?_⟩
    simp only [ho]
    rw [if_pos ⟨hk, List.isPrefixOf_iff_prefix.mpr hp⟩]
    exact he

/-! ## `markGo` computes exactly `ReachNS` -/

theorem markGo_sound (s : State) (t : HeapId) (P : Nat → Prop)
    (hstep : ∀ q o p, P q → s.obj q = some o → p ∈ o.edges → skip s t p = false → P p) :
    ∀ (f : Nat) (w vis m : List Nat),
      (∀ x ∈ w, skip s t x = false → P x) → (∀ x ∈ vis, P x) →
      markGo s t f w vis = some m → ∀ x ∈ m, P x := by
  intro f
  induction f with
  | zero =>
    intro w vis m hw hv h
    cases w with
    | nil => simp [markGo] at h; subst h; exact hv
    | cons x w => simp [markGo] at h
  | succ f ih =>
    intro w vis m hw hv h
    cases w with
    | nil => simp [markGo] at h; subst h; exact hv
    | cons x w =>
      simp only [markGo] at h
      split at h
      · exact ih w vis m (fun y hy => hw y (List.mem_cons_of_mem _ hy)) hv h
      · rename_i hc
        have hsk : skip s t x = false := by
          cases hs : skip s t x <;> simp [hs] at hc ⊢
        have hPx : P x := hw x (List.mem_cons_self) hsk
        refine ih (succs s x ++ w) (x :: vis) m ?_ ?_ h
        · intro y hy hys
          rcases List.mem_append.mp hy with hy | hy
          · unfold succs at hy
            cases ho : s.obj x with
            | none => simp [ho] at hy
            | some o =>
              simp only [ho] at hy
              exact hstep x o y hPx ho hy hys
          · exact hw y (List.mem_cons_of_mem _ hy) hys
        · intro y hy
          rcases List.mem_cons.mp hy with hy | hy
          · subst hy; exact hPx
          · exact hv y hy

theorem markGo_complete (s : State) (t : HeapId) :
    ∀ (f : Nat) (w vis m : List Nat), markGo s t f w vis = some m →
      (∀ x ∈ vis, x ∈ m) ∧ (∀ x ∈ w, skip s t x = false → x ∈ m) ∧
      ((∀ v ∈ vis, ∀ e ∈ succs s v, skip s t e = false → e ∈ vis ∨ e ∈ w) →
        (∀ v ∈ m, ∀ e ∈ succs s v, skip s t e = false → e ∈ m)) := by
  intro f
  induction f with
  | zero =>
    intro w vis m h
    cases w with
    | nil =>
      simp [markGo] at h; subst h
      refine ⟨fun x hx => hx, by simp, ?_⟩
      intro hc v hv e he hs
      rcases hc v hv e he hs with h | h
      · exact h
      · simp at h
    | cons x w => simp [markGo] at h
  | succ f ih =>
    intro w vis m h
    cases w with
    | nil =>
      simp [markGo] at h; subst h
      refine ⟨fun x hx => hx, by simp, ?_⟩
      intro hc v hv e he hs
      rcases hc v hv e he hs with h | h
      · exact h
      · simp at h
    | cons x w =>
      simp only [markGo] at h
      split at h
      · rename_i hc
        obtain ⟨h1, h2, h3⟩ := ih w vis m h
        refine ⟨h1, ?_, ?_⟩
        · intro y hy hys
          rcases List.mem_cons.mp hy with hy | hy
          · subst hy
            have : vis.contains y = true := by simpa [hys] using hc
            exact h1 y (by simpa using this)
          · exact h2 y hy hys
        · intro hcl
          apply h3
          intro v hv e he hs
          rcases hcl v hv e he hs with h | h
          · exact Or.inl h
          · rcases List.mem_cons.mp h with h | h
            · subst h
              have : vis.contains e = true := by simpa [hs] using hc
              exact Or.inl (by simpa using this)
            · exact Or.inr h
      · obtain ⟨h1, h2, h3⟩ := ih (succs s x ++ w) (x :: vis) m h
        refine ⟨fun y hy => h1 y (List.mem_cons_of_mem _ hy), ?_, ?_⟩
        · intro y hy hys
          rcases List.mem_cons.mp hy with hy | hy
          · subst hy; exact h1 y (List.mem_cons_self)
          · exact h2 y (List.mem_append_right _ hy) hys
        · intro hcl
          apply h3
          intro v hv e he hs
          rcases List.mem_cons.mp hv with hv | hv
          · subst hv; exact Or.inr (List.mem_append_left _ he)
          · rcases hcl v hv e he hs with h | h
            · exact Or.inl (List.mem_cons_of_mem _ h)
            · rcases List.mem_cons.mp h with h | h
              · subst h; exact Or.inl (List.mem_cons_self)
              · exact Or.inr (List.mem_append_right _ h)

/-- The mark set is exactly what is reachable from the collection's roots without entering an
    older generation. -/
theorem mark_spec {s : State} {t : HeapId} {m : List Nat} (h : mark s t = some m) (p : Nat) :
    p ∈ m ↔ ReachNS s t p := by
  unfold mark at h
  constructor
  · intro hp
    refine markGo_sound s t (ReachNS s t) ?_ _ _ _ m ?_ ?_ h p hp
    · intro q o p hq ho he hs; exact ReachNS.step hq ho he hs
    · intro x hx hs; exact ReachNS.root hx hs
    · intro x hx; simp at hx
  · intro hp
    obtain ⟨_, h2, h3⟩ := markGo_complete s t _ _ _ m h
    have hcl := h3 (by intro v hv; simp at hv)
    induction hp with
    | root hr hs => exact h2 _ hr hs
    | step _ ho he hs ih =>
      apply hcl _ ih _ _ hs
      unfold succs; simp [ho, he]

/-! ## Collection: safety and completeness -/

theorem skip_false_of_inside {s : State} {t : HeapId} {p : Nat} {op : Obj}
    (ho : s.obj p = some op) (hin : t <+: op.owner) : skip s t p = false := by
  unfold skip
  simp only [ho]
  have := hin.length_le
  simp only [decide_eq_false_iff_not, Nat.not_lt]
  exact this

theorem WF.lt {s : State} (h : WF s) {i : Nat} {o : Obj} (ho : s.obj i = some o) : i < s.next := by
  rcases Nat.lt_or_ge i s.next with h1 | h1
  · exact h1
  · rw [h i h1] at ho; cases ho

/-- Under the invariant, everything in the collected heaps that is reachable from ANY root of the
    system is reachable for the marker. -/
theorem reachNS_of_reach {s : State} {t : HeapId} (hwf : WF s) (hinv : Inv s) (hhomed : Homed s)
    (hg : GRootsGlobal s) (ht : t ≠ []) {p : Nat} (hr : Reach s (AllRoots s) p) :
    ∀ op, s.obj p = some op → t <+: op.owner → ReachNS s t p := by
  induction hr with
  | root hroot =>
    intro op hop hin
    rcases hroot with ⟨i, o, ho, hk, he⟩ | hgr
    · have hpre : op.owner <+: o.home := hinv i o _ op ho he hop
      exact ReachNS.root (mem_rootsOf.mpr ⟨i, o, hwf.lt ho, ho, hk, hin.trans hpre, he⟩)
        (skip_false_of_inside hop hin)
    · have := hg _ op hgr hop
      rw [this] at hin
      exact absurd (List.prefix_nil.mp hin) ht
  | @step q p o hq ho he ih =>
    intro op hop hin
    have hpre : op.owner <+: o.home := hinv q o p op ho he hop
    by_cases hk : o.kind = .thread
    · exact ReachNS.root (mem_rootsOf.mpr ⟨q, o, hwf.lt ho, ho, hk, hin.trans hpre, he⟩)
        (skip_false_of_inside hop hin)
    · have hh := hhomed q o ho hk
      rw [hh] at hpre
      exact ReachNS.step (ih o ho (hin.trans hpre)) ho he (skip_false_of_inside hop hin)

theorem reach_of_reachNS {s : State} {t : HeapId} {p : Nat} (h : ReachNS s t p) :
    Reach s (AllRoots s) p := by
  induction h with
  | root hr _ =>
    obtain ⟨i, o, _, ho, hk, _, he⟩ := mem_rootsOf.mp hr
    exact Reach.root (Or.inl ⟨i, o, ho, hk, he⟩)
  | step _ ho he _ ih => exact Reach.step ih ho he

theorem collect_obj {s s' : State} {t : HeapId} (h : collect s t = some s') :
    ∃ m, mark s t = some m ∧ s' = { s with obj := sweepObj s t m } := by
  unfold collect at h
  cases hm : mark s t with
  | none => simp [hm] at h
  | some m => simp [hm] at h; exact ⟨m, rfl, h.symm⟩

/-- **Safety.** -/
theorem collect_safe' {s s' : State} {t : HeapId} (hwf : WF s) (hinv : Inv s) (hhomed : Homed s)
    (hg : GRootsGlobal s) (ht : t ≠ []) (hc : collect s t = some s') {p : Nat} {op : Obj}
    (hop : s.obj p = some op) (hr : Reach s (AllRoots s) p) : s'.obj p = some op := by
  obtain ⟨m, hm, rfl⟩ := collect_obj hc
  show sweepObj s t m p = some op
  unfold sweepObj
  simp only [hop]
  by_cases hin : t <+: op.owner
  · have hmem : p ∈ m := (mark_spec hm p).mpr (reachNS_of_reach hwf hinv hhomed hg ht hr op hop hin)
    simp [hmem]
  · have : t.isPrefixOf op.owner = false := by
      cases hb : t.isPrefixOf op.owner
      · rfl
      · exact absurd (List.isPrefixOf_iff_prefix.mp hb) hin
    simp [this]

/-- **Completeness**: what survives in a collected heap is reachable from the roots. -/
theorem collect_complete' {s s' : State} {t : HeapId} (hc : collect s t = some s') {p : Nat}
    {op : Obj} (hop : s'.obj p = some op) (hin : t <+: op.owner) :
    Reach s (AllRoots s) p := by
  obtain ⟨m, hm, rfl⟩ := collect_obj hc
  have hop' : sweepObj s t m p = some op := hop
  unfold sweepObj at hop'
  cases ho : s.obj p with
  | none => simp [ho] at hop'
  | some o =>
    simp only [ho] at hop'
    split at hop'
    · cases hop'
    · rename_i hcnd
      cases hop'
      have hmem : p ∈ m := by
        have hcnd' := hcnd
        simp at hcnd'
        exact hcnd' hin
      exact reach_of_reachNS ((mark_spec hm p).mp hmem)

/-- A collection only removes objects; survivors are unchanged; other heaps are untouched. -/
theorem collect_sub {s s' : State} {t : HeapId} (hc : collect s t = some s') {p : Nat} {op : Obj}
    (hop : s'.obj p = some op) : s.obj p = some op := by
  obtain ⟨m, _, rfl⟩ := collect_obj hc
  have hop' : sweepObj s t m p = some op := hop
  unfold sweepObj at hop'
  cases ho : s.obj p with
  | none => simp [ho] at hop'
  | some o =>
    simp only [ho] at hop'
    split at hop'
    · cases hop'
    · exact hop'

theorem collect_other_heaps {s s' : State} {t : HeapId} (hc : collect s t = some s') {p : Nat}
    {op : Obj} (hop : s.obj p = some op) (hout : ¬ t <+: op.owner) : s'.obj p = some op := by
  obtain ⟨m, _, rfl⟩ := collect_obj hc
  show sweepObj s t m p = some op
  unfold sweepObj
  simp only [hop]
  have : t.isPrefixOf op.owner = false := by
    cases hb : t.isPrefixOf op.owner
    · rfl
    · exact absurd (List.isPrefixOf_iff_prefix.mp hb) hout
  simp [this]

theorem collect_inv {s s' : State} {t : HeapId} (hc : collect s t = some s') (hinv : Inv s) :
    Inv s' := by
  intro q oq p op hq he hp
  exact hinv q oq p op (collect_sub hc hq) he (collect_sub hc hp)

theorem collect_homed {s s' : State} {t : HeapId} (hc : collect s t = some s') (hh : Homed s) :
    Homed s' := by
  intro q oq hq hk
  exact hh q oq (collect_sub hc hq) hk

/-! ## Deep clone: ownership -/

/-- `b` extends `a`: the ids of `a` are unchanged. -/
def Ext (a b : State) : Prop := a.next ≤ b.next ∧ ∀ i, i < a.next → b.obj i = a.obj i

theorem Ext.refl (a : State) : Ext a a := ⟨Nat.le_refl _, fun _ _ => rfl⟩

theorem Ext.trans {a b c : State} (h1 : Ext a b) (h2 : Ext b c) : Ext a c :=
  ⟨Nat.le_trans h1.1 h2.1, fun i hi => by rw [h2.2 i (Nat.lt_of_lt_of_le hi h1.1), h1.2 i hi]⟩

theorem WF.push {s : State} (h : WF s) (o : Obj) : WF (s.push o) := by
  intro i hi
  simp only [State.push] at hi ⊢
  have : i ≠ s.next := by omega
  simp only [this, if_false]
  exact h i (by omega)

theorem Ext.push {s : State} (h : WF s) (o : Obj) : Ext s (s.push o) := by
  refine ⟨by simp [State.push], ?_⟩
  intro i hi
  simp only [State.push]
  have : i ≠ s.next := by omega
  simp [this]

theorem WF.setEdges {s : State} (h : WF s) (n : Nat) (es : List Nat) : WF (s.setEdges n es) := by
  intro i hi
  simp only [State.setEdges] at hi ⊢
  split
  · rename_i heq; subst heq; rw [h i hi]; rfl
  · exact h i hi

/-- `e` is a live object owned by `dst` or an ancestor. -/
def OKo (s : State) (dst : HeapId) (e : Nat) : Prop := ∃ oe, s.obj e = some oe ∧ oe.owner <+: dst

theorem OKo.mono {a b : State} {dst : HeapId} {e : Nat} (hwf : WF a) (hx : Ext a b)
    (h : OKo a dst e) : OKo b dst e := by
  obtain ⟨oe, ho, hp⟩ := h
  exact ⟨oe, by rw [hx.2 e (hwf.lt ho)]; exact ho, hp⟩

theorem OKo.setEdges {s : State} {dst : HeapId} {e : Nat} (n : Nat) (es : List Nat)
    (h : OKo s dst e) : OKo (s.setEdges n es) dst e := by
  obtain ⟨oe, ho, hp⟩ := h
  simp only [OKo, State.setEdges]
  by_cases heq : e = n
  · subst heq
    simp only [if_true, ho, Option.map_some]
    exact ⟨_, rfl, hp⟩
  · simp only [heq, if_false]
    exact ⟨oe, ho, hp⟩

/-- A finished copy: owned by `dst`, pointing into `dst` or `thr`, all out-edges OK. -/
def Fin (s : State) (dst thr : HeapId) (n : Nat) : Prop :=
  ∃ o, s.obj n = some o ∧ o.owner = dst ∧ (o.home = dst ∨ (o.home = thr ∧ o.kind = .cell)) ∧
    o.kind ≠ .thread ∧ ∀ e ∈ o.edges, OKo s dst e

theorem Fin.mono {a b : State} {dst thr : HeapId} {n : Nat} (hwf : WF a) (hx : Ext a b)
    (h : Fin a dst thr n) : Fin b dst thr n := by
  obtain ⟨o, ho, h1, h2, h3, h4⟩ := h
  exact ⟨o, by rw [hx.2 n (hwf.lt ho)]; exact ho, h1, h2, h3, fun e he => (h4 e he).mono hwf hx⟩

theorem Fin.setEdges_other {s : State} {dst thr : HeapId} {n m : Nat} (es : List Nat)
    (hne : m ≠ n) (h : Fin s dst thr m) : Fin (s.setEdges n es) dst thr m := by
  obtain ⟨o, ho, h1, h2, h3, h4⟩ := h
  refine ⟨o, ?_, h1, h2, h3, fun e he => (h4 e he).setEdges n es⟩
  simp only [State.setEdges, hne, if_false]
  exact ho

/-- The hypotheses under which the cloner is run, relative to the state `s0` it starts in. -/
structure CloneCtx (s0 : State) (dst : HeapId) (rgen : Option Nat) (fixed : Bool)
    (Rel : Nat → Prop) : Prop where
  wf : WF s0
  live : ∀ v, Rel v → ∃ o, s0.obj v = some o
  closed : ∀ v o, Rel v → s0.obj v = some o → shareable s0 rgen v = false → o.kind ≠ .thread →
    ∀ e ∈ o.edges, Rel e
  share : ∀ v o, Rel v → s0.obj v = some o → shareable s0 rgen v = true → o.owner <+: dst
  noShallow : ∀ v o, Rel v → s0.obj v = some o → shareable s0 rgen v = false →
    o.kind = .shallow → fixed = true

/-- Invariant of the cloner state. -/
structure CI (s0 : State) (dst : HeapId) (c : Cl) : Prop where
  wf : WF c.s
  ext : Ext s0 c.s
  vis : ∀ v n, (v, n) ∈ c.vis → ∃ o, c.s.obj n = some o ∧ o.owner = dst

/-- Postcondition of one `cloneVal`. -/
structure Post (s0 : State) (dst thr : HeapId) (c c' : Cl) (r : Nat) : Prop where
  ci : CI s0 dst c'
  ext : Ext c.s c'.s
  ok : OKo c'.s dst r
  fin : ∀ n, c.s.next ≤ n → n < c'.s.next → Fin c'.s dst thr n

structure PostL (s0 : State) (dst thr : HeapId) (c c' : Cl) (rs : List Nat) : Prop where
  ci : CI s0 dst c'
  ext : Ext c.s c'.s
  ok : ∀ r ∈ rs, OKo c'.s dst r
  fin : ∀ n, c.s.next ≤ n → n < c'.s.next → Fin c'.s dst thr n

theorem lookupVis_mem {vis : List (Nat × Nat)} {v n : Nat} (h : lookupVis vis v = some n) :
    (v, n) ∈ vis := by
  induction vis with
  | nil => simp [lookupVis] at h
  | cons a r ih =>
    obtain ⟨a1, a2⟩ := a
    simp only [lookupVis] at h
    split at h
    · rename_i heq; cases h; subst heq; exact List.mem_cons_self
    · exact List.mem_cons_of_mem _ (ih h)

theorem cloneEdges_post {s0 : State} {dst thr : HeapId} {Rel : Nat → Prop}
    (k : Cl → Nat → Option (Cl × Nat))
    (hk : ∀ c v c' r, CI s0 dst c → Rel v → k c v = some (c', r) → Post s0 dst thr c c' r) :
    ∀ (es : List Nat) (c c' : Cl) (rs : List Nat), CI s0 dst c → (∀ e ∈ es, Rel e) →
      cloneEdges k c es = some (c', rs) → PostL s0 dst thr c c' rs := by
  intro es
  induction es with
  | nil =>
    intro c c' rs hci _ h
    simp [cloneEdges] at h
    obtain ⟨rfl, rfl⟩ := h
    exact ⟨hci, Ext.refl _, by simp, fun n h1 h2 => by omega⟩
  | cons e es ih =>
    intro c c' rs hci hrel h
    simp only [cloneEdges] at h
    cases hke : k c e with
    | none => simp [hke] at h
    | some p1 =>
      obtain ⟨c1, e'⟩ := p1
      simp only [hke] at h
      cases hrest : cloneEdges k c1 es with
      | none => simp [hrest] at h
      | some p2 =>
        obtain ⟨c2, es'⟩ := p2
        simp only [hrest, Option.some.injEq, Prod.mk.injEq] at h
        obtain ⟨rfl, rfl⟩ := h
        have p1 := hk c e c1 e' hci (hrel e List.mem_cons_self) hke
        have p2 := ih c1 c2 es' p1.ci (fun x hx => hrel x (List.mem_cons_of_mem _ hx)) hrest
        refine ⟨p2.ci, p1.ext.trans p2.ext, ?_, ?_⟩
        · intro r hr
          rcases List.mem_cons.mp hr with hr | hr
          · subst hr; exact p1.ok.mono p1.ci.wf p2.ext
          · exact p2.ok r hr
        · intro n h1 h2
          by_cases hn : n < c1.s.next
          · exact (p1.fin n h1 hn).mono p1.ci.wf p2.ext
          · exact p2.fin n (by omega) h2

theorem viaVisited_post {s0 : State} {dst thr : HeapId} {Rel : Nat → Prop}
    (k : Cl → Nat → Option (Cl × Nat))
    (hk : ∀ c v c' r, CI s0 dst c → Rel v → k c v = some (c', r) → Post s0 dst thr c c' r)
    {c c' : Cl} {v r : Nat} {o : Obj} {kind : Kind} {home : HeapId}
    (hci : CI s0 dst c) (hedges : ∀ e ∈ o.edges, Rel e)
    (hhome : home = dst ∨ (home = thr ∧ kind = .cell)) (hkind : kind ≠ .thread)
    (h : viaVisited k dst c v o kind home = some (c', r)) : Post s0 dst thr c c' r := by
  unfold viaVisited at h
  cases hl : lookupVis c.vis v with
  | some n =>
    simp only [hl, Option.some.injEq, Prod.mk.injEq] at h
    obtain ⟨rfl, rfl⟩ := h
    obtain ⟨on, hon, hown⟩ := hci.vis v n (lookupVis_mem hl)
    exact ⟨hci, Ext.refl _, ⟨on, hon, by rw [hown]; exact List.prefix_refl _⟩, fun n h1 h2 => by omega⟩
  | none =>
    simp only [hl] at h
    -- the placeholder
    let c1 : Cl := ⟨c.s.push ⟨dst, home, kind, o.edges⟩, (v, c.s.next) :: c.vis⟩
    have hc1 : CI s0 dst c1 := by
      refine ⟨hci.wf.push _, hci.ext.trans (Ext.push hci.wf _), ?_⟩
      intro v' n' hmem
      rcases List.mem_cons.mp hmem with heq | hmem
      · cases heq
        exact ⟨⟨dst, home, kind, o.edges⟩, by simp [c1, State.push], rfl⟩
      · obtain ⟨on, hon, hown⟩ := hci.vis v' n' hmem
        refine ⟨on, ?_, hown⟩
        show (c.s.push _).obj n' = some on
        rw [(Ext.push hci.wf _).2 n' (hci.wf.lt hon)]; exact hon
    cases hce : cloneEdges k c1 o.edges with
    | none => simp [c1] at hce; simp [hce] at h
    | some p2 =>
      obtain ⟨c2, es⟩ := p2
      have hce' := hce
      simp only [c1] at hce'
      simp only [hce', Option.some.injEq, Prod.mk.injEq] at h
      obtain ⟨rfl, rfl⟩ := h
      have pl := cloneEdges_post k hk o.edges c1 c2 es hc1 hedges hce
      have hn1 : c.s.next < c1.s.next := by simp [c1, State.push]
      have hplace : c2.s.obj c.s.next = some ⟨dst, home, kind, o.edges⟩ := by
        rw [pl.ext.2 _ hn1]; simp [c1, State.push]
      have hs0n : s0.next ≤ c.s.next := hci.ext.1
      refine ⟨⟨pl.ci.wf.setEdges _ _, ?_, ?_⟩, ?_, ?_, ?_⟩
      · refine ⟨Nat.le_trans pl.ci.ext.1 (by simp [State.setEdges]), ?_⟩
        intro i hi
        have hne : i ≠ c.s.next := by omega
        simp only [State.setEdges, hne, if_false]
        exact pl.ci.ext.2 i hi
      · intro v' n' hmem
        obtain ⟨on, hon, hown⟩ := pl.ci.vis v' n' hmem
        simp only [State.setEdges]
        by_cases heq : n' = c.s.next
        · subst heq
          simp only [if_true, hon, Option.map_some]
          exact ⟨_, rfl, hown⟩
        · simp only [heq, if_false]; exact ⟨on, hon, hown⟩
      · refine ⟨by simp only [State.setEdges]; exact Nat.le_trans (Nat.le_of_lt hn1) pl.ext.1, ?_⟩
        intro i hi
        have hne : i ≠ c.s.next := by omega
        simp only [State.setEdges, hne, if_false]
        rw [pl.ext.2 i (by omega)]
        exact (Ext.push hci.wf _).2 i hi
      · refine ⟨⟨dst, home, kind, es⟩, ?_, List.prefix_refl _⟩
        simp [State.setEdges, hplace]
      · intro n h1 h2
        by_cases hn : n = c.s.next
        · subst hn
          refine ⟨⟨dst, home, kind, es⟩, by simp [State.setEdges, hplace], rfl, hhome, hkind, ?_⟩
          intro e he
          exact (pl.ok e he).setEdges _ _
        · have h2' : n < c2.s.next := by simpa [State.setEdges] using h2
          exact (pl.fin n (by simp [c1, State.push]; omega) h2').setEdges_other es hn

theorem shareable_ext {s0 s : State} {rgen : Option Nat} {v : Nat} (hx : Ext s0 s)
    (hv : v < s0.next) : shareable s rgen v = shareable s0 rgen v := by
  unfold shareable; rw [hx.2 v hv]

theorem cloneVal_post {s0 : State} {dst thr : HeapId} {rgen : Option Nat} {fixed : Bool}
    {Rel : Nat → Prop} (ctx : CloneCtx s0 dst rgen fixed Rel) :
    ∀ (f : Nat) (c : Cl) (v : Nat) (c' : Cl) (r : Nat), CI s0 dst c → Rel v →
      cloneVal dst thr rgen fixed f c v = some (c', r) → Post s0 dst thr c c' r := by
  intro f
  induction f with
  | zero => intro c v c' r _ _ h; simp [cloneVal] at h
  | succ f ih =>
    intro c v c' r hci hrel h
    obtain ⟨o, ho⟩ := ctx.live v hrel
    have hv : v < s0.next := ctx.wf.lt ho
    have hoc : c.s.obj v = some o := by rw [hci.ext.2 v hv]; exact ho
    have hsh := shareable_ext (rgen := rgen) hci.ext hv
    simp only [cloneVal] at h
    by_cases hs : shareable s0 rgen v = true
    · rw [hsh, hs] at h
      simp only [if_true, Option.some.injEq, Prod.mk.injEq] at h
      obtain ⟨rfl, rfl⟩ := h
      exact ⟨hci, Ext.refl _, ⟨o, hoc, ctx.share v o hrel ho hs⟩, fun n h1 h2 => by omega⟩
    · have hs' : shareable s0 rgen v = false := by
        cases hb : shareable s0 rgen v
        · rfl
        · exact absurd hb hs
      rw [hsh, hs'] at h
      simp only [Bool.false_eq_true, if_false, hoc] at h
      have hedges : o.kind ≠ .thread → ∀ e ∈ o.edges, Rel e := ctx.closed v o hrel ho hs'
      cases hk : o.kind with
      | udata => simp [hk] at h
      | thread => simp [hk] at h
      | plain =>
        simp only [hk] at h
        exact viaVisited_post _ ih hci (hedges (by simp [hk])) (Or.inl rfl) (by simp) h
      | shallow =>
        have hfx := ctx.noShallow v o hrel ho hs' hk
        simp only [hk, hfx, if_true] at h
        exact viaVisited_post _ ih hci (hedges (by simp [hk])) (Or.inl rfl) (by simp) h
      | cell =>
        simp only [hk] at h
        cases fixed with
        | true =>
          simp only [if_true] at h
          exact viaVisited_post _ ih hci (hedges (by simp [hk])) (Or.inr ⟨rfl, rfl⟩) (by simp) h
        | false =>
          simp only [Bool.false_eq_true, if_false] at h
          unfold cellCopy at h
          cases hce : cloneEdges (cloneVal dst thr rgen false f) c o.edges with
          | none => simp [hce] at h
          | some p2 =>
            obtain ⟨c2, es⟩ := p2
            simp only [hce, Option.some.injEq, Prod.mk.injEq] at h
            obtain ⟨rfl, rfl⟩ := h
            have pl := cloneEdges_post _ ih o.edges c c2 es hci (hedges (by simp [hk])) hce
            have hx := Ext.push pl.ci.wf ⟨dst, thr, Kind.cell, es⟩
            refine ⟨⟨pl.ci.wf.push _, pl.ci.ext.trans hx, ?_⟩, pl.ext.trans hx, ?_, ?_⟩
            · intro v' n' hmem
              obtain ⟨on, hon, hown⟩ := pl.ci.vis v' n' hmem
              exact ⟨on, by rw [hx.2 n' (pl.ci.wf.lt hon)]; exact hon, hown⟩
            · exact ⟨⟨dst, thr, Kind.cell, es⟩, by simp [State.push], List.prefix_refl _⟩
            · intro n h1 h2
              by_cases hn : n = c2.s.next
              · subst hn
                refine ⟨⟨dst, thr, Kind.cell, es⟩, by simp [State.push], rfl, Or.inr ⟨rfl, rfl⟩,
                  by simp, ?_⟩
                intro e he
                exact (pl.ok e he).mono pl.ci.wf hx
              · have : n < c2.s.next := by simp [State.push] at h2; omega
                exact (pl.fin n h1 this).mono pl.ci.wf hx

end GluonModel.GcHeap
