/-
C04: the unnecessary-allocation rewrite (optimize.rs:198-282) preserves behaviour exactly, for
closure-free expressions whose rewritten nodes have the shape the translation produces
(`Dce.uaOK`: projections out of record literals).
-/
import GluonModel.OptCore
import GluonModel.Dce
import GluonModel.Proofs.Dce

namespace GluonModel.Proofs.Ua
open GluonModel.OptCore GluonModel.Dce GluonModel.Proofs.Dce

theorem bind_assoc {α β γ} (r : R α) (f : α → R β) (g : β → R γ) :
    (r.bind f).bind g = r.bind (fun a => (f a).bind g) := by
  unfold R.bind
  cases h : r.out <;> simp
  cases h2 : (f _).out <;> simp

theorem bind_congr {α β} (r : R α) (k k' : α → R β) (h : ∀ a, r.out = .ok a → k a = k' a) :
    r.bind k = r.bind k' := by
  unfold R.bind
  cases hr : r.out <;> simp
  rename_i a
  rw [h a hr]
  simp

theorem isDummy_dummyName (k : Nat) : isDummy (dummyName k) = true := by
  simp [isDummy, dummyName, String.toList_append]

mutual
theorem evalList_length (call : Caller) (env : Env) : ∀ (es : Exprs) (vs : List Value),
    (evalList call env es).out = .ok vs → vs.length = lengthE es
  | .nil, vs, h => by
    simp only [evalList, R.pure] at h
    cases h
    rfl
  | .cons e es, vs, h => by
    simp only [evalList] at h
    cases h1 : (eval call env e).out with
    | ok v =>
      cases h2 : (evalList call env es).out with
      | ok vs' =>
        have := evalList_length call env es vs' h2
        simp [R.bind, h1, h2, R.pure] at h
        subst h
        simp [lengthE, this]
      | _ => simp [R.bind, h1, h2] at h
    | _ => simp [R.bind, h1] at h
end

/-! ### Coincidence: closure-free expressions only see the identifiers they mention -/

mutual
theorem coin (call : Caller) (P : String → Bool) : ∀ (e : Expr), noRec e = true →
    idsIn P e = true → ∀ env env', Agree P env env' → eval call env' e = eval call env e
  | .const _, _, _, _, _, _ => by simp only [eval]
  | .ident x, _, hi, env, env', ha => by
    simp only [idsIn] at hi
    simp only [eval, identV_agree ha x hi]
  | .call f args, hn, hi, env, env', ha => by
    simp only [noRec, Bool.and_eq_true] at hn
    simp only [idsIn, Bool.and_eq_true] at hi
    simp only [eval, coin call P f hn.1 hi.1 env env' ha, coinList call P args hn.2 hi.2 env env' ha]
  | .data _ _ args, hn, hi, env, env', ha => by
    simp only [noRec] at hn
    simp only [idsIn] at hi
    simp only [eval, coinList call P args hn hi env env' ha]
  | .letE x e body, hn, hi, env, env', ha => by
    simp only [noRec, Bool.and_eq_true] at hn
    simp only [idsIn, Bool.and_eq_true] at hi
    simp only [eval, coin call P e hn.1 hi.1 env env' ha]
    congr 1
    funext v
    exact coin call P body hn.2 hi.2 _ _ (agree_cons ha x v)
  | .letRec _ _, hn, _, _, _, _ => by simp [noRec] at hn
  | .matchE s alts, hn, hi, env, env', ha => by
    simp only [noRec, Bool.and_eq_true] at hn
    simp only [idsIn, Bool.and_eq_true] at hi
    simp only [eval, coin call P s hn.1 hi.1 env env' ha]
    congr 1
    funext v
    exact coinAlts call P alts hn.2 hi.2 v env env' ha
  | .cast e, hn, hi, env, env', ha => by
    simp only [noRec] at hn
    simp only [idsIn] at hi
    simp only [eval]
    exact coin call P e hn hi env env' ha
theorem coinList (call : Caller) (P : String → Bool) : ∀ (es : Exprs), noRecList es = true →
    idsInList P es = true → ∀ env env', Agree P env env' →
    evalList call env' es = evalList call env es
  | .nil, _, _, _, _, _ => by simp only [evalList]
  | .cons e es, hn, hi, env, env', ha => by
    simp only [noRecList, Bool.and_eq_true] at hn
    simp only [idsInList, Bool.and_eq_true] at hi
    simp only [evalList, coin call P e hn.1 hi.1 env env' ha,
      coinList call P es hn.2 hi.2 env env' ha]
theorem coinAlts (call : Caller) (P : String → Bool) : ∀ (alts : Alts), noRecAlts alts = true →
    idsInAlts P alts = true → ∀ v env env', Agree P env env' →
    evalAlts call env' v alts = evalAlts call env v alts
  | .nil, _, _, _, _, _, _ => by simp only [evalAlts]
  | .cons p e rest, hn, hi, v, env, env', ha => by
    simp only [noRecAlts, Bool.and_eq_true] at hn
    simp only [idsInAlts, Bool.and_eq_true] at hi
    simp only [evalAlts]
    split
    · exact coin call P e hn.1 hi.1 _ _ (agree_append ha _)
    · exact coinAlts call P rest hn.2 hi.2 v env env' ha
end

/-! ### The rewritten node -/

/-- Environment after the nested lets `makeLets` builds, given the values of the fields. -/
def letEnv (fields : List (String × String)) : List String → List Value → Nat → Env → Env
  | r :: rows, v :: vs, k, env =>
    letEnv fields rows vs (fieldBinder fields r k).2 (((fieldBinder fields r k).1, v) :: env)
  | _, _, _, env => env

/-- The binder `fieldBinder` picks for a single-field pattern. -/
theorem fieldBinder_single (f b r : String) (k : Nat) :
    (fieldBinder [(f, b)] r k).1 = (if f = r then b else dummyName k) := by
  unfold fieldBinder
  by_cases h : f = r
  · simp [h]
  · have : (f == r) = false := by simpa using h
    simp [List.find?, this, h]

/-- Evaluating the nested lets: the field expressions are evaluated in order, each in the
    original environment (the binders introduced so far are fresh for them). -/
theorem makeLets_eval (call : Caller) (f b : String) (P : String → Bool)
    (hb : P b = false) (hd : ∀ k, P (dummyName k) = false) (body : Expr) :
    ∀ (args : Exprs) (rows : List String) (k : Nat) (env env' : Env),
    noRecList args = true → idsInList P args = true → rows.length = lengthE args →
    Agree P env env' →
    eval call env' (makeLets [(f, b)] rows args body k).1 =
      (evalList call env args).bind fun vs => eval call (letEnv [(f, b)] rows vs k env') body
  | .nil, rows, k, env, env', _, _, hl, _ => by
    cases rows with
    | nil => simp [makeLets, evalList, pure_bind, letEnv]
    | cons r rs => simp [lengthE] at hl
  | .cons a as, rows, k, env, env', hn, hi, hl, ha => by
    cases rows with
    | nil => simp [lengthE] at hl
    | cons r rs =>
      simp only [noRecList, Bool.and_eq_true] at hn
      simp only [idsInList, Bool.and_eq_true] at hi
      simp only [List.length_cons, lengthE, Nat.add_right_cancel_iff] at hl
      simp only [makeLets, eval, evalList]
      rw [coin call P a hn.1 hi.1 env env' ha, bind_assoc]
      apply bind_congr
      intro v _
      have hfresh : P (fieldBinder [(f, b)] r k).1 = false := by
        rw [fieldBinder_single]
        split
        · exact hb
        · exact hd k
      have ha' : Agree P env (((fieldBinder [(f, b)] r k).1, v) :: env') := by
        intro x hx
        simp only [lookup]
        have : ¬ (fieldBinder [(f, b)] r k).1 = x := by
          intro e
          rw [e, hx] at hfresh
          exact Bool.noConfusion hfresh
        simp only [this, if_false]
        exact ha x hx
      rw [makeLets_eval call f b P hb hd body as rs _ env _ hn.2 hi.2 hl ha', bind_assoc]
      apply bind_congr
      intro vs _
      simp [pure_bind, letEnv]

/-- What the new environment binds: the pattern's binder to the value of its field, dummies
    otherwise. -/
theorem letEnv_lookup (f b : String) (hbd : isDummy b = false) (x : String)
    (hx : isDummy x = false) :
    ∀ (rows : List String) (vs : List Value) (k : Nat) (env : Env),
    nodupB rows = true → rows.length = vs.length →
    lookup (letEnv [(f, b)] rows vs k env) x =
      (match findIdx rows f with
       | some i => if b = x then vs[i]? else lookup env x
       | none => lookup env x)
  | [], vs, k, env, _, _ => by simp [letEnv, findIdx]
  | r :: rs, [], k, env, _, hl => by simp at hl
  | r :: rs, v :: vs, k, env, hnd, hl => by
    simp only [nodupB, Bool.and_eq_true, Bool.not_eq_true', List.contains_eq_mem,
      decide_eq_false_iff_not] at hnd
    simp only [List.length_cons, Nat.add_right_cancel_iff] at hl
    simp only [letEnv]
    rw [letEnv_lookup f b hbd x hx rs vs _ _ hnd.2 hl, fieldBinder_single]
    by_cases hrf : r = f
    · subst hrf
      have hnone : findIdx rs r = none := by
        have hnm := hnd.1
        clear hl hnd
        induction rs with
        | nil => rfl
        | cons q qs ih =>
          simp only [List.mem_cons, not_or] at hnm
          simp only [findIdx]
          have : ¬ q = r := fun e => hnm.1 e.symm
          simp [this, ih hnm.2]
      simp only [hnone, findIdx, if_true, lookup]
      by_cases hbx : b = x
      · simp [hbx]
      · simp [hbx]
    · have hfr : ¬ f = r := fun e => hrf e.symm
      simp only [hfr, if_false, findIdx, hrf]
      have hdx : ¬ dummyName k = x := by
        intro e
        rw [← e, isDummy_dummyName] at hx
        exact Bool.noConfusion hx
      cases hfi : findIdx rs f with
      | none => simp [lookup, hdx]
      | some i => simp [lookup, hdx]

theorem bindFields_single (rows : List String) (vals : List Value) (f b : String) :
    bindFields rows vals [(f, b)] =
      (match findIdx rows f with
       | some i => (match vals[i]? with | some v => some [(b, v)] | none => none)
       | none => none) := by
  simp only [bindFields]
  cases findIdx rows f with
  | none => rfl
  | some i =>
    simp only
    generalize vals[i]? = o
    cases o <;> rfl

theorem findIdx_lt : ∀ (rows : List String) (f : String) (i : Nat),
    findIdx rows f = some i → i < rows.length
  | [], _, _, h => by simp [findIdx] at h
  | r :: rs, f, i, h => by
    simp only [findIdx] at h
    split at h
    · cases h; simp
    · cases hr : findIdx rs f with
      | none => simp [hr] at h
      | some j =>
        simp only [hr, Option.map_some, Option.some.injEq] at h
        have := findIdx_lt rs f j hr
        subst h
        simp
        omega

/-- The rewrite of one node is exact. -/
theorem target_correct (call : Caller) (c : String) (rows : List String) (args : Exprs)
    (fields : List (String × String)) (body : Expr) (k : Nat) (env : Env)
    (hna : noRecList args = true) (hnb : noRec body = true)
    (hok : targetOK rows args fields body = true) :
    eval call env (makeLets fields rows args body k).1 =
      eval call env (.matchE (.data c rows args) (.cons (.record fields) body .nil)) := by
  unfold targetOK at hok
  split at hok
  · rename_i f b
    simp only [Bool.and_eq_true, Option.isSome_iff_exists, beq_iff_eq, Bool.not_eq_true'] at hok
    obtain ⟨⟨⟨⟨⟨⟨i, hfi⟩, hnd⟩, hlen⟩, hbd⟩, hia⟩, hib⟩ := hok
    have hP : (fun x : String => x != b && !isDummy x) b = false := by simp
    have hD : ∀ k, (fun x : String => x != b && !isDummy x) (dummyName k) = false := by
      intro k; simp [isDummy_dummyName]
    rw [makeLets_eval call f b _ hP hD body args rows k env env hna hia hlen (agree_refl _ _)]
    simp only [eval, bind_assoc, pure_bind]
    apply bind_congr
    intro vs hvs
    have hvl : rows.length = vs.length := by rw [hlen, evalList_length call env args vs hvs]
    simp only [evalAlts, matchPat, bindFields_single, hfi]
    have hilt : i < vs.length := by rw [← hvl]; exact findIdx_lt rows f i hfi
    have hget : vs[i]? = some vs[i] := by simp [hilt]
    rw [hget]
    simp only
    apply coin call (fun x => !isDummy x) body hnb hib
    intro x hx
    have hx' : isDummy x = false := by simpa using hx
    rw [letEnv_lookup f b hbd x hx' rows vs k env hnd hvl]
    simp only [hfi, List.cons_append, List.nil_append, lookup, hget]
  · simp at hok

/-! ### The whole pass -/

theorem uaTarget_some {s : Expr} {alts : Alts} {rows args fields body}
    (h : uaTarget s alts = some (rows, args, fields, body)) :
    ∃ c, s = .data c rows args ∧ alts = .cons (.record fields) body .nil := by
  cases s <;> simp [uaTarget] at h
  rename_i c rows' args'
  cases alts with
  | nil => simp at h
  | cons p b rest =>
    cases rest with
    | cons _ _ _ => cases p <;> simp at h
    | nil =>
      cases p <;> simp at h
      obtain ⟨h1, h2, h3, h4⟩ := h
      subst h1 h2 h3 h4
      exact ⟨c, rfl, rfl⟩

mutual
theorem ua_correct (call : Caller) : ∀ (e : Expr) (k : Nat), noRec e = true → uaOK e = true →
    ∀ env, eval call env (ua e k).1 = eval call env e
  | .const _, _, _, _, _ => by simp only [ua]
  | .ident _, _, _, _, _ => by simp only [ua]
  | .call f args, k, hn, ho, env => by
    simp only [noRec, Bool.and_eq_true] at hn
    simp only [uaOK, Bool.and_eq_true] at ho
    simp only [ua, eval, ua_correct call f k hn.1 ho.1, ua_correctList call args _ hn.2 ho.2]
  | .data _ _ args, k, hn, ho, env => by
    simp only [noRec] at hn
    simp only [uaOK] at ho
    simp only [ua, eval, ua_correctList call args k hn ho]
  | .letE x e body, k, hn, ho, env => by
    simp only [noRec, Bool.and_eq_true] at hn
    simp only [uaOK, Bool.and_eq_true] at ho
    simp only [ua, eval, ua_correct call e k hn.1 ho.1]
    congr 1
    funext v
    exact ua_correct call body _ hn.2 ho.2 _
  | .letRec _ _, _, hn, _, _ => by simp [noRec] at hn
  | .matchE s alts, k, hn, ho, env => by
    simp only [noRec, Bool.and_eq_true] at hn
    simp only [ua]
    cases ht : uaTarget s alts with
    | some t =>
      obtain ⟨rows, args, fields, body⟩ := t
      obtain ⟨c, hs, ha⟩ := uaTarget_some ht
      subst hs ha
      simp only [uaOK, ht] at ho
      simp only [noRec, noRecAlts, Bool.and_eq_true] at hn
      exact target_correct call c rows args fields body k env hn.1 hn.2.1 ho
    | none =>
      simp only [uaOK, ht, Bool.and_eq_true] at ho
      simp only [eval, ua_correct call s k hn.1 ho.1]
      congr 1
      funext v
      exact ua_correctAlts call alts _ hn.2 ho.2 v env
  | .cast e, k, hn, ho, env => by
    simp only [noRec] at hn
    simp only [uaOK] at ho
    simp only [ua, eval]
    exact ua_correct call e k hn ho env
theorem ua_correctList (call : Caller) : ∀ (es : Exprs) (k : Nat), noRecList es = true →
    uaOKList es = true → ∀ env, evalList call env (uaList es k).1 = evalList call env es
  | .nil, _, _, _, _ => by simp only [uaList]
  | .cons e es, k, hn, ho, env => by
    simp only [noRecList, Bool.and_eq_true] at hn
    simp only [uaOKList, Bool.and_eq_true] at ho
    simp only [uaList, evalList, ua_correct call e k hn.1 ho.1, ua_correctList call es _ hn.2 ho.2]
theorem ua_correctAlts (call : Caller) : ∀ (alts : Alts) (k : Nat), noRecAlts alts = true →
    uaOKAlts alts = true → ∀ v env, evalAlts call env v (uaAlts alts k).1 = evalAlts call env v alts
  | .nil, _, _, _, _, _ => by simp only [uaAlts]
  | .cons p e rest, k, hn, ho, v, env => by
    simp only [noRecAlts, Bool.and_eq_true] at hn
    simp only [uaOKAlts, Bool.and_eq_true] at ho
    simp only [uaAlts, evalAlts]
    split
    · exact ua_correct call e k hn.1 ho.1 _
    · exact ua_correctAlts call rest _ hn.2 ho.2 v env
end

mutual
/-- The rewrite introduces no closure definitions. -/
theorem ua_noRec : ∀ (e : Expr) (k : Nat), noRec e = true → noRec (ua e k).1 = true
  | .const _, _, _ => by simp [ua, noRec]
  | .ident _, _, _ => by simp [ua, noRec]
  | .call f args, k, hn => by
    simp only [noRec, Bool.and_eq_true] at hn
    simp [ua, noRec, ua_noRec f k hn.1, ua_noRecList args _ hn.2]
  | .data _ _ args, k, hn => by
    simp only [noRec] at hn
    simp [ua, noRec, ua_noRecList args k hn]
  | .letE _ e body, k, hn => by
    simp only [noRec, Bool.and_eq_true] at hn
    simp [ua, noRec, ua_noRec e k hn.1, ua_noRec body _ hn.2]
  | .letRec _ _, _, hn => by simp [noRec] at hn
  | .matchE s alts, k, hn => by
    simp only [noRec, Bool.and_eq_true] at hn
    simp only [ua]
    cases ht : uaTarget s alts with
    | some t =>
      obtain ⟨rows, args, fields, body⟩ := t
      obtain ⟨c, hs, ha⟩ := uaTarget_some ht
      subst hs ha
      simp only [noRec, noRecAlts, Bool.and_eq_true] at hn
      exact makeLets_noRec fields body hn.2.1 args rows k hn.1
    | none => simp [noRec, ua_noRec s k hn.1, ua_noRecAlts alts _ hn.2]
  | .cast e, k, hn => by
    simp only [noRec] at hn
    simp [ua, noRec, ua_noRec e k hn]
theorem ua_noRecList : ∀ (es : Exprs) (k : Nat), noRecList es = true →
    noRecList (uaList es k).1 = true
  | .nil, _, _ => by simp [uaList, noRecList]
  | .cons e es, k, hn => by
    simp only [noRecList, Bool.and_eq_true] at hn
    simp [uaList, noRecList, ua_noRec e k hn.1, ua_noRecList es _ hn.2]
theorem ua_noRecAlts : ∀ (alts : Alts) (k : Nat), noRecAlts alts = true →
    noRecAlts (uaAlts alts k).1 = true
  | .nil, _, _ => by simp [uaAlts, noRecAlts]
  | .cons _ e rest, k, hn => by
    simp only [noRecAlts, Bool.and_eq_true] at hn
    simp [uaAlts, noRecAlts, ua_noRec e k hn.1, ua_noRecAlts rest _ hn.2]
theorem makeLets_noRec (fields : List (String × String)) (body : Expr) (hb : noRec body = true) :
    ∀ (args : Exprs) (rows : List String) (k : Nat), noRecList args = true →
    noRec (makeLets fields rows args body k).1 = true
  | .nil, rows, k, _ => by cases rows <;> simp [makeLets, hb]
  | .cons a as, rows, k, hn => by
    simp only [noRecList, Bool.and_eq_true] at hn
    cases rows with
    | nil => simp [makeLets, hb]
    | cons r rs => simp [makeLets, noRec, hn.1, makeLets_noRec fields body hb as rs _ hn.2]
end

end GluonModel.Proofs.Ua
