/- Lemmas for `GluonModel.ModuleRec`: (de ∘ ser) is the identity when the schema skips nothing. -/
import GluonModel.ModuleRec

namespace GluonModel.ModuleRec.Proofs
open GluonModel.ModuleRec GluonModel.Generated.ModuleFields

theorem lookupV_of_mem : (fs : List (String × V)) → (fs.map (·.1)).Nodup → (k : String) → (v : V) →
    (k, v) ∈ fs → lookupV k fs = some v
  | [], _, _, _, h => by cases h
  | (k', v') :: rest, hnd, k, v, h => by
    simp only [List.map_cons, List.nodup_cons] at hnd
    cases h with
    | head => simp [lookupV]
    | tail _ h =>
      have hne : k' ≠ k := by
        intro e; subst e
        exact hnd.1 (List.mem_map.mpr ⟨(k', v), h, rfl⟩)
      simp [lookupV, hne, lookupV_of_mem rest hnd.2 k v h]

theorem fill_id (all : List (String × V)) :
    (fis : List FieldInfo) → (fs : List (String × V)) →
    (∀ f ∈ fis, f.skipDe = false) → fs.map (·.1) = fis.map (·.name) →
    (∀ kv ∈ fs, lookupV kv.1 all = some kv.2) → fill fis all = some fs
  | [], fs, _, hn, _ => by
    cases fs with
    | nil => simp [fill]
    | cons x xs => simp at hn
  | f :: fis, fs, hsk, hn, hl => by
    cases fs with
    | nil => simp at hn
    | cons x xs =>
      obtain ⟨k, v⟩ := x
      simp only [List.map_cons, List.cons.injEq] at hn
      obtain ⟨hk, hn'⟩ := hn
      have ih := fill_id all fis xs (fun g hg => hsk g (List.mem_cons_of_mem _ hg)) hn'
        (fun kv hkv => hl kv (List.mem_cons_of_mem _ hkv))
      have h1 : f.skipDe = false := hsk f (List.mem_cons_self ..)
      have h2 : lookupV f.name all = some v := by
        have := hl (k, v) (List.mem_cons_self ..)
        simpa [← hk] using this
      subst hk
      simp only [fill] at ih ⊢
      simp [List.mapM_cons, h1, h2, ih]

theorem fieldsOf_mem (sc : Schema) (name : String) (fis : List FieldInfo)
    (h : fieldsOf sc name = some fis) : ∃ s ∈ sc, s.fields = fis := by
  simp only [fieldsOf, Option.map_eq_some_iff] at h
  obtain ⟨s, hs, hf⟩ := h
  exact ⟨s, List.mem_of_find?_eq_some hs, hf⟩

theorem written_true (fis : List FieldInfo) (h : ∀ f ∈ fis, f.skipSer = false) (k : String)
    (hk : k ∈ fis.map (·.name)) : written fis k = true := by
  simp only [written]
  cases hf : fis.find? (fun f => f.name == k) with
  | none =>
    obtain ⟨f, hf1, hf2⟩ := List.mem_map.mp hk
    have := List.find?_eq_none.mp hf f hf1
    simp [hf2] at this
  | some f =>
    have := h f (List.mem_of_find?_eq_some hf)
    simp [this]

mutual
theorem roundtripV (sc : Schema) (hns : noSkips sc = true) :
    (v : V) → Conforms sc v → deV sc (serV sc v) = some v
  | .leaf n, _ => by simp [serV, deV]
  | .seq xs, hc => by
    simp only [Conforms] at hc
    simp [serV, deV, roundtripL sc hns xs hc]
  | .struct name fs, hc => by
    simp only [Conforms] at hc
    obtain ⟨⟨fis, hfis, hnames⟩, hcf⟩ := hc
    obtain ⟨s, hs, hsf⟩ := fieldsOf_mem sc name fis hfis
    have hall := List.all_eq_true.mp hns s hs
    simp only [Bool.and_eq_true, List.all_eq_true, decide_eq_true_eq, Bool.not_eq_true'] at hall
    obtain ⟨⟨⟨_, _⟩, hflags⟩, hnd⟩ := hall
    rw [hsf] at hflags hnd
    have hser : ∀ f ∈ fis, f.skipSer = false := fun f hf => (hflags f hf).1.1
    have hde : ∀ f ∈ fis, f.skipDe = false := fun f hf => (hflags f hf).1.2
    have hw : ∀ kv ∈ fs, written fis kv.1 = true := by
      intro kv hkv
      apply written_true fis hser
      rw [← hnames]
      exact List.mem_map.mpr ⟨kv, hkv, rfl⟩
    have hF := roundtripF sc hns fis fs hcf hw
    have hnd' : (fs.map (·.1)).Nodup := by rw [hnames]; exact hnd
    have hfill := fill_id fs fis fs hde hnames
      (fun kv hkv => lookupV_of_mem fs hnd' kv.1 kv.2 hkv)
    simp [serV, deV, hfis, hF, hfill]
theorem roundtripL (sc : Schema) (hns : noSkips sc = true) :
    (vs : List V) → ConformsL sc vs → deVs sc (serVs sc vs) = some vs
  | [], _ => by simp [serVs, deVs]
  | v :: vs, hc => by
    simp only [ConformsL] at hc
    simp [serVs, deVs, roundtripV sc hns v hc.1, roundtripL sc hns vs hc.2]
theorem roundtripF (sc : Schema) (hns : noSkips sc = true) (fis : List FieldInfo) :
    (fs : List (String × V)) → ConformsF sc fs → (∀ kv ∈ fs, written fis kv.1 = true) →
    deFs sc (serFs sc fis fs) = some fs
  | [], _, _ => by simp [serFs, deFs]
  | (k, v) :: rest, hc, hw => by
    simp only [ConformsF] at hc
    have h1 : written fis k = true := hw (k, v) (List.mem_cons_self ..)
    have h2 := roundtripF sc hns fis rest hc.2 (fun kv hkv => hw kv (List.mem_cons_of_mem _ hkv))
    simp [serFs, deFs, h1, roundtripV sc hns v hc.1, h2]
end

end GluonModel.ModuleRec.Proofs
