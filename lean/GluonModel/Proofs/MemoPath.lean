import GluonModel.Memo
import GluonModel.MemoPath
import GluonModel.Proofs.Memo
import GluonModel.Proofs.MemoStale
/-
C15, round 5: the printed cycle path. In the first revision of a VM (no `import(k)` memo of an
earlier revision exists) every printed path is a closed chain of import edges of the sources.
-/
namespace GluonModel.Memo.Proofs
open GluonModel.Memo

/-- consecutive elements are import edges -/
def ChainE (srcs : Srcs) : List Mod → Prop
  | [] => True
  | [_] => True
  | a :: b :: l => Edge srcs a b ∧ ChainE srcs (b :: l)

/-- `p = x → … → x`, at least one edge, every step an import of the sources. -/
def IsCyc (srcs : Srcs) (p : Path) : Prop := ∃ x mid, p = x :: mid ++ [x] ∧ ChainE srcs p

theorem chainE_suffix (srcs : Srcs) : ∀ (a b : List Mod), ChainE srcs (a ++ b) → ChainE srcs b := by
  intro a
  induction a with
  | nil => intro b h; exact h
  | cons x a ih =>
    intro b h
    apply ih
    cases hab : a ++ b with
    | nil => trivial
    | cons y l =>
      rw [List.cons_append, hab] at h
      exact h.2

theorem chainE_snoc (srcs : Srcs) : ∀ (l : List Mod) (a b : Mod), ChainE srcs (l ++ [a]) → Edge srcs a b →
    ChainE srcs (l ++ [a] ++ [b]) := by
  intro l
  induction l with
  | nil => intro a b _ e; exact ⟨e, trivial⟩
  | cons x l ih =>
    intro a b h e
    cases l with
    | nil => exact ⟨h.1, e, trivial⟩
    | cons y l =>
      exact ⟨h.1, ih a b h.2 e⟩

theorem split_at_mem (stack : List Mod) (m : Mod) (h : m ∈ stack) :
    stack = stack.takeWhile (· != m) ++ m :: (stack.dropWhile (· != m)).drop 1 := by
  induction stack with
  | nil => cases h
  | cons a l ih =>
    by_cases e : a = m
    · subst e; simp
    · have hm : m ∈ l := by
        cases h with
        | head => exact absurd rfl e
        | tail _ h => exact h
      have hb : (a != m) = true := by simp [e]
      rw [List.takeWhile_cons, List.dropWhile_cons, hb]
      simp only [if_true, List.cons_append]
      rw [← ih hm]

theorem mem_addPath (ps : List Path) (q p : Path) (h : p ∈ addPath ps q) : p ∈ ps ∨ p = q := by
  unfold addPath at h
  split at h
  · exact .inl h
  · rw [List.mem_append] at h
    cases h with
    | inl h => exact .inl h
    | inr h => simp at h; exact .inr h

theorem mem_unionPaths (b : List Path) : ∀ (a : List Path) (p : Path), p ∈ unionPaths a b → p ∈ a ∨ p ∈ b := by
  induction b with
  | nil => intro a p h; exact .inl h
  | cons q b ih =>
    intro a p h
    simp only [unionPaths, List.foldl_cons] at h
    cases ih (addPath a q) p h with
    | inl h =>
      cases mem_addPath a q p h with
      | inl h => exact .inl h
      | inr h => exact .inr (h ▸ List.mem_cons_self)
    | inr h => exact .inr (List.mem_cons_of_mem _ h)

theorem mem_addDone (done : List Mod) (m k : Mod) (h : k ∈ addDone done m) : k = m ∨ k ∈ done := by
  unfold addDone at h
  split at h
  · exact .inr h
  · cases h with
    | head => exact .inl rfl
    | tail _ h => exact .inr h

/-- The invariant of the first revision while the modules of `stack` are in progress. -/
structure IP (srcs : Srcs) (stack : List Mod) (c : PCache) : Prop where
  done_memo : ∀ k ∈ c.done, c.memo.lookup k ≠ none
  stack_open : ∀ k ∈ stack, c.memo.lookup k = none ∧ srcs.lookup k ≠ none
  memo_cyc : ∀ m ps p, c.memo.lookup m = some ps → p ∈ ps → IsCyc srcs p

theorem lookupP_cons_ne (l : List (Mod × List Path)) (m k : Mod) (ps : List Path) (h : k ≠ m) :
    ((m, ps) :: l).lookup k = l.lookup k := by
  have hb : (k == m) = false := by simp [h]
  rw [List.lookup_cons, hb]

theorem lookupP_cons_self (l : List (Mod × List Path)) (m : Mod) (ps : List Path) :
    ((m, ps) :: l).lookup m = some ps := by
  rw [List.lookup_cons]; simp

theorem IP.memoise {srcs : Srcs} {stack : List Mod} {c : PCache} {m : Mod} {ps : List Path}
    (h : IP srcs stack c) (hm : m ∉ stack) (hps : ∀ p ∈ ps, IsCyc srcs p) :
    IP srcs stack ⟨(m, ps) :: c.memo, addDone c.done m⟩ := by
  refine ⟨?_, ?_, ?_⟩
  · intro k hk
    show ((m, ps) :: c.memo).lookup k ≠ none
    by_cases e : k = m
    · subst e; rw [lookupP_cons_self]; simp
    · rw [lookupP_cons_ne _ _ _ _ e]
      cases mem_addDone _ _ _ hk with
      | inl h' => exact absurd h' e
      | inr h' => exact h.done_memo k h'
  · intro k hk
    have e : k ≠ m := fun e => hm (e ▸ hk)
    show ((m, ps) :: c.memo).lookup k = none ∧ _
    rw [lookupP_cons_ne _ _ _ _ e]
    exact h.stack_open k hk
  · intro k qs p hk hp
    have hk' : ((m, ps) :: c.memo).lookup k = some qs := hk
    by_cases e : k = m
    · subst e
      rw [lookupP_cons_self] at hk'
      cases hk'
      exact hps p hp
    · rw [lookupP_cons_ne _ _ _ _ e] at hk'
      exact h.memo_cyc k qs p hk' hp

theorem evalDepsP_cyc (srcs : Srcs) (stack : List Mod) (ev : Mod → PCache → List Path × PCache)
    (deps : List (Mod × Bool))
    (hev : ∀ d ∈ deps, ∀ c, IP srcs stack c → IP srcs stack (ev d.1 c).2 ∧ ∀ p ∈ (ev d.1 c).1, IsCyc srcs p) :
    ∀ c, IP srcs stack c →
      IP srcs stack (evalDepsP ev deps c).2 ∧ ∀ p ∈ (evalDepsP ev deps c).1, IsCyc srcs p := by
  induction deps with
  | nil => intro c h; exact ⟨h, fun p hp => by cases hp⟩
  | cons d ds ih =>
    intro c h
    have h1 := hev d List.mem_cons_self c h
    have h2 := ih (fun d' hd' => hev d' (List.mem_cons_of_mem _ hd')) _ h1.1
    simp only [evalDepsP]
    refine ⟨h2.1, ?_⟩
    intro p hp
    cases mem_unionPaths _ _ p hp with
    | inl hp => exact h1.2 p hp
    | inr hp => exact h2.2 p hp

theorem evalP_cyc (srcs : Srcs) :
    ∀ f stack m c, IP srcs stack c → ChainE srcs (stack ++ [m]) →
      IP srcs stack (evalP srcs f stack m c).2 ∧ ∀ p ∈ (evalP srcs f stack m c).1, IsCyc srcs p := by
  intro f
  induction f with
  | zero => intro stack m c h _; exact ⟨h, fun p hp => by cases hp⟩
  | succ f ih =>
    intro stack m c h hch
    unfold evalP
    cases hmemo : c.memo.lookup m with
    | some ps => exact ⟨h, fun p hp => h.memo_cyc m ps p hmemo hp⟩
    | none =>
      simp only []
      cases hl : srcs.lookup m with
      | none =>
        simp only []
        refine ⟨h.memoise ?_ (fun p hp => by cases hp), fun p hp => by cases hp⟩
        intro hm
        exact (h.stack_open m hm).2 hl
      | some s =>
        simp only []
        by_cases hin : stack.contains m = true
        · rw [if_pos hin]
          refine ⟨h, ?_⟩
          intro p hp
          simp only [List.mem_singleton] at hp
          subst hp
          have hmem : m ∈ stack := by simpa using hin
          have hsplit := split_at_mem stack m hmem
          generalize hseg : (stack.dropWhile (· != m)).drop 1 = seg at hsplit
          have hfil : seg.filter (fun k => !c.done.contains k) = seg := by
            rw [List.filter_eq_self]
            intro k hk
            have hks : k ∈ stack := by
              rw [hsplit]; simp [hk]
            have hopen := (h.stack_open k hks).1
            cases hd : c.done.contains k with
            | false => rfl
            | true =>
              exfalso
              exact h.done_memo k (by simpa using hd) hopen
          unfold cyclePath
          rw [hseg, hfil]
          refine ⟨m, seg, rfl, ?_⟩
          have : ChainE srcs (stack.takeWhile (· != m) ++ (m :: seg ++ [m])) := by
            have e : stack.takeWhile (· != m) ++ (m :: seg ++ [m]) = stack ++ [m] := by
              conv => rhs; rw [hsplit]
              simp
            rw [e]; exact hch
          exact chainE_suffix srcs _ _ this
        · rw [if_neg hin]
          have hnm : m ∉ stack := by simpa using hin
          have h' : IP srcs (stack ++ [m]) c := by
            refine ⟨h.done_memo, ?_, h.memo_cyc⟩
            intro k hk
            rw [List.mem_append] at hk
            cases hk with
            | inl hk => exact h.stack_open k hk
            | inr hk =>
              simp at hk; subst hk
              exact ⟨hmemo, by rw [hl]; simp⟩
          have hd := evalDepsP_cyc srcs (stack ++ [m]) (evalP srcs f (stack ++ [m])) s.deps
            (by
              intro d hd c' hc'
              apply ih _ d.1 c' hc'
              exact chainE_snoc srcs stack m d.1 hch ⟨s, d.2, hl, by cases d; exact hd⟩)
            c h'
          generalize (evalDepsP (evalP srcs f (stack ++ [m])) s.deps c) = rs at hd
          simp only []
          refine ⟨?_, hd.2⟩
          have hbase : IP srcs stack rs.2 :=
            ⟨hd.1.done_memo, fun k hk => hd.1.stack_open k (List.mem_append_left _ hk), hd.1.memo_cyc⟩
          exact hbase.memoise hnm hd.2

theorem ip_init (srcs : Srcs) : IP srcs [] PCache.init := by
  refine ⟨?_, ?_, ?_⟩
  · intro k hk
    simp [PCache.init] at hk
  · intro k hk
    cases hk
  · intro m ps p h
    simp [PCache.init] at h

theorem getP_cyc (srcs : Srcs) (m : Mod) (c : PCache) (h : IP srcs [] c) :
    IP srcs [] (getP srcs m c).2 ∧ ∀ p ∈ (getP srcs m c).1, IsCyc srcs p :=
  evalP_cyc srcs _ [] m c h trivial

/-! ### Histories that stay in the first revision -/

theorem chainE_mono {srcs srcs' : Srcs} (h : ∀ a b, Edge srcs a b → Edge srcs' a b) :
    ∀ l, ChainE srcs l → ChainE srcs' l := by
  intro l
  induction l with
  | nil => intro _; trivial
  | cons a l ih =>
    intro hc
    cases l with
    | nil => trivial
    | cons b l => exact ⟨h a b hc.1, ih hc.2⟩

theorem edge_set_new (srcs : Srcs) (m : Mod) (t : Src) (hn : srcs.lookup m = none) (a b : Mod)
    (e : Edge srcs a b) : Edge (srcs.set m t) a b := by
  obtain ⟨s, u, hl, hm⟩ := e
  refine ⟨s, u, ?_, hm⟩
  rw [lookup_set]
  have : a ≠ m := by
    intro e; subst e; rw [hn] at hl; cases hl
  simp [this, hl]

theorem stepP_fst (p : St × PCache) (op : Op) : (stepP p op).1 = step false p.1 op := by
  cases op <;> rfl

theorem stepP_ip (p : St × PCache) (op : Op) (h : IP p.1.srcs [] p.2)
    (hr : (stepP p op).1.rev = p.1.rev) : IP (stepP p op).1.srcs [] (stepP p op).2 := by
  cases op with
  | get m => exact (getP_cyc p.1.srcs m p.2 h).1
  | set m t =>
    have hr' : (setSrc false p.1 m t).rev = p.1.rev := hr
    show IP (setSrc false p.1 m t).srcs [] (setP p.1 (setSrc false p.1 m t) p.2)
    unfold setP
    rw [if_pos hr']
    have key : (setSrc false p.1 m t).srcs = p.1.srcs ∨
        (p.1.srcs.lookup m = none ∧ (setSrc false p.1 m t).srcs = p.1.srcs.set m t) := by
      unfold setSrc at hr' ⊢
      cases hl : p.1.srcs.lookup m with
      | some old =>
        rw [hl] at hr'
        by_cases e : old = t
        · left; simp [e]
        · simp [e, St.bump] at hr'
      | none => right; simp
    cases key with
    | inl e => rw [e]; exact h
    | inr e =>
      rw [e.2]
      refine ⟨h.done_memo, fun k hk => (by cases hk), ?_⟩
      intro k ps q hk hq
      obtain ⟨x, mid, e', hc⟩ := h.memo_cyc k ps q hk hq
      exact ⟨x, mid, e', chainE_mono (edge_set_new p.1.srcs m t e.1) q hc⟩

theorem replayP_ip (ops : List Op) :
    ∀ p, IP p.1.srcs [] p.2 → (replayP ops p).1.rev = p.1.rev →
      IP (replayP ops p).1.srcs [] (replayP ops p).2 := by
  induction ops with
  | nil => intro p h _; exact h
  | cons op ops ih =>
    intro p h hr
    have hmono : ∀ (ops : List Op) (q : St × PCache), q.1.rev ≤ (replayP ops q).1.rev := by
      intro ops
      induction ops with
      | nil => intro q; exact Nat.le_refl _
      | cons o os ih' =>
        intro q
        have h1 : q.1.rev ≤ (stepP q o).1.rev := by
          rw [stepP_fst]
          cases step_rev false q.1 o with
          | inl h => omega
          | inr h => omega
        exact Nat.le_trans h1 (ih' (stepP q o))
    have h1 : p.1.rev ≤ (stepP p op).1.rev := hmono [op] p
    have h2 : (stepP p op).1.rev ≤ (replayP ops (stepP p op)).1.rev := hmono ops _
    have hr' : (replayP ops (stepP p op)).1.rev = p.1.rev := hr
    have e1 : (stepP p op).1.rev = p.1.rev := by omega
    exact ih (stepP p op) (stepP_ip p op h e1) (by omega)

/-! ### Decidable edge test (for concrete counterexamples) -/

def edgeB (srcs : Srcs) (x y : Mod) : Bool :=
  match srcs.lookup x with
  | some s => s.deps.any (fun d => d.1 == y)
  | none => false

theorem edge_iff (srcs : Srcs) (x y : Mod) : Edge srcs x y ↔ edgeB srcs x y = true := by
  unfold edgeB
  constructor
  · intro ⟨s, u, hl, hm⟩
    rw [hl]
    simp only [List.any_eq_true]
    exact ⟨(y, u), hm, by simp⟩
  · intro h
    cases hl : srcs.lookup x with
    | none => rw [hl] at h; cases h
    | some s =>
      rw [hl] at h
      simp only [List.any_eq_true] at h
      obtain ⟨d, hd, he⟩ := h
      have : d.1 = y := by simpa using he
      exact ⟨s, d.2, hl, by cases d; cases this; exact hd⟩

end GluonModel.Memo.Proofs
