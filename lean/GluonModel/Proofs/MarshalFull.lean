import GluonModel.Marshal
import GluonModel.Proofs.Marshal
namespace GluonModel.Marshal.Proofs
open GluonModel.Marshal

/-! ### names -/

def nodupB : List String → Bool
  | [] => true
  | x :: xs => !xs.contains x && nodupB xs

/-- keys strictly increasing (a `BTreeMap`'s iteration order) -/
def sortedKeys : List (String × Val) → Bool
  | [] => true
  | [_] => true
  | (k₁, _) :: (k₂, v₂) :: rest => decide (k₁ < k₂) && sortedKeys ((k₂, v₂) :: rest)

/-! ### well-typed values, all type codes -/

mutual
def WT : TCode → Val → Bool
  | .unit, .unit => true
  | .u8, .u8 _ => true
  | .int t, .int t' n => decide (t = t') && inRange t n
  | .f32, .f32 b => f64to32 (f32to64 b) == b
  | .f64, .f64 _ => true
  | .bool, .bool _ => true
  | .char, .char c => validChar c
  | .string, .str _ => true
  | .ordering, .ord o => decide (o ≤ 2)
  | .option _, .none => true
  | .option t, .some v => WT t v
  | .result t _, .ok v => WT t v
  | .result _ e, .err v => WT e v
  | .vec t, .vec vs => vs.all (fun v => WT t v)
  | .tuple ts, .tuple vs => WTs ts vs
  | .map t, .map kvs => kvs.all (fun kv => WT t kv.2) && sortedKeys kvs
  | .struct fs, .struct vs => WTf fs vs && nodupB (namesOf vs)
  | .newtype t, .newtype v => WT t v
  | .tstruct ts, .tstruct vs => WTs ts vs
  | .ustruct, .ustruct => true
  | .enum _ vars, .var i p => WTv vars i p
  | _, _ => false
def WTs : List TCode → List Val → Bool
  | [], [] => true
  | t :: ts, v :: vs => WT t v && WTs ts vs
  | _, _ => false
def WTf : List (String × TCode) → List (String × Val) → Bool
  | [], [] => true
  | (n, t) :: fs, (m, v) :: vs => decide (n = m) && WT t v && WTf fs vs
  | _, _ => false
def WTv : List TCode → Nat → Val → Bool
  | .vunit :: _, 0, .vunit => true
  | .vtuple ts :: _, 0, .vtuple vs => WTs ts vs
  | .vstruct fs :: _, 0, .vstruct vs => WTf fs vs && nodupB (namesOf vs)
  | _ :: vars, n + 1, p => WTv vars n p
  | _, _, _ => false
end

theorem WTs_length : ∀ ts vs, WTs ts vs = true → vs.length = ts.length
  | [], [], _ => rfl
  | t :: ts, v :: vs, h => by
    simp [WTs] at h
    simp [WTs_length ts vs h.2]
  | [], _ :: _, h => by simp [WTs] at h
  | _ :: _, [], h => by simp [WTs] at h

theorem WTv_payload : ∀ (vars : List TCode) (i : Nat) (p : Val), WTv vars i p = true →
    p = .vunit ∨ (∃ vs, p = .vtuple vs) ∨ (∃ fs, p = .vstruct fs)
  | [], i, p, h => by simp [WTv] at h
  | c :: vars, 0, p, h => by
    cases c <;> cases p <;> simp [WTv] at h <;> simp
  | c :: vars, i + 1, p, h => by
    have h' : WTv vars i p = true := by
      cases c <;> cases p <;> simp_all [WTv]
    exact WTv_payload vars i p h'

/-! ### lookup by field name -/

theorem lookupIdx_append (n : String) (rest : List String) :
    ∀ (pre : List String) (i : Nat), n ∉ pre → lookupIdx n (pre ++ n :: rest) i = some (i + pre.length)
  | [], i, _ => by simp [lookupIdx]
  | m :: pre, i, h => by
    simp at h
    have hm : m ≠ n := fun e => h.1 e.symm
    simp only [List.cons_append, lookupIdx, hm, if_false]
    rw [lookupIdx_append n rest pre (i + 1) h.2]
    simp; omega

theorem lookupField_record (n : String) (preN rest : List String) (preF restF : List GV) (x : GV)
    (hn : n ∉ preN) (hl : preN.length = preF.length) :
    lookupField (.record (preN ++ n :: rest) (preF ++ x :: restF)) n = some x := by
  simp only [lookupField, lookupIdx_append n rest preN 0 hn]
  simp [hl]

theorem namesOf_mem_nodup (n : String) (v : Val) (vs : List (String × Val))
    (h : nodupB (namesOf ((n, v) :: vs)) = true) : n ∉ namesOf vs ∧ nodupB (namesOf vs) = true := by
  simp [namesOf, nodupB] at h
  exact ⟨h.1, h.2⟩

/-! ### the gluon map -/

def spine : List (String × GV) → Tree
  | [] => .tip
  | (k, v) :: rest => .bin k v .tip (spine rest)

theorem insert_spine (k : String) (v : GV) :
    ∀ l : List (String × GV), (∀ p ∈ l, p.1 < k) → Tree.insert k v (spine l) = spine (l ++ [(k, v)])
  | [], _ => by simp [spine, Tree.insert]
  | (k2, v2) :: rest, h => by
    have h2 : k2 < k := h (k2, v2) (by simp)
    have n1 : ¬ k < k2 := String.lt_asymm h2
    have n2 : k ≠ k2 := fun e => String.lt_irrefl k (e ▸ h2)
    have ih := insert_spine k v rest (fun p hp => h p (by simp [hp]))
    simp [spine, Tree.insert, n1, n2, ih]

def sortedG : List (String × GV) → Bool
  | [] => true
  | [_] => true
  | (k₁, _) :: (k₂, v₂) :: rest => decide (k₁ < k₂) && sortedG ((k₂, v₂) :: rest)

theorem sortedG_head_lt : ∀ (k : String) (v : GV) (rest : List (String × GV)),
    sortedG ((k, v) :: rest) = true → ∀ p ∈ rest, k < p.1
  | _, _, [], _ => by simp
  | k, v, (k2, v2) :: rest, h => by
    simp [sortedG] at h
    intro p hp
    simp at hp
    rcases hp with rfl | hp
    · exact h.1
    · exact String.lt_trans h.1 (sortedG_head_lt k2 v2 rest h.2 p hp)

theorem sortedG_tail (p : String × GV) (rest : List (String × GV)) (h : sortedG (p :: rest) = true) :
    sortedG rest = true := by
  cases rest with
  | nil => rfl
  | cons q rest => obtain ⟨k, v⟩ := p; obtain ⟨k2, v2⟩ := q; simp [sortedG] at h; exact h.2

/-- folding `insert` over keys that are increasing and all above those already in the spine
    just extends the spine -/
theorem foldl_insert_spine : ∀ (kvs acc : List (String × GV)),
    sortedG kvs = true → (∀ a ∈ acc, ∀ p ∈ kvs, a.1 < p.1) →
    kvs.foldl (fun m kv => Tree.insert kv.1 kv.2 m) (spine acc) = spine (acc ++ kvs)
  | [], acc, _, _ => by simp
  | (k, v) :: rest, acc, hs, ha => by
    have h1 : Tree.insert k v (spine acc) = spine (acc ++ [(k, v)]) :=
      insert_spine k v acc (fun a hp => ha a hp (k, v) (by simp))
    have hlt := sortedG_head_lt k v rest hs
    have ih := foldl_insert_spine rest (acc ++ [(k, v)]) (sortedG_tail _ _ hs) (by
      intro a hm p hp
      simp at hm
      rcases hm with hm | rfl
      · exact ha a hm p (by simp [hp])
      · exact hlt p hp)
    simp [List.foldl, h1, ih]

theorem buildMap_sorted (kvs : List (String × GV)) (h : sortedG kvs = true) :
    buildMap kvs = spine kvs := by
  have := foldl_insert_spine kvs [] h (by simp)
  simpa [buildMap, spine] using this

theorem insertSorted_end (k : String) (v : Val) :
    ∀ acc : List (String × Val), (∀ a ∈ acc, a.1 < k) → insertSorted k v acc = acc ++ [(k, v)]
  | [], _ => by simp [insertSorted]
  | (k2, v2) :: rest, h => by
    have h2 : k2 < k := h (k2, v2) (by simp)
    have n1 : ¬ k < k2 := String.lt_asymm h2
    have n2 : k ≠ k2 := fun e => String.lt_irrefl k (e ▸ h2)
    simp [insertSorted, n1, n2, insertSorted_end k v rest (fun a ha => h a (by simp [ha]))]

theorem sortedKeys_head_lt : ∀ (k : String) (v : Val) (rest : List (String × Val)),
    sortedKeys ((k, v) :: rest) = true → ∀ p ∈ rest, k < p.1
  | _, _, [], _ => by simp
  | k, v, (k2, v2) :: rest, h => by
    simp [sortedKeys] at h
    intro p hp
    simp at hp
    rcases hp with rfl | hp
    · exact h.1
    · exact String.lt_trans h.1 (sortedKeys_head_lt k2 v2 rest h.2 p hp)

theorem sortedKeys_tail (p : String × Val) (rest : List (String × Val)) (h : sortedKeys (p :: rest) = true) :
    sortedKeys rest = true := by
  cases rest with
  | nil => rfl
  | cons q rest => obtain ⟨k, v⟩ := p; obtain ⟨k2, v2⟩ := q; simp [sortedKeys] at h; exact h.2

theorem sortedG_pushKV : ∀ kvs : List (String × Val), sortedKeys kvs = true → sortedG (pushKV kvs) = true
  | [], _ => by simp [pushKV, sortedG]
  | [(k, v)], _ => by simp [pushKV, sortedG]
  | (k, v) :: (k2, v2) :: rest, h => by
    simp [sortedKeys] at h
    have ih := sortedG_pushKV ((k2, v2) :: rest) h.2
    simp [pushKV] at ih
    simp [pushKV, sortedG, h.1, ih]

/-- reading the spine back: node, (empty) left, right -/
theorem fromMap_spine (getv : GV → Option Val) :
    ∀ (kvs acc : List (String × Val)), (∀ p ∈ kvs, getv (push p.2) = some p.2) →
    sortedKeys kvs = true → (∀ a ∈ acc, ∀ p ∈ kvs, a.1 < p.1) →
    fromMap getv (spine (pushKV kvs)).toGV acc = some (acc ++ kvs)
  | [], acc, _, _, _ => by simp [pushKV, spine, Tree.toGV, fromMap]
  | (k, v) :: rest, acc, hg, hs, ha => by
    have hv : getv (push v) = some v := hg (k, v) (by simp)
    have hi : insertSorted k v acc = acc ++ [(k, v)] :=
      insertSorted_end k v acc (fun a hm => ha a hm (k, v) (by simp))
    have hlt := sortedKeys_head_lt k v rest hs
    have ih := fromMap_spine getv rest (acc ++ [(k, v)]) (fun p hp => hg p (by simp [hp]))
      (sortedKeys_tail _ _ hs) (by
        intro a hm p hp
        simp at hm
        rcases hm with hm | rfl
        · exact ha a hm p (by simp [hp])
        · exact hlt p hp)
    simp [pushKV, spine, Tree.toGV, fromMap, hv, hi, ih]


/-! ### the round trip, all type codes -/

mutual
theorem get_push_full : ∀ (c : TCode) (v : Val), WT c v = true → get c (push v) = some v
  | .unit, v, h => by cases v <;> simp [WT] at h; simp [push, get]
  | .u8, v, h => by cases v <;> simp [WT] at h; simp [push, get]
  | .int t, v, h => by
    cases v <;> simp [WT] at h
    obtain ⟨rfl, h2⟩ := h
    simp [push, get, int_roundtrip _ _ h2]
  | .f32, v, h => by
    cases v <;> simp [WT] at h
    simp [push, get, h]
  | .f64, v, h => by cases v <;> simp [WT] at h; simp [push, get]
  | .bool, v, h => by
    cases v <;> simp [WT] at h
    rename_i b
    cases b <;> simp [push, get, tagOf]
  | .char, v, h => by
    cases v <;> simp [WT] at h
    simp [push, get, char_roundtrip _ h]
  | .string, v, h => by cases v <;> simp [WT] at h; simp [push, get]
  | .ordering, v, h => by
    cases v <;> simp [WT] at h
    simp [push, get, tagOf, h]
  | .option t, v, h => by
    cases v <;> simp [WT] at h
    · simp [push, get, tagOf]
    · simp [push, get, tagOf, fieldsOf, get_push_full t _ h]
  | .result t e, v, h => by
    cases v <;> simp [WT] at h
    · simp [push, get, tagOf, fieldsOf, get_push_full t _ h]
    · simp [push, get, tagOf, fieldsOf, get_push_full e _ h]
  | .vec t, v, h => by
    cases v <;> simp [WT] at h
    rename_i vs
    obtain ⟨r, hr⟩ := mkArray_shape (pushL vs)
    have hm := mapMOpt_pushL (fun x => get t x) vs (fun w hw => get_push_full t w (h w hw))
    simp [push, hr, get, hm]
  | .tuple ts, v, h => by
    cases v <;> simp [WT] at h
    rename_i vs
    have hl := WTs_length ts vs h
    have hg := getTs_push_full ts vs [] h
    simp at hg
    simp [push, get, tagOf, fieldsOf, pushL_length, hl, hg]
  | .map t, v, h => by
    cases v <;> simp [WT] at h
    rename_i kvs
    have hb := buildMap_sorted (pushKV kvs) (sortedG_pushKV kvs h.2)
    have hf := fromMap_spine (fun x => get t x) kvs []
      (fun p hp => get_push_full t p.2 (h.1 p.1 p.2 hp)) h.2 (by simp)
    simp at hf
    simp [push, get, hb, hf]
  | .struct fs, v, h => by
    cases v <;> simp [WT] at h
    rename_i vs
    have hg := getFs_push_full fs vs [] [] h.1 (by simp) h.2 rfl
    simp at hg
    simp [push, get, tagOf, hg]
  | .newtype t, v, h => by
    cases v <;> simp [WT] at h
    simp [push, get, get_push_full t _ h]
  | .tstruct ts, v, h => by
    cases v <;> simp [WT] at h
    rename_i vs
    have hg := getTs_push_full ts vs [] h
    simp at hg
    simp [push, get, tagOf, fieldsOf, hg]
  | .ustruct, v, h => by cases v <;> simp [WT] at h; simp [push, get]
  | .enum n vars, v, h => by
    cases v <;> simp [WT] at h
    rename_i i p
    have hv := getVariant_push_full vars i p h i
    rcases WTv_payload vars i p h with rfl | ⟨vs, rfl⟩ | ⟨fs, rfl⟩
    · have ht : tagOf (push (.var i .vunit)) = some i := by simp [push, tagOf]
      simp only [get, ht, hv]
    · have ht : tagOf (push (.var i (.vtuple vs))) = some i := by simp [push, tagOf]
      simp only [get, ht, hv]
    · have ht : tagOf (push (.var i (.vstruct fs))) = some i := by simp [push, tagOf]
      simp only [get, ht, hv]
  | .vunit, v, h => by cases v <;> simp [WT] at h
  | .vtuple _, v, h => by cases v <;> simp [WT] at h
  | .vstruct _, v, h => by cases v <;> simp [WT] at h
theorem getTs_push_full : ∀ (ts : List TCode) (vs : List Val) (pre : List GV), WTs ts vs = true →
    getTs ts (pre ++ pushL vs) pre.length = some vs
  | [], [], pre, _ => by simp [getTs]
  | t :: ts, v :: vs, pre, h => by
    simp [WTs] at h
    have h1 := get_push_full t v h.1
    have h2 := getTs_push_full ts vs (pre ++ [push v]) h.2
    simp at h2
    simp [pushL, getTs, h1, h2]
  | [], _ :: _, _, h => by simp [WTs] at h
  | _ :: _, [], _, h => by simp [WTs] at h
theorem getFs_push_full : ∀ (fs : List (String × TCode)) (vs : List (String × Val))
    (preN : List String) (preF : List GV), WTf fs vs = true → (∀ n ∈ namesOf vs, n ∉ preN) →
    nodupB (namesOf vs) = true → preN.length = preF.length →
    getFs fs (.record (preN ++ namesOf vs) (preF ++ pushF vs)) = some vs
  | [], [], _, _, _, _, _, _ => by simp [getFs]
  | (n, t) :: fs, (m, v) :: vs, preN, preF, h, hn, hd, hl => by
    simp [WTf] at h
    obtain ⟨⟨rfl, hv⟩, hrest⟩ := h
    have hnot : n ∉ preN := hn n (by simp [namesOf])
    obtain ⟨hnr, hdr⟩ := namesOf_mem_nodup n v vs hd
    have hlook := lookupField_record n preN (namesOf vs) preF (pushF vs) (push v) hnot hl
    have h1 := get_push_full t v hv
    have h2 := getFs_push_full fs vs (preN ++ [n]) (preF ++ [push v]) hrest (by
      intro k hk
      simp
      exact ⟨hn k (by simp [namesOf, hk]), fun e => hnr (e ▸ hk)⟩) hdr (by simp [hl])
    simp at h2
    simp [namesOf, pushF, getFs, hlook, h1, h2]
  | [], _ :: _, _, _, h, _, _, _ => by simp [WTf] at h
  | _ :: _, [], _, _, h, _, _, _ => by simp [WTf] at h
theorem getVariant_push_full : ∀ (vars : List TCode) (i : Nat) (p : Val), WTv vars i p = true →
    ∀ j, getVariant vars i (push (.var j p)) = some p
  | [], i, p, h => by simp [WTv] at h
  | c :: vars, 0, p, h => by
    intro j
    cases c <;> cases p <;> simp [WTv] at h
    · simp [getVariant]
    · rename_i ts vs
      have hg := getTs_push_full ts vs [] h
      simp at hg
      simp [push, getVariant, fieldsOf, hg]
    · rename_i fs vs
      have hg := getFs_push_full fs vs [] [] h.1 (by simp) h.2 rfl
      simp at hg
      simp [push, getVariant, fieldsOf, tagOf, hg]
  | c :: vars, i + 1, p, h => by
    intro j
    have h' : WTv vars i p = true := by
      cases c <;> cases p <;> simp_all [WTv]
    simpa [getVariant] using getVariant_push_full vars i p h' j
end

end GluonModel.Marshal.Proofs
