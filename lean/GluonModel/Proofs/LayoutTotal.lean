/-
Global termination of the layout iterator: a potential `pot` that every call of
`layout_next_token` returning a non-EOF token strictly decreases (under the stack invariant
`BottomBlock`).  Weights: a real token 40, a queued OpenBlock 5, a queued CloseBlock 2, EOF 0;
a Block context 5 (+1 while `emit_semi`), a Let/Type context 15, any other context 4; plus a
column-aware term for the token about to be processed: 6 if the stack is empty (an OpenBlock
will be inserted), 4 if it stands left of the Block on top (a CloseBlock will be inserted).
-/
import GluonModel.LayoutAlgo
import GluonModel.Proofs.LayoutAlgo

namespace GluonModel.LayoutAlgo.Proofs
open GluonModel.LayoutAlgo

def W : Kind → Nat
  | .eof => 0
  | .openBlock => 5
  | .closeBlock => 2
  | _ => 40

theorem W_le (k : Kind) : W k ≤ 40 := by cases k <;> simp [W]

def wl : List Tok → Nat
  | [] => 0
  | t :: r => W t.kind + wl r

theorem wl_append (a b : List Tok) : wl (a ++ b) = wl a + wl b := by
  induction a with
  | nil => simp [wl]
  | cons t r ih => simp [wl, ih]; omega

theorem wl_le (l : List Tok) : wl l ≤ 40 * l.length := by
  induction l with
  | nil => simp [wl]
  | cons t r ih => simp only [wl, List.length_cons]; have := W_le t.kind; omega

def tw (st : St) : Nat := wl st.unproc + wl st.input

def cwOne (o : Offside) : Nat :=
  match o.ctx with
  | .block true => 6
  | .block false => 5
  | .let_ | .type_ => 15
  | _ => 4

theorem cwOne_ge (o : Offside) : 4 ≤ cwOne o := by
  unfold cwOne; split <;> omega
theorem cwOne_le (o : Offside) : cwOne o ≤ 15 := by
  unfold cwOne; split <;> omega
theorem cwOne_block {o : Offside} (h : o.ctx.isBlock = true) : 5 ≤ cwOne o ∧ cwOne o ≤ 6 := by
  obtain ⟨loc, ctx⟩ := o
  cases ctx <;> simp [Ctx.isBlock] at h
  rename_i b; cases b <;> simp [cwOne]

def cw : List Offside → Nat
  | [] => 0
  | o :: r => cwOne o + cw r

theorem cw_tail (l : List Offside) : cw l.tail ≤ cw l := by
  cases l <;> simp [cw]

theorem cw_setTop_false (l : List Offside) : cw (setTopSemi false l) ≤ cw l := by
  cases l with
  | nil => simp [setTopSemi]
  | cons o r =>
    simp only [setTopSemi, cw]
    split
    · rename_i b hb
      have : cwOne { loc := o.loc, ctx := Ctx.block false } ≤ cwOne o := by
        cases b <;> simp [cwOne, hb]
      omega
    · omega

theorem cw_setTop_true (l : List Offside) : cw (setTopSemi true l) ≤ cw l + 1 := by
  cases l with
  | nil => simp [setTopSemi]
  | cons o r =>
    simp only [setTopSemi, cw]
    split
    · rename_i b hb
      have : cwOne { loc := o.loc, ctx := Ctx.block true } ≤ cwOne o + 1 := by
        cases b <;> simp [cwOne, hb]
      omega
    · omega

/-- The column-aware term for the token about to be processed. -/
def eta (t : Tok) : List Offside → Nat
  | [] => if t.kind = .eof then 0 else 6
  | o :: _ => if o.ctx.isBlock = true ∧ isClosingKind t.kind = false ∧ t.loc.col < o.loc.col then 4 else 0

theorem eta_le (t : Tok) (l : List Offside) : eta t l ≤ 6 := by
  cases l <;> simp only [eta] <;> split <;> omega
theorem eta_le_ne {t : Tok} {l : List Offside} (h : l ≠ []) : eta t l ≤ 4 := by
  cases l with
  | nil => exact absurd rfl h
  | cons o r => simp only [eta]; split <;> omega
theorem eta_closing {t : Tok} {l : List Offside} (h : l ≠ []) (hc : isClosingKind t.kind = true) :
    eta t l = 0 := by
  cases l with
  | nil => exact absurd rfl h
  | cons o r => simp [eta, hc]

/-- `layout_next_token` sets the column of an EOF to 0 (layout.rs:281-284). -/
def norm (t : Tok) : Tok := if t.kind = .eof then { t with loc := { t.loc with col := 0 } } else t

theorem norm_kind (t : Tok) : (norm t).kind = t.kind := by unfold norm; split <;> rfl

/-- The token the next call will process. -/
def head (st : St) : Tok :=
  norm (match st.unproc with
    | t :: _ => t
    | [] => match st.input with
      | t :: _ => t
      | [] => { st.eofTok with kind := .eof })

/-- Potential of a state between two calls. -/
def pot (st : St) : Nat := tw st + cw st.stack + eta (head st) st.stack
/-- Potential inside a call: the token in hand is counted separately. -/
def pot' (t : Tok) (st : St) : Nat := W t.kind + tw st + cw st.stack + eta t st.stack

theorem pot_le (st : St) : pot st ≤ tw st + cw st.stack + 6 := by
  unfold pot; have := eta_le (head st) st.stack; omega
theorem pot_le_ne (st : St) (h : st.stack ≠ []) : pot st ≤ tw st + cw st.stack + 4 := by
  unfold pot; have := eta_le_ne (t := head st) h; omega

/-! ### What the sub-functions do to the token weight -/

theorem fetch_tw {st : St} {t : Tok} {st' : St} (h : fetch st = .ok (t, st')) :
    W t.kind + wl st'.input = wl st.input ∧ st'.unproc = st.unproc ∧ st'.stack = st.stack := by
  unfold fetch at h
  split at h
  · rename_i a rest hin
    split at h
    · cases h
    · cases h; simp [hin, wl]
  · rename_i hin
    cases h; simp [hin, wl, W]

theorem nextToken_tw {st : St} {t : Tok} {st' : St} (h : nextToken st = .ok (t, st')) :
    W t.kind + tw st' = tw st ∧ st'.stack = st.stack ∧ head st = norm t := by
  unfold nextToken at h
  split at h
  · rename_i a rest hu
    cases h
    simp [tw, hu, wl, head]; omega
  · rename_i hu
    obtain ⟨h1, h2, h3⟩ := fetch_tw h
    refine ⟨by simp [tw, h2, hu, wl] at *; omega, h3, ?_⟩
    unfold fetch at h
    simp only [head, hu]
    split at h
    · rename_i a rest hin
      split at h
      · cases h
      · cases h; simp [hin]
    · rename_i hin
      cases h; simp [hin]

theorem peekToken_tw (k : Nat) (st : St) {o : Option Tok} {st' : St}
    (h : peekToken k st = .ok (o, st')) : tw st' = tw st := by
  induction k generalizing st with
  | zero => simp only [peekToken] at h; cases h; rfl
  | succ k ih =>
    simp only [peekToken] at h
    split at h
    · cases h
    · rename_i t st1 hf
      obtain ⟨h1, h2, _⟩ := fetch_tw hf
      have := ih _ h
      simp only [tw, wl_append, wl] at this ⊢
      rw [h2] at this
      omega

theorem scanLoop_tw (expected : Kind) (fuel i : Nat) (inAttr : Bool) (first : Tok) (st : St)
    {b : Bool} {st' : St} (h : scanLoop expected fuel i inAttr first st = .done b st') :
    tw st' = tw st := by
  induction fuel generalizing i inAttr st with
  | zero => exact absurd h (by simp [scanLoop])
  | succ fuel ih =>
    unfold scanLoop at h
    simp only at h
    split at h
    · cases h
    · rename_i st1 hp
      cases h
      split at hp
      · cases hp
      · exact peekToken_tw _ _ hp
    · rename_i t st1 hp
      have hs : tw st1 = tw st := by
        split at hp
        · cases hp; rfl
        · exact peekToken_tw _ _ hp
      split at h
      · cases h; exact hs
      · split at h
        · cases h; exact hs
        · rw [ih _ _ _ h, hs]
        · rw [ih _ _ _ h, hs]
        · rw [ih _ _ _ h, hs]
        · split at h
          · rw [ih _ _ _ h, hs]
          · cases h; exact hs

theorem continueBlock_tw (c : Ctx) (tok : Tok) (st : St) {b : Bool} {st' : St}
    (h : continueBlock c tok st = .done b st') : tw st' = tw st := by
  unfold continueBlock at h
  split at h
  · split at h
    · cases h; rfl
    · split at h
      · unfold scanContinueBlock at h
        split at h
        · exact scanLoop_tw _ _ _ _ _ _ h
        · exact scanLoop_tw _ _ _ _ _ _ h
        · cases h; rfl
      · cases h; rfl
  · cases h; rfl

theorem pushCtx_spec {st st' : St} {o : Offside} (h : pushCtx st o = .ok st') :
    st'.stack = o :: st.stack ∧ st'.unproc = st.unproc ∧ st'.input = st.input := by
  unfold pushCtx at h
  split at h
  · cases h; exact ⟨rfl, rfl, rfl⟩
  · cases h

theorem scanForNextBlock_spec {c : Ctx} {st st' : St} (h : scanForNextBlock c st = .ok st') :
    tw st' ≤ tw st + 7 ∧ cw st'.stack ≤ cw st.stack + 15 ∧ st'.stack ≠ [] := by
  unfold scanForNextBlock at h
  split at h
  · cases h
  · rename_i next st1 hn
    obtain ⟨h1, h2, _⟩ := nextToken_tw hn
    have hW := W_le next.kind
    dsimp only at h
    repeat' split at h
    all_goals
      obtain ⟨p1, p2, p3⟩ := pushCtx_spec h
      refine ⟨?_, ?_, by rw [p1]; simp⟩
      · simp only [tw, p2, p3, wl, W] at *; omega
      · rw [p1]; simp only [cw, h2]; have := cwOne_le ⟨next.loc, c⟩; omega

theorem ofExcept_ret {t : Tok} {e : Except LErr St} {t' : Tok} {st' : St}
    (h : ofExcept t e = .ret t' st') : t' = t ∧ e = .ok st' := by
  unfold ofExcept at h
  split at h
  · cases h; exact ⟨rfl, rfl⟩
  · cases h

/-- The token-consuming tail of the loop body: the token itself is returned; the state grows by
    at most one context and two queued block tokens. -/
theorem finish_spec (tok : Tok) (off : Offside) (st : St) (hk : tok.kind ≠ .in_)
    {t' : Tok} {st' : St} (h : finish tok off st = .ret t' st') :
    t' = tok ∧ tw st' ≤ tw st + 7 ∧ cw st'.stack ≤ cw st.stack + 15 ∧
      (tok.kind = .openBlock → st' = st) ∧ (st.stack ≠ [] → st'.stack ≠ []) := by
  unfold finish at h
  split at h
  · rename_i c hc
    obtain ⟨h1, h2⟩ := ofExcept_ret h
    obtain ⟨p1, p2, p3⟩ := pushCtx_spec h2
    refine ⟨h1, ?_, ?_, ?_, fun _ => by rw [p1]; simp⟩
    · simp only [tw, p2, p3]
      split <;> first | omega | (dsimp only; omega)
    · rw [p1]; simp only [cw]
      have key : ∀ (o : Offside) (S0 : List Offside), cw S0 ≤ cw st.stack →
          cwOne o + cw S0 ≤ cw st.stack + 15 := by
        intro o S0 h; have := cwOne_le o; omega
      apply key
      split
      · exact cw_tail _
      · exact Nat.le_refl _
    · intro hob; rw [hob] at hc; simp [pushContextOf] at hc
  · split at h
    · rename_i hin; exact absurd hin hk
    · obtain ⟨h1, h2⟩ := ofExcept_ret h
      obtain ⟨q1, q2, q3⟩ := scanForNextBlock_spec h2
      rename_i hkk _; exact ⟨h1, q1, q2, (fun hob => by rw [hob] at hkk; cases hkk), fun _ => q3⟩
    · obtain ⟨h1, h2⟩ := ofExcept_ret h
      obtain ⟨q1, q2, q3⟩ := scanForNextBlock_spec h2
      rename_i hkk _; exact ⟨h1, q1, q2, (fun hob => by rw [hob] at hkk; cases hkk), fun _ => q3⟩
    · obtain ⟨h1, h2⟩ := ofExcept_ret h
      obtain ⟨q1, q2, q3⟩ := scanForNextBlock_spec h2
      rename_i hkk _; exact ⟨h1, q1, q2, (fun hob => by rw [hob] at hkk; cases hkk), fun _ => q3⟩
    · obtain ⟨h1, h2⟩ := ofExcept_ret h
      obtain ⟨q1, q2, q3⟩ := scanForNextBlock_spec h2
      rename_i hkk; exact ⟨h1, q1, q2, (fun hob => by rw [hob] at hkk; cases hkk), fun _ => q3⟩
    · obtain ⟨h1, h2⟩ := ofExcept_ret h
      obtain ⟨q1, q2, q3⟩ := scanForNextBlock_spec h2
      rename_i hkk; exact ⟨h1, q1, q2, (fun hob => by rw [hob] at hkk; cases hkk), fun _ => q3⟩
    · rename_i hkk
      have hno : tok.kind = .openBlock → False := fun hob => by rw [hob] at hkk; cases hkk
      split at h
      · cases h
      · rename_i next st1 hn
        obtain ⟨n1, n2, _⟩ := nextToken_tw hn
        dsimp only at h
        split at h
        · obtain ⟨h1, h2⟩ := ofExcept_ret h
          obtain ⟨q1, q2, q3⟩ := scanForNextBlock_spec h2
          refine ⟨h1, ?_, by simpa [n2] using q2, fun hob => (hno hob).elim, fun _ => q3⟩
          simp only [tw, wl] at q1 n1 ⊢; omega
        · cases h
          refine ⟨rfl, ?_, by simp [n2], fun hob => (hno hob).elim, fun hne => by simpa [n2] using hne⟩
          simp only [tw, wl] at n1 ⊢; omega
    · rename_i hkk
      cases h
      refine ⟨rfl, by simp [tw], ?_, (fun hob => by rw [hob] at hkk; cases hkk), fun hne => setTopSemi_ne_nil hne⟩
      have := cw_setTop_false st.stack; simp only; omega
    · cases h
      exact ⟨rfl, by omega, by omega, fun _ => rfl, fun hne => hne⟩

/-! ### One pass through the loop body -/

def StepPot (tok : Tok) (st : St) : Step → Prop
  | .cont t' st' => pot' t' st' ≤ pot' tok st ∧ st'.stack ≠ [] ∧ norm t' = t'
  | .ret t' st' => t'.kind ≠ .eof → pot st' < pot' tok st
  | _ => True

theorem W_closing_ge {k : Kind} (h : isClosingKind k = true) : 2 ≤ W k := by
  cases k <;> simp [isClosingKind] at h <;> simp [W]

theorem closes_nonblock_W {k : Kind} {c : Ctx} (h : closes k c = true) (hc : c.isBlock = false) :
    W k = 40 := by
  cases c <;> simp [Ctx.isBlock] at hc <;> cases k <;> simp [closes] at h <;> simp [W]

theorem closes_if {k : Kind} (h : closes k .if_ = true) : k = .else_ := by
  cases k <;> simp [closes] at h <;> rfl

theorem norm_of_ne_eof {t : Tok} (h : t.kind ≠ .eof) : norm t = t := by
  simp [norm, h]

def RulePot (F : St → Prop) (tok : Tok) (st : St) : Rule → Prop
  | .done s => StepPot tok st s
  | .fall st1 => F st1

theorem closing_pot (tok : Tok) (off : Offside) (rest : List Offside) (st : St)
    (hst : st.stack = off :: rest) (hb : BottomBlock st.stack)
    (hck : isClosingKind tok.kind = true) (hn : norm tok = tok) :
    RulePot (fun st1 => tok.kind = .else_ ∧ st1.stack ≠ [] ∧ tw st1 = tw st ∧
        cw st1.stack ≤ cw st.stack ∧ BottomBlock st1.stack) tok st (closing true tok off st) := by
  have hW := W_closing_ge hck
  have hcw : cw st.stack = cwOne off + cw rest := by rw [hst]; rfl
  have hoff := cwOne_ge off
  have htail : st.stack.tail = rest := by rw [hst]; rfl
  have hbr : BottomBlock rest := by rw [← htail]; exact bb_tail hb
  unfold closing
  simp only [htail, Bool.true_and]
  split
  · -- guard: the token is returned
    simp only [RulePot, StepPot]
    intro _
    by_cases hr : rest = []
    · have hblk : off.ctx.isBlock = true := by
        rw [hst, hr] at hb; exact hb
      have := (cwOne_block hblk).1
      have h6 := pot_le { st with stack := rest }
      simp only [pot', tw, hcw] at h6 ⊢
      subst hr
      simp only [cw] at h6 ⊢
      omega
    · have h4 := pot_le_ne { st with stack := rest } hr
      simp only [pot', tw, hcw] at h4 ⊢
      omega
  · rename_i hg
    have hr : rest ≠ [] := by
      apply all_nil_of_not (p := fun o => !closes tok.kind o.ctx)
      simpa using hg
    have h4 := pot_le_ne { st with stack := rest } hr
    have hcont : StepPot tok st (.cont tok { st with stack := rest }) := by
      refine ⟨?_, hr, hn⟩
      simp only [pot', tw, hcw, eta_closing hr hck]
      omega
    split
    · rename_i hcl
      split
      · rename_i hif
        rw [hif] at hcl
        exact ⟨closes_if hcl, hr, rfl, by simp only [hcw]; omega, hbr⟩
      all_goals first
        | exact hcont
        | (simp only [RulePot, StepPot]; intro _; simp only [pot', tw, hcw] at h4 ⊢; omega)
        | skip
      · -- block
        rename_i b hblk
        have hb5 : 5 ≤ cwOne off := (cwOne_block (by rw [hblk]; rfl)).1
        split
        · simp only [RulePot, StepPot]
          intro _
          have h4' := pot_le_ne { st with stack := setTopSemi false rest } (setTopSemi_ne_nil hr)
          have := cw_setTop_false rest
          simp only [pot', tw, hcw] at h4' ⊢
          omega
        · simp only [RulePot, StepPot, layoutToken]
          intro _
          have h4' := pot_le_ne { st with stack := rest, unproc := tok :: st.unproc } hr
          simp only [pot', tw, hcw, wl] at h4' ⊢
          omega
      all_goals
        rename_i hctx
        have hW40 : W tok.kind = 40 := closes_nonblock_W hcl (by rw [hctx]; rfl)
        obtain ⟨top, r', hrest⟩ := List.exists_cons_of_ne_nil hr
        subst hrest
        dsimp only
        split
        · trivial
        · rename_i st2 hp
          obtain ⟨p1, p2, p3⟩ := pushCtx_spec hp
          simp only [RulePot, StepPot]
          intro _
          have hpot : pot { st2 with unproc := { tok with kind := Kind.openBlock } :: st2.unproc } ≤
              tw { st2 with unproc := { tok with kind := Kind.openBlock } :: st2.unproc } + cw st2.stack + 4 :=
            pot_le_ne { st2 with unproc := { tok with kind := Kind.openBlock } :: st2.unproc } (by simp [p1])
          have htw3 : tw { st2 with unproc := { tok with kind := Kind.openBlock } :: st2.unproc } = 5 + tw st := by
            simp only [tw, wl, p2, p3, W]; omega
          have hS : cw st2.stack ≤ 5 + cw (top :: r') := by
            rw [p1]
            show cwOne _ + cw _ ≤ _
            have e5 : cwOne { loc := top.loc, ctx := Ctx.block false } = 5 := rfl
            rw [e5]
            apply Nat.add_le_add_left
            dsimp only
            split
            · exact Nat.le_trans (cw_tail _) (cw_setTop_false _)
            · exact cw_setTop_false _
          unfold pot'
          rw [hW40, hcw]
          omega
    · exact hcont

def FallOk (tok : Tok) (st st1 : St) : Prop :=
  st1.stack ≠ [] ∧ tw st1 = tw st ∧ cw st1.stack ≤ cw st.stack + 1 ∧
    (tok.kind = .openBlock → cw st1.stack ≤ cw st.stack) ∧ BottomBlock st1.stack

theorem fallOk_refl (tok : Tok) (st : St) (hne : st.stack ≠ []) (hb : BottomBlock st.stack) :
    FallOk tok st st := ⟨hne, rfl, by omega, fun _ => Nat.le_refl _, hb⟩

theorem implicitIn_pot (tok : Tok) (off : Offside) (rest : List Offside) (st : St)
    (hst : st.stack = off :: rest) (hb : BottomBlock st.stack)
    (hlt : off.ctx = .let_ ∨ off.ctx = .type_) (hn : norm tok = tok) :
    RulePot (FallOk tok st) tok st (implicitIn tok off st) := by
  have hnb : off.ctx.isBlock = false := by rcases hlt with h | h <;> rw [h] <;> rfl
  have hrest : rest ≠ [] := bb_top_nonblock (by rw [← hst]; exact hb) hnb
  have h15 : cwOne off = 15 := by rcases hlt with h | h <;> simp [cwOne, h]
  have hcw : cw st.stack = 15 + cw rest := by rw [hst]; simp [cw, h15]
  have hne : st.stack ≠ [] := by rw [hst]; simp
  unfold implicitIn
  dsimp only
  split
  · split
    · trivial
    · trivial
    · rename_i st1 hcb
      have hs := continueBlock_stack _ _ _ hcb
      have ht := continueBlock_tw _ _ _ hcb
      exact ⟨by rw [hs]; exact hne, ht, by rw [hs]; omega, fun _ => by rw [hs]; exact Nat.le_refl _,
        by rw [hs]; exact hb⟩
    · rename_i st1 hcb
      have hs := continueBlock_stack _ _ _ hcb
      have ht := continueBlock_tw _ _ _ hcb
      have htail : st1.stack.tail = rest := by rw [hs, hst]; rfl
      split
      · -- EOF: pop and continue
        refine ⟨?_, by rw [htail]; exact hrest, hn⟩
        have he := eta_le_ne (t := tok) hrest
        show W tok.kind + tw { st1 with stack := st1.stack.tail } + cw st1.stack.tail +
          eta tok st1.stack.tail ≤ W tok.kind + tw st + cw st.stack + eta tok st.stack
        have htw' : ∀ S, tw { st1 with stack := S } = tw st := fun _ => ht
        rw [htail, hcw, htw' rest]
        omega
      · obtain ⟨top, r', hr⟩ := List.exists_cons_of_ne_nil hrest
        rw [htail, hr]
        dsimp only
        split
        · trivial
        · rename_i st2 hp
          obtain ⟨p1, p2, p3⟩ := pushCtx_spec hp
          simp only [RulePot, StepPot]
          intro _
          have hpot : pot { st2 with unproc := { tok with kind := Kind.openBlock } :: st2.unproc } ≤
              tw { st2 with unproc := { tok with kind := Kind.openBlock } :: st2.unproc } + cw st2.stack + 4 :=
            pot_le_ne { st2 with unproc := { tok with kind := Kind.openBlock } :: st2.unproc } (by simp [p1])
          have htw3 : tw { st2 with unproc := { tok with kind := Kind.openBlock } :: st2.unproc } =
              5 + W tok.kind + tw st := by
            simp only [tw, wl, p2, p3, W] at ht ⊢; omega
          have hS : cw st2.stack ≤ 5 + cw rest := by
            rw [p1, hr]
            show cwOne _ + cw _ ≤ _
            have e5 : cwOne { loc := off.loc, ctx := Ctx.block false } = 5 := rfl
            rw [e5]
            apply Nat.add_le_add_left
            dsimp only
            split
            · exact Nat.le_trans (cw_tail _) (cw_setTop_false _)
            · exact cw_setTop_false _
          unfold pot'
          rw [hcw]
          omega
  · exact fallOk_refl tok st hne hb

theorem pop_cont_pot (tok : Tok) (off : Offside) (rest : List Offside) (st : St)
    (hst : st.stack = off :: rest) (hb : BottomBlock st.stack) (hnb : off.ctx.isBlock = false)
    (hn : norm tok = tok) :
    StepPot tok st (.cont tok { st with stack := st.stack.tail }) := by
  have hrest : rest ≠ [] := bb_top_nonblock (by rw [← hst]; exact hb) hnb
  have htail : st.stack.tail = rest := by rw [hst]; rfl
  refine ⟨?_, by rw [htail]; exact hrest, hn⟩
  have he := eta_le_ne (t := tok) hrest
  have h4 := cwOne_ge off
  show W tok.kind + tw st + cw st.stack.tail + eta tok st.stack.tail ≤
    W tok.kind + tw st + cw st.stack + eta tok st.stack
  rw [htail, hst]
  simp only [cw]
  omega

theorem offsideRule_pot (tok : Tok) (off : Offside) (rest : List Offside) (st : St)
    (hst : st.stack = off :: rest) (hb : BottomBlock st.stack)
    (hck : isClosingKind tok.kind = false) (hn : norm tok = tok) :
    RulePot (FallOk tok st) tok st (offsideRule tok off st) := by
  have hne : st.stack ≠ [] := by rw [hst]; simp
  have hrefl := fallOk_refl tok st hne hb
  unfold offsideRule
  dsimp only
  split
  · -- Block
    rename_i semi hblk
    split
    · -- left of the block: becomes a CloseBlock
      rename_i hlt
      refine ⟨?_, hne, rfl⟩
      have e1 : eta tok st.stack = 4 := by
        rw [hst]; simp only [eta, hblk, Ctx.isBlock, hck]
        simp only [decide_eq_true_eq] at hlt
        simp [hlt]
      have e2 : eta { tok with kind := Kind.closeBlock } st.stack = 0 := eta_closing hne rfl
      show W Kind.closeBlock + tw { st with unproc := tok :: st.unproc } + cw st.stack +
        eta { tok with kind := Kind.closeBlock } st.stack ≤ W tok.kind + tw st + cw st.stack + eta tok st.stack
      rw [e1, e2]
      simp only [tw, wl, W]
      omega
    · rename_i hlt
      simp only [decide_eq_true_eq] at hlt
      split
      · split
        · -- `;`
          rename_i heq hsemi
          subst hsemi
          simp only [RulePot, StepPot, layoutToken]
          intro _
          have hcw : cw st.stack = 6 + cw rest := by rw [hst]; simp [cw, cwOne, hblk]
          have hstk : setTopSemi false st.stack = { off with ctx := .block false } :: rest := by
            rw [hst]; simp [setTopSemi, hblk]
          have e0 : eta tok ({ off with ctx := Ctx.block false } :: rest) = 0 := by
            simp [eta, hlt]
          have hp : pot { st with stack := setTopSemi false st.stack, unproc := tok :: st.unproc } =
              W tok.kind + tw st + (5 + cw rest) + 0 := by
            simp only [pot, head, hn, hstk, e0, tw, wl, cw, cwOne]
            omega
          rw [hp]
          unfold pot'
          rw [hcw]
          omega
        · split
          · exact hrefl
          · exact hrefl
          · exact hrefl
          · rename_i h1 h2 h3
            refine ⟨setTopSemi_ne_nil hne, rfl, cw_setTop_true _, fun hob => absurd hob h3, bb_setTop _ hb⟩
      · exact hrefl
  · split
    · exact pop_cont_pot tok off rest st hst hb (by rename_i h _; rw [h]; rfl) hn
    · exact hrefl
  · split
    · exact pop_cont_pot tok off rest st hst hb (by rename_i h _; rw [h]; rfl) hn
    · exact hrefl
  · split
    · exact pop_cont_pot tok off rest st hst hb (by rename_i h _; rw [h]; rfl) hn
    · exact hrefl
  · rename_i h; exact implicitIn_pot tok off rest st hst hb (Or.inl h) hn
  · rename_i h; exact implicitIn_pot tok off rest st hst hb (Or.inr h) hn
  · exact hrefl

theorem finish_pot (tok : Tok) (off : Offside) (st st1 : St) (hk : tok.kind ≠ .in_)
    (hW : tok.kind ≠ .eof → tok.kind ≠ .openBlock → W tok.kind = 40) (hF : FallOk tok st st1) :
    StepPot tok st (finish tok off st1) := by
  obtain ⟨f1, f2, f3, f4, _⟩ := hF
  cases hfin : finish tok off st1 with
  | cont t' st' => exact absurd hfin (finish_not_cont _ _ _ _ _)
  | err e => trivial
  | panic => trivial
  | hang => trivial
  | ret t' st' =>
    obtain ⟨g1, g2, g3, g4, g5⟩ := finish_spec tok off st1 hk hfin
    subst g1
    simp only [StepPot]
    intro hne
    unfold pot'
    by_cases hob : t'.kind = .openBlock
    · have := g4 hob
      subst this
      have hp := pot_le_ne st' f1
      have hc := f4 hob
      have : W t'.kind = 5 := by rw [hob]; rfl
      omega
    · have hp := pot_le st'
      have := hW hne hob
      omega

theorem W_nonclosing {k : Kind} (hck : isClosingKind k = false) (h1 : k ≠ .eof) (h2 : k ≠ .openBlock) :
    W k = 40 := by
  cases k <;> simp [isClosingKind] at hck <;> simp at h1 h2 <;> simp [W]

theorem step_pot (tok : Tok) (st : St) (hb : BottomBlock st.stack)
    (hne : ¬ (tok.kind = .eof ∧ st.stack = [])) (hn : norm tok = tok) :
    StepPot tok st (step true tok st) := by
  unfold step
  split
  · rename_i hsb
    simp only [StepPot]
    intro _
    have := pot_le st
    unfold pot'
    rw [hsb]; simp only [W]; omega
  · split
    · rename_i hnil
      split
      · trivial
      · rename_i st1 hp
        obtain ⟨p1, p2, p3⟩ := pushCtx_spec hp
        simp only [layoutToken, StepPot]
        intro _
        have hk : tok.kind ≠ .eof := fun h => hne ⟨h, hnil⟩
        have e0 : eta tok [{ loc := tok.loc, ctx := Ctx.block false }] = 0 := by simp [eta]
        have hpt : pot { st1 with unproc := tok :: st1.unproc } = W tok.kind + tw st + 5 + 0 := by
          simp only [pot, head, hn, p1, hnil, e0, tw, wl, cw, cwOne, p2, p3]
          omega
        rw [hpt]
        unfold pot'
        simp only [hnil, cw, eta, hk, if_false]
        omega
    · rename_i off rest hst
      have hsne : st.stack ≠ [] := by rw [hst]; simp
      split
      · rename_i hcm
        simp only [StepPot]
        intro _
        have := pot_le st
        unfold pot'
        rw [hcm.1]; simp only [W]; omega
      · split
        · rename_i hck
          have hc := closing_pot tok off rest st hst hb hck hn
          split
          · rename_i r hcl; rw [hcl] at hc; exact hc
          · rename_i st1 hcl
            rw [hcl] at hc
            obtain ⟨c1, c2, c3, c4, c5⟩ := hc
            exact finish_pot tok off st st1 (by rw [c1]; decide)
              (fun _ _ => by rw [c1]; rfl)
              ⟨c2, c3, by omega, (fun hob => by rw [c1] at hob; cases hob), c5⟩
        · rename_i hck
          have hck' : isClosingKind tok.kind = false := by simpa using hck
          have hc := offsideRule_pot tok off rest st hst hb hck' hn
          split
          · rename_i r hcl; rw [hcl] at hc; exact hc
          · rename_i st1 hcl
            rw [hcl] at hc
            exact finish_pot tok off st st1 (by intro h; rw [h] at hck'; cases hck')
              (fun h1 h2 => W_nonclosing hck' h1 h2) hc

/-! ### One call, and the whole run -/

theorem norm_norm (t : Tok) : norm (norm t) = norm t := by
  unfold norm; split <;> simp_all

def ResPot (bound : Nat) : Res → Prop
  | .ret t' st' => t'.kind ≠ .eof → pot st' < bound
  | _ => True

theorem loop_pot (fuel : Nat) (tok : Tok) (st : St) (hb : BottomBlock st.stack)
    (hne : ¬ (tok.kind = .eof ∧ st.stack = [])) (hn : norm tok = tok) :
    ResPot (pot' tok st) (loop true fuel tok st) := by
  induction fuel generalizing tok st with
  | zero => simp [loop, ResPot]
  | succ fuel ih =>
    unfold loop
    have hs := step_pot tok st hb hne hn
    have hok := step_ok tok st hb
    split
    · rename_i t' st' h; rw [h] at hs; exact hs
    · rename_i t' st' h
      rw [h] at hs hok
      obtain ⟨h1, h2, h3⟩ := hs
      have := ih t' st' hok (fun hh => h2 hh.2) h3
      revert this
      cases loop true fuel t' st' <;> simp only [ResPot] <;> intro hh
      · intro hk; exact Nat.lt_of_lt_of_le (hh hk) h1
      all_goals trivial
    all_goals trivial

theorem layoutNextToken_pot (st : St) (hb : BottomBlock st.stack) :
    ResPot (pot st) (layoutNextToken true st) := by
  unfold layoutNextToken
  split
  · trivial
  · rename_i tok st1 hnx
    obtain ⟨h1, h2, h3⟩ := nextToken_tw hnx
    have hnorm : (if tok.kind = Kind.eof then { tok with loc := { tok.loc with col := 0 } } else tok) = norm tok := rfl
    simp only [hnorm]
    split
    · rename_i heof
      simp only [ResPot]
      intro hk; exact absurd heof.1 hk
    · rename_i hne
      have hp : pot' (norm tok) st1 = pot st := by
        simp only [pot', pot, norm_kind, h2, h3]
        omega
      rw [← hp]
      exact loop_pot _ _ _ (by rw [h2]; exact hb) hne (norm_norm tok)

theorem run_total (fuel : Nat) (st : St) (acc : List Tok) (hb : BottomBlock st.stack)
    (h : pot st < fuel) : (run true fuel st acc).2 ≠ .fuel := by
  induction fuel generalizing st acc with
  | zero => omega
  | succ fuel ih =>
    unfold run
    have hp := layoutNextToken_pot st hb
    have hok := layoutNextToken_ok st hb
    split
    · rename_i t st' hl
      rw [hl] at hp hok
      split
      · simp
      · rename_i hk
        exact ih st' _ hok (by have := hp hk; omega)
    · simp
    · simp
    · simp
    · rename_i hl; exact absurd hl (layoutNextToken_total true st)

/-- The bound: 40 per input token, plus 7. -/
def layoutBound (n : Nat) : Nat := 40 * n + 7

theorem pot_initial (input : List Tok) (eofTok : Tok) :
    pot (initial input eofTok) < layoutBound input.length := by
  have h1 := wl_le input
  have h2 := eta_le (head (initial input eofTok)) []
  simp only [pot, initial, tw, wl, cw, layoutBound] at *
  omega

end GluonModel.LayoutAlgo.Proofs
