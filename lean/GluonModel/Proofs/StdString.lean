import GluonModel.StdString
/-! UTF-8 facts behind the string primitives: which byte offsets are character boundaries of an
    encoded scalar sequence, and what slicing / indexing at boundaries returns. -/
namespace GluonModel.StdString

/-- An encoded scalar is a non-continuation lead byte followed by continuation bytes only. -/
theorem encodeScalar_shape (c : Nat) (hc : c < 0x110000) :
    ∃ b0 tail, encodeScalar c = b0 :: tail ∧ isCont b0 = false ∧ (∀ b ∈ tail, isCont b = true) ∧
      tail.length ≤ 3 := by
  unfold encodeScalar
  split
  · exact ⟨c, [], rfl, by (simp [isCont] <;> omega), by simp, by simp⟩
  split
  · refine ⟨_, _, rfl, ?_, ?_, by simp⟩
    · (simp [isCont] <;> omega)
    · intro b hb; simp at hb; subst hb; (simp [isCont] <;> omega)
  split
  · refine ⟨_, _, rfl, ?_, ?_, by simp⟩
    · (simp [isCont] <;> omega)
    · intro b hb; simp at hb; rcases hb with hb | hb <;> subst hb <;> simp [isCont] <;> omega
  · refine ⟨_, _, rfl, ?_, ?_, by simp⟩
    · (simp [isCont] <;> omega)
    · intro b hb; simp at hb; rcases hb with hb | hb | hb <;> subst hb <;> simp [isCont] <;> omega

set_option maxRecDepth 8192 in
/-- Decoding what was encoded gives the scalar back (whatever follows). -/
theorem decodeHead_encodeScalar (c : Nat) (hc : c < 0x110000) (rest : Bytes) :
    decodeHead (encodeScalar c ++ rest) = some c := by
  unfold encodeScalar
  split
  · simp [decodeHead, *]
  split
  · simp only [List.cons_append, List.nil_append, decodeHead]
    have h1 : ¬ (0xC0 + c / 64 < 0x80) := by omega
    have h2 : 0xC0 + c / 64 < 0xE0 := by omega
    simp only [h1, h2, if_true, if_false]
    congr 1; omega
  split
  · simp only [List.cons_append, List.nil_append, decodeHead]
    have h1 : ¬ (0xE0 + c / 4096 < 0x80) := by omega
    have h2 : ¬ (0xE0 + c / 4096 < 0xE0) := by omega
    have h3 : 0xE0 + c / 4096 < 0xF0 := by omega
    simp only [h1, h2, h3, if_true, if_false]
    congr 1; omega
  · simp only [List.cons_append, List.nil_append, decodeHead]
    have h1 : ¬ (0xF0 + c / 262144 < 0x80) := by omega
    have h2 : ¬ (0xF0 + c / 262144 < 0xE0) := by omega
    have h3 : ¬ (0xF0 + c / 262144 < 0xF0) := by omega
    simp only [h1, h2, h3, if_false]
    congr 1; omega

theorem encode_append (xs ys : List Nat) : encode (xs ++ ys) = encode xs ++ encode ys := by
  simp [encode]

theorem encode_cons (c : Nat) (cs : List Nat) : encode (c :: cs) = encodeScalar c ++ encode cs := by
  simp [encode]

/-- Every scalar of the list is below 0x110000 (surrogates are irrelevant to the byte structure). -/
def Valid (cs : List Nat) : Prop := ∀ c ∈ cs, c < 0x110000

/-- The byte at the start of an encoded sequence is never a continuation byte. -/
theorem head_not_cont (cs : List Nat) (hv : Valid cs) (rest : Bytes) (b : Nat)
    (h : (encode cs ++ rest)[0]? = some b) (hne : cs ≠ []) : isCont b = false := by
  cases cs with
  | nil => exact absurd rfl hne
  | cons c cs =>
    obtain ⟨b0, tail, he, hb0, -, -⟩ := encodeScalar_shape c (hv c (List.mem_cons_self ..))
    rw [encode_cons, he] at h
    simp at h
    subst h; exact hb0

/-- (→ direction) The offset after any prefix of scalars is a character boundary. -/
theorem boundary_after_prefix (xs cs : List Nat) (hv : Valid cs) :
    isCharBoundary (encode (xs ++ cs)) ((encode xs).length : Int) = true := by
  unfold isCharBoundary
  have h0 : ¬ (((encode xs).length : Int) < 0) := by omega
  simp only [h0, if_false]
  split
  · rfl
  · rw [encode_append]
    simp only [Int.toNat_natCast]
    rw [List.getElem?_append_right (Nat.le_refl _)]
    simp only [Nat.sub_self]
    cases cs with
    | nil => simp [encode]
    | cons c cs' =>
      obtain ⟨b0, tail, he, hb0, -, -⟩ := encodeScalar_shape c (hv c (List.mem_cons_self ..))
      rw [encode_cons, he]
      simp [hb0]

/-- (← direction) An offset strictly inside the encoding of one scalar is NOT a boundary. -/
theorem not_boundary_inside (xs : List Nat) (c : Nat) (hc : c < 0x110000) (rest : Bytes) (j : Nat)
    (hj0 : 0 < j) (hj : j < (encodeScalar c).length) :
    isCharBoundary (encode xs ++ encodeScalar c ++ rest) (((encode xs).length + j : Nat) : Int) = false := by
  obtain ⟨b0, tail, he, -, htail, -⟩ := encodeScalar_shape c hc
  unfold isCharBoundary
  have h0 : ¬ ((((encode xs).length + j : Nat) : Int) < 0) := by omega
  have h1 : ¬ ((((encode xs).length + j : Nat) : Int) = 0) := by omega
  simp only [h0, h1, if_false, Int.toNat_natCast]
  rw [List.append_assoc, List.getElem?_append_right (by omega)]
  have : (encode xs).length + j - (encode xs).length = j := by omega
  rw [he] at hj
  simp only [List.length_cons] at hj
  rw [this, he]
  obtain ⟨j', rfl⟩ : ∃ j', j = j' + 1 := ⟨j - 1, by omega⟩
  have hj' : j' < tail.length := by omega
  simp only [List.cons_append, List.getElem?_cons_succ]
  rw [List.getElem?_append_left hj', List.getElem?_eq_getElem hj']
  simp [htail _ (List.getElem_mem hj')]

/-- Slicing between two scalar boundaries returns exactly the encoding of the scalars between
    them – in particular valid UTF-8 again. -/
theorem slice_encode (xs ys zs : List Nat) (hy : Valid ys) (hz : Valid zs) :
    slice (encode (xs ++ ys ++ zs)) ((encode xs).length : Int)
      (((encode xs).length + (encode ys).length : Nat) : Int) = .ok (encode ys) := by
  unfold slice
  have b1 : isCharBoundary (encode (xs ++ ys ++ zs)) ((encode xs).length : Int) = true := by
    rw [List.append_assoc]
    refine boundary_after_prefix xs (ys ++ zs) ?_
    intro c hc'; rcases List.mem_append.1 hc' with h | h
    · exact hy c h
    · exact hz c h
  have b2 : isCharBoundary (encode (xs ++ ys ++ zs))
      (((encode xs).length + (encode ys).length : Nat) : Int) = true := by
    have := boundary_after_prefix (xs ++ ys) zs hz
    rw [encode_append xs ys, List.length_append] at this
    exact this
  rw [b1, b2]
  have hle : ((encode xs).length : Int) ≤ (((encode xs).length + (encode ys).length : Nat) : Int) := by
    omega
  simp only [Bool.and_self, if_true, hle, Int.toNat_natCast]
  rw [encode_append, encode_append, List.append_assoc, List.drop_left]
  have : (encode xs).length + (encode ys).length - (encode xs).length = (encode ys).length := by omega
  rw [this, List.take_left]

/-- `char_at` at the offset after a prefix returns the next scalar. -/
theorem charAt_encode (xs : List Nat) (c : Nat) (zs : List Nat) (hc : c < 0x110000) (hz : Valid zs) :
    charAt (encode (xs ++ c :: zs)) ((encode xs).length : Int) = .ok c := by
  unfold charAt
  have b1 := boundary_after_prefix xs (c :: zs)
    (by intro d hd; rcases List.mem_cons.1 hd with h | h; exact h ▸ hc; exact hz d h)
  rw [b1]
  simp only [if_true, Int.toNat_natCast]
  rw [encode_append, List.drop_left, encode_cons, decodeHead_encodeScalar c hc]

/-- `split_at` never loses or invents bytes. -/
theorem splitAt_join (s : Bytes) (i : Int) (l r : Bytes) (h : splitAt s i = .ok (l, r)) :
    l ++ r = s := by
  unfold splitAt at h
  split at h
  · cases h; exact List.take_append_drop _ _
  · cases h

/-- `slice` succeeds exactly on two boundaries in order; off a boundary it is a catchable error. -/
theorem slice_ok_iff (s : Bytes) (a b : Int) :
    (∃ r, slice s a b = .ok r) ↔ (isCharBoundary s a = true ∧ isCharBoundary s b = true ∧ a ≤ b) := by
  unfold slice
  constructor
  · rintro ⟨r, h⟩
    split at h
    next hb =>
      split at h
      next hab => simp at hb; exact ⟨hb.1, hb.2, hab⟩
      next => cases h
    next => cases h
  · rintro ⟨h1, h2, h3⟩
    simp [h1, h2, h3]

end GluonModel.StdString
