import GluonModel.StackVerify

namespace GluonModel.StackVerify.Proofs
open GluonModel.StackVerify

theorem check_parts (f : Fn) (hs : List (Option Nat)) (hc : check f hs = true) :
    hs.length = f.code.length ∧ 0 < f.code.length ∧ hs[0]? = some (some f.args) ∧
      ∀ pc, pc < f.code.length → checkAt f hs pc = true := by
  unfold check at hc
  simp only [Bool.and_eq_true, beq_iff_eq, decide_eq_true_eq, List.all_eq_true, List.mem_range] at hc
  exact ⟨hc.1.1.1, hc.1.1.2, hc.1.2, hc.2⟩

theorem checkAt_some (f : Fn) (hs : List (Option Nat)) (pc h : Nat) (i : Instr)
    (hh : hs[pc]? = some (some h)) (hi : f.code[pc]? = some i) (hc : checkAt f hs pc = true) :
    i.okAt h = true ∧ h ≤ f.max ∧ i.after h ≤ f.max ∧
      ∀ pc' ∈ i.succs pc, pc' < f.code.length ∧ hs[pc']? = some (some (i.after h)) := by
  unfold checkAt at hc
  rw [hh, hi] at hc
  simp only [Bool.and_eq_true, decide_eq_true_eq, List.all_eq_true, beq_iff_eq] at hc
  exact ⟨hc.1.1.1, hc.1.1.2, hc.1.2, hc.2⟩

/-- A locally valid certificate describes every execution. -/
theorem check_sound (f : Fn) (hs : List (Option Nat)) (hc : check f hs = true)
    (pc h : Nat) (hr : Reach f pc h) : pc < f.code.length ∧ hs[pc]? = some (some h) := by
  obtain ⟨_, hpos, h0, hall⟩ := check_parts f hs hc
  induction hr with
  | entry => exact ⟨hpos, h0⟩
  | @step pc h i pc' hr hi hs' ih =>
    obtain ⟨hlt, hh⟩ := ih
    have := checkAt_some f hs pc h i hh hi (hall pc hlt)
    exact this.2.2.2 pc' hs'

theorem check_bound (f : Fn) (hs : List (Option Nat)) (hc : check f hs = true)
    (pc h : Nat) (hr : Reach f pc h) :
    h ≤ f.max ∧ ∃ i, f.code[pc]? = some i ∧ i.okAt h = true ∧ i.after h ≤ f.max := by
  obtain ⟨hlt, hh⟩ := check_sound f hs hc pc h hr
  obtain ⟨_, _, _, hall⟩ := check_parts f hs hc
  have hi : f.code[pc]? = some f.code[pc] := List.getElem?_eq_getElem hlt
  have := checkAt_some f hs pc h _ hh hi (hall pc hlt)
  exact ⟨this.2.1, _, hi, this.1, this.2.2.1⟩

theorem verify_sound (f : Fn) (hv : verify f = true) (pc h : Nat) (hr : Reach f pc h) :
    h ≤ f.max ∧ ∃ i, f.code[pc]? = some i ∧ i.okAt h = true ∧ i.after h ≤ f.max := by
  unfold verify at hv
  split at hv
  · exact check_bound f _ hv pc h hr
  · exact absurd hv (by simp)

/-- Heights are determined by the pc (one height per program point). -/
theorem verify_unique (f : Fn) (hv : verify f = true) (pc h₁ h₂ : Nat)
    (r₁ : Reach f pc h₁) (r₂ : Reach f pc h₂) : h₁ = h₂ := by
  unfold verify at hv
  split at hv
  · rename_i hs _
    have a := (check_sound f hs hv pc h₁ r₁).2
    have b := (check_sound f hs hv pc h₂ r₂).2
    rw [a] at b
    exact Option.some.inj (Option.some.inj b)
  · exact absurd hv (by simp)

theorem forward_at (f : Fn) (hf : forward f = true) (pc : Nat) (i : Instr)
    (hi : f.code[pc]? = some i) (pc' : Nat) (hs : pc' ∈ i.succs pc) : pc < pc' := by
  unfold forward at hf
  simp only [List.all_eq_true, List.mem_range] at hf
  have hlt : pc < f.code.length := by
    rcases Nat.lt_or_ge pc f.code.length with h | h
    · exact h
    · rw [List.getElem?_eq_none h] at hi; exact absurd hi (by simp)
  have := hf pc hlt
  rw [hi] at this
  simp only [List.all_eq_true, decide_eq_true_eq] at this
  exact this pc' hs

/-- With forward jumps only, an activation executes at most `code.length` instructions before it
    leaves the function (call, tail call or return). -/
theorem forward_steps_bounded (f : Fn) (hf : forward f = true) (pc pc' n : Nat)
    (hs : Steps f pc pc' n) : n ≤ f.code.length - pc := by
  induction hs with
  | refl pc => exact Nat.zero_le _
  | @cons pc pc' pc'' n i hi hsucc _ ih =>
    have h1 := forward_at f hf pc i hi pc' hsucc
    have hlt : pc < f.code.length := by
      rcases Nat.lt_or_ge pc f.code.length with h | h
      · exact h
      · rw [List.getElem?_eq_none h] at hi; exact absurd hi (by simp)
    omega

end GluonModel.StackVerify.Proofs
