import GluonModel.Memo
namespace GluonModel.Memo.Proofs
open GluonModel.Memo

/-! ### The import graph of a set of sources -/

/-- `x` has a source and it imports `y`. -/
def Edge (srcs : Srcs) (x y : Mod) : Prop := ∃ s u, srcs.lookup x = some s ∧ (y, u) ∈ s.deps

inductive Reach (srcs : Srcs) : Mod → Mod → Prop
  | refl (x : Mod) : Reach srcs x x
  | step {x y z : Mod} : Edge srcs x y → Reach srcs y z → Reach srcs x z

theorem Reach.trans {srcs : Srcs} {x y z : Mod} (h : Reach srcs x y) (h' : Reach srcs y z) :
    Reach srcs x z := by
  induction h with
  | refl _ => exact h'
  | step e _ ih => exact .step e (ih h')

/-- `m` lies on an import cycle. -/
def OnCycle (srcs : Srcs) (m : Mod) : Prop := ∃ d, Edge srcs m d ∧ Reach srcs d m

/-- an import cycle can be reached from `m`. -/
def ReachesCycle (srcs : Srcs) (m : Mod) : Prop := ∃ y, Reach srcs m y ∧ OnCycle srcs y

/-! ### `combine` -/

theorem combine_cycle (s : Src) (rs : List (Res × Bool)) (h : ∃ p ∈ rs, p.1 = Res.err .cycle) :
    combine s rs = .err .cycle := by
  obtain ⟨p, hp, he⟩ := h
  have : hasErr .cycle rs = true := by
    unfold hasErr
    rw [List.any_eq_true]
    exact ⟨p, hp, by simp [he]⟩
  simp [combine, this]

theorem length_filter_ne_lt (A : List Mod) (m : Mod) (h : m ∈ A) :
    (A.filter (· != m)).length < A.length := by
  induction A with
  | nil => cases h
  | cons a A ih =>
    by_cases ha : a = m
    · subst ha
      have := List.length_filter_le (· != a) A
      simp
      omega
    · have hm : m ∈ A := by
        cases h with
        | head => exact absurd rfl ha
        | tail _ h => exact h
      have := ih hm
      simp [ha]
      omega

theorem mem_filter_ne (A : List Mod) (m y : Mod) : y ∈ A.filter (· != m) ↔ y ∈ A ∧ y ≠ m := by
  simp [List.mem_filter]

/-! ### Cycles are reported by the from-scratch evaluation -/

theorem evalA_unavail {srcs : Srcs} {x y : Mod} (h : Reach srcs x y) :
    ∀ f A, y ∉ A → srcs.lookup y ≠ none → evalA srcs f A x = .err .cycle := by
  induction h with
  | refl x =>
    intro f A hy hs
    cases f with
    | zero => rfl
    | succ f =>
      unfold evalA
      split
      · rename_i h; exact absurd h hs
      · simp [hy]
  | @step x y z e _ ih =>
    intro f A hz hs
    cases f with
    | zero => rfl
    | succ f =>
      obtain ⟨s, u, hl, hm⟩ := e
      unfold evalA
      rw [hl]
      simp only []
      split
      · apply combine_cycle
        refine ⟨(evalA srcs f (A.filter (· != x)) y, u), ?_, ?_⟩
        · exact List.mem_map.mpr ⟨(y, u), hm, rfl⟩
        · apply ih
          · intro hc
            exact hz ((mem_filter_ne A x z).mp hc).1
          · exact hs
      · rfl

theorem evalA_onCycle {srcs : Srcs} {y : Mod} (h : OnCycle srcs y) :
    ∀ f A, evalA srcs f A y = .err .cycle := by
  intro f A
  obtain ⟨d, ⟨s, u, hl, hm⟩, hr⟩ := h
  cases f with
  | zero => rfl
  | succ f =>
    unfold evalA
    rw [hl]
    simp only []
    split
    · apply combine_cycle
      refine ⟨(evalA srcs f (A.filter (· != y)) d, u), List.mem_map.mpr ⟨(d, u), hm, rfl⟩, ?_⟩
      apply evalA_unavail hr
      · intro hc
        exact ((mem_filter_ne A y y).mp hc).2 rfl
      · rw [hl]; simp
    · rfl

theorem evalA_reachesCycle {srcs : Srcs} {m : Mod} (h : ReachesCycle srcs m) :
    ∀ f A, evalA srcs f A m = .err .cycle := by
  obtain ⟨y, hr, hc⟩ := h
  induction hr with
  | refl x => exact evalA_onCycle hc
  | @step x y z e _ ih =>
    intro f A
    cases f with
    | zero => rfl
    | succ f =>
      obtain ⟨s, u, hl, hm⟩ := e
      unfold evalA
      rw [hl]
      simp only []
      split
      · apply combine_cycle
        exact ⟨(evalA srcs f (A.filter (· != x)) y, u), List.mem_map.mpr ⟨(y, u), hm, rfl⟩, ih hc _ _⟩
      · rfl

/-! ### The from-scratch evaluation does not depend on what is in progress outside the part of
the graph it can reach, nor on the fuel (as long as it exceeds the number of available modules) -/

theorem evalA_agree (srcs : Srcs) :
    ∀ f f' A A' m, (∀ y, Reach srcs m y → (y ∈ A ↔ y ∈ A')) → A.length < f → A'.length < f' →
      evalA srcs f A m = evalA srcs f' A' m := by
  intro f
  induction f with
  | zero => intro f' A A' m _ h; omega
  | succ f ih =>
    intro f' A A' m hag hf hf'
    cases f' with
    | zero => omega
    | succ f' =>
      unfold evalA
      cases hl : srcs.lookup m with
      | none => rfl
      | some s =>
        simp only []
        have hm : m ∈ A ↔ m ∈ A' := hag m (.refl m)
        by_cases hin : m ∈ A
        · have hin' : m ∈ A' := hm.mp hin
          rw [if_pos hin, if_pos hin']
          congr 1
          apply List.map_congr_left
          intro d hd
          congr 1
          apply ih
          · intro y hy
            rw [mem_filter_ne, mem_filter_ne]
            have := hag y (.step ⟨s, d.2, hl, by cases d; exact hd⟩ hy)
            rw [this]
          · have := length_filter_ne_lt A m hin; omega
          · have := length_filter_ne_lt A' m hin'; omega
        · have hin' : m ∉ A' := fun h => hin (hm.mpr h)
          rw [if_neg hin, if_neg hin']

theorem lookup_some_mem_mods (srcs : Srcs) (m : Mod) (s : Src) (h : srcs.lookup m = some s) :
    m ∈ srcs.mods := by
  induction srcs with
  | nil => simp [List.lookup] at h
  | cons p ps ih =>
    obtain ⟨k, v⟩ := p
    by_cases hk : m = k
    · subst hk; simp [Srcs.mods]
    · have : (m == k) = false := by simp [hk]
      rw [List.lookup_cons, this] at h
      have := ih h
      simp [Srcs.mods] at this ⊢
      right; exact this

theorem not_mem_mods_lookup (srcs : Srcs) (m : Mod) (h : m ∉ srcs.mods) : srcs.lookup m = none := by
  cases hl : srcs.lookup m with
  | none => rfl
  | some s => exact absurd (lookup_some_mem_mods srcs m s hl) h

/-- The fresh-VM answer satisfies the defining equation of module evaluation: a module's outcome is
    `combine` of the fresh-VM outcomes of its imports. -/
theorem spec_unfold (srcs : Srcs) (m : Mod) (s : Src) (h : srcs.lookup m = some s) :
    spec srcs m = combine s (s.deps.map fun d => (spec srcs d.1, d.2)) := by
  have hmem := lookup_some_mem_mods srcs m s h
  have hlen : srcs.mods.length = srcs.length := by simp [Srcs.mods]
  unfold spec
  conv => lhs; unfold evalA
  rw [h]
  simp only []
  rw [if_pos hmem]
  congr 1
  apply List.map_congr_left
  intro d hd
  congr 1
  by_cases hc : ReachesCycle srcs d.1
  · rw [evalA_reachesCycle hc, evalA_reachesCycle hc]
  · apply evalA_agree
    · intro y hy
      rw [mem_filter_ne]
      constructor
      · exact fun h => h.1
      · intro hy'
        refine ⟨hy', ?_⟩
        intro e
        subst e
        exact hc ⟨y, hy, ⟨d.1, ⟨s, d.2, h, by cases d; exact hd⟩, hy⟩⟩
    · have := length_filter_ne_lt srcs.mods m hmem; omega
    · omega

theorem spec_missing (srcs : Srcs) (m : Mod) (h : srcs.lookup m = none) : spec srcs m = .err .missing := by
  unfold spec evalA
  rw [h]

/-! ### The memoising engine computes the fresh-VM answer, provided its memo table is sound -/

/-- Every memoised result is what a fresh VM would answer for the current sources. -/
def Good (srcs : Srcs) (c : Cache) : Prop := ∀ m r, c.memo.lookup m = some r → r = spec srcs m

/-- Everything in progress imports (transitively, in at least one step) the module evaluated now. -/
def Chain (srcs : Srcs) (A : List Mod) (m : Mod) : Prop :=
  ∀ y, y ∉ A → srcs.lookup y ≠ none → ∃ d, Edge srcs y d ∧ Reach srcs d m

theorem good_cons (srcs : Srcs) (c : Cache) (m : Mod) (l : List Mod) (hg : Good srcs c) :
    Good srcs ⟨(m, spec srcs m) :: c.memo, l⟩ := by
  intro k r hk
  simp only [List.lookup_cons] at hk
  by_cases e : k = m
  · subst e; simp at hk; exact hk.symm
  · have : (k == m) = false := by simp [e]
    rw [this] at hk
    exact hg k r hk

theorem evalDeps_correct (srcs : Srcs) (ev : Mod → Cache → Res × Cache) (deps : List (Mod × Bool))
    (hev : ∀ d ∈ deps, ∀ c, Good srcs c → (ev d.1 c).1 = spec srcs d.1 ∧ Good srcs (ev d.1 c).2) :
    ∀ c, Good srcs c →
      (evalDeps ev deps c).1 = deps.map (fun d => (spec srcs d.1, d.2)) ∧
      Good srcs (evalDeps ev deps c).2 := by
  induction deps with
  | nil => intro c hg; exact ⟨rfl, hg⟩
  | cons d ds ih =>
    intro c hg
    have h1 := hev d (List.mem_cons_self) c hg
    have h2 := ih (fun d' hd' => hev d' (List.mem_cons_of_mem _ hd')) (ev d.1 c).2 h1.2
    simp only [evalDeps, List.map_cons]
    exact ⟨by rw [h1.1, h2.1], h2.2⟩

theorem evalM_correct (srcs : Srcs) :
    ∀ f A m c, A.length < f → Good srcs c → Chain srcs A m →
      (evalM srcs f A m c).1 = spec srcs m ∧ Good srcs (evalM srcs f A m c).2 := by
  intro f
  induction f with
  | zero => intro A m c h; omega
  | succ f ih =>
    intro A m c hf hg hch
    unfold evalM
    cases hmemo : c.memo.lookup m with
    | some r => exact ⟨hg m r hmemo, hg⟩
    | none =>
      simp only []
      cases hl : srcs.lookup m with
      | none =>
        simp only []
        rw [← spec_missing srcs m hl]
        exact ⟨rfl, good_cons srcs c m c.log hg⟩
      | some s =>
        simp only []
        by_cases hin : m ∈ A
        · rw [if_pos hin]
          have hdeps := evalDeps_correct srcs (evalM srcs f (A.filter (· != m))) s.deps
            (by
              intro d hd c' hg'
              apply ih
              · have := length_filter_ne_lt A m hin; omega
              · exact hg'
              · intro y hy hs
                rw [mem_filter_ne] at hy
                have hed : Edge srcs m d.1 := ⟨s, d.2, hl, by cases d; exact hd⟩
                by_cases e : y = m
                · subst e; exact ⟨d.1, hed, .refl _⟩
                · have hy' : y ∉ A := fun h => hy ⟨h, e⟩
                  obtain ⟨d', he, hr⟩ := hch y hy' hs
                  exact ⟨d', he, hr.trans (.step hed (.refl _))⟩)
            c hg
          simp only []
          rw [hdeps.1, ← spec_unfold srcs m s hl]
          exact ⟨rfl, good_cons srcs _ m _ hdeps.2⟩
        · rw [if_neg hin]
          have hs : srcs.lookup m ≠ none := by rw [hl]; simp
          obtain ⟨d, he, hr⟩ := hch m hin hs
          have : spec srcs m = .err .cycle := evalA_onCycle ⟨d, he, hr⟩ _ _
          exact ⟨this.symm, hg⟩

/-- A top-level evaluation: nothing is in progress. -/
theorem getM_correct (st : St) (m : Mod) (hg : Good st.srcs st.cache) :
    (getM st m).1 = spec st.srcs m ∧ Good (getM st m).2.srcs (getM st m).2.cache := by
  have h := evalM_correct st.srcs (st.srcs.length + 1) st.srcs.mods m st.cache
    (by simp [Srcs.mods]) hg
    (by
      intro y hy hs
      exact absurd (not_mem_mods_lookup st.srcs y hy) hs)
  exact ⟨h.1, h.2⟩


/-! ### Histories -/

def Inv (st : St) : Prop := Good st.srcs st.cache

theorem good_empty (srcs : Srcs) (l : List Mod) : Good srcs ⟨[], l⟩ := by
  intro m r h
  simp [List.lookup] at h

theorem init_inv : Inv St.init := good_empty _ _

theorem setSrc_fixed_inv (st : St) (m : Mod) (t : Src) (h : Inv st) : Inv (setSrc true st m t) := by
  unfold setSrc
  split
  · split
    · exact h
    · exact good_empty _ _
  · exact good_empty _ _

theorem step_fixed_inv (st : St) (op : Op) (h : Inv st) : Inv (step true st op) := by
  cases op with
  | set m t => exact setSrc_fixed_inv st m t h
  | get m => exact (getM_correct st m h).2

theorem replay_fixed_inv (ops : List Op) : ∀ st, Inv st → Inv (replay true ops st) := by
  induction ops with
  | nil => intro st h; exact h
  | cons op ops ih => intro st h; exact ih _ (step_fixed_inv st op h)

theorem step_srcs (fixed : Bool) (st : St) (op : Op) :
    (step fixed st op).srcs =
      (match op with
        | .set m t => if st.srcs.lookup m = some t then st.srcs else st.srcs.set m t
        | .get _ => st.srcs) := by
  cases op with
  | get m => rfl
  | set m t =>
    simp only [step, setSrc]
    cases hl : st.srcs.lookup m with
    | none => cases fixed <;> simp [St.bump]
    | some old =>
      by_cases e : old = t
      · simp [e]
      · simp [e, St.bump]

theorem replay_srcs (fixed : Bool) (ops : List Op) :
    ∀ st, (replay fixed ops st).srcs = latest ops st.srcs := by
  induction ops with
  | nil => intro st; rfl
  | cons op ops ih =>
    intro st
    simp only [replay, latest, List.foldl_cons] at ih ⊢
    rw [ih, step_srcs]
    cases op <;> rfl

/-- The code as it is: adding a *new* module keeps the memo table; that is harmless exactly when the
    table is empty at that moment (nothing evaluated since the last new revision). -/
def safeFrom : St → List Op → Bool
  | _, [] => true
  | st, op :: ops =>
    (match op with
      | .set m _ => (st.srcs.lookup m).isSome || st.cache.memo.isEmpty
      | .get _ => true) && safeFrom (step false st op) ops

theorem good_of_memo_nil (srcs : Srcs) (c : Cache) (h : c.memo = []) : Good srcs c := by
  intro m r hm
  rw [h] at hm
  simp [List.lookup] at hm

theorem replay_asis_inv (ops : List Op) :
    ∀ st, safeFrom st ops = true → Inv st → Inv (replay false ops st) := by
  induction ops with
  | nil => intro st _ h; exact h
  | cons op ops ih =>
    intro st hs h
    simp only [safeFrom, Bool.and_eq_true] at hs
    obtain ⟨h1, h2⟩ := hs
    apply ih _ h2
    cases op with
    | get m => exact (getM_correct st m h).2
    | set m t =>
      simp only [step, setSrc]
      cases hl : st.srcs.lookup m with
      | none =>
        simp only []
        simp [hl] at h1
        exact good_of_memo_nil _ _ h1
      | some old =>
        simp only []
        split
        · exact h
        · exact good_empty _ _

/-! ### A cycle is reported only if there is one -/

theorem combine_eq_cycle (s : Src) (rs : List (Res × Bool)) (h : combine s rs = .err .cycle) :
    ∃ p ∈ rs, p.1 = Res.err .cycle := by
  unfold combine at h
  by_cases hc : hasErr .cycle rs = true
  · unfold hasErr at hc
    rw [List.any_eq_true] at hc
    obtain ⟨p, hp, he⟩ := hc
    exact ⟨p, hp, by simpa using he⟩
  · exfalso
    have hc' : hasErr .cycle rs = false := by simpa using hc
    rw [hc'] at h
    simp only [Bool.false_eq_true, if_false] at h
    split at h
    · cases h
    · split at h
      · cases h
      · cases hk : s.kind <;> rw [hk] at h <;> cases h

theorem evalA_cycle_sound (srcs : Srcs) :
    ∀ f A m, A.length < f → evalA srcs f A m = .err .cycle →
      (∃ y, Reach srcs m y ∧ y ∉ A ∧ srcs.lookup y ≠ none) ∨ ReachesCycle srcs m := by
  intro f
  induction f with
  | zero => intro A m h; omega
  | succ f ih =>
    intro A m hf h
    unfold evalA at h
    cases hl : srcs.lookup m with
    | none => rw [hl] at h; cases h
    | some s =>
      rw [hl] at h
      simp only [] at h
      by_cases hin : m ∈ A
      · rw [if_pos hin] at h
        obtain ⟨p, hp, he⟩ := combine_eq_cycle s _ h
        obtain ⟨d, hd, hpd⟩ := List.mem_map.mp hp
        subst hpd
        simp only [] at he
        have hed : Edge srcs m d.1 := ⟨s, d.2, hl, by cases d; exact hd⟩
        have hlen := length_filter_ne_lt A m hin
        cases ih (A.filter (· != m)) d.1 (by omega) he with
        | inl hy =>
          obtain ⟨y, hr, hna, hs⟩ := hy
          rw [mem_filter_ne] at hna
          by_cases e : y = m
          · subst e
            exact .inr ⟨y, .refl y, ⟨d.1, hed, hr⟩⟩
          · exact .inl ⟨y, .step hed hr, fun hc => hna ⟨hc, e⟩, hs⟩
        | inr hc =>
          obtain ⟨y, hr, hc⟩ := hc
          exact .inr ⟨y, .step hed hr, hc⟩
      · exact .inl ⟨m, .refl m, hin, by rw [hl]; simp⟩

theorem spec_cycle_iff (srcs : Srcs) (m : Mod) : spec srcs m = .err .cycle ↔ ReachesCycle srcs m := by
  constructor
  · intro h
    cases evalA_cycle_sound srcs _ _ m (by simp [Srcs.mods]) h with
    | inl hy =>
      obtain ⟨y, _, hna, hs⟩ := hy
      exact absurd (not_mem_mods_lookup srcs y hna) hs
    | inr hc => exact hc
  · intro h
    exact evalA_reachesCycle h _ _

/-! ### At most one evaluation of a body per revision -/

/-- The bodies run in this revision are pairwise distinct and every one of them is memoised. -/
def J (c : Cache) : Prop := c.log.Nodup ∧ ∀ x ∈ c.log, c.memo.lookup x ≠ none

/-- How an evaluation with available modules `A` may change the cache. -/
def R (A : List Mod) (c c' : Cache) : Prop :=
  (∀ x, c.memo.lookup x ≠ none → c'.memo.lookup x ≠ none) ∧
  (∀ x ∈ c'.log, x ∈ c.log ∨ x ∈ A) ∧
  (J c → J c') ∧
  c.log <+: c'.log

theorem R.rfl' (A : List Mod) (c : Cache) : R A c c :=
  ⟨fun _ h => h, fun _ h => .inl h, fun h => h, List.prefix_refl _⟩

theorem R.trans' {A : List Mod} {c c1 c2 : Cache} (h1 : R A c c1) (h2 : R A c1 c2) : R A c c2 := by
  refine ⟨fun x h => h2.1 x (h1.1 x h), ?_, fun h => h2.2.2.1 (h1.2.2.1 h), h1.2.2.2.trans h2.2.2.2⟩
  intro x hx
  cases h2.2.1 x hx with
  | inl h => exact h1.2.1 x h
  | inr h => exact .inr h

theorem R.weaken {A A' : List Mod} {c c' : Cache} (h : R A' c c') (hs : ∀ x ∈ A', x ∈ A) : R A c c' := by
  refine ⟨h.1, ?_, h.2.2.1, h.2.2.2⟩
  intro x hx
  cases h.2.1 x hx with
  | inl h => exact .inl h
  | inr h => exact .inr (hs x h)

theorem lookup_cons_ne_none (l : List (Mod × Res)) (m x : Mod) (r : Res)
    (h : x = m ∨ l.lookup x ≠ none) : ((m, r) :: l).lookup x ≠ none := by
  rw [List.lookup_cons]
  by_cases e : x = m
  · subst e; simp
  · have : (x == m) = false := by simp [e]
    rw [this]
    cases h with
    | inl h => exact absurd h e
    | inr h => exact h

theorem evalDeps_R (A : List Mod) (ev : Mod → Cache → Res × Cache) (hev : ∀ d c, R A c (ev d c).2)
    (deps : List (Mod × Bool)) : ∀ c, R A c (evalDeps ev deps c).2 := by
  induction deps with
  | nil => intro c; exact R.rfl' A c
  | cons d ds ih =>
    intro c
    simp only [evalDeps]
    exact (hev d.1 c).trans' (ih _)

theorem evalM_R (srcs : Srcs) : ∀ f A m c, R A c (evalM srcs f A m c).2 := by
  intro f
  induction f with
  | zero => intro A m c; exact R.rfl' A c
  | succ f ih =>
    intro A m c
    unfold evalM
    cases hmemo : c.memo.lookup m with
    | some r => exact R.rfl' A c
    | none =>
      simp only []
      cases hl : srcs.lookup m with
      | none =>
        simp only []
        refine ⟨fun x h => lookup_cons_ne_none _ _ _ _ (.inr h), fun x h => .inl h, ?_, List.prefix_refl _⟩
        intro hj
        exact ⟨hj.1, fun x hx => lookup_cons_ne_none _ _ _ _ (.inr (hj.2 x hx))⟩
      | some s =>
        simp only []
        by_cases hin : m ∈ A
        · rw [if_pos hin]
          have hd := evalDeps_R (A.filter (· != m)) (evalM srcs f (A.filter (· != m)))
            (fun d c => ih _ d c) s.deps c
          generalize (evalDeps (evalM srcs f (A.filter (· != m))) s.deps c) = rs at hd
          simp only []
          have hsub : ∀ x ∈ A.filter (· != m), x ∈ A := fun x hx => ((mem_filter_ne A m x).mp hx).1
          refine ⟨fun x h => lookup_cons_ne_none _ _ _ _ (.inr (hd.1 x h)), ?_, ?_, ?_⟩
          rotate_left 2
          · split
            · exact hd.2.2.2.trans (List.prefix_append _ _)
            · exact hd.2.2.2
          · intro x hx
            split at hx
            · rw [List.mem_append] at hx
              cases hx with
              | inl h => exact (hd.weaken hsub).2.1 x h
              | inr h => simp at h; subst h; exact .inr hin
            · exact (hd.weaken hsub).2.1 x hx
          · intro hj
            have hj1 := hd.2.2.1 hj
            have hm1 : m ∉ rs.2.log := by
              intro hc
              cases hd.2.1 m hc with
              | inl h => exact hj.2 m h hmemo
              | inr h => exact ((mem_filter_ne A m m).mp h).2 rfl
            constructor
            · split
              · rw [List.nodup_append]
                refine ⟨hj1.1, by simp, ?_⟩
                intro a ha b hb
                simp at hb
                subst hb
                intro e
                subst e
                exact hm1 ha
              · exact hj1.1
            · intro x hx
              apply lookup_cons_ne_none
              split at hx
              · rw [List.mem_append] at hx
                cases hx with
                | inl h => exact .inr (hj1.2 x h)
                | inr h => simp at h; exact .inl h
              · exact .inr (hj1.2 x hx)
        · rw [if_neg hin]
          exact R.rfl' A c

theorem J_empty : J ⟨[], []⟩ := ⟨List.nodup_nil, fun _ h => by cases h⟩

theorem step_J (fixed : Bool) (st : St) (op : Op) (h : J st.cache) : J (step fixed st op).cache := by
  cases op with
  | get m => exact (evalM_R st.srcs _ _ m st.cache).2.2.1 h
  | set m t =>
    simp only [step, setSrc]
    cases st.srcs.lookup m with
    | none => cases fixed <;> simp [St.bump, J_empty, h]
    | some old =>
      simp only []
      split
      · exact h
      · exact J_empty

theorem replay_J (fixed : Bool) (ops : List Op) : ∀ st, J st.cache → J (replay fixed ops st).cache := by
  induction ops with
  | nil => intro st h; exact h
  | cons op ops ih => intro st h; exact ih _ (step_J fixed st op h)

/-- Within one revision the log of evaluated bodies only grows (it is never truncated), so
    `Nodup` of the log really means "at most once per revision". -/
theorem step_log_prefix (fixed : Bool) (st : St) (op : Op) (h : (step fixed st op).rev = st.rev) :
    st.cache.log <+: (step fixed st op).cache.log := by
  cases op with
  | get m => exact (evalM_R st.srcs _ _ m st.cache).2.2.2
  | set m t =>
    simp only [step, setSrc] at h ⊢
    cases hl : st.srcs.lookup m with
    | none =>
      rw [hl] at h
      cases fixed
      · exact List.prefix_refl _
      · simp [St.bump] at h
    | some old =>
      rw [hl] at h
      simp only [] at h ⊢
      split
      · exact List.prefix_refl _
      · rename_i hne
        simp [hne, St.bump] at h

end GluonModel.Memo.Proofs
