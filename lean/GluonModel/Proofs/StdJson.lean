import GluonModel.StdJson
namespace GluonModel.StdJson

theorem ser_ne_null : ∀ (t : Ty) (v : t.den), (∀ u, t ≠ .opt u) → ser t v ≠ .null
  | .int, _, _ => by simp [ser]
  | .bool, _, _ => by simp [ser]
  | .str, _, _ => by simp [ser]
  | .float, _, _ => by simp [ser]
  | .opt u, _, h => absurd rfl (h u)
  | .arr _, _, _ => by simp [ser]

theorem mapM'_map {α β : Type} (f : α → Option β) (g : β → α) (xs : List β)
    (h : ∀ x ∈ xs, f (g x) = some x) : mapM' f (xs.map g) = some xs := by
  induction xs with
  | nil => rfl
  | cons x xs ih =>
    simp only [List.map_cons, mapM', h x (List.mem_cons_self ..)]
    rw [ih (fun y hy => h y (List.mem_cons_of_mem _ hy))]

theorem de_ser (rd : Nat → Nat) (hrd : ∀ b, rd b = b) :
    ∀ (t : Ty), Representable t → ∀ v : t.den, de rd t (ser t v) = some v
  | .int, _, v => rfl
  | .bool, _, v => rfl
  | .str, _, v => rfl
  | .float, _, v => by
    have e : ∀ n : Nat, (some (rd n) : Option Nat) = some n := fun n => by rw [hrd]
    exact e v
  | .arr t, h, v => by
    show mapM' (de rd t) (List.map (ser t) v) = some v
    exact mapM'_map _ _ _ (fun x _ => de_ser rd hrd t h x)
  | .opt t, h, v => by
    cases v with
    | none => rfl
    | some x =>
      have hr : Representable t := by
        cases t <;> simp_all [Representable]
      have hn : ser t x ≠ .null := ser_ne_null t x (by
        intro u hu; subst hu; simp [Representable] at h)
      show de rd (.opt t) (ser t x) = some (some x)
      have : de rd (.opt t) (ser t x) = (de rd t (ser t x)).map some := by
        cases hs : ser t x with
        | null => exact absurd hs hn
        | _ => rfl
      rw [this, de_ser rd hrd t hr x]; rfl

end GluonModel.StdJson
