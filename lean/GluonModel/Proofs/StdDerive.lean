import GluonModel.StdDerive
/-! The derived `==` decides equality of values. -/
namespace GluonModel.StdDerive

mutual
theorem eqVal_iff : ∀ (x y : Val), eqVal x y = true ↔ x = y
  | .int a, .int b => by simp [eqVal]
  | .str a, .str b => by simp [eqVal]
  | .bool a, .bool b => by simp [eqVal]
  | .ctor n as, .ctor m bs => by simp [eqVal, eqArgs_iff as bs]
  | .record fs, .record gs => by simp [eqVal, eqFields_iff fs gs]
  | .arr xs, .arr ys => by simp [eqVal, eqArgs_iff xs ys]
  | .int _, .str _ | .int _, .bool _ | .int _, .ctor _ _ | .int _, .record _ | .int _, .arr _ => by simp [eqVal]
  | .str _, .int _ | .str _, .bool _ | .str _, .ctor _ _ | .str _, .record _ | .str _, .arr _ => by simp [eqVal]
  | .bool _, .int _ | .bool _, .str _ | .bool _, .ctor _ _ | .bool _, .record _ | .bool _, .arr _ => by simp [eqVal]
  | .ctor _ _, .int _ | .ctor _ _, .str _ | .ctor _ _, .bool _ | .ctor _ _, .record _ | .ctor _ _, .arr _ => by simp [eqVal]
  | .record _, .int _ | .record _, .str _ | .record _, .bool _ | .record _, .ctor _ _ | .record _, .arr _ => by simp [eqVal]
  | .arr _, .int _ | .arr _, .str _ | .arr _, .bool _ | .arr _, .ctor _ _ | .arr _, .record _ => by simp [eqVal]
theorem eqArgs_iff : ∀ (xs ys : List Val), eqArgs xs ys = true ↔ xs = ys
  | [], [] => by simp [eqArgs]
  | a :: as, b :: bs => by simp [eqArgs, eqVal_iff a b, eqArgs_iff as bs]
  | [], _ :: _ => by simp [eqArgs]
  | _ :: _, [] => by simp [eqArgs]
theorem eqFields_iff : ∀ (xs ys : List (String × Val)), eqFields xs ys = true ↔ xs = ys
  | [], [] => by simp [eqFields]
  | (n, a) :: as, (m, b) :: bs => by
    simp [eqFields, eqVal_iff a b, eqFields_iff as bs, and_assoc]
  | [], _ :: _ => by simp [eqFields]
  | _ :: _, [] => by simp [eqFields]
end

end GluonModel.StdDerive
