/-
Closure creation for a non-recursive lambda binding (`let f x… = body in rest`, which the core
translator turns into a one-element `Named::Recursive`): the code `NewClosure; Push; <load the
free variables>; CloseClosure` (compiler.rs:680-768 with `compile_lambda` :1116) allocates a heap
closure that is `CloRel`-related to the `evalCore` closure, after which `rest` may call `f`.
These instructions change the heap, so the run is split in phases (`ExecH`).
-/
import GluonModel.Proofs.Compile
namespace GluonModel.Proofs.Compile
open GluonModel.Core GluonModel.Bytecode GluonModel.Compile

/-- the inner function `compile_lambda` builds -/
def lamR (seIdx : Nat) (ps : List Sym) (body : Expr) : List Instr × FState :=
  compileE seIdx body true 0 (innerStart ps)

def lamFn (seIdx : Nat) (ps : List Sym) (body : Expr) : Fn :=
  mkFn ps.length (lamR seIdx ps body).1 (lamR seIdx ps body).2

/-- compiler state after `NewClosure` (placeholder), the variable `f`, and `Push f` -/
def preSt (st : FState) (f : Sym) : FState :=
  ((st.emit (.newClosure 0 0)).newStackVar f).emit (.push (st.stackSize + 0))

/-- loading the free variables of the lambda in the enclosing function -/
def lamLoads (seIdx : Nat) (ps : List Sym) (body : Expr) (st : FState) (f : Sym) :
    List Instr × FState :=
  loadFree (lamR seIdx ps body).2.freeVars (preSt st f)

/-- compiler state after `CloseClosure` -/
def postSt (seIdx : Nat) (ps : List Sym) (body : Expr) (st : FState) (f : Sym) : FState :=
  { ((lamLoads seIdx ps body st f).2.emit (.closeClosure (lamR seIdx ps body).2.freeVars.length)) with
    stackSize := ((lamLoads seIdx ps body st f).2.emit
        (.closeClosure (lamR seIdx ps body).2.freeVars.length)).stackSize -
      (lamR seIdx ps body).2.freeVars.length,
    inner := ((lamLoads seIdx ps body st f).2.emit
        (.closeClosure (lamR seIdx ps body).2.freeVars.length)).inner ++ [lamFn seIdx ps body],
    unsupported := ((lamLoads seIdx ps body st f).2.emit
        (.closeClosure (lamR seIdx ps body).2.freeVars.length)).unsupported <|>
      (lamR seIdx ps body).2.unsupported }

/-- the creation code -/
def lamCode (seIdx : Nat) (ps : List Sym) (body : Expr) (st : FState) (f : Sym) : List Instr :=
  .newClosure (lamLoads seIdx ps body st f).2.inner.length (lamR seIdx ps body).2.freeVars.length ::
    .push (st.stackSize + 0) :: (lamLoads seIdx ps body st f).1 ++
    [.closeClosure (lamR seIdx ps body).2.freeVars.length]

theorem compileBody_lambdaLet (seIdx : Nat) (f : Sym) (ps : List Sym) (body rest : Expr)
    (tail : Bool) (b : Nat) (st : FState) (hps : ps.isEmpty = false) :
    compileBody seIdx (.letRec [(f, ps, body)] rest) tail b st =
      (lamCode seIdx ps body st f ++
        (compileBody seIdx rest tail (b + (lamCode seIdx ps body st f).length)
          (postSt seIdx ps body st f)).1,
       (compileBody seIdx rest tail (b + (lamCode seIdx ps body st f).length)
          (postSt seIdx ps body st f)).2) := by
  have hpc : ∀ (n : Nat), b + 1 + (n + 1 + 1) = b + (n + 1 + 1 + 1) := by intro n; omega
  simp only [compileBody, compileClosures, hps, lamCode, postSt, lamLoads, preSt, lamR, lamFn,
    compileE, List.foldl, Bool.false_eq_true, if_false, List.length_cons, List.length_nil,
    List.append_nil, List.length_append, Nat.zero_add, Nat.add_zero, List.cons_append,
    List.nil_append, hpc]

theorem compileBody_ident (seIdx x tail b st) :
    compileBody seIdx (.ident x) tail b st = loadIdent x st := by
  simp [compileBody]

/-- `loadFree`: one load per free variable; statically the scopes are untouched, the stack grows
    by one per variable, tables only grow, no inner function is added; dynamically the values of
    the variables are pushed in order. -/
theorem loadFree_spec : ∀ (xs : List Sym) (b : Nat) (st : FState) (S : List (Sym × Nat))
    (rest : List (List (Sym × Nat))), st.scopes = S :: rest →
    (loadFree xs st).2.scopes = st.scopes ∧
    (loadFree xs st).2.stackSize = st.stackSize + xs.length ∧
    Ext st (loadFree xs st).2 ∧ (loadFree xs st).2.inner = st.inner ∧
    (loadFree xs st).2.unsupported = st.unsupported ∧
    (loadFree xs st).1.length = xs.length ∧
    ∀ (fn : Fn) (upv : List Val) (fv : List Sym) (K : Nat) (h : Heap) (ρ : Env) (stk ws : List Val),
      SegAt fn.instrs b (loadFree xs st).1 → Tables (loadFree xs st).2 fn fv →
      Agree K h [] fv upv st.scopes ρ stk → xs.map (lookup ρ) = ws.map some →
      Exec fn upv h b stk (b + xs.length) (stk ++ ws)
  | [], b, st, S, rest, _ => by
    refine ⟨rfl, rfl, Ext.refl st, rfl, rfl, rfl, ?_⟩
    intro fn upv fv K h ρ stk ws _ _ _ hws
    cases ws with
    | nil => simpa using Exec.refl (fn := fn) (upv := upv) (h := h) b stk
    | cons _ _ => simp at hws
  | x :: xs, b, st, S, rest, hsc => by
    obtain ⟨h1, h2, h3, h4, h5⟩ := ident_spec 0 [] x false b st S rest hsc
    rw [compileBody_ident] at h1 h2 h3 h4 h5
    have hin : (loadIdent x st).2.inner = st.inner ∧ (loadIdent x st).2.unsupported = st.unsupported := by
      have hu : (st.upvar x).2.inner = st.inner ∧ (st.upvar x).2.unsupported = st.unsupported := by
        unfold FState.upvar
        split <;> exact ⟨rfl, rfl⟩
      unfold loadIdent
      split
      · exact ⟨rfl, rfl⟩
      · exact hu
    obtain ⟨a1, a2, a3, a4, a5, a6, a7⟩ := loadFree_spec xs (b + 1) (loadIdent x st).2 S rest h1
    have hdef : loadFree (x :: xs) st =
        ((loadIdent x st).1 ++ (loadFree xs (loadIdent x st).2).1, (loadFree xs (loadIdent x st).2).2) := by
      simp [loadFree]
    rw [hdef]
    refine ⟨by rw [a1, h1, hsc], by rw [a2, h2]; simp; omega, h3.trans a3, by rw [a4, hin.1],
      by rw [a5, hin.2], by simp [a6, h4]; omega, ?_⟩
    intro fn upv fv K h ρ stk ws hseg htab hag hws
    cases ws with
    | nil => simp at hws
    | cons w ws =>
      simp only [List.map_cons, List.cons.injEq] at hws
      obtain ⟨v', hr, ex⟩ := h5 fn upv fv K h ρ stk w hseg.left (htab.of_ext a3) hag hws.1
      have hv : w = v' := by simpa [RV, lookupScope] using hr
      subst hv
      have ex2 := a7 fn upv fv K h ρ (stk ++ [w]) ws (hseg.right.to (by rw [h4])) htab
        (by rw [h1, ← hsc]; exact hag.append _) hws.2
      exact (ex.trans ex2).to (by simp only [List.length_cons]; omega) (by simp)

/-- runs of the frame-local machine in phases: `Exec` phases keep the heap, single turns may
    change it (closure allocation) -/
inductive ExecH (fn : Fn) (upv : List Val) : Heap → Nat → List Val → Heap → Nat → List Val → Prop where
  | refl (h : Heap) (pc : Nat) (stk : List Val) : ExecH fn upv h pc stk h pc stk
  | exec {h pc stk pc₁ stk₁ h₂ pc₂ stk₂} :
      Exec fn upv h pc stk pc₁ stk₁ → ExecH fn upv h pc₁ stk₁ h₂ pc₂ stk₂ →
      ExecH fn upv h pc stk h₂ pc₂ stk₂
  | step {h pc stk h₁ pc₁ stk₁ h₂ pc₂ stk₂} :
      stepLocal fn upv pc stk h = .next pc₁ stk₁ h₁ → ExecH fn upv h₁ pc₁ stk₁ h₂ pc₂ stk₂ →
      ExecH fn upv h pc stk h₂ pc₂ stk₂

theorem setAt_append_last {α} : ∀ (l : List α) (a b : α), setAt (l ++ [a]) l.length b = l ++ [b]
  | [], a, b => rfl
  | x :: l, a, b => by simp [setAt, setAt_append_last l a b]

theorem step_newClosure (fn g : Fn) (upv : List Val) (pc fi n : Nat) (stk : List Val) (h : Heap)
    (hg : fn.inner[fi]? = some g) :
    stepInstr fn upv (.newClosure fi n) pc stk h =
      .next (pc + 1) (stk ++ [.cref h.clos.length])
        { h with clos := h.clos ++ [(g, List.replicate n dummy)] } := by
  simp [stepInstr, hg]

theorem step_closeClosure (fn g : Fn) (upv : List Val) (pc : Nat) (stk ws : List Val) (h : Heap) :
    stepInstr fn upv (.closeClosure ws.length) pc
        (stk ++ [.cref h.clos.length] ++ [.cref h.clos.length] ++ ws)
        { h with clos := h.clos ++ [(g, List.replicate ws.length dummy)] } =
      .next (pc + 1) (stk ++ [.cref h.clos.length]) { h with clos := h.clos ++ [(g, ws)] } := by
  have hlen : ¬ ((stk ++ [Val.cref h.clos.length] ++ [Val.cref h.clos.length] ++ ws).length <
      ws.length + 1) := by simp; omega
  have hidx : (stk ++ [Val.cref h.clos.length] ++ [Val.cref h.clos.length] ++ ws)[
      (stk ++ [Val.cref h.clos.length] ++ [Val.cref h.clos.length] ++ ws).length - ws.length - 1]? =
      some (Val.cref h.clos.length) := by
    have e : (stk ++ [Val.cref h.clos.length] ++ [Val.cref h.clos.length] ++ ws).length - ws.length - 1
        = (stk ++ [Val.cref h.clos.length]).length := by simp; omega
    have e2 : stk ++ [Val.cref h.clos.length] ++ [Val.cref h.clos.length] ++ ws =
        (stk ++ [Val.cref h.clos.length]) ++ (Val.cref h.clos.length :: ws) := by simp
    rw [e, e2, List.getElem?_append_right (Nat.le_refl _)]
    simp
  have hcl : (h.clos ++ [(g, List.replicate ws.length dummy)])[h.clos.length]? =
      some (g, List.replicate ws.length dummy) := by simp
  have hl2 : ¬ ((stk ++ [Val.cref h.clos.length] ++ [Val.cref h.clos.length] ++ ws).length <
      (List.replicate ws.length dummy).length + 1) := by simp; omega
  have hpop : popN (stk ++ [Val.cref h.clos.length] ++ [Val.cref h.clos.length] ++ ws)
      ((List.replicate ws.length dummy).length + 1) = stk ++ [Val.cref h.clos.length] := by
    have : stk ++ [Val.cref h.clos.length] ++ [Val.cref h.clos.length] ++ ws =
        (stk ++ [Val.cref h.clos.length]) ++ ([Val.cref h.clos.length] ++ ws) := by simp
    rw [this]
    exact popN_append _ _ _ (by simp)
  have hlast : lastN (stk ++ [Val.cref h.clos.length] ++ [Val.cref h.clos.length] ++ ws)
      (List.replicate ws.length dummy).length = ws :=
    lastN_append _ ws _ (by simp)
  simp only [stepInstr, hlen, if_false, hidx, hcl, hl2, hpop, hlast, setAt_append_last]

end GluonModel.Proofs.Compile
