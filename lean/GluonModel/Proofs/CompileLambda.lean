/-
Closure creation for a non-recursive lambda binding (`let f x… = body in rest`, which the core
translator turns into a one-element `Named::Recursive`): the code `NewClosure; Push; <load the
free variables>; CloseClosure` (compiler.rs:680-768 with `compile_lambda` :1116) allocates a heap
closure that is `CloRel`-related to the `evalCore` closure, after which `rest` may call `f`.
These instructions change the heap, so the run is split in phases (`ExecH`).
-/
import GluonModel.Proofs.Compile
import GluonModel.Proofs.CompileHeap
import GluonModel.Proofs.CompileInner
namespace GluonModel.Proofs.Compile
open GluonModel.Core GluonModel.Bytecode GluonModel.Compile

/-- the inner function `compile_lambda` builds -/
def lamR (seIdx : Nat) (ps : List Sym) (body : Expr) : List Instr × FState :=
  compileE seIdx body true 0 (innerStart ps)

def lamFn (seIdx : Nat) (ps : List Sym) (body : Expr) : Fn :=
  mkFn ps.length (lamR seIdx ps body).1 (lamR seIdx ps body).2

/-- compiler state after `NewClosure` (placeholder), the variable `f`, and `Push f` -/
def preSt (st : FState) (f : Sym) : FState :=
  ((st.emit (.newClosure 0 0)).newStackVar f).emit (.push (st.stackSize + 0))

/-- loading the free variables of the lambda in the enclosing function -/
def lamLoads (seIdx : Nat) (ps : List Sym) (body : Expr) (st : FState) (f : Sym) :
    List Instr × FState :=
  loadFree (lamR seIdx ps body).2.freeVars (preSt st f)

/-- compiler state after `CloseClosure` -/
def postSt (seIdx : Nat) (ps : List Sym) (body : Expr) (st : FState) (f : Sym) : FState :=
  { ((lamLoads seIdx ps body st f).2.emit (.closeClosure (lamR seIdx ps body).2.freeVars.length)) with
    stackSize := ((lamLoads seIdx ps body st f).2.emit
        (.closeClosure (lamR seIdx ps body).2.freeVars.length)).stackSize -
      (lamR seIdx ps body).2.freeVars.length,
    inner := ((lamLoads seIdx ps body st f).2.emit
        (.closeClosure (lamR seIdx ps body).2.freeVars.length)).inner ++ [lamFn seIdx ps body],
    unsupported := ((lamLoads seIdx ps body st f).2.emit
        (.closeClosure (lamR seIdx ps body).2.freeVars.length)).unsupported <|>
      (lamR seIdx ps body).2.unsupported }

/-- the creation code -/
def lamCode (seIdx : Nat) (ps : List Sym) (body : Expr) (st : FState) (f : Sym) : List Instr :=
  .newClosure (lamLoads seIdx ps body st f).2.inner.length (lamR seIdx ps body).2.freeVars.length ::
    .push (st.stackSize + 0) :: (lamLoads seIdx ps body st f).1 ++
    [.closeClosure (lamR seIdx ps body).2.freeVars.length]

theorem compileBody_lambdaLet (seIdx : Nat) (f : Sym) (ps : List Sym) (body rest : Expr)
    (tail : Bool) (b : Nat) (st : FState) (hps : ps.isEmpty = false) :
    compileBody seIdx (.letRec [(f, ps, body)] rest) tail b st =
      (lamCode seIdx ps body st f ++
        (compileBody seIdx rest tail (b + (lamCode seIdx ps body st f).length)
          (postSt seIdx ps body st f)).1,
       (compileBody seIdx rest tail (b + (lamCode seIdx ps body st f).length)
          (postSt seIdx ps body st f)).2) := by
  have hpc : ∀ (n : Nat), b + 1 + (n + 1 + 1) = b + (n + 1 + 1 + 1) := by intro n; omega
  simp only [compileBody, compileClosures, hps, lamCode, postSt, lamLoads, preSt, lamR, lamFn,
    compileE, List.foldl, Bool.false_eq_true, if_false, List.length_cons, List.length_nil,
    List.append_nil, List.length_append, Nat.zero_add, Nat.add_zero, List.cons_append,
    List.nil_append, hpc]

theorem compileBody_ident (seIdx x tail b st) :
    compileBody seIdx (.ident x) tail b st = loadIdent x st := by
  simp [compileBody]

/-- `loadFree`: one load per free variable; statically the scopes are untouched, the stack grows
    by one per variable, tables only grow, no inner function is added; dynamically the values of
    the variables are pushed in order. -/
theorem loadFree_spec : ∀ (xs : List Sym) (b : Nat) (st : FState) (S : List (Sym × Nat))
    (rest : List (List (Sym × Nat))), st.scopes = S :: rest →
    (loadFree xs st).2.scopes = st.scopes ∧
    (loadFree xs st).2.stackSize = st.stackSize + xs.length ∧
    Ext st (loadFree xs st).2 ∧ (loadFree xs st).2.inner = st.inner ∧
    (loadFree xs st).2.unsupported = st.unsupported ∧
    (loadFree xs st).1.length = xs.length ∧
    ∀ (fn : Fn) (upv : List Val) (fv : List Sym) (K : Nat) (h : Heap) (ρ : Env) (stk ws : List Val),
      SegAt fn.instrs b (loadFree xs st).1 → Tables (loadFree xs st).2 fn fv →
      Agree K h [] fv upv st.scopes ρ stk → xs.map (lookup ρ) = ws.map some →
      Exec fn upv h b stk (b + xs.length) (stk ++ ws)
  | [], b, st, S, rest, _ => by
    refine ⟨rfl, rfl, Ext.refl st, rfl, rfl, rfl, ?_⟩
    intro fn upv fv K h ρ stk ws _ _ _ hws
    cases ws with
    | nil => simpa using Exec.refl (fn := fn) (upv := upv) (h := h) b stk
    | cons _ _ => simp at hws
  | x :: xs, b, st, S, rest, hsc => by
    obtain ⟨h1, h2, h3, h4, h5⟩ := ident_spec 0 [] x false b st S rest hsc
    rw [compileBody_ident] at h1 h2 h3 h4 h5
    have hin : (loadIdent x st).2.inner = st.inner ∧ (loadIdent x st).2.unsupported = st.unsupported := by
      have hu : (st.upvar x).2.inner = st.inner ∧ (st.upvar x).2.unsupported = st.unsupported := by
        unfold FState.upvar
        split <;> exact ⟨rfl, rfl⟩
      unfold loadIdent
      split
      · exact ⟨rfl, rfl⟩
      · exact hu
    obtain ⟨a1, a2, a3, a4, a5, a6, a7⟩ := loadFree_spec xs (b + 1) (loadIdent x st).2 S rest h1
    have hdef : loadFree (x :: xs) st =
        ((loadIdent x st).1 ++ (loadFree xs (loadIdent x st).2).1, (loadFree xs (loadIdent x st).2).2) := by
      simp [loadFree]
    rw [hdef]
    refine ⟨by rw [a1, h1, hsc], by rw [a2, h2]; simp; omega, h3.trans a3, by rw [a4, hin.1],
      by rw [a5, hin.2], by simp [a6, h4]; omega, ?_⟩
    intro fn upv fv K h ρ stk ws hseg htab hag hws
    cases ws with
    | nil => simp at hws
    | cons w ws =>
      simp only [List.map_cons, List.cons.injEq] at hws
      obtain ⟨v', hr, ex⟩ := h5 fn upv fv K h ρ stk w hseg.left (htab.of_ext a3) hag hws.1
      have hv : w = v' := by simpa [RV, lookupScope] using hr
      subst hv
      have ex2 := a7 fn upv fv K h ρ (stk ++ [w]) ws (hseg.right.to (by rw [h4])) htab
        (by rw [h1, ← hsc]; exact hag.append _) hws.2
      exact (ex.trans ex2).to (by simp only [List.length_cons]; omega) (by simp)

/-- runs of the frame-local machine in phases: `Exec` phases keep the heap, single turns may
    change it (closure allocation) -/
inductive ExecH (fn : Fn) (upv : List Val) : Heap → Nat → List Val → Heap → Nat → List Val → Prop where
  | refl (h : Heap) (pc : Nat) (stk : List Val) : ExecH fn upv h pc stk h pc stk
  | exec {h pc stk pc₁ stk₁ h₂ pc₂ stk₂} :
      Exec fn upv h pc stk pc₁ stk₁ → ExecH fn upv h pc₁ stk₁ h₂ pc₂ stk₂ →
      ExecH fn upv h pc stk h₂ pc₂ stk₂
  | step {h pc stk h₁ pc₁ stk₁ h₂ pc₂ stk₂} :
      stepLocal fn upv pc stk h = .next pc₁ stk₁ h₁ → ExecH fn upv h₁ pc₁ stk₁ h₂ pc₂ stk₂ →
      ExecH fn upv h pc stk h₂ pc₂ stk₂

theorem setAt_append_last {α} : ∀ (l : List α) (a b : α), setAt (l ++ [a]) l.length b = l ++ [b]
  | [], a, b => rfl
  | x :: l, a, b => by simp [setAt, setAt_append_last l a b]

theorem step_newClosure (fn g : Fn) (upv : List Val) (pc fi n : Nat) (stk : List Val) (h : Heap)
    (hg : fn.inner[fi]? = some g) :
    stepInstr fn upv (.newClosure fi n) pc stk h =
      .next (pc + 1) (stk ++ [.cref h.clos.length])
        { h with clos := h.clos ++ [(g, List.replicate n dummy)] } := by
  simp [stepInstr, hg]

theorem step_closeClosure (fn g : Fn) (upv : List Val) (pc : Nat) (stk ws : List Val) (h : Heap) :
    stepInstr fn upv (.closeClosure ws.length) pc
        (stk ++ [.cref h.clos.length] ++ [.cref h.clos.length] ++ ws)
        { h with clos := h.clos ++ [(g, List.replicate ws.length dummy)] } =
      .next (pc + 1) (stk ++ [.cref h.clos.length]) { h with clos := h.clos ++ [(g, ws)] } := by
  have hlen : ¬ ((stk ++ [Val.cref h.clos.length] ++ [Val.cref h.clos.length] ++ ws).length <
      ws.length + 1) := by simp; omega
  have hidx : (stk ++ [Val.cref h.clos.length] ++ [Val.cref h.clos.length] ++ ws)[
      (stk ++ [Val.cref h.clos.length] ++ [Val.cref h.clos.length] ++ ws).length - ws.length - 1]? =
      some (Val.cref h.clos.length) := by
    have e : (stk ++ [Val.cref h.clos.length] ++ [Val.cref h.clos.length] ++ ws).length - ws.length - 1
        = (stk ++ [Val.cref h.clos.length]).length := by simp; omega
    have e2 : stk ++ [Val.cref h.clos.length] ++ [Val.cref h.clos.length] ++ ws =
        (stk ++ [Val.cref h.clos.length]) ++ (Val.cref h.clos.length :: ws) := by simp
    rw [e, e2, List.getElem?_append_right (Nat.le_refl _)]
    simp
  have hcl : (h.clos ++ [(g, List.replicate ws.length dummy)])[h.clos.length]? =
      some (g, List.replicate ws.length dummy) := by simp
  have hl2 : ¬ ((stk ++ [Val.cref h.clos.length] ++ [Val.cref h.clos.length] ++ ws).length <
      (List.replicate ws.length dummy).length + 1) := by simp; omega
  have hpop : popN (stk ++ [Val.cref h.clos.length] ++ [Val.cref h.clos.length] ++ ws)
      ((List.replicate ws.length dummy).length + 1) = stk ++ [Val.cref h.clos.length] := by
    have : stk ++ [Val.cref h.clos.length] ++ [Val.cref h.clos.length] ++ ws =
        (stk ++ [Val.cref h.clos.length]) ++ ([Val.cref h.clos.length] ++ ws) := by simp
    rw [this]
    exact popN_append _ _ _ (by simp)
  have hlast : lastN (stk ++ [Val.cref h.clos.length] ++ [Val.cref h.clos.length] ++ ws)
      (List.replicate ws.length dummy).length = ws :=
    lastN_append _ ws _ (by simp)
  simp only [stepInstr, hlen, if_false, hidx, hcl, hl2, hpop, hlast, setAt_append_last]

/-! ### Runs in phases -/

theorem ExecH.trans {fn upv h pc stk h₁ pc₁ stk₁ h₂ pc₂ stk₂} :
    ExecH fn upv h pc stk h₁ pc₁ stk₁ → ExecH fn upv h₁ pc₁ stk₁ h₂ pc₂ stk₂ →
    ExecH fn upv h pc stk h₂ pc₂ stk₂
  | .refl _ _ _, b => b
  | .exec a r, b => .exec a (r.trans b)
  | .step s r, b => .step s (r.trans b)

theorem ExecH.of_exec {fn upv h pc stk pc' stk'} (a : Exec fn upv h pc stk pc' stk') :
    ExecH fn upv h pc stk h pc' stk' := .exec a (.refl _ _ _)

/-- the code of an expression ends as `Done` says, after phases that may have extended the heap
    from `h` to `h'` -/
def DoneH (fn : Fn) (upv : List Val) (h : Heap) (tail : Bool) (pc : Nat) (stk : List Val)
    (pcE : Nat) (stkE : List Val) (v : Val) (h' : Heap) : Prop :=
  ∃ pc₁ stk₁, ExecH fn upv h pc stk h' pc₁ stk₁ ∧ Done fn upv h' tail pc₁ stk₁ pcE stkE v

/-- the frame fails with the arithmetic error, possibly after phases that extended the heap -/
def ErrH (fn : Fn) (upv : List Val) (h : Heap) (pc : Nat) (stk : List Val) : Prop :=
  ∃ h' pc₁ stk₁, ExecH fn upv h pc stk h' pc₁ stk₁ ∧ ExecErr fn upv h' pc₁ stk₁ .arith

theorem DoneH.of_done {fn upv h tail pc stk pcE stkE v}
    (d : Done fn upv h tail pc stk pcE stkE v) : DoneH fn upv h tail pc stk pcE stkE v h :=
  ⟨pc, stk, .refl _ _ _, d⟩

theorem DoneH.prepend {fn upv h tail pc stk h₁ pc₁ stk₁ pcE stkE v h'}
    (a : ExecH fn upv h pc stk h₁ pc₁ stk₁) (d : DoneH fn upv h₁ tail pc₁ stk₁ pcE stkE v h') :
    DoneH fn upv h tail pc stk pcE stkE v h' := by
  obtain ⟨p, s, e, dn⟩ := d
  exact ⟨p, s, a.trans e, dn⟩

theorem ErrH.prepend {fn upv h pc stk h₁ pc₁ stk₁}
    (a : ExecH fn upv h pc stk h₁ pc₁ stk₁) (d : ErrH fn upv h₁ pc₁ stk₁) : ErrH fn upv h pc stk := by
  obtain ⟨h', p, s, e, er⟩ := d
  exact ⟨h', p, s, a.trans e, er⟩

theorem ErrH.of_err {fn upv h pc stk} (e : ExecErr fn upv h pc stk .arith) : ErrH fn upv h pc stk :=
  ⟨h, pc, stk, .refl _ _ _, e⟩

/-! ### Loading the captured variables, with function variables -/

/-- `loadFree` at run time: the values that represent the variables (`RV`) are pushed in order -/
theorem loadFree_run : ∀ (xs : List Sym) (b : Nat) (st : FState) (S : List (Sym × Nat))
    (rest : List (List (Sym × Nat))), st.scopes = S :: rest →
    ∀ (fn : Fn) (upv : List Val) (fv : List Sym) (K : Nat) (h : Heap) (Φ : List (Sym × Nat)) (ρ : Env)
      (stk : List Val),
      SegAt fn.instrs b (loadFree xs st).1 → Tables (loadFree xs st).2 fn fv →
      Agree K h Φ fv upv st.scopes ρ stk → (∀ x ∈ xs, (lookup ρ x).isSome = true) →
      ∃ ws : List Val, ws.length = xs.length ∧ Exec fn upv h b stk (b + xs.length) (stk ++ ws) ∧
        ∀ (k : Nat) (x : Sym) (w : Val), xs[k]? = some x → lookup ρ x = some w →
          ∃ v', ws[k]? = some v' ∧ RV K h Φ x w v'
  | [], b, st, S, rest, _ => by
    intro fn upv fv K h Φ ρ stk _ _ _ _
    exact ⟨[], rfl, by simpa using Exec.refl (fn := fn) (upv := upv) (h := h) b stk, by simp⟩
  | x :: xs, b, st, S, rest, hsc => by
    intro fn upv fv K h Φ ρ stk hseg htab hag hdom
    obtain ⟨h1, h2, h3, h4, _⟩ := ident_spec 0 [] x false b st S rest hsc
    obtain ⟨_, _, _, _, h5⟩ := ident_spec 0 Φ x false b st S rest hsc
    rw [compileBody_ident] at h1 h2 h3 h4 h5
    obtain ⟨a1, a2, a3, a4, a5, a6, _⟩ := loadFree_spec xs (b + 1) (loadIdent x st).2 S rest h1
    have hdef : loadFree (x :: xs) st =
        ((loadIdent x st).1 ++ (loadFree xs (loadIdent x st).2).1, (loadFree xs (loadIdent x st).2).2) := by
      simp [loadFree]
    rw [hdef] at hseg htab
    have hxs := hdom x (by simp)
    cases hlx : lookup ρ x with
    | none => simp [hlx] at hxs
    | some w =>
      obtain ⟨v', hr, ex⟩ := h5 fn upv fv K h ρ stk w hseg.left (htab.of_ext a3) hag hlx
      obtain ⟨ws, hwl, ex2, hrel⟩ := loadFree_run xs (b + 1) (loadIdent x st).2 S rest h1 fn upv fv K h Φ ρ
        (stk ++ [v']) (hseg.right.to (by rw [h4])) htab (by rw [h1, ← hsc]; exact hag.append _)
        (fun y hy => hdom y (by simp [hy]))
      refine ⟨v' :: ws, by simp [hwl], (ex.trans ex2).to (by simp only [List.length_cons]; omega) (by simp), ?_⟩
      intro k y wy hk hy
      cases k with
      | zero =>
        simp only [List.getElem?_cons_zero, Option.some.injEq] at hk
        subst hk
        rw [hlx] at hy; cases hy
        exact ⟨v', by simp, hr⟩
      | succ k =>
        simp only [List.getElem?_cons_succ] at hk ⊢
        exact hrel k y wy hk hy

/-! ### The fragment with closure creation -/

/-- what is asked of one lambda binding `let f ps = body` (a one-element `Named::Recursive`,
    possibly calling itself): parameters present and fresh, `f` not yet a function variable, the
    body in F2 relative to the function variables in scope *and* `f` itself, and every captured
    variable bound (`dom`: the variables in scope) -/
def lamOk (seIdx : Nat) (Φ : List (Sym × Nat)) (dom : List Sym) (f : Sym) (ps : List Sym)
    (body : Expr) : Bool :=
  !ps.isEmpty && !ps.contains dummySym && decide (f ≠ dummySym) && (lookupScope Φ f).isNone &&
  ps.all (fun a => (lookupScope ((f, ps.length) :: Φ) a).isNone) &&
  inF ((f, ps.length) :: Φ) body &&
  (lamR seIdx ps body).2.freeVars.all (fun x => x == f || dom.contains x)

def letOk (Φ : List (Sym × Nat)) (x : Sym) (e₁ : Expr) : Bool :=
  decide (x ≠ dummySym) && (lookupScope Φ x).isNone && inF Φ e₁

mutual
/-- **F3 (partial): closure creation.** F2, preceded by any chain of lambda bindings
    `let f ps = body in …` (bodies in F2, may call themselves and the earlier functions of the
    chain with exact arity, capture any variables in scope) and plain bindings `let x = e₁ in …`
    (`e₁` in F2, so it may call the functions bound before it). -/
def inF3 (seIdx : Nat) : Expr → List (Sym × Nat) → List Sym → Bool
  | .letRec cs rest, Φ, dom =>
    match cs with
    | [(f, ps, body)] =>
      lamOk seIdx Φ dom f ps body && inF3 seIdx rest ((f, ps.length) :: Φ) (f :: dom)
    | _ => false
  | .letE x e₁ body, Φ, dom =>
    inF Φ (.letE x e₁ body) || (letOk Φ x e₁ && inF3 seIdx body Φ (x :: dom))
  | .match_ s alts, Φ, dom =>
    inF Φ (.match_ s alts) || (inF Φ s && inF3Alt seIdx alts Φ dom)
  | e, Φ, _ => inF Φ e
/-- a record pattern as the only alternative (`let { … } = s in e`; the two wrappers
    `match @std.types with {} -> match @std.prim with { error } -> …` every program compiled
    without the implicit prelude starts with): the alternative's body goes on in F3 -/
def inF3Alt (seIdx : Nat) : List (Pat × Expr) → List (Sym × Nat) → List Sym → Bool
  | [(p, e)], Φ, dom =>
    patOk p && patFresh Φ p && isRec p && inF3 seIdx e Φ (patBinders p ++ dom)
  | _, _, _ => false
end

inductive InF3 (seIdx : Nat) : List (Sym × Nat) → List Sym → Expr → Prop where
  | base {Φ dom e} : inF Φ e = true → InF3 seIdx Φ dom e
  | lam {Φ dom f ps body rest} : lamOk seIdx Φ dom f ps body = true →
      InF3 seIdx ((f, ps.length) :: Φ) (f :: dom) rest → InF3 seIdx Φ dom (.letRec [(f, ps, body)] rest)
  | letE {Φ dom x e₁ body} : letOk Φ x e₁ = true → InF3 seIdx Φ (x :: dom) body →
      InF3 seIdx Φ dom (.letE x e₁ body)
  | matchRec {Φ dom s p e} : inF Φ s = true → patOk p = true → patFresh Φ p = true →
      isRec p = true → InF3 seIdx Φ (patBinders p ++ dom) e → InF3 seIdx Φ dom (.match_ s [(p, e)])

theorem inF3_sound (seIdx : Nat) : ∀ (e : Expr) (Φ : List (Sym × Nat)) (dom : List Sym),
    inF3 seIdx e Φ dom = true → InF3 seIdx Φ dom e
  | .letRec cs rest, Φ, dom, h => by
    match cs, h with
    | [(f, ps, body)], h =>
      simp only [inF3, Bool.and_eq_true] at h
      exact .lam h.1 (inF3_sound seIdx rest _ _ h.2)
    | [], h => simp [inF3] at h
    | _ :: _ :: _, h => simp [inF3] at h
  | .letE x e₁ body, Φ, dom, h => by
    simp only [inF3, Bool.or_eq_true, Bool.and_eq_true] at h
    rcases h with h | h
    · exact .base h
    · exact .letE h.1 (inF3_sound seIdx body _ _ h.2)
  | .const l, Φ, dom, h => .base (by simpa [inF3] using h)
  | .ident x, Φ, dom, h => .base (by simpa [inF3] using h)
  | .call f args, Φ, dom, h => .base (by simpa [inF3] using h)
  | .data k args, Φ, dom, h => .base (by simpa [inF3] using h)
  | .match_ s alts, Φ, dom, h => by
    simp only [inF3, Bool.or_eq_true, Bool.and_eq_true] at h
    rcases h with h | h
    · exact .base h
    · match alts, h with
      | [(p, e)], h =>
        simp only [inF3Alt, Bool.and_eq_true] at h
        exact .matchRec h.1 h.2.1.1.1 h.2.1.1.2 h.2.1.2 (inF3_sound seIdx e _ _ h.2.2)
      | [], h => simp [inF3Alt] at h
      | _ :: _ :: _, h => simp [inF3Alt] at h
  | .cast e, Φ, dom, h => .base (by simpa [inF3] using h)

/-- what `compileBody` guarantees for an expression of F3: as `BodySpec`, but the run may extend
    the heap (`HExt h h'`, phases `ExecH`), the enclosing function must contain the inner
    functions the compiler registered, and the variables of `dom` must be bound -/
def BodySpec3 (seIdx : Nat) (Φ : List (Sym × Nat)) (dom : List Sym) (e : Expr) : Prop :=
  ∀ (tail : Bool) (b : Nat) (st : FState) (S : List (Sym × Nat)) (rest : List (List (Sym × Nat))),
    st.scopes = S :: rest →
    ∃ N : List (Sym × Nat),
      (compileBody seIdx e tail b st).2.scopes = (N ++ S) :: rest ∧
      (compileBody seIdx e tail b st).2.stackSize = st.stackSize + N.length + 1 ∧
      Ext st (compileBody seIdx e tail b st).2 ∧
      st.inner <+: (compileBody seIdx e tail b st).2.inner ∧
      ∀ (K fuel : Nat), fuel ≤ K + 1 →
      ∀ (fn : Fn) (upv : List Val) (fv : List Sym) (h : Heap) (ρ : Env) (stk : List Val),
        SegAt fn.instrs b (compileBody seIdx e tail b st).1 →
        Tables (compileBody seIdx e tail b st).2 fn fv →
        (compileBody seIdx e tail b st).2.inner <+: fn.inner →
        stk.length = st.stackSize → Agree K h Φ fv upv st.scopes ρ stk → lookup ρ dummySym = none →
        (∀ x ∈ dom, (lookup ρ x).isSome = true) →
        (∀ v, evalCore fuel ρ e = .ok v →
          ∃ (h' : Heap) (L : List Val), HExt h h' ∧ L.length = N.length ∧
            DoneH fn upv h tail b stk (b + (compileBody seIdx e tail b st).1.length) (stk ++ L) v h') ∧
        (evalCore fuel ρ e = .error .arith → ErrH fn upv h b stk)

theorem base_spec3 {seIdx : Nat} {Φ : List (Sym × Nat)} {dom : List Sym} {e : Expr}
    (hF : inF Φ e = true) : BodySpec3 seIdx Φ dom e := by
  intro tail b st S rest hsc
  obtain ⟨N, h1, h2, h3, hd⟩ := body_spec seIdx Φ e hF tail b st S rest hsc
  refine ⟨N, h1, h2, h3, by rw [inner_body seIdx Φ e hF]; exact List.prefix_refl _, ?_⟩
  intro K fuel hK fn upv fv h ρ stk hseg htab _ hlen hag hdum _
  obtain ⟨hok, herr⟩ := hd K fuel hK fn upv fv h ρ stk hseg htab hlen hag hdum
  refine ⟨fun v hv => ?_, fun he => ErrH.of_err (herr he)⟩
  obtain ⟨L, hL, dn⟩ := hok v hv
  exact ⟨h, L, HExt.refl h, hL, DoneH.of_done dn⟩

theorem Agree.bindFn {K h Φ fv upv S rest ρ stk f n v id}
    (ha : Agree K h Φ fv upv (S :: rest) ρ stk) (hc : CloRel K h n v (.cref id)) :
    Agree K h ((f, n) :: Φ) fv upv (((f, stk.length) :: S) :: rest) ((f, v) :: ρ)
      (stk ++ [.cref id]) := by
  intro y w hy
  simp only [lookup] at hy
  by_cases hyx : y = f
  · simp [hyx] at hy; subst hy
    exact Or.inl ⟨stk.length, .cref id, by simp [lookupScopes, lookupScope, hyx], by simp,
      by simpa [RV, hyx, lookupScope] using hc⟩
  · simp [hyx] at hy
    have hrv : ∀ a a', RV K h Φ y a a' → RV K h ((f, n) :: Φ) y a a' := by
      intro a a' hr
      simpa [RV, lookupScope, hyx] using hr
    rcases (ha.append [.cref id]) y w hy with ⟨i, v', hi, hv, hr⟩ | ⟨hn, hr⟩
    · refine Or.inl ⟨i, v', ?_, hv, hrv _ _ hr⟩
      simp only [lookupScopes, lookupScope, hyx, if_false] at hi ⊢
      exact hi
    · refine Or.inr ⟨?_, fun k hk => ?_⟩
      · simp only [lookupScopes, lookupScope, hyx, if_false] at hn ⊢
        exact hn
      · obtain ⟨v', hu, hr'⟩ := hr k hk
        exact ⟨v', hu, hrv _ _ hr'⟩

theorem recEnv_single (f : Sym) (ps : List Sym) (body : Expr) (ρ : Env) :
    recEnv [(f, ps, body)] ρ = (f, .clos [(f, ps, body)] 0 ρ) :: ρ := rfl

theorem lookup_cons_ne {x f : Sym} {v : Val} {ρ : Env} (h : ¬ x = f) :
    lookup ((f, v) :: ρ) x = lookup ρ x := by
  simp [lookup, h]

/-- **Closure creation.** The code `NewClosure; Push f; <loads>; CloseClosure` of
    `let f ps = body in rest` allocates a heap closure related (at every fuel up to `K`) to the
    `evalCore` closure — also when `body` calls `f` itself — after which `rest` runs with `f` as a
    function variable. -/
theorem lam_spec {seIdx : Nat} {Φ : List (Sym × Nat)} {dom : List Sym} {f : Sym} {ps : List Sym}
    {body rest : Expr} (hok : lamOk seIdx Φ dom f ps body = true)
    (ih : BodySpec3 seIdx ((f, ps.length) :: Φ) (f :: dom) rest) :
    BodySpec3 seIdx Φ dom (.letRec [(f, ps, body)] rest) := by
  simp only [lamOk, Bool.and_eq_true, Bool.not_eq_true', decide_eq_true_eq,
    Option.isNone_iff_eq_none, List.all_eq_true, Bool.or_eq_true, beq_iff_eq] at hok
  obtain ⟨⟨⟨⟨⟨⟨hps, hnd⟩, hfd⟩, hfΦ⟩, hpΦ⟩, hbF⟩, hfree⟩ := hok
  have hp0 : ps.length ≠ 0 := by
    cases ps with
    | nil => simp at hps
    | cons _ _ => simp
  intro tail b st S rs hsc
  have hpre_sc : (preSt st f).scopes = ((f, st.stackSize) :: S) :: rs := by
    simp [preSt, FState.emit, FState.newStackVar, hsc, adjustSize, Instr.adjust]
  have hpre_sz : (preSt st f).stackSize = st.stackSize + 2 := by
    simp [preSt, FState.emit, FState.newStackVar, hsc, adjustSize, Instr.adjust]
  have hpre_ext : Ext st (preSt st f) :=
    (((same_emit st _).trans (same_newStackVar _ f)).trans (same_emit _ _)).ext
  have hpre_inner : (preSt st f).inner = st.inner := by
    simp [preSt, FState.emit, inner_newStackVar]
  obtain ⟨l1, l2, l3, l4, _, l6, _⟩ :=
    loadFree_spec (lamR seIdx ps body).2.freeVars (b + 2) (preSt st f) _ rs hpre_sc
  have hpost_sc : (postSt seIdx ps body st f).scopes = ((f, st.stackSize) :: S) :: rs := by
    show (lamLoads seIdx ps body st f).2.scopes = _
    unfold lamLoads; rw [l1, hpre_sc]
  have hpost_sz : (postSt seIdx ps body st f).stackSize = st.stackSize + 1 := by
    show adjustSize (.closeClosure _) (lamLoads seIdx ps body st f).2.stackSize - _ = _
    unfold lamLoads; rw [l2, hpre_sz]
    simp [adjustSize, Instr.adjust]
  have hpost_ext : Ext (lamLoads seIdx ps body st f).2 (postSt seIdx ps body st f) :=
    ⟨List.prefix_refl _, List.prefix_refl _, List.prefix_refl _⟩
  have hpost_inner : (postSt seIdx ps body st f).inner = st.inner ++ [lamFn seIdx ps body] := by
    show (lamLoads seIdx ps body st f).2.inner ++ _ = _
    unfold lamLoads; rw [l4, hpre_inner]
  have hfi : (lamLoads seIdx ps body st f).2.inner.length = st.inner.length := by
    unfold lamLoads; rw [l4, hpre_inner]
  have hllen : (lamLoads seIdx ps body st f).1.length = (lamR seIdx ps body).2.freeVars.length := l6
  obtain ⟨N', r1, r2, r3, r4, rdyn⟩ := ih tail (b + (lamCode seIdx ps body st f).length)
    (postSt seIdx ps body st f) _ rs hpost_sc
  have hext_all : Ext (lamLoads seIdx ps body st f).2
      (compileBody seIdx rest tail (b + (lamCode seIdx ps body st f).length)
        (postSt seIdx ps body st f)).2 := hpost_ext.trans r3
  rw [compileBody_lambdaLet seIdx f ps body rest tail b st hps]
  refine ⟨N' ++ [(f, st.stackSize)], by simpa using r1, by simp [r2, hpost_sz]; omega,
    (hpre_ext.trans l3).trans hext_all, ?_, ?_⟩
  · exact (hpost_inner ▸ List.prefix_append _ _ : st.inner <+: (postSt seIdx ps body st f).inner).trans r4
  intro K fuel hK fn upv fv h ρ stk hseg htab hinn hlen hag hdum hdom
  cases fuel with
  | zero => simp [evalCore]
  | succ n =>
    simp only [evalCore, recEnv_single]
    -- the code
    have sL := hseg.left
    unfold lamCode at sL
    have iNew := sL.left.head
    have iPush := sL.left.tail.head
    have sLoads := sL.left.tail.tail
    have iClose := sL.right.head
    -- the inner function is where `NewClosure` looks for it
    have hinner : fn.inner[(lamLoads seIdx ps body st f).2.inner.length]? = some (lamFn seIdx ps body) := by
      rw [hfi]
      refine prefix_getElem? (r4.trans hinn) ?_
      rw [hpost_inner]; simp
    -- A: NewClosure
    have stepA : stepLocal fn upv b stk h = .next (b + 1) (stk ++ [.cref h.clos.length])
        { h with clos := h.clos ++ [(lamFn seIdx ps body,
            List.replicate (lamR seIdx ps body).2.freeVars.length dummy)] } := by
      simp only [stepLocal, iNew]
      exact step_newClosure fn _ upv b _ _ stk h hinner
    -- B: Push f, then the captured variables (relations established over `h`)
    have hagL : Agree K h Φ fv upv (preSt st f).scopes ((f, .cref h.clos.length) :: ρ)
        (stk ++ [.cref h.clos.length] ++ [.cref h.clos.length]) := by
      rw [hpre_sc, ← hlen]
      rw [hsc] at hag
      exact (hag.bind hfΦ).append _
    have hdomL : ∀ x ∈ (lamR seIdx ps body).2.freeVars,
        (lookup ((f, Val.cref h.clos.length) :: ρ) x).isSome = true := by
      intro x hx
      by_cases hxf : x = f
      · simp [lookup, hxf]
      · rw [lookup_cons_ne hxf]
        rcases hfree x hx with h' | h'
        · exact absurd h' hxf
        · exact hdom x (by simpa using h')
    obtain ⟨ws, hwl, exL, hrel⟩ := loadFree_run (lamR seIdx ps body).2.freeVars (b + 1 + 1) (preSt st f) _ rs
      hpre_sc fn upv fv K h Φ ((f, .cref h.clos.length) :: ρ)
      (stk ++ [.cref h.clos.length] ++ [.cref h.clos.length]) sLoads (htab.of_ext hext_all) hagL hdomL
    have hx01 := HExt.snoc h (lamFn seIdx ps body,
      List.replicate (lamR seIdx ps body).2.freeVars.length dummy)
    have hx02 := HExt.snoc h (lamFn seIdx ps body, ws)
    have exPush : Exec fn upv { h with clos := h.clos ++ [(lamFn seIdx ps body,
            List.replicate (lamR seIdx ps body).2.freeVars.length dummy)] } (b + 1)
        (stk ++ [.cref h.clos.length]) (b + 1 + 1)
        (stk ++ [.cref h.clos.length] ++ [.cref h.clos.length]) :=
      Exec.step iPush (step_push fn upv _ _ _ _ _ (by rw [Nat.add_zero, ← hlen]; simp))
    have exB := exPush.trans (exL.hext hx01)
    -- C: CloseClosure
    have stepC : stepLocal fn upv (b + 1 + 1 + (lamR seIdx ps body).2.freeVars.length)
        (stk ++ [.cref h.clos.length] ++ [.cref h.clos.length] ++ ws)
        { h with clos := h.clos ++ [(lamFn seIdx ps body,
            List.replicate (lamR seIdx ps body).2.freeVars.length dummy)] } =
        .next (b + 1 + 1 + (lamR seIdx ps body).2.freeVars.length + 1) (stk ++ [.cref h.clos.length])
          { h with clos := h.clos ++ [(lamFn seIdx ps body, ws)] } := by
      have hi : fn.instrs[b + 1 + 1 + (lamR seIdx ps body).2.freeVars.length]? =
          some (.closeClosure ws.length) := by
        rw [hwl, ← iClose]
        congr 1
        simp [hllen]; omega
      simp only [stepLocal, hi]
      rw [← hwl]
      exact step_closeClosure fn _ upv _ stk ws h
    have exCreate : ExecH fn upv h b stk { h with clos := h.clos ++ [(lamFn seIdx ps body, ws)] }
        (b + (lamCode seIdx ps body st f).length) (stk ++ [.cref h.clos.length]) := by
      have : b + (lamCode seIdx ps body st f).length =
          b + 1 + 1 + (lamR seIdx ps body).2.freeVars.length + 1 := by
        simp [lamCode, hllen]; omega
      rw [this]
      exact .step stepA (.exec exB (.step stepC (.refl _ _ _)))
    -- the new closure is related to the `evalCore` closure at every fuel up to `K`
    have hg2 : ({ h with clos := h.clos ++ [(lamFn seIdx ps body, ws)] } : Heap).clos[h.clos.length]? =
        some (lamFn seIdx ps body, ws) := by simp
    have hfd' : ¬ dummySym = f := fun e => hfd e.symm
    have hdum' : lookup ((f, Val.clos [(f, ps, body)] 0 ρ) :: ρ) dummySym = none := by
      rw [lookup_cons_ne hfd']; exact hdum
    have hrelK : ∀ K', K' ≤ K → CloRel K' { h with clos := h.clos ++ [(lamFn seIdx ps body, ws)] }
        ps.length (.clos [(f, ps, body)] 0 ρ) (.cref h.clos.length) := by
      intro K'
      induction K' with
      | zero =>
        intro _
        exact CloRel.zero _ [(f, ps, body)] 0 ρ h.clos.length _ ws f ps body hg2 rfl hp0 rfl
      | succ K'' ihK =>
        intro hle
        refine closure_correct seIdx ((f, ps.length) :: Φ) [(f, ps, body)] 0 ρ f ps body rfl hbF hp0 hnd
          (fun a ha => hpΦ a ha) K'' _ h.clos.length ws hg2 (by rw [recEnv_single]; exact hdum') ?_
        intro x w hx k hk
        rw [recEnv_single] at hx
        have hxk := indexOfSym_get _ _ _ hk
        by_cases hxf : x = f
        · subst hxf
          simp only [lookup, if_true, Option.some.injEq] at hx
          subst hx
          obtain ⟨v', hws, hr⟩ := hrel k x (.cref h.clos.length) hxk (by simp [lookup])
          have : v' = .cref h.clos.length := by
            have hr' := hr
            simp only [RV, hfΦ] at hr'
            exact hr'.symm
          subst this
          refine ⟨_, hws, ?_⟩
          simp only [RV, lookupScope, if_true]
          exact ihK (by omega)
        · rw [lookup_cons_ne hxf] at hx
          obtain ⟨v', hws, hr⟩ := hrel k x w hxk (by rw [lookup_cons_ne hxf]; exact hx)
          refine ⟨v', hws, ?_⟩
          have := (hr.mono (K' := K'') (by omega)).hext hx02
          simpa [RV, lookupScope, hxf] using this
    -- `rest` with `f` as a function variable
    have hag' : Agree K { h with clos := h.clos ++ [(lamFn seIdx ps body, ws)] } ((f, ps.length) :: Φ)
        fv upv (postSt seIdx ps body st f).scopes ((f, .clos [(f, ps, body)] 0 ρ) :: ρ)
        (stk ++ [.cref h.clos.length]) := by
      rw [hpost_sc, ← hlen]
      rw [hsc] at hag
      exact (hag.hext hx02).bindFn (hrelK K (Nat.le_refl _))
    have hdom' : ∀ x ∈ f :: dom, (lookup ((f, Val.clos [(f, ps, body)] 0 ρ) :: ρ) x).isSome = true := by
      intro x hx
      by_cases hxf : x = f
      · simp [lookup, hxf]
      · rw [lookup_cons_ne hxf]
        simp only [List.mem_cons, hxf, false_or] at hx
        exact hdom x hx
    obtain ⟨okR, errR⟩ := rdyn K n (by omega) fn upv fv _ ((f, .clos [(f, ps, body)] 0 ρ) :: ρ)
      (stk ++ [.cref h.clos.length]) hseg.right htab hinn (by simp [hpost_sz, hlen]) hag' hdum' hdom'
    refine ⟨fun v hv => ?_, fun he => ?_⟩
    · obtain ⟨h3, L', hx23, hL', dn⟩ := okR v hv
      refine ⟨h3, [.cref h.clos.length] ++ L', hx02.trans hx23, by simp [hL', Nat.add_comm], ?_⟩
      have := DoneH.prepend exCreate dn
      simpa [Nat.add_assoc, List.append_assoc] using this
    · exact ErrH.prepend exCreate (errR he)

/-- a plain binding inside the chain: `e₁` is F2 code (it may call the functions created so far),
    the body goes on creating closures -/
theorem letE_spec3 {seIdx : Nat} {Φ : List (Sym × Nat)} {dom : List Sym} {x : Sym} {e₁ body : Expr}
    (hok : letOk Φ x e₁ = true) (ih : BodySpec3 seIdx Φ (x :: dom) body) :
    BodySpec3 seIdx Φ dom (.letE x e₁ body) := by
  simp only [letOk, Bool.and_eq_true, decide_eq_true_eq, Option.isNone_iff_eq_none] at hok
  obtain ⟨⟨hx, hfx⟩, h1F⟩ := hok
  have w1 := wrap_of_body (body_spec seIdx Φ e₁ h1F)
  intro tail b st S rest hsc
  obtain ⟨hs1, hz1, hx1, hd1⟩ := w1 false b st
  have hi1 : (compileE seIdx e₁ false b st).2.inner = st.inner := inner_E seIdx Φ e₁ h1F false b st
  have hsc' : ((compileE seIdx e₁ false b st).2.newStackVar x).scopes =
      ((x, st.stackSize) :: S) :: rest := by
    simp [FState.newStackVar, hs1, hsc, hz1]
  have hz' : ((compileE seIdx e₁ false b st).2.newStackVar x).stackSize = st.stackSize + 1 := by
    simp only [FState.newStackVar, hs1, hsc, hz1]
  obtain ⟨N', h1, h2, hx2, hin2, h3⟩ := ih tail (b + (compileE seIdx e₁ false b st).1.length)
    ((compileE seIdx e₁ false b st).2.newStackVar x) _ rest hsc'
  have hx12 := (same_newStackVar (compileE seIdx e₁ false b st).2 x).ext.trans hx2
  rw [compileBody_letE]
  refine ⟨N' ++ [(x, st.stackSize)], by simpa using h1, by simp [h2, hz']; omega,
    hx1.trans hx12, by rw [inner_newStackVar, hi1] at hin2; exact hin2, ?_⟩
  intro K fuel hK fn upv fv h ρ stk hseg htab hinn hlen hag hdum hdom
  cases fuel with
  | zero => simp [evalCore]
  | succ n =>
    obtain ⟨hok1, herr1⟩ := hd1 K n (by omega) fn upv fv h ρ stk hseg.left (htab.of_ext hx12) hlen hag hdum
    simp only [evalCore]
    cases he1 : evalCore n ρ e₁ with
    | error err =>
      refine ⟨fun v hv => by simp at hv, fun he => ?_⟩
      simp at he; subst he
      exact ErrH.of_err (herr1 he1)
    | ok v₁ =>
      have ex1 := (hok1 v₁ he1).exec
      have hag' : Agree K h Φ fv upv ((compileE seIdx e₁ false b st).2.newStackVar x).scopes
          ((x, v₁) :: ρ) (stk ++ [v₁]) := by
        rw [hsc', ← hlen]
        rw [hsc] at hag
        exact hag.bind hfx
      have hdx : ¬ dummySym = x := fun h => hx h.symm
      have hdum' : lookup ((x, v₁) :: ρ) dummySym = none := by
        rw [lookup_cons_ne hdx]; exact hdum
      have hdom' : ∀ y ∈ x :: dom, (lookup ((x, v₁) :: ρ) y).isSome = true := by
        intro y hy
        by_cases hyx : y = x
        · simp [lookup, hyx]
        · rw [lookup_cons_ne hyx]
          simp only [List.mem_cons, hyx, false_or] at hy
          exact hdom y hy
      obtain ⟨hok2, herr2⟩ := h3 K n (by omega) fn upv fv h ((x, v₁) :: ρ) (stk ++ [v₁]) hseg.right htab
        hinn (by simp [hz', hlen]) hag' hdum' hdom'
      refine ⟨fun v hv => ?_, fun he => ?_⟩
      · obtain ⟨h', L, hxx, hL, dn⟩ := hok2 v hv
        refine ⟨h', [v₁] ++ L, hxx, by simp [hL, Nat.add_comm], ?_⟩
        have := DoneH.prepend (ExecH.of_exec ex1) dn
        simpa [Nat.add_assoc, List.append_assoc] using this
      · exact ErrH.prepend (ExecH.of_exec ex1) (herr2 he)

/-- what `compile` (with the final `Slide`) guarantees for F3 -/
theorem wrap_spec3 {seIdx : Nat} {Φ : List (Sym × Nat)} {dom : List Sym} {e : Expr}
    (hb : BodySpec3 seIdx Φ dom e) (tail : Bool) (b : Nat) (st : FState) :
    (compileE seIdx e tail b st).2.scopes = st.scopes ∧
    (compileE seIdx e tail b st).2.stackSize = st.stackSize + 1 ∧
    Ext st (compileE seIdx e tail b st).2 ∧
    st.inner <+: (compileE seIdx e tail b st).2.inner ∧
    ∀ (K fuel : Nat), fuel ≤ K + 1 →
    ∀ (fn : Fn) (upv : List Val) (fv : List Sym) (h : Heap) (ρ : Env) (stk : List Val),
      SegAt fn.instrs b (compileE seIdx e tail b st).1 →
      Tables (compileE seIdx e tail b st).2 fn fv →
      (compileE seIdx e tail b st).2.inner <+: fn.inner →
      stk.length = st.stackSize → Agree K h Φ fv upv st.scopes ρ stk → lookup ρ dummySym = none →
      (∀ x ∈ dom, (lookup ρ x).isSome = true) →
      (∀ v, evalCore fuel ρ e = .ok v →
        ∃ h', HExt h h' ∧
          DoneH fn upv h tail b stk (b + (compileE seIdx e tail b st).1.length) stk v h') ∧
      (evalCore fuel ρ e = .error .arith → ErrH fn upv h b stk) := by
  obtain ⟨N, hsc, hss, hext, hin, hdyn⟩ := hb tail b st.enterScope [] st.scopes rfl
  have hex : (compileBody seIdx e tail b st.enterScope).2.exitScope =
      (N.length, { (compileBody seIdx e tail b st.enterScope).2 with scopes := st.scopes }) := by
    simp [FState.exitScope, hsc]
  have hss' : (compileBody seIdx e tail b st.enterScope).2.stackSize = st.stackSize + N.length + 1 := by
    simpa [FState.enterScope] using hss
  have hsame : SameTabs (compileBody seIdx e tail b st.enterScope).2 (compileE seIdx e tail b st).2 :=
    same_finish _
  have hinE : (compileE seIdx e tail b st).2.inner = (compileBody seIdx e tail b st.enterScope).2.inner :=
    inner_finish _
  refine ⟨?_, ?_, ((same_enter st).ext.trans hext).trans hsame.ext, by rw [hinE]; exact hin, ?_⟩
  · simp only [compileE, finishScope, hex]
    split <;> simp [FState.emit]
  · simp only [compileE, finishScope, hex]
    split
    · rename_i h0; simp [hss', h0]
    · simp [FState.emit, adjustSize_slide, hss']
      omega
  · intro K fuel hK fn upv fv h ρ stk hseg htab hinn hlen hag hdum hdom
    have hcode : (compileE seIdx e tail b st).1 =
        (compileBody seIdx e tail b st.enterScope).1 ++ slideCode N.length := by
      simp [compileE, finishScope, hex]
    rw [hcode] at hseg ⊢
    rw [hinE] at hinn
    obtain ⟨hok, herr⟩ := hdyn K fuel (by omega) fn upv fv h ρ stk hseg.left (htab.of_ext hsame.ext) hinn
      (by simpa [FState.enterScope] using hlen) (by simpa [FState.enterScope] using hag.enter) hdum hdom
    refine ⟨fun v hv => ?_, herr⟩
    obtain ⟨h', L, hxx, hL, pc₁, stk₁, exH, dn⟩ := hok v hv
    refine ⟨h', hxx, pc₁, stk₁, exH, ?_⟩
    by_cases h0 : N.length = 0
    · have : L = [] := List.eq_nil_of_length_eq_zero (by omega)
      subst this
      simpa [slideCode, h0] using dn
    · have hs := hseg.right
      simp only [slideCode, h0, if_false] at hs ⊢
      have := Exec.step (fn := fn) (upv := upv) (h := h') hs.head
        (step_slide fn upv _ stk L v h' N.length hL)
      exact (dn.andThen this).to (by simp [Nat.add_assoc]) rfl

/-! ### A record pattern as the only alternative (`let { … } = e`, the prelude wrappers) -/

theorem bindFields_isSome (poly : Bool) (fs : List Val) (ns : List String) :
    ∀ (fields : List PatField) (ρ ρ' : Env), bindFields poly fields fs ns ρ = some ρ' →
      ∀ y, (y ∈ fields.map (·.binder) ∨ (lookup ρ y).isSome = true) → (lookup ρ' y).isSome = true
  | [], ρ, ρ', h, y, hy => by
    simp only [bindFields, Option.some.injEq] at h; subst h
    rcases hy with hy | hy
    · simp at hy
    · exact hy
  | f :: rest, ρ, ρ', h, y, hy => by
    simp only [bindFields] at h
    cases hfo : fieldOf poly f fs ns with
    | none => simp [hfo] at h
    | some w =>
      simp only [hfo] at h
      refine bindFields_isSome poly fs ns rest _ ρ' h y ?_
      rcases hy with hy | hy
      · simp only [List.map_cons, List.mem_cons] at hy
        rcases hy with hy | hy
        · right; simp [lookup, hy]
        · left; exact hy
      · right
        by_cases hyb : y = f.binder
        · simp [lookup, hyb]
        · rw [lookup_cons_ne hyb]; exact hy

theorem bindAll_isSome : ∀ (args : List Sym) (fs : List Val) (ρ : Env), args.length = fs.length →
    ∀ y, (y ∈ args ∨ (lookup ρ y).isSome = true) → (lookup (bindAll args fs ρ) y).isSome = true
  | [], [], ρ, _, y, hy => by
    rcases hy with hy | hy
    · simp at hy
    · simpa [bindAll] using hy
  | [], _ :: _, _, h, _, _ => by simp at h
  | _ :: _, [], _, h, _, _ => by simp at h
  | a :: args, v :: fs, ρ, h, y, hy => by
    simp only [bindAll]
    refine bindAll_isSome args fs _ (by simpa using h) y ?_
    rcases hy with hy | hy
    · simp only [List.mem_cons] at hy
      rcases hy with hy | hy
      · right; simp [lookup, hy]
      · left; exact hy
    · right
      by_cases hya : y = a
      · simp [lookup, hya]
      · rw [lookup_cons_ne hya]; exact hy

/-- a selected pattern binds its variables and keeps everything else bound -/
theorem matchPat_isSome {p : Pat} {sv : Val} {ρ ρ' : Env} (hm : matchPat p sv ρ = some (some ρ'))
    (y : Sym) (hy : y ∈ patBinders p ∨ (lookup ρ y).isSome = true) : (lookup ρ' y).isSome = true := by
  cases p with
  | record nfields poly fields bt =>
    cases sv with
    | data t fs ns =>
      simp only [matchPat] at hm
      split at hm
      · simp at hm
      · cases hbf : bindFields poly fields fs ns ρ with
        | none => simp [hbf] at hm
        | some r =>
          simp [hbf] at hm; subst hm
          exact bindFields_isSome poly fs ns fields ρ r hbf y hy
    | _ => simp [matchPat] at hm
  | ident x =>
    simp only [matchPat, Option.some.injEq] at hm; subst hm
    rcases hy with hy | hy
    · simp only [patBinders, List.mem_singleton] at hy
      simp [lookup, hy]
    · by_cases hyx : y = x
      · simp [lookup, hyx]
      · rw [lookup_cons_ne hyx]; exact hy
  | lit l =>
    simp only [matchPat, Option.map_eq_some_iff] at hm
    obtain ⟨bb, _, hb⟩ := hm
    split at hb
    · simp only [Option.some.injEq] at hb; subst hb
      rcases hy with hy | hy
      · simp [patBinders] at hy
      · exact hy
    · simp at hb
  | ctor tag args =>
    cases tag with
    | none => cases sv <;> simp [matchPat] at hm
    | some t =>
      cases sv with
      | data t' fs ns =>
        simp only [matchPat] at hm
        split at hm
        · split at hm
          · rename_i hl
            simp only [Option.some.injEq] at hm; subst hm
            exact bindAll_isSome args fs ρ hl y hy
          · simp at hm
        · simp at hm
      | _ => simp [matchPat] at hm

theorem matchRec_spec3 {seIdx : Nat} {Φ : List (Sym × Nat)} {dom : List Sym} {s : Expr} {p : Pat}
    {e : Expr} (hsF : inF Φ s = true) (hp : patOk p = true) (hfr : patFresh Φ p = true)
    (hr : isRec p = true) (ih : BodySpec3 seIdx Φ (patBinders p ++ dom) e) :
    BodySpec3 seIdx Φ dom (.match_ s [(p, e)]) := by
  have hs := wrap_of_body (body_spec seIdx Φ s hsF)
  intro tail b st S rest hsc
  obtain ⟨hs0, hz0, hx0, hd0⟩ := hs false b st
  have hi0 : (compileE seIdx s false b st).2.inner = st.inner := inner_E seIdx Φ s hsF false b st
  rw [compileBody_match]
  generalize hR0 : compileE seIdx s false b st = R0 at *
  have hts : testsOf seIdx [(p, e)] R0.2 = ([[]], R0.2) := by
    cases p with
    | record _ _ _ _ => simp [testsOf, testCode]
    | ctor _ _ => simp [isRec] at hr
    | ident _ => simp [isRec] at hr
    | lit _ => simp [isRec] at hr
  rw [hts]
  simp only [testsLen, Nat.add_zero]
  -- the alternative
  obtain ⟨hps, hpz⟩ := prologue_static p hp R0.2 st.stackSize hz0
  have hpsame := prologue_same p hp R0.2
  have hpin : (prologue p R0.2.enterScope).2.inner = R0.2.inner := inner_prologue p _
  obtain ⟨hs2, hz2, hx2, hin2, hd2⟩ := wrap_spec3 ih tail
    (b + R0.1.length + (prologue p R0.2.enterScope).1.length) (prologue p R0.2.enterScope).2
  rw [compileAlts_cons]
  generalize hR2 : compileE seIdx e tail (b + R0.1.length + (prologue p R0.2.enterScope).1.length)
    (prologue p R0.2.enterScope).2 = R2 at *
  have hex : R2.2.exitScope = ((patVars st.stackSize p).length, { R2.2 with scopes := R0.2.scopes }) := by
    simp [FState.exitScope, hs2, hps]
  have hf1 : (finishScope (([] : List Instr), R2.2)).1 = slideCode (patVars st.stackSize p).length := by
    simp [finishScope, hex]
  have hf2s : (finishScope (([] : List Instr), R2.2)).2.scopes = R0.2.scopes := by
    simp only [finishScope, hex]
    split <;> simp [FState.emit]
  have hf2z : (finishScope (([] : List Instr), R2.2)).2.stackSize = st.stackSize + 1 := by
    simp only [finishScope, hex]
    split
    · rename_i h0; simp [hz2, hpz, h0]
    · simp [FState.emit, adjustSize_slide, hz2, hpz]
      omega
  have hf2t : SameTabs R2.2 (finishScope (([] : List Instr), R2.2)).2 :=
    same_finish (([] : List Instr), R2.2)
  have hf2i : (finishScope (([] : List Instr), R2.2)).2.inner = R2.2.inner := inner_finish _
  generalize hR3 : finishScope (([] : List Instr), R2.2) = R3 at *
  simp only [compileAlts, startsOf, patchTests, patchLast, List.getLast?_nil, List.append_nil]
  refine ⟨[], by simp [hf2s, hs0, hsc], by simp [hf2z],
    hx0.trans ((hpsame.ext.trans hx2).trans hf2t.ext), ?_, ?_⟩
  · rw [hf2i]; rw [hpin, hi0] at hin2; exact hin2
  intro K fuel hK fn upv fv h ρ stk hseg htab hinn hlen hag hdum hdom
  cases fuel with
  | zero => simp [evalCore]
  | succ n =>
    obtain ⟨hok0, herr0⟩ := hd0 K n (by omega) fn upv fv h ρ stk hseg.left
      (htab.of_ext ((hpsame.ext.trans hx2).trans hf2t.ext)) hlen hag hdum
    simp only [evalCore]
    cases he0 : evalCore n ρ s with
    | error err =>
      refine ⟨fun v hv => by simp at hv, fun he => ?_⟩
      simp at he; subst he
      exact ErrH.of_err (herr0 he0)
    | ok sv =>
      have ex0 := (hok0 sv he0).exec
      have hsegA := hseg.right
      simp only [joinBodies] at hsegA
      have hsegc := hsegA.left.left
      cases n with
      | zero => simp [evalAlts]
      | succ k =>
        simp only [evalAlts]
        cases hm : matchPat p sv ρ with
        | none => simp
        | some o =>
          cases o with
          | none => cases k <;> simp [evalAlts]
          | some ρ' =>
            simp only
            obtain ⟨X, hX, ex1, hag', hdum'⟩ := prologue_exec p hp Φ hfr R0.2 fn upv fv K h stk sv ρ ρ'
              (b + R0.1.length) (by rw [hz0, hlen]) (by rw [hs0]; exact hag) hdum hm hsegc.left.left
            rw [hlen] at hX hag'
            have hdom' : ∀ x ∈ patBinders p ++ dom, (lookup ρ' x).isSome = true := by
              intro x hx
              rcases List.mem_append.mp hx with hx | hx
              · exact matchPat_isSome hm x (Or.inl hx)
              · exact matchPat_isSome hm x (Or.inr (hdom x hx))
            obtain ⟨hok, herr⟩ := hd2 K k (by omega) fn upv fv h ρ' (stk ++ X) hsegc.left.right
              (htab.of_ext hf2t.ext) (by rw [← hf2i]; exact hinn)
              (by simp [hpz, hX, hlen]) (by rw [hps]; exact hag') hdum' hdom'
            have exP := ExecH.of_exec (ex0.trans ex1)
            refine ⟨fun v hv => ?_, fun hv => ErrH.prepend exP (herr hv)⟩
            obtain ⟨h', hxx, pc₁, stk₁, exH, dn⟩ := hok v hv
            refine ⟨h', [], hxx, rfl, pc₁, stk₁, exP.trans exH, ?_⟩
            have hjmp := hsegA.left.right.head
            have hsl := hsegc.right
            rw [hf1] at hsl hjmp ⊢
            simp only [List.length_nil, Nat.add_zero] at hjmp ⊢
            have hend : ∀ c : List Instr, b + (R0.1 ++ joinBodies (endOf (b + R0.1.length) [c]) [c]).length =
                endOf (b + R0.1.length) [c] := by
              intro c
              simp [endOf, joinBodies]
              omega
            rw [hend]
            by_cases h0 : (patVars st.stackSize p).length = 0
            · have hXn : X = [] := List.eq_nil_of_length_eq_zero (by omega)
              subst hXn
              simp only [slideCode, h0, if_true, List.append_nil] at hjmp ⊢
              have ex3 := Exec.step (stk := stk ++ [v]) (upv := upv) (h := h') hjmp
                (step_jump fn upv _ _ _ h')
              simpa using ((dn.to (by simp only [List.length_append]; omega) (by simp)).andThen ex3)
            · simp only [slideCode, h0, if_false] at hsl hjmp ⊢
              have ex3 := Exec.step (upv := upv) (h := h') hsl.head
                (step_slide fn upv _ stk X v h' (patVars st.stackSize p).length hX)
              have ex4 := Exec.step (stk := stk ++ [v]) (upv := upv) (h := h') hjmp
                (step_jump fn upv _ _ _ h')
              simpa using (((dn.to (by simp only [List.length_append]; omega) rfl).andThen ex3).to
                (by simp only [List.length_append, List.length_cons, List.length_nil]; omega) rfl).andThen ex4


/-- the invariant for every expression of F3 -/
theorem body_spec3 (seIdx : Nat) {Φ : List (Sym × Nat)} {dom : List Sym} {e : Expr}
    (hF : InF3 seIdx Φ dom e) : BodySpec3 seIdx Φ dom e := by
  induction hF with
  | base h => exact base_spec3 h
  | lam hok _ ih => exact lam_spec hok ih
  | letE hok _ ih => exact letE_spec3 hok ih
  | matchRec hs hp hfr hr _ ih => exact matchRec_spec3 hs hp hfr hr ih


end GluonModel.Proofs.Compile
