import GluonModel.StdList
/-! Lemmas about std/list.glu (`sort`, `filter`, folds, `append`, `of`) and the array helpers. -/
namespace GluonModel.StdList

variable {α β : Type}

theorem append_eq (xs ys : List α) : append xs ys = xs ++ ys := by
  induction xs with
  | nil => rfl
  | cons x xs ih => simp [append, ih]

theorem map_eq (f : α → β) (xs : List α) : map f xs = xs.map f := by
  induction xs with
  | nil => rfl
  | cons x xs ih => simp [map, ih]

theorem flatMap_eq (f : α → List β) (xs : List α) : flatMap f xs = xs.flatMap f := by
  induction xs with
  | nil => rfl
  | cons x xs ih => simp [flatMap, ih, append_eq]

theorem foldr_eq (f : α → β → β) (x : β) (xs : List α) : foldr f x xs = xs.foldr f x := by
  induction xs with
  | nil => rfl
  | cons y ys ih => simp [foldr, ih]

theorem foldl_eq (f : β → α → β) (x : β) (xs : List α) : foldl f x xs = xs.foldl f x := by
  induction xs generalizing x with
  | nil => rfl
  | cons y ys ih => simp [foldl, ih]

theorem filter_eq (p : α → Bool) (xs : List α) : filter p xs = xs.filter p := by
  induction xs with
  | nil => rfl
  | cons y ys ih =>
    simp only [filter, ih, List.filter_cons]

theorem ofGo_eq (xs : List α) : ∀ (i : Nat) (ys : List α), i ≤ xs.length →
    ofGo xs i ys = xs.take i ++ ys
  | 0, ys, _ => by simp [ofGo]
  | i + 1, ys, h => by
    have hi : i < xs.length := by omega
    simp only [ofGo, List.getElem?_eq_getElem hi]
    rw [ofGo_eq xs i _ (by omega), List.take_succ_eq_append_getElem hi]
    simp only [List.append_assoc, List.singleton_append]

theorem ofArray_eq (xs : List α) : ofArray xs = xs := by
  unfold ofArray
  rw [ofGo_eq xs xs.length [] (Nat.le_refl _)]
  simp

/-! ### `scan` and `sort` -/

theorem scan_eq (c : α → Ordering) : ∀ (ys l e g : List α),
    scan c ys l e g =
      ((ys.filter (fun y => c y == .lt)).reverse ++ l,
       (ys.filter (fun y => c y == .eq)).reverse ++ e,
       (ys.filter (fun y => c y == .gt)).reverse ++ g)
  | [], l, e, g => by simp [scan]
  | y :: ys, l, e, g => by
    unfold scan
    split
    next h => rw [scan_eq c ys]; simp [h]
    next h => rw [scan_eq c ys]; simp [h]
    next h => rw [scan_eq c ys]; simp [h]

/-- The three parts of `scan` are a permutation of the input. -/
theorem three_way_perm (c : α → Ordering) (ys : List α) :
    (ys.filter (fun y => c y == .lt) ++ (ys.filter (fun y => c y == .eq) ++
      ys.filter (fun y => c y == .gt))).Perm ys := by
  induction ys with
  | nil => simp
  | cons y ys ih =>
    cases h : c y
    · simp only [List.filter_cons, h]; simpa using ih
    · simp only [List.filter_cons, h]
      have : (Ordering.eq == Ordering.lt) = false := rfl
      have h2 : (Ordering.eq == Ordering.gt) = false := rfl
      simp only [this, h2, beq_self_eq_true, if_true, Bool.false_eq_true, if_false]
      exact (List.perm_middle).trans (List.Perm.cons _ ih)
    · simp only [List.filter_cons, h]
      have : (Ordering.gt == Ordering.lt) = false := rfl
      have h2 : (Ordering.gt == Ordering.eq) = false := rfl
      simp only [this, h2, beq_self_eq_true, if_true, Bool.false_eq_true, if_false]
      have e : List.filter (fun y => c y == .lt) ys ++ (List.filter (fun y => c y == .eq) ys ++
          y :: List.filter (fun y => c y == .gt) ys) =
          (List.filter (fun y => c y == .lt) ys ++ List.filter (fun y => c y == .eq) ys) ++
          y :: List.filter (fun y => c y == .gt) ys := by simp
      rw [e]
      refine (List.perm_middle).trans (List.Perm.cons _ ?_)
      simpa using ih

theorem sortFuel_cons (cmp : α → α → Ordering) (n : Nat) (p : α) (ys : List α) :
    sortFuel cmp (n + 1) (p :: ys) =
      sortFuel cmp n (ys.filter (fun y => cmp y p == .lt)).reverse ++
        (((ys.filter (fun y => cmp y p == .eq)).reverse ++ [p]) ++
          sortFuel cmp n (ys.filter (fun y => cmp y p == .gt)).reverse) := by
  simp only [sortFuel, scan_eq, append_eq, List.append_nil]

theorem sortFuel_perm (cmp : α → α → Ordering) : ∀ (n : Nat) (xs : List α), xs.length ≤ n →
    (sortFuel cmp n xs).Perm xs
  | _, [], _ => by simp [sortFuel]
  | 0, x :: xs, h => by simp at h
  | n + 1, p :: ys, h => by
    rw [sortFuel_cons]
    have hl : ∀ q : α → Bool, (ys.filter q).reverse.length ≤ n := by
      intro q
      have := List.length_filter_le q ys
      simp only [List.length_reverse]
      simp only [List.length_cons] at h
      omega
    have p1 := sortFuel_perm cmp n _ (hl (fun y => cmp y p == .lt))
    have p3 := sortFuel_perm cmp n _ (hl (fun y => cmp y p == .gt))
    have step : (sortFuel cmp n (ys.filter (fun y => cmp y p == .lt)).reverse ++
        (((ys.filter (fun y => cmp y p == .eq)).reverse ++ [p]) ++
          sortFuel cmp n (ys.filter (fun y => cmp y p == .gt)).reverse)).Perm
        (ys.filter (fun y => cmp y p == .lt) ++ ((p :: ys.filter (fun y => cmp y p == .eq)) ++
          ys.filter (fun y => cmp y p == .gt))) := by
      refine List.Perm.append (p1.trans (List.reverse_perm _)) (List.Perm.append ?_ (p3.trans (List.reverse_perm _)))
      exact (List.perm_append_comm).trans (List.Perm.cons _ (List.reverse_perm _))
    refine step.trans ?_
    have : (ys.filter (fun y => cmp y p == .lt) ++ ((p :: ys.filter (fun y => cmp y p == .eq)) ++
          ys.filter (fun y => cmp y p == .gt))) =
        ys.filter (fun y => cmp y p == .lt) ++ p :: (ys.filter (fun y => cmp y p == .eq) ++
          ys.filter (fun y => cmp y p == .gt)) := by simp
    rw [this]
    exact (List.perm_middle).trans (List.Perm.cons _ (three_way_perm (fun y => cmp y p) ys))

/-- What `sort` needs from `compare`: a total preorder. `cmp a b ≠ .gt` is `a ≤ b`. -/
structure PreorderCmp (cmp : α → α → Ordering) : Prop where
  lt_iff_gt : ∀ a b, cmp a b = .lt ↔ cmp b a = .gt
  le_trans : ∀ a b c, cmp a b ≠ .gt → cmp b c ≠ .gt → cmp a c ≠ .gt

theorem PreorderCmp.eq_symm {cmp : α → α → Ordering} (hc : PreorderCmp cmp) {a b : α}
    (h : cmp a b = .eq) : cmp b a = .eq := by
  cases h2 : cmp b a
  · have := (hc.lt_iff_gt b a).1 h2; rw [h] at this; cases this
  · rfl
  · have := (hc.lt_iff_gt a b).2 h2; rw [h] at this; cases this

theorem PreorderCmp.comap {cmp : β → β → Ordering} (hc : PreorderCmp cmp) (f : α → β) :
    PreorderCmp (fun a b => cmp (f a) (f b)) :=
  ⟨fun a b => hc.lt_iff_gt (f a) (f b), fun a b c => hc.le_trans (f a) (f b) (f c)⟩

theorem sortFuel_sorted {cmp : α → α → Ordering} (hc : PreorderCmp cmp) :
    ∀ (n : Nat) (xs : List α), xs.length ≤ n →
    (sortFuel cmp n xs).Pairwise (fun a b => cmp a b ≠ .gt)
  | _, [], _ => by simp [sortFuel]
  | 0, x :: xs, h => by simp at h
  | n + 1, p :: ys, h => by
    rw [sortFuel_cons]
    have hl : ∀ q : α → Bool, (ys.filter q).reverse.length ≤ n := by
      intro q
      have := List.length_filter_le q ys
      simp only [List.length_reverse]
      simp only [List.length_cons] at h
      omega
    have memL : ∀ a ∈ sortFuel cmp n (ys.filter (fun y => cmp y p == .lt)).reverse, cmp a p = .lt := by
      intro a ha
      have := (sortFuel_perm cmp n _ (hl _)).mem_iff.1 ha
      simpa using (List.mem_filter.1 (List.mem_reverse.1 this)).2
    have memG : ∀ a ∈ sortFuel cmp n (ys.filter (fun y => cmp y p == .gt)).reverse, cmp a p = .gt := by
      intro a ha
      have := (sortFuel_perm cmp n _ (hl _)).mem_iff.1 ha
      simpa using (List.mem_filter.1 (List.mem_reverse.1 this)).2
    have memE : ∀ a ∈ (ys.filter (fun y => cmp y p == .eq)).reverse ++ [p], cmp a p = .eq := by
      intro a ha
      rcases List.mem_append.1 ha with h1 | h1
      · simpa using (List.mem_filter.1 (List.mem_reverse.1 h1)).2
      · have : a = p := by simpa using h1
        subst this
        cases h2 : cmp a a
        · have := (hc.lt_iff_gt a a).1 h2; rw [h2] at this; cases this
        · rfl
        · have := (hc.lt_iff_gt a a).2 h2; rw [h2] at this; cases this
    -- a ≤ p for a in the left/equal parts, p ≤ b for b in the equal/right parts
    have leP : ∀ {a}, (cmp a p = .lt ∨ cmp a p = .eq) → cmp a p ≠ .gt := by
      intro a h1 h2; rcases h1 with h1 | h1 <;> rw [h1] at h2 <;> cases h2
    have geP : ∀ {b}, (cmp b p = .gt ∨ cmp b p = .eq) → cmp p b ≠ .gt := by
      intro b h1 h2
      rcases h1 with h1 | h1
      · have := (hc.lt_iff_gt p b).2 h1; rw [h2] at this; cases this
      · have := hc.eq_symm h1; rw [h2] at this; cases this
    rw [List.pairwise_append]
    refine ⟨sortFuel_sorted hc n _ (hl _), ?_, ?_⟩
    · rw [List.pairwise_append]
      refine ⟨?_, sortFuel_sorted hc n _ (hl _), ?_⟩
      · -- the equal part: any two are ≤ via p
        have : ∀ (l : List α), (∀ a ∈ l, cmp a p = .eq) → l.Pairwise (fun a b => cmp a b ≠ .gt) := by
          intro l hl'
          induction l with
          | nil => simp
          | cons x l ih =>
            rw [List.pairwise_cons]
            refine ⟨fun b hb => ?_, ih (fun a ha => hl' a (List.mem_cons_of_mem _ ha))⟩
            exact hc.le_trans x p b (leP (Or.inr (hl' x (List.mem_cons_self ..))))
              (geP (Or.inr (hl' b (List.mem_cons_of_mem _ hb))))
        exact this _ memE
      · intro a ha b hb
        exact hc.le_trans a p b (leP (Or.inr (memE a ha))) (geP (Or.inl (memG b hb)))
    · intro a ha b hb
      rcases List.mem_append.1 hb with h1 | h1
      · exact hc.le_trans a p b (leP (Or.inl (memL a ha))) (geP (Or.inr (memE b h1)))
      · exact hc.le_trans a p b (leP (Or.inl (memL a ha))) (geP (Or.inl (memG b h1)))

/-! ### Arrays -/

theorem arrFoldrGo_eq (f : α → β → β) (xs : List α) : ∀ (i : Nat) (y : β), i ≤ xs.length →
    arrFoldrGo f xs i y = (xs.take i).foldr f y
  | 0, y, _ => by simp [arrFoldrGo]
  | i + 1, y, h => by
    have hi : i < xs.length := by omega
    simp only [arrFoldrGo, List.getElem?_eq_getElem hi]
    rw [arrFoldrGo_eq f xs i _ (by omega), List.take_succ_eq_append_getElem hi]
    simp only [List.foldr_append, List.foldr_cons, List.foldr_nil]

theorem arrFoldr_eq (f : α → β → β) (y : β) (xs : List α) : arrFoldr f y xs = xs.foldr f y := by
  unfold arrFoldr
  rw [arrFoldrGo_eq f xs xs.length y (Nat.le_refl _)]
  simp

theorem arrFoldlGo_eq (f : β → α → β) (xs : List α) : ∀ (n i : Nat) (y : β), i + n = xs.length →
    arrFoldlGo f xs n i y = (xs.drop i).foldl f y
  | 0, i, y, h => by
    have : xs.drop i = [] := List.drop_eq_nil_of_le (by omega)
    simp [arrFoldlGo, this]
  | n + 1, i, y, h => by
    have hi : i < xs.length := by omega
    simp only [arrFoldlGo, List.getElem?_eq_getElem hi]
    rw [arrFoldlGo_eq f xs n (i + 1) _ (by omega), List.drop_eq_getElem_cons hi]
    simp only [List.foldl_cons]

theorem arrFoldl_eq (f : β → α → β) (y : β) (xs : List α) : arrFoldl f y xs = xs.foldl f y := by
  unfold arrFoldl
  rw [arrFoldlGo_eq f xs xs.length 0 y (by simp)]
  simp

end GluonModel.StdList
