/-
Static fact used by the closure-creation proof: compiling an expression of the fragment F2
(`inF Φ e`: no lambda inside) never touches the `inner_functions` table of the enclosing function.
So the index `NewClosure` refers to stays valid while later code is compiled.
-/
import GluonModel.Proofs.Compile
namespace GluonModel.Proofs.Compile
open GluonModel.Core GluonModel.Bytecode GluonModel.Compile

theorem inner_newStackVar (st : FState) (x : Sym) : (st.newStackVar x).inner = st.inner := by
  unfold FState.newStackVar; split <;> rfl

theorem inner_exit (st : FState) : st.exitScope.2.inner = st.inner := by
  unfold FState.exitScope; split <;> rfl

theorem inner_finish (r : List Instr × FState) : (finishScope r).2.inner = r.2.inner := by
  unfold finishScope
  simp only
  split
  · exact inner_exit _
  · exact inner_exit _

theorem inner_upvar (st : FState) (x : Sym) : (st.upvar x).2.inner = st.inner := by
  unfold FState.upvar; split <;> rfl

theorem inner_addString (st : FState) (x : String) : (st.addString x).2.inner = st.inner := by
  unfold FState.addString; split <;> rfl

theorem inner_addRecord (st : FState) (x : List Sym) : (st.addRecord x).2.inner = st.inner := by
  unfold FState.addRecord; split <;> rfl

theorem inner_loadIdent (x : Sym) (st : FState) : (loadIdent x st).2.inner = st.inner := by
  unfold loadIdent
  split
  · rfl
  · exact inner_upvar st x

theorem inner_compileLit (l : Lit) (st : FState) : (compileLit l st).2.inner = st.inner := by
  cases l <;> simp [compileLit, FState.emit, inner_addString]

theorem inner_pushVars : ∀ (xs : List Sym) (st : FState), (pushVars xs st).inner = st.inner
  | [], _ => rfl
  | x :: xs, st => by
    rw [pushVars_cons, inner_pushVars xs]
    unfold FState.pushStackVar
    rw [inner_newStackVar]

theorem inner_fieldLoads (poly : Bool) (r : Nat) : ∀ (fs : List PatField) (st : FState),
    (fieldLoads poly r fs st).2.inner = st.inner
  | [], _ => rfl
  | f :: fs, st => by
    cases poly
    · simp only [fieldLoads, Bool.false_eq_true, if_false]
      rw [inner_fieldLoads false r fs, inner_newStackVar]; rfl
    · simp only [fieldLoads, if_true]
      rw [inner_fieldLoads true r fs, inner_newStackVar]
      simp only [FState.emit]
      exact inner_addString _ _

theorem inner_prologue (p : Pat) (st : FState) : (prologue p st).2.inner = st.inner := by
  cases p with
  | ctor tag args => simp only [prologue]; rw [inner_pushVars]; rfl
  | record nfields poly fields byType =>
    simp only [prologue]
    split
    · rw [inner_fieldLoads, inner_newStackVar]
    · rw [inner_pushVars]; rfl
  | ident x => exact inner_newStackVar st x
  | lit l => exact inner_newStackVar st _

theorem inner_E_of {seIdx : Nat} {e : Expr}
    (hb : ∀ tail b st, (compileBody seIdx e tail b st).2.inner = st.inner) (tail : Bool) (b : Nat)
    (st : FState) : (compileE seIdx e tail b st).2.inner = st.inner := by
  unfold compileE
  rw [inner_finish, hb]; rfl

theorem inner_E_ident (seIdx : Nat) (x : Sym) (tail : Bool) (b : Nat) (st : FState) :
    (compileE seIdx (.ident x) tail b st).2.inner = st.inner :=
  inner_E_of (fun tail b st => by rw [compileBody_ident']; exact inner_loadIdent x st) tail b st
where
  compileBody_ident' {seIdx x tail b st} : compileBody seIdx (.ident x) tail b st = loadIdent x st := by
    simp [compileBody]

mutual
theorem inner_body (seIdx : Nat) (Φ : List (Sym × Nat)) : ∀ (e : Expr), inF Φ e = true →
    ∀ (tail : Bool) (b : Nat) (st : FState), (compileBody seIdx e tail b st).2.inner = st.inner
  | .const l, _ => by
    intro tail b st
    simp only [compileBody]; exact inner_compileLit l st
  | .ident x, _ => by
    intro tail b st
    simp only [compileBody]; exact inner_loadIdent x st
  | .cast e, hF => by
    intro tail b st
    rw [compileBody_cast]
    exact inner_body seIdx Φ e (by simpa [inF] using hF) tail b st
  | .letE x e₁ body, hF => by
    simp only [inF, Bool.and_eq_true, decide_eq_true_eq, Option.isNone_iff_eq_none] at hF
    obtain ⟨⟨⟨_, _⟩, h1F⟩, h2F⟩ := hF
    intro tail b st
    rw [compileBody_letE, inner_body seIdx Φ body h2F, inner_newStackVar,
      inner_E_of (inner_body seIdx Φ e₁ h1F)]
  | .call f args, hF => by
    simp only [inF, Bool.and_eq_true] at hF
    obtain ⟨hh, haF⟩ := hF
    intro tail b st
    cases hhd : headOf f args.length with
    | prim op =>
      have hlen2 := headOf_prim_len hhd
      match args, hlen2, haF, hhd with
      | [lhs, rhs], _, haF, hhd =>
        simp only [inFs, Bool.and_eq_true] at haF
        rw [compileBody_prim _ _ _ _ _ _ _ _ hhd]
        simp only [FState.emit]
        rw [inner_E_of (inner_body seIdx Φ rhs haF.2.1), inner_E_of (inner_body seIdx Φ lhs haF.1)]
    | and_ =>
      have hlen2 := headOf_and_len hhd
      match args, hlen2, haF, hhd with
      | [lhs, rhs], _, haF, hhd =>
        simp only [inFs, Bool.and_eq_true] at haF
        rw [compileBody_and _ _ _ _ _ _ _ hhd]
        simp only
        rw [inner_E_of (inner_body seIdx Φ rhs haF.2.1)]
        simp only [andMid, FState.emit]
        rw [inner_E_of (inner_body seIdx Φ lhs haF.1)]
    | or_ =>
      have hlen2 := headOf_or_len hhd
      match args, hlen2, haF, hhd with
      | [lhs, rhs], _, haF, hhd =>
        simp only [inFs, Bool.and_eq_true] at haF
        rw [compileBody_or _ _ _ _ _ _ _ hhd]
        simp only [FState.emit]
        rw [inner_E_of (inner_body seIdx Φ rhs haF.2.1)]
        simp only [FState.emit]
        rw [inner_E_of (inner_body seIdx Φ lhs haF.1)]
    | none =>
      rw [hhd] at hh
      match f, hh, hhd with
      | .ident g, _, hhd =>
        rw [compileBody_call _ _ _ _ _ _ hhd]
        simp only [FState.emit]
        rw [inner_args seIdx Φ args haF, inner_E_ident]
    | otherPrim => rw [hhd] at hh; simp at hh
  | .data k args, hF => by
    intro tail b st
    match k, hF with
    | .variant (some t), hF =>
      simp only [compileBody, FState.emit]
      exact inner_args seIdx Φ args (by simpa [inF] using hF) b st
    | .array, hF =>
      simp only [compileBody, FState.emit]
      exact inner_args seIdx Φ args (by simpa [inF] using hF) b st
    | .record names, hF =>
      rw [compileBody_record]
      simp only [FState.emit]
      rw [inner_addRecord]
      exact inner_args seIdx Φ args (by simpa [inF] using hF) b st
    | .variant none, hF => simp [inF] at hF
  | .letRec _ _, hF => by simp [inF] at hF
  | .match_ s alts, hF => by
    simp only [inF, Bool.and_eq_true] at hF
    obtain ⟨⟨hsF, haF⟩, _⟩ := hF
    intro tail b st
    rw [compileBody_match]
    simp only
    rw [inner_alts seIdx Φ alts haF, (testsOf_state seIdx alts _ (inAlts_patOk Φ alts haF)).1,
      inner_E_of (inner_body seIdx Φ s hsF)]
theorem inner_alts (seIdx : Nat) (Φ : List (Sym × Nat)) : ∀ (alts : List (Pat × Expr)),
    inAlts Φ alts = true →
    ∀ (tail : Bool) (b : Nat) (st : FState), (compileAlts seIdx alts tail b st).2.inner = st.inner
  | [], _ => by intro tail b st; simp [compileAlts]
  | (p, e) :: alts, hF => by
    simp only [inAlts, Bool.and_eq_true] at hF
    intro tail b st
    rw [compileAlts_cons]
    simp only
    rw [inner_alts seIdx Φ alts hF.2, inner_finish]
    simp only
    rw [inner_E_of (inner_body seIdx Φ e hF.1.2), inner_prologue]
    rfl
theorem inner_args (seIdx : Nat) (Φ : List (Sym × Nat)) : ∀ (es : List Expr), inFs Φ es = true →
    ∀ (b : Nat) (st : FState), (compileArgs seIdx es b st).2.inner = st.inner
  | [], _ => by intro b st; simp [compileArgs]
  | e :: es, hF => by
    simp only [inFs, Bool.and_eq_true] at hF
    intro b st
    rw [compileArgs_cons]
    simp only
    rw [inner_args seIdx Φ es hF.2, inner_E_of (inner_body seIdx Φ e hF.1)]
end

theorem inner_E (seIdx : Nat) (Φ : List (Sym × Nat)) (e : Expr) (hF : inF Φ e = true) (tail : Bool)
    (b : Nat) (st : FState) : (compileE seIdx e tail b st).2.inner = st.inner :=
  inner_E_of (inner_body seIdx Φ e hF) tail b st

end GluonModel.Proofs.Compile
