/-
Lemmas about the layout model (`GluonModel.LayoutAlgo`): every `continue` of the inner loop of
`layout_next_token` decreases `measure`; the stack invariant "the bottom context is a Block";
the guard witness; the divergence of `scan_continue_block`.
-/
import GluonModel.LayoutAlgo

namespace GluonModel.LayoutAlgo.Proofs
open GluonModel.LayoutAlgo

/-! ### What leaves the stack alone -/

theorem fetch_stack {st : St} {t : Tok} {st' : St} (h : fetch st = .ok (t, st')) :
    st'.stack = st.stack ∧ st'.unproc = st.unproc := by
  unfold fetch at h
  split at h
  · split at h
    · cases h
    · cases h; exact ⟨rfl, rfl⟩
  · cases h; exact ⟨rfl, rfl⟩

theorem peekToken_stack (n : Nat) (st : St) {o : Option Tok} {st' : St}
    (h : peekToken n st = .ok (o, st')) : st'.stack = st.stack := by
  induction n generalizing st with
  | zero => simp only [peekToken] at h; cases h; rfl
  | succ n ih =>
    simp only [peekToken] at h
    split at h
    · cases h
    · rename_i t st1 hf
      have := ih _ h
      simp at this
      rw [this]; exact (fetch_stack hf).1

theorem scanLoop_stack (expected : Kind) (fuel i : Nat) (inAttr : Bool) (first : Tok) (st : St)
    {b : Bool} {st' : St} (h : scanLoop expected fuel i inAttr first st = .done b st') :
    st'.stack = st.stack := by
  induction fuel generalizing i inAttr st with
  | zero => exact absurd h (by simp [scanLoop])
  | succ fuel ih =>
    unfold scanLoop at h
    simp only at h
    split at h
    · cases h
    · rename_i st1 hp
      cases h
      split at hp
      · cases hp
      · exact peekToken_stack _ _ hp
    · rename_i t st1 hp
      have hs : st1.stack = st.stack := by
        split at hp
        · cases hp; rfl
        · exact peekToken_stack _ _ hp
      split at h
      · cases h; exact hs
      · split at h
        · cases h; exact hs
        · rw [ih _ _ _ h, hs]
        · rw [ih _ _ _ h, hs]
        · rw [ih _ _ _ h, hs]
        · split at h
          · rw [ih _ _ _ h, hs]
          · cases h; exact hs

theorem continueBlock_stack (c : Ctx) (tok : Tok) (st : St) {b : Bool} {st' : St}
    (h : continueBlock c tok st = .done b st') : st'.stack = st.stack := by
  unfold continueBlock at h
  split at h
  · split at h
    · cases h; rfl
    · split at h
      · unfold scanContinueBlock at h
        split at h
        · exact scanLoop_stack _ _ _ _ _ _ h
        · exact scanLoop_stack _ _ _ _ _ _ h
        · cases h; rfl
      · cases h; rfl
  · cases h; rfl

/-! ### Every `continue` decreases the measure -/

theorem ofExcept_ne_cont (t : Tok) (e : Except LErr St) (t' : Tok) (st' : St) :
    ofExcept t e ≠ .cont t' st' := by
  unfold ofExcept; split <;> simp

theorem layoutToken_ne_cont (t : Tok) (k : Kind) (st : St) (t' : Tok) (st' : St) :
    layoutToken t k st ≠ .cont t' st' := by
  simp [layoutToken]

theorem finish_not_cont (tok : Tok) (off : Offside) (st : St) (t' : Tok) (st' : St) :
    finish tok off st ≠ .cont t' st' := by
  unfold finish
  intro h
  split at h
  · exact ofExcept_ne_cont _ _ _ _ h
  · split at h
    · dsimp only at h
      split at h
      · exact layoutToken_ne_cont _ _ _ _ _ h
      · cases h
    · exact ofExcept_ne_cont _ _ _ _ h
    · exact ofExcept_ne_cont _ _ _ _ h
    · exact ofExcept_ne_cont _ _ _ _ h
    · exact ofExcept_ne_cont _ _ _ _ h
    · exact ofExcept_ne_cont _ _ _ _ h
    · split at h
      · cases h
      · dsimp only at h
        split at h
        · exact ofExcept_ne_cont _ _ _ _ h
        · cases h
    · cases h
    · cases h

theorem closing_cont {guard : Bool} {tok : Tok} {off : Offside} {st : St} {t' : Tok} {st' : St}
    (h : closing guard tok off st = .done (.cont t' st')) :
    t' = tok ∧ st'.stack = st.stack.tail := by
  unfold closing at h
  simp only at h
  repeat' split at h
  all_goals (first | (simp [layoutToken] at h; done) | (simp at h; obtain ⟨h1, h2⟩ := h; subst h1; subst h2; exact ⟨rfl, rfl⟩))

theorem implicitIn_cont {tok : Tok} {off : Offside} {st : St} {t' : Tok} {st' : St}
    (h : implicitIn tok off st = .done (.cont t' st')) :
    t' = tok ∧ st'.stack = st.stack.tail := by
  unfold implicitIn at h
  simp only at h
  split at h
  · split at h
    · cases h
    · cases h
    · cases h
    · rename_i st1 hcb
      have hs := continueBlock_stack _ _ _ hcb
      split at h
      · simp at h; obtain ⟨h1, h2⟩ := h; subst h1; subst h2; exact ⟨rfl, by simp [hs]⟩
      · repeat' split at h
        all_goals simp at h
  · cases h

theorem offsideRule_cont {tok : Tok} {off : Offside} {st : St} {t' : Tok} {st' : St}
    (h : offsideRule tok off st = .done (.cont t' st')) :
    (t'.kind = .closeBlock ∧ st'.stack = st.stack) ∨ (t' = tok ∧ st'.stack = st.stack.tail) := by
  unfold offsideRule at h
  simp only at h
  split at h
  · -- block
    split at h
    · simp at h; obtain ⟨h1, h2⟩ := h; subst h1; subst h2; left; exact ⟨rfl, rfl⟩
    · repeat' split at h
      all_goals simp [layoutToken] at h
  · split at h
    · simp at h; obtain ⟨h1, h2⟩ := h; subst h1; subst h2; right; exact ⟨rfl, rfl⟩
    · cases h
  · split at h
    · simp at h; obtain ⟨h1, h2⟩ := h; subst h1; subst h2; right; exact ⟨rfl, rfl⟩
    · cases h
  · split at h
    · simp at h; obtain ⟨h1, h2⟩ := h; subst h1; subst h2; right; exact ⟨rfl, rfl⟩
    · cases h
  · right; exact implicitIn_cont h
  · right; exact implicitIn_cont h
  · cases h

theorem step_cont {guard : Bool} {tok : Tok} {st : St} {t' : Tok} {st' : St}
    (h : step guard tok st = .cont t' st') : measure t' st' < measure tok st := by
  unfold step at h
  split at h
  · cases h
  · split at h
    · split at h
      · cases h
      · exact absurd h (layoutToken_ne_cont _ _ _ _ _)
    · rename_i off rest hst
      split at h
      · cases h
      · split at h
        · rename_i hck
          split at h
          · rename_i r hc
            subst h
            obtain ⟨h1, h2⟩ := closing_cont hc
            subst h1
            simp only [measure, h2, hst, List.tail_cons, List.length_cons]
            omega
          · exact absurd h (finish_not_cont _ _ _ _ _)
        · rename_i hck
          split at h
          · rename_i r hc
            subst h
            rcases offsideRule_cont hc with ⟨h1, h2⟩ | ⟨h1, h2⟩
            · have hk : tok.kind ≠ .closeBlock := by
                intro hk; rw [hk] at hck; exact hck rfl
              simp only [measure, h1, h2, hk, if_true, if_false]
              omega
            · subst h1
              simp only [measure, h2, hst, List.tail_cons, List.length_cons]
              omega
          · exact absurd h (finish_not_cont _ _ _ _ _)

/-- The inner loop of `layout_next_token` never needs more than `measure + 1` passes. -/
theorem loop_terminates (guard : Bool) (fuel : Nat) (tok : Tok) (st : St)
    (h : measure tok st < fuel) : loop guard fuel tok st ≠ .outOfFuel := by
  induction fuel generalizing tok st with
  | zero => omega
  | succ fuel ih =>
    unfold loop
    split
    · simp
    · rename_i t' st' hs
      have := step_cont hs
      exact ih t' st' (by omega)
    · simp
    · simp
    · simp

theorem enter_total (guard : Bool) (tok : Tok) (st : St) :
    (if tok.kind = .eof ∧ st.stack = [] then Res.ret tok st
      else loop guard (measure tok st + 1) tok st) ≠ .outOfFuel := by
  split
  · simp
  · exact loop_terminates _ _ _ _ (by omega)

theorem layoutNextToken_total (guard : Bool) (st : St) :
    layoutNextToken guard st ≠ .outOfFuel := by
  unfold layoutNextToken
  split
  · simp
  · exact enter_total _ _ _

/-! ### The stack invariant: the bottom context is a Block, hence the `expect`s cannot fire -/

/-- The bottom-most context (if any) is a `Block`. -/
def BottomBlock : List Offside → Prop
  | [] => True
  | [o] => o.ctx.isBlock = true
  | _ :: o :: r => BottomBlock (o :: r)

theorem bb_tail {l : List Offside} (h : BottomBlock l) : BottomBlock l.tail := by
  match l, h with
  | [], _ => trivial
  | [_], _ => trivial
  | _ :: _ :: _, h => exact h

theorem bb_cons {l : List Offside} (o : Offside) (hne : l ≠ []) (h : BottomBlock l) :
    BottomBlock (o :: l) := by
  match l, hne, h with
  | _ :: _, _, h => exact h

theorem bb_cons_block {l : List Offside} (loc : Loc) (b : Bool) (h : BottomBlock l) :
    BottomBlock (⟨loc, .block b⟩ :: l) := by
  match l, h with
  | [], _ => rfl
  | _ :: _, h => exact h

theorem setTopSemi_ne_nil {b : Bool} {l : List Offside} (h : l ≠ []) : setTopSemi b l ≠ [] := by
  match l, h with
  | _ :: _, _ => simp [setTopSemi]

theorem setTopSemi_tail (b : Bool) (l : List Offside) : (setTopSemi b l).tail = l.tail := by
  cases l <;> simp [setTopSemi]

theorem bb_setTop (b : Bool) {l : List Offside} (h : BottomBlock l) : BottomBlock (setTopSemi b l) := by
  match l, h with
  | [], _ => trivial
  | [o], h =>
    simp only [setTopSemi]
    split
    · rfl
    · exact h
  | _ :: o :: r, h =>
    simp only [setTopSemi]
    exact h

theorem bb_top_nonblock {o : Offside} {r : List Offside} (h : BottomBlock (o :: r))
    (hn : o.ctx.isBlock = false) : r ≠ [] := by
  intro hr; subst hr
  simp [BottomBlock, hn] at h

def StepOk : Step → Prop
  | .ret _ st => BottomBlock st.stack
  | .cont _ st => BottomBlock st.stack
  | .err _ => True
  | .panic => False
  | .hang => True

def RuleOk : Rule → Prop
  | .done s => StepOk s
  | .fall st => BottomBlock st.stack ∧ st.stack ≠ []

theorem pushCtx_ok {st st' : St} {o : Offside} (h : pushCtx st o = .ok st')
    (hb : BottomBlock st.stack) (hc : st.stack ≠ [] ∨ o.ctx.isBlock = true) :
    BottomBlock st'.stack ∧ st'.unproc = st.unproc := by
  unfold pushCtx at h
  split at h
  · cases h
    refine ⟨?_, rfl⟩
    rcases hc with hc | hc
    · exact bb_cons _ hc hb
    · obtain ⟨loc, ctx⟩ := o
      cases ctx <;> simp [Ctx.isBlock] at hc
      exact bb_cons_block _ _ hb
  · cases h

theorem nextToken_stack {st : St} {t : Tok} {st' : St} (h : nextToken st = .ok (t, st')) :
    st'.stack = st.stack := by
  unfold nextToken at h
  split at h
  · cases h; rfl
  · exact (fetch_stack h).1

theorem ofExcept_ok (t : Tok) {e : Except LErr St} (h : ∀ st, e = .ok st → BottomBlock st.stack) :
    StepOk (ofExcept t e) := by
  unfold ofExcept
  split
  · exact h _ rfl
  · trivial

theorem scanForNextBlock_ok {c : Ctx} {st st' : St} (h : scanForNextBlock c st = .ok st')
    (hb : BottomBlock st.stack) (hc : st.stack ≠ [] ∨ c.isBlock = true) : BottomBlock st'.stack := by
  unfold scanForNextBlock at h
  split at h
  · cases h
  · rename_i next st1 hn
    have hs := nextToken_stack hn
    dsimp only at h
    split at h
    · split at h
      · split at h
        · exact (pushCtx_ok h (by simpa [hs] using hb) (by simpa [hs] using hc)).1
        · exact (pushCtx_ok h (by simpa [hs] using hb) (by simpa [hs] using hc)).1
      · exact (pushCtx_ok h (by simpa [hs] using hb) (by simpa [hs] using hc)).1
    · exact (pushCtx_ok h (by simpa [hs] using hb) (by simpa [hs] using hc)).1

theorem inRecOf_tail_ne {l : List Offside} (h : inRecOf l = true) : l.tail ≠ [] := by
  match l, h with
  | _ :: _ :: _, _ => simp

theorem finish_ok (tok : Tok) (off : Offside) (st : St) (hb : BottomBlock st.stack)
    (hne : st.stack ≠ []) : StepOk (finish tok off st) := by
  unfold finish
  split
  · -- push a context
    dsimp only
    apply ofExcept_ok
    intro st' h
    split at h
    · rename_i hc
      exact (pushCtx_ok h (bb_tail hb) (Or.inl (inRecOf_tail_ne hc.2.2))).1
    · exact (pushCtx_ok h hb (Or.inl hne)).1
  · split
    · dsimp only
      split
      · simp only [layoutToken, StepOk]; exact bb_tail hb
      · simp only [StepOk]; exact bb_tail hb
    · exact ofExcept_ok _ (fun _ h => scanForNextBlock_ok h hb (Or.inr rfl))
    · exact ofExcept_ok _ (fun _ h => scanForNextBlock_ok h hb (Or.inr rfl))
    · exact ofExcept_ok _ (fun _ h => scanForNextBlock_ok h hb (Or.inr rfl))
    · exact ofExcept_ok _ (fun _ h => scanForNextBlock_ok h hb (Or.inr rfl))
    · exact ofExcept_ok _ (fun _ h => scanForNextBlock_ok h hb (Or.inl hne))
    · split
      · trivial
      · rename_i next st1 hn
        have hs := nextToken_stack hn
        dsimp only
        split
        · exact ofExcept_ok _ (fun _ h => scanForNextBlock_ok h (by simpa [hs] using hb) (Or.inr rfl))
        · simp only [StepOk]; rw [hs]; exact hb
    · simp only [StepOk]; exact bb_setTop _ hb
    · exact hb

theorem all_nil_of_not {α} {p : α → Bool} {l : List α} (h : ¬ (l.all p = true)) : l ≠ [] := by
  intro hl; subst hl; simp at h

theorem closing_ok (tok : Tok) (off : Offside) (st : St) (hb : BottomBlock st.stack) :
    RuleOk (closing true tok off st) := by
  unfold closing
  dsimp only
  split
  · simp only [RuleOk, StepOk]; exact bb_tail hb
  · rename_i hg
    have hne : st.stack.tail ≠ [] := by
      apply all_nil_of_not (p := fun o => !closes tok.kind o.ctx)
      simpa using hg
    split
    · split
      · exact ⟨bb_tail hb, hne⟩
      · simp only [RuleOk, StepOk]; exact bb_tail hb
      · simp only [RuleOk, StepOk]; exact bb_tail hb
      · simp only [RuleOk, StepOk]; exact bb_tail hb
      · simp only [RuleOk, StepOk]; exact bb_tail hb
      · split
        · simp only [RuleOk, StepOk]; exact bb_setTop _ (bb_tail hb)
        · simp only [RuleOk, StepOk, layoutToken]; exact bb_tail hb
      all_goals first
        | (simp only [RuleOk, StepOk]; exact bb_tail hb)
        | (split
           · rename_i hnil; exact absurd hnil hne
           · rename_i top rest hst
             have hbt : BottomBlock st.stack.tail := bb_tail hb
             split
             · trivial
             · rename_i st2 hp
               simp only [RuleOk, StepOk]
               refine (pushCtx_ok hp ?_ (Or.inr rfl)).1
               dsimp only
               split
               · exact bb_tail (bb_setTop _ hbt)
               · exact bb_setTop _ hbt)
    · simp only [RuleOk, StepOk]; exact bb_tail hb

theorem implicitIn_ok (tok : Tok) (off : Offside) (st : St) (rest : List Offside)
    (hst : st.stack = off :: rest) (hb : BottomBlock st.stack) (hnb : off.ctx.isBlock = false) :
    RuleOk (implicitIn tok off st) := by
  have hrest : rest ≠ [] := bb_top_nonblock (by rw [← hst]; exact hb) hnb
  unfold implicitIn
  dsimp only
  split
  · split
    · trivial
    · trivial
    · rename_i st1 hcb
      have hs := continueBlock_stack _ _ _ hcb
      exact ⟨by rw [hs]; exact hb, by rw [hs, hst]; simp⟩
    · rename_i st1 hcb
      have hs := continueBlock_stack _ _ _ hcb
      split
      · simp only [RuleOk, StepOk]; rw [hs]; exact bb_tail hb
      · split
        · rename_i hnil
          rw [hs, hst] at hnil
          exact absurd hnil hrest
        · rename_i top r hst1
          have hbt : BottomBlock st1.stack.tail := by rw [hs]; exact bb_tail hb
          split
          · trivial
          · rename_i st2 hp
            simp only [RuleOk, StepOk]
            refine (pushCtx_ok hp ?_ (Or.inr rfl)).1
            dsimp only
            split
            · exact bb_tail (bb_setTop _ hbt)
            · exact bb_setTop _ hbt
  · exact ⟨hb, by rw [hst]; simp⟩

theorem offsideRule_ok (tok : Tok) (off : Offside) (st : St) (rest : List Offside)
    (hst : st.stack = off :: rest) (hb : BottomBlock st.stack) :
    RuleOk (offsideRule tok off st) := by
  have hne : st.stack ≠ [] := by rw [hst]; simp
  unfold offsideRule
  dsimp only
  split
  · split
    · exact hb
    · split
      · split
        · simp only [RuleOk, StepOk, layoutToken]; exact bb_setTop _ hb
        · split
          · exact ⟨hb, hne⟩
          · exact ⟨hb, hne⟩
          · exact ⟨hb, hne⟩
          · exact ⟨bb_setTop _ hb, setTopSemi_ne_nil hne⟩
      · exact ⟨hb, hne⟩
  · split
    · simp only [RuleOk, StepOk]; exact bb_tail hb
    · exact ⟨hb, hne⟩
  · split
    · simp only [RuleOk, StepOk]; exact bb_tail hb
    · exact ⟨hb, hne⟩
  · split
    · simp only [RuleOk, StepOk]; exact bb_tail hb
    · exact ⟨hb, hne⟩
  · rename_i hc; exact implicitIn_ok tok off st rest hst hb (by rw [hc]; rfl)
  · rename_i hc; exact implicitIn_ok tok off st rest hst hb (by rw [hc]; rfl)
  · exact ⟨hb, hne⟩

theorem step_ok (tok : Tok) (st : St) (hb : BottomBlock st.stack) : StepOk (step true tok st) := by
  unfold step
  split
  · exact hb
  · split
    · split
      · trivial
      · rename_i st1 hp
        simp only [layoutToken, StepOk]
        exact (pushCtx_ok hp hb (Or.inr rfl)).1
    · rename_i off rest hst
      split
      · exact hb
      · split
        · have := closing_ok tok off st hb
          split
          · rename_i r hc; rw [hc] at this; exact this
          · rename_i st1 hc; rw [hc] at this; exact finish_ok _ _ _ this.1 this.2
        · have := offsideRule_ok tok off st rest hst hb
          split
          · rename_i r hc; rw [hc] at this; exact this
          · rename_i st1 hc; rw [hc] at this; exact finish_ok _ _ _ this.1 this.2

def ResOk : Res → Prop
  | .ret _ st => BottomBlock st.stack
  | .panic => False
  | _ => True

theorem loop_ok (fuel : Nat) (tok : Tok) (st : St) (hb : BottomBlock st.stack) :
    ResOk (loop true fuel tok st) := by
  induction fuel generalizing tok st with
  | zero => simp [loop, ResOk]
  | succ fuel ih =>
    unfold loop
    have := step_ok tok st hb
    split
    · rename_i h; rw [h] at this; exact this
    · rename_i h; rw [h] at this; exact ih _ _ this
    · trivial
    · rename_i h; rw [h] at this; exact this.elim
    · trivial

theorem enter_ok (tok : Tok) (st : St) (hb : BottomBlock st.stack) :
    ResOk (if tok.kind = .eof ∧ st.stack = [] then Res.ret tok st
      else loop true (measure tok st + 1) tok st) := by
  split
  · exact hb
  · exact loop_ok _ _ _ hb

theorem layoutNextToken_ok (st : St) (hb : BottomBlock st.stack) :
    ResOk (layoutNextToken true st) := by
  unfold layoutNextToken
  split
  · trivial
  · rename_i tok st1 hn
    have hs := nextToken_stack hn
    exact enter_ok _ _ (by rw [hs]; exact hb)

theorem run_ok (fuel : Nat) (st : St) (acc : List Tok) (hb : BottomBlock st.stack) :
    (run true fuel st acc).2 ≠ .panic := by
  induction fuel generalizing st acc with
  | zero => simp [run]
  | succ fuel ih =>
    unfold run
    have := layoutNextToken_ok st hb
    split
    · rename_i t st1 h
      rw [h] at this
      split
      · simp
      · exact ih _ _ this
    · simp
    · rename_i h; rw [h] at this; exact this.elim
    · simp
    · simp

/-! ### Without the guard of layout.rs:321 the token stream never ends -/

def rp : Tok := ⟨.rparen, ⟨0, 1, 1⟩, 2⟩
def eof0 : Tok := ⟨.eof, ⟨0, 2, 2⟩, 2⟩
def S1 : St := { input := [], eofTok := eof0, unproc := [rp], stack := [⟨rp.loc, .block false⟩] }
def S2 : St := { input := [], eofTok := eof0, unproc := [rp], stack := [] }

theorem noguard_s0 : layoutNextToken false (initial [rp] eof0) = .ret { rp with kind := .openBlock } S1 := rfl
theorem noguard_s1 : layoutNextToken false S1 = .ret { rp with kind := .closeBlock } S2 := rfl
theorem noguard_s2 : layoutNextToken false S2 = .ret { rp with kind := .openBlock } S1 := rfl

theorem noguard_cycle (n : Nat) : ∀ acc, (run false n S1 acc).2 = .fuel ∧ (run false n S2 acc).2 = .fuel := by
  induction n with
  | zero => intro acc; simp [run]
  | succ n ih =>
    intro acc
    constructor
    · unfold run; rw [noguard_s1]; simp only []
      exact (ih _).2
    · unfold run; rw [noguard_s2]; simp only []
      exact (ih _).1

theorem noguard_diverges (n : Nat) : (run false n (initial [rp] eof0) []).2 = .fuel := by
  cases n with
  | zero => simp [run]
  | succ n =>
    unfold run; rw [noguard_s0]; simp only []
    exact (noguard_cycle n _).1

/-! ### `scan_continue_block` terminates (after commit 3521415) -/

theorem fetch_nil {st : St} (h : st.input = []) :
    fetch st = .ok ({ st.eofTok with kind := .eof }, st) := by
  simp [fetch, h]

/-- At end of input at least one fetch puts the tokenizer's EOF at the bottom. -/
theorem peekToken_nil (k : Nat) (st : St) (hin : st.input = []) (hk : 1 ≤ k) :
    ∃ t st', peekToken k st = .ok (some t, st') ∧ t.kind = .eof ∧ st'.input = [] ∧
      st'.eofTok = st.eofTok ∧ st'.unproc.getLast? = some t ∧
      (∀ u ∈ st'.unproc, u ∈ st.unproc ∨ u.kind = .eof) := by
  induction k generalizing st with
  | zero => omega
  | succ k ih =>
    simp only [peekToken, fetch_nil hin]
    cases k with
    | zero =>
      refine ⟨{ st.eofTok with kind := .eof },
        { st with unproc := st.unproc ++ [{ st.eofTok with kind := .eof }] },
        by simp [peekToken], rfl, hin, rfl, by simp, ?_⟩
      intro u hu; simp at hu; rcases hu with h | h
      · exact Or.inl h
      · right; rw [h]
    | succ k =>
      obtain ⟨t, st', h1, h2, h3, h4, h5, h6⟩ :=
        ih { st with unproc := st.unproc ++ [{ st.eofTok with kind := .eof }] } hin (by omega)
      refine ⟨t, st', h1, h2, h3, h4, h5, ?_⟩
      intro u hu
      rcases h6 u hu with h | h
      · simp at h; rcases h with h | h
        · exact Or.inl h
        · right; rw [h]
      · exact Or.inr h

/-- What `k` fetches do: either they all come from the input, or the bottom is an EOF. -/
theorem peekToken_shape (k : Nat) (st : St) :
    match peekToken k st with
    | .error _ => True
    | .ok (o, st') =>
      (st'.input.length + k = st.input.length ∧ st'.unproc.length = st.unproc.length + k) ∨
      (st.input.length < k ∧ ∃ t, o = some t ∧ t.kind = .eof) := by
  induction k generalizing st with
  | zero => simp [peekToken]
  | succ k ih =>
    cases hin : st.input with
    | nil =>
      obtain ⟨t, st', h1, h2, _⟩ := peekToken_nil (k + 1) st hin (by omega)
      rw [h1]
      right
      exact ⟨by simp, t, rfl, h2⟩
    | cons a rest =>
      by_cases hl : a.kind = .lexErr
      · simp [peekToken, fetch, hin, hl]
      · have := ih { input := rest, eofTok := st.eofTok, unproc := st.unproc ++ [a], stack := st.stack }
        simp only [peekToken, fetch, hin, hl, if_false]
        revert this
        generalize peekToken k { input := rest, eofTok := st.eofTok, unproc := st.unproc ++ [a], stack := st.stack } = r
        intro h
        cases r with
        | error e => trivial
        | ok r =>
          obtain ⟨o, st'⟩ := r
          simp only [List.length_append, List.length_cons, List.length_nil] at h ⊢
          rcases h with ⟨h1, h2⟩ | ⟨h1, h2⟩
          · left; constructor <;> omega
          · right; exact ⟨by omega, h2⟩

/-- The measure of the scan: tokens not yet fetched + buffered tokens not yet re-read. -/
def scanMeasure (i : Nat) (st : St) : Nat := st.input.length + (st.unproc.length + 1 - i)

theorem scanLoop_terminates (expected : Kind) (fuel i : Nat) (inAttr : Bool) (first : Tok) (st : St)
    (hi : 1 ≤ i) (hf : scanMeasure i st < fuel) :
    scanLoop expected fuel i inAttr first st ≠ .hang := by
  induction fuel generalizing i inAttr st with
  | zero => omega
  | succ fuel ih =>
    unfold scanLoop
    have hi0 : i ≠ 0 := by omega
    simp only [hi0, if_false]
    have hshape := peekToken_shape (i - st.unproc.length) st
    revert hshape
    cases hp : peekToken (i - st.unproc.length) st with
    | error e => intro _; simp
    | ok r =>
      obtain ⟨o, st'⟩ := r
      intro hshape
      simp only at hshape
      cases o with
      | none => simp
      | some t =>
        simp only
        split
        · simp
        · -- the recursive calls all have a smaller measure, unless `t` is the EOF
          have hrec : t.kind ≠ .eof → ∀ b, scanLoop expected fuel (i + 1) b first st' ≠ .hang := by
            intro hne b
            apply ih (i + 1) b st' (by omega)
            rcases hshape with ⟨h1, h2⟩ | ⟨_, t', ht, hk⟩
            · unfold scanMeasure at hf ⊢
              omega
            · cases ht; exact absurd hk hne
          split
          · simp
          · rename_i hk; exact hrec (by rw [hk]; decide) _
          · rename_i hk; exact hrec (by rw [hk]; decide) _
          · rename_i hk; exact hrec (by rw [hk]; decide) _
          · rename_i h1 h2 h3 h4
            split
            · exact hrec (fun h => h1 h) _
            · simp

theorem scanLoop0_terminates (expected : Kind) (first : Tok) (st : St) :
    scanLoop expected (scanFuel st) 0 false first st ≠ .hang := by
  have hrec : ∀ b, scanLoop expected (st.unproc.length + st.input.length + 2) 1 b first st ≠ .hang :=
    fun b => scanLoop_terminates expected _ 1 b first st (by omega) (by unfold scanMeasure; omega)
  unfold scanFuel scanLoop
  simp only [if_true]
  split
  · simp
  · split
    · simp
    · exact hrec _
    · exact hrec _
    · exact hrec _
    · split
      · exact hrec _
      · simp

theorem continueBlock_ne_hang (c : Ctx) (tok : Tok) (st : St) : continueBlock c tok st ≠ .hang := by
  unfold continueBlock
  split
  · split
    · simp
    · split
      · unfold scanContinueBlock
        split
        · exact scanLoop0_terminates _ _ _
        · exact scanLoop0_terminates _ _ _
        · simp
      · simp
  · simp

theorem ofExcept_ne_hang (t : Tok) (e : Except LErr St) : ofExcept t e ≠ .hang := by
  unfold ofExcept; split <;> simp

theorem finish_ne_hang (tok : Tok) (off : Offside) (st : St) : finish tok off st ≠ .hang := by
  unfold finish
  intro h
  split at h
  · exact ofExcept_ne_hang _ _ h
  · split at h
    · dsimp only at h
      split at h
      · simp [layoutToken] at h
      · cases h
    · exact ofExcept_ne_hang _ _ h
    · exact ofExcept_ne_hang _ _ h
    · exact ofExcept_ne_hang _ _ h
    · exact ofExcept_ne_hang _ _ h
    · exact ofExcept_ne_hang _ _ h
    · split at h
      · cases h
      · dsimp only at h
        split at h
        · exact ofExcept_ne_hang _ _ h
        · cases h
    · cases h
    · cases h

theorem implicitIn_ne_hang (tok : Tok) (off : Offside) (st : St) :
    implicitIn tok off st ≠ .done .hang := by
  unfold implicitIn
  intro h
  simp only at h
  split at h
  · split at h
    · cases h
    · rename_i hcb; exact continueBlock_ne_hang _ _ _ hcb
    · cases h
    · repeat' split at h
      all_goals simp at h
  · cases h

theorem offsideRule_ne_hang (tok : Tok) (off : Offside) (st : St) :
    offsideRule tok off st ≠ .done .hang := by
  unfold offsideRule
  intro h
  simp only at h
  split at h
  · repeat' split at h
    all_goals simp [layoutToken] at h
  · split at h <;> simp at h
  · split at h <;> simp at h
  · split at h <;> simp at h
  · exact implicitIn_ne_hang _ _ _ h
  · exact implicitIn_ne_hang _ _ _ h
  · cases h

theorem closing_ne_hang (guard : Bool) (tok : Tok) (off : Offside) (st : St) :
    closing guard tok off st ≠ .done .hang := by
  unfold closing
  intro h
  simp only at h
  repeat' split at h
  all_goals simp [layoutToken] at h

theorem step_ne_hang (guard : Bool) (tok : Tok) (st : St) : step guard tok st ≠ .hang := by
  unfold step
  intro h
  split at h
  · cases h
  · split at h
    · split at h
      · cases h
      · simp [layoutToken] at h
    · split at h
      · cases h
      · split at h
        · split at h
          · rename_i r hc; subst h; exact closing_ne_hang _ _ _ _ hc
          · exact finish_ne_hang _ _ _ h
        · split at h
          · rename_i r hc; subst h; exact offsideRule_ne_hang _ _ _ hc
          · exact finish_ne_hang _ _ _ h

theorem loop_ne_hang (guard : Bool) (fuel : Nat) (tok : Tok) (st : St) :
    loop guard fuel tok st ≠ .hang := by
  induction fuel generalizing tok st with
  | zero => simp [loop]
  | succ fuel ih =>
    unfold loop
    split
    · simp
    · exact ih _ _
    · simp
    · simp
    · rename_i h; exact absurd h (step_ne_hang _ _ _)

theorem enter_ne_hang (guard : Bool) (tok : Tok) (st : St) :
    (if tok.kind = .eof ∧ st.stack = [] then Res.ret tok st
      else loop guard (measure tok st + 1) tok st) ≠ .hang := by
  split
  · simp
  · exact loop_ne_hang _ _ _ _

theorem layoutNextToken_ne_hang (guard : Bool) (st : St) : layoutNextToken guard st ≠ .hang := by
  unfold layoutNextToken
  split
  · simp
  · exact enter_ne_hang _ _ _

theorem run_ne_hang (guard : Bool) (fuel : Nat) (st : St) (acc : List Tok) :
    (run guard fuel st acc).2 ≠ .hang := by
  induction fuel generalizing st acc with
  | zero => simp [run]
  | succ fuel ih =>
    unfold run
    split
    · split
      · simp
      · exact ih _ _
    · simp
    · simp
    · rename_i h; exact absurd h (layoutNextToken_ne_hang _ _)
    · simp

/-! ### The old rule: `scan_continue_block` diverged inside an attribute at end of input -/

theorem peekToken_eof (k : Nat) (st : St) (hin : st.input = [])
    (hall : ∀ t ∈ st.unproc, t.kind = .eof) (hk : 1 ≤ k ∨ st.unproc ≠ []) :
    ∃ t st', peekToken k st = .ok (some t, st') ∧ t.kind = .eof ∧ st'.input = [] ∧
      (∀ t ∈ st'.unproc, t.kind = .eof) := by
  cases k with
  | zero =>
    have hne : st.unproc ≠ [] := by rcases hk with h | h; omega; exact h
    obtain ⟨t, ht⟩ : ∃ t, st.unproc.getLast? = some t := by
      cases hu : st.unproc with
      | nil => exact absurd hu hne
      | cons a l => simp [List.getLast?_eq_some_getLast]
    exact ⟨t, st, by simp [peekToken, ht], hall t (List.mem_of_getLast? ht), hin, hall⟩
  | succ k =>
    obtain ⟨t, st', h1, h2, h3, _, _, h6⟩ := peekToken_nil (k + 1) st hin (by omega)
    refine ⟨t, st', h1, h2, h3, ?_⟩
    intro u hu
    rcases h6 u hu with h | h
    · exact hall u h
    · exact h

theorem scanLoopOld_diverges (expected : Kind) (hexp : expected ≠ .eof) (n i : Nat) (first : Tok)
    (st : St) (hin : st.input = []) (hall : ∀ t ∈ st.unproc, t.kind = .eof) (hi : 1 ≤ i) :
    scanLoopOld expected n i true first st = .hang := by
  induction n generalizing i st with
  | zero => simp [scanLoopOld]
  | succ n ih =>
    have hk : 1 ≤ i - st.unproc.length ∨ st.unproc ≠ [] := by
      cases hu : st.unproc with
      | nil => left; simp; omega
      | cons a l => right; simp
    obtain ⟨t, st', h1, h2, h3, h5⟩ := peekToken_eof _ st hin hall hk
    unfold scanLoopOld
    have hi0 : i ≠ 0 := by omega
    simp only [hi0, if_false, h1, h2]
    have hne : ¬ (Kind.eof = expected) := fun h => hexp h.symm
    simp only [hne, if_false, if_true]
    exact ih (i + 1) st' h3 h5 (by omega)

/-! ### The former hang witness `rec let x = 1⏎#[` now ends -/

def hangToks : List Tok :=
  [⟨.rec_, ⟨0, 1, 1⟩, 4⟩, ⟨.let_, ⟨0, 5, 5⟩, 8⟩, ⟨.other, ⟨0, 9, 9⟩, 10⟩, ⟨.equals, ⟨0, 11, 11⟩, 12⟩,
   ⟨.other, ⟨0, 13, 13⟩, 14⟩, ⟨.attrOpen, ⟨1, 1, 15⟩, 17⟩]
def hangEof : Tok := ⟨.eof, ⟨1, 3, 17⟩, 17⟩

theorem hang_witness_now_ok : (layout hangToks hangEof 1000).2 = .ok := rfl

end GluonModel.LayoutAlgo.Proofs
