/-
C20: the fuel of `GluonModel.FindPos.run` — the height of the tree always suffices, and any
larger fuel gives the same answer, so the position search is a function of the tree alone.
-/
import GluonModel.FindPos
import GluonModel.Proofs.FindPos

namespace GluonModel.FindPos.Proofs
open GluonModel.FindPos

theorem heightList_mem {ps : List Pat} : ∀ p ∈ ps, p.height ≤ Pat.height.heightList ps := by
  induction ps with
  | nil => simp
  | cons q qs ih =>
    intro p hp
    simp only [Pat.height.heightList]
    simp at hp
    rcases hp with rfl | hp
    · omega
    · have := ih p hp; omega

theorem hList_mem {cs : List Expr} : ∀ c ∈ cs, c.height ≤ hList cs := by
  induction cs with
  | nil => simp
  | cons q qs ih =>
    intro p hp
    simp only [hList]
    simp at hp
    rcases hp with rfl | hp
    · omega
    · have := ih p hp; omega

theorem hBinds_mem {bs : List LBind} :
    ∀ b ∈ bs, b.name.height ≤ hBinds bs ∧ b.expr.height ≤ hBinds bs := by
  induction bs with
  | nil => simp
  | cons q qs ih =>
    cases q with | mk n a e =>
    intro p hp
    simp only [hBinds]
    simp at hp
    rcases hp with rfl | hp
    · simp only [LBind.name, LBind.expr]; omega
    · have := ih p hp; omega

theorem hAlts_mem {bs : List Alt} :
    ∀ b ∈ bs, b.pat.height ≤ hAlts bs ∧ b.expr.height ≤ hAlts bs := by
  induction bs with
  | nil => simp
  | cons q qs ih =>
    cases q with | mk n e =>
    intro p hp
    simp only [hAlts]
    simp at hp
    rcases hp with rfl | hp
    · simp only [Alt.pat, Alt.expr]; omega
    · have := ih p hp; omega

/-- the part of a variant that is visited further -/
def Variant.h : Variant → Nat
  | .pat p => p.height
  | .expr e => e.height
  | _ => 0

theorem variant_height_le {vs : List Variant} {H : Nat} (h : ∀ v ∈ vs, Variant.h v ≤ H) (pos : Nat) :
    Node.height (.variant (selectSpanned Variant.span pos vs).2) ≤ H + 1 := by
  cases hsel : (selectSpanned Variant.span pos vs).2 with
  | none => simp [Node.height]
  | some x =>
    have hx := h x (select_mem _ _ _ _ hsel)
    cases x <;> simp [Node.height, Variant.h] at hx ⊢ <;> omega

theorem recordVariants_h {fs : List Field} {base : Option Expr} :
    ∀ v ∈ recordVariants fs base,
      Variant.h v ≤ max (hFields fs) (match base with | none => 0 | some b => b.height) := by
  intro v hv
  simp only [recordVariants, List.mem_append, List.mem_flatMap] at hv
  rcases hv with ⟨f, hfm, hv⟩ | hv
  · have : Variant.h v ≤ hFields fs := by
      induction fs with
      | nil => simp at hfm
      | cons g gs ih =>
        simp at hfm
        rcases hfm with rfl | hfm
        · cases f with | mk sp val =>
          cases val with
          | none => simp at hv; subst hv; simp [Variant.h]
          | some e =>
            simp at hv
            rcases hv with rfl | rfl
            · simp [Variant.h]
            · simp only [hFields, Variant.h]; omega
        · have := ih hfm
          cases g with | mk sp val =>
          cases val with
          | none => simpa [hFields] using this
          | some e => simp only [hFields]; omega
    omega
  · cases base with
    | none => simp at hv
    | some b => simp at hv; subst hv; simp only [Variant.h]; omega

theorem Expr.height_pos (e : Expr) : 0 < e.height := by
  cases e <;> unfold Expr.height <;> omega

theorem height_letb (sp : Span) (r : Bool) (bs : List LBind) (b : Expr) :
    Node.height (.expr (.letb sp r bs b)) = max (hBinds bs + 1) b.height + 1 := by
  simp [Node.height, Expr.height]

theorem height_record (sp : Span) (fs : List Field) (base : Option Expr) :
    Node.height (.expr (.record sp fs base))
      = max (hFields fs) (match base with | none => 0 | some b => b.height) + 2 := by
  simp only [Node.height]; cases base <;> simp [Expr.height]

/-- a step goes to a strictly lower node -/
def StepLt (h : Nat) : Next → Prop
  | .done _ => True
  | .go n _ => n.height < h

theorem step_height (fx : Bool) (pos : Nat) (n : Node) (st : St) :
    StepLt n.height (step fx pos n st) := by
  cases n with
  | pat p =>
    cases p with
    | leaf sp b => simp [step, StepLt]
    | as_ sp b q => simp [step, StepLt, Node.height, Pat.height]
    | ctor sp len args =>
      simp only [step]
      split
      · simp [StepLt]
      · split
        · rename_i q hq
          have := heightList_mem q (select_mem _ _ _ _ hq)
          simp only [StepLt, Node.height, Pat.height]; omega
        · simp [StepLt]
    | tuple sp elems =>
      simp only [step]
      split
      · rename_i q hq
        have := heightList_mem q (select_mem _ _ _ _ hq)
        simp only [StepLt, Node.height, Pat.height]; omega
      · simp [StepLt]
    | record sp fs =>
      simp only [step]
      split
      · simp [StepLt]
      · rename_i nsp v hsel
        have hm : Pat.fieldVal nsp v ∈ fs := select_mem Pat.span pos fs _ (by rw [hsel])
        have := heightList_mem _ hm
        simp only [Pat.height] at this
        split <;> simp only [StepLt, Node.height, Pat.height] <;> (try trivial) <;> omega
      · simp [StepLt]
    | fieldShort nsp b => simp [step, StepLt]
    | fieldVal nsp v => simp [step, StepLt]
  | variant v =>
    cases v with
    | none => simp [step, StepLt]
    | some x =>
      cases x <;> simp [step, StepLt, Node.height]
  | expr e =>
    cases e with
    | leaf sp => simp [step, StepLt]
    | emptyNode sp => simp [step, StepLt]
    | error sp => simp [step, StepLt]
    | one sp cs =>
      simp only [step]
      split
      · rename_i c hc
        have := hList_mem c (select_mem _ _ _ _ hc)
        simp only [StepLt, Node.height, Expr.height]; omega
      · simp [StepLt]
    | «infix» sp l op r =>
      simp only [step]
      split <;> simp only [StepLt, Node.height, Expr.height] <;> omega
    | proj sp e =>
      simp only [step]
      split <;> simp [StepLt, Node.height, Expr.height]
    | annotated sp e => simp [step, StepLt, Node.height, Expr.height]
    | lambda sp args body =>
      simp only [step]
      split <;> simp [StepLt, Node.height, Expr.height]
    | letb sp isRec binds body =>
      simp only [step]
      split
      · rename_i b hb
        have hbm : b ∈ binds := select_mem LBind.span pos binds b (by rw [hb])
        have hbh := hBinds_mem b hbm
        have : Node.height (.variant (selectSpanned Variant.span pos (bindVariants b)).2)
            ≤ hBinds binds + 1 := by
          apply variant_height_le
          intro x hxm
          simp only [bindVariants, List.mem_cons, List.mem_append, List.mem_map,
            List.not_mem_nil, or_false] at hxm
          rcases hxm with rfl | ⟨a, _, rfl⟩ | rfl
          · simp only [Variant.h]; exact hbh.1
          · simp [Variant.h]
          · simp only [Variant.h]; exact hbh.2
        simp only [StepLt]; rw [height_letb]; omega
      · simp only [StepLt]; rw [height_letb]; simp only [Node.height]; omega
    | matchE sp scrut alts =>
      simp only [step]
      split
      · simp [StepLt]
      · rename_i e' he'
        have hm := select_mem _ _ _ _ he'
        simp at hm
        subst hm
        simp only [StepLt, Node.height, Expr.height]; omega
      · rename_i a ha
        have hm := select_mem _ _ _ _ ha
        simp at hm
        have hah := hAlts_mem a hm
        split
        · simp [StepLt]
        · rename_i p hp
          have hm2 := select_mem _ _ _ _ hp
          simp at hm2
          subst hm2
          simp only [StepLt, Node.height, Expr.height]; omega
        · rename_i e' he'
          have hm2 := select_mem _ _ _ _ he'
          simp at hm2
          subst hm2
          simp only [StepLt, Node.height, Expr.height]; omega
    | record sp fields base =>
      simp only [step]
      have := variant_height_le (vs := recordVariants fields base) recordVariants_h pos
      simp only [StepLt]; rw [height_record]; omega

/-- Fuel ≥ height of the node suffices. -/
theorem fuel_sufficient (fx : Bool) (pos : Nat) :
    ∀ (fuel : Nat) (n : Node) (st : St), n.height ≤ fuel → run fx pos fuel n st ≠ .fuel := by
  intro fuel
  induction fuel with
  | zero =>
    intro n st h
    exfalso
    have : 0 < n.height := by
      cases n with
      | expr e => exact Expr.height_pos e
      | pat p => cases p <;> simp [Node.height, Pat.height]
      | variant v =>
        cases v with
        | none => simp [Node.height]
        | some x => cases x <;> simp [Node.height]
    omega
  | succ k ih =>
    intro n st h
    have hs := step_height fx pos n st
    rw [run]
    split
    · rename_i o ho
      -- a finished step never answers `fuel`
      intro hf
      subst hf
      cases n with
      | pat p =>
        cases p <;> simp only [step] at ho <;> (repeat' split at ho) <;> simp at ho
      | variant v =>
        cases v with
        | none => simp [step] at ho
        | some x => cases x <;> simp [step] at ho
      | expr e =>
        cases e <;> simp only [step] at ho <;> (repeat' split at ho) <;> simp at ho
    · rename_i n' st' ho
      rw [ho] at hs
      simp only [StepLt] at hs
      exact ih n' st' (by omega)

/-- Any fuel ≥ height gives the answer of fuel = height. -/
theorem fuel_irrelevant (fx : Bool) (pos fuel : Nat) (n : Node) (st : St) (h : n.height ≤ fuel) :
    run fx pos fuel n st = run fx pos n.height n st :=
  run_mono_le fx pos n.height fuel n st (fuel_sufficient fx pos n.height n st (Nat.le_refl _)) h

end GluonModel.FindPos.Proofs
