import GluonModel.Proofs.TokenizerUtf8
/-!
# The scanners that handle non-ASCII bytes never panic and end on a scalar boundary

`restore_char` is called on a byte that has been consumed (not on the lookahead) in exactly
three places: `escape_code` (token.rs:536), `char_literal` (token.rs:655, 674) and the catch-all
arm of `next` (token.rs:868).  Those were the places of the panics D13 and D22.
-/
namespace GluonModel.Tokenizer

@[simp] theorem shift_abs (l : Loc) (b : Nat) : (l.shift b).abs = l.abs + 1 := by
  unfold Loc.shift; split <;> rfl

theorem bump_some {inp : Input} {l : Loc} (h : l.abs < inp.size) :
    bump inp l = some (inp[l.abs], l.shift inp[l.abs]) := by
  simp [bump, h]

theorem bump_none {inp : Input} {l : Loc} (h : ¬ l.abs < inp.size) : bump inp l = none := by
  have : inp[l.abs]? = none := by simp; omega
  simp [bump, this]

theorem bumpN_abs {inp : Input} : ∀ (k : Nat) (l : Loc), l.abs + k ≤ inp.size →
    (bumpN inp k l).abs = l.abs + k
  | 0, _, _ => rfl
  | k + 1, l, h => by
    have hlt : l.abs < inp.size := by omega
    simp only [bumpN, bump_some hlt]
    rw [bumpN_abs k _ (by simp; omega)]
    simp; omega

theorem isCont_enc (x : Nat) (h : x < 64) : isCont (128 + x) = true := by
  simp [isCont]; omega

/-- `bytes_prefix` after the first byte of the scalar at a boundary: the rest of that scalar. -/
theorem bytesPrefix_at {inp : Input} {p c : Nat} (hc : isScalar c)
    (hb : ∀ i, i < (encode c).length → inp[p + i]? = (encode c)[i]?)
    (hn : ∀ b, inp[p + (encode c).length]? = some b → isCont b = false) :
    bytesPrefix inp (p + 1) = (encode c).tail := by
  unfold bytesPrefix
  have e0 : p + 1 + 0 = p + 1 := rfl
  have e1 : p + 1 + 1 = p + 2 := rfl
  have e2 : p + 1 + 2 = p + 3 := rfl
  simp only [e0, e1, e2]
  by_cases h1 : c < 128
  · simp only [encode, h1, if_true, List.length_cons, List.length_nil, List.tail] at hb hn ⊢
    cases h : inp[p + 1]? with
    | none => simp
    | some b => simp [hn b h]
  by_cases h2 : c < 2048
  · simp only [encode, h1, h2, if_true, if_false, List.length_cons, List.length_nil, List.tail] at hb hn ⊢
    have a1 := hb 1 (by omega)
    simp at a1
    have k1 := isCont_enc (c % 64) (by omega)
    cases h : inp[p + 2]? with
    | none => simp [a1, k1]
    | some b => simp [a1, k1, hn b h]
  by_cases h3 : c < 65536
  · simp only [encode, h1, h2, h3, if_true, if_false, List.length_cons, List.length_nil, List.tail] at hb hn ⊢
    have a1 := hb 1 (by omega)
    have a2 := hb 2 (by omega)
    simp at a1 a2
    have k1 := isCont_enc (c / 64 % 64) (by omega)
    have k2 := isCont_enc (c % 64) (by omega)
    cases h : inp[p + 3]? with
    | none => simp [a1, a2, k1, k2]
    | some b => simp [a1, a2, k1, k2, hn b h]
  · simp only [encode, h1, h2, h3, if_false, List.length_cons, List.length_nil, List.tail] at hb hn ⊢
    have a1 := hb 1 (by omega)
    have a2 := hb 2 (by omega)
    have a3 := hb 3 (by omega)
    simp at a1 a2 a3
    have k1 := isCont_enc (c / 4096 % 64) (by omega)
    have k2 := isCont_enc (c / 64 % 64) (by omega)
    have k3 := isCont_enc (c % 64) (by omega)
    simp [a1, a2, a3, k1, k2, k3]

/-- `restore_char` on the first byte of the scalar at a boundary: that scalar; `len_utf8` bytes
further is the next boundary. -/
theorem restoreChar_at {inp : Input} {p : Nat} (h : VAt inp p) (hlt : p < inp.size) :
    ∃ c, isScalar c ∧ restoreChar inp inp[p] (p + 1) = .ok c ∧ VAt inp (p + lenUtf8 c) := by
  obtain ⟨c, hc, hb, hv, hn⟩ := vat_step h hlt
  refine ⟨c, hc, ?_, by rw [lenUtf8_eq]; exact hv⟩
  rw [restoreChar_eq, bytesPrefix_at hc hb hn]
  have h0 := hb 0 (encode_length_pos c)
  have hp : inp[p]? = some inp[p] := by simp [hlt]
  simp only [Nat.add_zero, hp] at h0
  cases he : encode c with
  | nil => have := encode_length_pos c; simp [he] at this
  | cons b t =>
    rw [he] at h0
    simp at h0
    subst h0
    exact restoreOf_encode hc _ _ he

/-- `restore_char` with a continuation byte in hand panics, whatever follows. -/
theorem restoreChar_cont_panics (inp : Input) (b p : Nat) (h : 128 ≤ b) (h' : b < 192) :
    restoreChar inp b p = .panic "UTF-8 string" := by
  rw [restoreChar_eq]; exact restoreOf_cont_panics _ h h'

/-- What every scanner owes: it returns, and the position afterwards is a scalar boundary not
before the one it started from. -/
def Lands (inp : Input) (l : Loc) (l' : Loc) : Prop := VAt inp l'.abs ∧ l.abs ≤ l'.abs

/-- Consume the scalar at `l` (its first byte `b` already bumped to `l1`): restore + bumps. -/
theorem restore_and_skip {inp : Input} {l : Loc} (hv : VAt inp l.abs) (hlt : l.abs < inp.size) :
    ∃ c, isScalar c ∧ restoreChar inp inp[l.abs] (l.shift inp[l.abs]).abs = .ok c ∧
      Lands inp l (bumpN inp (lenUtf8 c - 1) (l.shift inp[l.abs])) ∧
      l.abs < (bumpN inp (lenUtf8 c - 1) (l.shift inp[l.abs])).abs := by
  obtain ⟨c, hc, hr, hv'⟩ := restoreChar_at hv hlt
  refine ⟨c, hc, by simpa using hr, ?_⟩
  have hpos : 1 ≤ lenUtf8 c := by rw [lenUtf8_eq]; exact encode_length_pos c
  have hle := hv'.le
  have habs : (bumpN inp (lenUtf8 c - 1) (l.shift inp[l.abs])).abs = l.abs + lenUtf8 c := by
    rw [bumpN_abs _ _ (by simp; omega)]; simp; omega
  unfold Lands
  rw [habs]
  exact ⟨⟨hv', by omega⟩, by omega⟩

/-- token.rs:525 `escape_code` never panics and ends on a scalar boundary. -/
theorem escapeCode_total {inp : Input} (start : Loc) {l : Loc} (hv : VAt inp l.abs) :
    ∃ b l' es, escapeCode inp start l = .ok (b, l', es) ∧ Lands inp l l' := by
  unfold escapeCode
  by_cases hlt : l.abs < inp.size
  · rw [bump_some hlt]
    simp only []
    split
    · exact ⟨_, _, _, rfl, by simpa using vat_succ_ascii hv hlt (by simp_all; omega), by simp⟩
    split
    · exact ⟨_, _, _, rfl, by simpa using vat_succ_ascii hv hlt (by simp_all), by simp⟩
    split
    · exact ⟨_, _, _, rfl, by simpa using vat_succ_ascii hv hlt (by simp_all), by simp⟩
    split
    · exact ⟨_, _, _, rfl, by simpa using vat_succ_ascii hv hlt (by simp_all), by simp⟩
    obtain ⟨c, _, hr, hl, _⟩ := restore_and_skip hv hlt
    rw [hr]
    exact ⟨_, _, _, rfl, hl⟩
  · rw [bump_none hlt]
    exact ⟨_, _, _, rfl, hv, Nat.le_refl _⟩

/-- token.rs:665-682. -/
theorem charClose_total {inp : Input} (start : Loc) (ch : Nat) {l2 : Loc} (errs : List SErr)
    (hv : VAt inp l2.abs) :
    ∃ o, charClose inp start ch l2 errs = .ok o ∧ Lands inp l2 o.loc := by
  unfold charClose
  by_cases hlt : l2.abs < inp.size
  · rw [bump_some hlt]
    simp only []
    split
    · exact ⟨_, rfl, by simpa [Lands] using vat_succ_ascii hv hlt (by simp_all)⟩
    split
    · obtain ⟨c, _, hr, hl, _⟩ := restore_and_skip hv hlt
      rw [hr]
      exact ⟨_, rfl, hl⟩
    · exact ⟨_, rfl, by simpa [Lands] using vat_succ_ascii hv hlt (by omega)⟩
  · rw [bump_none hlt]
    exact ⟨_, rfl, hv, Nat.le_refl _⟩

/-- token.rs:638 `char_literal` never panics and ends on a scalar boundary (D22 was here). -/
theorem charLiteral_total {inp : Input} (start : Loc) {l : Loc} (hv : VAt inp l.abs) :
    ∃ o, charLiteral inp start l = .ok o ∧ Lands inp l o.loc := by
  unfold charLiteral
  by_cases hlt : l.abs < inp.size
  · rw [bump_some hlt]
    simp only []
    split
    · obtain ⟨b, l', es, he, hv', hle⟩ := escapeCode_total (inp := inp) l
        (l := l.shift inp[l.abs]) (by simpa using vat_succ_ascii hv hlt (by simp_all))
      rw [he]
      simp only []
      obtain ⟨o, ho, hv'', hle'⟩ := charClose_total start (if b < 128 then b else 65533) es hv'
      exact ⟨o, ho, hv'', by simp at hle; omega⟩
    split
    · exact ⟨_, rfl, by simpa [Lands] using vat_succ_ascii hv hlt (by simp_all)⟩
    split
    · obtain ⟨c, _, hr, ⟨hv', hle⟩, _⟩ := restore_and_skip hv hlt
      rw [hr]
      simp only []
      obtain ⟨o, ho, hv'', hle'⟩ := charClose_total start c [] hv'
      exact ⟨o, ho, hv'', by omega⟩
    · have hv' : VAt inp (l.shift inp[l.abs]).abs := by
        simpa using vat_succ_ascii hv hlt (by omega)
      obtain ⟨o, ho, hv'', hle'⟩ := charClose_total start inp[l.abs] [] hv'
      exact ⟨o, ho, hv'', by simp at hle'; omega⟩
  · rw [bump_none hlt]
    exact ⟨_, rfl, hv, Nat.le_refl _⟩

/-! ### `take_while` / `take_until` end on a scalar boundary -/

/-- A scan that consumes only ASCII bytes (`take_while(is_digit / is_hex / is_ident_continue /
is_ident_start / is_operator_byte)`) ends on a scalar boundary. -/
theorem scanUntil_keepAscii {inp : Input} {term : Nat → Bool}
    (hterm : ∀ b, term b = false → b < 128) (l : Loc) (hv : VAt inp l.abs) :
    Lands inp l (scanUntil inp term l) := by
  fun_induction scanUntil inp term l with
  | case1 l h ht => exact ⟨hv, Nat.le_refl _⟩
  | case2 l h ht ih =>
    have hf : term inp[l.abs] = false := by simpa using ht
    have := ih (by simpa using vat_succ_ascii hv h (hterm _ hf))
    exact ⟨this.1, by have := this.2; simp at this; omega⟩
  | case3 l h => exact ⟨hv, Nat.le_refl _⟩

theorem encode_bytes_ge {c : Nat} (h : ¬ c < 128) : ∀ b ∈ encode c, 128 ≤ b := by
  intro b hb
  unfold encode at hb
  rw [if_neg h] at hb
  split at hb
  · simp at hb; omega
  · split at hb <;> (simp at hb; omega)

theorem scanUntil_skip {inp : Input} {term : Nat → Bool} (hterm : ∀ b, 128 ≤ b → term b = false) :
    ∀ (k : Nat) (l : Loc), (∀ i, i < k → ∃ h : l.abs + i < inp.size, 128 ≤ inp[l.abs + i]) →
      scanUntil inp term l = scanUntil inp term (bumpN inp k l)
  | 0, _, _ => rfl
  | k + 1, l, h => by
    obtain ⟨h0, hb⟩ := h 0 (by omega)
    simp only [Nat.add_zero] at h0 hb
    conv => lhs; unfold scanUntil
    simp only [h0, dite_true, hterm _ hb, bumpN, bump_some h0]
    apply scanUntil_skip hterm k
    intro i hi
    obtain ⟨h1, hb1⟩ := h (i + 1) (by omega)
    have e : (l.shift inp[l.abs]).abs + i = l.abs + (i + 1) := by simp; omega
    exact ⟨by omega, by simp only [e]; exact hb1⟩

/-- A scan that stops only at ASCII bytes (`take_until(b'"' | b'\\' | b'\n' | b'*')`) steps over
whole scalars and ends on a scalar boundary. -/
theorem scanUntil_stopAscii {inp : Input} {term : Nat → Bool}
    (hterm : ∀ b, 128 ≤ b → term b = false) :
    ∀ (n : Nat) (l : Loc), inp.size - l.abs = n → VAt inp l.abs →
      Lands inp l (scanUntil inp term l) := by
  intro n
  induction n using Nat.strongRecOn with
  | _ n ih =>
    intro l hn hv
    by_cases hlt : l.abs < inp.size
    · by_cases ha : inp[l.abs] < 128
      · conv => arg 3; unfold scanUntil
        simp only [hlt, dite_true]
        split
        · exact ⟨hv, Nat.le_refl _⟩
        · have := ih (inp.size - (l.shift inp[l.abs]).abs) (by simp; omega) _ rfl
            (by simpa using vat_succ_ascii hv hlt ha)
          exact ⟨this.1, by have := this.2; simp at this; omega⟩
      · obtain ⟨c, hc, hb, hv', _⟩ := vat_step hv hlt
        have hc128 : ¬ c < 128 := by
          intro hc1
          have := hb 0 (encode_length_pos c)
          simp [encode, hc1, hlt] at this
          omega
        have hbytes : ∀ i, i < (encode c).length → ∃ h : l.abs + i < inp.size, 128 ≤ inp[l.abs + i] := by
          intro i hi
          have hle := hv'.le
          have hi' : l.abs + i < inp.size := by omega
          refine ⟨hi', ?_⟩
          have := hb i hi
          rw [Array.getElem?_eq_getElem hi', List.getElem?_eq_getElem hi] at this
          simp at this
          rw [this]
          exact encode_bytes_ge hc128 _ (List.getElem_mem hi)
        rw [scanUntil_skip hterm _ l hbytes]
        have habs : (bumpN inp (encode c).length l).abs = l.abs + (encode c).length :=
          bumpN_abs _ _ hv'.le
        have hpos := encode_length_pos c
        have := ih (inp.size - (bumpN inp (encode c).length l).abs) (by rw [habs]; omega) _ rfl
          (by rw [habs]; exact hv')
        exact ⟨this.1, by have := this.2; rw [habs] at this; omega⟩
    · unfold scanUntil
      simp only [hlt, dite_false]
      exact ⟨hv, Nat.le_refl _⟩

/-- token.rs:439 `take_until` returns (its slice is between boundaries) when the scan starts on
a boundary at or after the boundary `start`. -/
theorem takeUntil_total {inp : Input} {term : Nat → Bool} {start l : Loc}
    (hs : VAt inp start.abs) (hle : start.abs ≤ l.abs)
    (hland : Lands inp l (scanUntil inp term l)) :
    takeUntil inp start term l =
      .ok (scanUntil inp term l, (start.abs, (scanUntil inp term l).abs)) := by
  have h := slice_ok hs hland.1 (by have := hland.2; omega)
  simp only [takeUntil, h]

end GluonModel.Tokenizer
