/-
What the model VM (`Bytecode.doCall` / `callWith` / the `Return` arm of `step`, mirroring
thread.rs `do_call` :2752, `call_function_with_upvars` :2699 and :2527) does for under- and
over-application of a heap closure — exact characterisations. The exact-arity case is
`step_call` / `step_tailCall` in `Proofs/Compile.lean`.
-/
import GluonModel.Proofs.Compile
namespace GluonModel.Proofs.Compile
open GluonModel.Core GluonModel.Bytecode GluonModel.Compile

theorem callee_idx (below args : List Val) (f : Val) :
    (below ++ [f] ++ args)[(below ++ [f] ++ args).length - 1 - args.length]? = some f := by
  have : (below ++ [f] ++ args).length - 1 - args.length = below.length := by simp <;> omega
  rw [this, List.append_assoc, List.getElem?_append_right (Nat.le_refl _)]
  simp

/-- **Partial application** (thread.rs :2712): fewer arguments than the closure takes — function
    and arguments are replaced by a `PartialApplication` object holding them; no frame is
    entered. -/
theorem doCall_partial {frames : List Frame} {h : Heap} {id : Nat} {g : Fn} {gupv : List Val}
    {below args : List Val} (hg : h.clos[id]? = some (g, gupv)) (hlt : args.length < g.args) :
    doCall ⟨below ++ [Val.cref id] ++ args, frames, h⟩ args.length =
      .running ⟨below ++ [.pap (.cref id) args], frames, h⟩ := by
  have hlen : ¬ ((below ++ [Val.cref id] ++ args).length < args.length + 1) := by simp
  have hpop : popN (below ++ [Val.cref id] ++ args) (args.length + 1) = below := by
    rw [List.append_assoc]; exact popN_append _ _ _ (by simp)
  have hlast : lastN (below ++ [Val.cref id] ++ args) args.length = args := lastN_append _ _ _ rfl
  simp only [doCall, hlen, if_false, callee_idx, calleeOf, hg, Option.map_some, callWith,
    Callee.args, hlt, if_true, hpop, hlast]

/-- **Calling a partial application** with the missing arguments (thread.rs :2777): the stored
    arguments are inserted before the new ones, the closure's frame is entered (the function
    slot keeps the `PartialApplication`). -/
theorem doCall_pap_exact {frames : List Frame} {h : Heap} {id : Nat} {g : Fn} {gupv : List Val}
    {below args₀ args : List Val} (hg : h.clos[id]? = some (g, gupv))
    (hn : g.args = args₀.length + args.length) :
    doCall ⟨below ++ [Val.pap (.cref id) args₀] ++ args, frames, h⟩ args.length =
      .running ⟨below ++ [Val.pap (.cref id) args₀] ++ args₀ ++ args,
        ⟨(below ++ [Val.pap (.cref id) args₀]).length, false, id, 0⟩ :: frames, h⟩ := by
  have hlen : ¬ ((below ++ [Val.pap (.cref id) args₀] ++ args).length < args.length + 1) := by simp
  have hins : insertAt (below ++ [Val.pap (.cref id) args₀] ++ args)
      ((below ++ [Val.pap (.cref id) args₀] ++ args).length - args.length) args₀ =
      below ++ [Val.pap (.cref id) args₀] ++ args₀ ++ args := by
    have : (below ++ [Val.pap (.cref id) args₀] ++ args).length - args.length =
        (below ++ [Val.pap (.cref id) args₀]).length := by simp <;> omega
    rw [this]
    unfold insertAt
    rw [List.take_left' rfl, List.drop_left' rfl]
  have hnl : ¬ (args₀.length + args.length < g.args) := by omega
  simp only [doCall, hlen, if_false, callee_idx, calleeOf, hg, Option.map_some, hins, callWith,
    Callee.args, hnl, hn, if_true]
  simp
  omega

/-- **Excess arguments** (thread.rs :2722): more arguments than the closure takes — the surplus
    is packed into a data value stored *below* the function slot, and the closure's frame is
    entered with `excess = true` on exactly its own arguments. -/
theorem doCall_excess {frames : List Frame} {h : Heap} {id : Nat} {g : Fn} {gupv : List Val}
    {below need extra : List Val} (hg : h.clos[id]? = some (g, gupv)) (hn : g.args = need.length)
    (hx : extra ≠ []) :
    doCall ⟨below ++ [Val.cref id] ++ (need ++ extra), frames, h⟩ (need ++ extra).length =
      .running ⟨below ++ [Val.data 0 extra []] ++ [Val.cref id] ++ need,
        ⟨(below ++ [Val.data 0 extra []] ++ [Val.cref id]).length, true, id, 0⟩ :: frames, h⟩ := by
  have hxl : 0 < extra.length := List.length_pos_iff.mpr hx
  have hlen : ¬ ((below ++ [Val.cref id] ++ (need ++ extra)).length < (need ++ extra).length + 1) := by
    simp
  have hnl : ¬ ((need ++ extra).length < g.args) := by simp [hn]
  have hne : ¬ ((need ++ extra).length = g.args) := by simp [hn]; omega
  have hex : (need ++ extra).length - g.args = extra.length := by simp [hn]
  have hlast : lastN (below ++ [Val.cref id] ++ (need ++ extra)) extra.length = extra := by
    have : below ++ [Val.cref id] ++ (need ++ extra) = (below ++ [Val.cref id] ++ need) ++ extra := by simp
    rw [this]; exact lastN_append _ _ _ rfl
  have hpop : popN (below ++ [Val.cref id] ++ (need ++ extra)) extra.length = below ++ [Val.cref id] ++ need := by
    have : below ++ [Val.cref id] ++ (need ++ extra) = (below ++ [Val.cref id] ++ need) ++ extra := by simp
    rw [this]; exact popN_append _ _ _ rfl
  have hins : insertAt (below ++ [Val.cref id] ++ need)
      ((below ++ [Val.cref id] ++ need).length - g.args - 1) [Val.data 0 extra []] =
      below ++ [Val.data 0 extra []] ++ [Val.cref id] ++ need := by
    have : (below ++ [Val.cref id] ++ need).length - g.args - 1 = below.length := by
      simp [hn] <;> omega
    rw [this]
    unfold insertAt
    rw [show below ++ [Val.cref id] ++ need = below ++ ([Val.cref id] ++ need) by simp,
      List.take_left' rfl, List.drop_left' rfl]
    simp
  simp only [doCall, hlen, if_false, callee_idx, calleeOf, hg, Option.map_some, callWith,
    Callee.args, hnl, hne, hex, hlast, hpop, hins]
  simp [hn] <;> omega

/-- **`Return` from a frame entered with excess arguments** (thread.rs :2527-2560): the result
    slides over the frame and the function slot, the packed surplus is unpacked after it and the
    *result is called* with those arguments. -/
theorem step_ret_excess {g : Fn} {gupv : List Val} {h : Heap} {pcR id : Nat}
    {below s extra : List Val} {v : Val} {frames : List Frame}
    (hg : h.clos[id]? = some (g, gupv)) (hret : g.instrs[pcR]? = some .ret) :
    step ⟨below ++ [Val.data 0 extra []] ++ [Val.cref id] ++ (s ++ [v]),
        ⟨(below ++ [Val.data 0 extra []] ++ [Val.cref id]).length, true, id, pcR⟩ :: frames, h⟩ =
      doCall ⟨below ++ [v] ++ extra, frames, h⟩ extra.length := by
  have hd : List.drop (below ++ [Val.data 0 extra []] ++ [Val.cref id]).length
      (below ++ [Val.data 0 extra []] ++ [Val.cref id] ++ (s ++ [v])) = s ++ [v] := by simp
  have hp : popN (below ++ [Val.data 0 extra []] ++ [Val.cref id] ++ (s ++ [v])) ((s ++ [v]).length + 1) =
      below ++ [Val.data 0 extra []] := by
    have : below ++ [Val.data 0 extra []] ++ [Val.cref id] ++ (s ++ [v]) =
        (below ++ [Val.data 0 extra []]) ++ ([Val.cref id] ++ (s ++ [v])) := by simp
    rw [this]
    exact popN_append _ _ _ (by simp)
  have hgl : (below ++ [Val.data 0 extra []] ++ [Val.cref id] ++ (s ++ [v])).getLast? = some v := by
    have : below ++ [Val.data 0 extra []] ++ [Val.cref id] ++ (s ++ [v]) =
        (below ++ [Val.data 0 extra []] ++ [Val.cref id] ++ s) ++ [v] := by simp
    rw [this]; exact getLast?_snoc _ v
  have hlen : ¬ ((below ++ [Val.data 0 extra []] ++ [Val.cref id] ++ (s ++ [v])).length <
      (s ++ [v]).length + 1) := by simp <;> omega
  have hidx : (below ++ [Val.data 0 extra []] ++ [v])[(below ++ [Val.data 0 extra []] ++ [v]).length - 2]? =
      some (Val.data 0 extra []) := by
    have : (below ++ [Val.data 0 extra []] ++ [v]).length - 2 = below.length := by simp
    rw [this, List.append_assoc, List.getElem?_append_right (Nat.le_refl _)]
    simp
  have hp2 : popN (below ++ [Val.data 0 extra []] ++ [v]) 2 = below := by
    rw [List.append_assoc]; exact popN_append _ _ _ rfl
  simp only [step, hg, stepLocal, hd, hret, stepInstr, hlen, if_false, hgl, hp, if_true, hidx, hp2]

/-- the `Call n` instruction hands over to `do_call` with the frame's instruction index advanced -/
theorem step_call_doCall {fn : Fn} {upv : List Val} {h : Heap} {pc n : Nat} {below loc : List Val}
    {fr : Frame} {rest : List Frame} (ho : fr.offset = below.length)
    (hc : h.clos[fr.clos]? = some (fn, upv)) (hi : fn.instrs[pc]? = some (.call n)) :
    step ⟨below ++ loc, ({ fr with pc := pc } : Frame) :: rest, h⟩ =
      doCall ⟨below ++ loc, ({ fr with pc := pc + 1 } : Frame) :: rest, h⟩ n := by
  simp only [step, hc, stepLocal, hi, stepInstr]

/-- `Call n` with fewer arguments than the callee takes: one machine step builds the
    `PartialApplication` in place of function and arguments -/
theorem step_call_partial {fn g : Fn} {upv gupv : List Val} {h : Heap} {pc id : Nat}
    {below stk args : List Val} {fr : Frame} {rest : List Frame} (ho : fr.offset = below.length)
    (hc : h.clos[fr.clos]? = some (fn, upv)) (hi : fn.instrs[pc]? = some (.call args.length))
    (hg : h.clos[id]? = some (g, gupv)) (hlt : args.length < g.args) :
    step ⟨below ++ (stk ++ [Val.cref id] ++ args), ({ fr with pc := pc } : Frame) :: rest, h⟩ =
      .running ⟨below ++ stk ++ [Val.pap (.cref id) args], ({ fr with pc := pc + 1 } : Frame) :: rest, h⟩ := by
  rw [step_call_doCall ho hc hi]
  have := doCall_partial (frames := ({ fr with pc := pc + 1 } : Frame) :: rest) (below := below ++ stk)
    (args := args) hg hlt
  simpa [List.append_assoc] using this

/-- `Call n` with more arguments than the callee takes: one machine step packs the surplus
    below the function slot and enters the callee with `excess = true` -/
theorem step_call_excess {fn g : Fn} {upv gupv : List Val} {h : Heap} {pc id : Nat}
    {below stk need extra : List Val} {fr : Frame} {rest : List Frame} (ho : fr.offset = below.length)
    (hc : h.clos[fr.clos]? = some (fn, upv))
    (hi : fn.instrs[pc]? = some (.call (need ++ extra).length))
    (hg : h.clos[id]? = some (g, gupv)) (hn : g.args = need.length) (hx : extra ≠ []) :
    step ⟨below ++ (stk ++ [Val.cref id] ++ (need ++ extra)), ({ fr with pc := pc } : Frame) :: rest, h⟩ =
      .running ⟨below ++ stk ++ [Val.data 0 extra []] ++ [Val.cref id] ++ need,
        ⟨(below ++ stk ++ [Val.data 0 extra []] ++ [Val.cref id]).length, true, id, 0⟩ ::
          ({ fr with pc := pc + 1 } : Frame) :: rest, h⟩ := by
  rw [step_call_doCall ho hc hi]
  have := doCall_excess (frames := ({ fr with pc := pc + 1 } : Frame) :: rest) (below := below ++ stk)
    (need := need) (extra := extra) hg hn hx
  simpa [List.append_assoc] using this

end GluonModel.Proofs.Compile
