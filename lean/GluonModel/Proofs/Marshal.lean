import GluonModel.Marshal
namespace GluonModel.Marshal.Proofs
open GluonModel.Marshal

/-! ### integer casts -/

theorem int_roundtrip (t : IntTy) (n : Int) (h : inRange t n = true) : castTo t (toI64 n) = n := by
  cases t <;> simp [inRange] at h <;> simp only [castTo, toI64] <;> omega

theorem toI64_range (n : Int) : -9223372036854775808 ≤ toI64 n ∧ toI64 n ≤ 9223372036854775807 := by
  simp only [toI64]; omega

theorem toI64_id (n : Int) (h : -9223372036854775808 ≤ n ∧ n ≤ 9223372036854775807) : toI64 n = n := by
  simp only [toI64]; omega

theorem char_roundtrip (c : Nat) (h : validChar c = true) : charOfInt (c : Int) = some c := by
  simp [validChar] at h
  have h1 : ((c : Int) % 4294967296).toNat = c := by omega
  simp only [charOfInt, h1]
  simp [h]

/-! ### `f32 as f64 as f32` on normal numbers -/

theorem rne29 (sig : Nat) (h : sig % 536870912 = 0) : rne sig 29 = sig / 536870912 := by
  simp [rne, h]

set_option maxRecDepth 8000 in
theorem f32_roundtrip_normal (b : Nat) (hb : b < 4294967296)
    (he : 1 ≤ b / 8388608 % 256 ∧ b / 8388608 % 256 ≤ 254) : f64to32 (f32to64 b) = b := by
  have e1 : f32to64 b = (b / 2147483648 % 2) * 9223372036854775808 + (b / 8388608 % 256 + 896) * 4503599627370496 + (b % 8388608) * 536870912 := by
    simp only [f32to64]
    split
    · omega
    · split
      · omega
      · rfl
  rw [e1]
  generalize hs : b / 2147483648 % 2 = s
  generalize hee : b / 8388608 % 256 = e at *
  generalize hm : b % 8388608 = m
  have hs2 : s < 2 := by omega
  have hm2 : m < 8388608 := by omega
  have hbb : b = s * 2147483648 + e * 8388608 + m := by omega
  simp only [f64to32]
  have x1 : (s * 9223372036854775808 + (e + 896) * 4503599627370496 + m * 536870912) / 9223372036854775808 % 2 = s := by omega
  have x2 : (s * 9223372036854775808 + (e + 896) * 4503599627370496 + m * 536870912) / 4503599627370496 % 2048 = e + 896 := by omega
  have x3 : (s * 9223372036854775808 + (e + 896) * 4503599627370496 + m * 536870912) % 4503599627370496 = m * 536870912 := by omega
  rw [x1, x2, x3]
  have r1 : rne (m * 536870912 + 4503599627370496) 29 = m + 8388608 := by
    have e4 : (4503599627370496 : Nat) = 8388608 * 536870912 := by simp
    have hmod : (m * 536870912 + 4503599627370496) % 536870912 = 0 := by
      rw [e4, ← Nat.add_mul]; exact Nat.mul_mod_left _ _
    rw [rne29 _ hmod, e4, ← Nat.add_mul]
    exact Nat.mul_div_cancel _ (by simp)
  rw [r1]
  split
  · omega
  · split
    · omega
    · split
      · split <;> omega
      · omega

/-! ### subnormals, zeros, infinities -/

theorem log2Fuel_spec : ∀ (fuel n : Nat), 0 < n → n < 2 ^ fuel →
    2 ^ (log2Fuel fuel n) ≤ n ∧ n < 2 ^ (log2Fuel fuel n + 1)
  | 0, n, h0, h => by simp at h; omega
  | fuel + 1, n, h0, h => by
    simp only [log2Fuel]
    split
    · simp; omega
    · have h1 : 0 < n / 2 := by omega
      have h2 : n / 2 < 2 ^ fuel := by
        have : 2 ^ (fuel + 1) = 2 * 2 ^ fuel := by rw [Nat.pow_succ]; omega
        omega
      have ih := log2Fuel_spec fuel (n / 2) h1 h2
      have e1 : 2 ^ (log2Fuel fuel (n / 2) + 1) = 2 * 2 ^ (log2Fuel fuel (n / 2)) := by
        rw [Nat.pow_succ]; omega
      have e2 : 2 ^ (log2Fuel fuel (n / 2) + 1 + 1) = 2 * 2 ^ (log2Fuel fuel (n / 2) + 1) := by
        rw [Nat.pow_succ]; omega
      omega

theorem rne_exact (m P : Nat) (sh : Nat) (hP : P = 2 ^ sh) (hsh : 2 ≤ P) : rne (m * P) sh = m := by
  have hpos : 0 < P := by omega
  have hsh0 : sh ≠ 0 := by
    intro h; subst h; simp at hP; omega
  have q : m * P / P = m := Nat.mul_div_cancel m hpos
  have r : m * P % P = 0 := Nat.mul_mod_left m P
  simp only [rne, ← hP, q, r, hsh0, if_false]
  have : ¬ (0 > P / 2 ∨ (0 = P / 2 ∧ m % 2 = 1)) := by omega
  rw [if_neg this]

set_option maxRecDepth 8000 in
theorem f32_roundtrip_subnormal (b : Nat) (hb : b < 4294967296)
    (he : b / 8388608 % 256 = 0) (hm : b % 8388608 ≠ 0) : f64to32 (f32to64 b) = b := by
  generalize hs : b / 2147483648 % 2 = s
  generalize hmm : b % 8388608 = m at *
  have hs2 : s < 2 := by omega
  have hm2 : m < 8388608 := by omega
  have hbb : b = s * 2147483648 + m := by omega
  have hspec := log2Fuel_spec 32 m (by omega) (by omega)
  generalize hk : log2Fuel 32 m = k at *
  have hk22 : k ≤ 22 := by
    by_cases h : k ≤ 22
    · exact h
    · have : 2 ^ 23 ≤ 2 ^ k := Nat.pow_le_pow_right (by omega) (by omega)
      simp at this; omega
  generalize hP : 2 ^ (52 - k) = P at *
  have hkP : 2 ^ k * P = 4503599627370496 := by
    rw [← hP, ← Nat.pow_add]
    have : k + (52 - k) = 52 := by omega
    rw [this]
  have hP30 : 1073741824 ≤ P := by
    rw [← hP]
    have : 2 ^ 30 ≤ 2 ^ (52 - k) := Nat.pow_le_pow_right (by omega) (by omega)
    simpa using this
  have hPpos : 0 < P := by omega
  have hx1 : 4503599627370496 ≤ m * P := by
    rw [← hkP]; exact Nat.mul_le_mul_right P hspec.1
  have hx2 : m * P < 9007199254740992 := by
    have e : 2 ^ (k + 1) * P = 9007199254740992 := by
      rw [Nat.pow_succ, Nat.mul_right_comm, hkP]
    rw [← e]; exact Nat.mul_lt_mul_of_pos_right hspec.2 hPpos
  have e1 : f32to64 b = s * 9223372036854775808 + (k + 874) * 4503599627370496 + (m * P - 4503599627370496) := by
    simp only [f32to64, hs, he, hmm, hk, hP]
    simp [hm]
  rw [e1]
  generalize hx : m * P = x at *
  simp only [f64to32]
  have x1 : (s * 9223372036854775808 + (k + 874) * 4503599627370496 + (x - 4503599627370496)) / 9223372036854775808 % 2 = s := by omega
  have x2 : (s * 9223372036854775808 + (k + 874) * 4503599627370496 + (x - 4503599627370496)) / 4503599627370496 % 2048 = k + 874 := by omega
  have x3 : (s * 9223372036854775808 + (k + 874) * 4503599627370496 + (x - 4503599627370496)) % 4503599627370496 = x - 4503599627370496 := by omega
  rw [x1, x2, x3]
  have hsig : x - 4503599627370496 + 4503599627370496 = x := by omega
  have hsh : 29 + (897 - (k + 874)) = 52 - k := by omega
  rw [hsig, hsh]
  have hr : rne x (52 - k) = m := by
    rw [← hx]; exact rne_exact m P (52 - k) hP.symm (by omega)
  rw [hr]
  have c1 : ¬ (k + 874 = 2047) := by omega
  have c2 : ¬ (k + 874 = 0) := by omega
  have c3 : ¬ (k + 874 ≥ 897) := by omega
  have c4 : ¬ (52 - k > 60) := by omega
  simp only [c1, c2, c3, c4, if_false]
  omega

set_option maxRecDepth 8000 in
theorem f32_roundtrip_special (b : Nat) (hb : b < 4294967296)
    (h : (b / 8388608 % 256 = 255 ∧ b % 8388608 = 0) ∨
         (b / 8388608 % 256 = 0 ∧ b % 8388608 = 0)) : f64to32 (f32to64 b) = b := by
  generalize hs : b / 2147483648 % 2 = s
  generalize hee : b / 8388608 % 256 = e at *
  generalize hmm : b % 8388608 = m at *
  have hs2 : s < 2 := by omega
  have hbb : b = s * 2147483648 + e * 8388608 + m := by omega
  rcases h with ⟨he, hm⟩ | ⟨he, hm⟩
  · subst he; subst hm
    have e1 : f32to64 b = s * 9223372036854775808 + 9218868437227405312 := by
      simp [f32to64, hs, hee, hmm]
    rw [e1]; simp only [f64to32]
    have x1 : (s * 9223372036854775808 + 9218868437227405312) / 9223372036854775808 % 2 = s := by omega
    have x2 : (s * 9223372036854775808 + 9218868437227405312) / 4503599627370496 % 2048 = 2047 := by omega
    have x3 : (s * 9223372036854775808 + 9218868437227405312) % 4503599627370496 = 0 := by omega
    rw [x1, x2, x3]; simp; omega
  · subst he; subst hm
    have e1 : f32to64 b = s * 9223372036854775808 := by
      simp [f32to64, hs, hee, hmm]
    rw [e1]; simp only [f64to32]
    have x1 : (s * 9223372036854775808) / 9223372036854775808 % 2 = s := by omega
    have x2 : (s * 9223372036854775808) / 4503599627370496 % 2048 = 0 := by omega
    rw [x1, x2]; simp; omega

/-- every f32 that is not a NaN survives `as f64` / `as f32` bit for bit -/
theorem f32_roundtrip_nonnan (b : Nat) (hb : b < 4294967296) (hn : isNaN32 b = false) :
    f64to32 (f32to64 b) = b := by
  simp [isNaN32] at hn
  by_cases h255 : b / 8388608 % 256 = 255
  · exact f32_roundtrip_special b hb (Or.inl ⟨h255, hn h255⟩)
  · by_cases h0 : b / 8388608 % 256 = 0
    · by_cases hm : b % 8388608 = 0
      · exact f32_roundtrip_special b hb (Or.inr ⟨h0, hm⟩)
      · exact f32_roundtrip_subnormal b hb h0 hm
    · exact f32_roundtrip_normal b hb (by omega)

/-! ### list helpers -/

theorem pushL_length : ∀ vs, (pushL vs).length = vs.length
  | [] => by simp [pushL]
  | v :: vs => by simp [pushL, pushL_length vs]

theorem mkArray_shape (xs : List GV) : ∃ r, mkArray xs = .array r xs := by
  cases xs with
  | nil => exact ⟨_, rfl⟩
  | cons x xs => exact ⟨_, rfl⟩

theorem mapMOpt_pushL (f : GV → Option Val) :
    ∀ vs : List Val, (∀ v ∈ vs, f (push v) = some v) → mapMOpt f (pushL vs) = some vs
  | [], _ => by simp [pushL, mapMOpt]
  | v :: vs, h => by
    have h1 := h v (by simp)
    have h2 := mapMOpt_pushL f vs (fun w hw => h w (by simp [hw]))
    simp [pushL, mapMOpt, h1, h2]


theorem getElem_pre (pre : List GV) (x : GV) (rest : List GV) :
    (pre ++ x :: rest)[pre.length]? = some x := by
  simp

end GluonModel.Marshal.Proofs
