import GluonModel.Marshal
namespace GluonModel.Marshal.Proofs
open GluonModel.Marshal

/-! ### integer casts -/

theorem int_roundtrip (t : IntTy) (n : Int) (h : inRange t n = true) : castTo t (toI64 n) = n := by
  cases t <;> simp [inRange] at h <;> simp only [castTo, toI64] <;> omega

theorem toI64_range (n : Int) : -9223372036854775808 ≤ toI64 n ∧ toI64 n ≤ 9223372036854775807 := by
  simp only [toI64]; omega

theorem toI64_id (n : Int) (h : -9223372036854775808 ≤ n ∧ n ≤ 9223372036854775807) : toI64 n = n := by
  simp only [toI64]; omega

theorem char_roundtrip (c : Nat) (h : validChar c = true) : charOfInt (c : Int) = some c := by
  simp [validChar] at h
  have h1 : ((c : Int) % 4294967296).toNat = c := by omega
  simp only [charOfInt, h1]
  simp [h]

/-! ### `f32 as f64 as f32` on normal numbers -/

theorem rne29 (sig : Nat) (h : sig % 536870912 = 0) : rne sig 29 = sig / 536870912 := by
  simp [rne, h]

set_option maxRecDepth 8000 in
theorem f32_roundtrip_normal (b : Nat) (hb : b < 4294967296)
    (he : 1 ≤ b / 8388608 % 256 ∧ b / 8388608 % 256 ≤ 254) : f64to32 (f32to64 b) = b := by
  have e1 : f32to64 b = (b / 2147483648 % 2) * 9223372036854775808 + (b / 8388608 % 256 + 896) * 4503599627370496 + (b % 8388608) * 536870912 := by
    simp only [f32to64]
    split
    · omega
    · split
      · omega
      · rfl
  rw [e1]
  generalize hs : b / 2147483648 % 2 = s
  generalize hee : b / 8388608 % 256 = e at *
  generalize hm : b % 8388608 = m
  have hs2 : s < 2 := by omega
  have hm2 : m < 8388608 := by omega
  have hbb : b = s * 2147483648 + e * 8388608 + m := by omega
  simp only [f64to32]
  have x1 : (s * 9223372036854775808 + (e + 896) * 4503599627370496 + m * 536870912) / 9223372036854775808 % 2 = s := by omega
  have x2 : (s * 9223372036854775808 + (e + 896) * 4503599627370496 + m * 536870912) / 4503599627370496 % 2048 = e + 896 := by omega
  have x3 : (s * 9223372036854775808 + (e + 896) * 4503599627370496 + m * 536870912) % 4503599627370496 = m * 536870912 := by omega
  rw [x1, x2, x3]
  have r1 : rne (m * 536870912 + 4503599627370496) 29 = m + 8388608 := by
    have e4 : (4503599627370496 : Nat) = 8388608 * 536870912 := by simp
    have hmod : (m * 536870912 + 4503599627370496) % 536870912 = 0 := by
      rw [e4, ← Nat.add_mul]; exact Nat.mul_mod_left _ _
    rw [rne29 _ hmod, e4, ← Nat.add_mul]
    exact Nat.mul_div_cancel _ (by simp)
  rw [r1]
  split
  · omega
  · split
    · omega
    · split
      · split <;> omega
      · omega

/-! ### list helpers -/

theorem pushL_length : ∀ vs, (pushL vs).length = vs.length
  | [] => by simp [pushL]
  | v :: vs => by simp [pushL, pushL_length vs]

theorem mkArray_shape (xs : List GV) : ∃ r, mkArray xs = .array r xs := by
  cases xs with
  | nil => exact ⟨_, rfl⟩
  | cons x xs => exact ⟨_, rfl⟩

theorem mapMOpt_pushL (f : GV → Option Val) :
    ∀ vs : List Val, (∀ v ∈ vs, f (push v) = some v) → mapMOpt f (pushL vs) = some vs
  | [], _ => by simp [pushL, mapMOpt]
  | v :: vs, h => by
    have h1 := h v (by simp)
    have h2 := mapMOpt_pushL f vs (fun w hw => h w (by simp [hw]))
    simp [pushL, mapMOpt, h1, h2]


theorem getElem_pre (pre : List GV) (x : GV) (rest : List GV) :
    (pre ++ x :: rest)[pre.length]? = some x := by
  simp

end GluonModel.Marshal.Proofs
