import GluonModel.Marshal
namespace GluonModel.Marshal.Proofs
open GluonModel.Marshal

/-! ### integer casts -/

theorem int_roundtrip (t : IntTy) (n : Int) (h : inRange t n = true) : castTo t (toI64 n) = n := by
  cases t <;> simp [inRange] at h <;> simp only [castTo, toI64] <;> omega

theorem toI64_range (n : Int) : -9223372036854775808 ≤ toI64 n ∧ toI64 n ≤ 9223372036854775807 := by
  simp only [toI64]; omega

theorem toI64_id (n : Int) (h : -9223372036854775808 ≤ n ∧ n ≤ 9223372036854775807) : toI64 n = n := by
  simp only [toI64]; omega

theorem char_roundtrip (c : Nat) (h : validChar c = true) : charOfInt (c : Int) = some c := by
  simp [validChar] at h
  have h1 : ((c : Int) % 4294967296).toNat = c := by omega
  simp only [charOfInt, h1]
  simp [h]

/-! ### `f32 as f64 as f32` on normal numbers -/

theorem rne29 (sig : Nat) (h : sig % 536870912 = 0) : rne sig 29 = sig / 536870912 := by
  simp [rne, h]

set_option maxRecDepth 8000 in
theorem f32_roundtrip_normal (b : Nat) (hb : b < 4294967296)
    (he : 1 ≤ b / 8388608 % 256 ∧ b / 8388608 % 256 ≤ 254) : f64to32 (f32to64 b) = b := by
  have e1 : f32to64 b = (b / 2147483648 % 2) * 9223372036854775808 + (b / 8388608 % 256 + 896) * 4503599627370496 + (b % 8388608) * 536870912 := by
    simp only [f32to64]
    split
    · omega
    · split
      · omega
      · rfl
  rw [e1]
  generalize hs : b / 2147483648 % 2 = s
  generalize hee : b / 8388608 % 256 = e at *
  generalize hm : b % 8388608 = m
  have hs2 : s < 2 := by omega
  have hm2 : m < 8388608 := by omega
  have hbb : b = s * 2147483648 + e * 8388608 + m := by omega
  simp only [f64to32]
  have x1 : (s * 9223372036854775808 + (e + 896) * 4503599627370496 + m * 536870912) / 9223372036854775808 % 2 = s := by omega
  have x2 : (s * 9223372036854775808 + (e + 896) * 4503599627370496 + m * 536870912) / 4503599627370496 % 2048 = e + 896 := by omega
  have x3 : (s * 9223372036854775808 + (e + 896) * 4503599627370496 + m * 536870912) % 4503599627370496 = m * 536870912 := by omega
  rw [x1, x2, x3]
  have r1 : rne (m * 536870912 + 4503599627370496) 29 = m + 8388608 := by
    have e4 : (4503599627370496 : Nat) = 8388608 * 536870912 := by simp
    have hmod : (m * 536870912 + 4503599627370496) % 536870912 = 0 := by
      rw [e4, ← Nat.add_mul]; exact Nat.mul_mod_left _ _
    rw [rne29 _ hmod, e4, ← Nat.add_mul]
    exact Nat.mul_div_cancel _ (by simp)
  rw [r1]
  split
  · omega
  · split
    · omega
    · split
      · split <;> omega
      · omega

/-! ### well-typed values of the fragment without named fields and maps -/

mutual
def WTp : TCode → Val → Bool
  | .unit, .unit => true
  | .u8, .u8 _ => true
  | .int t, .int t' n => decide (t = t') && inRange t n
  | .f32, .f32 b => f64to32 (f32to64 b) == b
  | .f64, .f64 _ => true
  | .bool, .bool _ => true
  | .char, .char c => validChar c
  | .string, .str _ => true
  | .ordering, .ord o => decide (o ≤ 2)
  | .option _, .none => true
  | .option t, .some v => WTp t v
  | .result t _, .ok v => WTp t v
  | .result _ e, .err v => WTp e v
  | .vec t, .vec vs => vs.all (fun v => WTp t v)
  | .tuple ts, .tuple vs => WTps ts vs
  | .newtype t, .newtype v => WTp t v
  | .tstruct ts, .tstruct vs => WTps ts vs
  | .ustruct, .ustruct => true
  | .enum _ vars, .var i p => WTpv vars i p
  | _, _ => false
def WTps : List TCode → List Val → Bool
  | [], [] => true
  | t :: ts, v :: vs => WTp t v && WTps ts vs
  | _, _ => false
def WTpv : List TCode → Nat → Val → Bool
  | .vunit :: _, 0, .vunit => true
  | .vtuple ts :: _, 0, .vtuple vs => WTps ts vs
  | _ :: vars, n + 1, p => WTpv vars n p
  | _, _, _ => false
end

theorem pushL_length : ∀ vs, (pushL vs).length = vs.length
  | [] => by simp [pushL]
  | v :: vs => by simp [pushL, pushL_length vs]

theorem WTps_length : ∀ ts vs, WTps ts vs = true → vs.length = ts.length
  | [], [], _ => rfl
  | t :: ts, v :: vs, h => by
    simp [WTps] at h
    simp [WTps_length ts vs h.2]
  | [], _ :: _, h => by simp [WTps] at h
  | _ :: _, [], h => by simp [WTps] at h

theorem mkArray_shape (xs : List GV) : ∃ r, mkArray xs = .array r xs := by
  cases xs with
  | nil => exact ⟨_, rfl⟩
  | cons x xs => exact ⟨_, rfl⟩

theorem mapMOpt_pushL (f : GV → Option Val) :
    ∀ vs : List Val, (∀ v ∈ vs, f (push v) = some v) → mapMOpt f (pushL vs) = some vs
  | [], _ => by simp [pushL, mapMOpt]
  | v :: vs, h => by
    have h1 := h v (by simp)
    have h2 := mapMOpt_pushL f vs (fun w hw => h w (by simp [hw]))
    simp [pushL, mapMOpt, h1, h2]


theorem WTpv_payload : ∀ (vars : List TCode) (i : Nat) (p : Val), WTpv vars i p = true →
    p = .vunit ∨ ∃ vs, p = .vtuple vs
  | [], i, p, h => by simp [WTpv] at h
  | c :: vars, 0, p, h => by
    cases c <;> cases p <;> simp [WTpv] at h <;> simp
  | c :: vars, i + 1, p, h => by
    have h' : WTpv vars i p = true := by
      cases c <;> cases p <;> simp_all [WTpv]
    exact WTpv_payload vars i p h'

theorem getElem_pre (pre : List GV) (x : GV) (rest : List GV) :
    (pre ++ x :: rest)[pre.length]? = some x := by
  simp

mutual
theorem get_push : ∀ (c : TCode) (v : Val), WTp c v = true → get c (push v) = some v
  | .unit, v, h => by cases v <;> simp [WTp] at h; simp [push, get]
  | .u8, v, h => by cases v <;> simp [WTp] at h; simp [push, get]
  | .int t, v, h => by
    cases v <;> simp [WTp] at h
    obtain ⟨rfl, h2⟩ := h
    simp [push, get, int_roundtrip _ _ h2]
  | .f32, v, h => by
    cases v <;> simp [WTp] at h
    simp [push, get, h]
  | .f64, v, h => by cases v <;> simp [WTp] at h; simp [push, get]
  | .bool, v, h => by
    cases v <;> simp [WTp] at h
    rename_i b
    cases b <;> simp [push, get, tagOf]
  | .char, v, h => by
    cases v <;> simp [WTp] at h
    simp [push, get, char_roundtrip _ h]
  | .string, v, h => by cases v <;> simp [WTp] at h; simp [push, get]
  | .ordering, v, h => by
    cases v <;> simp [WTp] at h
    simp [push, get, tagOf, h]
  | .option t, v, h => by
    cases v <;> simp [WTp] at h
    · simp [push, get, tagOf]
    · simp [push, get, tagOf, fieldsOf, get_push t _ h]
  | .result t e, v, h => by
    cases v <;> simp [WTp] at h
    · simp [push, get, tagOf, fieldsOf, get_push t _ h]
    · simp [push, get, tagOf, fieldsOf, get_push e _ h]
  | .vec t, v, h => by
    cases v <;> simp [WTp] at h
    rename_i vs
    obtain ⟨r, hr⟩ := mkArray_shape (pushL vs)
    have hm := mapMOpt_pushL (fun x => get t x) vs (fun w hw => get_push t w (h w hw))
    simp [push, hr, get, hm]
  | .tuple ts, v, h => by
    cases v <;> simp [WTp] at h
    rename_i vs
    have hl := WTps_length ts vs h
    have hg := getTs_push ts vs [] h
    simp at hg
    simp [push, get, tagOf, fieldsOf, pushL_length, hl, hg]
  | .newtype t, v, h => by
    cases v <;> simp [WTp] at h
    simp [push, get, get_push t _ h]
  | .tstruct ts, v, h => by
    cases v <;> simp [WTp] at h
    rename_i vs
    have hg := getTs_push ts vs [] h
    simp at hg
    simp [push, get, tagOf, fieldsOf, hg]
  | .ustruct, v, h => by cases v <;> simp [WTp] at h; simp [push, get]
  | .enum n vars, v, h => by
    cases v <;> simp [WTp] at h
    rename_i i p
    have hv := getVariant_push vars i p h i
    rcases WTpv_payload vars i p h with rfl | ⟨vs, rfl⟩
    · have ht : tagOf (push (.var i .vunit)) = some i := by simp [push, tagOf]
      simp only [get, ht, hv]
    · have ht : tagOf (push (.var i (.vtuple vs))) = some i := by simp [push, tagOf]
      simp only [get, ht, hv]
  | .map _, v, h => by cases v <;> simp [WTp] at h
  | .struct _, v, h => by cases v <;> simp [WTp] at h
  | .vunit, v, h => by cases v <;> simp [WTp] at h
  | .vtuple _, v, h => by cases v <;> simp [WTp] at h
  | .vstruct _, v, h => by cases v <;> simp [WTp] at h
theorem getTs_push : ∀ (ts : List TCode) (vs : List Val) (pre : List GV), WTps ts vs = true →
    getTs ts (pre ++ pushL vs) pre.length = some vs
  | [], [], pre, _ => by simp [pushL, getTs]
  | t :: ts, v :: vs, pre, h => by
    simp [WTps] at h
    have h1 := get_push t v h.1
    have h2 := getTs_push ts vs (pre ++ [push v]) h.2
    simp at h2
    simp [pushL, getTs, h1, h2]
  | [], _ :: _, _, h => by simp [WTps] at h
  | _ :: _, [], _, h => by simp [WTps] at h
theorem getVariant_push : ∀ (vars : List TCode) (i : Nat) (p : Val), WTpv vars i p = true →
    ∀ j, getVariant vars i (push (.var j p)) = some p
  | [], i, p, h => by simp [WTpv] at h
  | c :: vars, 0, p, h => by
    intro j
    cases c <;> cases p <;> simp [WTpv] at h
    · simp [push, getVariant]
    · rename_i ts vs
      have hg := getTs_push ts vs [] h
      simp at hg
      simp [push, getVariant, fieldsOf, hg]
  | c :: vars, i + 1, p, h => by
    intro j
    have h' : WTpv vars i p = true := by
      cases c <;> cases p <;> simp_all [WTpv]
    simpa [getVariant] using getVariant_push vars i p h' j
end

end GluonModel.Marshal.Proofs
