/-
Lemmas for C03 (model: GluonModel.HM).
-/
import GluonModel.HM

namespace GluonModel.HM.Proofs
open GluonModel.HM

theorem subst_comp (σ₂ σ₁ : Subst) (t : Ty) :
    t.subst (σ₂.comp σ₁) = (t.subst σ₁).subst σ₂ := by
  induction t with
  | var n => rfl
  | con c => rfl
  | app f a ihf iha => simp [Ty.subst, ihf, iha]
  | ext l t r iht ihr => simp [Ty.subst, iht, ihr]
  | empty => rfl

theorem subst_id (t : Ty) : t.subst Subst.id = t := by
  induction t with
  | var n => rfl
  | con c => rfl
  | app f a ihf iha => simp [Ty.subst, ihf, iha]
  | ext l t r iht ihr => simp [Ty.subst, iht, ihr]
  | empty => rfl

theorem subst_congr (σ τ : Subst) (t : Ty) (h : ∀ v, σ v = τ v) : t.subst σ = t.subst τ := by
  induction t with
  | var n => exact h n
  | con c => rfl
  | app f a ihf iha => simp [Ty.subst, ihf, iha]
  | ext l t r iht ihr => simp [Ty.subst, iht, ihr]
  | empty => rfl

theorem subst_single_of_not_occurs (a : Nat) (u t : Ty) (h : t.occurs a = false) :
    t.subst (Subst.single a u) = t := by
  induction t with
  | var n =>
    simp [Ty.occurs] at h
    simp [Ty.subst, Subst.single, h]
  | con c => rfl
  | app f x ihf ihx =>
    simp [Ty.occurs] at h
    simp [Ty.subst, ihf h.1, ihx h.2]
  | ext l t r iht ihr =>
    simp [Ty.occurs] at h
    simp [Ty.subst, iht h.1, ihr h.2]
  | empty => rfl

/-- `bindVar` returns a unifier. -/
theorem bindVar_sound (a : Nat) (t : Ty) (n n' : Nat) (σ : Subst)
    (h : bindVar a t n = .ok (σ, n')) : σ a = t.subst σ := by
  unfold bindVar at h
  split at h
  · next ht =>
    injection h with h; injection h with h₁ _
    subst h₁; subst ht; rfl
  · split at h
    · cases h
    · next hocc =>
      injection h with h; injection h with h₁ _
      subst h₁
      have hocc' : t.occurs a = false := by simpa using hocc
      rw [subst_single_of_not_occurs a t t hocc']
      simp [Subst.single]

/-- Any unifier `θ` of `var a` and `t` absorbs the substitution returned by `bindVar`. -/
theorem bindVar_mgu (a : Nat) (t : Ty) (n n' : Nat) (σ θ : Subst)
    (h : bindVar a t n = .ok (σ, n')) (hθ : θ a = t.subst θ) :
    ∀ v, (σ v).subst θ = θ v := by
  unfold bindVar at h
  split at h
  · injection h with h; injection h with h₁ _
    subst h₁; intro v; rfl
  · split at h
    · cases h
    · injection h with h; injection h with h₁ _
      subst h₁
      intro v
      by_cases hv : v = a
      · subst hv; simp [Subst.single, hθ]
      · simp [Subst.single, hv, Ty.subst]

/-- Soundness of unification (syntactic rows): the returned substitution unifies. -/
theorem unify_sound : ∀ (fuel n : Nat) (s t : Ty) (σ : Subst) (n' : Nat),
    unify false fuel n s t = .ok (σ, n') → s.subst σ = t.subst σ := by
  intro fuel
  induction fuel with
  | zero => intro n s t σ n' h; simp [unify] at h
  | succ fuel ih =>
    intro n s t σ n' h
    cases s with
    | var a =>
      simp only [unify] at h
      exact bindVar_sound a t n n' σ h
    | con c =>
      cases t with
      | var b => simp only [unify] at h; exact (bindVar_sound b _ n n' σ h).symm
      | con d =>
        simp only [unify] at h
        split at h
        · next hcd => subst hcd; rfl
        · cases h
      | app _ _ => simp [unify] at h
      | ext _ _ _ => simp [unify] at h
      | empty => simp [unify] at h
    | empty =>
      cases t with
      | var b => simp only [unify] at h; exact (bindVar_sound b _ n n' σ h).symm
      | empty => rfl
      | con _ => simp [unify] at h
      | app _ _ => simp [unify] at h
      | ext _ _ _ => simp [unify] at h
    | app f a =>
      cases t with
      | var b => simp only [unify] at h; exact (bindVar_sound b _ n n' σ h).symm
      | app g b =>
        simp only [unify] at h
        split at h
        · cases h
        · next σ₁ n₁ h₁ =>
          split at h
          · cases h
          · next σ₂ n₂ h₂ =>
            injection h with h; injection h with hσ _
            subst hσ
            have e₁ := ih n f g σ₁ n₁ h₁
            have e₂ := ih n₁ _ _ σ₂ n₂ h₂
            simp only [Ty.subst, subst_comp, e₁, e₂]
      | con _ => simp [unify] at h
      | ext _ _ _ => simp [unify] at h
      | empty => simp [unify] at h
    | ext l a r =>
      cases t with
      | var b => simp only [unify] at h; exact (bindVar_sound b _ n n' σ h).symm
      | ext l' a' r' =>
        simp only [unify, Bool.false_and, Bool.false_eq_true, ↓reduceIte] at h
        split at h
        · next hl =>
          subst hl
          split at h
          · cases h
          · next σ₁ n₁ h₁ =>
            split at h
            · cases h
            · next σ₂ n₂ h₂ =>
              injection h with h; injection h with hσ _
              subst hσ
              have e₁ := ih n a a' σ₁ n₁ h₁
              have e₂ := ih n₁ _ _ σ₂ n₂ h₂
              simp only [Ty.subst, subst_comp, e₁, e₂]
        · cases h
      | con _ => simp [unify] at h
      | app _ _ => simp [unify] at h
      | empty => simp [unify] at h

/-- Most-generality: every unifier `θ` of `s` and `t` factors through the result `σ`
    (indeed `θ = θ ∘ σ`). -/
theorem unify_mgu : ∀ (fuel n : Nat) (s t : Ty) (σ θ : Subst) (n' : Nat),
    unify false fuel n s t = .ok (σ, n') → s.subst θ = t.subst θ →
    ∀ v, (σ v).subst θ = θ v := by
  intro fuel
  induction fuel with
  | zero => intro n s t σ θ n' h; simp [unify] at h
  | succ fuel ih =>
    intro n s t σ θ n' h hθ
    have key : ∀ (f g a b : Ty) (σ₁ σ₂ : Subst) (n₁ n₂ : Nat),
        unify false fuel n f g = .ok (σ₁, n₁) →
        unify false fuel n₁ (a.subst σ₁) (b.subst σ₁) = .ok (σ₂, n₂) →
        f.subst θ = g.subst θ → a.subst θ = b.subst θ →
        ∀ v, ((σ₂.comp σ₁) v).subst θ = θ v := by
      intro f g a b σ₁ σ₂ n₁ n₂ h₁ h₂ hf ha v
      have m₁ := ih n f g σ₁ θ n₁ h₁ hf
      have abs : ∀ u : Ty, (u.subst σ₁).subst θ = u.subst θ := by
        intro u
        rw [← subst_comp]
        exact subst_congr _ _ u m₁
      have m₂ := ih n₁ _ _ σ₂ θ n₂ h₂ (by rw [abs a, abs b, ha])
      show (((σ₁ v).subst σ₂)).subst θ = θ v
      rw [← subst_comp, subst_congr (θ.comp σ₂) θ (σ₁ v) m₂]
      exact m₁ v
    cases s with
    | var a =>
      simp only [unify] at h
      exact bindVar_mgu a t n n' σ θ h hθ
    | con c =>
      cases t with
      | var b => simp only [unify] at h; exact bindVar_mgu b _ n n' σ θ h hθ.symm
      | con d =>
        simp only [unify] at h
        split at h
        · injection h with h; injection h with hσ _; subst hσ; intro v; rfl
        · cases h
      | app _ _ => simp [unify] at h
      | ext _ _ _ => simp [unify] at h
      | empty => simp [unify] at h
    | empty =>
      cases t with
      | var b => simp only [unify] at h; exact bindVar_mgu b _ n n' σ θ h hθ.symm
      | empty =>
        simp only [unify] at h
        injection h with h; injection h with hσ _; subst hσ; intro v; rfl
      | con _ => simp [unify] at h
      | app _ _ => simp [unify] at h
      | ext _ _ _ => simp [unify] at h
    | app f a =>
      cases t with
      | var b => simp only [unify] at h; exact bindVar_mgu b _ n n' σ θ h hθ.symm
      | app g b =>
        simp only [unify] at h
        simp only [Ty.subst, Ty.app.injEq] at hθ
        split at h
        · cases h
        · next σ₁ n₁ h₁ =>
          split at h
          · cases h
          · next σ₂ n₂ h₂ =>
            injection h with h; injection h with hσ _
            subst hσ
            exact key f g a b σ₁ σ₂ n₁ n₂ h₁ h₂ hθ.1 hθ.2
      | con _ => simp [unify] at h
      | ext _ _ _ => simp [unify] at h
      | empty => simp [unify] at h
    | ext l a r =>
      cases t with
      | var b => simp only [unify] at h; exact bindVar_mgu b _ n n' σ θ h hθ.symm
      | ext l' a' r' =>
        simp only [unify, Bool.false_and, Bool.false_eq_true, ↓reduceIte] at h
        simp only [Ty.subst, Ty.ext.injEq] at hθ
        split at h
        · split at h
          · cases h
          · next σ₁ n₁ h₁ =>
            split at h
            · cases h
            · next σ₂ n₂ h₂ =>
              injection h with h; injection h with hσ _
              subst hσ
              exact key a a' r r' σ₁ σ₂ n₁ n₂ h₁ h₂ hθ.2.1 hθ.2.2
        · cases h
      | con _ => simp [unify] at h
      | app _ _ => simp [unify] at h
      | empty => simp [unify] at h

theorem size_pos (t : Ty) : 0 < t.size := by
  cases t <;> simp [Ty.size]

theorem occurs_size_le (a : Nat) (θ : Subst) (t : Ty) (h : t.occurs a = true) :
    (θ a).size ≤ (t.subst θ).size := by
  induction t with
  | var n =>
    simp [Ty.occurs] at h
    subst h; simp [Ty.subst]
  | con c => simp [Ty.occurs] at h
  | empty => simp [Ty.occurs] at h
  | app f x ihf ihx =>
    simp [Ty.occurs] at h
    simp only [Ty.subst, Ty.size]
    rcases h with h | h
    · have := ihf h; omega
    · have := ihx h; omega
  | ext l t r iht ihr =>
    simp [Ty.occurs] at h
    simp only [Ty.subst, Ty.size]
    rcases h with h | h
    · have := iht h; omega
    · have := ihr h; omega

/-- the occurs check is justified: a variable cannot be unified with a larger type containing it -/
theorem occurs_no_unifier (a : Nat) (θ : Subst) (t : Ty) (h : t.occurs a = true)
    (hne : t ≠ .var a) : θ a ≠ t.subst θ := by
  intro heq
  have hsz : (θ a).size = (t.subst θ).size := by rw [heq]
  cases t with
  | var n => simp [Ty.occurs] at h; subst h; exact hne rfl
  | con c => simp [Ty.occurs] at h
  | empty => simp [Ty.occurs] at h
  | app f x =>
    simp [Ty.occurs] at h
    simp only [Ty.subst, Ty.size] at hsz
    rcases h with h | h
    · have := occurs_size_le a θ f h; omega
    · have := occurs_size_le a θ x h; omega
  | ext l u r =>
    simp [Ty.occurs] at h
    simp only [Ty.subst, Ty.size] at hsz
    rcases h with h | h
    · have := occurs_size_le a θ u h; omega
    · have := occurs_size_le a θ r h; omega

/-- `bindVar` fails only with `occurs`, and then no unifier exists. -/
theorem bindVar_error (a : Nat) (t : Ty) (n : Nat) (e : UErr) (θ : Subst)
    (h : bindVar a t n = .error e) : θ a ≠ t.subst θ := by
  unfold bindVar at h
  split at h
  · cases h
  · next hne =>
    split at h
    · next hocc => exact occurs_no_unifier a θ t hocc hne
    · cases h

/-- A clash or an occurs-check failure is reported only when there is no unifier at all. -/
theorem unify_error_no_unifier : ∀ (fuel n : Nat) (s t : Ty) (θ : Subst) (e : UErr),
    e ≠ .fuel → unify false fuel n s t = .error e → s.subst θ ≠ t.subst θ := by
  intro fuel
  induction fuel with
  | zero => intro n s t θ e he h; simp [unify] at h; exact absurd h.symm he
  | succ fuel ih =>
    intro n s t θ e he h hθ
    have key : ∀ (f g a b : Ty),
        (match unify false fuel n f g with
          | .error e => (.error e : Except UErr (Subst × Nat))
          | .ok (σ₁, n₁) =>
            match unify false fuel n₁ (a.subst σ₁) (b.subst σ₁) with
            | .error e => .error e
            | .ok (σ₂, n₂) => .ok (σ₂.comp σ₁, n₂)) = .error e →
        f.subst θ = g.subst θ → a.subst θ = b.subst θ → False := by
      intro f g a b h hf ha
      split at h
      · next e' h₁ =>
        injection h with h; subst h
        exact ih n f g θ _ he h₁ hf
      · next σ₁ n₁ h₁ =>
        split at h
        · next e' h₂ =>
          injection h with h; subst h
          have m₁ := unify_mgu fuel n f g σ₁ θ n₁ h₁ hf
          have abs : ∀ u : Ty, (u.subst σ₁).subst θ = u.subst θ := by
            intro u
            rw [← subst_comp]
            exact subst_congr _ _ u m₁
          exact ih n₁ _ _ θ _ he h₂ (by rw [abs a, abs b, ha])
        · cases h
    cases s with
    | var a => simp only [unify] at h; exact bindVar_error a t n e θ h hθ
    | con c =>
      cases t with
      | var b => simp only [unify] at h; exact bindVar_error b _ n e θ h hθ.symm
      | con d =>
        simp only [unify] at h
        split at h
        · cases h
        · next hcd => simp [Ty.subst] at hθ; exact hcd hθ
      | app _ _ => simp [Ty.subst] at hθ
      | ext _ _ _ => simp [Ty.subst] at hθ
      | empty => simp [Ty.subst] at hθ
    | empty =>
      cases t with
      | var b => simp only [unify] at h; exact bindVar_error b _ n e θ h hθ.symm
      | empty => simp [unify] at h
      | con _ => simp [Ty.subst] at hθ
      | app _ _ => simp [Ty.subst] at hθ
      | ext _ _ _ => simp [Ty.subst] at hθ
    | app f a =>
      cases t with
      | var b => simp only [unify] at h; exact bindVar_error b _ n e θ h hθ.symm
      | app g b =>
        simp only [unify] at h
        simp only [Ty.subst, Ty.app.injEq] at hθ
        exact key f g a b h hθ.1 hθ.2
      | con _ => simp [Ty.subst] at hθ
      | ext _ _ _ => simp [Ty.subst] at hθ
      | empty => simp [Ty.subst] at hθ
    | ext l a r =>
      cases t with
      | var b => simp only [unify] at h; exact bindVar_error b _ n e θ h hθ.symm
      | ext l' a' r' =>
        simp only [unify, Bool.false_and, Bool.false_eq_true, ↓reduceIte] at h
        simp only [Ty.subst, Ty.ext.injEq] at hθ
        split at h
        · exact key a a' r r' h hθ.2.1 hθ.2.2
        · next hl => exact hl hθ.1
      | con _ => simp [Ty.subst] at hθ
      | app _ _ => simp [Ty.subst] at hθ
      | empty => simp [Ty.subst] at hθ

end GluonModel.HM.Proofs
