/-
C20: the suggestion stack. The repaired hook rule (`fx = true`: a construct registers its
binders only when its span contains the position) computes exactly the unrepaired stack with
the out-of-construct entries filtered out; everything else the search computes is the same.
-/
import GluonModel.FindPos
import GluonModel.Proofs.FindPos

namespace GluonModel.FindPos.Proofs
open GluonModel.FindPos

/-- the entries whose construct contains the position -/
def inScope (pos : Nat) (sc : List (Nat × Span)) : List (Nat × Span) :=
  sc.filter (fun x => x.2.containment pos == .eq)

/-- forget the entries registered by constructs that do not contain the position -/
def proj (pos : Nat) (st : St) : St := { st with scope := inScope pos st.scope }

def mapOut (f : St → St) : Out → Out
  | .ok st => .ok (f st)
  | .panic => .panic
  | .fuel => .fuel

def mapNext (f : St → St) : Next → Next
  | .done o => .done (mapOut f o)
  | .go n st => .go n (f st)

@[simp] theorem proj_enter (pos : Nat) (m : M) (st : St) :
    enter m pos (proj pos st) = proj pos (enter m pos st) := by
  unfold enter proj; split <;> rfl

@[simp] theorem proj_setFound (pos : Nat) (st : St) (f : Found) :
    setFound (proj pos st) f = proj pos (setFound st f) := rfl

@[simp] theorem proj_foundIfAt (pos : Nat) (m : M) (st : St) :
    foundIfAt m pos (proj pos st) = proj pos (foundIfAt m pos st) := rfl

@[simp] theorem proj_enclosing (pos : Nat) (st : St) (l : List M) :
    { proj pos st with enclosing := l } = proj pos { st with enclosing := l } := rfl

@[simp] theorem proj_enclosing_get (pos : Nat) (st : St) : (proj pos st).enclosing = st.enclosing := rfl

/-- the heart: the guarded hook on the projected state = projection of the unguarded hook -/
@[simp] theorem hook_proj (pos : Nat) (st : St) (sp : Span) (ids : List Nat) :
    hook true pos (proj pos st) sp ids = proj pos (hook false pos st sp ids) := by
  unfold hook
  simp only [Bool.true_and, Bool.false_and, Bool.false_eq_true, ↓reduceIte]
  by_cases h : sp.containment pos = .eq
  · have : (sp.containment pos != .eq) = false := by simp [h]
    simp only [this, Bool.false_eq_true, ↓reduceIte]
    unfold addScope proj inScope
    simp only [List.filter_append, List.filter_reverse, St.mk.injEq, true_and]
    congr 1
    congr 1
    symm
    apply List.filter_eq_self.mpr
    intro x hx
    simp only [List.mem_map] at hx
    obtain ⟨i, _, rfl⟩ := hx
    simp [h]
  · have : (sp.containment pos != .eq) = true := by simp [h]
    simp only [this, ↓reduceIte]
    unfold addScope proj inScope
    simp only [List.filter_append, List.filter_reverse, St.mk.injEq, true_and]
    have : (List.map (fun i => (i, sp)) ids).filter (fun x => x.2.containment pos == .eq) = [] := by
      apply List.filter_eq_nil_iff.mpr
      intro x hx
      simp only [List.mem_map] at hx
      obtain ⟨i, _, rfl⟩ := hx
      simp [h]
    simp [this]

/-- One step of the repaired rule on the projected state is the projection of one step of the
    code as it is: same control flow, same match lists, filtered stack. -/
theorem step_proj (pos : Nat) (n : Node) (st : St) :
    step true pos n (proj pos st) = mapNext (proj pos) (step false pos n st) := by
  cases n with
  | pat p =>
    cases p with
    | leaf sp b => simp [step, mapNext, mapOut]
    | as_ sp b q => simp [step, mapNext]
    | ctor sp len args =>
      simp only [step]
      split
      · simp [mapNext, mapOut]
      · split <;> simp [mapNext, mapOut]
    | tuple sp elems =>
      simp only [step]
      split <;> simp [mapNext, mapOut]
    | record sp fs =>
      simp only [step]
      split
      · simp [mapNext, mapOut]
      · split <;> simp [mapNext, mapOut]
      · simp [mapNext, mapOut]
    | fieldShort nsp b => simp [step, mapNext, mapOut]
    | fieldVal nsp v => simp [step, mapNext, mapOut]
  | variant v =>
    cases v with
    | none => simp [step, mapNext, mapOut]
    | some x => cases x <;> simp [step, mapNext, mapOut]
  | expr e =>
    cases e with
    | leaf sp => simp [step, mapNext, mapOut]
    | emptyNode sp => simp [step, mapNext, mapOut]
    | error sp => simp [step, mapNext, mapOut]
    | one sp cs =>
      simp only [step]
      split <;> simp [mapNext, mapOut]
    | «infix» sp l op r =>
      simp only [step]
      split <;> simp [mapNext, mapOut]
    | proj sp e =>
      simp only [step]
      split <;> simp [mapNext, mapOut]
    | annotated sp e => simp [step, mapNext]
    | lambda sp args body =>
      simp only [step]
      split <;> simp [mapNext, mapOut]
    | letb sp isRec binds body =>
      simp only [step]
      split <;> cases isRec <;> simp [mapNext]
    | matchE sp scrut alts =>
      simp only [step]
      split
      · simp [mapNext, mapOut]
      · simp [mapNext]
      · split <;> simp [mapNext, mapOut]
    | record sp fields base => simp [step, mapNext]

theorem run_proj (pos : Nat) :
    ∀ (fuel : Nat) (n : Node) (st : St),
      run true pos fuel n (proj pos st) = mapOut (proj pos) (run false pos fuel n st) := by
  intro fuel
  induction fuel with
  | zero => intro n st; rfl
  | succ k ih =>
    intro n st
    rw [run, run, step_proj]
    cases step false pos n st with
    | done o => rfl
    | go n' st' => simp only [mapNext]; exact ih n' st'

end GluonModel.FindPos.Proofs
