/-
Heap extension (Kripke-style monotonicity). `NewClosure … CloseClosure` only ever *append* closures
to the heap; every judgment of `Proofs/Compile.lean` that was established over a heap `h`
(`Exec`, `Returns`, `ExecErr … arith`, `CloRel`, `RV`, `Agree`) stays true over any heap `h'` that
extends `h` by further closures (`HExt h h'`).
-/
import GluonModel.Proofs.Compile
namespace GluonModel.Proofs.Compile
open GluonModel.Core GluonModel.Bytecode GluonModel.Compile

/-- `h'` is `h` with more closures appended (existing closures and all data objects unchanged) -/
def HExt (h h' : Heap) : Prop := h'.data = h.data ∧ h.clos <+: h'.clos

theorem HExt.refl (h : Heap) : HExt h h := ⟨rfl, List.prefix_refl _⟩

theorem HExt.trans {a b c : Heap} (h₁ : HExt a b) (h₂ : HExt b c) : HExt a c :=
  ⟨h₂.1.trans h₁.1, h₁.2.trans h₂.2⟩

theorem HExt.clos {h h' : Heap} (hx : HExt h h') {id : Nat} {c : Fn × List Val}
    (hc : h.clos[id]? = some c) : h'.clos[id]? = some c := prefix_getElem? hx.2 hc

theorem HExt.asData {h h' : Heap} (hx : HExt h h') (v : Val) : asData h' v = asData h v := by
  cases v <;> simp [Bytecode.asData, hx.1]

theorem HExt.snoc (h : Heap) (c : Fn × List Val) : HExt h { h with clos := h.clos ++ [c] } :=
  ⟨rfl, List.prefix_append _ _⟩

theorem setAt_length {α} : ∀ (l : List α) (i : Nat) (a : α), (setAt l i a).length = l.length
  | [], _, _ => rfl
  | _ :: _, 0, _ => rfl
  | _ :: xs, i + 1, a => by simp [setAt, setAt_length xs i a]

theorem setAt_append_left {α} : ∀ (l t : List α) (i : Nat) (a : α), i < l.length →
    setAt (l ++ t) i a = setAt l i a ++ t
  | [], _, _, _, h => by simp at h
  | _ :: _, _, 0, _, _ => rfl
  | x :: xs, t, i + 1, a, h => by
    simp only [List.cons_append, setAt, List.cons.injEq, true_and]
    exact setAt_append_left xs t i a (by simpa using h)

theorem heap_eq_of {h : Heap} {c : List (Fn × List Val)} (e : ({ h with clos := c } : Heap) = h) :
    c = h.clos := by
  cases h; simp at e; exact e

theorem heap_eq_of_data {h : Heap} {d : List (Nat × List Val × List String)}
    (e : ({ h with data := d } : Heap) = h) : d = h.data := by
  cases h; simp at e; exact e

theorem heap_mk_eq {c : List (Fn × List Val)} {d : List (Nat × List Val × List String)} {h : Heap} :
    (({ clos := c, data := d } : Heap) = h) ↔ (c = h.clos ∧ d = h.data) := by
  cases h; simp

/-- a turn of the interpreter loop that leaves the heap `h` alone does the same over any
    extension of `h` -/
theorem stepInstr_hext {fn : Fn} {upv : List Val} {i : Instr} {pc : Nat} {stk : List Val}
    {h h' : Heap} {pc' : Nat} {stk' : List Val} (hx : HExt h h')
    (hs : stepInstr fn upv i pc stk h = .next pc' stk' h) :
    stepInstr fn upv i pc stk h' = .next pc' stk' h' := by
  have hd := hx.1
  cases i
  all_goals (simp only [stepInstr, hx.asData] at hs ⊢)
  all_goals (try (repeat' split at hs) <;> simp_all <;> done)
  case newVariant tag args =>
    by_cases h0 : args = 0
    · simp only [h0, if_true] at hs ⊢
      simp only [LocalOut.next.injEq] at hs ⊢
      exact ⟨hs.1, hs.2.1, trivial⟩
    · simp only [h0, if_false, LocalOut.next.injEq, heap_mk_eq] at hs
      have := congrArg List.length hs.2.2.2
      simp at this
  case newRecord record args =>
    by_cases h0 : args = 0
    · simp only [h0, if_true] at hs ⊢
      simp only [LocalOut.next.injEq] at hs ⊢
      exact ⟨hs.1, hs.2.1, trivial⟩
    · simp only [h0, if_false] at hs
      split at hs
      · simp only [LocalOut.next.injEq, heap_mk_eq] at hs
        have := congrArg List.length hs.2.2.2
        simp at this
      · simp at hs
  case closeData index =>
    rw [hd]
    split at hs
    · rename_i id heq
      split at hs
      · rename_i t fs ns hdat
        split at hs
        · simp at hs
        · rename_i hlt
          simp only [hlt, if_false]
          simp only [LocalOut.next.injEq, heap_mk_eq] at hs ⊢
          exact ⟨hs.1, hs.2.1, trivial, by rw [hs.2.2.2, hd]⟩
      · simp at hs
    · simp at hs
  case makeClosure fi n =>
    split at hs
    · split at hs
      · simp at hs
      · simp only [LocalOut.next.injEq, heap_mk_eq] at hs
        have := congrArg List.length hs.2.2.1
        simp at this
    · simp at hs
  case newClosure fi n =>
    split at hs
    · simp only [LocalOut.next.injEq, heap_mk_eq] at hs
      have := congrArg List.length hs.2.2.1
      simp at this
    · simp at hs
  case closeClosure n =>
    split at hs
    · simp at hs
    · rename_i hlt
      simp only [hlt, if_false]
      split at hs
      · rename_i id heq
        split at hs
        · rename_i f ups hcl
          simp only [hx.clos hcl]
          split at hs
          · simp at hs
          · rename_i hlt2
            simp only [hlt2, if_false]
            simp only [LocalOut.next.injEq, heap_mk_eq] at hs ⊢
            refine ⟨hs.1, hs.2.1, ?_, trivial⟩
            obtain ⟨t, ht⟩ := hx.2
            have hid : id < h.clos.length := by
              rcases Nat.lt_or_ge id h.clos.length with h' | h'
              · exact h'
              · rw [List.getElem?_eq_none h'] at hcl; cases hcl
            rw [← ht, setAt_append_left _ _ _ _ hid, hs.2.2.1]
        · simp at hs
      · simp at hs

theorem stepLocal_hext {fn : Fn} {upv : List Val} {pc : Nat} {stk : List Val}
    {h h' : Heap} {pc' : Nat} {stk' : List Val} (hx : HExt h h')
    (hs : stepLocal fn upv pc stk h = .next pc' stk' h) :
    stepLocal fn upv pc stk h' = .next pc' stk' h' := by
  unfold stepLocal at hs ⊢
  split at hs
  · exact stepInstr_hext hx hs
  · simp at hs

/-- the arithmetic failure of a turn does not depend on the heap -/
theorem stepInstr_arith {fn : Fn} {upv : List Val} {i : Instr} {pc : Nat} {stk : List Val}
    {h h' : Heap} (hs : stepInstr fn upv i pc stk h = .err .arith) :
    stepInstr fn upv i pc stk h' = .err .arith := by
  cases i
  all_goals (simp only [stepInstr] at hs ⊢)
  all_goals (try (repeat' split at hs) <;> simp_all <;> done)

theorem stepLocal_arith {fn : Fn} {upv : List Val} {pc : Nat} {stk : List Val}
    {h h' : Heap} (hs : stepLocal fn upv pc stk h = .err .arith) :
    stepLocal fn upv pc stk h' = .err .arith := by
  unfold stepLocal at hs ⊢
  split at hs
  · exact stepInstr_arith hs
  · simp at hs

mutual
theorem Exec.hext {fn : Fn} {upv : List Val} {h h' : Heap} {pc : Nat} {stk : List Val} {pc' : Nat}
    {stk' : List Val} : Exec fn upv h pc stk pc' stk' → HExt h h' → Exec fn upv h' pc stk pc' stk'
  | .refl _ _, _ => .refl _ _
  | .cons hs a, hx => .cons (stepLocal_hext hx hs) (a.hext hx)
  | .call hi hg hn hr a, hx => .call hi (hx.clos hg) hn (hr.hext hx) (a.hext hx)
theorem Returns.hext {g : Fn} {gupv : List Val} {h h' : Heap} {args : List Val} {v : Val} :
    Returns g gupv h args v → HExt h h' → Returns g gupv h' args v
  | .ret a hret, hx => .ret (a.hext hx) hret
  | .tail a hi hg hn hr, hx => .tail (a.hext hx) hi (hx.clos hg) hn (hr.hext hx)
end

theorem ExecErr.hext' {fn : Fn} {upv : List Val} {h h' : Heap} {pc : Nat} {stk : List Val} {e : Err} :
    ExecErr fn upv h pc stk e → e = .arith → HExt h h' → ExecErr fn upv h' pc stk e
  | .here a he, ea, hx => .here (a.hext hx) (by subst ea; exact stepLocal_arith he)
  | .incall a hi hg hn he, ea, hx => .incall (a.hext hx) hi (hx.clos hg) hn (he.hext' ea hx)

theorem ExecErr.hext {fn : Fn} {upv : List Val} {h h' : Heap} {pc : Nat} {stk : List Val}
    (a : ExecErr fn upv h pc stk .arith) (hx : HExt h h') : ExecErr fn upv h' pc stk .arith :=
  a.hext' rfl hx

theorem CloRel.hext {K : Nat} {h h' : Heap} {n : Nat} {v v' : Val} (a : CloRel K h n v v')
    (hx : HExt h h') : CloRel K h' n v v' := by
  obtain ⟨cs, idx, env, id, g, gupv, nm, params, body, h1, h2, h3, h4, h5, h6, h7, h8⟩ := a
  exact ⟨cs, idx, env, id, g, gupv, nm, params, body, h1, h2, hx.clos h3, h4, h5, h6, h7,
    fun fuel vs hf hv => ⟨fun r hr => ((h8 fuel vs hf hv).1 r hr).hext hx,
      fun he => ((h8 fuel vs hf hv).2 he).hext hx⟩⟩

theorem RV.hext {K : Nat} {h h' : Heap} {Φ : List (Sym × Nat)} {x : Sym} {v v' : Val}
    (a : RV K h Φ x v v') (hx : HExt h h') : RV K h' Φ x v v' := by
  unfold RV at a ⊢
  split
  · rename_i e; simpa [e] using a
  · rename_i n e; rw [e] at a; exact CloRel.hext a hx

theorem RV.mono {K K' : Nat} {h : Heap} {Φ : List (Sym × Nat)} {x : Sym} {v v' : Val}
    (a : RV K h Φ x v v') (hle : K' ≤ K) : RV K' h Φ x v v' := by
  unfold RV at a ⊢
  split
  · rename_i e; simpa [e] using a
  · rename_i n e; rw [e] at a; exact CloRel.mono hle a

theorem Agree.hext {K : Nat} {h h' : Heap} {Φ fv upv scopes ρ stk}
    (a : Agree K h Φ fv upv scopes ρ stk) (hx : HExt h h') : Agree K h' Φ fv upv scopes ρ stk := by
  intro x v hv
  rcases a x v hv with ⟨i, v', hi, hs, hr⟩ | ⟨hn, hr⟩
  · exact Or.inl ⟨i, v', hi, hs, hr.hext hx⟩
  · refine Or.inr ⟨hn, fun k hk => ?_⟩
    obtain ⟨v', hu, hr'⟩ := hr k hk
    exact ⟨v', hu, hr'.hext hx⟩

end GluonModel.Proofs.Compile
