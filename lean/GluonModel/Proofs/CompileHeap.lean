/-
Heap extension (Kripke-style monotonicity). `NewClosure … CloseClosure` only ever *append* closures
to the heap; every judgment of `Proofs/Compile.lean` that was established over a heap `h`
(`Exec`, `Returns`, `ExecErr … arith`, `CloRel`, `RV`, `Agree`) stays true over any heap `h'` that
extends `h` by further closures (`HExt h h'`).
-/
import GluonModel.Proofs.Compile
namespace GluonModel.Proofs.Compile
open GluonModel.Core GluonModel.Bytecode GluonModel.Compile

/-- `h'` is `h` with more closures appended (existing closures and all data objects unchanged) -/
def HExt (h h' : Heap) : Prop := h'.data = h.data ∧ h.clos <+: h'.clos

theorem HExt.refl (h : Heap) : HExt h h := ⟨rfl, List.prefix_refl _⟩

theorem HExt.trans {a b c : Heap} (h₁ : HExt a b) (h₂ : HExt b c) : HExt a c :=
  ⟨h₂.1.trans h₁.1, h₁.2.trans h₂.2⟩

theorem HExt.clos {h h' : Heap} (hx : HExt h h') {id : Nat} {c : Fn × List Val}
    (hc : h.clos[id]? = some c) : h'.clos[id]? = some c := prefix_getElem? hx.2 hc

theorem HExt.asData {h h' : Heap} (hx : HExt h h') (v : Val) : asData h' v = asData h v := by
  cases v <;> simp [Bytecode.asData, hx.1]

theorem HExt.snoc (h : Heap) (c : Fn × List Val) : HExt h { h with clos := h.clos ++ [c] } :=
  ⟨rfl, List.prefix_append _ _⟩

theorem setAt_length {α} : ∀ (l : List α) (i : Nat) (a : α), (setAt l i a).length = l.length
  | [], _, _ => rfl
  | _ :: _, 0, _ => rfl
  | _ :: xs, i + 1, a => by simp [setAt, setAt_length xs i a]

theorem setAt_append_left {α} : ∀ (l t : List α) (i : Nat) (a : α), i < l.length →
    setAt (l ++ t) i a = setAt l i a ++ t
  | [], _, _, _, h => by simp at h
  | _ :: _, _, 0, _, _ => rfl
  | x :: xs, t, i + 1, a, h => by
    simp only [List.cons_append, setAt, List.cons.injEq, true_and]
    exact setAt_append_left xs t i a (by simpa using h)

theorem heap_eq_of {h : Heap} {c : List (Fn × List Val)} (e : ({ h with clos := c } : Heap) = h) :
    c = h.clos := by
  cases h; simp at e; exact e

theorem heap_eq_of_data {h : Heap} {d : List (Nat × List Val × List String)}
    (e : ({ h with data := d } : Heap) = h) : d = h.data := by
  cases h; simp at e; exact e

theorem heap_mk_eq {c : List (Fn × List Val)} {d : List (Nat × List Val × List String)} {h : Heap} :
    (({ clos := c, data := d } : Heap) = h) ↔ (c = h.clos ∧ d = h.data) := by
  cases h; simp

/-- a turn of the interpreter loop that leaves the heap `h` alone does the same over any
    extension of `h` -/
theorem stepInstr_hext {fn : Fn} {upv : List Val} {i : Instr} {pc : Nat} {stk : List Val}
    {h h' : Heap} {pc' : Nat} {stk' : List Val} (hx : HExt h h')
    (hs : stepInstr fn upv i pc stk h = .next pc' stk' h) :
    stepInstr fn upv i pc stk h' = .next pc' stk' h' := by
  have hd := hx.1
  cases i
  all_goals (simp only [stepInstr, hx.asData] at hs ⊢)
  all_goals (try (repeat' split at hs) <;> simp_all <;> done)
  case newVariant tag args =>
    by_cases h0 : args = 0
    · simp only [h0, if_true] at hs ⊢
      simp only [LocalOut.next.injEq] at hs ⊢
      exact ⟨hs.1, hs.2.1, trivial⟩
    · simp only [h0, if_false, LocalOut.next.injEq, heap_mk_eq] at hs
      have := congrArg List.length hs.2.2.2
      simp at this
  case newRecord record args =>
    by_cases h0 : args = 0
    · simp only [h0, if_true] at hs ⊢
      simp only [LocalOut.next.injEq] at hs ⊢
      exact ⟨hs.1, hs.2.1, trivial⟩
    · simp only [h0, if_false] at hs
      split at hs
      · simp only [LocalOut.next.injEq, heap_mk_eq] at hs
        have := congrArg List.length hs.2.2.2
        simp at this
      · simp at hs
  case closeData index =>
    rw [hd]
    split at hs
    · rename_i id heq
      simp only [heq]
      split at hs
      · rename_i t fs ns hdat
        simp only [hdat]
        split at hs
        · simp at hs
        · rename_i hlt
          simp only [hlt, if_false]
          simp only [LocalOut.next.injEq, heap_mk_eq] at hs ⊢
          exact ⟨hs.1, hs.2.1, rfl, by rw [hs.2.2.2, hd]⟩
      · simp at hs
    · simp at hs
  case makeClosure fi n =>
    split at hs
    · split at hs
      · simp at hs
      · simp only [LocalOut.next.injEq, heap_mk_eq] at hs
        have := congrArg List.length hs.2.2.1
        simp at this
    · simp at hs
  case newClosure fi n =>
    split at hs
    · simp only [LocalOut.next.injEq, heap_mk_eq] at hs
      have := congrArg List.length hs.2.2.1
      simp at this
    · simp at hs
  case closeClosure n =>
    split at hs
    · simp at hs
    · rename_i hlt
      simp only [hlt, if_false]
      split at hs
      · rename_i id heq
        simp only [heq]
        split at hs
        · rename_i f ups hcl
          simp only [hx.clos hcl]
          split at hs
          · simp at hs
          · rename_i hlt2
            simp only [hlt2, if_false]
            simp only [LocalOut.next.injEq, heap_mk_eq] at hs ⊢
            refine ⟨hs.1, hs.2.1, ?_, rfl⟩
            obtain ⟨t, ht⟩ := hx.2
            have hid : id < h.clos.length := by
              rcases Nat.lt_or_ge id h.clos.length with h' | h'
              · exact h'
              · rw [List.getElem?_eq_none h'] at hcl; cases hcl
            rw [← ht, setAt_append_left _ _ _ _ hid, hs.2.2.1]
        · simp at hs
      · simp at hs

end GluonModel.Proofs.Compile
