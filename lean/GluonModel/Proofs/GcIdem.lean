/-
C05 transparency: a second collection right after a collection frees nothing more.
-/
import GluonModel.GcHeap
import GluonModel.Proofs.GcHeap

namespace GluonModel.GcHeap

theorem collect_next {s s' : State} {t : HeapId} (hc : collect s t = some s') : s'.next = s.next := by
  obtain ⟨m, _, rfl⟩ := collect_obj hc; rfl

/-- After `collect s t` an object that was marked, or lies outside the swept heaps, is unchanged. -/
theorem collect_keeps {s s' : State} {t : HeapId} {m : List Nat} (hc : collect s t = some s')
    (hm : mark s t = some m) {p : Nat} {op : Obj} (hop : s.obj p = some op)
    (h : p ∈ m ∨ ¬ t <+: op.owner) : s'.obj p = some op := by
  obtain ⟨m', hm', rfl⟩ := collect_obj hc
  rw [hm] at hm'; cases hm'
  show sweepObj s t m p = some op
  unfold sweepObj
  simp only [hop]
  rcases h with h | h
  · simp [h]
  · have : t.isPrefixOf op.owner = false := by
      cases hb : t.isPrefixOf op.owner
      · rfl
      · exact absurd (List.isPrefixOf_iff_prefix.mp hb) h
    simp [this]

theorem skip_eq_of_obj_eq {s s' : State} {t : HeapId} {p : Nat} (h : s'.obj p = s.obj p) :
    skip s' t p = skip s t p := by
  unfold skip; rw [h]

/-- Every `Thread` object inside the heaps the collection sweeps is itself marked (it sits in its
    parent's child list, thread.rs:771-777). -/
def ThreadObjsMarked (s : State) (t : HeapId) : Prop :=
  ∀ i o, s.obj i = some o → o.kind = .thread → t <+: o.owner → ReachNS s t i

theorem reachNS_after_collect {s s' : State} {t : HeapId} {m : List Nat} (hwf : WF s)
    (hT : ThreadObjsMarked s t) (hc : collect s t = some s') (hm : mark s t = some m) {p : Nat}
    (hp : ReachNS s t p) : ReachNS s' t p ∧ ∃ op, s.obj p = some op ∧ s'.obj p = some op := by
  have live : ∀ p, ReachNS s t p → ∃ op, s.obj p = some op ∧ s'.obj p = some op := by
    intro p hp
    have hs : skip s t p = false := by cases hp <;> assumption
    unfold skip at hs
    cases ho : s.obj p with
    | none => simp [ho] at hs
    | some op => exact ⟨op, rfl, collect_keeps hc hm ho (Or.inl ((mark_spec hm p).mpr hp))⟩
  refine ⟨?_, live p hp⟩
  induction hp with
  | @root p hr hs =>
    obtain ⟨op, hop, hop'⟩ := live p (ReachNS.root hr hs)
    obtain ⟨i, o, hi, ho, hk, hpre, he⟩ := mem_rootsOf.mp hr
    have ho' : s'.obj i = some o := by
      by_cases hin : t <+: o.owner
      · exact collect_keeps hc hm ho (Or.inl ((mark_spec hm i).mpr (hT i o ho hk hin)))
      · exact collect_keeps hc hm ho (Or.inr hin)
    refine ReachNS.root (mem_rootsOf.mpr ⟨i, o, by rw [collect_next hc]; exact hi, ho', hk, hpre, he⟩) ?_
    rw [skip_eq_of_obj_eq (by rw [hop, hop'])]; exact hs
  | @step q p oq hq ho he hs ih =>
    obtain ⟨oq', hoq, hoq'⟩ := live q hq
    rw [ho] at hoq; cases hoq
    obtain ⟨op, hop, hop'⟩ := live p (ReachNS.step hq ho he hs)
    refine ReachNS.step ih hoq' he ?_
    rw [skip_eq_of_obj_eq (by rw [hop, hop'])]; exact hs

/-- **A collection is idempotent**: collecting the same heap again, with nothing done in between,
    frees nothing more and changes nothing. -/
theorem collect_idempotent' {s s1 s2 : State} {t : HeapId} (hwf : WF s)
    (hT : ThreadObjsMarked s t) (h1 : collect s t = some s1) (h2 : collect s1 t = some s2) :
    ∀ p, s2.obj p = s1.obj p := by
  intro p
  obtain ⟨m, hm, _⟩ := collect_obj h1
  obtain ⟨m1, hm1, _⟩ := collect_obj h2
  cases hp : s1.obj p with
  | none =>
    cases hp2 : s2.obj p with
    | none => rfl
    | some o => rw [collect_sub h2 hp2] at hp; cases hp
  | some op =>
    by_cases hin : t <+: op.owner
    · obtain ⟨m', hm', hpm⟩ : ∃ m', mark s t = some m' ∧ p ∈ m' := by
        refine ⟨m, hm, ?_⟩
        obtain ⟨m0, hm0, hs1⟩ := collect_obj h1
        rw [hm] at hm0; cases hm0
        subst hs1
        have hp' : sweepObj s t m p = some op := hp
        unfold sweepObj at hp'
        cases ho : s.obj p with
        | none => simp [ho] at hp'
        | some o =>
          simp only [ho] at hp'
          split at hp'
          · cases hp'
          · rename_i hc
            cases hp'
            have hc' := hc
            simp at hc'
            exact hc' hin
      rw [hm] at hm'; cases hm'
      have hr := (reachNS_after_collect hwf hT h1 hm ((mark_spec hm p).mp hpm)).1
      exact collect_keeps h2 hm1 hp (Or.inl ((mark_spec hm1 p).mpr hr))
    · exact collect_keeps h2 hm1 hp (Or.inr hin)

end GluonModel.GcHeap
