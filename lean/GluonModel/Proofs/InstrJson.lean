/-
Lemmas about `GluonModel.InstrJson` (generic in the variant table) and about the generated
`GluonModel.Generated.InstrEnum` (`toRaw`/`ofRaw`).
-/
import GluonModel.InstrJson
import GluonModel.Generated.Instr

namespace GluonModel.InstrJson.Proofs
open GluonModel.InstrJson

theorem decodeOp_encodeOp (t : OpTy) (o : Operand) (h : t.inRange o = true) :
    decodeOp t (encodeOp o) = some o := by
  cases t <;> cases o <;> simp_all [OpTy.inRange, decodeOp, encodeOp]

theorem contains_keys_false (kvs : List (String × J)) (k : String)
    (h : (kvs.map (·.1)).contains k = false) : fieldVal kvs k = none := by
  induction kvs with
  | nil => rfl
  | cons kv rest ih =>
    obtain ⟨k', j⟩ := kv
    simp only [List.map_cons, List.contains_cons, Bool.or_eq_false_iff] at h
    have hne : (k' == k) = false := by
      have := h.1
      rw [Bool.eq_false_iff] at this ⊢
      intro hk; apply this
      simp only [beq_iff_eq] at hk ⊢; exact hk.symm
    simp [fieldVal, hne, ih h.2]

/-- In a member list without repeated keys, every member is found by its key. -/
theorem fieldVal_mem (kvs : List (String × J)) (hn : keysNodup (kvs.map (·.1)) = true)
    (k : String) (j : J) (hm : (k, j) ∈ kvs) : fieldVal kvs k = some j := by
  induction kvs with
  | nil => cases hm
  | cons kv rest ih =>
    obtain ⟨k', j'⟩ := kv
    simp only [List.map_cons, keysNodup, Bool.and_eq_true, Bool.not_eq_true'] at hn
    by_cases hk : k' = k
    · subst hk
      have hj : j' = j := by
        cases hm with
        | head => rfl
        | tail _ hm' =>
          exfalso
          have : (rest.map (·.1)).contains k' = true := by
            simp only [List.contains_iff_mem, List.mem_map]
            exact ⟨(k', j), hm', rfl⟩
          rw [hn.1] at this; cases this
      subst hj
      have hc := hn.1
      unfold fieldVal
      rw [hc]
      simp
    · have hm' : (k, j) ∈ rest := by
        cases hm with
        | head => exact absurd rfl hk
        | tail _ h => exact h
      have hne : (k' == k) = false := by simp [hk]
      simp [fieldVal, hne, ih hn.2 hm']

theorem encodeFields_keys (fs : List (String × OpTy)) (ops : List Operand)
    (hl : fs.length = ops.length) : (encodeFields fs ops).map (·.1) = fs.map (·.1) := by
  induction fs generalizing ops with
  | nil => cases ops <;> simp_all [encodeFields]
  | cons f fs ih =>
    obtain ⟨k, t⟩ := f
    cases ops with
    | nil => simp at hl
    | cons o os => simp [encodeFields, ih os (by simpa using hl)]

theorem opsOk_length (fs : List (String × OpTy)) (ops : List Operand) (h : opsOk fs ops = true) :
    fs.length = ops.length := by
  induction fs generalizing ops with
  | nil => cases ops <;> simp_all [opsOk]
  | cons f fs ih =>
    obtain ⟨k, t⟩ := f
    cases ops with
    | nil => simp [opsOk] at h
    | cons o os =>
      simp only [opsOk, Bool.and_eq_true] at h
      simp [ih os h.2]

/-- Reading the members back by name, against ANY member list in which the written members are
    found (so: in any order, with unknown members in between). -/
theorem decodeFieldsMap_of_found (kvs : List (String × J)) (fs : List (String × OpTy))
    (ops : List Operand) (hok : opsOk fs ops = true)
    (hf : ∀ kj ∈ encodeFields fs ops, fieldVal kvs kj.1 = some kj.2) :
    decodeFieldsMap kvs fs = some ops := by
  induction fs generalizing ops with
  | nil => cases ops <;> simp_all [opsOk, decodeFieldsMap]
  | cons f fs ih =>
    obtain ⟨k, t⟩ := f
    cases ops with
    | nil => simp [opsOk] at hok
    | cons o os =>
      simp only [opsOk, Bool.and_eq_true] at hok
      have h1 := hf (k, encodeOp o) (by simp [encodeFields])
      have h2 := ih os hok.2 (fun kj hkj => hf kj (by simp [encodeFields, hkj]))
      simp only at h1
      simp [decodeFieldsMap, h1, decodeOp_encodeOp t o hok.1, h2]

theorem decodeFieldsMap_encodeFields (fs : List (String × OpTy)) (ops : List Operand)
    (hn : keysNodup (fs.map (·.1)) = true) (hok : opsOk fs ops = true) :
    decodeFieldsMap (encodeFields fs ops) fs = some ops := by
  apply decodeFieldsMap_of_found _ fs ops hok
  intro kj hkj
  apply fieldVal_mem _ _ kj.1 kj.2 hkj
  rw [encodeFields_keys fs ops (opsOk_length fs ops hok)]
  exact hn

theorem decodeFieldsSeq_encode (fs : List (String × OpTy)) (ops : List Operand)
    (hok : opsOk fs ops = true) :
    decodeFieldsSeq fs (ops.map encodeOp) = some ops := by
  induction fs generalizing ops with
  | nil => cases ops <;> simp_all [opsOk, decodeFieldsSeq]
  | cons f fs ih =>
    obtain ⟨k, t⟩ := f
    cases ops with
    | nil => simp [opsOk] at hok
    | cons o os =>
      simp only [opsOk, Bool.and_eq_true] at hok
      simp [decodeFieldsSeq, decodeOp_encodeOp t o hok.1, ih os hok.2]

theorem find_mem (tb : Table) (n : String) (v : Variant) (h : find tb n = some v) : v ∈ tb :=
  List.mem_of_find?_eq_some h

/-- The round trip at the level of raw instructions, for every table whose struct variants have
    distinct field names. -/
theorem decodeRaw_encodeRaw (tb : Table) (htb : tb.ok = true) (r : Raw) (hr : r.ok tb = true) :
    decodeRaw tb (encodeRaw tb r) = some r := by
  obtain ⟨tag, ops⟩ := r
  simp only [Raw.ok] at hr
  cases hfind : find tb tag with
  | none => simp [hfind] at hr
  | some v =>
    simp only [hfind] at hr
    have hmem := find_mem tb tag v hfind
    obtain ⟨name, shape⟩ := v
    cases shape with
    | unit =>
      cases ops with
      | nil => simp [encodeRaw, decodeRaw, hfind]
      | cons o os => simp [Shape.okOps] at hr
    | newtype t =>
      match ops, hr with
      | [o], hr =>
        simp only [Shape.okOps] at hr
        simp [encodeRaw, decodeRaw, hfind, encodePayload, decodePayload, decodeOp_encodeOp t o hr]
    | struct fs =>
      simp only [Shape.okOps] at hr
      have hn : keysNodup (fs.map (·.1)) = true := by
        have := (List.all_eq_true.mp htb) _ hmem
        simpa using this
      simp [encodeRaw, decodeRaw, hfind, encodePayload, decodePayload,
        decodeFieldsMap_encodeFields fs ops hn hr]

theorem decodeAll_map (dec : J → Option α) (enc : α → J) (P : α → Bool)
    (h : ∀ a, P a = true → dec (enc a) = some a) (xs : List α) (hx : xs.all P = true) :
    decodeAll dec (xs.map enc) = some xs := by
  induction xs with
  | nil => rfl
  | cons a as ih =>
    simp only [List.all_cons, Bool.and_eq_true] at hx
    simp [decodeAll, h a hx.1, ih hx.2]

end GluonModel.InstrJson.Proofs

namespace GluonModel.Generated.InstrEnum
open GluonModel.InstrJson

namespace Proofs

theorem variants_ok : Table.ok variants = true := by decide

theorem ofRaw_toRaw (i : Instr) : Instr.ofRaw i.toRaw = some i := by
  cases i <;> simp [Instr.toRaw, Instr.ofRaw]

theorem toRaw_ok (i : Instr) (h : i.inRange = true) : Raw.ok variants i.toRaw = true := by
  cases i <;>
    simp_all [Instr.toRaw, Instr.inRange, Raw.ok, find, variants, Shape.okOps, opsOk, OpTy.inRange] <;>
    omega

theorem decode_encode (i : Instr) (h : i.inRange = true) : decode (encode i) = some i := by
  simp [decode, encode, InstrJson.Proofs.decodeRaw_encodeRaw variants variants_ok _ (toRaw_ok i h),
    ofRaw_toRaw]

theorem encode_injective (a b : Instr) (ha : a.inRange = true) (hb : b.inRange = true)
    (h : encode a = encode b) : a = b := by
  have h1 := decode_encode a ha
  rw [h, decode_encode b hb] at h1
  exact (Option.some.inj h1).symm

theorem decodeList_encodeList (is : List Instr) (h : is.all Instr.inRange = true) :
    decodeList (encodeList is) = some is := by
  simp only [decodeList, encodeList]
  exact InstrJson.Proofs.decodeAll_map decode encode Instr.inRange decode_encode is h

theorem encodeList_injective (as bs : List Instr) (ha : as.all Instr.inRange = true)
    (hb : bs.all Instr.inRange = true) (h : encodeList as = encodeList bs) : as = bs := by
  have h1 := decodeList_encodeList as ha
  rw [h, decodeList_encodeList bs hb] at h1
  exact (Option.some.inj h1).symm

end Proofs
end GluonModel.Generated.InstrEnum

namespace GluonModel.InstrJson.Proofs

/-- Member order and unknown members do not matter: any object without repeated keys that
    contains the members the serialiser writes decodes to the same operands. -/
theorem decodePayload_struct_any_order (fs : List (String × OpTy)) (ops : List Operand)
    (hok : opsOk fs ops = true) (kvs : List (String × J))
    (hn : keysNodup (kvs.map (·.1)) = true) (hsub : ∀ kj ∈ encodeFields fs ops, kj ∈ kvs) :
    decodePayload (.struct fs) (.obj kvs) = some ops := by
  simp only [decodePayload]
  exact decodeFieldsMap_of_found kvs fs ops hok
    (fun kj hkj => fieldVal_mem kvs hn kj.1 kj.2 (hsub kj hkj))

end GluonModel.InstrJson.Proofs
