/-
Lemmas about `GluonModel.FindPos` (C20): span containment, `select_spanned`, absence of the
`unwrap` panics of the position search.
-/
import GluonModel.FindPos

namespace GluonModel.FindPos.Proofs
open GluonModel.FindPos
variable {α : Type}

theorem containment_eq_iff (s : Span) (p : Nat) :
    s.containment p = .eq ↔ p = s.lo ∨ p = s.hi ∨ (s.lo < p ∧ p < s.hi) := by
  unfold Span.containment
  split <;> simp_all [Nat.compare_eq_lt, Nat.compare_eq_gt] <;> omega

theorem containment_lt_iff (s : Span) (p : Nat) :
    s.containment p = .lt ↔ p < s.lo ∧ p ≠ s.hi := by
  unfold Span.containment
  split <;> simp_all [Nat.compare_eq_lt, Nat.compare_eq_gt] <;> omega

theorem containment_gt_iff (s : Span) (p : Nat) :
    s.containment p = .gt ↔ s.lo < p ∧ s.hi < p := by
  unfold Span.containment
  split <;> simp_all [Nat.compare_eq_lt, Nat.compare_eq_gt] <;> omega
theorem selectGo_isSome (span : α → Span) (pos : Nat) (xs : List α) :
    ∀ prev : Option α, prev.isSome → (selectGo span pos prev xs).2.isSome := by
  induction xs with
  | nil => intro prev h; simpa [selectGo] using h
  | cons x rest ih =>
    intro prev h
    simp only [selectGo]
    split
    · simp
    · simp [h]
    · exact ih (some x) rfl

theorem select_total (span : α → Span) (pos : Nat) (xs : List α) (h : xs ≠ []) :
    (selectSpanned span pos xs).2 ≠ none := by
  cases xs with
  | nil => exact absurd rfl h
  | cons x rest =>
    have := selectGo_isSome span pos rest (some x) rfl
    simp only [selectSpanned, selectGo]
    split
    · simp
    · simp only [Option.isSome_none, Bool.false_eq_true, ↓reduceIte]
      intro h'; rw [h'] at this; simp at this
    · intro h'; rw [h'] at this; simp at this

theorem selectGo_mem (span : α → Span) (pos : Nat) (xs : List α) :
    ∀ (prev : Option α) (y : α), (selectGo span pos prev xs).2 = some y → y ∈ xs ∨ prev = some y := by
  induction xs with
  | nil => intro prev y h; right; simpa [selectGo] using h
  | cons x rest ih =>
    intro prev y h
    simp only [selectGo] at h
    split at h
    · left; simp at h; simp [h]
    · split at h
      · right; simpa using h
      · rcases ih _ _ h with h1 | h1
        · left; simp [h1]
        · left; simp at h1; simp [h1]
    · rcases ih _ _ h with h1 | h1
      · left; simp [h1]
      · left; simp at h1; simp [h1]

theorem select_mem (span : α → Span) (pos : Nat) (xs : List α) (y : α)
    (h : (selectSpanned span pos xs).2 = some y) : y ∈ xs := by
  rcases selectGo_mem span pos xs none y h with h | h
  · exact h
  · simp at h

/-- flag `false` (= "not on whitespace") means the selected element contains the position -/
theorem selectGo_false (span : α → Span) (pos : Nat) (xs : List α) :
    ∀ (prev r : Option α), selectGo span pos prev xs = (false, r) →
      ∃ y, r = some y ∧ y ∈ xs ∧ (span y).containment pos = .eq := by
  induction xs with
  | nil => intro prev r h; simp [selectGo] at h
  | cons x rest ih =>
    intro prev r h
    simp only [selectGo] at h
    split at h
    · rename_i heq
      simp at h; exact ⟨x, h.symm, by simp, heq⟩
    · split at h
      · simp at h
      · obtain ⟨y, h1, h2, h3⟩ := ih _ _ h
        exact ⟨y, h1, by simp [h2], h3⟩
    · obtain ⟨y, h1, h2, h3⟩ := ih _ _ h
      exact ⟨y, h1, by simp [h2], h3⟩

/-- flag `true`: whatever is selected does not contain the position (given the carried `prev`
    does not) -/
theorem selectGo_true (span : α → Span) (pos : Nat) (xs : List α) :
    ∀ (prev r : Option α), (∀ y, prev = some y → (span y).containment pos ≠ .eq) →
      selectGo span pos prev xs = (true, r) → ∀ y, r = some y → (span y).containment pos ≠ .eq := by
  induction xs with
  | nil => intro prev r hp h; simp [selectGo] at h; subst h; exact hp
  | cons x rest ih =>
    intro prev r hp h
    simp only [selectGo] at h
    split at h
    · simp at h
    · rename_i hlt
      split at h
      · simp at h; subst h; exact hp
      · exact ih _ _ (by intro y hy; simp at hy; subst hy; simp [hlt]) h
    · rename_i hgt
      exact ih _ _ (by intro y hy; simp at hy; subst hy; simp [hgt]) h

def WfSpan (s : Span) : Prop := s.lo ≤ s.hi

/-- sorted by start, all spans well formed, some element contains `pos`:
    the first such element is selected, and the flag is `false`. -/
theorem selectGo_correct (span : α → Span) (pos : Nat) (xs : List α)
    (hs : xs.Pairwise (fun a b => (span a).lo ≤ (span b).lo))
    (hw : ∀ x ∈ xs, WfSpan (span x))
    (hex : ∃ x ∈ xs, (span x).containment pos = .eq) :
    ∀ prev, selectGo span pos prev xs =
      (false, xs.find? (fun x => (span x).containment pos == .eq)) := by
  induction xs with
  | nil => simp at hex
  | cons x rest ih =>
    intro prev
    simp only [selectGo, List.find?]
    rw [List.pairwise_cons] at hs
    split
    · rename_i heq; simp [heq]
    · rename_i hlt
      exfalso
      obtain ⟨y, hy, hyeq⟩ := hex
      simp at hy
      rcases hy with rfl | hy
      · rw [hyeq] at hlt; cases hlt
      · rw [containment_lt_iff] at hlt
        have h1 := hs.1 y hy
        have h2 := hw y (by simp [hy])
        unfold WfSpan at h2
        rw [containment_eq_iff] at hyeq
        omega
    · rename_i hgt
      simp only [hgt]
      have : (Ordering.gt == Ordering.eq) = false := rfl
      simp only [this]
      apply ih hs.2 (fun x hx => hw x (by simp [hx]))
      obtain ⟨y, hy, hyeq⟩ := hex
      simp at hy
      rcases hy with rfl | hy
      · rw [hgt] at hyeq; cases hyeq
      · exact ⟨y, hy, hyeq⟩

/-! ### No `unwrap` panic -/

theorem okList_mem {cs : List Expr} (h : okList cs = true) : ∀ c ∈ cs, c.ok = true := by
  induction cs with
  | nil => simp
  | cons q qs ih =>
    simp only [okList, Bool.and_eq_true] at h
    intro p hp
    simp at hp
    rcases hp with rfl | hp
    · exact h.1
    · exact ih h.2 p hp

theorem okBinds_mem {bs : List LBind} (h : okBinds bs = true) :
    ∀ b ∈ bs, b.expr.ok = true := by
  induction bs with
  | nil => simp
  | cons q qs ih =>
    cases q with | mk n a e =>
    simp only [okBinds, Bool.and_eq_true] at h
    intro p hp
    simp at hp
    rcases hp with rfl | hp
    · exact h.1
    · exact ih h.2 p hp

theorem okAlts_mem {bs : List Alt} (h : okAlts bs = true) :
    ∀ b ∈ bs, b.expr.ok = true := by
  induction bs with
  | nil => simp
  | cons q qs ih =>
    cases q with | mk n e =>
    simp only [okAlts, Bool.and_eq_true] at h
    intro p hp
    simp at hp
    rcases hp with rfl | hp
    · exact h.1
    · exact ih h.2 p hp

/-- what `visit_any` may be handed -/
def Variant.ok : Variant → Bool
  | .expr e => e.ok
  | _ => true

theorem recordVariants_ok {fs : List Field} {base : Option Expr}
    (hf : okFields fs = true) (hb : ∀ b, base = some b → b.ok = true) :
    ∀ v ∈ recordVariants fs base, Variant.ok v = true := by
  intro v hv
  simp only [recordVariants, List.mem_append, List.mem_flatMap] at hv
  rcases hv with ⟨f, hfm, hv⟩ | hv
  · induction fs with
    | nil => simp at hfm
    | cons g gs ih =>
      simp at hfm
      rcases hfm with rfl | hfm
      · cases f with | mk sp val =>
        cases val with
        | none => simp at hv; subst hv; rfl
        | some e =>
          simp at hv
          rcases hv with rfl | rfl
          · rfl
          · simp only [okFields, Bool.and_eq_true] at hf; exact hf.1
      · apply ih _ hfm
        cases g with | mk sp val =>
        cases val with
        | none => simpa [okFields] using hf
        | some e => simp only [okFields, Bool.and_eq_true] at hf; exact hf.2
  · cases base with
    | none => simp at hv
    | some b => simp at hv; subst hv; exact hb b rfl

def Node.ok : Node → Bool
  | .expr e => e.ok
  | .pat _ => true
  | .variant (some (.expr e)) => e.ok
  | .variant _ => true

/-- what one step may produce from an `ok` node -/
def StepOk : Next → Prop
  | .done o => o ≠ .panic
  | .go n _ => Node.ok n = true

theorem variant_ok_of_mem {vs : List Variant} (h : ∀ v ∈ vs, Variant.ok v = true) (pos : Nat) :
    Node.ok (.variant (selectSpanned Variant.span pos vs).2) = true := by
  cases hsel : (selectSpanned Variant.span pos vs).2 with
  | none => rfl
  | some x =>
    have hx := h x (select_mem _ _ _ _ hsel)
    cases x <;> first | rfl | exact hx

theorem step_ok (fx : Bool) (pos : Nat) (n : Node) (st : St) (h : Node.ok n = true) :
    StepOk (step fx pos n st) := by
  cases n with
  | pat p =>
    cases p with
    | leaf sp b => simp [step, StepOk]
    | as_ sp b q => simp [step, StepOk, Node.ok]
    | ctor sp len args =>
      simp only [step]
      split
      · simp [StepOk]
      · split <;> simp [StepOk, Node.ok]
    | tuple sp elems =>
      simp only [step]
      split <;> simp [StepOk, Node.ok]
    | record sp fs =>
      simp only [step]
      split
      · simp [StepOk]
      · split <;> simp [StepOk, Node.ok]
      · simp [StepOk]
    | fieldShort nsp b => simp [step, StepOk]
    | fieldVal nsp v => simp [step, StepOk]
  | variant v =>
    cases v with
    | none => simp [step, StepOk]
    | some x =>
      cases x with
      | pat p => simp [step, StepOk, Node.ok]
      | ident a => simp [step, StepOk]
      | field sp => simp [step, StepOk]
      | expr e => simpa [step, StepOk, Node.ok] using h
  | expr e =>
    simp only [Node.ok] at h
    cases e with
    | leaf sp => simp [step, StepOk]
    | emptyNode sp => simp [step, StepOk]
    | error sp => simp [step, StepOk]
    | one sp cs =>
      simp only [step]
      simp only [Expr.ok, Bool.and_eq_true] at h
      split
      · rename_i c hc
        simpa [StepOk, Node.ok] using okList_mem h.2 c (select_mem _ _ _ _ hc)
      · rename_i hnone
        exfalso
        have hne : cs ≠ [] := by
          intro h'; subst h'; simp at h
        exact select_total Expr.span pos cs hne hnone
    | «infix» sp l op r =>
      simp only [step]
      simp only [Expr.ok, Bool.and_eq_true] at h
      split <;> simp [StepOk, Node.ok, h.1, h.2]
    | proj sp e =>
      simp only [step]
      simp only [Expr.ok] at h
      split <;> simp [StepOk, Node.ok, h]
    | annotated sp e =>
      simp only [step]
      simp only [Expr.ok] at h
      simp [StepOk, Node.ok, h]
    | lambda sp args body =>
      simp only [step]
      simp only [Expr.ok] at h
      split <;> simp [StepOk, Node.ok, h]
    | letb sp isRec binds body =>
      simp only [step]
      simp only [Expr.ok, Bool.and_eq_true] at h
      split
      · rename_i b hb
        have hbm : b ∈ binds := select_mem LBind.span pos binds b (by rw [hb])
        have hbo := okBinds_mem h.1 b hbm
        simp only [StepOk]
        apply variant_ok_of_mem
        intro x hxm
        simp only [bindVariants, List.mem_cons, List.mem_append, List.mem_map,
          List.not_mem_nil, or_false] at hxm
        rcases hxm with rfl | ⟨a, _, rfl⟩ | rfl
        · rfl
        · rfl
        · exact hbo
      · simp [StepOk, Node.ok, h.2]
    | matchE sp scrut alts =>
      simp only [step]
      simp only [Expr.ok, Bool.and_eq_true] at h
      split
      · rename_i hnone
        exfalso
        exact select_total _ pos _ (by simp) hnone
      · rename_i e' he'
        have hm := select_mem _ _ _ _ he'
        simp at hm
        subst hm
        simpa [StepOk, Node.ok] using h.1
      · rename_i a ha
        have hm := select_mem _ _ _ _ ha
        simp at hm
        have hao := okAlts_mem h.2 a hm
        split
        · rename_i hnone
          exfalso
          exact select_total _ pos _ (by simp) hnone
        · simp [StepOk, Node.ok]
        · rename_i e' he'
          have hm2 := select_mem _ _ _ _ he'
          simp at hm2
          subst hm2
          simpa [StepOk, Node.ok] using hao
    | record sp fields base =>
      simp only [step]
      unfold Expr.ok at h
      simp only [Bool.and_eq_true] at h
      simp only [StepOk]
      apply variant_ok_of_mem
      intro x hx
      apply recordVariants_ok h.1 _ x hx
      intro b hb
      subst hb
      simpa using h.2

theorem run_no_panic (fx : Bool) (pos : Nat) :
    ∀ (fuel : Nat) (n : Node) (st : St), Node.ok n = true → run fx pos fuel n st ≠ .panic := by
  intro fuel
  induction fuel with
  | zero => intro n st _; simp [run]
  | succ k ih =>
    intro n st h
    have hs := step_ok fx pos n st h
    simp only [run]
    split
    · rename_i o ho; rw [ho] at hs; exact hs
    · rename_i n' st' ho; rw [ho] at hs; exact ih n' st' hs

theorem no_panic (fx : Bool) (pos : Nat) : ∀ fuel : Nat,
    (∀ p st, visitPat fx pos fuel p st ≠ .panic) ∧
    (∀ v st, (∀ x, v = some x → Variant.ok x = true) → visitVariant fx pos fuel v st ≠ .panic) ∧
    (∀ e st, e.ok = true → visitExpr fx pos fuel e st ≠ .panic) := by
  intro fuel
  refine ⟨fun p st => run_no_panic fx pos fuel _ st rfl, ?_, fun e st h => run_no_panic fx pos fuel _ st h⟩
  intro v st hv
  apply run_no_panic
  cases v with
  | none => rfl
  | some x => have := hv x rfl; cases x <;> first | rfl | exact this

/-! ### Fuel -/

/-- Once the loop answers without running out of fuel, more fuel changes nothing. -/
theorem run_mono (fx : Bool) (pos : Nat) :
    ∀ (fuel : Nat) (n : Node) (st : St), run fx pos fuel n st ≠ .fuel →
      run fx pos (fuel + 1) n st = run fx pos fuel n st := by
  intro fuel
  induction fuel with
  | zero => intro n st h; simp [run] at h
  | succ k ih =>
    intro n st h
    rw [run] at h
    rw [run, run]
    split
    · rfl
    · rename_i n' st' ho
      rw [ho] at h
      exact ih n' st' h

theorem run_mono_le (fx : Bool) (pos : Nat) (f g : Nat) (n : Node) (st : St)
    (h : run fx pos f n st ≠ .fuel) (hle : f ≤ g) : run fx pos g n st = run fx pos f n st := by
  induction g with
  | zero => have : f = 0 := by omega
            subst this; rfl
  | succ k ih =>
    by_cases hk : f ≤ k
    · have := ih hk
      rw [run_mono fx pos k n st (by rw [this]; exact h), this]
    · have : f = k + 1 := by omega
      subst this; rfl

end GluonModel.FindPos.Proofs
