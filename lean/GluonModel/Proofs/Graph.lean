/-
C04: the used-set computed by the dependency graph (`Dce.usedWith ruleNow`) is closed for the
expression (`Dce.kept`), so dead-code elimination with it is covered by the simulation theorem.
-/
import GluonModel.OptCore
import GluonModel.Dce
import GluonModel.Proofs.Dce

namespace GluonModel.Proofs.Graph
open GluonModel.OptCore GluonModel.Dce

theorem get_push {α} {a : Array α} {i : Nat} {w x : α} (h : a[i]? = some w) :
    (a.push x)[i]? = some w := by
  have hi : i < a.size := by
    rcases Nat.lt_or_ge i a.size with h1 | h1
    · exact h1
    · simp [Array.getElem?_eq_none h1] at h
  rw [Array.getElem?_push]
  have : i ≠ a.size := Nat.ne_of_lt hi
  simp [this, h]

/-- The graph only grows: edges stay, nodes keep their weight. -/
structure Ext (a b : St) : Prop where
  edges : ∀ e ∈ a.edges, e ∈ b.edges
  nodes : ∀ (i : Nat) (w : Option String), a.nodes[i]? = some w → b.nodes[i]? = some w

/-- Every entry of the symbol map points at a node carrying that symbol. -/
def FramesOK (st : St) : Prop :=
  ∀ f ∈ st.frames, ∀ p ∈ f, st.nodes[p.2]? = some (some p.1)

def Tr (a b : St) : Prop := Ext a b ∧ (FramesOK a → FramesOK b)

theorem ext_refl (a : St) : Ext a a := ⟨fun _ h => h, fun _ _ h => h⟩
theorem ext_trans {a b c : St} (h1 : Ext a b) (h2 : Ext b c) : Ext a c :=
  ⟨fun e h => h2.edges e (h1.edges e h), fun i w h => h2.nodes i w (h1.nodes i w h)⟩
theorem tr_refl (a : St) : Tr a a := ⟨ext_refl a, id⟩
theorem tr_trans {a b c : St} (h1 : Tr a b) (h2 : Tr b c) : Tr a c :=
  ⟨ext_trans h1.1 h2.1, fun h => h2.2 (h1.2 h)⟩

theorem tr_addEdge (st : St) (a b : Nat) : Tr st (addEdge st a b) :=
  ⟨⟨fun e h => by simp [addEdge, h], fun _ _ h => h⟩, fun h => h⟩

theorem mem_addEdge (st : St) (a b : Nat) : (a, b) ∈ (addEdge st a b).edges := by simp [addEdge]

theorem tr_addEdges (st : St) (es : List (Nat × Nat)) : Tr st (addEdges st es) :=
  ⟨⟨fun e h => by simp [addEdges, h], fun _ _ h => h⟩, fun h => h⟩

theorem mem_addEdges (st : St) (es : List (Nat × Nat)) : ∀ e ∈ es, e ∈ (addEdges st es).edges := by
  intro e h; simp [addEdges, h]

theorem tr_pushFrame (st : St) : Tr st (pushFrame st) := by
  refine ⟨⟨fun _ h => h, fun _ _ h => h⟩, ?_⟩
  intro h f hf p hp
  simp only [pushFrame, List.mem_cons] at hf
  rcases hf with hf | hf
  · subst hf; simp at hp
  · exact h f hf p hp

theorem tr_popFrame (st : St) : Tr st (popFrame st) := by
  refine ⟨⟨fun _ h => h, fun _ _ h => h⟩, ?_⟩
  intro h f hf p hp
  exact h f (List.mem_of_mem_drop hf) p hp

theorem tr_pushNone (st : St) : Tr st (pushNone st) := by
  refine ⟨⟨fun _ h => h, fun i w h => get_push h⟩, ?_⟩
  intro h f hf p hp
  exact get_push (h f hf p hp)

theorem frameLookup_mem : ∀ (fs : List (List (String × Nat))) (x : String) (i : Nat),
    frameLookup fs x = some i → ∃ f ∈ fs, (x, i) ∈ f
  | [], _, _, h => by simp [frameLookup] at h
  | f :: fs, x, i, h => by
    simp only [frameLookup] at h
    split at h
    · rename_i p hp
      have h1 := List.mem_of_find?_eq_some hp
      have h2 : p.1 = x := by simpa using List.find?_some hp
      simp only [Option.some.injEq] at h
      refine ⟨f, by simp, ?_⟩
      rw [← h2, ← h]
      exact h1
    · obtain ⟨g, hg, hm⟩ := frameLookup_mem fs x i h
      exact ⟨g, by simp [hg], hm⟩

/-- `add_node`: the graph grows, the symbol map stays sound, the node carries the symbol. -/
theorem addNode_spec (st : St) (x : String) :
    Tr st (addNode st x).1 ∧
      (FramesOK st → (addNode st x).1.nodes[(addNode st x).2]? = some (some x)) := by
  unfold addNode
  split
  · rename_i i hi
    refine ⟨tr_refl st, ?_⟩
    intro h
    obtain ⟨f, hf, hm⟩ := frameLookup_mem _ _ _ hi
    exact h f hf _ hm
  · refine ⟨⟨⟨fun _ h => h, fun i w h => get_push h⟩, ?_⟩, ?_⟩
    · intro h f hf p hp
      simp only at hf
      split at hf
      · simp only [List.mem_singleton] at hf
        subst hf
        simp only [List.mem_singleton] at hp
        subst hp
        simp
      · rename_i g gs hfr
        simp only [List.mem_cons] at hf
        rcases hf with hf | hf
        · subst hf
          simp only [List.mem_cons] at hp
          rcases hp with hp | hp
          · subst hp; simp
          · exact get_push (h g (by simp [hfr]) p hp)
        · exact get_push (h f (by simp [hfr, hf]) p hp)
    · intro _
      simp

theorem tr_addNode (st : St) (x : String) : Tr st (addNode st x).1 := (addNode_spec st x).1

theorem tr_addNodes : ∀ (xs : List String) (st : St), Tr st (addNodes xs st)
  | [], st => tr_refl st
  | x :: xs, st => tr_trans (tr_addNode st x) (tr_addNodes xs _)

theorem tr_bindNames (scrut : Nat) : ∀ (xs : List String) (st : St), Tr st (bindNames scrut xs st)
  | [], st => tr_refl st
  | x :: xs, st =>
    tr_trans (tr_trans (tr_addNode st x) (tr_addEdge _ _ _)) (tr_bindNames scrut xs _)

theorem tr_bindAlts (scrut : Nat) : ∀ (alts : Alts) (st : St), Tr st (bindAlts scrut alts st)
  | .nil, st => tr_refl st
  | .cons p _ rest, st => tr_trans (tr_bindNames scrut _ st) (tr_bindAlts scrut rest _)

theorem tr_ite (c : Bool) {a b1 b2 : St} (h1 : Tr a b1) (h2 : Tr a b2) :
    Tr a (if c then b1 else b2) := by
  cases c <;> simp [h1, h2]

mutual
theorem visit_tr (rule : Expr → Bool) : ∀ (e : Expr) (cur : List (Bool × Nat)) (st : St),
    Tr st (visit rule e cur st)
  | .const _, _, st => by simp only [visit]; exact tr_refl st
  | .ident x, cur, st => by
    simp only [visit]; exact tr_trans (tr_addNode st x) (tr_addEdge _ _ _)
  | .call f args, cur, st => by
    simp only [visit]
    exact tr_trans (tr_trans (tr_ite _ (tr_addEdges st _) (tr_refl st)) (visit_tr rule f cur _))
      (visitList_tr rule args cur _)
  | .data _ _ args, cur, st => by simp only [visit]; exact visitList_tr rule args cur st
  | .letE x e body, cur, st => by
    simp only [visit]
    exact tr_trans (tr_trans (tr_trans (tr_trans (tr_pushFrame st) (tr_addNode _ x))
      (visit_tr rule e _ _)) (visit_tr rule body cur _)) (tr_popFrame _)
  | .letRec cs body, cur, st => by
    simp only [visit]
    exact tr_trans (tr_trans (tr_trans (tr_trans (tr_pushFrame st) (tr_addNodes _ _))
      (visitClosures_tr rule cs cur _)) (visit_tr rule body cur _)) (tr_popFrame _)
  | .matchE s alts, cur, st => by
    simp only [visit]
    have h1 : Tr st (visit rule s ((true, st.nodes.size) :: cur)
        (bindAlts st.nodes.size alts (pushNone st))) :=
      tr_trans (tr_trans (tr_pushNone st) (tr_bindAlts _ alts _)) (visit_tr rule s _ _)
    exact tr_trans (tr_trans h1 (tr_ite _ (tr_addEdge _ _ _) (tr_refl _)))
      (visitAlts_tr rule alts cur _)
  | .cast e, cur, st => by simp only [visit]; exact visit_tr rule e cur st
theorem visitList_tr (rule : Expr → Bool) : ∀ (es : Exprs) (cur : List (Bool × Nat)) (st : St),
    Tr st (visitList rule es cur st)
  | .nil, _, st => by simp only [visitList]; exact tr_refl st
  | .cons e es, cur, st => by
    simp only [visitList]; exact tr_trans (visit_tr rule e cur st) (visitList_tr rule es cur _)
theorem visitAlts_tr (rule : Expr → Bool) : ∀ (alts : Alts) (cur : List (Bool × Nat)) (st : St),
    Tr st (visitAlts rule alts cur st)
  | .nil, _, st => by simp only [visitAlts]; exact tr_refl st
  | .cons _ e rest, cur, st => by
    simp only [visitAlts]; exact tr_trans (visit_tr rule e cur st) (visitAlts_tr rule rest cur _)
theorem visitClosures_tr (rule : Expr → Bool) : ∀ (cs : Closures) (cur : List (Bool × Nat)) (st : St),
    Tr st (visitClosures rule cs cur st)
  | .nil, _, st => by simp only [visitClosures]; exact tr_refl st
  | .cons n _ b rest, cur, st => by
    simp only [visitClosures]
    exact tr_trans (tr_trans (tr_addNode st n) (visit_tr rule b _ _)) (visitClosures_tr rule rest cur _)
end


/-! ### Closedness of the reachable names -/

/-- What the proof uses of the final graph `F`, of the reachable set and of the used names. -/
structure Final (F : St) (Reach : Nat → Prop) (U : String → Bool) : Prop where
  closed : ∀ a b, (a, b) ∈ F.edges → Reach a → Reach b
  name : ∀ i x, Reach i → F.nodes[i]? = some (some x) → U x = true

/-- All nodes of a bound symbol are reachable together. -/
def Coh (F : St) (Reach : Nat → Prop) (U : String → Bool) (x : String) : Prop :=
  U x = true → ∀ i, F.nodes[i]? = some (some x) → Reach i

theorem ruleNow_of_not_builtin {f : Expr} (h : builtinCallee f = none) : ruleNow f = true := by
  cases f <;> simp_all [builtinCallee, ruleNow]

theorem callEdges_sub (c : Bool × Nat) (cur : List (Bool × Nat)) (hc : c.1 = true) :
    ∀ ed ∈ callEdges cur, ed ∈ callEdges (c :: cur) := by
  intro ed hed
  cases cur with
  | nil => simp [callEdges] at hed
  | cons d rest =>
    obtain ⟨isE, n⟩ := c
    obtain ⟨b, p⟩ := d
    simp only at hc
    subst hc
    simp [callEdges, hed]

theorem callEdges_head (n : Nat) (cur : List (Bool × Nat)) (hcur : cur ≠ []) :
    (curNode cur, n) ∈ callEdges ((true, n) :: cur) := by
  cases cur with
  | nil => exact absurd rfl hcur
  | cons d rest =>
    obtain ⟨b, p⟩ := d
    simp [callEdges, curNode]

mutual
/-- An expression that is not call-free puts the whole chain of `Call` edges into the graph. -/
theorem impureI (F : St) : ∀ (e : Expr) (cur : List (Bool × Nat)) (st : St),
    Ext (visit ruleNow e cur st) F → pureE e = false → ∀ ed ∈ callEdges cur, ed ∈ F.edges
  | .const _, _, _, _, hp => by simp [pureE] at hp
  | .ident _, _, _, _, hp => by simp [pureE] at hp
  | .call f args, cur, st, hext, hp => by
    simp only [visit] at hext
    simp only [pureE, Bool.and_eq_false_iff] at hp
    intro ed hed
    have hE1 := ext_trans (visitList_tr ruleNow args cur _).1 hext
    rcases hp with hp | hp
    · have hb : builtinCallee f = none := by
        cases h : builtinCallee f <;> simp_all
      rw [ruleNow_of_not_builtin hb] at hE1
      simp only [if_true] at hE1
      have hE0 := ext_trans (visit_tr ruleNow f cur _).1 hE1
      exact hE0.edges ed (mem_addEdges st _ ed hed)
    · exact impureIList F args cur _ hext hp ed hed
  | .data _ _ args, cur, st, hext, hp => by
    simp only [visit] at hext
    simp only [pureE] at hp
    exact impureIList F args cur st hext hp
  | .letE x e body, cur, st, hext, hp => by
    simp only [visit] at hext
    simp only [pureE, Bool.and_eq_false_iff] at hp
    have hE4 := ext_trans (tr_popFrame _).1 hext
    rcases hp with hp | hp
    · have hE3 := ext_trans (visit_tr ruleNow body cur _).1 hE4
      intro ed hed
      exact impureI F e _ _ hE3 hp ed (callEdges_sub _ cur rfl ed hed)
    · exact impureI F body cur _ hE4 hp
  | .letRec cs body, cur, st, hext, hp => by
    simp only [visit] at hext
    simp only [pureE] at hp
    exact impureI F body cur _ (ext_trans (tr_popFrame _).1 hext) hp
  | .matchE s alts, cur, st, hext, hp => by
    simp only [visit] at hext
    simp only [pureE, Bool.and_eq_false_iff] at hp
    rcases hp with hp | hp
    · have hE4 := ext_trans (visitAlts_tr ruleNow alts cur _).1 hext
      have hE3 : Ext (visit ruleNow s ((true, st.nodes.size) :: cur)
          (bindAlts st.nodes.size alts (pushNone st))) F :=
        ext_trans (tr_ite _ (tr_addEdge _ _ _) (tr_refl _)).1 hE4
      intro ed hed
      exact impureI F s _ _ hE3 hp ed (callEdges_sub _ cur rfl ed hed)
    · exact impureIAlts F alts cur _ hext hp
  | .cast e, cur, st, hext, hp => by
    simp only [visit] at hext
    simp only [pureE] at hp
    exact impureI F e cur st hext hp
theorem impureIList (F : St) : ∀ (es : Exprs) (cur : List (Bool × Nat)) (st : St),
    Ext (visitList ruleNow es cur st) F → pureList es = false → ∀ ed ∈ callEdges cur, ed ∈ F.edges
  | .nil, _, _, _, hp => by simp [pureList] at hp
  | .cons e es, cur, st, hext, hp => by
    simp only [visitList] at hext
    simp only [pureList, Bool.and_eq_false_iff] at hp
    rcases hp with hp | hp
    · exact impureI F e cur st (ext_trans (visitList_tr ruleNow es cur _).1 hext) hp
    · exact impureIList F es cur _ hext hp
theorem impureIAlts (F : St) : ∀ (alts : Alts) (cur : List (Bool × Nat)) (st : St),
    Ext (visitAlts ruleNow alts cur st) F → pureAlts alts = false → ∀ ed ∈ callEdges cur, ed ∈ F.edges
  | .nil, _, _, _, hp => by simp [pureAlts] at hp
  | .cons _ e rest, cur, st, hext, hp => by
    simp only [visitAlts] at hext
    simp only [pureAlts, Bool.and_eq_false_iff] at hp
    rcases hp with hp | hp
    · exact impureI F e cur st (ext_trans (visitAlts_tr ruleNow rest cur _).1 hext) hp
    · exact impureIAlts F rest cur _ hext hp
end

/-- `bind_pattern`: every binder gets a node carrying its symbol with an edge to the scrutinee. -/
theorem bindNames_edge (scrut : Nat) : ∀ (xs : List String) (st : St), FramesOK st →
    ∀ x ∈ xs, ∃ i, (i, scrut) ∈ (bindNames scrut xs st).edges ∧
      (bindNames scrut xs st).nodes[i]? = some (some x)
  | [], _, _, x, hx => by simp at hx
  | y :: ys, st, hfr, x, hx => by
    simp only [bindNames]
    obtain ⟨htr, hname⟩ := addNode_spec st y
    have htr2 := tr_trans htr (tr_addEdge (addNode st y).1 (addNode st y).2 scrut)
    have hrest := tr_bindNames scrut ys (addEdge (addNode st y).1 (addNode st y).2 scrut)
    simp only [List.mem_cons] at hx
    rcases hx with hx | hx
    · subst hx
      refine ⟨(addNode st x).2, hrest.1.edges _ (mem_addEdge _ _ _), ?_⟩
      exact hrest.1.nodes _ _ (hname hfr)
    · exact bindNames_edge scrut ys _ (htr2.2 hfr) x hx

theorem singleRecordOK_shape {sp : Bool} {alts : Alts} (h : singleRecordOK sp alts = true) :
    ∃ fs b, alts = .cons (.record fs) b .nil ∧ (sp = true ∨ projBody fs b = true) := by
  cases alts with
  | nil => simp [singleRecordOK] at h
  | cons p b rest =>
    cases rest with
    | cons _ _ _ => cases p <;> simp [singleRecordOK] at h
    | nil =>
      cases p with
      | record fs => exact ⟨fs, b, rfl, by simpa [singleRecordOK] using h⟩
      | ctor _ _ => simp [singleRecordOK] at h
      | ident _ => simp [singleRecordOK] at h
      | lit _ => simp [singleRecordOK] at h

theorem keptFirst_of_keptAlts (U : String → Bool) : ∀ (alts : Alts),
    keptAlts U alts = true → keptFirstBody U alts = true
  | .nil, _ => rfl
  | .cons _ e rest, h => by
    simp only [keptAlts, Bool.and_eq_true] at h
    simpa [keptFirstBody] using h.1

section
variable {F : St} {Reach : Nat → Prop} {U : String → Bool} (hF : Final F Reach U)
include hF

mutual
theorem keptK : ∀ (e : Expr) (cur : List (Bool × Nat)) (st : St),
    FramesOK st → cur ≠ [] → Ext (visit ruleNow e cur st) F → Reach (curNode cur) →
    shapeOK e = true → (∀ x ∈ allBinders e, Coh F Reach U x) → kept U e = true
  | .const _, _, _, _, _, _, _, _, _ => rfl
  | .ident x, cur, st, hfr, _, hext, hr, _, _ => by
    simp only [visit] at hext
    simp only [kept]
    obtain ⟨htr, hname⟩ := addNode_spec st x
    have hE1 := ext_trans (tr_addEdge (addNode st x).1 (curNode cur) (addNode st x).2).1 hext
    have hedge := hext.edges _ (mem_addEdge (addNode st x).1 (curNode cur) (addNode st x).2)
    exact hF.name _ x (hF.closed _ _ hedge hr) (hE1.nodes _ _ (hname hfr))
  | .call f args, cur, st, hfr, hc, hext, hr, hs, hb => by
    simp only [visit] at hext
    simp only [shapeOK, Bool.and_eq_true] at hs
    simp only [allBinders, List.mem_append] at hb
    simp only [kept, Bool.and_eq_true]
    have htr0 : Tr st (if ruleNow f = true then addEdges st (callEdges cur) else st) :=
      tr_ite _ (tr_addEdges st _) (tr_refl st)
    have htr1 := visit_tr ruleNow f cur (if ruleNow f = true then addEdges st (callEdges cur) else st)
    have hE1 := ext_trans (visitList_tr ruleNow args cur _).1 hext
    exact ⟨keptK f cur _ (htr0.2 hfr) hc hE1 hr hs.1 (fun x hx => hb x (Or.inl hx)),
      keptKList args cur _ (htr1.2 (htr0.2 hfr)) hc hext hr hs.2 (fun x hx => hb x (Or.inr hx))⟩
  | .data _ _ args, cur, st, hfr, hc, hext, hr, hs, hb => by
    simp only [visit] at hext
    simp only [shapeOK] at hs
    simp only [allBinders] at hb
    simp only [kept]
    exact keptKList args cur st hfr hc hext hr hs hb
  | .letE x e body, cur, st, hfr, hc, hext, hr, hs, hb => by
    simp only [visit] at hext
    simp only [shapeOK, Bool.and_eq_true] at hs
    simp only [allBinders, List.mem_cons, List.mem_append] at hb
    simp only [kept, Bool.and_eq_true]
    obtain ⟨htr2, hname⟩ := addNode_spec (pushFrame st) x
    have hfr2 := htr2.2 ((tr_pushFrame st).2 hfr)
    have htr3 := visit_tr ruleNow e ((true, (addNode (pushFrame st) x).2) :: cur)
      (addNode (pushFrame st) x).1
    have hE4 := ext_trans (tr_popFrame _).1 hext
    have hE3 := ext_trans (visit_tr ruleNow body cur _).1 hE4
    have hE2 := ext_trans htr3.1 hE3
    have hnameF := hE2.nodes _ _ (hname ((tr_pushFrame st).2 hfr))
    refine ⟨?_, keptK body cur _ (htr3.2 hfr2) hc hE4 hr hs.2 (fun y hy => hb y (Or.inr (Or.inr hy)))⟩
    by_cases hx : U x = true
    · simp only [hx, if_true]
      have hri := hb x (Or.inl rfl) hx _ hnameF
      exact keptK e _ _ hfr2 (by simp) hE3 hri hs.1 (fun y hy => hb y (Or.inr (Or.inl hy)))
    · simp only [hx, Bool.false_eq_true, if_false]
      cases hp : pureE e with
      | true => rfl
      | false =>
        exfalso
        have hedge := impureI F e _ _ hE3 hp _ (callEdges_head (addNode (pushFrame st) x).2 cur hc)
        exact hx (hF.name _ x (hF.closed _ _ hedge hr) hnameF)
  | .letRec cs body, cur, st, hfr, hc, hext, hr, hs, hb => by
    simp only [visit] at hext
    simp only [shapeOK, Bool.and_eq_true] at hs
    simp only [allBinders, List.mem_append] at hb
    simp only [kept, Bool.and_eq_true]
    have hfr1 := (tr_addNodes (closureNames cs) (pushFrame st)).2 ((tr_pushFrame st).2 hfr)
    have htr2 := visitClosures_tr ruleNow cs cur (addNodes (closureNames cs) (pushFrame st))
    have hE4 := ext_trans (tr_popFrame _).1 hext
    have hE3 := ext_trans (visit_tr ruleNow body cur _).1 hE4
    exact ⟨keptKClosures cs cur _ hfr1 hE3 hs.1
        (fun x hx => hb x (Or.inl hx)) (fun x hx => hb x (Or.inr (Or.inl hx))),
      keptK body cur _ (htr2.2 hfr1) hc hE4 hr hs.2 (fun x hx => hb x (Or.inr (Or.inr hx)))⟩
  | .matchE s alts, cur, st, hfr, hc, hext, hr, hs, hb => by
    simp only [visit] at hext
    simp only [shapeOK, Bool.and_eq_true, Bool.or_eq_true] at hs
    simp only [allBinders, List.mem_append] at hb
    obtain ⟨hshape, hss, hsa⟩ := hs
    have htr2 : Tr st (bindAlts st.nodes.size alts (pushNone st)) :=
      tr_trans (tr_pushNone st) (tr_bindAlts _ alts _)
    have htr3 := visit_tr ruleNow s ((true, st.nodes.size) :: cur)
      (bindAlts st.nodes.size alts (pushNone st))
    have htr4 : Tr (visit ruleNow s ((true, st.nodes.size) :: cur)
        (bindAlts st.nodes.size alts (pushNone st)))
        (if altsHaveCtorOrLit alts = true then
          addEdge (visit ruleNow s ((true, st.nodes.size) :: cur)
            (bindAlts st.nodes.size alts (pushNone st))) (curNode cur) st.nodes.size
         else visit ruleNow s ((true, st.nodes.size) :: cur)
            (bindAlts st.nodes.size alts (pushNone st))) :=
      tr_ite _ (tr_addEdge _ _ _) (tr_refl _)
    have hE4 := ext_trans (visitAlts_tr ruleNow alts cur _).1 hext
    have hE3 := ext_trans htr4.1 hE4
    have hE2 := ext_trans htr3.1 hE3
    have hfr2 := htr2.2 hfr
    have hfr4 := htr4.2 (htr3.2 hfr2)
    have hka : keptAlts U alts = true :=
      keptKAlts alts cur _ hfr4 hc hext hr hsa (fun x hx => hb x (Or.inr hx))
    by_cases hd : dropMatch U alts = true
    · simp only [kept, hd, if_true, Bool.and_eq_true]
      refine ⟨?_, keptFirst_of_keptAlts U alts hka⟩
      obtain ⟨fields, b, hal, hunused⟩ := GluonModel.Proofs.Dce.dropMatch_shape hd
      subst hal
      rcases hshape with hcl | hsr
      · simp [altsHaveCtorOrLit] at hcl
      · obtain ⟨fs, b', heq, hor⟩ := singleRecordOK_shape hsr
        cases heq
        rcases hor with hp | hpb
        · exact hp
        · exfalso
          cases b with
          | ident bn =>
            simp only [projBody, List.any_eq_true] at hpb
            obtain ⟨f, hf, hfb⟩ := hpb
            have hbn : f.2 = bn := by simpa using hfb
            simp only [keptAlts, kept, Bool.and_eq_true] at hka
            have := hunused f hf
            rw [hbn, hka.1] at this
            exact Bool.noConfusion this
          | _ => simp [projBody] at hpb
    · have hd' : dropMatch U alts = false := by simpa using hd
      simp only [kept, hd', Bool.false_eq_true, if_false, Bool.and_eq_true]
      refine ⟨?_, hka⟩
      have hrs : Reach st.nodes.size := by
        rcases hshape with hcl | hsr
        · rw [hcl] at hE4
          simp only [if_true] at hE4
          exact hF.closed _ _ (hE4.edges _ (mem_addEdge _ _ _)) hr
        · obtain ⟨fs, b, heq, _⟩ := singleRecordOK_shape hsr
          subst heq
          simp only [dropMatch, Bool.not_eq_false', List.any_eq_true] at hd'
          obtain ⟨f, hf, hfu⟩ := hd'
          have hmem : f.2 ∈ patBinders (.record fs) := by
            simp only [patBinders, List.mem_map]
            exact ⟨f, hf, rfl⟩
          obtain ⟨i, hedge, hnode⟩ := bindNames_edge st.nodes.size (patBinders (.record fs))
            (pushNone st) ((tr_pushNone st).2 hfr) f.2 hmem
          have hE2' : Ext (bindNames st.nodes.size (patBinders (.record fs)) (pushNone st)) F := by
            simpa [bindAlts] using hE2
          have hcoh := hb f.2 (Or.inr (by simp [allBindersAlts, hmem]))
          exact hF.closed _ _ (hE2'.edges _ hedge) (hcoh hfu i (hE2'.nodes _ _ hnode))
      exact keptK s _ _ hfr2 (by simp) hE3 hrs hss (fun x hx => hb x (Or.inl hx))
  | .cast e, cur, st, hfr, hc, hext, hr, hs, hb => by
    simp only [visit] at hext
    simp only [shapeOK] at hs
    simp only [allBinders] at hb
    simp only [kept]
    exact keptK e cur st hfr hc hext hr hs hb
theorem keptKList : ∀ (es : Exprs) (cur : List (Bool × Nat)) (st : St),
    FramesOK st → cur ≠ [] → Ext (visitList ruleNow es cur st) F → Reach (curNode cur) →
    shapeOKList es = true → (∀ x ∈ allBindersList es, Coh F Reach U x) → keptList U es = true
  | .nil, _, _, _, _, _, _, _, _ => rfl
  | .cons e es, cur, st, hfr, hc, hext, hr, hs, hb => by
    simp only [visitList] at hext
    simp only [shapeOKList, Bool.and_eq_true] at hs
    simp only [allBindersList, List.mem_append] at hb
    simp only [keptList, Bool.and_eq_true]
    have htr := visit_tr ruleNow e cur st
    exact ⟨keptK e cur st hfr hc (ext_trans (visitList_tr ruleNow es cur _).1 hext) hr hs.1
        (fun x hx => hb x (Or.inl hx)),
      keptKList es cur _ (htr.2 hfr) hc hext hr hs.2 (fun x hx => hb x (Or.inr hx))⟩
theorem keptKAlts : ∀ (alts : Alts) (cur : List (Bool × Nat)) (st : St),
    FramesOK st → cur ≠ [] → Ext (visitAlts ruleNow alts cur st) F → Reach (curNode cur) →
    shapeOKAlts alts = true → (∀ x ∈ allBindersAlts alts, Coh F Reach U x) → keptAlts U alts = true
  | .nil, _, _, _, _, _, _, _, _ => rfl
  | .cons p e rest, cur, st, hfr, hc, hext, hr, hs, hb => by
    simp only [visitAlts] at hext
    simp only [shapeOKAlts, Bool.and_eq_true] at hs
    simp only [allBindersAlts, List.mem_append] at hb
    simp only [keptAlts, Bool.and_eq_true]
    have htr := visit_tr ruleNow e cur st
    exact ⟨keptK e cur st hfr hc (ext_trans (visitAlts_tr ruleNow rest cur _).1 hext) hr hs.1
        (fun x hx => hb x (Or.inr (Or.inl hx))),
      keptKAlts rest cur _ (htr.2 hfr) hc hext hr hs.2 (fun x hx => hb x (Or.inr (Or.inr hx)))⟩
theorem keptKClosures : ∀ (cs : Closures) (cur : List (Bool × Nat)) (st : St),
    FramesOK st → Ext (visitClosures ruleNow cs cur st) F →
    shapeOKClosures cs = true → (∀ x ∈ closureNames cs, Coh F Reach U x) →
    (∀ x ∈ allBindersClosures cs, Coh F Reach U x) → keptClosures U cs = true
  | .nil, _, _, _, _, _, _, _ => rfl
  | .cons n a b rest, cur, st, hfr, hext, hs, hn, hb => by
    simp only [visitClosures] at hext
    simp only [shapeOKClosures, Bool.and_eq_true] at hs
    simp only [closureNames, List.mem_cons] at hn
    simp only [allBindersClosures, List.mem_append] at hb
    simp only [keptClosures, Bool.and_eq_true]
    obtain ⟨htr1, hname⟩ := addNode_spec st n
    have htr2 := visit_tr ruleNow b ((false, (addNode st n).2) :: cur) (addNode st n).1
    have hE2 := ext_trans (visitClosures_tr ruleNow rest cur _).1 hext
    have hE1 := ext_trans htr2.1 hE2
    refine ⟨?_, keptKClosures rest cur _ (htr2.2 (htr1.2 hfr)) hext hs.2
      (fun x hx => hn x (Or.inr hx)) (fun x hx => hb x (Or.inr hx))⟩
    by_cases hu : U n = true
    · simp only [hu, if_true]
      have hri := hn n (Or.inl rfl) hu _ (hE1.nodes _ _ (hname hfr))
      exact keptK b _ _ (htr1.2 hfr) (by simp) hE2 hri hs.1 (fun x hx => hb x (Or.inl hx))
    · simp [hu]
end
end


/-! ### Instantiation with the graph `used_bindings` builds -/

theorem rep_getD (n i : Nat) : (Array.replicate n true).getD i true = true := by
  simp [Array.getD]

theorem reachable_ok (st : St) :
    closedUnder st.edges (reachable st) = true ∧ (reachable st).getD 0 true = true := by
  unfold reachable
  simp only
  split
  · rename_i h
    simpa [Bool.and_eq_true] using h
  · refine ⟨?_, rep_getD _ _⟩
    simp only [closedUnder, List.all_eq_true]
    intro ed _
    rw [rep_getD, rep_getD]
    rfl

theorem getD_of_get {a : Array (Option String)} {i : Nat} {w : Option String}
    (h : a[i]? = some w) : a.getD i none = w ∧ i < a.size := by
  have hi : i < a.size := by
    rcases Nat.lt_or_ge i a.size with h1 | h1
    · exact h1
    · simp [Array.getElem?_eq_none h1] at h
  refine ⟨?_, hi⟩
  simp [Array.getD, hi]
  simpa [Array.getElem?_eq_getElem hi] using h

theorem inList_iff (l : List String) (x : String) : inList l x = true ↔ x ∈ l := by
  simp [inList]

theorem mem_usedWith_iff (e : Expr) (x : String) :
    inList (usedWith ruleNow e) x = true ↔
      ∃ i, i < (graphOf ruleNow e).nodes.size ∧
        (reachable (graphOf ruleNow e)).getD i true = true ∧
        (graphOf ruleNow e).nodes.getD i none = some x := by
  rw [inList_iff]
  unfold usedWith
  simp only
  constructor
  · intro h
    obtain ⟨i, hi, hfi⟩ := List.mem_filterMap.1 h
    have hi' := List.mem_range.1 hi
    by_cases hm : (reachable (graphOf ruleNow e)).getD i true = true
    · rw [if_pos hm] at hfi
      exact ⟨i, hi', hm, hfi⟩
    · rw [if_neg hm] at hfi
      cases hfi
  · rintro ⟨i, hi, hm, hn⟩
    exact List.mem_filterMap.2 ⟨i, List.mem_range.2 hi, by rw [if_pos hm]; exact hn⟩

theorem final_graphOf (e : Expr) :
    Final (graphOf ruleNow e) (fun i => (reachable (graphOf ruleNow e)).getD i true = true)
      (inList (usedWith ruleNow e)) := by
  constructor
  · intro a b hab ha
    have hc := (reachable_ok (graphOf ruleNow e)).1
    simp only [closedUnder, List.all_eq_true] at hc
    have := hc (a, b) hab
    simp only [ha, Bool.not_true, Bool.false_or] at this
    exact this
  · intro i x hr hn
    obtain ⟨h1, h2⟩ := getD_of_get hn
    exact (mem_usedWith_iff e x).2 ⟨i, h2, hr, h1⟩

theorem coh_of_bindersCoherent (e : Expr) (h : bindersCoherent e = true) :
    ∀ x ∈ allBinders e,
      Coh (graphOf ruleNow e) (fun i => (reachable (graphOf ruleNow e)).getD i true = true)
        (inList (usedWith ruleNow e)) x := by
  intro x hx hu i hn
  simp only [bindersCoherent, List.all_eq_true] at h
  have hx' := h x hx
  obtain ⟨j, hj, hm, hnj⟩ := (mem_usedWith_iff e x).1 hu
  obtain ⟨h1, h2⟩ := getD_of_get hn
  have hjmem : j ∈ nodesNamed (graphOf ruleNow e) x :=
    List.mem_filter.2 ⟨List.mem_range.2 hj, by rw [hnj]; exact beq_self_eq_true _⟩
  have himem : i ∈ nodesNamed (graphOf ruleNow e) x :=
    List.mem_filter.2 ⟨List.mem_range.2 h2, by rw [h1]; exact beq_self_eq_true _⟩
  simp only [Bool.or_eq_true, List.all_eq_true] at hx'
  rcases hx' with hall | hnone
  · exact hall i himem
  · have := hnone j hjmem
    simp [hm] at this

/-- The used-set of the real rule is closed for the expression. -/
theorem usedWith_kept (e : Expr) (hs : shapeOK e = true) (hc : bindersCoherent e = true) :
    kept (inList (usedWith ruleNow e)) e = true := by
  have hF := final_graphOf e
  refine keptK hF e [(true, 0)]
    { nodes := #[some topName], edges := [], frames := [[(topName, 0)]] } ?_ (by simp) ?_ ?_ hs
    (coh_of_bindersCoherent e hc)
  · intro f hf p hp
    simp only [List.mem_singleton] at hf
    subst hf
    simp only [List.mem_singleton] at hp
    subst hp
    simp
  · exact ext_refl _
  · exact (reachable_ok (graphOf ruleNow e)).2

/-- Unique binder nodes are a special case of coherent ones. -/
theorem coherent_of_unique (e : Expr) (h : bindersUnique e = true) : bindersCoherent e = true := by
  simp only [bindersUnique, List.all_eq_true, decide_eq_true_eq] at h
  simp only [bindersCoherent, List.all_eq_true, Bool.or_eq_true]
  intro x hx
  have hl := h x hx
  match hm : nodesNamed (graphOf ruleNow e) x, hl with
  | [], _ => left; intro i hi; simp at hi
  | [j], _ =>
    cases hj : (reachable (graphOf ruleNow e)).getD j true with
    | true => left; intro i hi; simp at hi; subst hi; exact hj
    | false => right; intro i hi; simp at hi; subst hi; simp [hj]

end GluonModel.Proofs.Graph
