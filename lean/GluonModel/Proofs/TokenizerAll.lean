import GluonModel.Proofs.TokenizerScan
/-!
# Every scanner of the tokenizer returns and ends on a scalar boundary; `tokenize_total`
-/
namespace GluonModel.Tokenizer

/-! ### Byte classes are ASCII -/
theorem isDigit_lt {b : Nat} (h : isDigit b = true) : b < 128 := by
  simp [isDigit] at h; omega
theorem isHex_lt {b : Nat} (h : isHex b = true) : b < 128 := by
  simp [isHex, isDigit] at h; omega
theorem isIdentStart_lt {b : Nat} (h : isIdentStart b = true) : b < 128 := by
  simp [isIdentStart] at h; omega
theorem isIdentContinue_lt {b : Nat} (h : isIdentContinue b = true) : b < 128 := by
  simp [isIdentContinue, isDigit, isIdentStart] at h; omega
theorem isOperatorByte_lt {b : Nat} (h : isOperatorByte b = true) : b < 128 := by
  simp [isOperatorByte] at h; omega

theorem keepAscii_of {keep : Nat → Bool} (hk : ∀ b, keep b = true → b < 128) :
    ∀ b, (fun b => !keep b) b = false → b < 128 := by
  intro b hb; exact hk b (by simpa using hb)

@[simp] theorem ok_bind {α β : Type} (a : α) (f : α → Res β) : (Res.ok a >>= f) = f a := rfl
@[simp] theorem pure_eq_ok {α : Type} (a : α) : (pure a : Res α) = Res.ok a := rfl

/-! ### `bytesAt` -/
theorem bytesAt_eq (inp : Input) (s e : Nat) :
    bytesAt inp s e = (inp.toList.drop s).take (e - s) := by
  unfold bytesAt; simp

theorem bytesAt_get {inp : Input} {s e i : Nat} (hi : i < e - s) :
    (bytesAt inp s e)[i]? = inp[s + i]? := by
  rw [bytesAt_eq, List.getElem?_take_of_lt hi, List.getElem?_drop]; simp

theorem bytesAt_length {inp : Input} {s e : Nat} (he : e ≤ inp.size) :
    (bytesAt inp s e).length = e - s := by
  rw [bytesAt_eq]; simp; omega

/-! ### More about scans -/

/-- Where a scan stops inside the text, the terminator holds. -/
theorem scanUntil_stop {inp : Input} {term : Nat → Bool} (l : Loc) :
    ∀ b, inp[(scanUntil inp term l).abs]? = some b → term b = true := by
  fun_induction scanUntil inp term l with
  | case1 l h ht =>
    intro b hb
    have : inp[l.abs]? = some inp[l.abs] := by simp [h]
    rw [this] at hb; simp at hb; subst hb; exact ht
  | case2 l h ht ih => exact ih
  | case3 l h =>
    intro b hb
    have : inp[l.abs]? = none := by simp; omega
    rw [this] at hb; simp at hb

/-- The bytes a scan steps over do not satisfy the terminator. -/
theorem scanUntil_over {inp : Input} {term : Nat → Bool} (l : Loc) :
    ∀ i b, l.abs ≤ i → i < (scanUntil inp term l).abs → inp[i]? = some b → term b = false := by
  fun_induction scanUntil inp term l with
  | case1 l h ht => intro i b h1 h2; omega
  | case2 l h ht ih =>
    intro i b h1 h2 hb
    by_cases hi : i = l.abs
    · subst hi
      have : inp[l.abs]? = some inp[l.abs] := by simp [h]
      rw [this] at hb; simp at hb; subst hb; simpa using ht
    · exact ih i b (by simp; omega) h2 hb
  | case3 l h => intro i b h1 h2; omega

theorem scanUntil_ge {inp : Input} {term : Nat → Bool} (l : Loc) :
    l.abs ≤ (scanUntil inp term l).abs := by
  fun_induction scanUntil inp term l with
  | case1 l h ht => exact Nat.le_refl _
  | case2 l h ht ih => simp at ih; omega
  | case3 l h => exact Nat.le_refl _

/-- A position inside a scalar: some continuation bytes, then a boundary. -/
def SemiV (inp : Input) (p : Nat) : Prop :=
  ∃ k, VAt inp (p + k) ∧ ∀ i, i < k → ∃ h : p + i < inp.size, 128 ≤ inp[p + i]

theorem VAt.semi {inp : Input} {p : Nat} (h : VAt inp p) : SemiV inp p :=
  ⟨0, h, fun i hi => by omega⟩

/-- The bytes of the non-ASCII scalar at a boundary are all ≥ 128. -/
theorem vat_step_bytes {inp : Input} {p : Nat} (hv : VAt inp p) (hlt : p < inp.size)
    (ha : ¬ inp[p] < 128) :
    ∃ n, 1 ≤ n ∧ VAt inp (p + n) ∧ ∀ i, i < n → ∃ h : p + i < inp.size, 128 ≤ inp[p + i] := by
  obtain ⟨c, hc, hb, hv', _⟩ := vat_step hv hlt
  have hc128 : ¬ c < 128 := by
    intro hc1
    have := hb 0 (encode_length_pos c)
    simp [encode, hc1, hlt] at this
    omega
  refine ⟨(encode c).length, encode_length_pos c, hv', ?_⟩
  intro i hi
  have hle := hv'.le
  have hi' : p + i < inp.size := by omega
  refine ⟨hi', ?_⟩
  have := hb i hi
  rw [Array.getElem?_eq_getElem hi', List.getElem?_eq_getElem hi] at this
  simp at this
  rw [this]
  exact encode_bytes_ge hc128 _ (List.getElem_mem hi)

/-- After bumping ONE byte at a boundary the position is inside-or-after that scalar. -/
theorem semiV_succ {inp : Input} {p : Nat} (hv : VAt inp p) (hlt : p < inp.size) :
    SemiV inp (p + 1) := by
  by_cases ha : inp[p] < 128
  · exact (vat_succ_ascii hv hlt ha).semi
  · obtain ⟨n, hn, hv', hb⟩ := vat_step_bytes hv hlt ha
    refine ⟨n - 1, by rw [show p + 1 + (n - 1) = p + n by omega]; exact hv', ?_⟩
    intro i hi
    obtain ⟨h1, h2⟩ := hb (i + 1) (by omega)
    have e : p + 1 + i = p + (i + 1) := by omega
    exact ⟨by omega, by simp only [e]; exact h2⟩

/-- `take_until` with an ASCII terminator, started anywhere inside a scalar, ends on a boundary. -/
theorem scanUntil_semi {inp : Input} {term : Nat → Bool} (hterm : ∀ b, 128 ≤ b → term b = false)
    (l : Loc) (h : SemiV inp l.abs) :
    VAt inp (scanUntil inp term l).abs ∧ l.abs ≤ (scanUntil inp term l).abs := by
  obtain ⟨k, hv, hb⟩ := h
  rw [scanUntil_skip hterm k l hb]
  have habs : (bumpN inp k l).abs = l.abs + k := bumpN_abs _ _ hv.le
  have := scanUntil_stopAscii hterm _ (bumpN inp k l) rfl (by rw [habs]; exact hv)
  exact ⟨this.1, by have := this.2; omega⟩

/-- A scanner returned and left the tokenizer on a scalar boundary at or after `l`. -/
def OK (inp : Input) (l : Loc) (r : Res Out) : Prop := ∃ o, r = .ok o ∧ Lands inp l o.loc

theorem peek_some {inp : Input} {l : Loc} {b : Nat} (h : peek inp l = some b) :
    ∃ hlt : l.abs < inp.size, inp[l.abs] = b := by
  unfold peek at h
  have hlt : l.abs < inp.size := by
    by_cases hh : l.abs < inp.size
    · exact hh
    · have : inp[l.abs]? = none := by simp; omega
      rw [this] at h; simp at h
  refine ⟨hlt, ?_⟩
  have : inp[l.abs]? = some inp[l.abs] := by simp [hlt]
  rw [this] at h; simpa using h

/-- Bumping an ASCII byte seen by `peek` stays on a boundary. -/
theorem vat_shift_peek {inp : Input} {l : Loc} {b : Nat} (hv : VAt inp l.abs)
    (h : peek inp l = some b) (hb : b < 128) (b' : Nat) : VAt inp (l.shift b').abs := by
  obtain ⟨hlt, he⟩ := peek_some h
  simpa using vat_succ_ascii hv hlt (by omega)

/-! ### identifier, operator -/

theorem takeWhile_ascii {inp : Input} {keep : Nat → Bool} (hk : ∀ b, keep b = true → b < 128)
    {start l : Loc} (hs : VAt inp start.abs) (hv : VAt inp l.abs) (hle : start.abs ≤ l.abs) :
    takeWhile inp start keep l =
        .ok (scanUntil inp (fun b => !keep b) l, (start.abs, (scanUntil inp (fun b => !keep b) l).abs)) ∧
      Lands inp l (scanUntil inp (fun b => !keep b) l) := by
  have hl := scanUntil_keepAscii (keepAscii_of hk) l hv
  exact ⟨by unfold takeWhile; exact takeUntil_total hs hle hl, hl⟩

theorem identifier_total {inp : Input} {start l : Loc} (hs : VAt inp start.abs)
    (hv : VAt inp l.abs) (hle : start.abs ≤ l.abs) : OK inp l (identifier inp start l) := by
  obtain ⟨he, hv1, hle1⟩ := takeWhile_ascii (fun b => isIdentContinue_lt) hs hv hle
  unfold identifier
  rw [he]
  simp only [ok_bind]
  split
  · rename_i hp
    have hv2 := vat_shift_peek hv1 hp (by decide) 33
    have hsl := slice_ok hs (show VAt inp ((scanUntil inp (fun b => !isIdentContinue b) l).abs + 1) by
      simpa using hv2) (by omega)
    rw [hsl]
    simp only [ok_bind, pure_eq_ok]
    split <;> exact ⟨_, rfl, hv2, by simp; omega⟩
  · simp only [ok_bind, pure_eq_ok]
    split <;> exact ⟨_, rfl, hv1, hle1⟩

theorem operator_total {inp : Input} {start l : Loc} (hs : VAt inp start.abs)
    (hv : VAt inp l.abs) (hle : start.abs ≤ l.abs) : OK inp l (operator inp start l) := by
  obtain ⟨he, hv1, hle1⟩ := takeWhile_ascii (fun b => isOperatorByte_lt) hs hv hle
  unfold operator
  rw [he]
  simp only [ok_bind]
  repeat' split
  all_goals first
    | exact ⟨_, rfl, hv1, hle1⟩
    | (obtain ⟨he2, hv2, hle2⟩ := takeWhile_ascii (fun b => isIdentStart_lt) hs hv1 (by omega)
       rw [he2]
       simp only [ok_bind]
       obtain ⟨he3, hv3, hle3⟩ := takeWhile_ascii (fun b => isOperatorByte_lt) hs hv2 (by omega)
       rw [he3]
       simp only [ok_bind]
       exact ⟨_, rfl, hv3, Nat.le_trans hle1 (Nat.le_trans hle2 hle3)⟩)

/-! ### comments, shebang -/

theorem get_some {inp : Input} {i b : Nat} (h : inp[i]? = some b) : ∃ hlt : i < inp.size, inp[i] = b := by
  have hlt : i < inp.size := by
    by_cases hh : i < inp.size
    · exact hh
    · have : inp[i]? = none := by simp; omega
      rw [this] at h; simp at h
  refine ⟨hlt, ?_⟩
  have : inp[i]? = some inp[i] := by simp [hlt]
  rw [this] at h; simpa using h

theorem vat_add_ascii {inp : Input} {p : Nat} : ∀ k, VAt inp p →
    (∀ i, i < k → ∃ b, inp[p + i]? = some b ∧ b < 128) → VAt inp (p + k)
  | 0, hv, _ => hv
  | k + 1, hv, h => by
    have ih := vat_add_ascii k hv (fun i hi => h i (by omega))
    obtain ⟨b, hb, hlt⟩ := h k (by omega)
    obtain ⟨h1, h2⟩ := get_some hb
    have hh : inp[p + k] < 128 := by rw [h2]; exact hlt
    exact vat_succ_ascii ih h1 hh

theorem startsWith_spec {inp : Input} {s e : Nat} {p : List Nat} (h : startsWith inp s e p = true)
    (he : e ≤ inp.size) (hp : 0 < p.length) :
    s + p.length ≤ e ∧ ∀ i, i < p.length → inp[s + i]? = p[i]? := by
  unfold startsWith at h
  have heq : bytesAt inp s (min e (s + p.length)) = p := by simpa using h
  have hlen := bytesAt_length (inp := inp) (s := s) (e := min e (s + p.length)) (by omega)
  rw [heq] at hlen
  refine ⟨by omega, ?_⟩
  intro i hi
  have := bytesAt_get (inp := inp) (s := s) (e := min e (s + p.length)) (i := i) (by omega)
  rw [heq] at this
  exact this.symm

theorem vat_after_prefix {inp : Input} {s : Nat} {p : List Nat} (hall : ∀ b ∈ p, b < 128)
    (hv : VAt inp s) (hsw : ∀ i, i < p.length → inp[s + i]? = p[i]?) : VAt inp (s + p.length) := by
  apply vat_add_ascii _ hv
  intro i hi
  refine ⟨p[i], by rw [hsw i hi]; simp [hi], hall _ (List.getElem_mem hi)⟩

theorem nl_term : ∀ b, 128 ≤ b → (fun b : Nat => b == 10) b = false := by
  intro b h; simp; omega

/-- token.rs:460 `line_comment`. -/
theorem lineComment_total {inp : Input} {start l : Loc} (hs : VAt inp start.abs)
    (hv : VAt inp l.abs) (hle : start.abs ≤ l.abs) :
    ∃ t l', lineComment inp start l = .ok (t, l') ∧ Lands inp l l' := by
  have hl := scanUntil_stopAscii nl_term _ l rfl hv
  unfold lineComment
  rw [takeUntil_total hs hle hl]
  simp only [ok_bind]
  split
  · rename_i h3
    obtain ⟨hlen, hbytes⟩ := startsWith_spec h3 hl.1.le (by simp)
    by_cases h4 : startsWith inp start.abs (scanUntil inp (fun b => b == 10) l).abs [47, 47, 47, 32] = true
    · obtain ⟨hlen4, hbytes4⟩ := startsWith_spec h4 hl.1.le (by simp)
      have hv4 : VAt inp (start.abs + 4) := vat_after_prefix (p := [47, 47, 47, 32]) (by simp) hs hbytes4
      have hlen4' : start.abs + 4 ≤ (scanUntil inp (fun b => b == 10) l).abs := hlen4
      simp only [h4, if_true]
      rw [slice_ok hv4 hl.1 hlen4']
      exact ⟨_, _, rfl, hl⟩
    · have hv3 : VAt inp (start.abs + 3) := vat_after_prefix (p := [47, 47, 47]) (by simp) hs hbytes
      have hlen' : start.abs + 3 ≤ (scanUntil inp (fun b => b == 10) l).abs := hlen
      simp only [h4, Bool.false_eq_true, if_false]
      rw [slice_ok hv3 hl.1 hlen']
      exact ⟨_, _, rfl, hl⟩
  · exact ⟨_, _, rfl, hl⟩

/-- token.rs:625 `shebang_line`. -/
theorem shebangLine_total {inp : Input} {start l : Loc} (hs : VAt inp start.abs)
    (hv : VAt inp l.abs) (hle : start.abs ≤ l.abs) :
    ∃ t l', shebangLine inp start l = .ok (t, l') ∧ Lands inp l l' := by
  have hl := scanUntil_stopAscii nl_term _ l rfl hv
  unfold shebangLine
  rw [takeUntil_total hs hle hl]
  simp only [ok_bind]
  split
  · rename_i h2
    obtain ⟨hlen, hbytes⟩ := startsWith_spec h2 hl.1.le (by simp)
    have hv2 : VAt inp (start.abs + 2) := vat_after_prefix (p := [35, 33]) (by simp) hs hbytes
    have hlen' : start.abs + 2 ≤ (scanUntil inp (fun b => b == 10) l).abs := hlen
    rw [slice_ok hv2 hl.1 hlen']
    exact ⟨_, _, rfl, hl⟩
  · exact ⟨_, _, rfl, hl⟩

theorem skipToEnd_abs {inp : Input} (l : Loc) (h : l.abs ≤ inp.size) :
    (skipToEnd inp l).abs = inp.size := by
  fun_induction skipToEnd inp l with
  | case1 l hlt ih => exact ih (by simp; omega)
  | case2 l hlt => omega

/-- `self.bump()` of an ASCII byte (or nothing at the end). -/
theorem bumpLoc_ascii {inp : Input} {l : Loc} (hv : VAt inp l.abs)
    (ha : ∀ b, inp[l.abs]? = some b → b < 128) :
    VAt inp (bumpLoc inp l).abs ∧ l.abs ≤ (bumpLoc inp l).abs ∧
      (l.abs < inp.size → (bumpLoc inp l).abs = l.abs + 1) := by
  unfold bumpLoc
  by_cases hlt : l.abs < inp.size
  · rw [bump_some hlt]
    have := ha inp[l.abs] (by simp [hlt])
    exact ⟨by simpa using vat_succ_ascii hv hlt this, by simp, by simp⟩
  · rw [bump_none hlt]
    exact ⟨hv, Nat.le_refl _, fun h => absurd h hlt⟩

theorem star_term : ∀ b, 128 ≤ b → (fun b : Nat => b == 42) b = false := by
  intro b h; simp; omega

/-- What `block_comment` returns: a fatal error item or "go on" — never a panic or a hang. -/
def BlockOK (inp : Input) (l : Loc) (r : Res (Out ⊕ (Option STok × Loc))) : Prop :=
  (∃ o, r = .ok (.inl o) ∧ Lands inp l o.loc) ∨ (∃ t l', r = .ok (.inr (t, l')) ∧ Lands inp l l')

theorem blockLoop_total {inp : Input} {start : Loc} (hs : VAt inp start.abs) :
    ∀ (n : Nat) (l : Loc), inp.size - l.abs = n → VAt inp l.abs → start.abs ≤ l.abs →
      BlockOK inp l (blockLoop inp start l) := by
  intro n
  induction n using Nat.strongRecOn with
  | _ n ih =>
    intro l hn hv hle
    have hl := scanUntil_stopAscii star_term _ l rfl hv
    unfold blockLoop
    rw [takeUntil_total hs hle hl]
    simp only []
    have hstar : ∀ b, inp[(scanUntil inp (fun b => b == 42) l).abs]? = some b → b < 128 := by
      intro b hb
      have := scanUntil_stop (term := fun b => b == 42) l b hb
      simp at this; omega
    obtain ⟨hv2, hle2, hadv⟩ := bumpLoc_ascii hl.1 hstar
    by_cases hlt2 : (bumpLoc inp (scanUntil inp (fun b => b == 42) l)).abs < inp.size
    · rw [bump_some hlt2]
      simp only []
      have hlt1 : (scanUntil inp (fun b => b == 42) l).abs < inp.size := by
        by_cases hh : (scanUntil inp (fun b => b == 42) l).abs < inp.size
        · exact hh
        · have : bumpLoc inp (scanUntil inp (fun b => b == 42) l) = scanUntil inp (fun b => b == 42) l := by
            unfold bumpLoc; rw [bump_none hh]
          rw [this] at hlt2; exact absurd hlt2 hh
      have hadv' := hadv hlt1
      have hle1 := hl.2
      split
      · rename_i hb47
        have hv3 : VAt inp ((bumpLoc inp (scanUntil inp (fun b => b == 42) l)).shift
            inp[(bumpLoc inp (scanUntil inp (fun b => b == 42) l)).abs]).abs := by
          simpa using vat_succ_ascii hv2 hlt2 (by simp at hb47; omega)
        split
        · rename_i hdoc
          simp only [Bool.and_eq_true] at hdoc
          obtain ⟨hlen, hbytes⟩ := startsWith_spec hdoc.1 hl.1.le (by simp)
          have hv3' : VAt inp (start.abs + 3) := vat_after_prefix (p := [47, 42, 42]) (by simp) hs hbytes
          have hlen' : start.abs + 3 ≤ (scanUntil inp (fun b => b == 42) l).abs := hlen
          rw [slice_ok hv3' hl.1 hlen']
          simp only []
          exact Or.inr ⟨_, _, rfl, hv3, by simp; omega⟩
        · exact Or.inr ⟨_, _, rfl, hv3, by simp; omega⟩
      · have hg : l.abs < (bumpLoc inp (scanUntil inp (fun b => b == 42) l)).abs ∧ l.abs < inp.size := by
          omega
        rw [if_pos hg]
        have := ih (inp.size - (bumpLoc inp (scanUntil inp (fun b => b == 42) l)).abs) (by omega) _ rfl hv2
          (by omega)
        rcases this with ⟨o, ho, hv', hle'⟩ | ⟨t, l', ho, hv', hle'⟩
        · exact Or.inl ⟨o, ho, hv', by omega⟩
        · exact Or.inr ⟨t, l', ho, hv', by omega⟩
    · rw [bump_none hlt2]
      simp only [fatal]
      refine Or.inl ⟨_, rfl, ?_, ?_⟩
      · show VAt inp (skipToEnd inp _).abs
        rw [skipToEnd_abs _ hv2.le]; exact vat_end inp
      · show l.abs ≤ (skipToEnd inp _).abs
        rw [skipToEnd_abs _ hv2.le]; exact hv.le

/-- token.rs:475 `block_comment`; the first `*` is the lookahead. -/
theorem blockComment_total {inp : Input} {start l : Loc} (hs : VAt inp start.abs)
    (hv : VAt inp l.abs) (hle : start.abs ≤ l.abs) (hstar : ∀ b, inp[l.abs]? = some b → b < 128) :
    BlockOK inp l (blockComment inp start l) := by
  unfold blockComment
  obtain ⟨hv2, hle2, _⟩ := bumpLoc_ascii hv hstar
  have := blockLoop_total hs _ (bumpLoc inp l) rfl hv2 (by omega)
  rcases this with ⟨o, ho, hv', hle'⟩ | ⟨t, l', ho, hv', hle'⟩
  · exact Or.inl ⟨o, ho, hv', by omega⟩
  · exact Or.inr ⟨t, l', ho, hv', by omega⟩

/-! ### string literals -/

theorem strq_term : ∀ b, 128 ≤ b → (fun b : Nat => b == 34 || b == 92) b = false := by
  intro b h; simp; omega

theorem stringLoop_total {inp : Input} {start contentStart : Loc} (hcs : VAt inp contentStart.abs) :
    ∀ (n : Nat) (l : Loc) (errs : List SErr), inp.size - l.abs = n → VAt inp l.abs →
      contentStart.abs ≤ l.abs → OK inp l (stringLoop inp start contentStart l errs) := by
  intro n
  induction n using Nat.strongRecOn with
  | _ n ih =>
    intro l errs hn hv hle
    have hl := scanUntil_stopAscii strq_term _ l rfl hv
    unfold stringLoop
    rw [takeUntil_total hv (Nat.le_refl _) hl]
    simp only []
    by_cases hlt1 : (scanUntil inp (fun b => b == 34 || b == 92) l).abs < inp.size
    · rw [bump_some hlt1]
      simp only []
      have hb := scanUntil_stop (term := fun b => b == 34 || b == 92) l
        inp[(scanUntil inp (fun b => b == 34 || b == 92) l).abs] (Array.getElem?_eq_getElem hlt1)
      have hasc : inp[(scanUntil inp (fun b => b == 34 || b == 92) l).abs] < 128 := by
        simp at hb; omega
      have hv2 : VAt inp ((scanUntil inp (fun b => b == 34 || b == 92) l).shift
          inp[(scanUntil inp (fun b => b == 34 || b == 92) l).abs]).abs := by
        simpa using vat_succ_ascii hl.1 hlt1 hasc
      have hle1 := hl.2
      split
      · obtain ⟨b', l3, es, he, hv3, hle3⟩ := escapeCode_total
          (scanUntil inp (fun b => b == 34 || b == 92) l) hv2
        rw [he]
        simp only []
        simp at hle3
        rw [if_pos ⟨by omega, by omega⟩]
        obtain ⟨o, ho, hv', hle'⟩ := ih (inp.size - l3.abs) (by omega) l3 (errs ++ es) rfl hv3 (by omega)
        exact ⟨o, ho, hv', by omega⟩
      · split
        · have hsub : subAbs ((scanUntil inp (fun b => b == 34 || b == 92) l).shift
              inp[(scanUntil inp (fun b => b == 34 || b == 92) l).abs]).abs 1 =
              .ok (scanUntil inp (fun b => b == 34 || b == 92) l).abs := by
            simp [subAbs]
          rw [hsub]
          simp only []
          rw [slice_ok hcs hl.1 (by omega)]
          exact ⟨_, rfl, hv2, by simp; omega⟩
        · rename_i h1 h2
          simp at hb h1 h2
          omega
    · rw [bump_none hlt1]
      simp only []
      have hle1 := hl.2
      rw [slice_ok hcs hl.1 (by omega)]
      exact ⟨_, rfl, hl.1, hl.2⟩

theorem stringLiteral_total {inp : Input} {start l : Loc} (hv : VAt inp l.abs) :
    OK inp l (stringLiteral inp start l) := by
  unfold stringLiteral
  exact stringLoop_total hv _ l [] rfl hv (Nat.le_refl _)

/-! ### The dispatcher `next` and the driver `run` -/

/-- The first byte of a numeric literal (token.rs:861): a digit, or `-` before a digit. -/
def NumStart (inp : Input) (start : Loc) : Prop :=
  ∃ ch, inp[start.abs]? = some ch ∧
    (isDigit ch = true ∨ (ch = 45 ∧ ∃ d, inp[start.abs + 1]? = some d ∧ isDigit d = true))

/-- The scanner statements the totality of `next` is built from that are proved separately
(`rawStringLiteral_total`, `numericLiteral_total` below). -/
structure Scanners (inp : Input) : Prop where
  raw : ∀ start l : Loc, VAt inp start.abs → VAt inp l.abs → start.abs ≤ l.abs →
    OK inp l (rawStringLiteral inp start l)
  num : ∀ start l : Loc, VAt inp start.abs → VAt inp l.abs → l.abs = start.abs + 1 →
    NumStart inp start → OK inp l (numericLiteral inp start l)

def IsEof (o : Out) : Prop := ∃ s e, o.item = .tok ⟨s, e, .eof⟩

theorem punctOf_lt {b : Nat} {p : String} (h : punctOf b = some p) : b < 128 := by
  unfold punctOf at h
  repeat' split at h
  all_goals first
    | (rename_i hh; simp at hh; omega)
    | simp at h

theorem testLookahead_spec {inp : Input} {l : Loc} {p : Nat → Bool} (h : testLookahead inp l p = true) :
    ∃ b, peek inp l = some b ∧ p b = true := by
  unfold testLookahead at h
  split at h
  · exact ⟨_, by assumption, h⟩
  · simp at h

theorem ws_ascii {b : Nat} (h : isByteWhitespace b = true) (hc : isCont b = false) : b < 128 := by
  simp [isByteWhitespace] at h
  simp [isCont] at hc
  omega

/-- What one call of `next` does: it returns, on a scalar boundary, and either it consumed at
least one byte or it yielded `EOF`. -/
def NextOK (inp : Input) (l : Loc) (r : Res Out) : Prop :=
  ∃ o, r = .ok o ∧ VAt inp o.loc.abs ∧ (l.abs < o.loc.abs ∨ IsEof o)

theorem withErrs_ok {inp : Input} {l1 : Loc} {r : Res Out} (errs : List SErr) (h : OK inp l1 r) :
    ∃ o, (match r with
          | .ok o => Res.ok { o with errs := errs ++ o.errs }
          | r => r) = .ok o ∧ VAt inp o.loc.abs ∧ l1.abs ≤ o.loc.abs := by
  obtain ⟨o, ho, hv, hle⟩ := h
  subst ho
  exact ⟨_, rfl, hv, hle⟩

theorem next_total {inp : Input} (S : Scanners inp) :
    ∀ (n : Nat) (l : Loc) (errs : List SErr), inp.size - l.abs = n → VAt inp l.abs →
      NextOK inp l (next inp l errs) := by
  intro n
  induction n using Nat.strongRecOn with
  | _ n ih =>
    intro l errs hn hv
    unfold next
    by_cases hlt : l.abs < inp.size
    · rw [bump_some hlt]
      simp only []
      -- the `while let` goes round again from a later boundary
      have again : ∀ (l' : Loc) (errs' : List SErr), VAt inp l'.abs → l.abs < l'.abs →
          NextOK inp l (if l.abs < l'.abs ∧ l.abs < inp.size then next inp l' errs' else .hang) := by
        intro l' errs' hv' hlt'
        rw [if_pos ⟨hlt', hlt⟩]
        obtain ⟨o, ho, hvo, hprog⟩ := ih (inp.size - l'.abs) (by have := hv'.le; omega) l' errs' rfl hv'
        refine ⟨o, ho, hvo, ?_⟩
        rcases hprog with h | h
        · exact Or.inl (by omega)
        · exact Or.inr h
      have fromOK : ∀ (r : Res Out), OK inp (l.shift inp[l.abs]) r →
          NextOK inp l (match r with
            | .ok o => Res.ok { o with errs := errs ++ o.errs }
            | r => r) := by
        intro r h
        obtain ⟨o, ho, hvo, hle⟩ := withErrs_ok errs h
        exact ⟨o, ho, hvo, Or.inl (by simp at hle; omega)⟩
      have hv1 : inp[l.abs] < 128 → VAt inp (l.shift inp[l.abs]).abs := by
        intro h; simpa using vat_succ_ascii hv hlt h
      split
      · rename_i p hp
        exact ⟨_, rfl, hv1 (punctOf_lt hp), Or.inl (by show l.abs < (l.shift inp[l.abs]).abs; simp)⟩
      · by_cases h : (inp[l.abs] == 114 && testLookahead inp (l.shift inp[l.abs]) (fun b => b == 34 || b == 35)) = true
        · rw [if_pos h]
          have hch : inp[l.abs] < 128 := by simp at h; omega
          exact fromOK _ (S.raw l _ hv (hv1 hch) (by simp))
        rw [if_neg h]; clear h
        by_cases h : (inp[l.abs] == 34) = true
        · rw [if_pos h]
          have hch : inp[l.abs] < 128 := by simp at h; omega
          exact fromOK _ (stringLiteral_total (hv1 hch))
        rw [if_neg h]; clear h
        by_cases h : (inp[l.abs] == 39) = true
        · rw [if_pos h]
          have hch : inp[l.abs] < 128 := by simp at h; omega
          exact fromOK _ (charLiteral_total l (hv1 hch))
        rw [if_neg h]; clear h
        by_cases h : (inp[l.abs] == 47 && testLookahead inp (l.shift inp[l.abs]) (· == 47)) = true
        · rw [if_pos h]
          have hch : inp[l.abs] < 128 := by simp at h; omega
          obtain ⟨t, l', he, hv', hle'⟩ := lineComment_total hv (hv1 hch) (by simp)
          rw [he]
          simp at hle'
          cases t with
          | some t => exact ⟨_, rfl, hv', Or.inl (by show l.abs < l'.abs; omega)⟩
          | none => exact again l' errs hv' (by omega)
        rw [if_neg h]; clear h
        by_cases h : (inp[l.abs] == 47 && testLookahead inp (l.shift inp[l.abs]) (· == 42)) = true
        · rw [if_pos h]
          simp only [Bool.and_eq_true] at h
          have hch : inp[l.abs] < 128 := by have := h.1; simp at this; omega
          obtain ⟨b, hpk, hb⟩ := testLookahead_spec h.2
          have hstar : ∀ b', inp[(l.shift inp[l.abs]).abs]? = some b' → b' < 128 := by
            intro b' hb'
            unfold peek at hpk
            rw [hpk] at hb'
            simp at hb hb'
            omega
          have := blockComment_total hv (hv1 hch) (by simp) hstar
          rcases this with ⟨o, ho, hv', hle'⟩ | ⟨t, l', ho, hv', hle'⟩
          · rw [ho]
            simp at hle'
            exact ⟨_, rfl, hv', Or.inl (by show l.abs < o.loc.abs; omega)⟩
          · rw [ho]
            simp at hle'
            cases t with
            | some t => exact ⟨_, rfl, hv', Or.inl (by show l.abs < l'.abs; omega)⟩
            | none => exact again l' errs hv' (by omega)
        rw [if_neg h]; clear h
        by_cases h : (inp[l.abs] == 35 && l.abs == 0 && testLookahead inp (l.shift inp[l.abs]) (· == 33)) = true
        · rw [if_pos h]
          simp only [Bool.and_eq_true] at h
          have hch : inp[l.abs] < 128 := by have := h.1.1; simp at this; omega
          obtain ⟨t, l', he, hv', hle'⟩ := shebangLine_total hv (hv1 hch) (by simp)
          rw [he]
          simp at hle'
          cases t with
          | some t => exact ⟨_, rfl, hv', Or.inl (by show l.abs < l'.abs; omega)⟩
          | none => exact again l' errs hv' (by omega)
        rw [if_neg h]; clear h
        by_cases h : (inp[l.abs] == 35 && testLookahead inp (l.shift inp[l.abs]) (· == 91)) = true
        · rw [if_pos h]
          simp only [Bool.and_eq_true] at h
          have hch : inp[l.abs] < 128 := by have := h.1; simp at this; omega
          obtain ⟨b, hpk, hb⟩ := testLookahead_spec h.2
          have hb91 : b = 91 := by simpa using hb
          have hv2 := vat_shift_peek (hv1 hch) hpk (by omega) 91
          exact ⟨_, rfl, hv2, Or.inl (by show l.abs < ((l.shift inp[l.abs]).shift 91).abs; simp; omega)⟩
        rw [if_neg h]; clear h
        by_cases h : isIdentStart inp[l.abs] = true
        · rw [if_pos h]
          exact fromOK _ (identifier_total hv (hv1 (isIdentStart_lt h)) (by simp))
        rw [if_neg h]; clear h
        by_cases h : (isDigit inp[l.abs] || (inp[l.abs] == 45 && testLookahead inp (l.shift inp[l.abs]) isDigit)) = true
        · rw [if_pos h]
          have hch : inp[l.abs] < 128 := by
            rcases Bool.or_eq_true _ _ |>.mp h with h' | h'
            · exact isDigit_lt h'
            · simp at h'; omega
          refine fromOK _ (S.num l _ hv (hv1 hch) (by simp) ?_)
          refine ⟨inp[l.abs], Array.getElem?_eq_getElem hlt, ?_⟩
          rcases Bool.or_eq_true _ _ |>.mp h with h' | h'
          · exact Or.inl h'
          · simp only [Bool.and_eq_true] at h'
            obtain ⟨d, hpk, hd⟩ := testLookahead_spec h'.2
            refine Or.inr ⟨by simpa using h'.1, d, ?_, hd⟩
            unfold peek at hpk
            simpa using hpk
        rw [if_neg h]; clear h
        by_cases h : isOperatorByte inp[l.abs] = true
        · rw [if_pos h]
          exact fromOK _ (operator_total hv (hv1 (isOperatorByte_lt h)) (by simp))
        rw [if_neg h]; clear h
        by_cases h : isByteWhitespace inp[l.abs] = true
        · rw [if_pos h]
          have hch := ws_ascii h (vat_notCont hv hlt)
          exact again _ errs (hv1 hch) (by simp)
        rw [if_neg h]; clear h
        obtain ⟨c, _, hr, ⟨hv', _⟩, hprog⟩ := restore_and_skip hv hlt
        rw [hr]
        simp only []
        exact again _ _ hv' hprog
    · rw [bump_none hlt]
      exact ⟨_, rfl, hv, Or.inr ⟨_, _, rfl⟩⟩

theorem run_total {inp : Input} (S : Scanners inp) :
    ∀ (fuel : Nat) (l : Loc) (items : List Item) (errs : List SErr), VAt inp l.abs →
      inp.size - l.abs < fuel → ∃ e, (run inp fuel l items errs).fin = .eof e := by
  intro fuel
  induction fuel with
  | zero => intro l items errs _ h; omega
  | succ fuel ih =>
    intro l items errs hv hf
    obtain ⟨o, ho, hvo, hprog⟩ := next_total S _ l [] rfl hv
    unfold run
    rw [ho]
    simp only []
    split
    · exact ⟨_, rfl⟩
    · rename_i hne
      rcases hprog with h | ⟨s, e, h⟩
      · exact ih o.loc _ _ hvo (by have := hvo.le; omega)
      · exact absurd h (by intro hh; exact hne _ _ hh)

/-! ### raw string literals -/

theorem rawDelims_spec {inp : Input} (d : Nat) (l : Loc) (hv : VAt inp l.abs) :
    match rawDelims inp d l with
    | none => True
    | some (_, l1) => VAt inp l1.abs ∧ l.abs ≤ l1.abs := by
  fun_induction rawDelims inp d l with
  | case1 d l h b hb ih =>
    have hb' : inp[l.abs] < 128 := by simp [b] at hb; omega
    have := ih (by simpa using vat_succ_ascii hv h hb')
    split at this
    · simp_all
    · exact ⟨this.1, by have := this.2; simp at this; omega⟩
  | case2 d l h b hb hq =>
    have hb' : inp[l.abs] < 128 := by simp [b] at hq; omega
    exact ⟨by simpa using vat_succ_ascii hv h hb', by simp⟩
  | case3 d l h b hb hq => trivial
  | case4 d l h => exact ⟨hv, Nat.le_refl _⟩

theorem rawInner_spec {inp : Input} {delims : Nat} (cs : Nat) (found : Nat) (l : Loc) :
    ∀ q, VAt inp l.abs → VAt inp q → cs ≤ q → l.abs = q + 1 + found →
    match rawInner inp delims found l with
    | .inl e => VAt inp e.abs ∧ l.abs ≤ e.abs ∧ ∃ q', VAt inp q' ∧ cs ≤ q' ∧ e.abs = q' + 1 + delims
    | .inr l3 => SemiV inp l3.abs ∧ l.abs ≤ l3.abs := by
  fun_induction rawInner inp delims found l with
  | case1 l =>
    intro q hv hq hcs habs
    exact ⟨hv, Nat.le_refl _, q, hq, hcs, habs⟩
  | case2 found l hne h b hb ih =>
    intro q hv hq hcs habs
    have hb' : inp[l.abs] < 128 := by simp [b] at hb; omega
    have := ih q (by simpa using vat_succ_ascii hv h hb') hq hcs (by simp; omega)
    split at this
    · exact ⟨this.1, by have := this.2.1; simp at this; omega, this.2.2⟩
    · exact ⟨this.1, by have := this.2; simp at this; omega⟩
  | case3 found l hne h b hb hq' ih =>
    intro q hv hq hcs habs
    have hb' : inp[l.abs] < 128 := by simp [b] at hq'; omega
    have := ih l.abs (by simpa using vat_succ_ascii hv h hb') hv (by omega) (by simp)
    split at this
    · exact ⟨this.1, by have := this.2.1; simp at this; omega, this.2.2⟩
    · exact ⟨this.1, by have := this.2; simp at this; omega⟩
  | case4 found l hne h b hb hq' =>
    intro q hv hq hcs habs
    exact ⟨by simpa using semiV_succ hv h, by simp⟩
  | case5 found l hne h =>
    intro q hv hq hcs habs
    exact ⟨hv.semi, Nat.le_refl _⟩

theorem quote_term : ∀ b, 128 ≤ b → (fun b : Nat => b == 34) b = false := by
  intro b h; simp; omega

theorem rawLoop_total {inp : Input} {start cs : Loc} {delims : Nat} (hcs : VAt inp cs.abs) :
    ∀ (n : Nat) (l : Loc), inp.size - l.abs = n → SemiV inp l.abs → cs.abs ≤ l.abs →
      ∃ o, rawLoop inp start cs delims l = .ok o ∧ VAt inp o.loc.abs ∧ l.abs ≤ o.loc.abs := by
  intro n
  induction n using Nat.strongRecOn with
  | _ n ih =>
    intro l hn hsemi hle
    have hl := scanUntil_semi quote_term l hsemi
    have hle1 := hl.2
    have ht : takeUntil inp cs (fun b => b == 34) l =
        .ok (scanUntil inp (fun b => b == 34) l, (cs.abs, (scanUntil inp (fun b => b == 34) l).abs)) := by
      have h := slice_ok hcs hl.1 (by omega)
      simp only [takeUntil, h]
    unfold rawLoop
    rw [ht]
    simp only []
    by_cases hlt1 : (scanUntil inp (fun b => b == 34) l).abs < inp.size
    · rw [bump_some hlt1]
      simp only []
      have hb := scanUntil_stop (term := fun b => b == 34) l
        inp[(scanUntil inp (fun b => b == 34) l).abs] (Array.getElem?_eq_getElem hlt1)
      rw [if_pos hb]
      have hasc : inp[(scanUntil inp (fun b => b == 34) l).abs] < 128 := by simp at hb; omega
      have hv2 : VAt inp ((scanUntil inp (fun b => b == 34) l).shift
          inp[(scanUntil inp (fun b => b == 34) l).abs]).abs := by
        simpa using vat_succ_ascii hl.1 hlt1 hasc
      have hspec := rawInner_spec (inp := inp) (delims := delims) cs.abs 0
        ((scanUntil inp (fun b => b == 34) l).shift inp[(scanUntil inp (fun b => b == 34) l).abs])
        (scanUntil inp (fun b => b == 34) l).abs hv2 hl.1 (by omega) (by simp)
      cases hri : rawInner inp delims 0
          ((scanUntil inp (fun b => b == 34) l).shift inp[(scanUntil inp (fun b => b == 34) l).abs]) with
      | inl e =>
        rw [hri] at hspec
        obtain ⟨hve, hlee, q', hq', hcsq, habs⟩ := hspec
        simp at hlee
        have hsub : subAbs e.abs (delims + 1) = .ok q' := by
          unfold subAbs
          rw [if_pos (by omega)]
          congr 1
          omega
        simp only [hsub]
        rw [slice_ok hcs hq' hcsq]
        exact ⟨_, rfl, hve, by show l.abs ≤ e.abs; omega⟩
      | inr l3 =>
        rw [hri] at hspec
        obtain ⟨hs3, hle3⟩ := hspec
        simp at hle3
        simp only []
        rw [if_pos ⟨by omega, by omega⟩]
        obtain ⟨o, ho, hvo, hleo⟩ := ih (inp.size - l3.abs) (by omega) l3 rfl hs3 (by omega)
        exact ⟨o, ho, hvo, by omega⟩
    · rw [bump_none hlt1]
      simp only []
      rw [slice_ok hcs hl.1 (by omega)]
      exact ⟨_, rfl, hl.1, hl.2⟩

theorem rawStringLiteral_total {inp : Input} {start l : Loc} (hv : VAt inp l.abs) :
    OK inp l (rawStringLiteral inp start l) := by
  unfold rawStringLiteral
  have hd := rawDelims_spec 0 l hv
  split
  · refine ⟨_, rfl, ?_, ?_⟩
    · show VAt inp (skipToEnd inp l).abs
      rw [skipToEnd_abs _ hv.le]; exact vat_end inp
    · show l.abs ≤ (skipToEnd inp l).abs
      rw [skipToEnd_abs _ hv.le]; exact hv.le
  · rename_i d l1 heq
    rw [heq] at hd
    obtain ⟨o, ho, hvo, hleo⟩ := rawLoop_total (start := start) (delims := d) hd.1 _ l1 rfl hd.1.semi (Nat.le_refl _)
    exact ⟨o, ho, hvo, by have := hd.2; omega⟩

/-! ### The whole stream -/

/-- The statement about `numeric_literal` that is still missing (see notes/C09.md). -/
def NumericTotal (inp : Input) : Prop :=
  ∀ start l : Loc, VAt inp start.abs → VAt inp l.abs → l.abs = start.abs + 1 →
    NumStart inp start → OK inp l (numericLiteral inp start l)

theorem tokenize_total_of {inp : Input} (h0 : VAt inp 0) (hnum : NumericTotal inp) :
    ∃ e, (tokenize inp).fin = .eof e := by
  unfold tokenize
  exact run_total ⟨fun _ _ _ hv _ => rawStringLiteral_total hv, hnum⟩ _ Loc.start [] [] h0
    (by simp [Loc.start])

/-- Every Rust `&str` is the encoding of a list of scalars. -/
theorem vat_zero_of_scalars (cs : List Nat) (h : ∀ c ∈ cs, isScalar c) :
    VAt (encodeAll cs).toArray 0 :=
  ⟨Nat.zero_le _, cs, h, by simp⟩

theorem encodeAll_no_digit (cs : List Nat) (hd : ∀ c ∈ cs, isDigit c = false) :
    ∀ b ∈ encodeAll cs, isDigit b = false := by
  induction cs with
  | nil => intro b hb; simp [encodeAll] at hb
  | cons c cs ih =>
    intro b hb
    simp only [encodeAll, List.mem_append] at hb
    rcases hb with hb | hb
    · by_cases hc : c < 128
      · simp [encode, hc] at hb; rw [hb]; exact hd c (by simp)
      · have := encode_bytes_ge hc b hb
        simp [isDigit]; omega
    · exact ih (fun x hx => hd x (by simp [hx])) b hb

/-- In a text without decimal digits the numeric arm of `next` is never taken. -/
theorem numericTotal_of_no_digit (cs : List Nat) (hd : ∀ c ∈ cs, isDigit c = false) :
    NumericTotal (encodeAll cs).toArray := by
  intro start l _ _ _ hn
  exfalso
  have hno := encodeAll_no_digit cs hd
  have hmem : ∀ (i b : Nat), (encodeAll cs).toArray[i]? = some b → isDigit b = false := by
    intro i b hb
    apply hno
    have : (encodeAll cs)[i]? = some b := by simpa using hb
    exact List.mem_of_getElem? this
  obtain ⟨ch, hch, h | ⟨_, d, hd', hdd⟩⟩ := hn
  · have := hmem _ _ hch; simp [h] at this
  · have := hmem _ _ hd'; simp [hdd] at this

end GluonModel.Tokenizer
