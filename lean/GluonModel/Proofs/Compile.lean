/-
Compiler correctness for the straight-line / branching fragments of the core IR:
`compileBody` (model of compiler.rs `compile_`) against `evalCore`, executed by `runLocal`
(model of the interpreter loop of thread.rs `execute_`).

Invariant: the code emitted for `e` at index `b` runs as a segment of the function's instruction
list; started at `b` on a frame-local stack `stk` that agrees with the environment, it arrives
at the end of the segment with `stk ++ locals ++ [value]` (`locals` = the variables `e` left in
the innermost compile-time scope, which the caller's `Slide` removes), or fails with the
arithmetic error `evalCore` reports. Nothing below `stk.length` is touched.
-/
import GluonModel.Core
import GluonModel.Bytecode
import GluonModel.Compile
namespace GluonModel.Proofs.Compile
open GluonModel.Core GluonModel.Bytecode GluonModel.Compile

/-! ### Segments of code -/

/-- `c` occupies the indices `b, b+1, …` of `code` -/
def SegAt (code : List Instr) (b : Nat) (c : List Instr) : Prop :=
  ∀ k, k < c.length → code[b + k]? = c[k]?

theorem SegAt.left {code b c₁ c₂} (h : SegAt code b (c₁ ++ c₂)) : SegAt code b c₁ := by
  intro k hk
  have := h k (by simp; omega)
  rw [this, List.getElem?_append_left hk]

theorem SegAt.right {code b c₁ c₂} (h : SegAt code b (c₁ ++ c₂)) :
    SegAt code (b + c₁.length) c₂ := by
  intro k hk
  have := h (c₁.length + k) (by simp; omega)
  rw [← Nat.add_assoc] at this
  rw [this, List.getElem?_append_right (by omega)]
  simp

theorem SegAt.head {code b i c} (h : SegAt code b (i :: c)) : code[b]? = some i := by
  have := h 0 (by simp)
  simpa using this

theorem SegAt.tail {code b i c} (h : SegAt code b (i :: c)) : SegAt code (b + 1) c := by
  have := SegAt.right (c₁ := [i]) (c₂ := c) (by simpa using h)
  simpa using this

theorem SegAt.nil (code : List Instr) (b : Nat) : SegAt code b [] := by
  intro k hk; simp at hk

/-! ### Running -/

mutual
/-- The frame of a closure of `fn` (upvalues `upv`) gets from `(pc, stk)` to `(pc', stk')`:
    turns of the interpreter loop that leave the heap alone (`cons`), and whole calls of exact
    arity (`call`: the callee, in its own frame, returns `v`, which replaces function and
    arguments). -/
inductive Exec : Fn → List Val → Heap → Nat → List Val → Nat → List Val → Prop where
  | refl {fn upv h} (pc : Nat) (stk : List Val) : Exec fn upv h pc stk pc stk
  | cons {fn upv h pc stk pc₁ stk₁ pc₂ stk₂} :
      stepLocal fn upv pc stk h = .next pc₁ stk₁ h → Exec fn upv h pc₁ stk₁ pc₂ stk₂ →
      Exec fn upv h pc stk pc₂ stk₂
  | call {fn upv h pc stk id args g gupv v pc₂ stk₂} :
      fn.instrs[pc]? = some (.call args.length) → h.clos[id]? = some (g, gupv) →
      g.args = args.length → Returns g gupv h args v →
      Exec fn upv h (pc + 1) (stk ++ [v]) pc₂ stk₂ →
      Exec fn upv h pc (stk ++ [.cref id] ++ args) pc₂ stk₂
/-- A closure of `g` entered with `args` returns `v` to its caller: it reaches a `Return` with
    `v` on top, or it tail-calls (exact arity) a closure that returns `v`. -/
inductive Returns : Fn → List Val → Heap → List Val → Val → Prop where
  | ret {g gupv h args pcR s v} :
      Exec g gupv h 0 args pcR (s ++ [v]) → g.instrs[pcR]? = some .ret → Returns g gupv h args v
  | tail {g gupv h args pc' s id args' g' gupv' v} :
      Exec g gupv h 0 args pc' (s ++ [.cref id] ++ args') →
      g.instrs[pc']? = some (.tailCall args'.length) → h.clos[id]? = some (g', gupv') →
      g'.args = args'.length → Returns g' gupv' h args' v → Returns g gupv h args v
end

/-- the frame fails with `e`: in one of its own turns, or inside a callee -/
inductive ExecErr : Fn → List Val → Heap → Nat → List Val → Err → Prop where
  | here {fn upv h pc stk pc' stk' e} :
      Exec fn upv h pc stk pc' stk' → stepLocal fn upv pc' stk' h = .err e →
      ExecErr fn upv h pc stk e
  | incall {fn upv h pc stk pc' s id args g gupv e} :
      Exec fn upv h pc stk pc' (s ++ [.cref id] ++ args) →
      (fn.instrs[pc']? = some (.call args.length) ∨ fn.instrs[pc']? = some (.tailCall args.length)) →
      h.clos[id]? = some (g, gupv) → g.args = args.length → ExecErr g gupv h 0 args e →
      ExecErr fn upv h pc stk e

/-- the frame, from `(pc, stk)`, leaves by a tail call whose callee returns `v` -/
def TailRet (fn : Fn) (upv : List Val) (h : Heap) (pc : Nat) (stk : List Val) (v : Val) : Prop :=
  ∃ pc' s id args g gupv, Exec fn upv h pc stk pc' (s ++ [.cref id] ++ args) ∧
    fn.instrs[pc']? = some (.tailCall args.length) ∧ h.clos[id]? = some (g, gupv) ∧
    g.args = args.length ∧ Returns g gupv h args v

theorem Exec.trans {fn upv h pc₁ s₁ pc₂ s₂ pc₃ s₃} :
    Exec fn upv h pc₁ s₁ pc₂ s₂ → Exec fn upv h pc₂ s₂ pc₃ s₃ → Exec fn upv h pc₁ s₁ pc₃ s₃
  | .refl _ _, b => b
  | .cons hs a, b => .cons hs (a.trans b)
  | .call hi hg hn hr a, b => .call hi hg hn hr (a.trans b)

theorem Exec.thenErr {fn upv h pc₁ s₁ pc₂ s₂ e}
    (a : Exec fn upv h pc₁ s₁ pc₂ s₂) (b : ExecErr fn upv h pc₂ s₂ e) :
    ExecErr fn upv h pc₁ s₁ e := by
  cases b with
  | here hb he => exact .here (a.trans hb) he
  | incall hb hi hg hn he => exact .incall (a.trans hb) hi hg hn he

theorem Exec.thenTailRet {fn upv h pc₁ s₁ pc₂ s₂ v}
    (a : Exec fn upv h pc₁ s₁ pc₂ s₂) (b : TailRet fn upv h pc₂ s₂ v) :
    TailRet fn upv h pc₁ s₁ v := by
  obtain ⟨pc', s, id, args, g, gupv, hb, hi, hg, hn, hr⟩ := b
  exact ⟨pc', s, id, args, g, gupv, a.trans hb, hi, hg, hn, hr⟩

theorem Exec.to {fn upv h pc s pc' s' q t} (a : Exec fn upv h pc s pc' s') (hp : pc' = q)
    (hs : s' = t) : Exec fn upv h pc s q t := by
  subst hp; subst hs; exact a

theorem SegAt.to {code b c q} (a : SegAt code b c) (hp : b = q) : SegAt code q c := by
  subst hp; exact a

/-- one instruction that continues -/
theorem Exec.step {fn upv h pc stk i pc' stk'}
    (hf : fn.instrs[pc]? = some i)
    (hs : stepInstr fn upv i pc stk h = .next pc' stk' h) : Exec fn upv h pc stk pc' stk' :=
  .cons (by simp [stepLocal, hf, hs]) (.refl _ _)

/-- one instruction that fails -/
theorem ExecErr.step {fn upv h pc stk i e}
    (hf : fn.instrs[pc]? = some i)
    (hs : stepInstr fn upv i pc stk h = .err e) : ExecErr fn upv h pc stk e :=
  .here (.refl _ _) (by simp [stepLocal, hf, hs])

/-- How the code of an expression ends: at `pcE` with the value on top of `stkE`, or — only for
    code compiled in tail position — by a tail call whose callee returns the value to the
    caller of this frame. -/
def Done (fn : Fn) (upv : List Val) (h : Heap) (tail : Bool) (pc : Nat) (stk : List Val)
    (pcE : Nat) (stkE : List Val) (v : Val) : Prop :=
  Exec fn upv h pc stk pcE (stkE ++ [v]) ∨ (tail = true ∧ TailRet fn upv h pc stk v)

theorem Done.of_exec {fn upv h tail pc stk pcE stkE v}
    (a : Exec fn upv h pc stk pcE (stkE ++ [v])) : Done fn upv h tail pc stk pcE stkE v := Or.inl a

theorem Done.prepend {fn upv h tail pc stk pc₁ stk₁ pcE stkE v}
    (a : Exec fn upv h pc stk pc₁ stk₁) (d : Done fn upv h tail pc₁ stk₁ pcE stkE v) :
    Done fn upv h tail pc stk pcE stkE v := by
  rcases d with d | ⟨ht, d⟩
  · exact Or.inl (a.trans d)
  · exact Or.inr ⟨ht, a.thenTailRet d⟩

theorem Done.andThen {fn upv h tail pc stk pc₁ s₁ pc₂ s₂ v}
    (d : Done fn upv h tail pc stk pc₁ s₁ v)
    (a : Exec fn upv h pc₁ (s₁ ++ [v]) pc₂ (s₂ ++ [v])) : Done fn upv h tail pc stk pc₂ s₂ v := by
  rcases d with d | d
  · exact Or.inl (d.trans a)
  · exact Or.inr d

theorem Done.to {fn upv h tail pc stk pcE stkE v q t}
    (d : Done fn upv h tail pc stk pcE stkE v) (hp : pcE = q) (hs : stkE = t) :
    Done fn upv h tail pc stk q t v := by
  subst hp; subst hs; exact d

theorem Done.exec {fn upv h pc stk pcE stkE v}
    (d : Done fn upv h false pc stk pcE stkE v) : Exec fn upv h pc stk pcE (stkE ++ [v]) := by
  rcases d with d | ⟨ht, _⟩
  · exact d
  · cases ht

/-! ### Stack helpers -/

theorem popN_append (s l : List Val) (n : Nat) (h : l.length = n) : popN (s ++ l) n = s := by
  simp [popN, h]

theorem lastN_append (s l : List Val) (n : Nat) (h : l.length = n) : lastN (s ++ l) n = l := by
  simp [lastN, h]

theorem getLast?_snoc (s : List Val) (v : Val) : (s ++ [v]).getLast? = some v := by simp

/-! ### Single instructions -/

theorem step_prim (fn : Fn) (upv : List Val) (op : PrimOp) (pc : Nat) (s : List Val) (l r : Val)
    (h : Heap) :
    stepInstr fn upv (PrimOp.instr op) pc (s ++ [l, r]) h =
      (match primApply op l r with
       | .ok v => .next (pc + 1) (s ++ [v]) h
       | .error e => .err e) := by
  have h1 : lastN (s ++ [l, r]) 2 = [l, r] := lastN_append s [l, r] 2 rfl
  have h2 : popN (s ++ [l, r]) 2 = s := popN_append s [l, r] 2 rfl
  cases op <;> simp [PrimOp.instr, stepInstr, Instr.primOp?, h1, h2] <;>
    cases primApply _ l r <;> simp <;> omega

theorem adjust_prim (op : PrimOp) : (PrimOp.instr op).adjust = -1 := by
  cases op <;> rfl

/-! ### The tables of a function only grow -/

/-- free variables, string constants and record maps of `a` are prefixes of those of `b` -/
def Ext (a b : FState) : Prop :=
  a.freeVars <+: b.freeVars ∧ a.strings <+: b.strings ∧ a.records <+: b.records

/-- the finished function (and the list of its upvalues' names) extends the tables of `st` -/
def Tables (st : FState) (fn : Fn) (fv : List Sym) : Prop :=
  st.freeVars <+: fv ∧ st.strings <+: fn.strings ∧ st.records <+: fn.records

theorem Ext.refl (a : FState) : Ext a a := ⟨List.prefix_refl _, List.prefix_refl _, List.prefix_refl _⟩

theorem Ext.trans {a b c : FState} (h₁ : Ext a b) (h₂ : Ext b c) : Ext a c :=
  ⟨h₁.1.trans h₂.1, h₁.2.1.trans h₂.2.1, h₁.2.2.trans h₂.2.2⟩

theorem Tables.of_ext {a b : FState} {fn fv} (h₂ : Tables b fn fv) (h₁ : Ext a b) : Tables a fn fv :=
  ⟨h₁.1.trans h₂.1, h₁.2.1.trans h₂.2.1, h₁.2.2.trans h₂.2.2⟩

/-- `a` and `b` have the same tables -/
def SameTabs (a b : FState) : Prop :=
  a.freeVars = b.freeVars ∧ a.strings = b.strings ∧ a.records = b.records

theorem SameTabs.ext {a b : FState} (h : SameTabs a b) : Ext a b := by
  obtain ⟨h1, h2, h3⟩ := h
  exact ⟨h1 ▸ List.prefix_refl _, h2 ▸ List.prefix_refl _, h3 ▸ List.prefix_refl _⟩

theorem SameTabs.ext' {a b : FState} (h : SameTabs a b) : Ext b a := by
  obtain ⟨h1, h2, h3⟩ := h
  exact ⟨h1 ▸ List.prefix_refl _, h2 ▸ List.prefix_refl _, h3 ▸ List.prefix_refl _⟩

theorem SameTabs.trans {a b c : FState} (h₁ : SameTabs a b) (h₂ : SameTabs b c) : SameTabs a c :=
  ⟨h₁.1.trans h₂.1, h₁.2.1.trans h₂.2.1, h₁.2.2.trans h₂.2.2⟩

theorem same_emit (st : FState) (i : Instr) : SameTabs st (st.emit i) := ⟨rfl, rfl, rfl⟩
theorem same_enter (st : FState) : SameTabs st st.enterScope := ⟨rfl, rfl, rfl⟩
theorem same_newStackVar (st : FState) (x : Sym) : SameTabs st (st.newStackVar x) := by
  unfold FState.newStackVar; split <;> exact ⟨rfl, rfl, rfl⟩
theorem same_exit (st : FState) : SameTabs st st.exitScope.2 := by
  unfold FState.exitScope; split <;> exact ⟨rfl, rfl, rfl⟩
theorem same_finish (r : List Instr × FState) : SameTabs r.2 (finishScope r).2 := by
  obtain ⟨h1, h2, h3⟩ := same_exit r.2
  unfold finishScope
  simp only
  split
  · exact ⟨h1, h2, h3⟩
  · exact ⟨h1, h2, h3⟩

theorem prefix_getElem? {α} {l₁ l₂ : List α} {k : Nat} {a : α} (h : l₁ <+: l₂)
    (hk : l₁[k]? = some a) : l₂[k]? = some a := by
  obtain ⟨t, rfl⟩ := h
  have : k < l₁.length := by
    rcases Nat.lt_or_ge k l₁.length with h' | h'
    · exact h'
    · rw [List.getElem?_eq_none h'] at hk; cases hk
  rw [List.getElem?_append_left this]; exact hk

/-- **CloRel**: the `evalCore` closure `v` (member `idx` of the group `cs` over `env`, taking `n`
    parameters) is represented by the heap closure `v' = cref id`: a function of arity `n` with
    upvalues, such that *calling it is calling the closure* — entered with any `n` arguments it
    returns to its caller the value `evalCore` assigns to the body under `params ↦ args`, and
    fails with the arithmetic error when the body does. The relation is indexed by the fuel
    `K` up to which this is known (recursive groups are related at every `K` by induction on `K`,
    `rec_group_correct`); `∀ K, CloRel K …` is the relation proper. -/
def CloRel (K : Nat) (h : Heap) (n : Nat) (v v' : Val) : Prop :=
  ∃ cs idx env id g gupv nm params body,
    v = .clos cs idx env ∧ v' = .cref id ∧ h.clos[id]? = some (g, gupv) ∧
    cs[idx]? = some (nm, params, body) ∧ params.length = n ∧ n ≠ 0 ∧ g.args = n ∧
    ∀ (fuel : Nat) (vs : List Val), fuel ≤ K → vs.length = n →
      (∀ r, evalCore fuel (bindAll params vs (recEnv cs env)) body = .ok r → Returns g gupv h vs r) ∧
      (evalCore fuel (bindAll params vs (recEnv cs env)) body = .error .arith →
        ExecErr g gupv h 0 vs .arith)

/-- how the machine represents the value of variable `x`: function variables (those of `Φ`, with
    their arity) by a related heap closure, all others by the value itself -/
def RV (K : Nat) (h : Heap) (Φ : List (Sym × Nat)) (x : Sym) (v v' : Val) : Prop :=
  match lookupScope Φ x with
  | none => v = v'
  | some n => CloRel K h n v v'

/-- every variable of the environment lives in the stack slot the compiler recorded for it, or,
    when it is not a stack variable of this function and the function refers to it, in the
    upvalue of that name -/
def Agree (K : Nat) (h : Heap) (Φ : List (Sym × Nat)) (fv : List Sym) (upv : List Val)
    (scopes : List (List (Sym × Nat))) (ρ : Env) (stk : List Val) : Prop :=
  ∀ x v, lookup ρ x = some v →
    (∃ i v', lookupScopes scopes x = some i ∧ stk[i]? = some v' ∧ RV K h Φ x v v') ∨
    (lookupScopes scopes x = none ∧
      ∀ k, indexOfSym fv x = some k → ∃ v', upv[k]? = some v' ∧ RV K h Φ x v v')

theorem Agree.append {K h Φ fv upv scopes ρ stk} (ha : Agree K h Φ fv upv scopes ρ stk) (l : List Val) :
    Agree K h Φ fv upv scopes ρ (stk ++ l) := by
  intro x v hx
  rcases ha x v hx with ⟨i, v', hi, hv, hr⟩ | hr
  · refine Or.inl ⟨i, v', hi, ?_, hr⟩
    have : i < stk.length := by
      rcases Nat.lt_or_ge i stk.length with h' | h'
      · exact h'
      · rw [List.getElem?_eq_none h'] at hv; cases hv
    rw [List.getElem?_append_left this]; exact hv
  · exact Or.inr hr

theorem Agree.enter {K h Φ fv upv scopes ρ stk} (ha : Agree K h Φ fv upv scopes ρ stk) :
    Agree K h Φ fv upv ([] :: scopes) ρ stk := by
  intro x v hx
  rcases ha x v hx with ⟨i, v', hi, hv, hr⟩ | ⟨hn, hr⟩
  · exact Or.inl ⟨i, v', by simpa [lookupScopes, lookupScope] using hi, hv, hr⟩
  · exact Or.inr ⟨by simpa [lookupScopes, lookupScope] using hn, hr⟩

/-- what `compileBody` guarantees for one expression -/
def BodySpec (seIdx : Nat) (Φ : List (Sym × Nat)) (e : Expr) : Prop :=
  ∀ (tail : Bool) (b : Nat) (st : FState) (S : List (Sym × Nat)) (rest : List (List (Sym × Nat))),
    st.scopes = S :: rest →
    ∃ N : List (Sym × Nat),
      (compileBody seIdx e tail b st).2.scopes = (N ++ S) :: rest ∧
      (compileBody seIdx e tail b st).2.stackSize = st.stackSize + N.length + 1 ∧
      Ext st (compileBody seIdx e tail b st).2 ∧
      ∀ (K fuel : Nat), fuel ≤ K + 1 →
      ∀ (fn : Fn) (upv : List Val) (fv : List Sym) (h : Heap) (ρ : Env) (stk : List Val),
        SegAt fn.instrs b (compileBody seIdx e tail b st).1 →
        Tables (compileBody seIdx e tail b st).2 fn fv →
        stk.length = st.stackSize → Agree K h Φ fv upv st.scopes ρ stk → lookup ρ dummySym = none →
        (∀ v, evalCore fuel ρ e = .ok v →
          ∃ L : List Val, L.length = N.length ∧
            Done fn upv h tail b stk (b + (compileBody seIdx e tail b st).1.length) (stk ++ L) v) ∧
        (evalCore fuel ρ e = .error .arith → ExecErr fn upv h b stk .arith)

/-- what `compile` (= `finishScope ∘ compileBody ∘ enterScope`) guarantees -/
def WrapSpec (seIdx : Nat) (Φ : List (Sym × Nat)) (e : Expr) : Prop :=
  ∀ (tail : Bool) (b : Nat) (st : FState),
      (compileE seIdx e tail b st).2.scopes = st.scopes ∧
      (compileE seIdx e tail b st).2.stackSize = st.stackSize + 1 ∧
      Ext st (compileE seIdx e tail b st).2 ∧
      ∀ (K fuel : Nat), fuel ≤ K + 1 →
      ∀ (fn : Fn) (upv : List Val) (fv : List Sym) (h : Heap) (ρ : Env) (stk : List Val),
        SegAt fn.instrs b (compileE seIdx e tail b st).1 →
        Tables (compileE seIdx e tail b st).2 fn fv →
        stk.length = st.stackSize → Agree K h Φ fv upv st.scopes ρ stk → lookup ρ dummySym = none →
        (∀ v, evalCore fuel ρ e = .ok v →
            Done fn upv h tail b stk (b + (compileE seIdx e tail b st).1.length) stk v) ∧
        (evalCore fuel ρ e = .error .arith → ExecErr fn upv h b stk .arith)

theorem adjustSize_slide (n m : Nat) : adjustSize (.slide n) m = m - n := by
  simp [adjustSize, Instr.adjust]
  omega

theorem step_slide (fn : Fn) (upv : List Val) (pc : Nat) (s L : List Val) (v : Val) (h : Heap)
    (n : Nat) (hL : L.length = n) :
    stepInstr fn upv (.slide n) pc (s ++ L ++ [v]) h = .next (pc + 1) (s ++ [v]) h := by
  have h2 : popN (s ++ (L ++ [v])) (n + 1) = s :=
    popN_append s (L ++ [v]) (n + 1) (by simp [hL])
  have h3 : ¬ (s.length + (n + 1) < n + 1) := by omega
  simp [stepInstr, h2, hL, h3]

theorem wrap_of_body {seIdx : Nat} {Φ : List (Sym × Nat)} {e : Expr} (hb : BodySpec seIdx Φ e) :
    WrapSpec seIdx Φ e := by
  intro tail b st
  obtain ⟨N, hsc, hss, hext, hdyn⟩ := hb tail b st.enterScope [] st.scopes rfl
  have hex : (compileBody seIdx e tail b st.enterScope).2.exitScope =
      (N.length, { (compileBody seIdx e tail b st.enterScope).2 with scopes := st.scopes }) := by
    simp [FState.exitScope, hsc]
  have hss' : (compileBody seIdx e tail b st.enterScope).2.stackSize = st.stackSize + N.length + 1 := by
    simpa [FState.enterScope] using hss
  have hsame : SameTabs (compileBody seIdx e tail b st.enterScope).2 (compileE seIdx e tail b st).2 :=
    same_finish _
  refine ⟨?_, ?_, ((same_enter st).ext.trans hext).trans hsame.ext, ?_⟩
  · simp only [compileE, finishScope, hex]
    split <;> simp [FState.emit]
  · simp only [compileE, finishScope, hex]
    split
    · rename_i h0; simp [hss', h0]
    · simp [FState.emit, adjustSize_slide, hss']
      omega
  · intro K fuel hK fn upv fv h ρ stk hseg htab hlen hag hdum
    have hcode : (compileE seIdx e tail b st).1 =
        (compileBody seIdx e tail b st.enterScope).1 ++ slideCode N.length := by
      simp [compileE, finishScope, hex]
    rw [hcode] at hseg ⊢
    obtain ⟨hok, herr⟩ := hdyn K fuel (by omega) fn upv fv h ρ stk hseg.left (htab.of_ext hsame.ext)
      (by simpa [FState.enterScope] using hlen) (by simpa [FState.enterScope] using hag.enter) hdum
    refine ⟨fun v hv => ?_, herr⟩
    obtain ⟨L, hL, hex⟩ := hok v hv
    by_cases h0 : N.length = 0
    · have : L = [] := List.eq_nil_of_length_eq_zero (by omega)
      subst this
      simpa [slideCode, h0] using hex
    · have hs := hseg.right
      simp only [slideCode, h0, if_false] at hs ⊢
      have := Exec.step (fn := fn) (upv := upv) (h := h) hs.head
        (step_slide fn upv _ stk L v h N.length hL)
      exact (hex.andThen this).to (by simp [Nat.add_assoc]) rfl

/-! ### Unfolding `compileBody` -/

theorem compileBody_cast (seIdx e tail b st) :
    compileBody seIdx (.cast e) tail b st = compileBody seIdx e tail b st := by
  simp [compileBody]

theorem compileBody_letE (seIdx x e₁ body tail b st) :
    compileBody seIdx (.letE x e₁ body) tail b st =
      ((compileE seIdx e₁ false b st).1 ++
        (compileBody seIdx body tail (b + (compileE seIdx e₁ false b st).1.length)
          ((compileE seIdx e₁ false b st).2.newStackVar x)).1,
       (compileBody seIdx body tail (b + (compileE seIdx e₁ false b st).1.length)
          ((compileE seIdx e₁ false b st).2.newStackVar x)).2) := by
  simp [compileBody, compileE]

theorem compileBody_prim (seIdx f lhs rhs tail b st op) (hh : headOf f 2 = .prim op) :
    compileBody seIdx (.call f [lhs, rhs]) tail b st =
      ((compileE seIdx lhs false b st).1 ++
        (compileE seIdx rhs false (b + (compileE seIdx lhs false b st).1.length)
          (compileE seIdx lhs false b st).2).1 ++ [PrimOp.instr op],
       ((compileE seIdx rhs false (b + (compileE seIdx lhs false b st).1.length)
          (compileE seIdx lhs false b st).2).2).emit (PrimOp.instr op)) := by
  simp [compileBody, compileE, hh]

theorem compileArgs_cons (seIdx e es b st) :
    compileArgs seIdx (e :: es) b st =
      ((compileE seIdx e false b st).1 ++
        (compileArgs seIdx es (b + (compileE seIdx e false b st).1.length)
          (compileE seIdx e false b st).2).1,
       (compileArgs seIdx es (b + (compileE seIdx e false b st).1.length)
          (compileE seIdx e false b st).2).2) := by
  simp [compileArgs, compileE]

/-- the compiler state in which the right operand of `&&` is compiled (compiler.rs:980-985) -/
def andMid (st₁ : FState) : FState :=
  { ((st₁.emit (.cJump 0)).emit (.constructVariant 0 0)).emit (.jump 0) with
    stackSize := (((st₁.emit (.cJump 0)).emit (.constructVariant 0 0)).emit (.jump 0)).stackSize - 1 }

theorem andMid_scopes (st₁ : FState) : (andMid st₁).scopes = st₁.scopes := rfl

theorem andMid_size (st₁ : FState) (n : Nat) (h : st₁.stackSize = n + 1) :
    (andMid st₁).stackSize = n := by
  simp [andMid, FState.emit, adjustSize, Instr.adjust, h]

theorem compileBody_and (seIdx f lhs rhs tail b st) (hh : headOf f 2 = .and_) :
    compileBody seIdx (.call f [lhs, rhs]) tail b st =
      ((compileE seIdx lhs false b st).1 ++
        [.cJump (b + (compileE seIdx lhs false b st).1.length + 3), .constructVariant 0 0,
         .jump (b + (compileE seIdx lhs false b st).1.length + 3 +
            (compileE seIdx rhs tail (b + (compileE seIdx lhs false b st).1.length + 3)
              (andMid (compileE seIdx lhs false b st).2)).1.length)] ++
        (compileE seIdx rhs tail (b + (compileE seIdx lhs false b st).1.length + 3)
              (andMid (compileE seIdx lhs false b st).2)).1,
       (compileE seIdx rhs tail (b + (compileE seIdx lhs false b st).1.length + 3)
              (andMid (compileE seIdx lhs false b st).2)).2) := by
  simp [compileBody, compileE, hh, andMid]

theorem compileBody_or (seIdx f lhs rhs tail b st) (hh : headOf f 2 = .or_) :
    compileBody seIdx (.call f [lhs, rhs]) tail b st =
      ((compileE seIdx lhs false b st).1 ++
        [.cJump (b + (compileE seIdx lhs false b st).1.length + 1 +
            (compileE seIdx rhs tail (b + (compileE seIdx lhs false b st).1.length + 1)
              ((compileE seIdx lhs false b st).2.emit (.cJump 0))).1.length + 1)] ++
        (compileE seIdx rhs tail (b + (compileE seIdx lhs false b st).1.length + 1)
              ((compileE seIdx lhs false b st).2.emit (.cJump 0))).1 ++
        [.jump (b + (compileE seIdx lhs false b st).1.length + 1 +
            (compileE seIdx rhs tail (b + (compileE seIdx lhs false b st).1.length + 1)
              ((compileE seIdx lhs false b st).2.emit (.cJump 0))).1.length + 1 + 1),
         .constructVariant 1 0],
       { (((compileE seIdx rhs tail (b + (compileE seIdx lhs false b st).1.length + 1)
              ((compileE seIdx lhs false b st).2.emit (.cJump 0))).2.emit (.jump 0)).emit
              (.constructVariant 1 0)) with
         stackSize := ((((compileE seIdx rhs tail (b + (compileE seIdx lhs false b st).1.length + 1)
              ((compileE seIdx lhs false b st).2.emit (.cJump 0))).2.emit (.jump 0)).emit
              (.constructVariant 1 0))).stackSize - 1 }) := by
  simp [compileBody, compileE, hh]

theorem step_cJump (fn : Fn) (upv : List Val) (pc k : Nat) (s : List Val) (v : Val) (h : Heap) :
    stepInstr fn upv (.cJump k) pc (s ++ [v]) h =
      if isFalse v then .next (pc + 1) s h else .next k s h := by
  have h2 : popN (s ++ [v]) 1 = s := popN_append s [v] 1 rfl
  simp [stepInstr, h2]

theorem step_jump (fn : Fn) (upv : List Val) (pc k : Nat) (s : List Val) (h : Heap) :
    stepInstr fn upv (.jump k) pc s h = .next k s h := rfl

theorem step_pushTag (fn : Fn) (upv : List Val) (pc t : Nat) (s : List Val) (h : Heap) :
    stepInstr fn upv (.constructVariant t 0) pc s h = .next (pc + 1) (s ++ [tagVal t]) h := by
  simp [stepInstr, popN]

theorem headOf_and_len {f : Expr} {n : Nat} (h : headOf f n = .and_) : n = 2 := by
  unfold headOf at h
  split at h
  · split at h
    · split at h
      · rename_i h2; exact h2
      · simp at h
    · split at h
      · split at h <;> simp at h
      · split at h
        · split at h
          · split at h <;> simp at h
          · simp at h
        · simp at h
  · simp at h

theorem headOf_or_len {f : Expr} {n : Nat} (h : headOf f n = .or_) : n = 2 := by
  unfold headOf at h
  split at h
  · split at h
    · split at h <;> simp at h
    · split at h
      · split at h
        · rename_i h2; exact h2
        · simp at h
      · split at h
        · split at h
          · split at h <;> simp at h
          · simp at h
        · simp at h
  · simp at h

theorem headOf_prim_len {f : Expr} {n : Nat} {op : PrimOp} (h : headOf f n = .prim op) : n = 2 := by
  unfold headOf at h
  split at h
  · split at h
    · split at h <;> simp at h
    · split at h
      · split at h <;> simp at h
      · split at h
        · split at h
          · split at h
            · rename_i h2; exact h2
            · simp at h
          · simp at h
        · simp at h
  · simp at h

theorem evalList_length : ∀ (fuel : Nat) (ρ : Env) (es : List Expr) (vs : List Val),
    evalList fuel ρ es = .ok vs → vs.length = es.length
  | 0, _, _, _, h => by simp [evalList] at h
  | _ + 1, _, [], vs, h => by simp [evalList] at h; subst h; rfl
  | fuel + 1, ρ, e :: es, vs, h => by
    simp only [evalList] at h
    split at h
    · simp at h
    · split at h
      · simp at h
      · rename_i vs' hvs
        simp at h; subst h
        simp [evalList_length fuel ρ es vs' hvs]

theorem Agree.bind {K h Φ fv upv S rest ρ stk x v} (ha : Agree K h Φ fv upv (S :: rest) ρ stk)
    (hx : lookupScope Φ x = none) :
    Agree K h Φ fv upv (((x, stk.length) :: S) :: rest) ((x, v) :: ρ) (stk ++ [v]) := by
  intro y w hy
  simp only [lookup] at hy
  by_cases hyx : y = x
  · simp [hyx] at hy; subst hy
    exact Or.inl ⟨stk.length, v, by simp [lookupScopes, lookupScope, hyx], by simp,
      by simp [RV, hyx, hx]⟩
  · simp [hyx] at hy
    rcases (ha.append [v]) y w hy with ⟨i, v', hi, hv, hr⟩ | ⟨hn, hr⟩
    · refine Or.inl ⟨i, v', ?_, hv, hr⟩
      simp only [lookupScopes, lookupScope, hyx, if_false] at hi ⊢
      exact hi
    · refine Or.inr ⟨?_, hr⟩
      simp only [lookupScopes, lookupScope, hyx, if_false] at hn ⊢
      exact hn

/-- what `compileArgs` guarantees for an argument list -/
def ArgsSpec (seIdx : Nat) (Φ : List (Sym × Nat)) (es : List Expr) : Prop :=
  ∀ (b : Nat) (st : FState),
      (compileArgs seIdx es b st).2.scopes = st.scopes ∧
      (compileArgs seIdx es b st).2.stackSize = st.stackSize + es.length ∧
      Ext st (compileArgs seIdx es b st).2 ∧
      ∀ (K fuel : Nat), fuel ≤ K + 1 →
      ∀ (fn : Fn) (upv : List Val) (fv : List Sym) (h : Heap) (ρ : Env) (stk : List Val),
        SegAt fn.instrs b (compileArgs seIdx es b st).1 →
        Tables (compileArgs seIdx es b st).2 fn fv →
        stk.length = st.stackSize → Agree K h Φ fv upv st.scopes ρ stk → lookup ρ dummySym = none →
        (∀ vs, evalList fuel ρ es = .ok vs →
            Exec fn upv h b stk (b + (compileArgs seIdx es b st).1.length) (stk ++ vs)) ∧
        (evalList fuel ρ es = .error .arith → ExecErr fn upv h b stk .arith)

theorem args_nil (seIdx : Nat) (Φ : List (Sym × Nat)) : ArgsSpec seIdx Φ [] := by
  intro b st
  refine ⟨by simp [compileArgs], by simp [compileArgs], by simpa [compileArgs] using Ext.refl st, ?_⟩
  intro K fuel _ fn upv fv h ρ stk _ _ _ _ _
  refine ⟨fun vs hv => ?_, fun he => ?_⟩
  · cases fuel <;> simp [evalList] at hv
    subst hv; simpa [compileArgs] using Exec.refl (fn := fn) (upv := upv) (h := h) b stk
  · cases fuel <;> simp [evalList] at he

theorem args_cons {seIdx : Nat} {Φ : List (Sym × Nat)} {e : Expr} {es : List Expr}
    (he : WrapSpec seIdx Φ e) (hes : ArgsSpec seIdx Φ es) : ArgsSpec seIdx Φ (e :: es) := by
  intro b st
  obtain ⟨hs1, hz1, hx1, hd1⟩ := he false b st
  obtain ⟨hs2, hz2, hx2, hd2⟩ := hes (b + (compileE seIdx e false b st).1.length) (compileE seIdx e false b st).2
  rw [compileArgs_cons]
  refine ⟨by simp [hs2, hs1], by simp [hz2, hz1]; omega, hx1.trans hx2, ?_⟩
  intro K fuel hK fn upv fv h ρ stk hseg htab hlen hag hdum
  cases fuel with
  | zero => simp [evalList]
  | succ n =>
    obtain ⟨hok1, herr1⟩ := hd1 K n (by omega) fn upv fv h ρ stk hseg.left (htab.of_ext hx2) hlen hag hdum
    simp only [evalList]
    cases h1 : evalCore n ρ e with
    | error err =>
      refine ⟨fun vs hv => by simp at hv, fun he => ?_⟩
      simp at he; subst he
      exact herr1 h1
    | ok v =>
      have ex1 := (hok1 v h1).exec
      obtain ⟨hok2, herr2⟩ := hd2 K n (by omega) fn upv fv h ρ (stk ++ [v]) hseg.right htab
        (by simp [hz1, hlen]) (by rw [hs1]; exact hag.append [v]) hdum
      cases h2 : evalList n ρ es with
      | error err =>
        refine ⟨fun vs hv => by simp at hv, fun he => ?_⟩
        simp at he; subst he
        exact ex1.thenErr (herr2 h2)
      | ok vs =>
        refine ⟨fun vs' hv => ?_, fun he => by simp at he⟩
        simp at hv; subst hv
        have := ex1.trans (hok2 vs h2)
        simpa [Nat.add_assoc] using this

theorem step_constructVariant (fn : Fn) (upv : List Val) (pc : Nat) (s vs : List Val) (h : Heap)
    (t n : Nat) (hn : vs.length = n) :
    stepInstr fn upv (.constructVariant t n) pc (s ++ vs) h =
      .next (pc + 1) (s ++ [.data t vs []]) h := by
  have h1 : lastN (s ++ vs) n = vs := lastN_append s vs n hn
  have h2 : popN (s ++ vs) n = s := popN_append s vs n hn
  have h3 : ¬ (s.length + vs.length < n) := by omega
  by_cases h0 : n = 0
  · subst h0
    have : vs = [] := List.eq_nil_of_length_eq_zero hn
    subst this
    simp [stepInstr, tagVal, popN]
  · simp [stepInstr, h1, h2, h3, h0]

theorem step_constructArray (fn : Fn) (upv : List Val) (pc : Nat) (s vs : List Val) (h : Heap)
    (n : Nat) (hn : vs.length = n) :
    stepInstr fn upv (.constructArray n) pc (s ++ vs) h = .next (pc + 1) (s ++ [.arr vs]) h := by
  have h1 : lastN (s ++ vs) n = vs := lastN_append s vs n hn
  have h2 : popN (s ++ vs) n = s := popN_append s vs n hn
  have h3 : ¬ (s.length + vs.length < n) := by omega
  simp [stepInstr, h1, h2, h3]

theorem adjustSize_construct (i : Instr) (n m : Nat) (hi : i.adjust = 1 - (n : Int)) :
    adjustSize i (m + n) = m + 1 := by
  unfold adjustSize
  rw [hi]
  split <;> omega

/-! ### Patterns -/

/-- the stack variables `pushVars` registers, innermost first -/
def varsOf (n : Nat) : List Sym → List (Sym × Nat)
  | [] => []
  | x :: xs => varsOf (n + 1) xs ++ [(x, n)]

theorem varsOf_length (n : Nat) (xs : List Sym) : (varsOf n xs).length = xs.length := by
  induction xs generalizing n with
  | nil => rfl
  | cons x xs ih => simp [varsOf, ih]

/-! ### Record patterns by `Split` -/

/-- symbolic environment of `bindFields`: binder ↦ index of the field it is bound to, the most
    recent binding first -/
def symF : List PatField → List (Sym × Nat)
  | [] => []
  | f :: rest => symF rest ++ [(f.binder, f.index.getD 0)]

theorem lookupScope_append (A B : List (Sym × Nat)) (y : Sym) :
    lookupScope (A ++ B) y = (lookupScope A y).orElse (fun _ => lookupScope B y) := by
  induction A with
  | nil => simp [lookupScope]
  | cons a A ih =>
    obtain ⟨x, i⟩ := a
    simp only [List.cons_append, lookupScope]
    split
    · simp
    · exact ih

/-- what `bindFields` binds, read off the symbolic environment -/
theorem bindFields_lookup (fs : List Val) (ns : List String) :
    ∀ (fields : List PatField) (ρ ρ' : Env), bindFields false fields fs ns ρ = some ρ' →
      ∀ y, lookup ρ' y = (match lookupScope (symF fields) y with
                         | some i => fs[i]?
                         | none => lookup ρ y)
  | [], ρ, ρ', h, y => by
    simp only [bindFields, Option.some.injEq] at h
    subst h; simp [symF, lookupScope]
  | f :: rest, ρ, ρ', h, y => by
    simp only [bindFields] at h
    cases hfo : fieldOf false f fs ns with
    | none => simp [hfo] at h
    | some w =>
      simp only [hfo] at h
      have hidx : ∃ i, f.index = some i ∧ fs[i]? = some w := by
        simp only [fieldOf, Bool.false_eq_true, if_false] at hfo
        cases hi : f.index with
        | none => simp [hi] at hfo
        | some i => exact ⟨i, rfl, by simpa [hi] using hfo⟩
      obtain ⟨i, hi, hw⟩ := hidx
      have ih := bindFields_lookup fs ns rest _ ρ' h y
      rw [ih]
      simp only [symF, lookupScope_append, hi, Option.getD_some]
      cases hl : lookupScope (symF rest) y with
      | some j => simp
      | none =>
        simp only [Option.orElse_none, lookupScope, lookup]
        by_cases hy : y = f.binder
        · simp [hy, hw]
        · simp [hy]

theorem symF_mem : ∀ (fields : List PatField) (y : Sym) (i : Nat),
    lookupScope (symF fields) y = some i → ∃ f ∈ fields, f.binder = y
  | [], y, i, h => by simp [symF, lookupScope] at h
  | f :: rest, y, i, h => by
    simp only [symF, lookupScope_append] at h
    cases hl : lookupScope (symF rest) y with
    | some j =>
      obtain ⟨g, hg, hb⟩ := symF_mem rest y j hl
      exact ⟨g, by simp [hg], hb⟩
    | none =>
      simp only [hl, Option.orElse_none, lookupScope] at h
      by_cases hy : y = f.binder
      · exact ⟨f, by simp, hy.symm⟩
      · simp [hy] at h

theorem lookupScope_varsOf_shift : ∀ (xs : List Sym) (n : Nat) (y : Sym),
    lookupScope (varsOf n xs) y = (lookupScope (varsOf 0 xs) y).map (· + n)
  | [], n, y => by simp [varsOf, lookupScope]
  | x :: xs, n, y => by
    simp only [varsOf, lookupScope_append]
    rw [lookupScope_varsOf_shift xs (n + 1) y, lookupScope_varsOf_shift xs (0 + 1) y]
    cases lookupScope (varsOf 0 xs) y with
    | some j => simp; omega
    | none =>
      simp only [Option.map_none, Option.orElse_none, lookupScope]
      by_cases hy : y = x <;> simp [hy]

theorem lookupScope_varsOf_none : ∀ (xs : List Sym) (n : Nat) (y : Sym), ¬ y ∈ xs →
    lookupScope (varsOf n xs) y = none
  | [], n, y, _ => by simp [varsOf, lookupScope]
  | x :: xs, n, y, h => by
    simp only [List.mem_cons, not_or] at h
    simp [varsOf, lookupScope_append, lookupScope_varsOf_none xs (n + 1) y h.2, lookupScope, h.1]

/-- the stack variables of the `Split` path: one per field of the type -/
def splitNames (byType : List (Option Sym)) : List Sym := byType.map (·.getD dummySym)

/-- the pattern's bindings and the variables registered per type field denote the same fields
    (checked, not assumed: both descriptions come from the harness) -/
def splitOk (nfields : Nat) (fields : List PatField) (byType : List (Option Sym)) : Bool :=
  decide (byType.length = nfields) &&
  fields.all (fun f =>
    lookupScope (varsOf 0 (splitNames byType)) f.binder == lookupScope (symF fields) f.binder) &&
  (splitNames byType).all (fun x => x == dummySym || (lookupScope (symF fields) x).isSome) &&
  !(fields.map (·.binder)).contains dummySym

theorem split_agree (K : Nat) (h : Heap) (Φ : List (Sym × Nat)) (fv : List Sym) (upv : List Val)
    (scopes : List (List (Sym × Nat)))
    (nfields : Nat) (fields : List PatField) (byType : List (Option Sym))
    (hok : splitOk nfields fields byType = true)
    (hfr : ∀ f ∈ fields, lookupScope Φ f.binder = none)
    (stk fs : List Val) (ns : List String) (ρ ρ' : Env)
    (hlen : fs.length = nfields)
    (hag : Agree K h Φ fv upv scopes ρ stk) (hdum : lookup ρ dummySym = none)
    (hb : bindFields false fields fs ns ρ = some ρ') :
    Agree K h Φ fv upv ((varsOf stk.length (splitNames byType) ++ []) :: scopes) ρ' (stk ++ fs) ∧
    lookup ρ' dummySym = none := by
  simp only [splitOk, Bool.and_eq_true, decide_eq_true_eq, List.all_eq_true, beq_iff_eq,
    Bool.or_eq_true, Bool.not_eq_true'] at hok
  obtain ⟨⟨⟨hbl, hfld⟩, hnm⟩, hnd⟩ := hok
  have hL := bindFields_lookup fs ns fields ρ ρ' hb
  constructor
  · intro y v hy
    rw [hL y] at hy
    cases hs : lookupScope (symF fields) y with
    | some i =>
      simp only [hs] at hy
      obtain ⟨f, hf, hfb⟩ := symF_mem fields y i hs
      have h1 := hfld f hf
      rw [hfb, hs] at h1
      refine Or.inl ⟨i + stk.length, v, ?_, ?_, ?_⟩
      · simp only [List.append_nil, lookupScopes]
        rw [lookupScope_varsOf_shift, h1]
        simp
      · rw [Nat.add_comm, List.getElem?_append_right (Nat.le_add_right _ _)]
        simpa using hy
      · have := hfr f hf
        rw [hfb] at this
        simp [RV, this]
    | none =>
      simp only [hs] at hy
      have hyd : ¬ y = dummySym := by
        intro e; subst e; rw [hdum] at hy; cases hy
      have hnot : ¬ y ∈ splitNames byType := by
        intro hin
        rcases hnm y hin with h | h
        · exact hyd h
        · rw [hs] at h; simp at h
      have hP : lookupScope (varsOf stk.length (splitNames byType)) y = none :=
        lookupScope_varsOf_none _ _ _ hnot
      rcases (hag.append fs) y v hy with ⟨i, v', hi, hv, hr⟩ | ⟨hn, hr⟩
      · exact Or.inl ⟨i, v', by simp [lookupScopes, hP, hi], hv, hr⟩
      · exact Or.inr ⟨by simp [lookupScopes, hP, hn], hr⟩
  · rw [hL dummySym]
    cases hs : lookupScope (symF fields) dummySym with
    | some i =>
      obtain ⟨f, hf, hfb⟩ := symF_mem fields dummySym i hs
      have : (fields.map (·.binder)).contains dummySym = true := by
        simp only [List.contains_eq_mem, List.mem_map, decide_eq_true_eq]
        exact ⟨f, hf, hfb⟩
      rw [this] at hnd; cases hnd
    | none => simpa using hdum

/-- compile_let_pattern :1057: the record pattern is compiled to `GetOffset`s (few fields of a
    large record, or no field at all) rather than to a `Split` -/
def goCond (nfields : Nat) (fields : List PatField) : Prop :=
  fields.length = 0 ∨ (nfields > 4 ∧ nfields / fields.length ≥ 4)

instance (nfields : Nat) (fields : List PatField) : Decidable (goCond nfields fields) := by
  unfold goCond; exact inferInstance


/-- the alternatives' patterns covered by F1 -/
def patOk : Pat → Bool
  | .ctor (some _) args => !args.contains dummySym
  | .ident x => decide (x ≠ dummySym)
  | .lit (.int _) => true
  | .lit (.char _) => true
  | .lit (.byte _) => true
  /- record / tuple patterns on closed rows: both paths of compile_let_pattern :1057 -/
  | .record nfields poly fields byType =>
    !poly &&
      (if goCond nfields fields then
        fields.all (fun f => f.index.isSome) && !(fields.map (·.binder)).contains dummySym
       else splitOk nfields fields byType)
  | _ => false

def isRec : Pat → Bool
  | .record _ _ _ _ => true
  | _ => false

theorem emit_emit_test (st : FState) (t : Nat) :
    ((st.emit (.testTag t)).emit (.cJump 0)) = st := by
  cases st
  simp [FState.emit, adjustSize, Instr.adjust]

theorem testCode_state (seIdx : Nat) (p : Pat) (st : FState) (hp : patOk p = true) :
    (testCode seIdx p st).2 = st := by
  cases p with
  | ctor tag args => cases tag <;> simp_all [patOk, testCode, emit_emit_test]
  | ident x => simp [testCode]
  | lit l => cases l <;> simp_all [patOk, testCode]
  | record _ _ _ _ => simp [testCode]

theorem patchLast_length (c : List Instr) (t : Nat) : (patchLast c t).length = c.length := by
  unfold patchLast
  split
  · rename_i h; simp
    have : c ≠ [] := by intro hc; subst hc; simp at h
    have := List.length_pos_iff.mpr this
    omega
  · rename_i h; simp
    have : c ≠ [] := by intro hc; subst hc; simp at h
    have := List.length_pos_iff.mpr this
    omega
  · rfl

theorem isFalse_boolVal (b : Bool) : isFalse (boolVal b) = !b := by
  cases b <;> rfl

theorem step_testTag (fn : Fn) (upv : List Val) (pc t t' : Nat) (s fs : List Val) (ns : List String)
    (h : Heap) :
    stepInstr fn upv (.testTag t) pc (s ++ [.data t' fs ns]) h =
      .next (pc + 1) (s ++ [.data t' fs ns] ++ [boolVal (t' = t)]) h := by
  simp [stepInstr, asData]

theorem step_push (fn : Fn) (upv : List Val) (pc k : Nat) (s : List Val) (v : Val) (h : Heap)
    (hk : s[k]? = some v) :
    stepInstr fn upv (.push k) pc s h = .next (pc + 1) (s ++ [v]) h := by
  simp [stepInstr, hk]

/-- The test of one alternative: jumps to the alternative's code when the pattern selects the
    scrutinee, falls through to the next test otherwise; the stack is as before. -/
theorem test_exec (seIdx : Nat) (p : Pat) (hp : patOk p = true) (hnr : isRec p = false)
    (st : FState) (fn : Fn)
    (upv : List Val) (h : Heap) (stk : List Val) (sv : Val) (ρ : Env) (T s : Nat)
    (hz : st.stackSize = stk.length + 1)
    (hseg : SegAt fn.instrs T (patchLast (testCode seIdx p st).1 s)) :
    (∀ ρ', matchPat p sv ρ = some (some ρ') → Exec fn upv h T (stk ++ [sv]) s (stk ++ [sv])) ∧
    (matchPat p sv ρ = some none →
      Exec fn upv h T (stk ++ [sv]) (T + (testCode seIdx p st).1.length) (stk ++ [sv])) := by
  cases p with
  | record _ _ _ _ => simp [isRec] at hnr
  | ident x =>
    simp only [testCode, patchLast] at hseg
    simp at hseg
    refine ⟨fun ρ' _ => Exec.step hseg.head (step_jump fn upv _ _ _ h), fun hm => ?_⟩
    simp [matchPat] at hm
  | ctor tag args =>
    cases tag with
    | none => simp [patOk] at hp
    | some t =>
      simp only [testCode, patchLast] at hseg
      simp at hseg
      have h1 := hseg.head
      have h2 := hseg.tail.head
      cases sv with
      | data t' fs ns =>
        have e1 := Exec.step (upv := upv) (h := h) h1 (step_testTag fn upv T t t' stk fs ns h)
        by_cases htt : t = t'
        · subst htt
          have e2 := Exec.step (upv := upv) (h := h) h2
            (by rw [step_cJump]; simp [isFalse_boolVal] :
              stepInstr fn upv _ _ (stk ++ [Val.data t fs ns] ++ [boolVal (t = t)]) h =
                .next s (stk ++ [Val.data t fs ns]) h)
          refine ⟨fun ρ' _ => e1.trans e2, fun hm => ?_⟩
          simp [matchPat] at hm
        · have htt' : ¬ t' = t := fun e => htt e.symm
          have e2 := Exec.step (upv := upv) (h := h) h2
            (by rw [step_cJump]; simp [isFalse_boolVal, htt'] :
              stepInstr fn upv _ _ (stk ++ [Val.data t' fs ns] ++ [boolVal (t' = t)]) h =
                .next (T + 1 + 1) (stk ++ [Val.data t' fs ns]) h)
          refine ⟨fun ρ' hm => ?_, fun _ => (e1.trans e2).to (by simp [testCode]) rfl⟩
          simp [matchPat, htt] at hm
      | _ => exact ⟨fun ρ' hm => by simp [matchPat] at hm, fun hm => by simp [matchPat] at hm⟩
  | lit l =>
    have hsv : (stk ++ [sv])[st.stackSize - 1]? = some sv := by
      rw [hz]; simp
    cases l with
    | str _ => simp [patOk] at hp
    | float _ => simp [patOk] at hp
    | int n =>
      simp only [testCode, patchLast] at hseg
      simp at hseg
      have e1 := Exec.step (upv := upv) (h := h) hseg.head (step_push fn upv T _ _ sv h hsv)
      have e2 := Exec.step (upv := upv) (h := h) (stk := stk ++ [sv] ++ [sv]) hseg.tail.head
        (rfl : stepInstr fn upv (.pushInt n) _ _ h = .next _ (stk ++ [sv] ++ [sv] ++ [.int n]) h)
      have h3 := hseg.tail.tail.head
      have h4 := hseg.tail.tail.tail.head
      cases sv with
      | int m =>
        have hst := step_prim fn upv .intEQ (T + 1 + 1) (stk ++ [.int m]) (.int m) (.int n) h
        simp only [primApply] at hst
        have e3 : Exec fn upv h (T + 1 + 1) (stk ++ [.int m] ++ [.int m] ++ [.int n])
            (T + 1 + 1 + 1) (stk ++ [.int m] ++ [boolVal (m = n)]) :=
          Exec.step h3 (by simpa [PrimOp.instr] using hst)
        by_cases hmn : n = m
        · subst hmn
          have e4 := Exec.step (upv := upv) (h := h) h4
            (by rw [step_cJump]; simp [isFalse_boolVal] :
              stepInstr fn upv _ _ (stk ++ [Val.int n] ++ [boolVal (n = n)]) h =
                .next s (stk ++ [Val.int n]) h)
          refine ⟨fun ρ' _ => ((e1.trans e2).trans e3).trans e4, fun hm => ?_⟩
          simp [matchPat, litMatches] at hm
        · have hmn' : ¬ m = n := fun e => hmn e.symm
          have e4 := Exec.step (upv := upv) (h := h) h4
            (by rw [step_cJump]; simp [isFalse_boolVal, hmn'] :
              stepInstr fn upv _ _ (stk ++ [Val.int m] ++ [boolVal (m = n)]) h =
                .next (T + 1 + 1 + 1 + 1) (stk ++ [Val.int m]) h)
          refine ⟨fun ρ' hm => ?_, fun _ =>
            (((e1.trans e2).trans e3).trans e4).to (by simp [testCode]) rfl⟩
          simp [matchPat, litMatches, hmn] at hm
      | _ => exact ⟨fun ρ' hm => by simp [matchPat, litMatches] at hm,
                    fun hm => by simp [matchPat, litMatches] at hm⟩
    | char n =>
      simp only [testCode, patchLast] at hseg
      simp at hseg
      have e1 := Exec.step (upv := upv) (h := h) hseg.head (step_push fn upv T _ _ sv h hsv)
      have e2 := Exec.step (upv := upv) (h := h) (stk := stk ++ [sv] ++ [sv]) hseg.tail.head
        (rfl : stepInstr fn upv (.pushInt n) _ _ h = .next _ (stk ++ [sv] ++ [sv] ++ [.int n]) h)
      have h3 := hseg.tail.tail.head
      have h4 := hseg.tail.tail.tail.head
      cases sv with
      | int m =>
        have hst := step_prim fn upv .intEQ (T + 1 + 1) (stk ++ [.int m]) (.int m) (.int n) h
        simp only [primApply] at hst
        have e3 : Exec fn upv h (T + 1 + 1) (stk ++ [.int m] ++ [.int m] ++ [.int n])
            (T + 1 + 1 + 1) (stk ++ [.int m] ++ [boolVal (m = (n : Int))]) :=
          Exec.step h3 (by simpa [PrimOp.instr] using hst)
        by_cases hmn : (n : Int) = m
        · subst hmn
          have e4 := Exec.step (upv := upv) (h := h) h4
            (by rw [step_cJump]; simp [isFalse_boolVal] :
              stepInstr fn upv _ _ (stk ++ [Val.int n] ++ [boolVal ((n : Int) = n)]) h =
                .next s (stk ++ [Val.int n]) h)
          refine ⟨fun ρ' _ => ((e1.trans e2).trans e3).trans e4, fun hm => ?_⟩
          simp [matchPat, litMatches] at hm
        · have hmn' : ¬ m = (n : Int) := fun e => hmn e.symm
          have e4 := Exec.step (upv := upv) (h := h) h4
            (by rw [step_cJump]; simp [isFalse_boolVal, hmn'] :
              stepInstr fn upv _ _ (stk ++ [Val.int m] ++ [boolVal (m = (n : Int))]) h =
                .next (T + 1 + 1 + 1 + 1) (stk ++ [Val.int m]) h)
          refine ⟨fun ρ' hm => ?_, fun _ =>
            (((e1.trans e2).trans e3).trans e4).to (by simp [testCode]) rfl⟩
          simp [matchPat, litMatches, hmn] at hm
      | _ => exact ⟨fun ρ' hm => by simp [matchPat, litMatches] at hm,
                    fun hm => by simp [matchPat, litMatches] at hm⟩
    | byte n =>
      simp only [testCode, patchLast] at hseg
      simp at hseg
      have e1 := Exec.step (upv := upv) (h := h) hseg.head (step_push fn upv T _ _ sv h hsv)
      have e2 := Exec.step (upv := upv) (h := h) (stk := stk ++ [sv] ++ [sv]) hseg.tail.head
        (rfl : stepInstr fn upv (.pushByte n) _ _ h = .next _ (stk ++ [sv] ++ [sv] ++ [.byte n]) h)
      have h3 := hseg.tail.tail.head
      have h4 := hseg.tail.tail.tail.head
      cases sv with
      | byte m =>
        have hst := step_prim fn upv .byteEQ (T + 1 + 1) (stk ++ [.byte m]) (.byte m) (.byte n) h
        simp only [primApply] at hst
        have e3 : Exec fn upv h (T + 1 + 1) (stk ++ [.byte m] ++ [.byte m] ++ [.byte n])
            (T + 1 + 1 + 1) (stk ++ [.byte m] ++ [boolVal (m = n)]) :=
          Exec.step h3 (by simpa [PrimOp.instr] using hst)
        by_cases hmn : n = m
        · subst hmn
          have e4 := Exec.step (upv := upv) (h := h) h4
            (by rw [step_cJump]; simp [isFalse_boolVal] :
              stepInstr fn upv _ _ (stk ++ [Val.byte n] ++ [boolVal (n = n)]) h =
                .next s (stk ++ [Val.byte n]) h)
          refine ⟨fun ρ' _ => ((e1.trans e2).trans e3).trans e4, fun hm => ?_⟩
          simp [matchPat, litMatches] at hm
        · have hmn' : ¬ m = n := fun e => hmn e.symm
          have e4 := Exec.step (upv := upv) (h := h) h4
            (by rw [step_cJump]; simp [isFalse_boolVal, hmn'] :
              stepInstr fn upv _ _ (stk ++ [Val.byte m] ++ [boolVal (m = n)]) h =
                .next (T + 1 + 1 + 1 + 1) (stk ++ [Val.byte m]) h)
          refine ⟨fun ρ' hm => ?_, fun _ =>
            (((e1.trans e2).trans e3).trans e4).to (by simp [testCode]) rfl⟩
          simp [matchPat, litMatches, hmn] at hm
      | _ => exact ⟨fun ρ' hm => by simp [matchPat, litMatches] at hm,
                    fun hm => by simp [matchPat, litMatches] at hm⟩

/-! ### Pattern variables -/

theorem pushVars_cons (x : Sym) (xs : List Sym) (st : FState) :
    pushVars (x :: xs) st = pushVars xs (st.pushStackVar x) := rfl

theorem pushVars_scopes : ∀ (args : List Sym) (st : FState) (S : List (Sym × Nat))
    (rest : List (List (Sym × Nat))), st.scopes = S :: rest →
    (pushVars args st).scopes = (varsOf st.stackSize args ++ S) :: rest ∧
    (pushVars args st).stackSize = st.stackSize + args.length
  | [], st, S, rest, h => by simp [pushVars, varsOf, h]
  | x :: xs, st, S, rest, h => by
    have h1 : (st.pushStackVar x).scopes = ((x, st.stackSize) :: S) :: rest := by
      simp [FState.pushStackVar, FState.newStackVar, h]
    have h2 : (st.pushStackVar x).stackSize = st.stackSize + 1 := by
      simp only [FState.pushStackVar, FState.newStackVar, h]
    obtain ⟨ih1, ih2⟩ := pushVars_scopes xs (st.pushStackVar x) _ rest h1
    rw [pushVars_cons]
    refine ⟨by rw [ih1, h2]; simp [varsOf], by rw [ih2, h2]; simp; omega⟩

theorem varsOf_agree (K : Nat) (h : Heap) (Φ : List (Sym × Nat)) (fv : List Sym) (upv : List Val) :
    ∀ (args : List Sym) (fs : List Val)
    (stk : List Val) (ρ : Env) (S : List (Sym × Nat)) (rest : List (List (Sym × Nat))),
    args.length = fs.length → (∀ a ∈ args, lookupScope Φ a = none) →
    Agree K h Φ fv upv (S :: rest) ρ stk →
    Agree K h Φ fv upv ((varsOf stk.length args ++ S) :: rest) (bindAll args fs ρ) (stk ++ fs)
  | [], [], stk, ρ, S, rest, _, _, ha => by simpa [varsOf, bindAll] using ha
  | [], _ :: _, _, _, _, _, hl, _, _ => by simp at hl
  | _ :: _, [], _, _, _, _, hl, _, _ => by simp at hl
  | x :: xs, v :: vs, stk, ρ, S, rest, hl, hfr, ha => by
    have hb := ha.bind (x := x) (v := v) (hfr x (by simp))
    have := varsOf_agree K h Φ fv upv xs vs (stk ++ [v]) ((x, v) :: ρ) ((x, stk.length) :: S) rest
      (by simpa using hl) (fun a ha' => hfr a (by simp [ha'])) hb
    simpa [varsOf, bindAll] using this

theorem bindAll_dummy : ∀ (args : List Sym) (fs : List Val) (ρ : Env),
    args.contains dummySym = false → lookup ρ dummySym = none →
    lookup (bindAll args fs ρ) dummySym = none
  | [], _, ρ, _, h => by simpa [bindAll] using h
  | _ :: _, [], ρ, _, h => by simpa [bindAll] using h
  | x :: xs, v :: vs, ρ, hc, h => by
    simp only [List.contains_cons, Bool.or_eq_false_iff, beq_eq_false_iff_ne, ne_eq] at hc
    simp only [bindAll]
    apply bindAll_dummy xs vs _ hc.2
    simp [lookup, hc.1, h]

/-! ### Record patterns by `GetOffset` -/

theorem fieldLoads_cons (r : Nat) (f : PatField) (fs : List PatField) (st : FState) :
    fieldLoads false r (f :: fs) st =
      (.push r :: .getOffset (f.index.getD 0) ::
        (fieldLoads false r fs (((st.emit (.push r)).emit (.getOffset (f.index.getD 0))).newStackVar
          f.binder)).1,
       (fieldLoads false r fs (((st.emit (.push r)).emit (.getOffset (f.index.getD 0))).newStackVar
          f.binder)).2) := by
  simp [fieldLoads]

theorem fieldLoads_static (r : Nat) : ∀ (fields : List PatField) (st : FState)
    (S : List (Sym × Nat)) (rest : List (List (Sym × Nat))), st.scopes = S :: rest →
    (fieldLoads false r fields st).2.scopes =
      (varsOf st.stackSize (fields.map (·.binder)) ++ S) :: rest ∧
    (fieldLoads false r fields st).2.stackSize = st.stackSize + fields.length ∧
    SameTabs st (fieldLoads false r fields st).2 ∧
    (fieldLoads false r fields st).1.length = 2 * fields.length
  | [], st, S, rest, h => by simp [fieldLoads, varsOf, h]; exact ⟨rfl, rfl, rfl⟩
  | f :: fs, st, S, rest, h => by
    have h1 : (((st.emit (.push r)).emit (.getOffset (f.index.getD 0))).newStackVar f.binder).scopes =
        ((f.binder, st.stackSize) :: S) :: rest := by
      simp [FState.newStackVar, FState.emit, h, adjustSize, Instr.adjust]
    have h2 : (((st.emit (.push r)).emit (.getOffset (f.index.getD 0))).newStackVar f.binder).stackSize =
        st.stackSize + 1 := by
      simp [FState.newStackVar, FState.emit, h, adjustSize, Instr.adjust]
    have h3 : SameTabs st
        (((st.emit (.push r)).emit (.getOffset (f.index.getD 0))).newStackVar f.binder) :=
      ((same_emit st _).trans (same_emit _ _)).trans (same_newStackVar _ _)
    obtain ⟨a, b, c, d⟩ := fieldLoads_static r fs _ _ rest h1
    rw [fieldLoads_cons]
    refine ⟨by rw [a, h2]; simp [varsOf], by rw [b, h2]; simp; omega, h3.trans c, by simp [d]; omega⟩

theorem step_getOffset (fn : Fn) (upv : List Val) (pc i t : Nat) (s fs : List Val)
    (ns : List String) (h : Heap) (w : Val) (hw : fs[i]? = some w) :
    stepInstr fn upv (.getOffset i) pc (s ++ [.data t fs ns]) h = .next (pc + 1) (s ++ [w]) h := by
  have h2 : popN (s ++ [.data t fs ns]) 1 = s := popN_append s [_] 1 rfl
  simp [stepInstr, asData, h2, hw]

theorem fieldLoads_exec (fn : Fn) (upv : List Val) (fv : List Sym) (K : Nat) (h : Heap)
    (Φ : List (Sym × Nat)) (r t : Nat)
    (fs : List Val) (ns : List String) (rest : List (List (Sym × Nat))) :
    ∀ (fields : List PatField) (st : FState) (stk : List Val) (ρ ρ' : Env) (S : List (Sym × Nat))
      (B : Nat), (∀ f ∈ fields, lookupScope Φ f.binder = none) →
      stk[r]? = some (.data t fs ns) → Agree K h Φ fv upv (S :: rest) ρ stk →
      lookup ρ dummySym = none → (fields.map (·.binder)).contains dummySym = false →
      bindFields false fields fs ns ρ = some ρ' →
      SegAt fn.instrs B (fieldLoads false r fields st).1 →
      ∃ X : List Val, X.length = fields.length ∧
        Exec fn upv h B stk (B + (fieldLoads false r fields st).1.length) (stk ++ X) ∧
        Agree K h Φ fv upv ((varsOf stk.length (fields.map (·.binder)) ++ S) :: rest) ρ' (stk ++ X) ∧
        lookup ρ' dummySym = none
  | [], st, stk, ρ, ρ', S, B, _, _, hag, hd, _, hb, _ => by
    simp only [bindFields, Option.some.injEq] at hb
    subst hb
    exact ⟨[], rfl, by simpa [fieldLoads] using Exec.refl (fn := fn) (upv := upv) (h := h) B stk,
      by simpa [varsOf] using hag, hd⟩
  | f :: fields, st, stk, ρ, ρ', S, B, hfr, hr, hag, hd, hnd, hb, hseg => by
    simp only [List.map_cons, List.contains_cons, Bool.or_eq_false_iff, beq_eq_false_iff_ne,
      ne_eq] at hnd
    simp only [bindFields] at hb
    cases hfo : fieldOf false f fs ns with
    | none => simp [hfo] at hb
    | some w =>
      simp only [hfo] at hb
      have hidx : ∃ i, f.index = some i ∧ fs[i]? = some w := by
        simp only [fieldOf, Bool.false_eq_true, if_false] at hfo
        cases hi : f.index with
        | none => simp [hi] at hfo
        | some i => exact ⟨i, rfl, by simpa [hi] using hfo⟩
      obtain ⟨i, hi, hw⟩ := hidx
      rw [fieldLoads_cons] at hseg ⊢
      have e1 := Exec.step (upv := upv) (h := h) hseg.head (step_push fn upv B r stk _ h hr)
      have e2 := Exec.step (upv := upv) (h := h) hseg.tail.head
        (by rw [hi]; exact step_getOffset fn upv (B + 1) i t stk fs ns h w hw :
          stepInstr fn upv (.getOffset (f.index.getD 0)) (B + 1) (stk ++ [.data t fs ns]) h =
            .next (B + 1 + 1) (stk ++ [w]) h)
      have hr' : (stk ++ [w])[r]? = some (.data t fs ns) := by
        have : r < stk.length := by
          rcases Nat.lt_or_ge r stk.length with h' | h'
          · exact h'
          · rw [List.getElem?_eq_none h'] at hr; cases hr
        rw [List.getElem?_append_left this]; exact hr
      have hd' : lookup ((f.binder, w) :: ρ) dummySym = none := by
        have : ¬ dummySym = f.binder := hnd.1
        simp [lookup, this, hd]
      obtain ⟨X, hX, ex, hag', hdum'⟩ := fieldLoads_exec fn upv fv K h Φ r t fs ns rest fields
        (((st.emit (.push r)).emit (.getOffset (f.index.getD 0))).newStackVar f.binder)
        (stk ++ [w]) ((f.binder, w) :: ρ) ρ' ((f.binder, stk.length) :: S) (B + 1 + 1)
        (fun g hg => hfr g (by simp [hg])) hr'
        (hag.bind (hfr f (by simp))) hd' hnd.2 hb hseg.tail.tail
      refine ⟨w :: X, by simp [hX], ?_, ?_, hdum'⟩
      · exact ((e1.trans e2).trans ex).to (by simp only [List.length_cons]; omega) (by simp)
      · simpa [varsOf] using hag'

/-- the variables a pattern binds -/
def patBinders : Pat → List Sym
  | .ctor _ args => args
  | .ident x => [x]
  | .lit _ => []
  | .record _ _ fields _ => fields.map (·.binder)

/-- no pattern variable shadows a function variable -/
def patFresh (Φ : List (Sym × Nat)) (p : Pat) : Bool :=
  (patBinders p).all (fun x => (lookupScope Φ x).isNone)

theorem patFresh_mem {Φ : List (Sym × Nat)} {p : Pat} (h : patFresh Φ p = true) :
    ∀ x ∈ patBinders p, lookupScope Φ x = none := by
  intro x hx
  have := List.all_eq_true.mp h x hx
  simpa using this

/-- the variables the prologue of an alternative registers (`n` = number of slots below the
    scrutinee) -/
def patVars (n : Nat) : Pat → List (Sym × Nat)
  | .ctor _ args => varsOf n args
  | .ident x => [(x, n)]
  | .lit _ => [(dummySym, n)]
  | .record nfields _ fields byType =>
    if goCond nfields fields then varsOf (n + 1) (fields.map (·.binder)) ++ [(dummySym, n)]
    else varsOf n (splitNames byType)

theorem matchPat_record {n : Nat} {fields : List PatField} {bt : List (Option Sym)} {t : Nat}
    {fs : List Val} {ns : List String} {ρ ρ' : Env}
    (hm : matchPat (.record n false fields bt) (.data t fs ns) ρ = some (some ρ')) :
    fs.length = n ∧ bindFields false fields fs ns ρ = some ρ' := by
  simp only [matchPat, true_and] at hm
  by_cases hl : fs.length = n
  · simp only [hl, ne_eq, not_true_eq_false, if_false] at hm
    refine ⟨hl, ?_⟩
    cases hbf : bindFields false fields fs ns ρ with
    | none => simp [hbf] at hm
    | some r => simp [hbf] at hm; rw [hm]
  · simp [hl] at hm

theorem patOk_record {nfields poly fields byType} (hp : patOk (.record nfields poly fields byType) = true) :
    poly = false ∧
    (goCond nfields fields → (fields.map (·.binder)).contains dummySym = false) ∧
    (¬ goCond nfields fields → splitOk nfields fields byType = true) := by
  simp only [patOk, Bool.and_eq_true, Bool.not_eq_true'] at hp
  refine ⟨hp.1, fun hc => ?_, fun hc => ?_⟩
  · have := hp.2
    simp only [hc, if_true, Bool.and_eq_true, Bool.not_eq_true'] at this
    exact this.2
  · have := hp.2
    simpa only [hc, if_false] using this

theorem prologue_split (nfields : Nat) (fields : List PatField) (byType : List (Option Sym))
    (st : FState) (hc : ¬ goCond nfields fields) :
    prologue (.record nfields false fields byType) st =
      ([.split], pushVars (splitNames byType) (st.emit .split)) := by
  simp only [prologue]
  rw [if_neg (by
    intro h
    rcases h with h | h | h
    · exact hc (Or.inl h)
    · exact hc (Or.inr h)
    · cases h)]
  rfl

theorem prologue_record (nfields : Nat) (fields : List PatField) (byType : List (Option Sym))
    (st : FState) (hc : fields.length = 0 ∨ (nfields > 4 ∧ nfields / fields.length ≥ 4)) :
    prologue (.record nfields false fields byType) st =
      fieldLoads false ((st.newStackVar dummySym).stackSize - 1) fields (st.newStackVar dummySym) := by
  simp only [prologue]
  rw [if_pos (by
    rcases hc with h | h
    · exact Or.inl h
    · exact Or.inr (Or.inl h))]

theorem prologue_static (p : Pat) (hp : patOk p = true) (st : FState) (n : Nat)
    (hz : st.stackSize = n + 1) :
    (prologue p st.enterScope).2.scopes = patVars n p :: st.scopes ∧
    (prologue p st.enterScope).2.stackSize = n + (patVars n p).length := by
  cases p with
  | record nfields poly fields byType =>
    obtain ⟨hpoly, _, _⟩ := patOk_record hp
    subst hpoly
    by_cases hcond : goCond nfields fields
    · have h1 : (st.enterScope.newStackVar dummySym).scopes = [(dummySym, n)] :: st.scopes := by
        simp [FState.newStackVar, FState.enterScope, hz]
      have h2 : (st.enterScope.newStackVar dummySym).stackSize = n + 1 := by
        simp [FState.newStackVar, FState.enterScope, hz]
      obtain ⟨a, b, _, _⟩ := fieldLoads_static ((st.enterScope.newStackVar dummySym).stackSize - 1)
        fields _ _ st.scopes h1
      rw [prologue_record _ _ _ _ hcond, a, b, h2]
      simp [patVars, varsOf_length, hcond]
      omega
    · have h1 : (st.enterScope.emit .split).scopes = [] :: st.scopes := rfl
      have h2 : (st.enterScope.emit .split).stackSize = n := by
        simp [FState.emit, FState.enterScope, adjustSize, Instr.adjust, hz]
      obtain ⟨a, b⟩ := pushVars_scopes (splitNames byType) (st.enterScope.emit .split) [] st.scopes h1
      rw [prologue_split _ _ _ _ hcond]
      simp only [patVars, hcond, if_false]
      rw [a, b, h2]
      simp [varsOf_length]
  | ident x => simp [prologue, FState.newStackVar, FState.enterScope, patVars, hz]
  | lit l => simp [prologue, FState.newStackVar, FState.enterScope, patVars, hz]
  | ctor tag args =>
    have h1 : (st.enterScope.emit .split).scopes = [] :: st.scopes := rfl
    have h2 : (st.enterScope.emit .split).stackSize = n := by
      simp [FState.emit, FState.enterScope, adjustSize, Instr.adjust, hz]
    obtain ⟨a, b⟩ := pushVars_scopes args (st.enterScope.emit .split) [] st.scopes h1
    simp only [prologue, patVars]
    rw [a, b, h2]
    simp [varsOf_length]

theorem same_pushVars : ∀ (xs : List Sym) (st : FState), SameTabs st (pushVars xs st)
  | [], st => ⟨rfl, rfl, rfl⟩
  | x :: xs, st => by
    rw [pushVars_cons]
    have h1 : SameTabs st (st.pushStackVar x) := by
      unfold FState.pushStackVar
      exact SameTabs.trans (b := { st with stackSize := st.stackSize + 1 }) ⟨rfl, rfl, rfl⟩
        (same_newStackVar _ x)
    exact h1.trans (same_pushVars xs _)

theorem prologue_same (p : Pat) (hp : patOk p = true) (st : FState) :
    SameTabs st (prologue p st.enterScope).2 := by
  cases p with
  | record nfields poly fields byType =>
    obtain ⟨hpoly, _, _⟩ := patOk_record hp
    subst hpoly
    by_cases hcond : goCond nfields fields
    · have h1 : (st.enterScope.newStackVar dummySym).scopes =
          [(dummySym, st.stackSize - 1)] :: st.scopes := by
        simp [FState.newStackVar, FState.enterScope]
      obtain ⟨_, _, c, _⟩ := fieldLoads_static ((st.enterScope.newStackVar dummySym).stackSize - 1)
        fields _ _ st.scopes h1
      rw [prologue_record _ _ _ _ hcond]
      exact ((same_enter st).trans (same_newStackVar _ _)).trans c
    · rw [prologue_split _ _ _ _ hcond]
      exact ((same_enter st).trans (same_emit _ _)).trans (same_pushVars _ _)
  | ident x => exact (same_enter st).trans (same_newStackVar _ x)
  | lit l => exact (same_enter st).trans (same_newStackVar _ _)
  | ctor tag args =>
    exact ((same_enter st).trans (same_emit _ _)).trans (same_pushVars args _)

theorem step_split (fn : Fn) (upv : List Val) (pc t : Nat) (s fs : List Val) (ns : List String)
    (h : Heap) :
    stepInstr fn upv .split pc (s ++ [.data t fs ns]) h = .next (pc + 1) (s ++ fs) h := by
  have h2 : popN (s ++ [.data t fs ns]) 1 = s := popN_append s [_] 1 rfl
  simp [stepInstr, asData, h2]

theorem Agree.dummy {K h Φ fv upv S rest ρ stk n} (ha : Agree K h Φ fv upv (S :: rest) ρ stk)
    (hd : lookup ρ dummySym = none) :
    Agree K h Φ fv upv (((dummySym, n) :: S) :: rest) ρ stk := by
  intro y w hy
  have hyd : ¬ y = dummySym := by
    intro e; subst e; rw [hd] at hy; cases hy
  rcases ha y w hy with ⟨i, v', hi, hv, hr⟩ | ⟨hn, hr⟩
  · refine Or.inl ⟨i, v', ?_, hv, hr⟩
    simp only [lookupScopes, lookupScope, hyd, if_false] at hi ⊢
    exact hi
  · refine Or.inr ⟨?_, hr⟩
    simp only [lookupScopes, lookupScope, hyd, if_false] at hn ⊢
    exact hn

/-- The prologue of a selected alternative: it replaces the scrutinee by the slots of the
    pattern's variables, which then agree with the extended environment. -/
theorem prologue_exec (p : Pat) (hp : patOk p = true) (Φ : List (Sym × Nat))
    (hfr : patFresh Φ p = true) (st : FState) (fn : Fn) (upv : List Val)
    (fv : List Sym) (K : Nat) (h : Heap) (stk : List Val) (sv : Val) (ρ ρ' : Env) (B : Nat)
    (hz : st.stackSize = stk.length + 1)
    (hag : Agree K h Φ fv upv st.scopes ρ stk) (hdum : lookup ρ dummySym = none)
    (hm : matchPat p sv ρ = some (some ρ'))
    (hseg : SegAt fn.instrs B (prologue p st.enterScope).1) :
    ∃ X : List Val, X.length = (patVars stk.length p).length ∧
      Exec fn upv h B (stk ++ [sv]) (B + (prologue p st.enterScope).1.length) (stk ++ X) ∧
      Agree K h Φ fv upv (patVars stk.length p :: st.scopes) ρ' (stk ++ X) ∧
      lookup ρ' dummySym = none := by
  cases p with
  | record nfields poly fields byType =>
    obtain ⟨hpoly, hgo, hsp⟩ := patOk_record hp
    subst hpoly
    cases sv with
    | data t fs ns =>
      obtain ⟨hfl, hb⟩ := matchPat_record hm
      by_cases hcond : goCond nfields fields
      · have hnd := hgo hcond
        have h2 : (st.enterScope.newStackVar dummySym).stackSize - 1 = stk.length := by
          simp [FState.newStackVar, FState.enterScope, hz]
        rw [prologue_record _ _ _ _ hcond, h2] at hseg ⊢
        have hbase : Agree K h Φ fv upv ([(dummySym, stk.length)] :: st.scopes) ρ (stk ++ [.data t fs ns]) :=
          ((hag.enter).dummy hdum).append _
        obtain ⟨X, hX, ex, hag', hdum'⟩ := fieldLoads_exec fn upv fv K h Φ stk.length t fs ns st.scopes
          fields (st.enterScope.newStackVar dummySym) (stk ++ [.data t fs ns]) ρ ρ'
          [(dummySym, stk.length)] B
          (fun f hf => patFresh_mem hfr f.binder (by simp [patBinders]; exact ⟨f, hf, rfl⟩))
          (by simp) hbase hdum hnd hb hseg
        refine ⟨.data t fs ns :: X, by simp [patVars, varsOf_length, hX, hcond], ?_, ?_, hdum'⟩
        · exact ex.to rfl (by simp)
        · have : (stk ++ [Val.data t fs ns]).length = stk.length + 1 := by simp
          rw [this] at hag'
          simpa [patVars, hcond] using hag'
      · have hok := hsp hcond
        have hbl : byType.length = nfields := by
          simp only [splitOk, Bool.and_eq_true, decide_eq_true_eq] at hok
          exact hok.1.1.1
        rw [prologue_split _ _ _ _ hcond] at hseg ⊢
        obtain ⟨hag', hdum'⟩ := split_agree K h Φ fv upv st.scopes nfields fields byType hok
          (fun f hf => patFresh_mem hfr f.binder (by simp [patBinders]; exact ⟨f, hf, rfl⟩))
          stk fs ns ρ ρ' hfl hag hdum hb
        refine ⟨fs, by simp [patVars, hcond, varsOf_length, splitNames, hfl, hbl], ?_, ?_, hdum'⟩
        · exact Exec.step hseg.head (step_split fn upv B t stk fs ns h)
        · simpa [patVars, hcond] using hag'
    | _ => simp [matchPat] at hm
  | ident x =>
    simp only [patOk, decide_eq_true_eq] at hp
    simp only [matchPat, Option.some.injEq] at hm
    subst hm
    refine ⟨[sv], rfl, by simpa [prologue] using Exec.refl (fn := fn) (upv := upv) (h := h) B (stk ++ [sv]), ?_, ?_⟩
    · have := (hag.enter).bind (x := x) (v := sv) (patFresh_mem hfr x (by simp [patBinders]))
      simpa [patVars] using this
    · have : ¬ dummySym = x := fun e => hp e.symm
      simp [lookup, this, hdum]
  | lit l =>
    have hρ : ρ' = ρ := by
      simp only [matchPat] at hm
      cases hl : litMatches l sv with
      | none => simp [hl] at hm
      | some b => cases b <;> simp [hl] at hm; exact hm.symm
    subst hρ
    refine ⟨[sv], rfl, by simpa [prologue] using Exec.refl (fn := fn) (upv := upv) (h := h) B (stk ++ [sv]), ?_, hdum⟩
    have := ((hag.enter).dummy (n := stk.length) hdum).append [sv]
    simpa [patVars] using this
  | ctor tag args =>
    cases tag with
    | none => simp [patOk] at hp
    | some t =>
      simp only [patOk, Bool.not_eq_true'] at hp
      cases sv with
      | data t' fs ns =>
        simp only [matchPat] at hm
        by_cases htt : t = t'
        · subst htt
          by_cases hl : args.length = fs.length
          · simp [hl] at hm
            subst hm
            simp only [prologue] at hseg ⊢
            refine ⟨fs, by simp [patVars, varsOf_length, hl], ?_, ?_, bindAll_dummy args fs ρ hp hdum⟩
            · exact Exec.step hseg.head (step_split fn upv B t stk fs ns h)
            · have := varsOf_agree K h Φ fv upv args fs stk ρ [] st.scopes hl
                (fun a ha => patFresh_mem hfr a (by simpa [patBinders] using ha)) hag.enter
              simpa [patVars] using this
          · simp [hl] at hm
        · simp [htt] at hm
      | _ => simp [matchPat] at hm

/-! ### Alternatives -/

theorem compileAlts_cons (seIdx p e alts tail b st) :
    compileAlts seIdx ((p, e) :: alts) tail b st =
      (((prologue p st.enterScope).1 ++
          (compileE seIdx e tail (b + (prologue p st.enterScope).1.length)
            (prologue p st.enterScope).2).1 ++
          (finishScope (([] : List Instr), (compileE seIdx e tail (b + (prologue p st.enterScope).1.length)
            (prologue p st.enterScope).2).2)).1) ::
        (compileAlts seIdx alts tail
          (b + ((prologue p st.enterScope).1 ++
          (compileE seIdx e tail (b + (prologue p st.enterScope).1.length)
            (prologue p st.enterScope).2).1 ++
          (finishScope (([] : List Instr), (compileE seIdx e tail (b + (prologue p st.enterScope).1.length)
            (prologue p st.enterScope).2).2)).1).length + 1)
          (finishScope (([] : List Instr), (compileE seIdx e tail (b + (prologue p st.enterScope).1.length)
            (prologue p st.enterScope).2).2)).2).1,
       (compileAlts seIdx alts tail
          (b + ((prologue p st.enterScope).1 ++
          (compileE seIdx e tail (b + (prologue p st.enterScope).1.length)
            (prologue p st.enterScope).2).1 ++
          (finishScope (([] : List Instr), (compileE seIdx e tail (b + (prologue p st.enterScope).1.length)
            (prologue p st.enterScope).2).2)).1).length + 1)
          (finishScope (([] : List Instr), (compileE seIdx e tail (b + (prologue p st.enterScope).1.length)
            (prologue p st.enterScope).2).2)).2).2) := by
  simp [compileAlts, compileE]

/-- every alternative's code, entered with the scrutinee on top of `stk`, ends at `endPc` with
    the alternative's value in place of the scrutinee -/
def AltsDyn (K : Nat) (fn : Fn) (upv : List Val) (h : Heap) (tail : Bool) (ρ : Env)
    (stk : List Val) (sv : Val) (endPc : Nat) : List (Pat × Expr) → List (List Instr) → Nat → Prop
  | (p, e) :: alts, c :: cs, B =>
    (∀ (fuel : Nat) (ρ' : Env), fuel ≤ K + 1 → matchPat p sv ρ = some (some ρ') →
        (∀ v, evalCore fuel ρ' e = .ok v → Done fn upv h tail B (stk ++ [sv]) endPc stk v) ∧
        (evalCore fuel ρ' e = .error .arith → ExecErr fn upv h B (stk ++ [sv]) .arith)) ∧
      AltsDyn K fn upv h tail ρ stk sv endPc alts cs (B + c.length + 1)
  | _, _, _ => True

def AltsSpec (seIdx : Nat) (Φ : List (Sym × Nat)) (alts : List (Pat × Expr)) : Prop :=
  ∀ (tail : Bool) (b : Nat) (st : FState) (n : Nat), st.stackSize = n + 1 →
    (compileAlts seIdx alts tail b st).2.scopes = st.scopes ∧
    (compileAlts seIdx alts tail b st).2.stackSize = n + 1 ∧
    (compileAlts seIdx alts tail b st).1.length = alts.length ∧
    Ext st (compileAlts seIdx alts tail b st).2 ∧
    ∀ (K : Nat) (fn : Fn) (upv : List Val) (fv : List Sym) (h : Heap) (ρ : Env) (stk : List Val)
      (sv : Val) (endPc : Nat),
      stk.length = n → Agree K h Φ fv upv st.scopes ρ stk → lookup ρ dummySym = none →
      Tables (compileAlts seIdx alts tail b st).2 fn fv →
      SegAt fn.instrs b (joinBodies endPc (compileAlts seIdx alts tail b st).1) →
      AltsDyn K fn upv h tail ρ stk sv endPc alts (compileAlts seIdx alts tail b st).1 b

theorem alts_nil (seIdx : Nat) (Φ : List (Sym × Nat)) : AltsSpec seIdx Φ [] := by
  intro tail b st n hz
  refine ⟨by simp [compileAlts], by simp [compileAlts, hz], by simp [compileAlts],
    by simpa [compileAlts] using Ext.refl st, ?_⟩
  intros
  simp [compileAlts, AltsDyn]

theorem alts_cons {seIdx : Nat} {Φ : List (Sym × Nat)} {p : Pat} {e : Expr}
    {alts : List (Pat × Expr)}
    (hp : patOk p = true) (hfr : patFresh Φ p = true) (he : WrapSpec seIdx Φ e)
    (hes : AltsSpec seIdx Φ alts) :
    AltsSpec seIdx Φ ((p, e) :: alts) := by
  intro tail b st n hz
  obtain ⟨hps, hpz⟩ := prologue_static p hp st n hz
  have hpsame := prologue_same p hp st
  obtain ⟨hs2, hz2, hx2, hd2⟩ := he tail (b + (prologue p st.enterScope).1.length)
    (prologue p st.enterScope).2
  rw [compileAlts_cons]
  generalize hR2 : compileE seIdx e tail (b + (prologue p st.enterScope).1.length)
    (prologue p st.enterScope).2 = R2 at *
  have hex : R2.2.exitScope = ((patVars n p).length, { R2.2 with scopes := st.scopes }) := by
    simp [FState.exitScope, hs2, hps]
  have hf1 : (finishScope (([] : List Instr), R2.2)).1 = slideCode (patVars n p).length := by
    simp [finishScope, hex]
  have hf2s : (finishScope (([] : List Instr), R2.2)).2.scopes = st.scopes := by
    simp only [finishScope, hex]
    split <;> simp [FState.emit]
  have hf2z : (finishScope (([] : List Instr), R2.2)).2.stackSize = n + 1 := by
    simp only [finishScope, hex]
    split
    · rename_i h0; simp [hz2, hpz, h0]
    · simp [FState.emit, adjustSize_slide, hz2, hpz]
      omega
  have hf2t : SameTabs R2.2 (finishScope (([] : List Instr), R2.2)).2 :=
    same_finish (([] : List Instr), R2.2)
  generalize hR3 : finishScope (([] : List Instr), R2.2) = R3 at *
  obtain ⟨ha1, ha2, ha3, hax, had⟩ := hes tail
    (b + ((prologue p st.enterScope).1 ++ R2.1 ++ R3.1).length + 1) R3.2 n hf2z
  refine ⟨by rw [ha1, hf2s], ha2, by simp only [List.length_cons, ha3],
    ((hpsame.ext.trans hx2).trans hf2t.ext).trans hax, ?_⟩
  intro K fn upv fv h ρ stk sv endPc hlen hag hdum htab hseg
  simp only [joinBodies] at hseg
  refine ⟨?_, ?_⟩
  · intro fuel ρ' hK hm
    have hsegc := hseg.left.left
    obtain ⟨X, hX, ex1, hag', hdum'⟩ := prologue_exec p hp Φ hfr st fn upv fv K h stk sv ρ ρ' b
      (by rw [hz, hlen]) hag hdum hm hsegc.left.left
    rw [hlen] at hX hag'
    obtain ⟨hok, herr⟩ := hd2 K fuel (by omega) fn upv fv h ρ' (stk ++ X) hsegc.left.right
      (htab.of_ext (hf2t.ext.trans hax))
      (by simp [hpz, hX, hlen]) (by rw [hps]; exact hag') hdum'
    refine ⟨fun v hv => ?_, fun hv => ex1.thenErr (herr hv)⟩
    have ex2 := (hok v hv).prepend ex1
    have hjmp := hseg.left.right.head
    have hsl := hsegc.right
    rw [hf1] at hsl hjmp
    by_cases h0 : (patVars n p).length = 0
    · have hXn : X = [] := List.eq_nil_of_length_eq_zero (by omega)
      subst hXn
      simp only [slideCode, h0, if_true, List.append_nil] at hjmp
      have ex3 := Exec.step (stk := stk ++ [v]) (upv := upv) (h := h) hjmp (step_jump fn upv _ _ _ h)
      exact ((ex2.to (by simp only [List.length_append]; omega) (by simp)).andThen ex3)
    · simp only [slideCode, h0, if_false] at hsl hjmp
      have ex3 := Exec.step (upv := upv) (h := h) hsl.head
        (step_slide fn upv _ stk X v h (patVars n p).length hX)
      have ex4 := Exec.step (stk := stk ++ [v]) (upv := upv) (h := h) hjmp (step_jump fn upv _ _ _ h)
      exact (((ex2.to (by simp only [List.length_append]; omega) rfl).andThen ex3).to
        (by simp only [List.length_append, List.length_cons, List.length_nil]; omega) rfl).andThen ex4
  · have := had K fn upv fv h ρ stk sv endPc hlen (by rw [hf2s]; exact hag) hdum htab
      (hseg.right.to (by simp only [List.length_append, List.length_cons, List.length_nil]; omega))
    exact this

/-! ### Dispatch: the tests select the alternative `evalAlts` selects -/

theorem testsOf_cons (seIdx p e alts st) (hp : patOk p = true) :
    testsOf seIdx ((p, e) :: alts) st =
      ((testCode seIdx p st).1 :: (testsOf seIdx alts st).1, (testsOf seIdx alts st).2) := by
  simp [testsOf, testCode_state seIdx p st hp]

theorem testsOf_state (seIdx : Nat) : ∀ (alts : List (Pat × Expr)) (st : FState),
    (∀ a ∈ alts, patOk a.1 = true) →
    (testsOf seIdx alts st).2 = st ∧ (testsOf seIdx alts st).1.length = alts.length
  | [], st, _ => by simp [testsOf]
  | (p, e) :: alts, st, h => by
    have hp := h (p, e) (by simp)
    obtain ⟨a, b⟩ := testsOf_state seIdx alts st (fun a ha => h a (by simp [ha]))
    rw [testsOf_cons _ _ _ _ _ hp]
    simp [a, b]

theorem startsOf_length : ∀ (cs : List (List Instr)) (B : Nat), (startsOf B cs).length = cs.length
  | [], _ => rfl
  | c :: cs, B => by simp [startsOf, startsOf_length cs]

theorem patchTests_length : ∀ (ts : List (List Instr)) (ss : List Nat), ts.length = ss.length →
    (patchTests ts ss).length = testsLen ts
  | [], [], _ => rfl
  | [], _ :: _, h => by simp at h
  | _ :: _, [], h => by simp at h
  | t :: ts, s :: ss, h => by
    simp [patchTests, testsLen, patchLast_length, patchTests_length ts ss (by simpa using h)]

theorem endOf_eq (e : Nat) : ∀ (cs : List (List Instr)) (B : Nat),
    endOf B cs = B + (joinBodies e cs).length
  | [], B => by simp [endOf, joinBodies]
  | c :: cs, B => by
    simp only [endOf, joinBodies, endOf_eq e cs, List.length_append, List.length_cons,
      List.length_nil]
    omega

theorem dispatch (seIdx : Nat) (K : Nat) (fn : Fn) (upv : List Val) (h : Heap) (tail : Bool)
    (ρ : Env) (stk : List Val) (sv : Val) (endPc : Nat) :
    ∀ (alts : List (Pat × Expr)) (cs : List (List Instr)) (T B fuel : Nat) (st : FState),
      fuel ≤ K + 1 → (∀ a ∈ alts, patOk a.1 = true) → (∀ a ∈ alts, isRec a.1 = false) →
      st.stackSize = stk.length + 1 → cs.length = alts.length →
      SegAt fn.instrs T (patchTests (testsOf seIdx alts st).1 (startsOf B cs)) →
      AltsDyn K fn upv h tail ρ stk sv endPc alts cs B →
      (∀ v, evalAlts fuel ρ sv alts = .ok v → Done fn upv h tail T (stk ++ [sv]) endPc stk v) ∧
      (evalAlts fuel ρ sv alts = .error .arith → ExecErr fn upv h T (stk ++ [sv]) .arith)
  | [], cs, T, B, fuel, st, _, _, _, _, _, _, _ => by
    cases fuel <;> simp [evalAlts]
  | (p, e) :: alts, [], _, _, _, _, _, _, _, _, hl, _, _ => by simp at hl
  | (p, e) :: alts, c :: cs, T, B, fuel, st, hK, hok, hnr, hz, hl, hseg, hdyn => by
    have hp := hok (p, e) (by simp)
    rw [testsOf_cons _ _ _ _ _ hp] at hseg
    simp only [startsOf, patchTests] at hseg
    obtain ⟨hsel, hnext⟩ := test_exec seIdx p hp (hnr (p, e) (by simp)) st fn upv h stk sv ρ T B hz
      hseg.left
    obtain ⟨hhead, htail⟩ := hdyn
    cases fuel with
    | zero => simp [evalAlts]
    | succ n =>
      simp only [evalAlts]
      cases hm : matchPat p sv ρ with
      | none => simp
      | some o =>
        cases o with
        | some ρ' =>
          obtain ⟨h1, h2⟩ := hhead n ρ' (by omega) hm
          exact ⟨fun v hv => (h1 v hv).prepend (hsel ρ' hm), fun hv => (hsel ρ' hm).thenErr (h2 hv)⟩
        | none =>
          have ih := dispatch seIdx K fn upv h tail ρ stk sv endPc alts cs
            (T + (testCode seIdx p st).1.length) (B + c.length + 1) n st (by omega)
            (fun a ha => hok a (by simp [ha])) (fun a ha => hnr a (by simp [ha])) hz
            (by simpa using hl)
            (hseg.right.to (by rw [patchLast_length])) htail
          exact ⟨fun v hv => (ih.1 v hv).prepend (hnext hm), fun hv => (hnext hm).thenErr (ih.2 hv)⟩

theorem compileBody_match (seIdx s alts tail b st) :
    compileBody seIdx (.match_ s alts) tail b st =
      ((compileE seIdx s false b st).1 ++
        patchTests (testsOf seIdx alts (compileE seIdx s false b st).2).1
          (startsOf (b + (compileE seIdx s false b st).1.length +
              testsLen (testsOf seIdx alts (compileE seIdx s false b st).2).1)
            (compileAlts seIdx alts tail (b + (compileE seIdx s false b st).1.length +
              testsLen (testsOf seIdx alts (compileE seIdx s false b st).2).1)
              (testsOf seIdx alts (compileE seIdx s false b st).2).2).1) ++
        joinBodies (endOf (b + (compileE seIdx s false b st).1.length +
              testsLen (testsOf seIdx alts (compileE seIdx s false b st).2).1)
            (compileAlts seIdx alts tail (b + (compileE seIdx s false b st).1.length +
              testsLen (testsOf seIdx alts (compileE seIdx s false b st).2).1)
              (testsOf seIdx alts (compileE seIdx s false b st).2).2).1)
          (compileAlts seIdx alts tail (b + (compileE seIdx s false b st).1.length +
              testsLen (testsOf seIdx alts (compileE seIdx s false b st).2).1)
              (testsOf seIdx alts (compileE seIdx s false b st).2).2).1,
       (compileAlts seIdx alts tail (b + (compileE seIdx s false b st).1.length +
              testsLen (testsOf seIdx alts (compileE seIdx s false b st).2).1)
              (testsOf seIdx alts (compileE seIdx s false b st).2).2).2) := by
  simp [compileBody, compileE]

/-- `Match`: scrutinee, tests, alternatives. -/
theorem match_spec {seIdx : Nat} {Φ : List (Sym × Nat)} {s : Expr} {alts : List (Pat × Expr)}
    (hs : WrapSpec seIdx Φ s) (hpat : ∀ a ∈ alts, patOk a.1 = true)
    (hnr : ∀ a ∈ alts, isRec a.1 = false) (ha : AltsSpec seIdx Φ alts) :
    BodySpec seIdx Φ (.match_ s alts) := by
  intro tail b st S rest hsc
  obtain ⟨hs0, hz0, hx0, hd0⟩ := hs false b st
  rw [compileBody_match]
  generalize hR0 : compileE seIdx s false b st = R0 at *
  obtain ⟨hts, htl⟩ := testsOf_state seIdx alts R0.2 hpat
  rw [hts]
  generalize hTS : (testsOf seIdx alts R0.2).1 = TS at *
  obtain ⟨ha1, ha2, ha3, hax, had⟩ := ha tail (b + R0.1.length + testsLen TS) R0.2 st.stackSize hz0
  generalize hRA : compileAlts seIdx alts tail (b + R0.1.length + testsLen TS) R0.2 = RA at *
  refine ⟨[], by simp [ha1, hs0, hsc], by simp [ha2], hx0.trans hax, ?_⟩
  intro K fuel hK fn upv fv h ρ stk hseg htab hlen hag hdum
  have hptl : (patchTests TS (startsOf (b + R0.1.length + testsLen TS) RA.1)).length = testsLen TS :=
    patchTests_length _ _ (by rw [startsOf_length, htl, ha3])
  have hend := endOf_eq (endOf (b + R0.1.length + testsLen TS) RA.1) RA.1
    (b + R0.1.length + testsLen TS)
  cases fuel with
  | zero => simp [evalCore]
  | succ n =>
    obtain ⟨hok0, herr0⟩ := hd0 K n (by omega) fn upv fv h ρ stk hseg.left.left (htab.of_ext hax) hlen hag hdum
    simp only [evalCore]
    cases he0 : evalCore n ρ s with
    | error err =>
      refine ⟨fun v hv => by simp at hv, fun he => ?_⟩
      simp at he; subst he
      exact herr0 he0
    | ok sv =>
      have ex0 := (hok0 sv he0).exec
      have hdyn := had K fn upv fv h ρ stk sv (endOf (b + R0.1.length + testsLen TS) RA.1) hlen
        (by rw [hs0]; exact hag) hdum htab
        (hseg.right.to (by simp only [List.length_append, hptl]; omega))
      have hd := dispatch seIdx K fn upv h tail ρ stk sv (endOf (b + R0.1.length + testsLen TS) RA.1)
        alts RA.1 (b + R0.1.length) (b + R0.1.length + testsLen TS) n R0.2 (by omega) hpat hnr
        (by rw [hz0, hlen]) ha3 (by rw [hTS]; exact hseg.left.right) hdyn
      refine ⟨fun v hv => ⟨[], rfl, ?_⟩, fun hv => ex0.thenErr (hd.2 hv)⟩
      exact ((hd.1 v hv).prepend ex0).to
        (by simp only [List.length_append, hptl]; omega) (by simp)

/-- `Match` with a record pattern as its only alternative (what a projection `e.field` and
    `let { … } = e` become): no test, the prologue starts right after the scrutinee. -/
theorem match_spec_record {seIdx : Nat} {Φ : List (Sym × Nat)} {s : Expr} {p : Pat} {e : Expr}
    (hs : WrapSpec seIdx Φ s) (hp : patOk p = true) (hr : isRec p = true)
    (ha : AltsSpec seIdx Φ [(p, e)]) :
    BodySpec seIdx Φ (.match_ s [(p, e)]) := by
  intro tail b st S rest hsc
  obtain ⟨hs0, hz0, hx0, hd0⟩ := hs false b st
  rw [compileBody_match]
  generalize hR0 : compileE seIdx s false b st = R0 at *
  have hts : testsOf seIdx [(p, e)] R0.2 = ([[]], R0.2) := by
    cases p with
    | record _ _ _ _ => simp [testsOf, testCode]
    | ctor _ _ => simp [isRec] at hr
    | ident _ => simp [isRec] at hr
    | lit _ => simp [isRec] at hr
  rw [hts]
  simp only [testsLen, Nat.add_zero]
  obtain ⟨ha1, ha2, ha3, hax, had⟩ := ha tail (b + R0.1.length) R0.2 st.stackSize hz0
  generalize hRA : compileAlts seIdx [(p, e)] tail (b + R0.1.length) R0.2 = RA at *
  match RA, ha3 with
  | (c :: [], stA), _ =>
    simp only [startsOf, patchTests, patchLast, List.getLast?_nil, List.append_nil]
    refine ⟨[], by simpa [hs0, hsc] using ha1, by simpa using ha2, hx0.trans hax, ?_⟩
    intro K fuel hK fn upv fv h ρ stk hseg htab hlen hag hdum
    cases fuel with
    | zero => simp [evalCore]
    | succ n =>
      obtain ⟨hok0, herr0⟩ := hd0 K n (by omega) fn upv fv h ρ stk hseg.left (htab.of_ext hax) hlen hag hdum
      simp only [evalCore]
      cases he0 : evalCore n ρ s with
      | error err =>
        refine ⟨fun v hv => by simp at hv, fun he => ?_⟩
        simp at he; subst he
        exact herr0 he0
      | ok sv =>
        have ex0 := (hok0 sv he0).exec
        have hdyn := had K fn upv fv h ρ stk sv (endOf (b + R0.1.length) [c]) hlen
          (by rw [hs0]; exact hag) hdum htab hseg.right
        obtain ⟨hhead, _⟩ := hdyn
        have hend : b + (R0.1 ++ joinBodies (endOf (b + R0.1.length) [c]) [c]).length =
            endOf (b + R0.1.length) [c] := by
          simp [endOf, joinBodies]
          omega
        cases n with
        | zero => simp [evalAlts]
        | succ k =>
          simp only [evalAlts]
          cases hm : matchPat p sv ρ with
          | none => simp
          | some o =>
            cases o with
            | some ρ' =>
              obtain ⟨h1, h2⟩ := hhead k ρ' (by omega) hm
              refine ⟨fun v hv => ⟨[], rfl, ?_⟩, fun hv => ex0.thenErr (h2 hv)⟩
              exact ((h1 v hv).prepend ex0).to hend.symm (by simp)
            | none =>
              cases k <;> simp [evalAlts]

/-! ### The fragment -/

mutual
/-- The proved fragment, relative to the function variables `Φ` (variables known to hold
    closures, with their arity): constants, identifiers (stack slots and upvalues) other than
    function variables, `Cast`, non-recursive `Let`, the primitive binary operators that are
    single instructions, `Data` (variants, arrays, records), `&&`, `||`, `Match` over
    constructor / identifier / int, char, byte literal / closed-row record patterns, and calls
    `f a₁ … aₙ` of a function variable with exactly its arity (in tail position or not). With
    `Φ = []` this is F1. -/
def inF (Φ : List (Sym × Nat)) : Expr → Bool
  | .const _ => true
  | .ident x => (lookupScope Φ x).isNone
  | .cast e => inF Φ e
  | .letE x e₁ body =>
    decide (x ≠ dummySym) && (lookupScope Φ x).isNone && inF Φ e₁ && inF Φ body
  | .call f args =>
    (match headOf f args.length with
     | .prim _ => true
     | .and_ => true
     | .or_ => true
     | .none =>
       (match f with
        | .ident g => lookupScope Φ g == some args.length
        | _ => false)
     | _ => false) && inFs Φ args
  | .data (.variant (some _)) args => inFs Φ args
  | .data .array args => inFs Φ args
  | .data (.record _) args => inFs Φ args
  | .match_ s alts =>
    inF Φ s && inAlts Φ alts && (alts.all (fun a => !isRec a.1) || alts.length == 1)
  | _ => false
def inFs (Φ : List (Sym × Nat)) : List Expr → Bool
  | [] => true
  | e :: es => inF Φ e && inFs Φ es
def inAlts (Φ : List (Sym × Nat)) : List (Pat × Expr) → Bool
  | [] => true
  | (p, e) :: alts => patOk p && patFresh Φ p && inF Φ e && inAlts Φ alts
end

theorem inAlts_patOk (Φ : List (Sym × Nat)) : ∀ (alts : List (Pat × Expr)),
    inAlts Φ alts = true → ∀ a ∈ alts, patOk a.1 = true
  | [], _, a, ha => by simp at ha
  | (p, e) :: alts, h, a, ha => by
    simp only [inAlts, Bool.and_eq_true] at h
    simp only [List.mem_cons] at ha
    rcases ha with rfl | ha
    · exact h.1.1.1
    · exact inAlts_patOk Φ alts h.2 a ha

/-! ### Tables -/

theorem indexOfSym_get : ∀ (l : List Sym) (x : Sym) (k : Nat), indexOfSym l x = some k → l[k]? = some x
  | [], _, _, h => by simp [indexOfSym] at h
  | y :: rest, x, k, h => by
    simp only [indexOfSym] at h
    by_cases hxy : x = y
    · simp [hxy] at h; subst h; simp [hxy]
    · simp only [hxy, if_false, Option.map_eq_some_iff] at h
      obtain ⟨j, hj, rfl⟩ := h
      simpa using indexOfSym_get rest x j hj

theorem indexOfSym_prefix : ∀ (l₁ l₂ : List Sym) (x : Sym) (k : Nat), l₁ <+: l₂ →
    indexOfSym l₁ x = some k → indexOfSym l₂ x = some k
  | [], _, _, _, _, h => by simp [indexOfSym] at h
  | y :: r₁, l₂, x, k, hp, h => by
    obtain ⟨t, rfl⟩ := hp
    simp only [List.cons_append, indexOfSym] at h ⊢
    by_cases hxy : x = y
    · simpa [hxy] using h
    · simp only [hxy, if_false, Option.map_eq_some_iff] at h ⊢
      obtain ⟨j, hj, rfl⟩ := h
      exact ⟨j, indexOfSym_prefix r₁ (r₁ ++ t) x j (List.prefix_append _ _) hj, rfl⟩

theorem indexOfSym_append_new : ∀ (l : List Sym) (x : Sym), indexOfSym l x = none →
    indexOfSym (l ++ [x]) x = some l.length
  | [], x, _ => by simp [indexOfSym]
  | y :: rest, x, h => by
    simp only [indexOfSym] at h
    by_cases hxy : x = y
    · simp [hxy] at h
    · simp only [hxy, if_false, Option.map_eq_none_iff] at h
      simp [indexOfSym, hxy, indexOfSym_append_new rest x h]

theorem upvar_spec (st : FState) (x : Sym) :
    indexOfSym (st.upvar x).2.freeVars x = some (st.upvar x).1 ∧ Ext st (st.upvar x).2 ∧
    (st.upvar x).2.scopes = st.scopes ∧ (st.upvar x).2.stackSize = st.stackSize := by
  unfold FState.upvar
  split
  · rename_i i hi
    exact ⟨hi, Ext.refl st, rfl, rfl⟩
  · rename_i hn
    refine ⟨indexOfSym_append_new _ _ hn, ⟨List.prefix_append _ _, List.prefix_refl _, List.prefix_refl _⟩,
      rfl, rfl⟩

theorem indexOfStr_get : ∀ (l : List String) (x : String) (k : Nat), indexOfStr l x = some k →
    l[k]? = some x
  | [], _, _, h => by simp [indexOfStr] at h
  | y :: rest, x, k, h => by
    simp only [indexOfStr] at h
    by_cases hxy : x = y
    · simp [hxy] at h; subst h; simp [hxy]
    · simp only [hxy, if_false, Option.map_eq_some_iff] at h
      obtain ⟨j, hj, rfl⟩ := h
      simpa using indexOfStr_get rest x j hj

theorem addString_spec (st : FState) (x : String) :
    (st.addString x).2.strings[(st.addString x).1]? = some x ∧ Ext st (st.addString x).2 ∧
    (st.addString x).2.scopes = st.scopes ∧ (st.addString x).2.stackSize = st.stackSize := by
  unfold FState.addString
  split
  · rename_i i hi
    exact ⟨indexOfStr_get _ _ _ hi, Ext.refl st, rfl, rfl⟩
  · refine ⟨by simp, ⟨List.prefix_refl _, List.prefix_append _ _, List.prefix_refl _⟩, rfl, rfl⟩

theorem indexOfRec_get : ∀ (l : List (List Sym)) (x : List Sym) (k : Nat), indexOfRec l x = some k →
    l[k]? = some x
  | [], _, _, h => by simp [indexOfRec] at h
  | y :: rest, x, k, h => by
    simp only [indexOfRec] at h
    by_cases hxy : x = y
    · simp [hxy] at h; subst h; simp [hxy]
    · simp only [hxy, if_false, Option.map_eq_some_iff] at h
      obtain ⟨j, hj, rfl⟩ := h
      simpa using indexOfRec_get rest x j hj

theorem addRecord_spec (st : FState) (x : List Sym) :
    (st.addRecord x).2.records[(st.addRecord x).1]? = some x ∧ Ext st (st.addRecord x).2 ∧
    (st.addRecord x).2.scopes = st.scopes ∧ (st.addRecord x).2.stackSize = st.stackSize := by
  unfold FState.addRecord
  split
  · rename_i i hi
    exact ⟨indexOfRec_get _ _ _ hi, Ext.refl st, rfl, rfl⟩
  · refine ⟨by simp, ⟨List.prefix_refl _, List.prefix_refl _, List.prefix_append _ _⟩, rfl, rfl⟩

theorem step_constructRecord (fn : Fn) (upv : List Val) (pc : Nat) (s vs : List Val) (h : Heap)
    (idx n : Nat) (names : List Sym) (hn : vs.length = n) (hr : fn.records[idx]? = some names) :
    stepInstr fn upv (.constructRecord idx n) pc (s ++ vs) h =
      .next (pc + 1) (s ++ [.data 0 vs (if vs.isEmpty then [] else names.map (·.name))]) h := by
  have h1 : lastN (s ++ vs) n = vs := lastN_append s vs n hn
  have h2 : popN (s ++ vs) n = s := popN_append s vs n hn
  have h3 : ¬ (s.length + vs.length < n) := by omega
  by_cases h0 : n = 0
  · subst h0
    have : vs = [] := List.eq_nil_of_length_eq_zero hn
    subst this
    simp [stepInstr, tagVal]
  · have hne : vs.isEmpty = false := by
      cases vs with
      | nil => simp at hn; omega
      | cons _ _ => rfl
    simp [stepInstr, h1, h2, h3, h0, hr, hne]

theorem compileBody_record (seIdx names args tail b st) :
    compileBody seIdx (.data (.record names) args) tail b st =
      ((compileArgs seIdx args b st).1 ++
        [.constructRecord ((compileArgs seIdx args b st).2.addRecord names).1 args.length],
       (((compileArgs seIdx args b st).2.addRecord names).2).emit
        (.constructRecord ((compileArgs seIdx args b st).2.addRecord names).1 args.length)) := by
  simp [compileBody]

/-- loading an identifier: the instruction pushes whatever represents the variable -/
theorem ident_spec (seIdx : Nat) (Φ : List (Sym × Nat)) (x : Sym) (tail : Bool) (b : Nat)
    (st : FState) (S : List (Sym × Nat)) (rest : List (List (Sym × Nat))) (hsc : st.scopes = S :: rest) :
    (compileBody seIdx (.ident x) tail b st).2.scopes = S :: rest ∧
    (compileBody seIdx (.ident x) tail b st).2.stackSize = st.stackSize + 1 ∧
    Ext st (compileBody seIdx (.ident x) tail b st).2 ∧
    (compileBody seIdx (.ident x) tail b st).1.length = 1 ∧
    ∀ (fn : Fn) (upv : List Val) (fv : List Sym) (K : Nat) (h : Heap) (ρ : Env) (stk : List Val)
      (v : Val),
      SegAt fn.instrs b (compileBody seIdx (.ident x) tail b st).1 →
      Tables (compileBody seIdx (.ident x) tail b st).2 fn fv →
      Agree K h Φ fv upv st.scopes ρ stk → lookup ρ x = some v →
      ∃ v', RV K h Φ x v v' ∧ Exec fn upv h b stk (b + 1) (stk ++ [v']) := by
  cases hl : lookupScopes st.scopes x with
  | some i =>
    refine ⟨by simpa [compileBody, loadIdent, hl, FState.emit] using hsc,
      by simp [compileBody, loadIdent, hl, FState.emit, adjustSize, Instr.adjust],
      by simpa [compileBody, loadIdent, hl] using (same_emit st _).ext,
      by simp [compileBody, loadIdent, hl], ?_⟩
    intro fn upv fv K h ρ stk v hseg htab hag hlk
    rcases hag x v hlk with ⟨j, v', hj, hv, hr⟩ | ⟨hn, _⟩
    · rw [hl] at hj; cases hj
      simp [compileBody, loadIdent, hl] at hseg
      exact ⟨v', hr, Exec.step hseg.head (by simp [stepInstr, hv])⟩
    · rw [hl] at hn; cases hn
  | none =>
    obtain ⟨hidx, hext, hsc', hz'⟩ := upvar_spec st x
    refine ⟨by simp only [compileBody, loadIdent, hl, FState.emit, hsc']; exact hsc,
      by simp [compileBody, loadIdent, hl, FState.emit, adjustSize, Instr.adjust, hz'],
      by simpa [compileBody, loadIdent, hl] using hext.trans (same_emit _ _).ext,
      by simp [compileBody, loadIdent, hl], ?_⟩
    intro fn upv fv K h ρ stk v hseg htab hag hlk
    rcases hag x v hlk with ⟨j, v', hj, _, _⟩ | ⟨_, hu⟩
    · rw [hl] at hj; cases hj
    · simp only [compileBody, loadIdent, hl] at hseg htab
      have hk' := indexOfSym_prefix _ _ x _ (htab.of_ext (same_emit _ _).ext).1 hidx
      obtain ⟨v', hu', hr⟩ := hu _ hk'
      exact ⟨v', hr, Exec.step hseg.head (by simp [stepInstr, hu'] :
        stepInstr fn upv (.pushUpVar (st.upvar x).1) b stk h = .next (b + 1) (stk ++ [v']) h)⟩

/-- the same for `compile` of an identifier (the head of a call): no variable is left to slide -/
theorem head_spec (seIdx : Nat) (Φ : List (Sym × Nat)) (x : Sym) (b : Nat) (st : FState) :
    (compileE seIdx (.ident x) false b st).2.scopes = st.scopes ∧
    (compileE seIdx (.ident x) false b st).2.stackSize = st.stackSize + 1 ∧
    Ext st (compileE seIdx (.ident x) false b st).2 ∧
    (compileE seIdx (.ident x) false b st).1.length = 1 ∧
    ∀ (fn : Fn) (upv : List Val) (fv : List Sym) (K : Nat) (h : Heap) (ρ : Env) (stk : List Val)
      (v : Val),
      SegAt fn.instrs b (compileE seIdx (.ident x) false b st).1 →
      Tables (compileE seIdx (.ident x) false b st).2 fn fv →
      Agree K h Φ fv upv st.scopes ρ stk → lookup ρ x = some v →
      ∃ v', RV K h Φ x v v' ∧ Exec fn upv h b stk (b + 1) (stk ++ [v']) := by
  obtain ⟨h1, h2, h3, h4, h5⟩ := ident_spec seIdx Φ x false b st.enterScope [] st.scopes rfl
  have hex : (compileBody seIdx (.ident x) false b st.enterScope).2.exitScope =
      (0, { (compileBody seIdx (.ident x) false b st.enterScope).2 with scopes := st.scopes }) := by
    simp [FState.exitScope, h1]
  have hcode : (compileE seIdx (.ident x) false b st).1 =
      (compileBody seIdx (.ident x) false b st.enterScope).1 := by
    simp [compileE, finishScope, hex, slideCode]
  have hst : (compileE seIdx (.ident x) false b st).2 =
      { (compileBody seIdx (.ident x) false b st.enterScope).2 with scopes := st.scopes } := by
    simp [compileE, finishScope, hex]
  refine ⟨by rw [hst], by rw [hst]; simpa [FState.enterScope] using h2,
    by rw [hst]; exact ((same_enter st).ext.trans h3).trans ⟨List.prefix_refl _, List.prefix_refl _, List.prefix_refl _⟩,
    by rw [hcode]; exact h4, ?_⟩
  intro fn upv fv K h ρ stk v hseg htab hag hlk
  rw [hcode] at hseg
  rw [hst] at htab
  exact h5 fn upv fv K h ρ stk v hseg htab (by simpa [FState.enterScope] using hag.enter) hlk

theorem compileBody_call (seIdx f args tail b st) (hh : headOf f args.length = .none) :
    compileBody seIdx (.call f args) tail b st =
      ((compileE seIdx f false b st).1 ++
        (compileArgs seIdx args (b + (compileE seIdx f false b st).1.length)
          (compileE seIdx f false b st).2).1 ++
        [if tail then Instr.tailCall args.length else Instr.call args.length],
       (compileArgs seIdx args (b + (compileE seIdx f false b st).1.length)
          (compileE seIdx f false b st).2).2.emit
        (if tail then Instr.tailCall args.length else Instr.call args.length)) := by
  by_cases h2 : ∃ l r, args = [l, r]
  · obtain ⟨l, r, rfl⟩ := h2
    have hh' : headOf f 2 = .none := by simpa using hh
    cases tail <;> simp [compileBody, compileE, hh']
  · rw [compileBody]
    · simp only [hh, compileE]
    · intro l r e
      exact h2 ⟨l, r, e⟩

theorem adjustSize_call (i : Instr) (n m : Nat) (hi : i.adjust = -(n : Int)) :
    adjustSize i (m + 1 + n) = m + 1 := by
  unfold adjustSize
  rw [hi]
  split <;> omega

mutual
/-- The compiler-correctness invariant for every expression of the fragment. -/
theorem body_spec (seIdx : Nat) (Φ : List (Sym × Nat)) : ∀ (e : Expr), inF Φ e = true →
    BodySpec seIdx Φ e
  | .const l, _ => by
    intro tail b st S rest hsc
    cases l with
    | str x =>
      obtain ⟨hget, hext, hsc', hz'⟩ := addString_spec st x
      refine ⟨[], by simp [compileBody, compileLit, FState.emit, hsc', hsc],
        by simp [compileBody, compileLit, FState.emit, adjustSize, Instr.adjust, hz'],
        by simpa [compileBody, compileLit] using hext.trans (same_emit _ _).ext, ?_⟩
      intro K fuel hK fn upv fv h ρ stk hseg htab hlen hag hdum
      refine ⟨fun v hv => ⟨[], rfl, ?_⟩, fun he => ?_⟩
      · cases fuel with
        | zero => simp [evalCore] at hv
        | succ n =>
          simp [evalCore, litVal] at hv; subst hv
          simp only [compileBody, compileLit] at hseg htab ⊢
          have hs : fn.strings[(st.addString x).1]? = some x :=
            prefix_getElem? (htab.of_ext (same_emit _ _).ext).2.1 hget
          exact Done.of_exec (by simpa using Exec.step hseg.head (by simp [stepInstr, hs] :
            stepInstr fn upv (.pushString (st.addString x).1) b stk h = .next (b + 1) (stk ++ [.str x]) h))
      · cases fuel <;> simp [evalCore] at he
    | int n =>
      refine ⟨[], by simp [compileBody, compileLit, FState.emit, hsc],
        by simp [compileBody, compileLit, FState.emit, adjustSize, Instr.adjust],
        by simpa [compileBody, compileLit] using (same_emit st _).ext, ?_⟩
      intro K fuel hK fn upv fv h ρ stk hseg htab hlen hag hdum
      refine ⟨fun v hv => ⟨[], rfl, ?_⟩, fun he => ?_⟩
      · cases fuel with
        | zero => simp [evalCore] at hv
        | succ k =>
          simp [evalCore, litVal] at hv; subst hv
          simp only [compileBody, compileLit] at hseg ⊢
          exact Done.of_exec (by simpa using Exec.step (upv := upv) (h := h) (stk := stk) hseg.head rfl)
      · cases fuel <;> simp [evalCore] at he
    | byte n =>
      refine ⟨[], by simp [compileBody, compileLit, FState.emit, hsc],
        by simp [compileBody, compileLit, FState.emit, adjustSize, Instr.adjust],
        by simpa [compileBody, compileLit] using (same_emit st _).ext, ?_⟩
      intro K fuel hK fn upv fv h ρ stk hseg htab hlen hag hdum
      refine ⟨fun v hv => ⟨[], rfl, ?_⟩, fun he => ?_⟩
      · cases fuel with
        | zero => simp [evalCore] at hv
        | succ k =>
          simp [evalCore, litVal] at hv; subst hv
          simp only [compileBody, compileLit] at hseg ⊢
          exact Done.of_exec (by simpa using Exec.step (upv := upv) (h := h) (stk := stk) hseg.head rfl)
      · cases fuel <;> simp [evalCore] at he
    | float n =>
      refine ⟨[], by simp [compileBody, compileLit, FState.emit, hsc],
        by simp [compileBody, compileLit, FState.emit, adjustSize, Instr.adjust],
        by simpa [compileBody, compileLit] using (same_emit st _).ext, ?_⟩
      intro K fuel hK fn upv fv h ρ stk hseg htab hlen hag hdum
      refine ⟨fun v hv => ⟨[], rfl, ?_⟩, fun he => ?_⟩
      · cases fuel with
        | zero => simp [evalCore] at hv
        | succ k =>
          simp [evalCore, litVal] at hv; subst hv
          simp only [compileBody, compileLit] at hseg ⊢
          exact Done.of_exec (by simpa using Exec.step (upv := upv) (h := h) (stk := stk) hseg.head rfl)
      · cases fuel <;> simp [evalCore] at he
    | char n =>
      refine ⟨[], by simp [compileBody, compileLit, FState.emit, hsc],
        by simp [compileBody, compileLit, FState.emit, adjustSize, Instr.adjust],
        by simpa [compileBody, compileLit] using (same_emit st _).ext, ?_⟩
      intro K fuel hK fn upv fv h ρ stk hseg htab hlen hag hdum
      refine ⟨fun v hv => ⟨[], rfl, ?_⟩, fun he => ?_⟩
      · cases fuel with
        | zero => simp [evalCore] at hv
        | succ k =>
          simp [evalCore, litVal] at hv; subst hv
          simp only [compileBody, compileLit] at hseg ⊢
          exact Done.of_exec (by simpa using Exec.step (upv := upv) (h := h) (stk := stk) hseg.head rfl)
      · cases fuel <;> simp [evalCore] at he
  | .ident x, hF => by
    intro tail b st S rest hsc
    have hfx : lookupScope Φ x = none := by simpa [inF] using hF
    obtain ⟨h1, h2, h3, h4, h5⟩ := ident_spec seIdx Φ x tail b st S rest hsc
    refine ⟨[], by simpa using h1, by simpa using h2, h3, ?_⟩
    intro K fuel hK fn upv fv h ρ stk hseg htab hlen hag hdum
    refine ⟨fun v hv => ⟨[], rfl, ?_⟩, fun he => ?_⟩
    · cases fuel with
      | zero => simp [evalCore] at hv
      | succ n =>
        simp only [evalCore] at hv
        cases hlk : lookup ρ x with
        | none => simp [hlk] at hv
        | some w =>
          simp [hlk] at hv; subst hv
          obtain ⟨v', hr, ex⟩ := h5 fn upv fv K h ρ stk w hseg htab hag hlk
          simp only [RV, hfx] at hr
          subst hr
          exact Done.of_exec (by rw [h4]; simpa using ex)
    · cases fuel with
      | zero => simp [evalCore] at he
      | succ n =>
        simp only [evalCore] at he
        cases hlk : lookup ρ x <;> simp [hlk] at he
  | .cast e, hF => by
    have ih := body_spec seIdx Φ e (by simpa [inF] using hF)
    intro tail b st S rest hsc
    obtain ⟨N, h1, h2, hx, h3⟩ := ih tail b st S rest hsc
    refine ⟨N, by simpa [compileBody_cast] using h1, by simpa [compileBody_cast] using h2,
      by simpa [compileBody_cast] using hx, ?_⟩
    intro K fuel hK fn upv fv h ρ stk hseg htab hlen hag hdum
    rw [compileBody_cast] at hseg htab ⊢
    cases fuel with
    | zero => simp [evalCore]
    | succ n => simpa [evalCore] using h3 K n (by omega) fn upv fv h ρ stk hseg htab hlen hag hdum
  | .letE x e₁ body, hF => by
    simp only [inF, Bool.and_eq_true, decide_eq_true_eq, Option.isNone_iff_eq_none] at hF
    obtain ⟨⟨⟨hx, hfx⟩, h1F⟩, h2F⟩ := hF
    have w1 := wrap_of_body (body_spec seIdx Φ e₁ h1F)
    have ih2 := body_spec seIdx Φ body h2F
    intro tail b st S rest hsc
    obtain ⟨hs1, hz1, hx1, hd1⟩ := w1 false b st
    have hsc' : ((compileE seIdx e₁ false b st).2.newStackVar x).scopes =
        ((x, st.stackSize) :: S) :: rest := by
      simp [FState.newStackVar, hs1, hsc, hz1]
    have hz' : ((compileE seIdx e₁ false b st).2.newStackVar x).stackSize = st.stackSize + 1 := by
      simp only [FState.newStackVar, hs1, hsc, hz1]
    obtain ⟨N', h1, h2, hx2, h3⟩ := ih2 tail (b + (compileE seIdx e₁ false b st).1.length)
      ((compileE seIdx e₁ false b st).2.newStackVar x) _ rest hsc'
    have hx12 := (same_newStackVar (compileE seIdx e₁ false b st).2 x).ext.trans hx2
    rw [compileBody_letE]
    refine ⟨N' ++ [(x, st.stackSize)], by simpa using h1, by simp [h2, hz']; omega,
      hx1.trans hx12, ?_⟩
    intro K fuel hK fn upv fv h ρ stk hseg htab hlen hag hdum
    cases fuel with
    | zero => simp [evalCore]
    | succ n =>
      obtain ⟨hok1, herr1⟩ := hd1 K n (by omega) fn upv fv h ρ stk hseg.left (htab.of_ext hx12) hlen hag hdum
      simp only [evalCore]
      cases he1 : evalCore n ρ e₁ with
      | error err =>
        refine ⟨fun v hv => by simp at hv, fun he => ?_⟩
        simp at he; subst he
        exact herr1 he1
      | ok v₁ =>
        have ex1 := (hok1 v₁ he1).exec
        have hag' : Agree K h Φ fv upv ((compileE seIdx e₁ false b st).2.newStackVar x).scopes
            ((x, v₁) :: ρ) (stk ++ [v₁]) := by
          rw [hsc', ← hlen]
          rw [hsc] at hag
          exact hag.bind hfx
        have hdum' : lookup ((x, v₁) :: ρ) dummySym = none := by
          simp only [lookup]
          have : ¬ dummySym = x := fun h => hx h.symm
          simp [this, hdum]
        obtain ⟨hok2, herr2⟩ := h3 K n (by omega) fn upv fv h ((x, v₁) :: ρ) (stk ++ [v₁]) hseg.right htab
          (by simp [hz', hlen]) hag' hdum'
        refine ⟨fun v hv => ?_, fun he => ?_⟩
        · obtain ⟨L, hL, ex2⟩ := hok2 v hv
          refine ⟨[v₁] ++ L, by simp [hL, Nat.add_comm], ?_⟩
          exact (ex2.prepend ex1).to (by simp [Nat.add_assoc]) (by simp)
        · exact ex1.thenErr (herr2 he)
  | .call f args, hF => by
    simp only [inF, Bool.and_eq_true] at hF
    obtain ⟨hh, haF⟩ := hF
    cases hhd : headOf f args.length with
    | prim op =>
      have hlen2 := headOf_prim_len hhd
      match args, hlen2, haF, hhd with
      | [lhs, rhs], _, haF, hhd =>
        simp only [inFs, Bool.and_eq_true] at haF
        have w1 := wrap_of_body (body_spec seIdx Φ lhs haF.1)
        have w2 := wrap_of_body (body_spec seIdx Φ rhs haF.2.1)
        have hhd' : headOf f 2 = .prim op := by simpa using hhd
        intro tail b st S rest hsc
        obtain ⟨hs1, hz1, hx1, hd1⟩ := w1 false b st
        obtain ⟨hs2, hz2, hx2, hd2⟩ := w2 false (b + (compileE seIdx lhs false b st).1.length)
          (compileE seIdx lhs false b st).2
        rw [compileBody_prim _ _ _ _ _ _ _ _ hhd']
        refine ⟨[], by simp [FState.emit, hs2, hs1, hsc], ?_,
          (hx1.trans hx2).trans (same_emit _ _).ext, ?_⟩
        · simp [FState.emit, adjustSize, adjust_prim, hz2, hz1]
        · intro K fuel hK fn upv fv h ρ stk hseg htab hlen hag hdum
          have htab2 := htab.of_ext (same_emit _ _).ext
          cases fuel with
          | zero => simp [evalCore]
          | succ n =>
            obtain ⟨hok1, herr1⟩ := hd1 K n (by omega) fn upv fv h ρ stk hseg.left.left (htab2.of_ext hx2)
              hlen hag hdum
            simp only [evalCore, List.length_cons, List.length_nil, hhd']
            cases he1 : evalCore n ρ lhs with
            | error err =>
              refine ⟨fun v hv => by simp at hv, fun he => ?_⟩
              simp at he; subst he
              exact herr1 he1
            | ok x =>
              have ex1 := (hok1 x he1).exec
              obtain ⟨hok2, herr2⟩ := hd2 K n (by omega) fn upv fv h ρ (stk ++ [x]) hseg.left.right htab2
                (by simp [hz1, hlen]) (by rw [hs1]; exact hag.append [x]) hdum
              cases he2 : evalCore n ρ rhs with
              | error err =>
                refine ⟨fun v hv => by simp at hv, fun he => ?_⟩
                simp at he; subst he
                exact ex1.thenErr (herr2 he2)
              | ok y =>
                have ex2 := ex1.trans (hok2 y he2).exec
                have hop := hseg.right.head
                rw [List.length_append, ← Nat.add_assoc] at hop
                have hst := step_prim fn upv op
                  (b + (compileE seIdx lhs false b st).1.length +
                    (compileE seIdx rhs false (b + (compileE seIdx lhs false b st).1.length)
                      (compileE seIdx lhs false b st).2).1.length) stk x y h
                simp only [List.append_assoc, List.cons_append, List.nil_append] at ex2
                refine ⟨fun v hv => ⟨[], rfl, ?_⟩, fun he => ?_⟩
                · simp only [] at hv
                  rw [hv] at hst
                  have := ex2.trans (Exec.step hop hst)
                  exact Done.of_exec (by simpa [Nat.add_assoc] using this)
                · simp only [] at he
                  rw [he] at hst
                  exact ex2.thenErr (ExecErr.step hop hst)
    | and_ =>
      have hlen2 := headOf_and_len hhd
      match args, hlen2, haF, hhd with
      | [lhs, rhs], _, haF, hhd =>
        simp only [inFs, Bool.and_eq_true] at haF
        have w1 := wrap_of_body (body_spec seIdx Φ lhs haF.1)
        have w2 := wrap_of_body (body_spec seIdx Φ rhs haF.2.1)
        have hhd' : headOf f 2 = .and_ := by simpa using hhd
        intro tail b st S rest hsc
        obtain ⟨hs1, hz1, hx1, hd1⟩ := w1 false b st
        obtain ⟨hs2, hz2, hx2, hd2⟩ := w2 tail (b + (compileE seIdx lhs false b st).1.length + 3)
          (andMid (compileE seIdx lhs false b st).2)
        have hms := andMid_size (compileE seIdx lhs false b st).2 st.stackSize hz1
        have hmx : Ext (compileE seIdx lhs false b st).2 (andMid (compileE seIdx lhs false b st).2) :=
          ⟨List.prefix_refl _, List.prefix_refl _, List.prefix_refl _⟩
        rw [compileBody_and _ _ _ _ _ _ _ hhd']
        refine ⟨[], ?_, ?_, (hx1.trans hmx).trans hx2, ?_⟩
        · simp only [hs2, andMid_scopes, hs1, hsc, List.nil_append]
        · simp only [hz2, hms, List.length_nil, Nat.add_zero]
        intro K fuel hK fn upv fv h ρ stk hseg htab hlen hag hdum
        cases fuel with
        | zero => simp [evalCore]
        | succ n =>
          obtain ⟨hok1, herr1⟩ := hd1 K n (by omega) fn upv fv h ρ stk hseg.left.left
            (htab.of_ext (hmx.trans hx2)) hlen hag hdum
          simp only [evalCore, List.length_cons, List.length_nil, hhd']
          cases he1 : evalCore n ρ lhs with
          | error err =>
            refine ⟨fun v hv => by simp at hv, fun he => ?_⟩
            simp at he; subst he
            exact herr1 he1
          | ok x =>
            have ex1 := (hok1 x he1).exec
            have hmid := hseg.left.right
            have hcj := hmid.head
            have hcv := hmid.tail.head
            have hjm := hmid.tail.tail.head
            have hseg2 := hseg.right.to (q := b + (compileE seIdx lhs false b st).1.length + 3)
              (by simp only [List.length_append, List.length_cons, List.length_nil]; omega)
            obtain ⟨hok2, herr2⟩ := hd2 K n (by omega) fn upv fv h ρ stk hseg2 htab
              (by simp [hms, hlen]) (by rw [andMid_scopes, hs1]; exact hag) hdum
            by_cases hx : isFalse x = true
            · refine ⟨fun v hv => ⟨[], rfl, ?_⟩, fun he => by simp [hx] at he⟩
              simp [hx] at hv; subst hv
              have e2 := Exec.step (upv := upv) (h := h) hcj
                (by rw [step_cJump]; simp [hx] :
                  stepInstr fn upv _ _ (stk ++ [x]) h =
                    .next (b + (compileE seIdx lhs false b st).1.length + 1) stk h)
              have e3 := Exec.step (stk := stk) (upv := upv) (h := h) hcv
                (step_pushTag fn upv _ 0 stk h)
              have e4 := Exec.step (stk := stk ++ [tagVal 0]) (upv := upv) (h := h) hjm
                (step_jump fn upv _ _ _ h)
              exact Done.of_exec ((((ex1.trans e2).trans e3).trans e4).to
                (by simp only [List.length_append, List.length_cons, List.length_nil]; omega)
                (by simp))
            · have e2 := Exec.step (upv := upv) (h := h) hcj
                (by rw [step_cJump]; simp [hx] :
                  stepInstr fn upv _ _ (stk ++ [x]) h =
                    .next (b + (compileE seIdx lhs false b st).1.length + 3) stk h)
              refine ⟨fun v hv => ⟨[], rfl, ?_⟩, fun he => ?_⟩
              · simp [hx] at hv
                exact ((hok2 v hv).prepend (ex1.trans e2)).to
                  (by simp only [List.length_append, List.length_cons, List.length_nil]; omega)
                  (by simp)
              · simp [hx] at he
                exact (ex1.trans e2).thenErr (herr2 he)
    | or_ =>
      have hlen2 := headOf_or_len hhd
      match args, hlen2, haF, hhd with
      | [lhs, rhs], _, haF, hhd =>
        simp only [inFs, Bool.and_eq_true] at haF
        have w1 := wrap_of_body (body_spec seIdx Φ lhs haF.1)
        have w2 := wrap_of_body (body_spec seIdx Φ rhs haF.2.1)
        have hhd' : headOf f 2 = .or_ := by simpa using hhd
        intro tail b st S rest hsc
        obtain ⟨hs1, hz1, hx1, hd1⟩ := w1 false b st
        obtain ⟨hs2, hz2, hx2, hd2⟩ := w2 tail (b + (compileE seIdx lhs false b st).1.length + 1)
          ((compileE seIdx lhs false b st).2.emit (.cJump 0))
        have hms : ((compileE seIdx lhs false b st).2.emit (.cJump 0)).stackSize = st.stackSize := by
          simp [FState.emit, adjustSize, Instr.adjust, hz1]
        have hmsc : ((compileE seIdx lhs false b st).2.emit (.cJump 0)).scopes = st.scopes := by
          simp [FState.emit, hs1]
        have hmx := (same_emit (compileE seIdx lhs false b st).2 (.cJump 0)).ext
        rw [compileBody_or _ _ _ _ _ _ _ hhd']
        generalize hX2 : compileE seIdx rhs tail (b + (compileE seIdx lhs false b st).1.length + 1)
          ((compileE seIdx lhs false b st).2.emit (.cJump 0)) = X2 at *
        have hfin : Ext X2.2 { (((X2.2.emit (.jump 0)).emit (.constructVariant 1 0))) with
            stackSize := (((X2.2.emit (.jump 0)).emit (.constructVariant 1 0))).stackSize - 1 } :=
          ⟨List.prefix_refl _, List.prefix_refl _, List.prefix_refl _⟩
        refine ⟨[], ?_, ?_, ((hx1.trans hmx).trans hx2).trans hfin, ?_⟩
        · simp only [FState.emit] at hmsc
          simp only [FState.emit, hs2, hmsc, hsc, List.nil_append]
        · simp [FState.emit, adjustSize, Instr.adjust, hz2, hz1]
        intro K fuel hK fn upv fv h ρ stk hseg htab hlen hag hdum
        have htab2 := htab.of_ext hfin
        cases fuel with
        | zero => simp [evalCore]
        | succ n =>
          obtain ⟨hok1, herr1⟩ := hd1 K n (by omega) fn upv fv h ρ stk hseg.left.left.left
            (htab2.of_ext (hmx.trans hx2)) hlen hag hdum
          simp only [evalCore, List.length_cons, List.length_nil, hhd']
          cases he1 : evalCore n ρ lhs with
          | error err =>
            refine ⟨fun v hv => by simp at hv, fun he => ?_⟩
            simp at he; subst he
            exact herr1 he1
          | ok x =>
            have ex1 := (hok1 x he1).exec
            have hcj := hseg.left.left.right.head
            have htl := hseg.right
            have hjm := htl.head
            have hcv := htl.tail.head
            have hseg2 := hseg.left.right.to (q := b + (compileE seIdx lhs false b st).1.length + 1)
              (by simp only [List.length_append, List.length_cons, List.length_nil]; omega)
            obtain ⟨hok2, herr2⟩ := hd2 K n (by omega) fn upv fv h ρ stk hseg2 htab2
              (by simp [hms, hlen]) (by rw [hmsc]; exact hag) hdum
            by_cases hx : isFalse x = true
            · have e2 := Exec.step (upv := upv) (h := h) hcj
                (by rw [step_cJump]; simp [hx] :
                  stepInstr fn upv _ _ (stk ++ [x]) h =
                    .next (b + (compileE seIdx lhs false b st).1.length + 1) stk h)
              refine ⟨fun v hv => ⟨[], rfl, ?_⟩, fun he => ?_⟩
              · simp [hx] at hv
                have e3 := ((hok2 v hv).prepend (ex1.trans e2)).to
                  (q := b + ((compileE seIdx lhs false b st).1 ++
                    [Instr.cJump (b + (compileE seIdx lhs false b st).1.length + 1 + X2.1.length + 1)]
                    ++ X2.1).length)
                  (by simp only [List.length_append, List.length_cons, List.length_nil]; omega) rfl
                have e4 := Exec.step (stk := stk ++ [v]) (upv := upv) (h := h) hjm
                  (step_jump fn upv _ _ _ h)
                exact (e3.andThen e4).to
                  (by simp only [List.length_append, List.length_cons, List.length_nil]; omega)
                  (by simp)
              · simp [hx] at he
                exact (ex1.trans e2).thenErr (herr2 he)
            · refine ⟨fun v hv => ⟨[], rfl, ?_⟩, fun he => by simp [hx] at he⟩
              simp [hx] at hv; subst hv
              have e2 := (Exec.step (upv := upv) (h := h) hcj
                (by rw [step_cJump]; simp [hx] :
                  stepInstr fn upv _ _ (stk ++ [x]) h =
                    .next (b + (compileE seIdx lhs false b st).1.length + 1 + X2.1.length + 1) stk h)).to
                  (q := b + ((compileE seIdx lhs false b st).1 ++
                    [Instr.cJump (b + (compileE seIdx lhs false b st).1.length + 1 + X2.1.length + 1)]
                    ++ X2.1).length + 1)
                  (by simp only [List.length_append, List.length_cons, List.length_nil]; omega) rfl
              have e3 := Exec.step (stk := stk) (upv := upv) (h := h) hcv
                (step_pushTag fn upv _ 1 stk h)
              exact Done.of_exec (((ex1.trans e2).trans e3).to
                (by simp only [List.length_append, List.length_cons, List.length_nil]; omega)
                (by simp))
    | otherPrim => simp [hhd] at hh
    | none =>
      -- a call `g a₁ … aₙ` of a function variable with exactly its arity
      match f, hh, hhd with
      | .ident g, hh, hhd =>
        simp only [hhd, beq_iff_eq] at hh
        have ha := args_spec seIdx Φ args haF
        intro tail b st S rest hsc
        obtain ⟨hs1, hz1, hx1, hl1, hd1⟩ := head_spec seIdx Φ g b st
        obtain ⟨hs2, hz2, hx2, hd2⟩ := ha (b + (compileE seIdx (.ident g) false b st).1.length)
          (compileE seIdx (.ident g) false b st).2
        rw [compileBody_call _ _ _ _ _ _ hhd]
        generalize hX1 : compileE seIdx (.ident g) false b st = X1 at *
        generalize hX2 : compileArgs seIdx args (b + X1.1.length) X1.2 = X2 at *
        have hadj : (if tail then Instr.tailCall args.length else Instr.call args.length).adjust =
            -(args.length : Int) := by cases tail <;> rfl
        refine ⟨[], by simp [FState.emit, hs2, hs1, hsc], ?_, (hx1.trans hx2).trans (same_emit _ _).ext, ?_⟩
        · simp only [FState.emit, hz2, hz1, List.length_nil, Nat.add_zero]
          exact adjustSize_call _ args.length st.stackSize hadj
        · intro K fuel hK fn upv fv h ρ stk hseg htab hlen hag hdum
          have htab2 := htab.of_ext (same_emit _ _).ext
          cases fuel with
          | zero => simp [evalCore]
          | succ n =>
            simp only [evalCore, hhd]
            cases n with
            | zero => simp [evalCore]
            | succ k =>
              simp only [evalCore]
              cases hlk : lookup ρ g with
              | none => simp
              | some fv' =>
                obtain ⟨v', hr, exf⟩ := hd1 fn upv fv K h ρ stk fv' hseg.left.left (htab2.of_ext hx2)
                  hag hlk
                simp only [RV, hh] at hr
                obtain ⟨cs, idx, env, id, gf, gupv, nm, params, body, rfl, rfl, hg, hcs, hpl, hn0, hga,
                  hsem⟩ := hr
                obtain ⟨hok2, herr2⟩ := hd2 K (k + 1) (by omega) fn upv fv h ρ (stk ++ [Val.cref id])
                  (hseg.left.right.to (by rw [hl1])) htab2 (by simp [hz1, hlen])
                  (by rw [hs1]; exact hag.append _) hdum
                have exf' : Exec fn upv h b stk (b + X1.1.length) (stk ++ [Val.cref id]) :=
                  exf.to (by rw [hl1]) rfl
                cases hev : evalList (k + 1) ρ args with
                | error err =>
                  refine ⟨fun v hv => by simp at hv, fun he => ?_⟩
                  simp at he; subst he
                  exact exf'.thenErr (herr2 hev)
                | ok vs =>
                  have hvl := evalList_length (k + 1) ρ args vs hev
                  have exa := exf'.trans (hok2 vs hev)
                  have hinstr := hseg.right.head
                  rw [show b + (X1.1 ++ X2.1).length = b + X1.1.length + X2.1.length by
                    simp [Nat.add_assoc], ← hvl] at hinstr
                  obtain ⟨hsok, hserr⟩ := hsem k vs (by omega) hvl
                  have htake : List.take params.length vs = vs :=
                    List.take_of_length_le (by rw [hvl, hpl]; exact Nat.le_refl _)
                  have hnl : ¬ vs.length < params.length := by rw [hvl, hpl]; exact Nat.lt_irrefl _
                  have hp0 : ¬ params.length = 0 := by rw [hpl]; exact hn0
                  simp only [apply, hcs, hp0, if_false, hnl, htake]
                  cases hb : evalCore k (bindAll params vs (recEnv cs env)) body with
                  | error err =>
                    refine ⟨fun v hv => by simp at hv, fun he => ?_⟩
                    simp at he; subst he
                    refine ExecErr.incall (s := stk) (id := id) (args := vs) exa ?_ hg
                      (by rw [hga, hvl]) (hserr hb)
                    cases tail
                    · exact Or.inl (by simpa using hinstr)
                    · exact Or.inr (by simpa using hinstr)
                  | ok r =>
                    have hret := hsok r hb
                    have heq : vs.length = params.length := by rw [hvl, hpl]
                    refine ⟨fun v hv => ⟨[], rfl, ?_⟩, fun he => by simp [heq] at he⟩
                    simp [heq] at hv; subst hv
                    cases tail with
                    | false =>
                      have hi : fn.instrs[b + X1.1.length + X2.1.length]? = some (.call vs.length) := by
                        simpa using hinstr
                      have := Exec.call (fn := fn) (upv := upv) (stk := stk) (id := id) (args := vs)
                        (v := r) hi hg (by rw [hga, hvl]) hret (Exec.refl _ _)
                      exact Done.of_exec ((exa.trans this).to (by simp [Nat.add_assoc]) (by simp))
                    | true =>
                      have hi : fn.instrs[b + X1.1.length + X2.1.length]? = some (.tailCall vs.length) := by
                        simpa using hinstr
                      exact Or.inr ⟨rfl, _, stk, id, vs, gf, gupv, exa, hi, hg, by rw [hga, hvl], hret⟩
      | .const _, hh, hhd => simp [hhd] at hh
      | .call _ _, hh, hhd => simp [hhd] at hh
      | .data _ _, hh, hhd => simp [hhd] at hh
      | .letE _ _ _, hh, hhd => simp [hhd] at hh
      | .letRec _ _, hh, hhd => simp [hhd] at hh
      | .match_ _ _, hh, hhd => simp [hhd] at hh
      | .cast _, hh, hhd => simp [hhd] at hh
  | .data k args, hF => by
    match k, hF with
    | .variant (some t), hF =>
      have ha := args_spec seIdx Φ args (by simpa [inF] using hF)
      intro tail b st S rest hsc
      obtain ⟨hs1, hz1, hx1, hd1⟩ := ha b st
      refine ⟨[], by simp [compileBody, FState.emit, hs1, hsc], ?_,
        by simpa [compileBody] using hx1.trans (same_emit _ _).ext, ?_⟩
      · simp only [compileBody, FState.emit, hz1]
        simpa using adjustSize_construct (.constructVariant t args.length) args.length st.stackSize rfl
      · intro K fuel hK fn upv fv h ρ stk hseg htab hlen hag hdum
        simp only [compileBody] at hseg htab ⊢
        cases fuel with
        | zero => simp [evalCore]
        | succ n =>
          obtain ⟨hok1, herr1⟩ := hd1 K n (by omega) fn upv fv h ρ stk hseg.left
            (htab.of_ext (same_emit _ _).ext) hlen hag hdum
          simp only [evalCore]
          cases he1 : evalList n ρ args with
          | error err =>
            refine ⟨fun v hv => by simp at hv, fun he => ?_⟩
            simp at he; subst he
            exact herr1 he1
          | ok vs =>
            refine ⟨fun v hv => ⟨[], rfl, ?_⟩, fun he => by simp at he⟩
            simp at hv; subst hv
            have hvl := evalList_length n ρ args vs he1
            have := (hok1 vs he1).trans (Exec.step hseg.right.head
              (step_constructVariant fn upv _ stk vs h t args.length hvl))
            exact Done.of_exec (by simpa [Nat.add_assoc] using this)
    | .array, hF =>
      have ha := args_spec seIdx Φ args (by simpa [inF] using hF)
      intro tail b st S rest hsc
      obtain ⟨hs1, hz1, hx1, hd1⟩ := ha b st
      refine ⟨[], by simp [compileBody, FState.emit, hs1, hsc], ?_,
        by simpa [compileBody] using hx1.trans (same_emit _ _).ext, ?_⟩
      · simp only [compileBody, FState.emit, hz1]
        simpa using adjustSize_construct (.constructArray args.length) args.length st.stackSize rfl
      · intro K fuel hK fn upv fv h ρ stk hseg htab hlen hag hdum
        simp only [compileBody] at hseg htab ⊢
        cases fuel with
        | zero => simp [evalCore]
        | succ n =>
          obtain ⟨hok1, herr1⟩ := hd1 K n (by omega) fn upv fv h ρ stk hseg.left
            (htab.of_ext (same_emit _ _).ext) hlen hag hdum
          simp only [evalCore]
          cases he1 : evalList n ρ args with
          | error err =>
            refine ⟨fun v hv => by simp at hv, fun he => ?_⟩
            simp at he; subst he
            exact herr1 he1
          | ok vs =>
            refine ⟨fun v hv => ⟨[], rfl, ?_⟩, fun he => by simp at he⟩
            simp at hv; subst hv
            have hvl := evalList_length n ρ args vs he1
            have := (hok1 vs he1).trans (Exec.step hseg.right.head
              (step_constructArray fn upv _ stk vs h args.length hvl))
            exact Done.of_exec (by simpa [Nat.add_assoc] using this)
    | .record names, hF =>
      have ha := args_spec seIdx Φ args (by simpa [inF] using hF)
      intro tail b st S rest hsc
      obtain ⟨hs1, hz1, hx1, hd1⟩ := ha b st
      obtain ⟨hget, hxr, hsr, hzr⟩ := addRecord_spec (compileArgs seIdx args b st).2 names
      rw [compileBody_record]
      refine ⟨[], by simp [FState.emit, hsr, hs1, hsc], ?_,
        (hx1.trans hxr).trans (same_emit _ _).ext, ?_⟩
      · simp only [FState.emit, hzr, hz1]
        simpa using adjustSize_construct
          (.constructRecord ((compileArgs seIdx args b st).2.addRecord names).1 args.length)
          args.length st.stackSize rfl
      · intro K fuel hK fn upv fv h ρ stk hseg htab hlen hag hdum
        have htab2 := htab.of_ext (same_emit _ _).ext
        cases fuel with
        | zero => simp [evalCore]
        | succ n =>
          obtain ⟨hok1, herr1⟩ := hd1 K n (by omega) fn upv fv h ρ stk hseg.left (htab2.of_ext hxr) hlen hag hdum
          simp only [evalCore]
          cases he1 : evalList n ρ args with
          | error err =>
            refine ⟨fun v hv => by simp at hv, fun he => ?_⟩
            simp at he; subst he
            exact herr1 he1
          | ok vs =>
            refine ⟨fun v hv => ⟨[], rfl, ?_⟩, fun he => by simp at he⟩
            simp at hv; subst hv
            have hvl := evalList_length n ρ args vs he1
            have hr : fn.records[((compileArgs seIdx args b st).2.addRecord names).1]? = some names :=
              prefix_getElem? htab2.2.2 hget
            have := (hok1 vs he1).trans (Exec.step hseg.right.head
              (step_constructRecord fn upv _ stk vs h _ args.length names hvl hr))
            exact Done.of_exec (by simpa [Nat.add_assoc] using this)
    | .variant none, hF => simp [inF] at hF
  | .letRec _ _, hF => by simp [inF] at hF
  | .match_ s alts, hF => by
    simp only [inF, Bool.and_eq_true] at hF
    obtain ⟨⟨hsF, haF⟩, hshape⟩ := hF
    have hws := wrap_of_body (body_spec seIdx Φ s hsF)
    have has := alts_spec seIdx Φ alts haF
    by_cases hall : alts.all (fun a => !isRec a.1) = true
    · refine match_spec hws (inAlts_patOk Φ alts haF) (fun a ha => ?_) has
      have := List.all_eq_true.mp hall a ha
      simpa using this
    · have hone : alts.length = 1 := by
        simp only [Bool.or_eq_true, beq_iff_eq] at hshape
        rcases hshape with h | h
        · exact absurd h hall
        · exact h
      match alts, hone, haF, has, hall with
      | [(p, e)], _, haF, has, hall =>
        have hr : isRec p = true := by
          cases hp : isRec p with
          | true => rfl
          | false => simp [hp] at hall
        exact match_spec_record hws (inAlts_patOk Φ _ haF (p, e) (by simp)) hr has
theorem alts_spec (seIdx : Nat) (Φ : List (Sym × Nat)) : ∀ (alts : List (Pat × Expr)),
    inAlts Φ alts = true → AltsSpec seIdx Φ alts
  | [], _ => alts_nil seIdx Φ
  | (p, e) :: alts, hF => by
    simp only [inAlts, Bool.and_eq_true] at hF
    exact alts_cons hF.1.1.1 hF.1.1.2 (wrap_of_body (body_spec seIdx Φ e hF.1.2))
      (alts_spec seIdx Φ alts hF.2)
theorem args_spec (seIdx : Nat) (Φ : List (Sym × Nat)) : ∀ (es : List Expr), inFs Φ es = true →
    ArgsSpec seIdx Φ es
  | [], _ => args_nil seIdx Φ
  | e :: es, hF => by
    simp only [inFs, Bool.and_eq_true] at hF
    exact args_cons (wrap_of_body (body_spec seIdx Φ e hF.1)) (args_spec seIdx Φ es hF.2)
end

/-! ### From frames to the whole machine -/

theorem run_succ (n : Nat) (s : State) :
    run (n + 1) s = (match step s with
      | .running s' => run n s'
      | .done v h => .ok (v, h)
      | .err e => .error e) := rfl

theorem step_of_local {s : State} {fr : Frame} {rest : List Frame} {fn : Fn} {upv : List Val}
    {pc' : Nat} {loc' : List Val} {h' : Heap}
    (hf : s.frames = fr :: rest) (hc : s.heap.clos[fr.clos]? = some (fn, upv))
    (hs : stepLocal fn upv fr.pc (s.stack.drop fr.offset) s.heap = .next pc' loc' h') :
    step s = .running { stack := s.stack.take fr.offset ++ loc',
                        frames := { fr with pc := pc' } :: rest, heap := h' } := by
  simp [step, hf, hc, hs]

theorem step_of_local_err {s : State} {fr : Frame} {rest : List Frame} {fn : Fn} {upv : List Val}
    {e : Err}
    (hf : s.frames = fr :: rest) (hc : s.heap.clos[fr.clos]? = some (fn, upv))
    (hs : stepLocal fn upv fr.pc (s.stack.drop fr.offset) s.heap = .err e) :
    step s = .err e := by
  simp [step, hf, hc, hs]

/-- `Call n`, exact arity: a frame for the callee is pushed (thread.rs :2183, :2752, :2711) -/
theorem step_call {fn g : Fn} {upv gupv : List Val} {h : Heap} {pc id : Nat}
    {below stk args : List Val} {fr : Frame} {rest : List Frame}
    (ho : fr.offset = below.length)
    (hc : h.clos[fr.clos]? = some (fn, upv)) (hi : fn.instrs[pc]? = some (.call args.length))
    (hg : h.clos[id]? = some (g, gupv)) (hn : g.args = args.length) :
    step ⟨below ++ (stk ++ [Val.cref id] ++ args), ({ fr with pc := pc } : Frame) :: rest, h⟩ =
      .running ⟨below ++ stk ++ [Val.cref id] ++ args,
        (⟨(below ++ stk ++ [Val.cref id]).length, false, id, 0⟩ : Frame) ::
          ({ fr with pc := pc + 1 } : Frame) :: rest, h⟩ := by
  have hidx : (below ++ (stk ++ [Val.cref id] ++ args))[(below ++ (stk ++ [Val.cref id] ++ args)).length - 1 - args.length]?
      = some (Val.cref id) := by
    have : (below ++ (stk ++ [Val.cref id] ++ args)).length - 1 - args.length = (below ++ stk).length := by
      simp; omega
    have e1 : below ++ (stk ++ [Val.cref id] ++ args) = (below ++ stk) ++ (Val.cref id :: args) := by
      simp
    rw [this, e1, List.getElem?_append_right (Nat.le_refl _)]
    simp
  have hlen : ¬ ((below ++ (stk ++ [Val.cref id] ++ args)).length < args.length + 1) := by simp; omega
  simp only [step, hc, stepLocal, hi, stepInstr, doCall, hlen, if_false, hidx, calleeOf, hg,
    Option.map_some, callWith, Callee.args, hn, Nat.lt_irrefl, if_true]
  simp [ho, ← List.append_assoc]

/-- `Return` (thread.rs :2527): the result slides over the frame and the function slot -/
theorem step_ret {g : Fn} {gupv : List Val} {h : Heap} {pcR id : Nat}
    {below s : List Val} {v : Val} {frames : List Frame}
    (hg : h.clos[id]? = some (g, gupv)) (hret : g.instrs[pcR]? = some .ret) :
    step ⟨below ++ [Val.cref id] ++ (s ++ [v]),
        (⟨(below ++ [Val.cref id]).length, false, id, pcR⟩ : Frame) :: frames, h⟩ =
      .running ⟨below ++ [v], frames, h⟩ := by
  have hd : List.drop (below ++ [Val.cref id]).length (below ++ [Val.cref id] ++ (s ++ [v]))
      = s ++ [v] := by simp
  have hp : popN (below ++ [Val.cref id] ++ (s ++ [v])) ((s ++ [v]).length + 1) = below := by
    have : below ++ [Val.cref id] ++ (s ++ [v]) = below ++ ([Val.cref id] ++ (s ++ [v])) := by simp
    rw [this]
    exact popN_append _ _ _ (by simp)
  have hst : below ++ [Val.cref id] ++ (s ++ [v]) = (below ++ [Val.cref id] ++ s) ++ [v] := by simp
  have hgl : (below ++ [Val.cref id] ++ (s ++ [v])).getLast? = some v := by
    rw [hst]; exact getLast?_snoc _ v
  have hlen : ¬ ((below ++ [Val.cref id] ++ (s ++ [v])).length < (s ++ [v]).length + 1) := by
    simp
  simp only [step, hg, stepLocal, hd, hret, stepInstr, hlen, if_false, hgl, hp]
  simp

/-- `TailCall n`, exact arity, frame without excess arguments (thread.rs :2188): the frame and
    its function slot are removed, the callee gets a frame in their place -/
theorem step_tailCall {fn g : Fn} {upv gupv : List Val} {h : Heap} {pc id id' : Nat}
    {below s args : List Val} {frames : List Frame}
    (hc : h.clos[id]? = some (fn, upv)) (hi : fn.instrs[pc]? = some (.tailCall args.length))
    (hg : h.clos[id']? = some (g, gupv)) (hn : g.args = args.length) :
    step ⟨below ++ [Val.cref id] ++ (s ++ [Val.cref id'] ++ args),
        (⟨(below ++ [Val.cref id]).length, false, id, pc⟩ : Frame) :: frames, h⟩ =
      .running ⟨below ++ [Val.cref id'] ++ args,
        (⟨(below ++ [Val.cref id']).length, false, id', 0⟩ : Frame) :: frames, h⟩ := by
  have hd : List.drop (below ++ [Val.cref id]).length
      (below ++ [Val.cref id] ++ (s ++ [Val.cref id'] ++ args)) = s ++ [Val.cref id'] ++ args := by simp
  have hl1 : ¬ ((s ++ [Val.cref id'] ++ args).length < args.length + 1) := by simp
  have hstk : List.take ((below ++ [Val.cref id] ++ (s ++ [Val.cref id'] ++ args)).length - args.length - 1 -
        ((s ++ [Val.cref id'] ++ args).length - args.length))
      (below ++ [Val.cref id] ++ (s ++ [Val.cref id'] ++ args)) ++
      List.drop ((below ++ [Val.cref id] ++ (s ++ [Val.cref id'] ++ args)).length - args.length - 1)
      (below ++ [Val.cref id] ++ (s ++ [Val.cref id'] ++ args)) = below ++ (Val.cref id' :: args) := by
    have e1 : (below ++ [Val.cref id] ++ (s ++ [Val.cref id'] ++ args)).length - args.length - 1 =
        (below ++ [Val.cref id] ++ s).length := by simp; omega
    have e2 : (below ++ [Val.cref id] ++ (s ++ [Val.cref id'] ++ args)).length - args.length - 1 -
        ((s ++ [Val.cref id'] ++ args).length - args.length) = below.length := by simp; omega
    have e3 : below ++ [Val.cref id] ++ (s ++ [Val.cref id'] ++ args) =
        (below ++ [Val.cref id] ++ s) ++ (Val.cref id' :: args) := by simp
    rw [e2, e1]
    congr 1
    · rw [show below ++ [Val.cref id] ++ (s ++ [Val.cref id'] ++ args) =
          below ++ ([Val.cref id] ++ (s ++ [Val.cref id'] ++ args)) by simp]
      exact List.take_left' rfl
    · rw [e3]; exact List.drop_left' rfl
  have hidx : (below ++ (Val.cref id' :: args))[(below ++ (Val.cref id' :: args)).length - 1 - args.length]?
      = some (Val.cref id') := by
    have : (below ++ (Val.cref id' :: args)).length - 1 - args.length = below.length := by simp
    rw [this, List.getElem?_append_right (Nat.le_refl _)]
    simp
  have hl2 : ¬ ((below ++ (Val.cref id' :: args)).length < args.length + 1) := by simp
  simp only [step, hc, stepLocal, hd, hi, stepInstr, hl1, if_false, Bool.false_eq_true, hstk,
    doCall, hl2, hidx, calleeOf, hg, Option.map_some, callWith, Callee.args, hn, Nat.lt_irrefl,
    if_true]
  simp
  omega

mutual
/-- A derivation of `Exec` is a run of the whole machine, in any frame of a closure of that
    function, whatever lies below the frame on the value stack and in the frame list. -/
theorem run_of_exec {fn : Fn} {upv : List Val} {h : Heap} {pc : Nat} {stk : List Val} {pc' : Nat}
    {stk' : List Val} : Exec fn upv h pc stk pc' stk' →
    ∀ (below : List Val) (fr : Frame) (rest : List Frame), fr.offset = below.length →
      h.clos[fr.clos]? = some (fn, upv) →
      ∃ n, ∀ m,
        run (n + m) ⟨below ++ stk, ({ fr with pc := pc } : Frame) :: rest, h⟩ =
        run m ⟨below ++ stk', ({ fr with pc := pc' } : Frame) :: rest, h⟩
  | .refl _ _, _, _, _, _, _ => ⟨0, by simp⟩
  | .cons (pc₁ := pc₁) (stk₁ := stk₁) hs a, below, fr, rest, ho, hc => by
    obtain ⟨n, hn⟩ := run_of_exec a below fr rest ho hc
    refine ⟨n + 1, fun m => ?_⟩
    have hstep := step_of_local (s := ⟨below ++ stk, { fr with pc := pc } :: rest, h⟩)
      (fr := { fr with pc := pc }) (rest := rest) rfl hc (by simpa [ho] using hs)
    rw [Nat.add_right_comm, run_succ, hstep]
    simpa [ho] using hn m
  | .call (stk := stk₀) (id := id) (args := args) (g := g) (gupv := gupv) (v := v) hi hg hn hr a,
      below, fr, rest, ho, hc => by
    obtain ⟨n₁, h₁⟩ := run_of_returns hr (below ++ stk₀) id (({ fr with pc := pc + 1 } : Frame) :: rest) hg
    obtain ⟨n₂, h₂⟩ := run_of_exec a below fr rest ho hc
    refine ⟨n₁ + n₂ + 1, fun m => ?_⟩
    have hstep := step_call (below := below) (stk := stk₀) (args := args) (rest := rest) (pc := pc)
      ho hc hi hg hn
    have e1 : run (n₁ + n₂ + 1 + m)
        ⟨below ++ (stk₀ ++ [Val.cref id] ++ args), ({ fr with pc := pc } : Frame) :: rest, h⟩ =
        run (n₁ + (n₂ + m)) ⟨below ++ stk₀ ++ [Val.cref id] ++ args,
          (⟨(below ++ stk₀ ++ [Val.cref id]).length, false, id, 0⟩ : Frame) ::
            ({ fr with pc := pc + 1 } : Frame) :: rest, h⟩ := by
      rw [show n₁ + n₂ + 1 + m = (n₁ + (n₂ + m)) + 1 by omega, run_succ, hstep]
    refine e1.trans ((h₁ (n₂ + m)).trans ?_)
    have := h₂ m
    simpa [List.append_assoc] using this
/-- A derivation of `Returns` is a run of the whole machine from the callee's fresh frame to the
    moment its caller has the result in place of function and arguments. -/
theorem run_of_returns {g : Fn} {gupv : List Val} {h : Heap} {args : List Val} {v : Val} :
    Returns g gupv h args v →
    ∀ (below : List Val) (id : Nat) (frames : List Frame), h.clos[id]? = some (g, gupv) →
      ∃ n, ∀ m,
        run (n + m) ⟨below ++ [Val.cref id] ++ args,
            (⟨(below ++ [Val.cref id]).length, false, id, 0⟩ : Frame) :: frames, h⟩ =
        run m ⟨below ++ [v], frames, h⟩
  | .ret (pcR := pcR) (s := s) a hret, below, id, frames, hg => by
    obtain ⟨n, hn⟩ := run_of_exec a (below ++ [Val.cref id])
      ⟨(below ++ [Val.cref id]).length, false, id, 0⟩ frames rfl hg
    refine ⟨n + 1, fun m => ?_⟩
    have hs := step_ret (below := below) (s := s) (v := v) (frames := frames) hg hret
    have e1 : run (n + 1 + m) ⟨below ++ [Val.cref id] ++ args,
          (⟨(below ++ [Val.cref id]).length, false, id, 0⟩ : Frame) :: frames, h⟩ =
        run (m + 1) ⟨below ++ [Val.cref id] ++ (s ++ [v]),
          (⟨(below ++ [Val.cref id]).length, false, id, pcR⟩ : Frame) :: frames, h⟩ := by
      rw [show n + 1 + m = n + (m + 1) by omega]
      exact hn (m + 1)
    rw [e1, run_succ, hs]
  | .tail (pc' := pc') (s := s) (id := id') (args' := args') (g' := g') (gupv' := gupv') a hi hg' hn hr,
      below, id, frames, hg => by
    obtain ⟨n₁, h₁⟩ := run_of_exec a (below ++ [Val.cref id])
      ⟨(below ++ [Val.cref id]).length, false, id, 0⟩ frames rfl hg
    obtain ⟨n₂, h₂⟩ := run_of_returns hr below id' frames hg'
    refine ⟨n₁ + n₂ + 1, fun m => ?_⟩
    have hs := step_tailCall (below := below) (s := s) (args := args') (frames := frames) (pc := pc')
      hg hi hg' hn
    have e1 : run (n₁ + n₂ + 1 + m) ⟨below ++ [Val.cref id] ++ args,
          (⟨(below ++ [Val.cref id]).length, false, id, 0⟩ : Frame) :: frames, h⟩ =
        run ((n₂ + m) + 1) ⟨below ++ [Val.cref id] ++ (s ++ [Val.cref id'] ++ args'),
          (⟨(below ++ [Val.cref id]).length, false, id, pc'⟩ : Frame) :: frames, h⟩ := by
      rw [show n₁ + n₂ + 1 + m = n₁ + ((n₂ + m) + 1) by omega]
      exact h₁ ((n₂ + m) + 1)
    rw [e1, run_succ, hs]
    exact h₂ m
end

/-- A failing frame makes the whole machine fail with the same error. -/
theorem run_of_execErr {fn : Fn} {upv : List Val} {h : Heap} {pc : Nat} {stk : List Val} {e : Err} :
    ExecErr fn upv h pc stk e →
    ∀ (below : List Val) (id : Nat) (frames : List Frame), h.clos[id]? = some (fn, upv) →
      ∃ n, ∀ m,
        run (n + m) ⟨below ++ [Val.cref id] ++ stk,
            (⟨(below ++ [Val.cref id]).length, false, id, pc⟩ : Frame) :: frames, h⟩ = .error e
  | .here (pc' := pc') (stk' := stk') a herr, below, id, frames, hc => by
    obtain ⟨n, hn⟩ := run_of_exec a (below ++ [Val.cref id])
      ⟨(below ++ [Val.cref id]).length, false, id, 0⟩ frames rfl hc
    refine ⟨n + 1, fun m => ?_⟩
    have hstep := step_of_local_err (s := ⟨below ++ [Val.cref id] ++ stk',
        (⟨(below ++ [Val.cref id]).length, false, id, pc'⟩ : Frame) :: frames, h⟩)
      (fr := ⟨(below ++ [Val.cref id]).length, false, id, pc'⟩) (rest := frames) rfl hc
      (by simpa using herr)
    have e1 : run (n + 1 + m) ⟨below ++ [Val.cref id] ++ stk,
          (⟨(below ++ [Val.cref id]).length, false, id, pc⟩ : Frame) :: frames, h⟩ =
        run (m + 1) ⟨below ++ [Val.cref id] ++ stk',
          (⟨(below ++ [Val.cref id]).length, false, id, pc'⟩ : Frame) :: frames, h⟩ := by
      rw [show n + 1 + m = n + (m + 1) by omega]
      exact hn (m + 1)
    rw [e1, run_succ, hstep]
  | .incall (pc' := pc') (s := s) (id := id') (args := args) (g := g) (gupv := gupv) a hi hg hn he,
      below, id, frames, hc => by
    obtain ⟨n₁, h₁⟩ := run_of_exec a (below ++ [Val.cref id])
      ⟨(below ++ [Val.cref id]).length, false, id, 0⟩ frames rfl hc
    rcases hi with hi | hi
    · obtain ⟨n₂, h₂⟩ := run_of_execErr he (below ++ [Val.cref id] ++ s) id'
        ((⟨(below ++ [Val.cref id]).length, false, id, pc' + 1⟩ : Frame) :: frames) hg
      refine ⟨n₁ + n₂ + 1, fun m => ?_⟩
      have hs := step_call (below := below ++ [Val.cref id]) (stk := s) (args := args)
        (fr := ⟨(below ++ [Val.cref id]).length, false, id, 0⟩) (rest := frames) (pc := pc')
        rfl hc hi hg hn
      have e1 : run (n₁ + n₂ + 1 + m) ⟨below ++ [Val.cref id] ++ stk,
            (⟨(below ++ [Val.cref id]).length, false, id, pc⟩ : Frame) :: frames, h⟩ =
          run ((n₂ + m) + 1) ⟨below ++ [Val.cref id] ++ (s ++ [Val.cref id'] ++ args),
            (⟨(below ++ [Val.cref id]).length, false, id, pc'⟩ : Frame) :: frames, h⟩ := by
        rw [show n₁ + n₂ + 1 + m = n₁ + ((n₂ + m) + 1) by omega]
        exact h₁ ((n₂ + m) + 1)
      rw [e1, run_succ]
      have hs' : step ⟨below ++ [Val.cref id] ++ (s ++ [Val.cref id'] ++ args),
            (⟨(below ++ [Val.cref id]).length, false, id, pc'⟩ : Frame) :: frames, h⟩ = _ := hs
      rw [hs']
      have := h₂ m
      simpa [List.append_assoc] using this
    · obtain ⟨n₂, h₂⟩ := run_of_execErr he below id' frames hg
      refine ⟨n₁ + n₂ + 1, fun m => ?_⟩
      have hs := step_tailCall (below := below) (s := s) (args := args) (frames := frames) (pc := pc')
        hc hi hg hn
      have e1 : run (n₁ + n₂ + 1 + m) ⟨below ++ [Val.cref id] ++ stk,
            (⟨(below ++ [Val.cref id]).length, false, id, pc⟩ : Frame) :: frames, h⟩ =
          run ((n₂ + m) + 1) ⟨below ++ [Val.cref id] ++ (s ++ [Val.cref id'] ++ args),
            (⟨(below ++ [Val.cref id]).length, false, id, pc'⟩ : Frame) :: frames, h⟩ := by
        rw [show n₁ + n₂ + 1 + m = n₁ + ((n₂ + m) + 1) by omega]
        exact h₁ ((n₂ + m) + 1)
      rw [e1, run_succ, hs]
      exact h₂ m

/-- A module whose function returns `v`: `runModule` answers `v`. -/
theorem runModule_of_returns {main : Fn} {globals : List Val} {v : Val}
    (a : Returns main globals { clos := [(main, globals)], data := [] } [] v) :
    ∃ n, ∀ m, runModule (n + m) main globals = .ok (v, { clos := [(main, globals)], data := [] }) := by
  obtain ⟨n, hn⟩ := run_of_returns a [] 0 [] rfl
  refine ⟨n + 1, fun m => ?_⟩
  have h1 : runModule (n + 1 + m) main globals =
      run (m + 1) ⟨[] ++ [v], [], { clos := [(main, globals)], data := [] }⟩ := by
    rw [show n + 1 + m = n + (m + 1) by omega]
    exact hn (m + 1)
  rw [h1, run_succ]
  simp [step]

theorem runModule_of_execErr {main : Fn} {globals : List Val} {e : Err}
    (a : ExecErr main globals { clos := [(main, globals)], data := [] } 0 [] e) :
    ∃ n, ∀ m, runModule (n + m) main globals = .error e :=
  run_of_execErr a [] 0 [] rfl

/-! ### Closures built by `compile_lambda` are related to their `evalCore` closures -/

/-- **The function `compile_lambda` builds is the closure.** Let `(nm, params, body)` be member
    `idx` of a group `cs`, `body` inside the fragment (relative to `Φ`), and let heap closure `id`
    hold the compiled function together with upvalues that represent the free variables of the
    body (`hup`: by the value itself, or — for function variables — by a related closure). Then
    `clos cs idx env` and `cref id` are related: entered with `params.length` arguments the
    function returns what `evalCore` assigns to the body, or fails as it does. -/
theorem closure_correct (seIdx : Nat) (Φ : List (Sym × Nat)) (cs : Closures) (idx : Nat) (env : Env)
    (nm : Sym) (params : List Sym) (body : Expr) (hcs : cs[idx]? = some (nm, params, body))
    (hF : inF Φ body = true) (hp0 : params.length ≠ 0)
    (hnd : params.contains dummySym = false) (hpf : ∀ a ∈ params, lookupScope Φ a = none)
    (K : Nat) (h : Heap) (id : Nat) (gupv : List Val)
    (hg : h.clos[id]? = some (mkFn params.length (compileE seIdx body true 0 (innerStart params)).1
      (compileE seIdx body true 0 (innerStart params)).2, gupv))
    (hdum : lookup (recEnv cs env) dummySym = none)
    (hup : ∀ x w, lookup (recEnv cs env) x = some w →
      ∀ k, indexOfSym (compileE seIdx body true 0 (innerStart params)).2.freeVars x = some k →
        ∃ v', gupv[k]? = some v' ∧ RV K h Φ x w v') :
    CloRel (K + 1) h params.length (.clos cs idx env) (.cref id) := by
  refine ⟨cs, idx, env, id, _, gupv, nm, params, body, rfl, rfl, hg, hcs, rfl, hp0, rfl, ?_⟩
  intro fuel vs hK hvl
  obtain ⟨hsc, hsz⟩ := pushVars_scopes params { FState.empty with scopes := [[]] } [] [] rfl
  have hsc' : (innerStart params).scopes = (varsOf 0 params ++ []) :: [] := hsc
  have hsz' : (innerStart params).stackSize = params.length := by
    have : (innerStart params).stackSize = 0 + params.length := hsz
    simpa using this
  obtain ⟨_, _, _, hd⟩ := wrap_of_body (body_spec seIdx Φ body hF) true 0 (innerStart params)
  have hbase : Agree K h Φ (compileE seIdx body true 0 (innerStart params)).2.freeVars gupv
      ([] :: []) (recEnv cs env) [] := by
    intro x w hx
    exact Or.inr ⟨rfl, hup x w hx⟩
  have hag := varsOf_agree K h Φ _ gupv params vs [] (recEnv cs env) [] [] hvl.symm hpf hbase
  obtain ⟨hok, herr⟩ := hd K fuel hK (mkFn params.length (compileE seIdx body true 0 (innerStart params)).1
      (compileE seIdx body true 0 (innerStart params)).2) gupv
    (compileE seIdx body true 0 (innerStart params)).2.freeVars h (bindAll params vs (recEnv cs env)) vs
    (by
      intro k hk
      show ((compileE seIdx body true 0 (innerStart params)).1 ++ [Instr.ret])[0 + k]? = _
      rw [Nat.zero_add, List.getElem?_append_left hk])
    ⟨List.prefix_refl _, List.prefix_refl _, List.prefix_refl _⟩
    (by rw [hsz', hvl])
    (by rw [hsc']; simpa using hag)
    (bindAll_dummy params vs _ hnd hdum)
  refine ⟨fun r hr => ?_, herr⟩
  rcases hok r hr with ex | ⟨_, pc', s, id', args', g', gupv', hex, hi, hg', hn', hret⟩
  · refine Returns.ret (s := vs) (by simpa using ex) ?_
    show ((compileE seIdx body true 0 (innerStart params)).1 ++ [Instr.ret])[_]? = _
    simp
  · exact Returns.tail hex hi hg' hn' hret

theorem CloRel.mono {K K' : Nat} {h : Heap} {n : Nat} {v v' : Val} (hle : K' ≤ K)
    (a : CloRel K h n v v') : CloRel K' h n v v' := by
  obtain ⟨cs, idx, env, id, g, gupv, nm, params, body, h1, h2, h3, h4, h5, h6, h7, h8⟩ := a
  exact ⟨cs, idx, env, id, g, gupv, nm, params, body, h1, h2, h3, h4, h5, h6, h7,
    fun fuel vs hf hv => h8 fuel vs (Nat.le_trans hf hle) hv⟩

/-- at fuel 0 nothing is claimed of a closure beyond its shape -/
theorem CloRel.zero (h : Heap) (cs : Closures) (idx : Nat) (env : Env) (id : Nat) (g : Fn)
    (gupv : List Val) (nm : Sym) (params : List Sym) (body : Expr)
    (hg : h.clos[id]? = some (g, gupv)) (hcs : cs[idx]? = some (nm, params, body))
    (hp0 : params.length ≠ 0) (hga : g.args = params.length) :
    CloRel 0 h params.length (.clos cs idx env) (.cref id) := by
  refine ⟨cs, idx, env, id, g, gupv, nm, params, body, rfl, rfl, hg, hcs, rfl, hp0, hga, ?_⟩
  intro fuel vs hf _
  have : fuel = 0 := by omega
  subst this
  simp [evalCore]

/-- **Recursive groups** (the `evalCore` side of `Named::Recursive`). Let every member `i` of
    the group `cs` over `env` have a heap closure `ids i` holding the function `compile_lambda`
    builds for it, with upvalues that represent the free variables of its body: the members of
    the group by each other's heap closures (this is what `NewClosure … CloseClosure` set up),
    the other variables as `hout` says, at every fuel. If all bodies are in the fragment
    relative to a `Φ` that lists the members with their arities, then every member is related to
    its heap closure at every fuel `K` — by induction on `K`: a recursive call at fuel `K+1`
    only needs the relation at `K`. -/
theorem rec_group_correct (seIdx : Nat) (Φ : List (Sym × Nat)) (cs : Closures) (env : Env)
    (h : Heap) (ids : Nat → Nat) (ups : Nat → List Val)
    (hmem : ∀ i nm params body, cs[i]? = some (nm, params, body) →
      inF Φ body = true ∧ params.length ≠ 0 ∧ params.contains dummySym = false ∧
      (∀ a ∈ params, lookupScope Φ a = none) ∧
      h.clos[ids i]? = some (mkFn params.length (compileE seIdx body true 0 (innerStart params)).1
        (compileE seIdx body true 0 (innerStart params)).2, ups i))
    (hdum : lookup (recEnv cs env) dummySym = none)
    (hup : ∀ (K : Nat), (∀ i nm params body, cs[i]? = some (nm, params, body) →
        CloRel K h params.length (.clos cs i env) (.cref (ids i))) →
      ∀ i nm params body, cs[i]? = some (nm, params, body) →
      ∀ x w, lookup (recEnv cs env) x = some w →
      ∀ k, indexOfSym (compileE seIdx body true 0 (innerStart params)).2.freeVars x = some k →
        ∃ v', (ups i)[k]? = some v' ∧ RV K h Φ x w v') :
    ∀ (K : Nat) i nm params body, cs[i]? = some (nm, params, body) →
      CloRel K h params.length (.clos cs i env) (.cref (ids i)) := by
  intro K
  induction K with
  | zero =>
    intro i nm params body hi
    obtain ⟨_, hp0, _, _, hg⟩ := hmem i nm params body hi
    exact CloRel.zero h cs i env (ids i) _ (ups i) nm params body hg hi hp0 rfl
  | succ K ih =>
    intro i nm params body hi
    obtain ⟨hF, hp0, hnd, hpf, hg⟩ := hmem i nm params body hi
    exact closure_correct seIdx Φ cs i env nm params body hi hF hp0 hnd hpf K h (ids i) (ups i) hg
      hdum (hup K ih i nm params body hi)

end GluonModel.Proofs.Compile
