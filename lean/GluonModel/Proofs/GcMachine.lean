/-
Every reachable state of the operation machine (`GluonModel.GcMachine`) satisfies the heap
invariant — as long as no module value holding a mutable cell is promoted (defect D1).
-/
import GluonModel.GcHeap
import GluonModel.GcMachine
import GluonModel.Proofs.GcHeap
import GluonModel.Proofs.GcHeapTotal

namespace GluonModel.GcHeap

/-- Per-object conditions: homed (cells live in the heap of their thread), bytecode only in the
    global heap, string arrays only with the repaired cloner. -/
def ObjOK (fixed : Bool) (o : Obj) : Prop :=
  (o.kind ≠ .thread → o.home = o.owner) ∧ (o.kind = .code → o.owner = []) ∧
    (o.kind = .shallow → fixed = true) ∧ (o.kind = .thread → o.owner <+: o.home)

/-- The invariant of the machine. -/
structure Good (fixed : Bool) (s : State) : Prop where
  wf : WF s
  inv : Inv s
  nd : NoDangling s
  objs : ∀ i o, s.obj i = some o → ObjOK fixed o
  groots : ∀ p, p ∈ s.groots → p < s.next ∧ ∀ op, s.obj p = some op → op.owner = []

theorem Good.homed {fixed : Bool} {s : State} (g : Good fixed s) : Homed s :=
  fun q oq hq hk => (g.objs q oq hq).1 hk

theorem Good.grootsGlobal {fixed : Bool} {s : State} (g : Good fixed s) : GRootsGlobal s :=
  fun p op hp ho => (g.groots p hp).2 op ho

theorem holds_spec {s : State} {t : HeapId} {x : Nat} (h : holds s t x = true) :
    ∃ o, s.obj x = some o ∧ o.owner <+: t := by
  unfold holds at h
  cases ho : s.obj x with
  | none => simp [ho] at h
  | some o => simp only [ho] at h; exact ⟨o, rfl, List.isPrefixOf_iff_prefix.mp h⟩

/-! ### push -/

theorem push_old {s : State} (hwf : WF s) (o : Obj) {i : Nat} {oi : Obj}
    (h : s.obj i = some oi) : (s.push o).obj i = some oi := by
  rw [(Ext.push hwf o).2 i (hwf.lt h)]; exact h

theorem push_cases {s : State} (o : Obj) {i : Nat} {oi : Obj} (h : (s.push o).obj i = some oi) :
    (i = s.next ∧ oi = o) ∨ (i ≠ s.next ∧ s.obj i = some oi) := by
  simp only [State.push] at h
  by_cases hi : i = s.next
  · left; simp [hi] at h; exact ⟨hi, h.symm⟩
  · right; simp [hi] at h; exact ⟨hi, h⟩

theorem good_push {fixed : Bool} {s : State} (g : Good fixed s) (o : Obj)
    (hedges : ∀ e ∈ o.edges, ∃ oe, s.obj e = some oe ∧ oe.owner <+: o.home)
    (hok : ObjOK fixed o) : Good fixed (s.push o) := by
  refine ⟨g.wf.push o, ?_, ?_, ?_, ?_⟩
  · intro q oq p op hq he hp
    rcases push_cases o hq with ⟨_, hoq⟩ | ⟨_, hq'⟩
    · rw [hoq] at he ⊢
      obtain ⟨oe, hoe, hpre⟩ := hedges p he
      rw [push_old g.wf o hoe] at hp; cases hp; exact hpre
    · obtain ⟨op0, hp0⟩ := g.nd q oq hq' p he
      rw [push_old g.wf o hp0] at hp; cases hp
      exact g.inv q oq p op hq' he hp0
  · intro q oq hq e he
    rcases push_cases o hq with ⟨_, hoq⟩ | ⟨_, hq'⟩
    · rw [hoq] at he
      obtain ⟨oe, hoe, _⟩ := hedges e he
      exact ⟨oe, push_old g.wf o hoe⟩
    · obtain ⟨oe, hoe⟩ := g.nd q oq hq' e he
      exact ⟨oe, push_old g.wf o hoe⟩
  · intro i oi hi
    rcases push_cases o hi with ⟨_, hoi⟩ | ⟨_, hi'⟩
    · rw [hoi]; exact hok
    · exact g.objs i oi hi'
  · intro p hp
    have hp' : p ∈ s.groots := hp
    obtain ⟨hlt, hown⟩ := g.groots p hp'
    refine ⟨by simp only [State.push]; omega, ?_⟩
    intro op hop
    rcases push_cases o hop with ⟨h1, _⟩ | ⟨_, h2⟩
    · omega
    · exact hown op h2

/-! ### root lists -/

theorem good_addRoot {fixed : Bool} {s : State} {t : HeapId} {r : Nat} (g : Good fixed s)
    (hr : OKo s t r) : Good fixed (addRoot s t r) := by
  refine ⟨addRoot_wf g.wf, addRoot_inv g.inv hr, ?_, ?_, ?_⟩
  · intro q oq hq e he
    obtain ⟨oq0, hq0, _, _, _, hqe⟩ := addRoot_obj hq
    have hlive : ∃ oe, s.obj e = some oe := by
      rcases hqe with hqe | ⟨hqe, _, _⟩
      · rw [hqe] at he; exact g.nd q oq0 hq0 e he
      · rw [hqe] at he
        rcases List.mem_cons.mp he with he | he
        · subst he; obtain ⟨orr, hor, _⟩ := hr; exact ⟨orr, hor⟩
        · exact g.nd q oq0 hq0 e he
    obtain ⟨oe, hoe⟩ := hlive
    have : (addRoot s t r).obj e = addRootObj s t r e := rfl
    unfold addRootObj at this
    rw [hoe] at this
    by_cases hc : oe.kind = .thread ∧ oe.home = t
    · simp only [if_pos hc] at this; exact ⟨_, this⟩
    · simp only [if_neg hc] at this; exact ⟨_, this⟩
  · intro i oi hi
    obtain ⟨o0, h0, ho, hh, hk, _⟩ := addRoot_obj hi
    obtain ⟨a, b, c, d⟩ := g.objs i o0 h0
    exact ⟨by rw [hk, hh, ho]; exact a, by rw [hk, ho]; exact b, by rw [hk]; exact c,
      by rw [hk, hh, ho]; exact d⟩
  · intro p hp
    have hp' : p ∈ s.groots := hp
    obtain ⟨hlt, hown⟩ := g.groots p hp'
    refine ⟨hlt, ?_⟩
    intro op hop
    obtain ⟨o0, h0, ho, _, _, _⟩ := addRoot_obj hop
    rw [ho]; exact hown o0 h0

theorem mapRoots_obj {s : State} {t : HeapId} {f : List Nat → List Nat} {i : Nat} {o : Obj}
    (h : (mapRoots s t f).obj i = some o) :
    ∃ o0, s.obj i = some o0 ∧ o.owner = o0.owner ∧ o.home = o0.home ∧ o.kind = o0.kind ∧
      (o.edges = o0.edges ∨ o.edges = f o0.edges) := by
  have h' : mapRootsObj s t f i = some o := h
  unfold mapRootsObj at h'
  cases ho : s.obj i with
  | none => simp [ho] at h'
  | some o0 =>
    simp only [ho] at h'
    by_cases hc : o0.kind = .thread ∧ o0.home = t
    · rw [if_pos hc] at h'
      have e := Option.some.inj h'
      subst e
      exact ⟨o0, rfl, rfl, rfl, rfl, Or.inr rfl⟩
    · rw [if_neg hc] at h'
      have e := Option.some.inj h'
      subst e
      exact ⟨o0, rfl, rfl, rfl, rfl, Or.inl rfl⟩

theorem mapRoots_live {s : State} {t : HeapId} {f : List Nat → List Nat} {i : Nat} {o0 : Obj}
    (h : s.obj i = some o0) : ∃ o, (mapRoots s t f).obj i = some o := by
  have : (mapRoots s t f).obj i = mapRootsObj s t f i := rfl
  unfold mapRootsObj at this
  rw [h] at this
  by_cases hc : o0.kind = .thread ∧ o0.home = t
  · simp only [if_pos hc] at this; exact ⟨_, this⟩
  · simp only [if_neg hc] at this; exact ⟨_, this⟩

/-- Shrinking the root list of a thread keeps the invariant. -/
theorem good_mapRoots {fixed : Bool} {s : State} {t : HeapId} {f : List Nat → List Nat}
    (g : Good fixed s) (hf : ∀ l x, x ∈ f l → x ∈ l) : Good fixed (mapRoots s t f) := by
  have hsub : ∀ {o o0 : Obj}, (o.edges = o0.edges ∨ o.edges = f o0.edges) → ∀ e, e ∈ o.edges →
      e ∈ o0.edges := by
    intro o o0 h e he
    rcases h with h | h
    · rw [h] at he; exact he
    · rw [h] at he; exact hf _ _ he
  refine ⟨?_, ?_, ?_, ?_, ?_⟩
  · intro i hi
    show mapRootsObj s t f i = none
    unfold mapRootsObj; rw [g.wf i hi]
  · intro q oq p op hq he hp
    obtain ⟨oq0, hq0, _, hqh, _, hqe⟩ := mapRoots_obj hq
    obtain ⟨op0, hp0, hpo, _, _, _⟩ := mapRoots_obj hp
    rw [hpo, hqh]
    exact g.inv q oq0 p op0 hq0 (hsub hqe p he) hp0
  · intro q oq hq e he
    obtain ⟨oq0, hq0, _, _, _, hqe⟩ := mapRoots_obj hq
    obtain ⟨oe, hoe⟩ := g.nd q oq0 hq0 e (hsub hqe e he)
    exact mapRoots_live hoe
  · intro i oi hi
    obtain ⟨o0, h0, ho, hh, hk, _⟩ := mapRoots_obj hi
    obtain ⟨a, b, c, d⟩ := g.objs i o0 h0
    exact ⟨by rw [hk, hh, ho]; exact a, by rw [hk, ho]; exact b, by rw [hk]; exact c,
      by rw [hk, hh, ho]; exact d⟩
  · intro p hp
    have hp' : p ∈ s.groots := hp
    obtain ⟨hlt, hown⟩ := g.groots p hp'
    refine ⟨hlt, ?_⟩
    intro op hop
    obtain ⟨o0, h0, ho, _, _, _⟩ := mapRoots_obj hop
    rw [ho]; exact hown o0 h0

/-! ### setEdges -/

theorem setEdges_obj {s : State} {n : Nat} {es : List Nat} {i : Nat} {o : Obj}
    (h : (s.setEdges n es).obj i = some o) :
    ∃ o0, s.obj i = some o0 ∧ o.owner = o0.owner ∧ o.home = o0.home ∧ o.kind = o0.kind ∧
      ((i ≠ n ∧ o.edges = o0.edges) ∨ (i = n ∧ o.edges = es)) := by
  simp only [State.setEdges] at h
  by_cases hi : i = n
  · subst hi
    simp only [if_true] at h
    cases ho : s.obj i with
    | none => simp [ho] at h
    | some o0 =>
      simp only [ho, Option.map_some, Option.some.injEq] at h
      subst h
      exact ⟨o0, rfl, rfl, rfl, rfl, Or.inr ⟨rfl, rfl⟩⟩
  · simp only [hi, if_false] at h
    exact ⟨o, h, rfl, rfl, rfl, Or.inl ⟨hi, rfl⟩⟩

theorem setEdges_live {s : State} {n : Nat} {es : List Nat} {i : Nat} {o0 : Obj}
    (h : s.obj i = some o0) : ∃ o, (s.setEdges n es).obj i = some o := by
  simp only [State.setEdges]
  by_cases hi : i = n
  · subst hi; simp [h]
  · simp [hi, h]

theorem good_setEdges {fixed : Bool} {s : State} {n : Nat} {on : Obj} {es : List Nat}
    (g : Good fixed s) (hn : s.obj n = some on)
    (hes : ∀ e ∈ es, ∃ oe, s.obj e = some oe ∧ oe.owner <+: on.home) :
    Good fixed (s.setEdges n es) := by
  refine ⟨g.wf.setEdges n es, ?_, ?_, ?_, ?_⟩
  · intro q oq p op hq he hp
    obtain ⟨oq0, hq0, _, hqh, _, hqe⟩ := setEdges_obj hq
    obtain ⟨op0, hp0, hpo, _, _, _⟩ := setEdges_obj hp
    rw [hpo, hqh]
    rcases hqe with ⟨_, hqe⟩ | ⟨hqn, hqe⟩
    · rw [hqe] at he; exact g.inv q oq0 p op0 hq0 he hp0
    · subst hqn
      rw [hqe] at he
      obtain ⟨oe, hoe, hpre⟩ := hes p he
      rw [hoe] at hp0; cases hp0
      rw [hn] at hq0; cases hq0
      exact hpre
  · intro q oq hq e he
    obtain ⟨oq0, hq0, _, _, _, hqe⟩ := setEdges_obj hq
    rcases hqe with ⟨_, hqe⟩ | ⟨_, hqe⟩
    · rw [hqe] at he
      obtain ⟨oe, hoe⟩ := g.nd q oq0 hq0 e he
      exact setEdges_live hoe
    · rw [hqe] at he
      obtain ⟨oe, hoe, _⟩ := hes e he
      exact setEdges_live hoe
  · intro i oi hi
    obtain ⟨o0, h0, ho, hh, hk, _⟩ := setEdges_obj hi
    obtain ⟨a, b, c, d⟩ := g.objs i o0 h0
    exact ⟨by rw [hk, hh, ho]; exact a, by rw [hk, ho]; exact b, by rw [hk]; exact c,
      by rw [hk, hh, ho]; exact d⟩
  · intro p hp
    have hp' : p ∈ s.groots := hp
    obtain ⟨hlt, hown⟩ := g.groots p hp'
    refine ⟨hlt, ?_⟩
    intro op hop
    obtain ⟨o0, h0, ho, _, _, _⟩ := setEdges_obj hop
    rw [ho]; exact hown o0 h0

/-! ### collect -/

theorem collect_survivor_marked {s s' : State} {t : HeapId} (hc : collect s t = some s')
    {q : Nat} {oq : Obj} (hq : s'.obj q = some oq) (hin : t <+: oq.owner) :
    ∃ m, mark s t = some m ∧ q ∈ m := by
  obtain ⟨m, hm, rfl⟩ := collect_obj hc
  refine ⟨m, hm, ?_⟩
  have hq' : sweepObj s t m q = some oq := hq
  unfold sweepObj at hq'
  cases ho : s.obj q with
  | none => simp [ho] at hq'
  | some o =>
    simp only [ho] at hq'
    split at hq'
    · cases hq'
    · rename_i hcnd
      cases hq'
      have hcnd' := hcnd
      simp at hcnd'
      exact hcnd' hin

theorem collect_marked_survives {s s' : State} {t : HeapId} {m : List Nat}
    (hc : collect s t = some s') (hm : mark s t = some m) {e : Nat} {oe : Obj}
    (he : e ∈ m) (hoe : s.obj e = some oe) : s'.obj e = some oe := by
  obtain ⟨m', hm', rfl⟩ := collect_obj hc
  rw [hm] at hm'; cases hm'
  show sweepObj s t m e = some oe
  unfold sweepObj
  simp [hoe, he]

theorem good_collect {fixed : Bool} {s s' : State} {t : HeapId} (g : Good fixed s)
    (hc : collect s t = some s') : Good fixed s' := by
  have hnext : s'.next = s.next := by
    obtain ⟨m, _, rfl⟩ := collect_obj hc; rfl
  have hgr : s'.groots = s.groots := by
    obtain ⟨m, _, rfl⟩ := collect_obj hc; rfl
  refine ⟨?_, collect_inv hc g.inv, ?_, ?_, ?_⟩
  · intro i hi
    cases h : s'.obj i with
    | none => rfl
    | some o =>
      have := collect_sub hc h
      rw [g.wf i (by omega)] at this; cases this
  · intro q oq hq e he
    have hq0 := collect_sub hc hq
    obtain ⟨oe, hoe⟩ := g.nd q oq hq0 e he
    refine ⟨oe, ?_⟩
    by_cases hin : t <+: oe.owner
    · have hpre : oe.owner <+: oq.home := g.inv q oq e oe hq0 he hoe
      have hskip : skip s t e = false := skip_false_of_inside hoe hin
      by_cases hk : oq.kind = .thread
      · obtain ⟨m, hm⟩ := mark_total' s t g.wf
        have : ReachNS s t e :=
          ReachNS.root (mem_rootsOf.mpr ⟨q, oq, g.wf.lt hq0, hq0, hk, hin.trans hpre, he⟩) hskip
        exact collect_marked_survives hc hm ((mark_spec hm e).mpr this) hoe
      · rw [g.homed q oq hq0 hk] at hpre
        obtain ⟨m, hm, hqm⟩ := collect_survivor_marked hc hq (hin.trans hpre)
        have : ReachNS s t e := ReachNS.step ((mark_spec hm q).mp hqm) hq0 he hskip
        exact collect_marked_survives hc hm ((mark_spec hm e).mpr this) hoe
    · exact collect_other_heaps hc hoe hin
  · intro i oi hi
    exact g.objs i oi (collect_sub hc hi)
  · intro p hp
    rw [hgr] at hp
    obtain ⟨hlt, hown⟩ := g.groots p hp
    exact ⟨by omega, fun op hop => hown op (collect_sub hc hop)⟩

/-! ### the cloner -/

theorem cloneEdges_groots (k : Cl → Nat → Option (Cl × Nat))
    (hk : ∀ c v c' r, k c v = some (c', r) → c'.s.groots = c.s.groots) :
    ∀ (es : List Nat) (c c' : Cl) (rs : List Nat), cloneEdges k c es = some (c', rs) →
      c'.s.groots = c.s.groots := by
  intro es
  induction es with
  | nil => intro c c' rs h; simp [cloneEdges] at h; rw [← h.1]
  | cons e es ih =>
    intro c c' rs h
    simp only [cloneEdges] at h
    cases hke : k c e with
    | none => simp [hke] at h
    | some p1 =>
      obtain ⟨c1, e'⟩ := p1
      simp only [hke] at h
      cases hrest : cloneEdges k c1 es with
      | none => simp [hrest] at h
      | some p2 =>
        obtain ⟨c2, es'⟩ := p2
        simp only [hrest, Option.some.injEq, Prod.mk.injEq] at h
        rw [← h.1, ih c1 c2 es' hrest, hk c e c1 e' hke]

theorem viaVisited_groots (k : Cl → Nat → Option (Cl × Nat))
    (hk : ∀ c v c' r, k c v = some (c', r) → c'.s.groots = c.s.groots)
    {dst : HeapId} {c c' : Cl} {v r : Nat} {o : Obj} {kind : Kind} {home : HeapId}
    (h : viaVisited k dst c v o kind home = some (c', r)) : c'.s.groots = c.s.groots := by
  unfold viaVisited at h
  cases hl : lookupVis c.vis v with
  | some n => simp only [hl, Option.some.injEq, Prod.mk.injEq] at h; rw [← h.1]
  | none =>
    simp only [hl] at h
    cases hce : cloneEdges k ⟨c.s.push ⟨dst, home, kind, o.edges⟩, (v, c.s.next) :: c.vis⟩ o.edges with
    | none => simp [hce] at h
    | some p2 =>
      obtain ⟨c2, es⟩ := p2
      simp only [hce, Option.some.injEq, Prod.mk.injEq] at h
      rw [← h.1]
      have := cloneEdges_groots k hk _ _ _ _ hce
      simp only [State.setEdges]
      rw [this]; rfl

theorem cloneVal_groots {dst thr : HeapId} {rgen : Option Nat} {fixed : Bool} :
    ∀ (f : Nat) (ns : Bool) (c : Cl) (v : Nat) (c' : Cl) (r : Nat),
      cloneVal dst thr rgen fixed f ns c v = some (c', r) → c'.s.groots = c.s.groots := by
  intro f
  induction f with
  | zero => intro ns c v c' r h; simp [cloneVal] at h
  | succ f ih =>
    intro ns c v c' r h
    simp only [cloneVal] at h
    split at h
    · simp only [Option.some.injEq, Prod.mk.injEq] at h; rw [← h.1]
    · cases hoc : c.s.obj v with
      | none => simp only [hoc, Option.some.injEq, Prod.mk.injEq] at h; rw [← h.1]
      | some o =>
        simp only [hoc] at h
        cases hk : o.kind with
        | udata => simp [hk] at h
        | thread => simp [hk] at h
        | code => simp only [hk, Option.some.injEq, Prod.mk.injEq] at h; rw [← h.1]
        | plain => simp only [hk] at h; exact viaVisited_groots _ (ih false) h
        | aarr => simp only [hk] at h; exact viaVisited_groots _ (ih (!fixed)) h
        | uarr => simp only [hk] at h; exact viaVisited_groots _ (ih (!fixed)) h
        | shallow =>
          simp only [hk] at h
          cases fixed with
          | true => simp only [if_true] at h; exact viaVisited_groots _ (ih false) h
          | false =>
            simp only [Bool.false_eq_true, if_false] at h
            unfold shallowCopy at h
            cases hl : lookupVis c.vis v with
            | some n => simp only [hl, Option.some.injEq, Prod.mk.injEq] at h; rw [← h.1]
            | none => simp only [hl, Option.some.injEq, Prod.mk.injEq] at h; rw [← h.1]; rfl
        | cell =>
          simp only [hk] at h
          cases fixed with
          | true => simp only [if_true] at h; exact viaVisited_groots _ (ih false) h
          | false =>
            simp only [Bool.false_eq_true, if_false] at h
            unfold cellCopy at h
            cases hce : cloneEdges (cloneVal dst thr rgen false f false) c o.edges with
            | none => simp [hce] at h
            | some p2 =>
              obtain ⟨c2, es⟩ := p2
              simp only [hce, Option.some.injEq, Prod.mk.injEq] at h
              rw [← h.1]
              have := cloneEdges_groots _ (ih false) _ _ _ _ hce
              simp only [State.push]
              exact this

theorem deepClone_groots {s s' : State} {dst thr : HeapId} {rgen : Option Nat} {fixed : Bool}
    {v r : Nat} (h : deepClone s dst thr rgen fixed v = some (s', r)) : s'.groots = s.groots := by
  unfold deepClone at h
  cases hc : cloneVal dst thr rgen fixed (cloneFuel s) false ⟨s, []⟩ v with
  | none => simp [hc] at h
  | some p =>
    obtain ⟨c, r'⟩ := p
    simp only [hc, Option.some.injEq, Prod.mk.injEq] at h
    rw [← h.1]
    exact cloneVal_groots _ _ _ _ _ _ hc

/-- The cloner (into a thread's own heap) keeps the machine invariant. -/
theorem good_deepClone {fixed : Bool} {s s' : State} {dst : HeapId} {rgen : Option Nat}
    {Rel : Nat → Prop} (g : Good fixed s) (ctx : CloneCtx s dst rgen fixed Rel) {v r : Nat}
    (hv : Rel v) (h : deepClone s dst dst rgen fixed v = some (s', r)) :
    Good fixed s' ∧ Ext s s' ∧ OKo s' dst r := by
  obtain ⟨hwf', hext, hok, hfin⟩ := deepClone_post ctx hv h
  have hinv := deepClone_inv ctx g.nd g.inv (List.prefix_refl _) hv h
  refine ⟨⟨hwf', hinv, ?_, ?_, ?_⟩, hext, hok⟩
  · intro q oq hq e he
    by_cases hqo : q < s.next
    · rw [hext.2 q hqo] at hq
      obtain ⟨oe, hoe⟩ := g.nd q oq hq e he
      exact ⟨oe, by rw [hext.2 e (g.wf.lt hoe)]; exact hoe⟩
    · obtain ⟨o, ho, _, _, _, hedges⟩ := hfin q (by omega) (hwf'.lt hq)
      rw [ho] at hq; cases hq
      obtain ⟨oe, hoe, _⟩ := hedges e he
      exact ⟨oe, hoe⟩
  · intro i oi hi
    by_cases hio : i < s.next
    · rw [hext.2 i hio] at hi; exact g.objs i oi hi
    · obtain ⟨o, ho, hown, hhome, hkind, _⟩ := hfin i (by omega) (hwf'.lt hi)
      rw [ho] at hi; cases hi
      refine ⟨fun _ => ?_, fun hk => absurd hk hkind.ne_code, fun hk => ?_,
        fun hk => absurd hk hkind.ne_thread⟩
      · rcases hhome with h1 | ⟨h1, _⟩ <;> rw [h1, hown]
      · exact hkind.shallow_fixed hk
  · intro p hp
    rw [deepClone_groots h] at hp
    obtain ⟨hlt, hown⟩ := g.groots p hp
    refine ⟨Nat.lt_of_lt_of_le hlt hext.1, ?_⟩
    intro op hop
    rw [hext.2 p hlt] at hop
    exact hown op hop

/-- The hypotheses of the cloner for a clone with the generation shortcut of heap `dst`, of a
    value thread `src` holds, when one of the two heaps is an ancestor of the other. -/
theorem cloneCtx_of_shortcut {fixed : Bool} {s : State} {src dst : HeapId} {v0 : Nat}
    (g : Good fixed s) (hlive : ∃ o, s.obj v0 = some o)
    (h0 : ∀ o, s.obj v0 = some o → o.owner <+: src) (hcs : src <+: dst ∨ dst <+: src) :
    CloneCtx s dst (some dst.length) fixed (CopyReach s (some dst.length) v0) := by
  refine ⟨g.wf, ?_, ?_, ?_, ?_, ?_⟩
  · intro v hv
    cases hv with
    | root => exact hlive
    | step _ ho _ he => exact g.nd _ _ ho _ he
  · intro v o hv ho hk e he
    exact CopyReach.step hv ho hk he
  · intro v o hv ho hs
    exact shortcut_sound' g.inv g.homed h0 hcs hv ho hs
  · intro v o _ ho hk
    exact (g.objs v o ho).2.2.1 hk
  · intro v o _ ho hk
    rw [(g.objs v o ho).2.1 hk]; exact List.nil_prefix

/-! ### every step -/

theorem good_alloc {fixed : Bool} {s : State} (g : Good fixed s) (t : HeapId) (kind : Kind)
    (fields : List Nat) (hf : fields.all (holds s t) = true) (hk : kindAllowed fixed t kind = true) :
    Good fixed (alloc s t kind fields).1 := by
  show Good fixed (s.push ⟨t, t, kind, fields⟩)
  apply good_push g
  · intro e he
    exact holds_spec (List.all_eq_true.mp hf e he)
  · refine ⟨fun _ => rfl, fun hc => ?_, fun hc => ?_, fun hc => ?_⟩
    · have hc' : kind = .code := hc
      subst hc'
      simpa [kindAllowed] using hk
    · have hc' : kind = .shallow := hc
      subst hc'
      simpa [kindAllowed] using hk
    · have hc' : kind = .thread := hc
      subst hc'
      simp [kindAllowed] at hk

theorem good_spawn {fixed : Bool} {s : State} (g : Good fixed s) (parent : HeapId) (i : Nat) :
    Good fixed (spawn s parent i).1 := by
  show Good fixed (addRoot (s.push ⟨parent, parent ++ [i], .thread, []⟩) parent s.next)
  apply good_addRoot
  · apply good_push g
    · intro e he; simp at he
    · exact ⟨fun h => absurd rfl h, fun h => by simp at h, fun h => by simp at h,
        fun _ => List.prefix_append _ _⟩
  · exact ⟨⟨parent, parent ++ [i], .thread, []⟩, by simp [State.push], List.prefix_refl _⟩

theorem good_store {fixed : Bool} {s : State} (g : Good fixed s) (t : HeapId) (cell v : Nat)
    (hc : holds s t cell = true) (hv : holds s t v = true)
    (hk : isCell s cell = true) :
    Good fixed ((storeCell s cell v fixed).getD s) := by
  obtain ⟨c, hcell, hcpre⟩ := holds_spec hc
  obtain ⟨ov, hov, hvpre⟩ := holds_spec hv
  have hkind : c.kind = .cell := by simpa [isCell, hcell] using hk
  have hhome : c.home = c.owner := g.homed cell c hcell (by rw [hkind]; simp)
  unfold storeCell
  simp only [hcell]
  cases hd : deepClone s c.home c.home (some c.home.length) fixed v with
  | none => simpa using g
  | some p =>
    obtain ⟨s1, r⟩ := p
    simp only [Option.getD_some]
    have ctx := cloneCtx_of_shortcut (src := t) (dst := c.home) (v0 := v) g ⟨ov, hov⟩
      (fun o ho => by rw [hov] at ho; cases ho; exact hvpre) (Or.inr (by rw [hhome]; exact hcpre))
    obtain ⟨g1, hext, hok⟩ := good_deepClone g ctx CopyReach.root hd
    have hc1 : s1.obj cell = some c := by rw [hext.2 cell (g.wf.lt hcell)]; exact hcell
    apply good_setEdges g1 hc1
    intro e he
    simp at he; subst he
    exact hok

theorem good_transfer {fixed : Bool} {s : State} (g : Good fixed s) (sameVm : Bool)
    (src dst : HeapId) (v : Nat) (hv : holds s src v = true) :
    Good fixed (match transfer s sameVm src dst fixed v with
      | some (s', _) => s'
      | none => s) := by
  obtain ⟨ov, hov, hvpre⟩ := holds_spec hv
  unfold transfer
  cases hd : deepClone s dst dst (rgenFor sameVm src dst) fixed v with
  | none => simpa using g
  | some p =>
    obtain ⟨s1, r⟩ := p
    simp only
    have ctx := cloneCtx_of_transfer (sameVm := sameVm) (fixed := fixed) (src := src) (dst := dst)
      g.wf g.nd g.inv g.homed ⟨ov, hov⟩ (fun o ho => by rw [hov] at ho; cases ho; exact hvpre)
      (fun p o _ ho hk => (g.objs p o ho).2.2.1 hk) (fun p o _ ho hk => (g.objs p o ho).2.1 hk)
    obtain ⟨g1, _, hok⟩ := good_deepClone g ctx CopyReach.root hd
    exact good_addRoot g1 hok

/-- **Every operation other than the promotion of a module value keeps the invariant.** -/
theorem step_good {fixed : Bool} {s : State} (g : Good fixed s) (op : Op)
    (hop : op.isPromote = false) : Good fixed (step fixed s op) := by
  cases op with
  | alloc t kind fields =>
    simp only [step]
    split
    · rename_i h
      simp only [Bool.and_eq_true] at h
      exact good_alloc g t kind fields h.1 h.2
    · exact g
  | root t r =>
    simp only [step]
    split
    · rename_i h
      obtain ⟨o, ho, hpre⟩ := holds_spec h
      exact good_addRoot g ⟨o, ho, hpre⟩
    · exact g
  | unroot t r =>
    simp only [step]
    split
    · exact g
    · exact good_mapRoots g (fun l x hx => List.mem_of_mem_erase hx)
  | spawn parent i => exact good_spawn g parent i
  | dropThread t =>
    exact good_mapRoots g (fun l x hx => (List.mem_filter.mp hx).1)
  | store t cell v =>
    simp only [step]
    split
    · rename_i h
      simp only [Bool.and_eq_true] at h
      exact good_store g t cell v h.1.1 h.1.2 h.2
    · exact g
  | transfer sameVm src dst v =>
    simp only [step]
    split
    · rename_i h
      exact good_transfer g sameVm src dst v h
    · exact g
  | collect t =>
    simp only [step]
    split
    · obtain ⟨s', hs'⟩ := collect_total' s t g.wf
      rw [hs']; exact good_collect g hs'
    · exact g
  | promote thr v => simp [Op.isPromote] at hop

theorem init_good (fixed : Bool) : Good fixed init := by
  have hobj : ∀ i o, init.obj i = some o → i = 0 ∧ o = ⟨[], [0], .thread, []⟩ := by
    intro i o h
    simp only [init, State.ofList] at h
    match i, h with
    | 0, h => simp at h; exact ⟨rfl, h.symm⟩
    | n + 1, h => simp at h
  refine ⟨?_, ?_, ?_, ?_, ?_⟩
  · intro i hi
    simp only [init, State.ofList] at hi ⊢
    exact List.getElem?_eq_none hi
  · intro q oq p op hq he _
    obtain ⟨_, rfl⟩ := hobj q oq hq
    simp at he
  · intro q oq hq e he
    obtain ⟨_, rfl⟩ := hobj q oq hq
    simp at he
  · intro i o h
    obtain ⟨_, rfl⟩ := hobj i o h
    exact ⟨fun h => absurd rfl h, fun h => by simp at h, fun h => by simp at h,
      fun _ => List.nil_prefix⟩
  · intro p hp
    simp [init, State.ofList] at hp

theorem run_good {fixed : Bool} : ∀ (ops : List Op) (s : State), Good fixed s →
    (∀ op ∈ ops, op.isPromote = false) → Good fixed (run fixed s ops) := by
  intro ops
  induction ops with
  | nil => intro s g _; exact g
  | cons op ops ih =>
    intro s g h
    show Good fixed (run fixed (step fixed s op) ops)
    exact ih _ (step_good g op (h op List.mem_cons_self))
      (fun o ho => h o (List.mem_cons_of_mem _ ho))

/-! ### mark bits -/

/-- Everything the marker reaches (without entering an older generation) lies in a heap the
    collection sweeps. -/
theorem reachNS_inside {fixed : Bool} {s : State} {t : HeapId} (g : Good fixed s) {p : Nat}
    (h : ReachNS s t p) : ∃ op, s.obj p = some op ∧ t <+: op.owner := by
  have hlen : ∀ p, skip s t p = false → ∃ op, s.obj p = some op ∧ t.length ≤ op.owner.length := by
    intro p hs
    unfold skip at hs
    cases ho : s.obj p with
    | none => simp [ho] at hs
    | some op => simp only [ho, decide_eq_false_iff_not, Nat.not_lt] at hs; exact ⟨op, rfl, hs⟩
  induction h with
  | @root p hr hs =>
    obtain ⟨op, hop, hl⟩ := hlen p hs
    obtain ⟨i, o, _, ho, _, hpre, he⟩ := mem_rootsOf.mp hr
    have h1 : op.owner <+: o.home := g.inv i o p op ho he hop
    exact ⟨op, hop, List.prefix_of_prefix_length_le hpre h1 hl⟩
  | @step q p oq _ hq he hs ih =>
    obtain ⟨op, hop, hl⟩ := hlen p hs
    obtain ⟨oq', hq', hin⟩ := ih
    rw [hq] at hq'; cases hq'
    have h1 : op.owner <+: oq.home := g.inv q oq p op hq he hop
    have h2 : t <+: oq.home := by
      by_cases hk : oq.kind = .thread
      · exact hin.trans ((g.objs q oq hq).2.2.2 hk)
      · rw [g.homed q oq hq hk]; exact hin
    exact ⟨op, hop, List.prefix_of_prefix_length_le h2 h1 hl⟩

/-- A collection never leaves a mark bit in a heap it swept. -/
theorem collectM_resets_swept {s s' : State} {t : HeapId} {marked marked' : List Nat}
    (h : collectM s t marked = some (s', marked')) : ∀ i ∈ marked', inSwept s t i = false := by
  unfold collectM at h
  cases hm : markM s t marked with
  | none => simp [hm] at h
  | some m =>
    simp only [hm, Option.some.injEq, Prod.mk.injEq] at h
    intro i hi
    rw [← h.2] at hi
    have := (List.mem_filter.mp hi).2
    simpa using this

/-- In a state of the machine with all mark bits clear, a collection behaves exactly like the
    mark-bit-free `collect` and leaves ALL mark bits clear again (nothing outside the swept heaps
    is ever marked, because of the heap invariant). -/
theorem collectM_clean {fixed : Bool} {s : State} (g : Good fixed s) (t : HeapId) :
    ∃ s', collect s t = some s' ∧ collectM s t [] = some (s', []) := by
  obtain ⟨m, hm⟩ := mark_total' s t g.wf
  refine ⟨{ s with obj := sweepObj s t m }, by simp [collect, hm], ?_⟩
  have hm' : markM s t [] = some m := hm
  simp only [collectM, hm', Option.some.injEq, Prod.mk.injEq, true_and]
  apply List.filter_eq_nil_iff.mpr
  intro i hi
  obtain ⟨op, hop, hin⟩ := reachNS_inside g ((mark_spec hm i).mp hi)
  simp [inSwept, hop, List.isPrefixOf_iff_prefix.mpr hin]

/-- The machine with the mark bits as part of the state. -/
def stepM (fixed : Bool) (x : State × List Nat) : Op → State × List Nat
  | .collect t => if t ≠ [] then (collectM x.1 t x.2).getD x else x
  | op => (step fixed x.1 op, x.2)

def runM (fixed : Bool) (x : State × List Nat) (ops : List Op) : State × List Nat :=
  ops.foldl (stepM fixed) x

/-- **Mark bits are clear in every reachable state** (so every collection of a history starts
    from clean bits, which `collect` and `collect_safe` silently assume). -/
theorem runM_clean {fixed : Bool} : ∀ (ops : List Op) (s : State), Good fixed s →
    (∀ op ∈ ops, op.isPromote = false) → runM fixed (s, []) ops = (run fixed s ops, []) := by
  intro ops
  induction ops with
  | nil => intro s _ _; rfl
  | cons op ops ih =>
    intro s g h
    have hop := h op List.mem_cons_self
    have hstep : stepM fixed (s, []) op = (step fixed s op, []) := by
      cases op with
      | collect t =>
        simp only [stepM, step]
        by_cases ht : t ≠ []
        · obtain ⟨s', h1, h2⟩ := collectM_clean g t
          simp [ht, h1, h2]
        · simp [ht]
      | promote thr v => simp [Op.isPromote] at hop
      | alloc _ _ _ => rfl
      | root _ _ => rfl
      | unroot _ _ => rfl
      | spawn _ _ => rfl
      | dropThread _ => rfl
      | store _ _ _ => rfl
      | transfer _ _ _ _ => rfl
    show runM fixed (stepM fixed (s, []) op) ops = (run fixed (step fixed s op) ops, [])
    rw [hstep]
    exact ih _ (step_good g op hop) (fun o ho => h o (List.mem_cons_of_mem _ ho))

end GluonModel.GcHeap
