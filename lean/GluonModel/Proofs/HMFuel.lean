/-
C03 — `infer` with the unification fuel as a parameter (a proof-only copy of `HM.infer`).

`HM.infer` runs every unification with the constant `unifyFuel`.  `inferF rows fuel` is the same
function, clause by clause, with `fuel` in its place; `inferF_unifyFuel` proves that at
`fuel = unifyFuel` it IS `infer` (so everything proved for `inferF` at all fuels holds for the
executed model).  Soundness (`HMSound`) and completeness (`HMComplete`) are proved for `inferF` at
every fuel; `unify_total` then supplies a fuel that suffices.
-/
import GluonModel.HM
import GluonModel.Proofs.HM

namespace GluonModel.HM.Proofs
open GluonModel.HM

/-- `unifyS` with the fuel as a parameter -/
def unifySF (rows : Bool) (fuel : Nat) (S : Subst) (n : Nat) (a b : Ty) : Except UErr (Subst × Nat) :=
  match unify rows fuel n (a.subst S) (b.subst S) with
  | .error e => .error e
  | .ok (U, n') => .ok (U.comp S, n')

theorem unifySF_unifyFuel (rows : Bool) (S : Subst) (n : Nat) (a b : Ty) :
    unifySF rows unifyFuel S n a b = unifyS rows S n a b := rfl

/-- `HM.infer`, clause by clause, with the unification fuel as a parameter -/
def inferF (rows : Bool) (fuel : Nat) : Env → Expr → Subst → Nat → Except UErr (Ty × Subst × Nat)
  | Γ, .var x, S, n =>
    match lookup x Γ with
    | none => .error .unbound
    | some s => let r := inst s n; .ok (r.1, S, r.2)
  | Γ, .lam x b, S, n =>
    match inferF rows fuel ((x, Scheme.mono (.var n)) :: Γ) b S (n + 1) with
    | .error e => .error e
    | .ok (τ, S', n') => .ok (fn (.var n) τ, S', n')
  | Γ, .app f a, S, n =>
    match inferF rows fuel Γ f S n with
    | .error e => .error e
    | .ok (τf, S₁, n₁) =>
      match inferF rows fuel Γ a S₁ n₁ with
      | .error e => .error e
      | .ok (τa, S₂, n₂) =>
        match unifySF rows fuel S₂ (n₂ + 1) τf (fn τa (.var n₂)) with
        | .error e => .error e
        | .ok (S₃, n₃) => .ok (.var n₂, S₃, n₃)
  | Γ, .letE x e b, S, n =>
    match inferF rows fuel Γ e S n with
    | .error err => .error err
    | .ok (τ₁, S₁, n₁) => inferF rows fuel ((x, generalize S₁ Γ τ₁) :: Γ) b S₁ n₁
  | _, .int _, S, n => .ok (tInt, S, n)
  | _, .str _, S, n => .ok (tString, S, n)
  | Γ, .lt a b, S, n =>
    match inferF rows fuel Γ a S n with
    | .error e => .error e
    | .ok (τa, S₁, n₁) =>
      match unifySF rows fuel S₁ n₁ tInt τa with
      | .error e => .error e
      | .ok (S₂, n₂) =>
        match inferF rows fuel Γ b S₂ n₂ with
        | .error e => .error e
        | .ok (τb, S₃, n₃) =>
          match unifySF rows fuel S₃ n₃ tInt τb with
          | .error e => .error e
          | .ok (S₄, n₄) => .ok (tBool, S₄, n₄)
  | Γ, .ifE c t e, S, n =>
    match inferF rows fuel Γ c S n with
    | .error err => .error err
    | .ok (τc, S₁, n₁) =>
      match unifySF rows fuel S₁ n₁ tBool τc with
      | .error err => .error err
      | .ok (S₂, n₂) =>
        match inferF rows fuel Γ t S₂ n₂ with
        | .error err => .error err
        | .ok (τt, S₃, n₃) =>
          match inferF rows fuel Γ e S₃ n₃ with
          | .error err => .error err
          | .ok (τe, S₄, n₄) =>
            match unifySF rows fuel S₄ n₄ τt τe with
            | .error err => .error err
            | .ok (S₅, n₅) => .ok (τt, S₅, n₅)
  | _, .fnil, S, n => .ok (.empty, S, n)
  | Γ, .fcons l e rest, S, n =>
    match inferF rows fuel Γ e S n with
    | .error err => .error err
    | .ok (τ, S₁, n₁) =>
      match inferF rows fuel Γ rest S₁ n₁ with
      | .error err => .error err
      | .ok (ρ, S₂, n₂) => .ok (.ext l τ ρ, S₂, n₂)
  | Γ, .rcd fields, S, n =>
    match inferF rows fuel Γ fields S n with
    | .error err => .error err
    | .ok (ρ, S', n') => .ok (tRec ρ, S', n')
  | Γ, .proj e l, S, n =>
    match inferF rows fuel Γ e S n with
    | .error err => .error err
    | .ok (τ, S₁, n₁) =>
      let viaUnify : Except UErr (Ty × Subst × Nat) :=
        match unifySF rows fuel S₁ (n₁ + 2) (tRec (.ext l (.var n₁) (.var (n₁ + 1)))) τ with
        | .error err => .error err
        | .ok (S₂, n₂) => .ok (.var n₁, S₂, n₂)
      match asRec (τ.subst S₁) with
      | some row =>
        match lookupField l (rowFields row) with
        | some τl => .ok (τl, S₁, n₁)
        | none => viaUnify
      | none => if isVar (τ.subst S₁) then viaUnify else .error .badproj
  | _, .anil, S, n => .ok (tArr (.var n), S, n + 1)
  | Γ, .asnoc init e, S, n =>
    match inferF rows fuel Γ init S n with
    | .error err => .error err
    | .ok (τi, S₁, n₁) =>
      match inferF rows fuel Γ e S₁ n₁ with
      | .error err => .error err
      | .ok (τe, S₂, n₂) =>
        match unifySF rows fuel S₂ n₂ τi (tArr τe) with
        | .error err => .error err
        | .ok (S₃, n₃) => .ok (τi, S₃, n₃)
  | _, .conA, S, n => .ok (fn (.var n) (tT (.var n)), S, n + 1)
  | _, .conB, S, n => .ok (tT (.var n), S, n + 1)

/-- At the executed fuel the copy IS the model's `infer`. -/
theorem inferF_unifyFuel (rows : Bool) : ∀ (e : Expr) (Γ : Env) (S : Subst) (n : Nat),
    inferF rows unifyFuel Γ e S n = infer rows Γ e S n := by
  intro e
  induction e with
  | var x => intro Γ S n; simp only [inferF, infer] <;> rfl
  | lam x b ih => intro Γ S n; simp only [inferF, infer, ih] <;> rfl
  | app f a ihf iha => intro Γ S n; simp only [inferF, infer, ihf, iha, unifySF_unifyFuel] <;> rfl
  | letE x e b ihe ihb => intro Γ S n; simp only [inferF, infer, ihe, ihb] <;> rfl
  | int k => intro Γ S n; simp only [inferF, infer] <;> rfl
  | str k => intro Γ S n; simp only [inferF, infer] <;> rfl
  | ifE c t e ihc iht ihe => intro Γ S n; simp only [inferF, infer, ihc, iht, ihe, unifySF_unifyFuel] <;> rfl
  | lt a b iha ihb => intro Γ S n; simp only [inferF, infer, iha, ihb, unifySF_unifyFuel] <;> rfl
  | fnil => intro Γ S n; simp only [inferF, infer] <;> rfl
  | fcons l e rest ihe ihr => intro Γ S n; simp only [inferF, infer, ihe, ihr] <;> rfl
  | rcd f ih => intro Γ S n; simp only [inferF, infer, ih] <;> rfl
  | proj e l ih => intro Γ S n; simp only [inferF, infer, ih, unifySF_unifyFuel] <;> rfl
  | anil => intro Γ S n; simp only [inferF, infer] <;> rfl
  | asnoc init e ihi ihe => intro Γ S n; simp only [inferF, infer, ihi, ihe, unifySF_unifyFuel] <;> rfl
  | conA => intro Γ S n; simp only [inferF, infer] <;> rfl
  | conB => intro Γ S n; simp only [inferF, infer] <;> rfl

end GluonModel.HM.Proofs
