/-
C03 — bridge between the executed model (`rows = true`, gluon's by-label row path on) and the
model the soundness theorems are stated for (`rows = false`): on types whose rows are all
closed — which is all that inference produces for programs without field projection — the
by-label path is never entered and the two coincide.
-/
import GluonModel.HM
import GluonModel.Proofs.HM

namespace GluonModel.HM.Proofs
open GluonModel.HM

def RowShaped : Ty → Bool
  | .ext _ _ _ => true
  | .empty => true
  | _ => false

/-- every row is closed: the tail of an `ext` is again a row, never a variable -/
def CR : Ty → Prop
  | .var _ => True
  | .con _ => True
  | .empty => True
  | .app f a => CR f ∧ CR a
  | .ext _ t r => CR t ∧ CR r ∧ RowShaped r = true

def CRS (σ : Subst) : Prop := ∀ v, CR (σ v)

theorem rowShaped_subst (σ : Subst) (r : Ty) (h : RowShaped r = true) :
    RowShaped (r.subst σ) = true := by
  cases r <;> simp_all [RowShaped, Ty.subst]

theorem cr_subst (σ : Subst) (hσ : CRS σ) (t : Ty) (h : CR t) : CR (t.subst σ) := by
  induction t with
  | var n => exact hσ n
  | con c => trivial
  | empty => trivial
  | app f a ihf iha => exact ⟨ihf h.1, iha h.2⟩
  | ext l t r iht ihr => exact ⟨iht h.1, ihr h.2.1, rowShaped_subst σ r h.2.2⟩

theorem crs_id : CRS Subst.id := fun _ => trivial

theorem crs_comp (σ₂ σ₁ : Subst) (h₂ : CRS σ₂) (h₁ : CRS σ₁) : CRS (σ₂.comp σ₁) :=
  fun v => cr_subst σ₂ h₂ (σ₁ v) (h₁ v)

theorem rowTail_closed (t : Ty) (h : CR t) (hs : RowShaped t = true) : rowTail t = .empty := by
  induction t with
  | ext l t r _ ihr => simp only [rowTail]; exact ihr h.2.1 h.2.2
  | empty => rfl
  | var n => simp [RowShaped] at hs
  | con c => simp [RowShaped] at hs
  | app f a _ _ => simp [RowShaped] at hs

theorem rowsPath_closed (s t : Ty) (hs : CR s) (ht : CR t) (rs : RowShaped s = true)
    (rt : RowShaped t = true) : rowsPath s t = false := by
  simp [rowsPath, rowTail_closed s hs rs, rowTail_closed t ht rt]

theorem bindVar_crs (a : Nat) (t : Ty) (n : Nat) (ht : CR t) :
    ∀ σ n', bindVar a t n = .ok (σ, n') → CRS σ := by
  intro σ n' h
  unfold bindVar at h
  split at h
  · injection h with h; injection h with h₁ _; subst h₁; exact crs_id
  · split at h
    · cases h
    · injection h with h; injection h with h₁ _; subst h₁
      intro v
      simp only [Subst.single]
      split
      · exact ht
      · trivial

/-- the two-step shape shared by `app` and `ext` -/
def twoStepR (rows : Bool) (fuel n : Nat) (f g a b : Ty) : Except UErr (Subst × Nat) :=
  match unify rows fuel n f g with
  | .error e => .error e
  | .ok (σ₁, n₁) =>
    match unify rows fuel n₁ (a.subst σ₁) (b.subst σ₁) with
    | .error e => .error e
    | .ok (σ₂, n₂) => .ok (σ₂.comp σ₁, n₂)

theorem unify_app_appR (rows : Bool) (fuel n : Nat) (f a g b : Ty) :
    unify rows (fuel + 1) n (.app f a) (.app g b) = twoStepR rows fuel n f g a b := by
  simp only [unify, twoStepR]
  rfl

theorem unify_ext_extR (rows : Bool) (fuel n : Nat) (l l' : String) (a r a' r' : Ty) :
    unify rows (fuel + 1) n (.ext l a r) (.ext l' a' r') =
      if (rows && rowsPath (.ext l a r) (.ext l' a' r')) = true then
        unifyRows rows fuel n (.ext l a r) (.ext l' a' r')
      else if l = l' then twoStepR rows fuel n a a' r r' else .error .clash := by
  simp only [unify, twoStepR]
  rfl

def UPost (r : Except UErr (Subst × Nat)) : Prop := ∀ σ n', r = .ok (σ, n') → CRS σ

theorem twoStep_bridge (fuel n : Nat) (f g a b : Ty)
    (ih : ∀ (n : Nat) (s t : Ty), CR s → CR t →
      unify true fuel n s t = unify false fuel n s t ∧ UPost (unify false fuel n s t))
    (hf : CR f) (hg : CR g) (ha : CR a) (hb : CR b) :
    twoStepR true fuel n f g a b = twoStepR false fuel n f g a b ∧
      UPost (twoStepR false fuel n f g a b) := by
  obtain ⟨e₁, p₁⟩ := ih n f g hf hg
  unfold twoStepR
  rw [e₁]
  cases h₁ : unify false fuel n f g with
  | error e => exact ⟨rfl, fun σ n' h => by cases h⟩
  | ok p =>
    obtain ⟨σ₁, n₁⟩ := p
    have c₁ : CRS σ₁ := p₁ σ₁ n₁ h₁
    obtain ⟨e₂, p₂⟩ := ih n₁ _ _ (cr_subst σ₁ c₁ a ha) (cr_subst σ₁ c₁ b hb)
    simp only
    rw [e₂]
    refine ⟨rfl, ?_⟩
    cases h₂ : unify false fuel n₁ (a.subst σ₁) (b.subst σ₁) with
    | error e => intro σ n' h; cases h
    | ok q =>
      obtain ⟨σ₂, n₂⟩ := q
      intro σ n' h
      injection h with h; injection h with hσ _
      subst hσ
      exact crs_comp σ₂ σ₁ (p₂ σ₂ n₂ h₂) c₁

/-- On closed-row types the by-label path is never entered: the executed unifier coincides with
    the syntactic one, and the result keeps rows closed. -/
theorem unify_bridge : ∀ (fuel n : Nat) (s t : Ty), CR s → CR t →
    unify true fuel n s t = unify false fuel n s t ∧ UPost (unify false fuel n s t) := by
  intro fuel
  induction fuel with
  | zero => intro n s t _ _; simp [unify, UPost]
  | succ fuel ih =>
    intro n s t hs ht
    have bv : ∀ a u, CR u → UPost (bindVar a u n) := fun a u hu σ n' h => bindVar_crs a u n hu σ n' h
    have idp : ∀ m, UPost (.ok (Subst.id, m)) := by
      intro m σ n' h
      injection h with h; injection h with h₁ _; subst h₁; exact crs_id
    have errp : ∀ e, UPost (.error e) := fun e σ n' h => by cases h
    cases s with
    | var a => simp only [unify]; exact ⟨(by first | rfl | trivial), bv a t ht⟩
    | con c =>
      cases t with
      | var b => simp only [unify]; exact ⟨(by first | rfl | trivial), bv b _ hs⟩
      | con d =>
        simp only [unify]
        refine ⟨(by first | rfl | trivial), ?_⟩
        split
        · exact idp n
        · exact errp _
      | app _ _ => simp only [unify]; exact ⟨(by first | rfl | trivial), errp _⟩
      | ext _ _ _ => simp only [unify]; exact ⟨(by first | rfl | trivial), errp _⟩
      | empty => simp only [unify]; exact ⟨(by first | rfl | trivial), errp _⟩
    | empty =>
      cases t with
      | var b => simp only [unify]; exact ⟨(by first | rfl | trivial), bv b _ hs⟩
      | empty => simp only [unify]; exact ⟨(by first | rfl | trivial), idp n⟩
      | con _ => simp only [unify]; exact ⟨(by first | rfl | trivial), errp _⟩
      | app _ _ => simp only [unify]; exact ⟨(by first | rfl | trivial), errp _⟩
      | ext _ _ _ => simp only [unify]; exact ⟨(by first | rfl | trivial), errp _⟩
    | app f a =>
      cases t with
      | var b => simp only [unify]; exact ⟨(by first | rfl | trivial), bv b _ hs⟩
      | app g b =>
        rw [unify_app_appR, unify_app_appR]
        exact twoStep_bridge fuel n f g a b ih hs.1 ht.1 hs.2 ht.2
      | con _ => simp only [unify]; exact ⟨(by first | rfl | trivial), errp _⟩
      | ext _ _ _ => simp only [unify]; exact ⟨(by first | rfl | trivial), errp _⟩
      | empty => simp only [unify]; exact ⟨(by first | rfl | trivial), errp _⟩
    | ext l a r =>
      cases t with
      | var b => simp only [unify]; exact ⟨(by first | rfl | trivial), bv b _ hs⟩
      | ext l' a' r' =>
        rw [unify_ext_extR, unify_ext_extR]
        have hp : rowsPath (.ext l a r) (.ext l' a' r') = false :=
          rowsPath_closed _ _ hs ht rfl rfl
        simp only [hp, Bool.and_false, Bool.false_eq_true, if_false]
        by_cases hl : l = l'
        · simp only [hl, if_true]
          exact twoStep_bridge fuel n a a' r r' ih hs.1 ht.1 hs.2.1 ht.2.1
        · simp only [hl, if_false]
          exact ⟨(by first | rfl | trivial), errp _⟩
      | con _ => simp only [unify]; exact ⟨(by first | rfl | trivial), errp _⟩
      | app _ _ => simp only [unify]; exact ⟨(by first | rfl | trivial), errp _⟩
      | empty => simp only [unify]; exact ⟨(by first | rfl | trivial), errp _⟩


/-! ### inference -/

def isFields : Expr → Bool
  | .fnil => true
  | .fcons _ _ _ => true
  | _ => false

/-- projection-free programs whose field lists sit where the parser puts them -/
def ProjFree : Expr → Prop
  | .lam _ b => ProjFree b
  | .app f a => ProjFree f ∧ ProjFree a
  | .letE _ e b => ProjFree e ∧ ProjFree b
  | .ifE c t e => ProjFree c ∧ ProjFree t ∧ ProjFree e
  | .lt a b => ProjFree a ∧ ProjFree b
  | .fcons _ e rest => ProjFree e ∧ ProjFree rest ∧ isFields rest = true
  | .rcd f => ProjFree f ∧ isFields f = true
  | .proj _ _ => False
  | .asnoc i e => ProjFree i ∧ ProjFree e
  | _ => True

def CREnv (Γ : Env) : Prop := ∀ p, p ∈ Γ → CR p.2.ty

def IPost (r : Except UErr (Ty × Subst × Nat)) (fields : Bool) : Prop :=
  ∀ τ S' n', r = .ok (τ, S', n') → CR τ ∧ CRS S' ∧ (fields = true → RowShaped τ = true)

theorem unifyS_bridge (S : Subst) (n : Nat) (a b : Ty) (hS : CRS S) (ha : CR a) (hb : CR b) :
    unifyS true S n a b = unifyS false S n a b ∧
      ∀ S' n', unifyS false S n a b = .ok (S', n') → CRS S' := by
  obtain ⟨e, p⟩ := unify_bridge unifyFuel n _ _ (cr_subst S hS a ha) (cr_subst S hS b hb)
  unfold unifyS
  rw [e]
  refine ⟨rfl, ?_⟩
  cases h : unify false unifyFuel n (a.subst S) (b.subst S) with
  | error err => intro S' n' h'; cases h'
  | ok q =>
    obtain ⟨U, n₁⟩ := q
    intro S' n' h'
    injection h' with h'; injection h' with hS' _
    subst hS'
    exact crs_comp U S (p U n₁ h) hS

theorem crenv_lookup (Γ : Env) (x : String) (s : Scheme) (h : CREnv Γ) (hl : lookup x Γ = some s) :
    CR s.ty := by
  induction Γ with
  | nil => simp [lookup] at hl
  | cons p Γ ih =>
    obtain ⟨y, t⟩ := p
    simp only [lookup] at hl
    split at hl
    · injection hl with hl; subst hl; exact h (y, t) (List.mem_cons_self ..)
    · exact ih (fun q hq => h q (List.mem_cons_of_mem _ hq)) hl

theorem crenv_cons (Γ : Env) (x : String) (s : Scheme) (h : CREnv Γ) (hs : CR s.ty) :
    CREnv ((x, s) :: Γ) := by
  intro p hp
  cases hp with
  | head => exact hs
  | tail _ hp => exact h p hp

theorem cr_inst (s : Scheme) (n : Nat) (h : CR s.ty) : CR (inst s n).1 := by
  simp only [inst]
  apply cr_subst _ _ _ h
  intro v
  show CR (match indexOf v s.vars 0 with
    | some i => Ty.var (n + i)
    | none => Ty.var v)
  split <;> trivial

theorem ipost_error (e : UErr) (b : Bool) : IPost (.error e) b := fun _ _ _ h => by cases h

theorem infer_bridge_aux : ∀ (e : Expr) (Γ : Env) (S : Subst) (n : Nat),
    ProjFree e → CREnv Γ → CRS S →
    infer true Γ e S n = infer false Γ e S n ∧ IPost (infer false Γ e S n) (isFields e) := by
  intro e
  induction e with
  | var x =>
    intro Γ S n _ hΓ hS
    simp only [infer]
    refine ⟨(by first | rfl | trivial), ?_⟩
    cases hl : lookup x Γ with
    | none => exact ipost_error _ _
    | some s =>
      intro τ S' n' h
      injection h with h; injection h with hτ h; injection h with hS' _
      subst hτ; subst hS'
      exact ⟨cr_inst s n (crenv_lookup Γ x s hΓ hl), hS, fun h => by simp [isFields] at h⟩
  | lam x b ih =>
    intro Γ S n hw hΓ hS
    obtain ⟨e₁, p₁⟩ := ih ((x, Scheme.mono (.var n)) :: Γ) S (n + 1) hw
      (crenv_cons Γ x _ hΓ trivial) hS
    simp only [infer]
    rw [e₁]
    refine ⟨rfl, ?_⟩
    cases h₁ : infer false ((x, Scheme.mono (.var n)) :: Γ) b S (n + 1) with
    | error err => exact ipost_error _ _
    | ok r =>
      obtain ⟨τ₁, S₁, n₁⟩ := r
      obtain ⟨c₁, s₁, _⟩ := p₁ _ _ _ h₁
      intro τ S' n' h
      injection h with h; injection h with hτ h; injection h with hS' _
      subst hτ; subst hS'
      exact ⟨⟨⟨trivial, trivial⟩, c₁⟩, s₁, fun h => by simp [isFields] at h⟩
  | app f a ihf iha =>
    intro Γ S n hw hΓ hS
    obtain ⟨e₁, p₁⟩ := ihf Γ S n hw.1 hΓ hS
    simp only [infer]
    rw [e₁]
    cases h₁ : infer false Γ f S n with
    | error err => exact ⟨rfl, ipost_error _ _⟩
    | ok r =>
      obtain ⟨τf, S₁, n₁⟩ := r
      obtain ⟨c₁, s₁, _⟩ := p₁ _ _ _ h₁
      obtain ⟨e₂, p₂⟩ := iha Γ S₁ n₁ hw.2 hΓ s₁
      simp only
      rw [e₂]
      cases h₂ : infer false Γ a S₁ n₁ with
      | error err => exact ⟨rfl, ipost_error _ _⟩
      | ok r =>
        obtain ⟨τa, S₂, n₂⟩ := r
        obtain ⟨c₂, s₂, _⟩ := p₂ _ _ _ h₂
        obtain ⟨e₃, p₃⟩ := unifyS_bridge S₂ (n₂ + 1) τf (fn τa (.var n₂)) s₂ c₁
          ⟨⟨trivial, c₂⟩, trivial⟩
        simp only
        rw [e₃]
        refine ⟨rfl, ?_⟩
        cases h₃ : unifyS false S₂ (n₂ + 1) τf (fn τa (.var n₂)) with
        | error err => exact ipost_error _ _
        | ok q =>
          obtain ⟨S₃, n₃⟩ := q
          intro τ S' n' h
          injection h with h; injection h with hτ h; injection h with hS' _
          subst hτ; subst hS'
          exact ⟨trivial, p₃ _ _ h₃, fun h => by simp [isFields] at h⟩
  | letE x e b ihe ihb =>
    intro Γ S n hw hΓ hS
    obtain ⟨e₁, p₁⟩ := ihe Γ S n hw.1 hΓ hS
    simp only [infer]
    rw [e₁]
    cases h₁ : infer false Γ e S n with
    | error err => exact ⟨rfl, ipost_error _ _⟩
    | ok r =>
      obtain ⟨τ₁, S₁, n₁⟩ := r
      obtain ⟨c₁, s₁, _⟩ := p₁ _ _ _ h₁
      obtain ⟨e₂, p₂⟩ := ihb ((x, generalize S₁ Γ τ₁) :: Γ) S₁ n₁ hw.2
        (crenv_cons Γ x _ hΓ (cr_subst S₁ s₁ τ₁ c₁)) s₁
      simp only
      refine ⟨e₂, ?_⟩
      intro τ S' n' h
      obtain ⟨c, s, _⟩ := p₂ τ S' n' h
      exact ⟨c, s, fun h => by simp [isFields] at h⟩
  | int k =>
    intro Γ S n _ _ hS
    simp only [infer]
    refine ⟨(by first | rfl | trivial), ?_⟩
    intro τ S' n' h
    injection h with h; injection h with hτ h; injection h with hS' _
    subst hτ; subst hS'
    exact ⟨trivial, hS, fun h => by simp [isFields] at h⟩
  | str k =>
    intro Γ S n _ _ hS
    simp only [infer]
    refine ⟨(by first | rfl | trivial), ?_⟩
    intro τ S' n' h
    injection h with h; injection h with hτ h; injection h with hS' _
    subst hτ; subst hS'
    exact ⟨trivial, hS, fun h => by simp [isFields] at h⟩
  | lt a b iha ihb =>
    intro Γ S n hw hΓ hS
    obtain ⟨e₁, p₁⟩ := iha Γ S n hw.1 hΓ hS
    simp only [infer]
    rw [e₁]
    cases h₁ : infer false Γ a S n with
    | error err => exact ⟨rfl, ipost_error _ _⟩
    | ok r =>
      obtain ⟨τa, S₁, n₁⟩ := r
      obtain ⟨c₁, s₁, _⟩ := p₁ _ _ _ h₁
      obtain ⟨e₂, p₂⟩ := unifyS_bridge S₁ n₁ tInt τa s₁ trivial c₁
      simp only
      rw [e₂]
      cases h₂ : unifyS false S₁ n₁ tInt τa with
      | error err => exact ⟨rfl, ipost_error _ _⟩
      | ok q =>
        obtain ⟨S₂, n₂⟩ := q
        have s₂ := p₂ _ _ h₂
        obtain ⟨e₃, p₃⟩ := ihb Γ S₂ n₂ hw.2 hΓ s₂
        simp only
        rw [e₃]
        cases h₃ : infer false Γ b S₂ n₂ with
        | error err => exact ⟨rfl, ipost_error _ _⟩
        | ok r =>
          obtain ⟨τb, S₃, n₃⟩ := r
          obtain ⟨c₃, s₃, _⟩ := p₃ _ _ _ h₃
          obtain ⟨e₄, p₄⟩ := unifyS_bridge S₃ n₃ tInt τb s₃ trivial c₃
          simp only
          rw [e₄]
          refine ⟨rfl, ?_⟩
          cases h₄ : unifyS false S₃ n₃ tInt τb with
          | error err => exact ipost_error _ _
          | ok q =>
            obtain ⟨S₄, n₄⟩ := q
            intro τ S' n' h
            injection h with h; injection h with hτ h; injection h with hS' _
            subst hτ; subst hS'
            exact ⟨trivial, p₄ _ _ h₄, fun h => by simp [isFields] at h⟩
  | ifE c t e ihc iht ihe =>
    intro Γ S n hw hΓ hS
    obtain ⟨e₁, p₁⟩ := ihc Γ S n hw.1 hΓ hS
    simp only [infer]
    rw [e₁]
    cases h₁ : infer false Γ c S n with
    | error err => exact ⟨rfl, ipost_error _ _⟩
    | ok r =>
      obtain ⟨τc, S₁, n₁⟩ := r
      obtain ⟨c₁, s₁, _⟩ := p₁ _ _ _ h₁
      obtain ⟨e₂, p₂⟩ := unifyS_bridge S₁ n₁ tBool τc s₁ trivial c₁
      simp only
      rw [e₂]
      cases h₂ : unifyS false S₁ n₁ tBool τc with
      | error err => exact ⟨rfl, ipost_error _ _⟩
      | ok q =>
        obtain ⟨S₂, n₂⟩ := q
        have s₂ := p₂ _ _ h₂
        obtain ⟨e₃, p₃⟩ := iht Γ S₂ n₂ hw.2.1 hΓ s₂
        simp only
        rw [e₃]
        cases h₃ : infer false Γ t S₂ n₂ with
        | error err => exact ⟨rfl, ipost_error _ _⟩
        | ok r =>
          obtain ⟨τt, S₃, n₃⟩ := r
          obtain ⟨c₃, s₃, _⟩ := p₃ _ _ _ h₃
          obtain ⟨e₄, p₄⟩ := ihe Γ S₃ n₃ hw.2.2 hΓ s₃
          simp only
          rw [e₄]
          cases h₄ : infer false Γ e S₃ n₃ with
          | error err => exact ⟨rfl, ipost_error _ _⟩
          | ok r =>
            obtain ⟨τe, S₄, n₄⟩ := r
            obtain ⟨c₄, s₄, _⟩ := p₄ _ _ _ h₄
            obtain ⟨e₅, p₅⟩ := unifyS_bridge S₄ n₄ τt τe s₄ c₃ c₄
            simp only
            rw [e₅]
            refine ⟨rfl, ?_⟩
            cases h₅ : unifyS false S₄ n₄ τt τe with
            | error err => exact ipost_error _ _
            | ok q =>
              obtain ⟨S₅, n₅⟩ := q
              intro τ S' n' h
              injection h with h; injection h with hτ h; injection h with hS' _
              subst hτ; subst hS'
              exact ⟨c₃, p₅ _ _ h₅, fun h => by simp [isFields] at h⟩
  | fnil =>
    intro Γ S n _ _ hS
    simp only [infer]
    refine ⟨(by first | rfl | trivial), ?_⟩
    intro τ S' n' h
    injection h with h; injection h with hτ h; injection h with hS' _
    subst hτ; subst hS'
    exact ⟨trivial, hS, fun _ => rfl⟩
  | fcons l e rest ihe ihr =>
    intro Γ S n hw hΓ hS
    obtain ⟨e₁, p₁⟩ := ihe Γ S n hw.1 hΓ hS
    simp only [infer]
    rw [e₁]
    cases h₁ : infer false Γ e S n with
    | error err => exact ⟨rfl, ipost_error _ _⟩
    | ok r =>
      obtain ⟨τ₁, S₁, n₁⟩ := r
      obtain ⟨c₁, s₁, _⟩ := p₁ _ _ _ h₁
      obtain ⟨e₂, p₂⟩ := ihr Γ S₁ n₁ hw.2.1 hΓ s₁
      simp only
      rw [e₂]
      refine ⟨rfl, ?_⟩
      cases h₂ : infer false Γ rest S₁ n₁ with
      | error err => exact ipost_error _ _
      | ok r =>
        obtain ⟨ρ, S₂, n₂⟩ := r
        obtain ⟨c₂, s₂, rs⟩ := p₂ _ _ _ h₂
        intro τ S' n' h
        injection h with h; injection h with hτ h; injection h with hS' _
        subst hτ; subst hS'
        exact ⟨⟨c₁, c₂, rs hw.2.2⟩, s₂, fun _ => rfl⟩
  | rcd f ih =>
    intro Γ S n hw hΓ hS
    obtain ⟨e₁, p₁⟩ := ih Γ S n hw.1 hΓ hS
    simp only [infer]
    rw [e₁]
    refine ⟨rfl, ?_⟩
    cases h₁ : infer false Γ f S n with
    | error err => exact ipost_error _ _
    | ok r =>
      obtain ⟨ρ, S₁, n₁⟩ := r
      obtain ⟨c₁, s₁, _⟩ := p₁ _ _ _ h₁
      intro τ S' n' h
      injection h with h; injection h with hτ h; injection h with hS' _
      subst hτ; subst hS'
      exact ⟨⟨trivial, c₁⟩, s₁, fun h => by simp [isFields] at h⟩
  | proj e l _ => intro Γ S n hw; exact absurd hw (by simp [ProjFree])
  | anil =>
    intro Γ S n _ _ hS
    simp only [infer]
    refine ⟨(by first | rfl | trivial), ?_⟩
    intro τ S' n' h
    injection h with h; injection h with hτ h; injection h with hS' _
    subst hτ; subst hS'
    exact ⟨⟨trivial, trivial⟩, hS, fun h => by simp [isFields] at h⟩
  | asnoc init e ihi ihe =>
    intro Γ S n hw hΓ hS
    obtain ⟨e₁, p₁⟩ := ihi Γ S n hw.1 hΓ hS
    simp only [infer]
    rw [e₁]
    cases h₁ : infer false Γ init S n with
    | error err => exact ⟨rfl, ipost_error _ _⟩
    | ok r =>
      obtain ⟨τi, S₁, n₁⟩ := r
      obtain ⟨c₁, s₁, _⟩ := p₁ _ _ _ h₁
      obtain ⟨e₂, p₂⟩ := ihe Γ S₁ n₁ hw.2 hΓ s₁
      simp only
      rw [e₂]
      cases h₂ : infer false Γ e S₁ n₁ with
      | error err => exact ⟨rfl, ipost_error _ _⟩
      | ok r =>
        obtain ⟨τe, S₂, n₂⟩ := r
        obtain ⟨c₂, s₂, _⟩ := p₂ _ _ _ h₂
        obtain ⟨e₃, p₃⟩ := unifyS_bridge S₂ n₂ τi (tArr τe) s₂ c₁ ⟨trivial, c₂⟩
        simp only
        rw [e₃]
        refine ⟨rfl, ?_⟩
        cases h₃ : unifyS false S₂ n₂ τi (tArr τe) with
        | error err => exact ipost_error _ _
        | ok q =>
          obtain ⟨S₃, n₃⟩ := q
          intro τ S' n' h
          injection h with h; injection h with hτ h; injection h with hS' _
          subst hτ; subst hS'
          exact ⟨c₁, p₃ _ _ h₃, fun h => by simp [isFields] at h⟩
  | conA =>
    intro Γ S n _ _ hS
    simp only [infer]
    refine ⟨(by first | rfl | trivial), ?_⟩
    intro τ S' n' h
    injection h with h; injection h with hτ h; injection h with hS' _
    subst hτ; subst hS'
    exact ⟨⟨⟨trivial, trivial⟩, ⟨trivial, trivial⟩⟩, hS, fun h => by simp [isFields] at h⟩
  | conB =>
    intro Γ S n _ _ hS
    simp only [infer]
    refine ⟨(by first | rfl | trivial), ?_⟩
    intro τ S' n' h
    injection h with h; injection h with hτ h; injection h with hS' _
    subst hτ; subst hS'
    exact ⟨⟨trivial, trivial⟩, hS, fun h => by simp [isFields] at h⟩

/-- For projection-free programs the executed model (gluon's row path on) IS the model with
    syntactic rows. -/
theorem infer_bridge (e : Expr) (n : Nat) (h : ProjFree e) :
    infer true [] e Subst.id n = infer false [] e Subst.id n :=
  (infer_bridge_aux e [] Subst.id n h (fun p hp => by cases hp) crs_id).1

end GluonModel.HM.Proofs
