/-
Lemmas about the sharing scheme (`GluonModel.Share`): round trip of `serD`/`deD` on graphs with
sharing, and framing (`flat`/`parse`).
-/
import GluonModel.Share

namespace GluonModel.Share.Proofs
open GluonModel.Share

/-! ### lookup -/

theorem lookup_cons_eq {α β : Type} [DecidableEq α] (k : α) (v : β) (l : List (α × β)) :
    lookup k ((k, v) :: l) = some v := by
  simp [lookup]

theorem lookup_cons_ne {α β : Type} [DecidableEq α] (k k' : α) (v : β) (l : List (α × β))
    (h : k' ≠ k) : lookup k ((k', v) :: l) = lookup k l := by
  simp [lookup, h]

/-- `m'` extends `m`: every binding of `m` is still there. -/
def Ext (m m' : IdMap) : Prop := ∀ a id, lookup a m = some id → lookup a m' = some id

theorem Ext.refl (m : IdMap) : Ext m m := fun _ _ h => h

theorem Ext.trans {m₁ m₂ m₃ : IdMap} (h₁ : Ext m₁ m₂) (h₂ : Ext m₂ m₃) : Ext m₁ m₃ :=
  fun a id h => h₂ a id (h₁ a id h)

theorem Ext.cons_fresh (m : IdMap) (a id : Nat) (h : lookup a m = none) : Ext m ((a, id) :: m) := by
  intro x i hx
  have : a ≠ x := by
    intro e; subst e; rw [h] at hx; cases hx
  rw [lookup_cons_ne _ _ _ _ this]; exact hx

theorem rho_ext {m m' : IdMap} (hext : Ext m m') (a : Nat) (h : lookup a m ≠ none) :
    rho m' a = rho m a := by
  cases hl : lookup a m with
  | none => exact absurd hl h
  | some id => simp [rho, hl, hext a id hl]

/-- Every address the term mentions (unfolded objects and back-edge targets) is in the table. -/
def AllIn (m : IdMap) (t : T) : Prop := ∀ x, (x ∈ addrs t ∨ x ∈ ptrs t) → lookup x m ≠ none
def AllInL (m : IdMap) (ts : List T) : Prop :=
  ∀ x, (x ∈ addrsL ts ∨ x ∈ ptrsL ts) → lookup x m ≠ none

theorem AllIn.ext {m m' : IdMap} {t : T} (h : AllIn m t) (hext : Ext m m') : AllIn m' t := by
  intro x hx
  have := h x hx
  cases hl : lookup x m with
  | none => exact absurd hl this
  | some j => rw [hext x j hl]; simp

theorem AllInL.ext {m m' : IdMap} {ts : List T} (h : AllInL m ts) (hext : Ext m m') :
    AllInL m' ts := by
  intro x hx
  have := h x hx
  cases hl : lookup x m with
  | none => exact absurd hl this
  | some j => rw [hext x j hl]; simp

theorem AllInL.cons {m : IdMap} {t : T} {ts : List T} (h1 : AllIn m t) (h2 : AllInL m ts) :
    AllInL m (t :: ts) := by
  intro x hx
  simp only [addrsL, ptrsL, List.mem_append] at hx
  rcases hx with (hx | hx) | (hx | hx)
  · exact h1 x (.inl hx)
  · exact h2 x (.inl hx)
  · exact h1 x (.inr hx)
  · exact h2 x (.inr hx)

theorem AllInL.head {m : IdMap} {t : T} {ts : List T} (h : AllInL m (t :: ts)) : AllIn m t := by
  intro x hx
  apply h x
  simp only [addrsL, ptrsL, List.mem_append]
  rcases hx with hx | hx
  · exact .inl (.inl hx)
  · exact .inr (.inl hx)

theorem AllInL.tail {m : IdMap} {t : T} {ts : List T} (h : AllInL m (t :: ts)) : AllInL m ts := by
  intro x hx
  apply h x
  simp only [addrsL, ptrsL, List.mem_append]
  rcases hx with hx | hx
  · exact .inl (.inr hx)
  · exact .inr (.inr hx)

mutual
theorem relabel_ext (m m' : IdMap) (hext : Ext m m') :
    (t : T) → AllIn m t → relabel m' t = relabel m t
  | .atom a, _ => by simp [relabel]
  | .node addr uniq s ks, hin => by
    have hk : AllInL m ks := by
      intro x hx
      apply hin x
      cases uniq <;> rcases hx with hx | hx <;> simp [addrs, ptrs, hx]
    cases uniq with
    | true => simp [relabel, relabels_ext m m' hext ks hk]
    | false =>
      have ha : lookup addr m ≠ none := hin addr (.inl (by simp [addrs]))
      simp [relabel, relabels_ext m m' hext ks hk, rho_ext hext addr ha]
  | .clo addr s pre post, hin => by
    have hp : AllInL m pre := by
      intro x hx
      apply hin x
      rcases hx with hx | hx <;> simp [addrs, ptrs, hx]
    have hq : AllInL m post := by
      intro x hx
      apply hin x
      rcases hx with hx | hx <;> simp [addrs, ptrs, hx]
    have ha : lookup addr m ≠ none := hin addr (.inl (by simp [addrs]))
    simp [relabel, relabels_ext m m' hext pre hp, relabels_ext m m' hext post hq,
      rho_ext hext addr ha]
  | .ptr addr s, hin => by
    have ha : lookup addr m ≠ none := hin addr (.inr (by simp [ptrs]))
    simp [relabel, rho_ext hext addr ha]
theorem relabels_ext (m m' : IdMap) (hext : Ext m m') :
    (ts : List T) → AllInL m ts → relabels m' ts = relabels m ts
  | [], _ => by simp [relabels]
  | t :: ts, hin => by
    simp [relabels, relabel_ext m m' hext t hin.head, relabels_ext m m' hext ts hin.tail]
end

theorem serDs_length : (ts : List T) → (m : IdMap) → (serDs m ts).1.length = ts.length
  | [], m => by simp [serDs]
  | t :: ts, m => by simp [serDs, serDs_length ts]

theorem relabels_length (m : IdMap) : (ts : List T) → (relabels m ts).length = ts.length
  | [] => by simp [relabels]
  | t :: ts => by simp [relabels, relabels_length m ts]

/-- The closure visitor: reading `k` kids, allocating, reading the rest. -/
theorem deDsC_append (pl : (Nat × Nat) × T) (ds₂ : List D) :
    (ds₁ : List D) → (nm : NodeMap) → (ts₁ : List T) → (nm₁ : NodeMap) →
    deDs nm ds₁ = .ok (ts₁, nm₁) →
    deDsC nm ds₁.length pl (ds₁ ++ ds₂) =
      match deDs (pl :: nm₁) ds₂ with
      | .ok (ts₂, nm₂) => .ok (ts₁ ++ ts₂, nm₂)
      | .error e => .error e
  | [], nm, ts₁, nm₁, h => by
    simp [deDs] at h
    obtain ⟨h1, h2⟩ := h
    subst h1; subst h2
    cases ds₂ with
    | nil => simp [deDsC, deDs]
    | cons d ds =>
      simp only [List.length_nil, List.nil_append, deDsC, deDs]
      cases deD (pl :: nm) d with
      | error e => rfl
      | ok r =>
        obtain ⟨t, nmA⟩ := r
        simp only
        cases deDs nmA ds with
        | error e => rfl
        | ok r' => rfl
  | d :: ds₁, nm, ts₁, nm₁, h => by
    simp only [deDs] at h
    cases hd : deD nm d with
    | error e => rw [hd] at h; cases h
    | ok r =>
      obtain ⟨t, nmA⟩ := r
      rw [hd] at h
      simp only at h
      cases hds : deDs nmA ds₁ with
      | error e => rw [hds] at h; cases h
      | ok r' =>
        obtain ⟨ts', nmB⟩ := r'
        rw [hds] at h
        simp only at h
        cases h
        have ih := deDsC_append pl ds₂ ds₁ nmA ts' nm₁ hds
        simp only [List.length_cons, List.cons_append, deDsC, hd, ih]
        cases deDs (pl :: nm₁) ds₂ with
        | error e => rfl
        | ok r'' => rfl

/-! ### The invariant relating `node_to_id` and the `NodeMap` -/

/-- `On`: objects whose `Marked(…)` is being written / read and which are **not yet** in the
    NodeMap (ordinary nodes, and closures before their allocation); `F`: closures that are
    allocated and being filled (the NodeMap holds the pointer to them). -/
structure Inv (h : Nat → T) (m : IdMap) (nm : NodeMap) (On F : Nat → Prop) : Prop where
  bound : ∀ a id, lookup a m = some id → id < m.length
  inj : ∀ a a' id, lookup a m = some id → lookup a' m = some id → a = a'
  closed : ∀ a id, lookup a m = some id → ¬ On a → ¬ F a →
    lookup ((h a).sort, id) nm = some (relabel m (h a)) ∧ AllIn m (h a)
  filling : ∀ a, F a → ∃ id, lookup a m = some id ∧
    lookup ((h a).sort, id) nm = some (.ptr id (h a).sort)

theorem Inv.open_node {h : Nat → T} {m : IdMap} {nm : NodeMap} {On F : Nat → Prop}
    (hinv : Inv h m nm On F) (a : Nat) (hl : lookup a m = none) :
    Inv h ((a, m.length) :: m) nm (fun x => On x ∨ x = a) F := by
  have hext : Ext m ((a, m.length) :: m) := Ext.cons_fresh m a m.length hl
  refine ⟨?_, ?_, ?_, ?_⟩
  · intro x i hx
    by_cases e : a = x
    · subst e; rw [lookup_cons_eq] at hx; cases hx; simp
    · rw [lookup_cons_ne _ _ _ _ e] at hx
      have := hinv.bound x i hx
      simp; omega
  · intro x x' i hx hx'
    by_cases e : a = x
    · by_cases e' : a = x'
      · rw [← e, ← e']
      · subst e
        rw [lookup_cons_eq] at hx; cases hx
        rw [lookup_cons_ne _ _ _ _ e'] at hx'
        have := hinv.bound x' _ hx'
        omega
    · by_cases e' : a = x'
      · subst e'
        rw [lookup_cons_eq] at hx'; cases hx'
        rw [lookup_cons_ne _ _ _ _ e] at hx
        have := hinv.bound x _ hx
        omega
      · rw [lookup_cons_ne _ _ _ _ e] at hx
        rw [lookup_cons_ne _ _ _ _ e'] at hx'
        exact hinv.inj x x' i hx hx'
  · intro x i hx hO hF
    have hne : a ≠ x := fun e => hO (Or.inr e.symm)
    have hOx : ¬ On x := fun e => hO (Or.inl e)
    rw [lookup_cons_ne _ _ _ _ hne] at hx
    obtain ⟨hnm, hall⟩ := hinv.closed x i hx hOx hF
    refine ⟨?_, hall.ext hext⟩
    rw [relabel_ext m _ hext (h x) hall]; exact hnm
  · intro x hF
    obtain ⟨id, hid, hnm⟩ := hinv.filling x hF
    exact ⟨id, hext x id hid, hnm⟩

/-- Entering `a` into the NodeMap: as the pointer to an allocated closure (`a` joins `F`) or as
    the finished object (`a` leaves `On`/`F`). -/
theorem Inv.store {h : Nat → T} {m : IdMap} {nm : NodeMap} {On' F' On F : Nat → Prop}
    (hinv : Inv h m nm On' F') (a id : Nat) (v : T) (hl : lookup a m = some id)
    (hOn : ∀ x, x ≠ a → (On' x ↔ On x)) (hF : ∀ x, x ≠ a → (F' x ↔ F x)) (hna : ¬ On a)
    (hv : (F a ∧ v = .ptr id (h a).sort) ∨ (¬ F a ∧ v = relabel m (h a) ∧ AllIn m (h a))) :
    Inv h m ((((h a).sort, id), v) :: nm) On F := by
  have hshadow : ∀ x i, x ≠ a → lookup x m = some i → ∀ (w : Option T),
      lookup ((h x).sort, i) nm = w →
      lookup ((h x).sort, i) ((((h a).sort, id), v) :: nm) = w := by
    intro x i hx hi w hw
    have hne : ¬ (((h a).sort, id) = ((h x).sort, i)) := by
      intro hc
      have : i = id := (Prod.mk.inj hc).2.symm
      subst this
      exact hx (hinv.inj x a _ hi hl)
    simp only [lookup, hne, if_false]
    exact hw
  refine ⟨hinv.bound, hinv.inj, ?_, ?_⟩
  · intro x i hx hO hFx
    by_cases e : x = a
    · subst e
      have : i = id := by rw [hl] at hx; cases hx; rfl
      subst this
      rcases hv with ⟨hc, _⟩ | ⟨_, hv, hall⟩
      · exact absurd hc hFx
      · exact ⟨by simp [lookup, hv], hall⟩
    · obtain ⟨hnm, hall⟩ :=
        hinv.closed x i hx (fun hc => hO ((hOn x e).mp hc)) (fun hc => hFx ((hF x e).mp hc))
      exact ⟨hshadow x i e hx _ hnm, hall⟩
  · intro x hFx
    by_cases e : x = a
    · subst e
      rcases hv with ⟨_, hv⟩ | ⟨hc, _⟩
      · exact ⟨id, hl, by simp [lookup, hv]⟩
      · exact absurd hFx hc
    · obtain ⟨i, hi, hnm⟩ := hinv.filling x ((hF x e).mpr hFx)
      exact ⟨i, hi, hshadow x i e hi _ hnm⟩

/-! ### Round trip with sharing and cycles -/

mutual
theorem roundtrip (h : Nat → T) :
    (t : T) → (m : IdMap) → (nm : NodeMap) → (On F : Nat → Prop) →
    Agrees h F t → Inv h m nm On F → (∀ a ∈ addrs t, ¬ On a ∧ ¬ F a) →
    ∃ nm', deD nm (serD m t).1 = .ok (relabel (serD m t).2 t, nm') ∧
      Inv h (serD m t).2 nm' On F ∧ Ext m (serD m t).2 ∧ AllIn (serD m t).2 t
  | .atom a, m, nm, On, F, _, hinv, _ => by
    refine ⟨nm, ?_, ?_, ?_, ?_⟩
    · simp [serD, deD, relabel]
    · simpa [serD] using hinv
    · simpa [serD] using Ext.refl m
    · intro x hx; simp [addrs, ptrs] at hx
  | .ptr addr s, m, nm, On, F, hag, hinv, _ => by
    simp only [Agrees] at hag
    obtain ⟨hF, hs⟩ := hag
    obtain ⟨id, hid, hnm⟩ := hinv.filling addr hF
    have hser : serD m (.ptr addr s) = (.ref s id, m) := by simp [serD, hid]
    rw [hser]
    refine ⟨nm, ?_, hinv, Ext.refl m, ?_⟩
    · rw [hs] at hnm
      simp [deD, hnm, relabel, rho, hid]
    · intro x hx
      simp [addrs, ptrs] at hx
      subst hx; rw [hid]; simp
  | .node addr uniq s ks, m, nm, On, F, hag, hinv, hO => by
    cases uniq with
    | true =>
      have hagk : AgreesL h F ks := by
        simp [Agrees] at hag; exact hag
      have hOk : ∀ a ∈ addrsL ks, ¬ On a ∧ ¬ F a := by
        intro a ha; exact hO a (by simp [addrs, ha])
      obtain ⟨nm', hde, hinv', hext, hall⟩ := roundtrips h ks m nm On F hagk hinv hOk
      refine ⟨nm', ?_, ?_, ?_, ?_⟩
      · simp [serD, deD, hde, relabel]
      · simpa [serD] using hinv'
      · simpa [serD] using hext
      · intro x hx
        have : x ∈ addrsL ks ∨ x ∈ ptrsL ks := by simpa [addrs, ptrs] using hx
        simpa [serD] using hall x this
    | false =>
      have hag' := hag
      simp only [Agrees] at hag'
      obtain ⟨hnode, hagk⟩ := hag'
      obtain ⟨hh, hacyc⟩ := hnode trivial
      obtain ⟨hOa, hFa⟩ := hO addr (by simp [addrs])
      cases hl : lookup addr m with
      | some id =>
        obtain ⟨hnm, hall⟩ := hinv.closed addr id hl hOa hFa
        have hser : serD m (.node addr false s ks) = (.ref s id, m) := by
          simp [serD, hl]
        rw [hser]
        refine ⟨nm, ?_, hinv, Ext.refl m, ?_⟩
        · rw [hh] at hnm
          simp only [T.sort] at hnm
          simp only [deD]
          rw [hnm]
        · rw [hh] at hall; exact hall
      | none =>
        have hinv1 := hinv.open_node addr hl
        have hOk : ∀ a ∈ addrsL ks, ¬ (On a ∨ a = addr) ∧ ¬ F a := by
          intro a ha
          obtain ⟨h1, h2⟩ := hO a (by simp [addrs, ha])
          refine ⟨?_, h2⟩
          intro hc
          cases hc with
          | inl hc => exact h1 hc
          | inr hc => subst hc; exact hacyc ha
        obtain ⟨nm', hde, hinv', hext, hall⟩ :=
          roundtrips h ks ((addr, m.length) :: m) nm (fun x => On x ∨ x = addr) F hagk hinv1 hOk
        have hser : serD m (.node addr false s ks) =
            (.marked s m.length (serDs ((addr, m.length) :: m) ks).1,
              (serDs ((addr, m.length) :: m) ks).2) := by
          simp [serD, hl]
        have ha' : lookup addr (serDs ((addr, m.length) :: m) ks).2 = some m.length :=
          hext addr m.length (lookup_cons_eq _ _ _)
        have hallt : AllIn (serDs ((addr, m.length) :: m) ks).2 (.node addr false s ks) := by
          intro x hx
          simp only [addrs, ptrs] at hx
          rcases hx with hx | hx
          · cases hx with
            | head => rw [ha']; simp
            | tail _ hx => exact hall x (.inl hx)
          · exact hall x (.inr hx)
        have hrel : relabel (serDs ((addr, m.length) :: m) ks).2 (.node addr false s ks) =
            .node m.length false s (relabels (serDs ((addr, m.length) :: m) ks).2 ks) := by
          simp [relabel, rho, ha']
        rw [hser]
        refine ⟨((s, m.length), T.node m.length false s
            (relabels (serDs ((addr, m.length) :: m) ks).2 ks)) :: nm', ?_, ?_, ?_, hallt⟩
        · simp only [deD, hde, hrel]
        · have := Inv.store (On := On) (F := F) hinv' addr m.length
            (T.node m.length false s (relabels (serDs ((addr, m.length) :: m) ks).2 ks)) ha'
            (by intro x hx; simp [hx]) (by intro x _; exact Iff.rfl) hOa
            (.inr ⟨hFa, by rw [hh, hrel], by rw [hh]; exact hallt⟩)
          rw [hh] at this
          simpa [T.sort] using this
        · exact Ext.trans (Ext.cons_fresh m addr m.length hl) hext
  | .clo addr s pre post, m, nm, On, F, hag, hinv, hO => by
    simp only [Agrees] at hag
    obtain ⟨hh, hacyc1, hacyc2, hag1, hag2⟩ := hag
    obtain ⟨hOa, hFa⟩ := hO addr (by simp [addrs])
    cases hl : lookup addr m with
    | some id =>
      obtain ⟨hnm, hall⟩ := hinv.closed addr id hl hOa hFa
      have hser : serD m (.clo addr s pre post) = (.ref s id, m) := by
        simp [serD, hl]
      rw [hser]
      refine ⟨nm, ?_, hinv, Ext.refl m, ?_⟩
      · rw [hh] at hnm
        simp only [T.sort] at hnm
        simp only [deD]
        rw [hnm]
      · rw [hh] at hall; exact hall
    | none =>
      have hinv1 := hinv.open_node addr hl
      -- phase 1: the part read before the allocation
      have hO1 : ∀ a ∈ addrsL pre, ¬ (On a ∨ a = addr) ∧ ¬ F a := by
        intro a ha
        obtain ⟨h1, h2⟩ := hO a (by simp [addrs, ha])
        refine ⟨?_, h2⟩
        intro hc
        cases hc with
        | inl hc => exact h1 hc
        | inr hc => subst hc; exact hacyc1 ha
      obtain ⟨nm1, hde1, hinvp, hext1, hall1⟩ :=
        roundtrips h pre ((addr, m.length) :: m) nm (fun x => On x ∨ x = addr) F hag1 hinv1 hO1
      have hap : lookup addr (serDs ((addr, m.length) :: m) pre).2 = some m.length :=
        hext1 addr m.length (lookup_cons_eq _ _ _)
      -- allocation: the NodeMap gets the pointer
      have hinvF : Inv h (serDs ((addr, m.length) :: m) pre).2
          (((s, m.length), T.ptr m.length s) :: nm1) On (fun x => F x ∨ x = addr) := by
        have := Inv.store (On := On) (F := fun x => F x ∨ x = addr) hinvp addr m.length
          (T.ptr m.length s) hap
          (by intro x hx; simp [hx]) (by intro x hx; simp [hx]) hOa
          (.inl ⟨.inr rfl, by rw [hh]; rfl⟩)
        rw [hh] at this
        simpa [T.sort] using this
      -- phase 2: the part that fills the object
      have hO2 : ∀ a ∈ addrsL post, ¬ On a ∧ ¬ (F a ∨ a = addr) := by
        intro a ha
        obtain ⟨h1, h2⟩ := hO a (by simp [addrs, ha])
        refine ⟨h1, ?_⟩
        intro hc
        cases hc with
        | inl hc => exact h2 hc
        | inr hc => subst hc; exact hacyc2 ha
      obtain ⟨nm3, hde2, hinvq, hext2, hall2⟩ :=
        roundtrips h post (serDs ((addr, m.length) :: m) pre).2
          (((s, m.length), T.ptr m.length s) :: nm1) On (fun x => F x ∨ x = addr) hag2 hinvF hO2
      have haq : lookup addr (serDs (serDs ((addr, m.length) :: m) pre).2 post).2 =
          some m.length := hext2 addr m.length hap
      have hser : serD m (.clo addr s pre post) =
          (.cmarked s m.length pre.length ((serDs ((addr, m.length) :: m) pre).1 ++
              (serDs (serDs ((addr, m.length) :: m) pre).2 post).1),
            (serDs (serDs ((addr, m.length) :: m) pre).2 post).2) := by
        simp [serD, hl]
      have hpre : relabels (serDs (serDs ((addr, m.length) :: m) pre).2 post).2 pre =
          relabels (serDs ((addr, m.length) :: m) pre).2 pre :=
        relabels_ext _ _ hext2 pre hall1
      have hallt : AllIn (serDs (serDs ((addr, m.length) :: m) pre).2 post).2
          (.clo addr s pre post) := by
        intro x hx
        simp only [addrs, ptrs, List.mem_cons, List.mem_append] at hx
        rcases hx with (hx | hx | hx) | (hx | hx)
        · subst hx; rw [haq]; simp
        · exact (hall1.ext hext2) x (.inl hx)
        · exact hall2 x (.inl hx)
        · exact (hall1.ext hext2) x (.inr hx)
        · exact hall2 x (.inr hx)
      have hrel : relabel (serDs (serDs ((addr, m.length) :: m) pre).2 post).2
            (.clo addr s pre post) =
          .clo m.length s (relabels (serDs ((addr, m.length) :: m) pre).2 pre)
            (relabels (serDs (serDs ((addr, m.length) :: m) pre).2 post).2 post) := by
        simp [relabel, rho, haq, hpre]
      have hC := deDsC_append ((s, m.length), T.ptr m.length s)
        (serDs (serDs ((addr, m.length) :: m) pre).2 post).1
        (serDs ((addr, m.length) :: m) pre).1 nm _ _ hde1
      rw [serDs_length, hde2] at hC
      simp only at hC
      have hk : (relabels (serDs ((addr, m.length) :: m) pre).2 pre).length = pre.length :=
        relabels_length _ pre
      rw [hser]
      refine ⟨((s, m.length), T.clo m.length s
          (relabels (serDs ((addr, m.length) :: m) pre).2 pre)
          (relabels (serDs (serDs ((addr, m.length) :: m) pre).2 post).2 post)) :: nm3,
        ?_, ?_, ?_, hallt⟩
      · simp only [deD, hC, hrel]
        rw [← hk]
        simp
      · have := Inv.store (On := On) (F := F) hinvq addr m.length
          (T.clo m.length s (relabels (serDs ((addr, m.length) :: m) pre).2 pre)
            (relabels (serDs (serDs ((addr, m.length) :: m) pre).2 post).2 post)) haq
          (by intro x _; exact Iff.rfl) (by intro x hx; simp [hx]) hOa
          (.inr ⟨hFa, by rw [hh, hrel], by rw [hh]; exact hallt⟩)
        rw [hh] at this
        simpa [T.sort] using this
      · exact Ext.trans (Ext.trans (Ext.cons_fresh m addr m.length hl) hext1) hext2
theorem roundtrips (h : Nat → T) :
    (ts : List T) → (m : IdMap) → (nm : NodeMap) → (On F : Nat → Prop) →
    AgreesL h F ts → Inv h m nm On F → (∀ a ∈ addrsL ts, ¬ On a ∧ ¬ F a) →
    ∃ nm', deDs nm (serDs m ts).1 = .ok (relabels (serDs m ts).2 ts, nm') ∧
      Inv h (serDs m ts).2 nm' On F ∧ Ext m (serDs m ts).2 ∧ AllInL (serDs m ts).2 ts
  | [], m, nm, On, F, _, hinv, _ => by
    refine ⟨nm, ?_, ?_, ?_, ?_⟩
    · simp [serDs, deDs, relabels]
    · simpa [serDs] using hinv
    · simpa [serDs] using Ext.refl m
    · intro x hx; simp [addrsL, ptrsL] at hx
  | t :: ts, m, nm, On, F, hag, hinv, hO => by
    simp only [AgreesL] at hag
    obtain ⟨hag1, hag2⟩ := hag
    have hO1 : ∀ a ∈ addrs t, ¬ On a ∧ ¬ F a := by
      intro a ha; exact hO a (by simp [addrsL, ha])
    have hO2 : ∀ a ∈ addrsL ts, ¬ On a ∧ ¬ F a := by
      intro a ha; exact hO a (by simp [addrsL, ha])
    obtain ⟨nm1, hde1, hinv1, hext1, hall1⟩ := roundtrip h t m nm On F hag1 hinv hO1
    obtain ⟨nm2, hde2, hinv2, hext2, hall2⟩ :=
      roundtrips h ts (serD m t).2 nm1 On F hag2 hinv1 hO2
    have hser : serDs m (t :: ts) =
        ((serD m t).1 :: (serDs (serD m t).2 ts).1, (serDs (serD m t).2 ts).2) := by
      simp [serDs]
    rw [hser]
    refine ⟨nm2, ?_, hinv2, Ext.trans hext1 hext2, AllInL.cons (hall1.ext hext2) hall2⟩
    · simp only [deDs, hde1, hde2, relabels]
      rw [relabel_ext _ _ hext2 t hall1]
end

theorem inv_empty (h : Nat → T) : Inv h [] [] (fun _ => False) (fun _ => False) :=
  ⟨by intro a id hl; simp [lookup] at hl, by intro a a' id hl; simp [lookup] at hl,
   by intro a id hl; simp [lookup] at hl, by intro a hf; exact hf.elim⟩

/-! ### Forgetting sharing -/

mutual
theorem unfold_relabel (m : IdMap) : (t : T) → unfold (relabel m t) = unfold t
  | .atom a => by simp [relabel, unfold]
  | .node addr uniq s ks => by
    cases uniq <;> simp [relabel, unfold, unfolds_relabels m ks]
  | .clo addr s pre post => by
    simp [relabel, unfold, unfolds_relabels m pre, unfolds_relabels m post]
  | .ptr addr s => by simp [relabel, unfold]
theorem unfolds_relabels (m : IdMap) : (ts : List T) → unfolds (relabels m ts) = unfolds ts
  | [] => by simp [relabels, unfolds]
  | t :: ts => by simp [relabels, unfolds, unfold_relabel m t, unfolds_relabels m ts]
end


/-! ### Acyclicity follows from consistency -/

mutual
/-- An object unfolded somewhere in a consistent term is no bigger than the term. -/
theorem size_of_mem (h : Nat → T) (a : Nat) :
    (t : T) → (F : Nat → Prop) → Consistent h F t → a ∈ addrs t → size (h a) ≤ size t
  | .atom _, _, _, hm => by simp [addrs] at hm
  | .ptr _ _, _, _, hm => by simp [addrs] at hm
  | .node addr uniq s ks, F, hc, hm => by
    simp only [Consistent] at hc
    cases uniq with
    | true =>
      have hm' : a ∈ addrsL ks := by simpa [addrs] using hm
      have := size_of_memL h a ks F hc.2 hm'
      simp only [size]; omega
    | false =>
      simp only [addrs, Bool.false_eq_true, if_false, List.mem_cons] at hm
      rcases hm with hm | hm
      · subst hm; rw [hc.1 rfl]; exact Nat.le_refl _
      · have := size_of_memL h a ks F hc.2 hm
        simp only [size]; omega
  | .clo addr s pre post, F, hc, hm => by
    simp only [Consistent] at hc
    simp only [addrs, List.mem_cons, List.mem_append] at hm
    rcases hm with hm | hm | hm
    · subst hm; rw [hc.1]; exact Nat.le_refl _
    · have := size_of_memL h a pre F hc.2.1 hm
      simp only [size]; omega
    · have := size_of_memL h a post _ hc.2.2 hm
      simp only [size]; omega
theorem size_of_memL (h : Nat → T) (a : Nat) :
    (ts : List T) → (F : Nat → Prop) → ConsistentL h F ts → a ∈ addrsL ts →
      size (h a) ≤ sizeL ts
  | [], _, _, hm => by simp [addrsL] at hm
  | t :: ts, F, hc, hm => by
    simp only [ConsistentL] at hc
    simp only [addrsL, List.mem_append] at hm
    rcases hm with hm | hm
    · have := size_of_mem h a t F hc.1 hm
      simp only [sizeL]; omega
    · have := size_of_memL h a ts F hc.2 hm
      simp only [sizeL]; omega
end

mutual
theorem consistent_agrees (h : Nat → T) :
    (t : T) → (F : Nat → Prop) → Consistent h F t → Agrees h F t
  | .atom _, _, _ => by simp [Agrees]
  | .ptr addr s, F, hc => by simpa [Agrees, Consistent] using hc
  | .node addr uniq s ks, F, hc => by
    simp only [Consistent] at hc
    simp only [Agrees]
    refine ⟨?_, consistent_agreesL h ks F hc.2⟩
    intro hu
    refine ⟨hc.1 hu, ?_⟩
    intro hm
    have := size_of_memL h addr ks F hc.2 hm
    rw [hc.1 hu] at this
    simp only [size] at this
    omega
  | .clo addr s pre post, F, hc => by
    simp only [Consistent] at hc
    simp only [Agrees]
    refine ⟨hc.1, ?_, ?_, consistent_agreesL h pre F hc.2.1, consistent_agreesL h post _ hc.2.2⟩
    · intro hm
      have := size_of_memL h addr pre F hc.2.1 hm
      rw [hc.1] at this
      simp only [size] at this
      omega
    · intro hm
      have := size_of_memL h addr post _ hc.2.2 hm
      rw [hc.1] at this
      simp only [size] at this
      omega
theorem consistent_agreesL (h : Nat → T) :
    (ts : List T) → (F : Nat → Prop) → ConsistentL h F ts → AgreesL h F ts
  | [], _, _ => by simp [AgreesL]
  | t :: ts, F, hc => by
    simp only [ConsistentL] at hc
    exact ⟨consistent_agrees h t F hc.1, consistent_agreesL h ts F hc.2⟩
end

mutual
theorem agrees_consistent (h : Nat → T) :
    (t : T) → (F : Nat → Prop) → Agrees h F t → Consistent h F t
  | .atom _, _, _ => by simp [Consistent]
  | .ptr addr s, F, hc => by simpa [Agrees, Consistent] using hc
  | .node addr uniq s ks, F, hc => by
    simp only [Agrees] at hc
    exact ⟨fun hu => (hc.1 hu).1, agrees_consistentL h ks F hc.2⟩
  | .clo addr s pre post, F, hc => by
    simp only [Agrees] at hc
    exact ⟨hc.1, agrees_consistentL h pre F hc.2.2.2.1, agrees_consistentL h post _ hc.2.2.2.2⟩
theorem agrees_consistentL (h : Nat → T) :
    (ts : List T) → (F : Nat → Prop) → AgreesL h F ts → ConsistentL h F ts
  | [], _, _ => by simp [ConsistentL]
  | t :: ts, F, hc => by
    simp only [AgreesL] at hc
    exact ⟨agrees_consistent h t F hc.1, agrees_consistentL h ts F hc.2⟩
end


/-! ### Re-serialising the loaded graph gives the same stream -/

mutual
theorem serD_ext : (t : T) → (m : IdMap) → Ext m (serD m t).2
  | .atom _, m => by simpa [serD] using Ext.refl m
  | .ptr addr s, m => by
    cases hl : lookup addr m <;> simpa [serD, hl] using Ext.refl m
  | .node addr uniq s ks, m => by
    cases uniq with
    | true => simpa [serD] using serDs_ext ks m
    | false =>
      cases hl : lookup addr m with
      | some id => simpa [serD, hl] using Ext.refl m
      | none =>
        have := serDs_ext ks ((addr, m.length) :: m)
        simpa [serD, hl] using Ext.trans (Ext.cons_fresh m addr m.length hl) this
  | .clo addr s pre post, m => by
    cases hl : lookup addr m with
    | some id => simpa [serD, hl] using Ext.refl m
    | none =>
      have h1 := serDs_ext pre ((addr, m.length) :: m)
      have h2 := serDs_ext post (serDs ((addr, m.length) :: m) pre).2
      simpa [serD, hl] using Ext.trans (Ext.trans (Ext.cons_fresh m addr m.length hl) h1) h2
theorem serDs_ext : (ts : List T) → (m : IdMap) → Ext m (serDs m ts).2
  | [], m => by simpa [serDs] using Ext.refl m
  | t :: ts, m => by
    simpa [serDs] using Ext.trans (serD_ext t m) (serDs_ext ts (serD m t).2)
end

def Inj (m : IdMap) : Prop := ∀ a a' i, lookup a m = some i → lookup a' m = some i → a = a'

/-- The id table of the original graph and the one of its relabelled copy (address = id). -/
structure Rel (m m' : IdMap) : Prop where
  fwd : ∀ b i, lookup b m = some i → lookup i m' = some i
  bwd : ∀ i j, lookup i m' = some j → j = i ∧ ∃ b, lookup b m = some i
  len : m'.length = m.length

theorem Rel.nil : Rel [] [] :=
  ⟨by intro b i h; simp [lookup] at h, by intro i j h; simp [lookup] at h, rfl⟩

theorem Rel.cons {m m' : IdMap} (hr : Rel m m') (a : Nat) (hl : lookup a m = none) :
    Rel ((a, m.length) :: m) ((m.length, m.length) :: m') := by
  refine ⟨?_, ?_, by simp [hr.len]⟩
  · intro b i hb
    by_cases e : a = b
    · subst e; rw [lookup_cons_eq] at hb; cases hb; exact lookup_cons_eq _ _ _
    · rw [lookup_cons_ne _ _ _ _ e] at hb
      by_cases e' : m.length = i
      · subst e'; exact lookup_cons_eq _ _ _
      · rw [lookup_cons_ne _ _ _ _ e']; exact hr.fwd b i hb
  · intro i j hi
    by_cases e' : m.length = i
    · subst e'; rw [lookup_cons_eq] at hi; cases hi
      exact ⟨rfl, a, lookup_cons_eq _ _ _⟩
    · rw [lookup_cons_ne _ _ _ _ e'] at hi
      obtain ⟨hj, b, hb⟩ := hr.bwd i j hi
      refine ⟨hj, b, ?_⟩
      have : a ≠ b := by
        intro e; subst e; rw [hl] at hb; cases hb
      rw [lookup_cons_ne _ _ _ _ this]; exact hb

/-- Looking the relabelled address up in the relabelled table mirrors the original lookup. -/
theorem Rel.lookup_rho {m m' mfin : IdMap} (hr : Rel m m') (hext : Ext m mfin) (hinj : Inj mfin)
    (a : Nat) (ha : lookup a mfin ≠ none) :
    lookup (rho mfin a) m' = lookup a m := by
  cases hfin : lookup a mfin with
  | none => exact absurd hfin ha
  | some i =>
    have hrho : rho mfin a = i := by simp [rho, hfin]
    rw [hrho]
    cases hl : lookup a m with
    | some j =>
      have : j = i := by
        have := hext a j hl
        rw [hfin] at this; cases this; rfl
      subst this
      exact hr.fwd a j hl
    | none =>
      cases hl' : lookup i m' with
      | none => rfl
      | some j =>
        obtain ⟨_, b, hb⟩ := hr.bwd i j hl'
        have hb' := hext b i hb
        have : b = a := hinj b a i hb' hfin
        subst this
        rw [hl] at hb; cases hb

mutual
theorem reser (mfin : IdMap) (hinj : Inj mfin) :
    (t : T) → (m m' : IdMap) → Rel m m' → Ext (serD m t).2 mfin → AllIn mfin t →
    (serD m' (relabel mfin t)).1 = (serD m t).1 ∧ Rel (serD m t).2 (serD m' (relabel mfin t)).2
  | .atom a, m, m', hr, _, _ => by simpa [serD, relabel] using hr
  | .ptr addr s, m, m', hr, hext, hin => by
    have hm : Ext m mfin := Ext.trans (serD_ext (.ptr addr s) m) hext
    have ha : lookup addr mfin ≠ none := hin addr (.inr (by simp [ptrs]))
    have hlk := hr.lookup_rho hm hinj addr ha
    cases hl : lookup addr m with
    | some id => rw [hl] at hlk; simpa [serD, relabel, hl, hlk] using hr
    | none => rw [hl] at hlk; simpa [serD, relabel, hl, hlk] using hr
  | .node addr uniq s ks, m, m', hr, hext, hin => by
    have hk : AllInL mfin ks := by
      intro x hx
      apply hin x
      cases uniq <;> rcases hx with hx | hx <;> simp [addrs, ptrs, hx]
    cases uniq with
    | true =>
      have hext' : Ext (serDs m ks).2 mfin := by simpa [serD] using hext
      obtain ⟨h1, h2⟩ := resers mfin hinj ks m m' hr hext' hk
      simp [serD, relabel, h1, h2]
    | false =>
      have hm : Ext m mfin := Ext.trans (serD_ext (.node addr false s ks) m) hext
      have ha : lookup addr mfin ≠ none := hin addr (.inl (by simp [addrs]))
      have hlk := hr.lookup_rho hm hinj addr ha
      cases hl : lookup addr m with
      | some id =>
        rw [hl] at hlk
        simpa [serD, relabel, hl, hlk] using hr
      | none =>
        rw [hl] at hlk
        have hext' : Ext (serDs ((addr, m.length) :: m) ks).2 mfin := by
          simpa [serD, hl] using hext
        have hafin : lookup addr mfin = some m.length :=
          hext' addr m.length (serDs_ext ks _ addr m.length (lookup_cons_eq _ _ _))
        have hrho : rho mfin addr = m.length := by simp [rho, hafin]
        rw [hrho] at hlk
        have hr1 := hr.cons addr hl
        obtain ⟨h1, h2⟩ :=
          resers mfin hinj ks ((addr, m.length) :: m) ((m.length, m.length) :: m') hr1 hext' hk
        simp only [serD, relabel, hl, hrho, hlk, hr.len, Bool.false_eq_true, if_false]
        rw [← hr.len] at h1 h2 ⊢
        rw [hr.len] at h1 h2 ⊢
        exact ⟨by rw [h1], h2⟩
  | .clo addr s pre post, m, m', hr, hext, hin => by
    have hp : AllInL mfin pre := by
      intro x hx
      apply hin x
      rcases hx with hx | hx <;> simp [addrs, ptrs, hx]
    have hq : AllInL mfin post := by
      intro x hx
      apply hin x
      rcases hx with hx | hx <;> simp [addrs, ptrs, hx]
    have hm : Ext m mfin := Ext.trans (serD_ext (.clo addr s pre post) m) hext
    have ha : lookup addr mfin ≠ none := hin addr (.inl (by simp [addrs]))
    have hlk := hr.lookup_rho hm hinj addr ha
    cases hl : lookup addr m with
    | some id =>
      rw [hl] at hlk
      simpa [serD, relabel, hl, hlk] using hr
    | none =>
      rw [hl] at hlk
      have hext2 : Ext (serDs (serDs ((addr, m.length) :: m) pre).2 post).2 mfin := by
        simpa [serD, hl] using hext
      have hext1 : Ext (serDs ((addr, m.length) :: m) pre).2 mfin :=
        Ext.trans (serDs_ext post _) hext2
      have hafin : lookup addr mfin = some m.length :=
        hext1 addr m.length (serDs_ext pre _ addr m.length (lookup_cons_eq _ _ _))
      have hrho : rho mfin addr = m.length := by simp [rho, hafin]
      rw [hrho] at hlk
      have hr1 := hr.cons addr hl
      obtain ⟨h1, h2⟩ :=
        resers mfin hinj pre ((addr, m.length) :: m) ((m.length, m.length) :: m') hr1 hext1 hp
      obtain ⟨h3, h4⟩ :=
        resers mfin hinj post (serDs ((addr, m.length) :: m) pre).2
          (serDs ((m.length, m.length) :: m') (relabels mfin pre)).2 h2 hext2 hq
      simp only [serD, relabel, hl, hrho, hlk, hr.len, relabels_length]
      exact ⟨by rw [h1, h3], h4⟩
theorem resers (mfin : IdMap) (hinj : Inj mfin) :
    (ts : List T) → (m m' : IdMap) → Rel m m' → Ext (serDs m ts).2 mfin → AllInL mfin ts →
    (serDs m' (relabels mfin ts)).1 = (serDs m ts).1 ∧
      Rel (serDs m ts).2 (serDs m' (relabels mfin ts)).2
  | [], m, m', hr, _, _ => by simpa [serDs, relabels] using hr
  | t :: ts, m, m', hr, hext, hin => by
    have hext2 : Ext (serDs (serD m t).2 ts).2 mfin := by simpa [serDs] using hext
    have hext1 : Ext (serD m t).2 mfin := Ext.trans (serDs_ext ts _) hext2
    obtain ⟨h1, h2⟩ := reser mfin hinj t m m' hr hext1 hin.head
    obtain ⟨h3, h4⟩ := resers mfin hinj ts (serD m t).2 (serD m' (relabel mfin t)).2 h2 hext2 hin.tail
    simp only [serDs, relabels]
    exact ⟨by rw [h1, h3], h4⟩
end

/-! ### Framing: `parse` inverts `flat`, and rejects every proper prefix -/

mutual
/-- fuel that certainly suffices for `parse` on `flat d` -/
def cost : D → Nat
  | .atom _ => 1
  | .ref _ _ => 1
  | .marked _ _ ks => 1 + costL ks
  | .plain _ ks => 1 + costL ks
  | .cmarked _ _ _ ks => 1 + costL ks
def costL : List D → Nat
  | [] => 0
  | d :: ds => 1 + cost d + costL ds
end

mutual
theorem cost_le : (d : D) → cost d + 1 ≤ 2 * (flat d).length
  | .atom _ => by simp [cost, flat]
  | .ref _ _ => by simp [cost, flat]
  | .marked _ _ ks => by
    have := costL_le ks
    simp [cost, flat]; omega
  | .plain _ ks => by
    have := costL_le ks
    simp [cost, flat]; omega
  | .cmarked _ _ _ ks => by
    have := costL_le ks
    simp [cost, flat]; omega
theorem costL_le : (ds : List D) → costL ds ≤ 2 * (flats ds).length
  | [] => by simp [costL, flats]
  | d :: ds => by
    have := cost_le d
    have := costL_le ds
    simp [costL, flats]; omega
end

mutual
theorem parse_flat : (d : D) → (fuel : Nat) → (rest : List Tok) → cost d ≤ fuel →
    parse fuel (flat d ++ rest) = some (d, rest)
  | .atom a, fuel, rest, hf => by
    cases fuel with
    | zero => simp [cost] at hf
    | succ f => simp [flat, parse]
  | .ref s id, fuel, rest, hf => by
    cases fuel with
    | zero => simp [cost] at hf
    | succ f => simp [flat, parse]
  | .marked s id ks, fuel, rest, hf => by
    cases fuel with
    | zero => simp [cost] at hf
    | succ f =>
      have : costL ks ≤ f := by simp [cost] at hf; omega
      simp [flat, parse, parseN_flats ks f rest this]
  | .plain s ks, fuel, rest, hf => by
    cases fuel with
    | zero => simp [cost] at hf
    | succ f =>
      have : costL ks ≤ f := by simp [cost] at hf; omega
      simp [flat, parse, parseN_flats ks f rest this]
  | .cmarked s id k ks, fuel, rest, hf => by
    cases fuel with
    | zero => simp [cost] at hf
    | succ f =>
      have : costL ks ≤ f := by simp [cost] at hf; omega
      simp [flat, parse, parseN_flats ks f rest this]
theorem parseN_flats : (ds : List D) → (fuel : Nat) → (rest : List Tok) → costL ds ≤ fuel →
    parseN fuel ds.length (flats ds ++ rest) = some (ds, rest)
  | [], fuel, rest, _ => by simp [flats, parseN]
  | d :: ds, fuel, rest, hf => by
    cases fuel with
    | zero => simp [costL] at hf
    | succ f =>
      have h1 : cost d ≤ f := by simp [costL] at hf; omega
      have h2 : costL ds ≤ f := by simp [costL] at hf; omega
      simp [flats, parseN, List.append_assoc, parse_flat d f (flats ds ++ rest) h1,
        parseN_flats ds f rest h2]
end

mutual
/-- With any fuel, `parse` on a complete value either gives up or returns exactly that value. -/
theorem parse_flat_or_none : (d : D) → (fuel : Nat) → (rest : List Tok) →
    parse fuel (flat d ++ rest) = none ∨ parse fuel (flat d ++ rest) = some (d, rest)
  | .atom a, fuel, rest => by
    cases fuel <;> simp [flat, parse]
  | .ref s id, fuel, rest => by
    cases fuel <;> simp [flat, parse]
  | .marked s id ks, fuel, rest => by
    cases fuel with
    | zero => simp [parse]
    | succ f =>
      cases parseN_flats_or_none ks f rest with
      | inl h => left; simp [flat, parse, h]
      | inr h => right; simp [flat, parse, h]
  | .plain s ks, fuel, rest => by
    cases fuel with
    | zero => simp [parse]
    | succ f =>
      cases parseN_flats_or_none ks f rest with
      | inl h => left; simp [flat, parse, h]
      | inr h => right; simp [flat, parse, h]
  | .cmarked s id k ks, fuel, rest => by
    cases fuel with
    | zero => simp [parse]
    | succ f =>
      cases parseN_flats_or_none ks f rest with
      | inl h => left; simp [flat, parse, h]
      | inr h => right; simp [flat, parse, h]
theorem parseN_flats_or_none : (ds : List D) → (fuel : Nat) → (rest : List Tok) →
    parseN fuel ds.length (flats ds ++ rest) = none ∨
      parseN fuel ds.length (flats ds ++ rest) = some (ds, rest)
  | [], fuel, rest => by simp [flats, parseN]
  | d :: ds, fuel, rest => by
    cases fuel with
    | zero => simp [parseN]
    | succ f =>
      cases parse_flat_or_none d f (flats ds ++ rest) with
      | inl h => left; simp [flats, parseN, List.append_assoc, h]
      | inr h =>
        cases parseN_flats_or_none ds f rest with
        | inl h' => left; simp [flats, parseN, List.append_assoc, h, h']
        | inr h' => right; simp [flats, parseN, List.append_assoc, h, h']
end

mutual
/-- A proper prefix of a serialised value never parses (whatever the fuel). -/
theorem parse_prefix_none : (d : D) → (fuel : Nat) → (p q : List Tok) → q ≠ [] →
    p ++ q = flat d → parse fuel p = none
  | .atom a, fuel, p, q, hq, he => by
    cases p with
    | nil => cases fuel <;> simp [parse]
    | cons x p' =>
      simp [flat] at he
      exact absurd he.2.2 hq
  | .ref s id, fuel, p, q, hq, he => by
    cases p with
    | nil => cases fuel <;> simp [parse]
    | cons x p' =>
      simp [flat] at he
      exact absurd he.2.2 hq
  | .marked s id ks, fuel, p, q, hq, he => by
    cases p with
    | nil => cases fuel <;> simp [parse]
    | cons x p' =>
      simp [flat] at he
      obtain ⟨hx, hp⟩ := he
      subst hx
      cases fuel with
      | zero => simp [parse]
      | succ f => simp [parse, parseN_prefix_none ks f p' q hq hp]
  | .plain s ks, fuel, p, q, hq, he => by
    cases p with
    | nil => cases fuel <;> simp [parse]
    | cons x p' =>
      simp [flat] at he
      obtain ⟨hx, hp⟩ := he
      subst hx
      cases fuel with
      | zero => simp [parse]
      | succ f => simp [parse, parseN_prefix_none ks f p' q hq hp]
  | .cmarked s id k ks, fuel, p, q, hq, he => by
    cases p with
    | nil => cases fuel <;> simp [parse]
    | cons x p' =>
      simp [flat] at he
      obtain ⟨hx, hp⟩ := he
      subst hx
      cases fuel with
      | zero => simp [parse]
      | succ f => simp [parse, parseN_prefix_none ks f p' q hq hp]
theorem parseN_prefix_none : (ds : List D) → (fuel : Nat) → (p q : List Tok) → q ≠ [] →
    p ++ q = flats ds → parseN fuel ds.length p = none
  | [], fuel, p, q, hq, he => by
    simp [flats] at he
    exact absurd he.2 hq
  | d :: ds, fuel, p, q, hq, he => by
    cases fuel with
    | zero => simp [parseN]
    | succ f =>
      simp only [flats] at he
      rcases List.append_eq_append_iff.mp he with ⟨a', h1, h2⟩ | ⟨c', h1, h2⟩
      · -- flat d = p ++ a'
        by_cases ha : a' = []
        · subst ha
          simp at h1 h2
          -- p = flat d, q = flats ds
          have hp : parse f p = none ∨ parse f p = some (d, []) := by
            have := parse_flat_or_none d f []
            simpa [h1] using this
          cases hp with
          | inl hp => simp [parseN, hp]
          | inr hp =>
            have : parseN f ds.length [] = none :=
              parseN_prefix_none ds f [] q hq (by simp [h2])
            simp [parseN, hp, this]
        · have : parse f p = none := parse_prefix_none d f p a' ha h1.symm
          simp [parseN, this]
      · -- p = flat d ++ c', flats ds = c' ++ q
        have hp : parse f p = none ∨ parse f p = some (d, c') := by
          have := parse_flat_or_none d f c'
          simpa [h1] using this
        cases hp with
        | inl hp => simp [parseN, hp]
        | inr hp =>
          have : parseN f ds.length c' = none := parseN_prefix_none ds f c' q hq h2.symm
          simp [parseN, hp, this]
end

end GluonModel.Share.Proofs
