/-
Lemmas about the sharing scheme (`GluonModel.Share`): round trip of `serD`/`deD` on graphs with
sharing, and framing (`flat`/`parse`).
-/
import GluonModel.Share

namespace GluonModel.Share.Proofs
open GluonModel.Share

/-! ### lookup -/

theorem lookup_cons_eq {α β : Type} [DecidableEq α] (k : α) (v : β) (l : List (α × β)) :
    lookup k ((k, v) :: l) = some v := by
  simp [lookup]

theorem lookup_cons_ne {α β : Type} [DecidableEq α] (k k' : α) (v : β) (l : List (α × β))
    (h : k' ≠ k) : lookup k ((k', v) :: l) = lookup k l := by
  simp [lookup, h]

/-- `m'` extends `m`: every binding of `m` is still there. -/
def Ext (m m' : IdMap) : Prop := ∀ a id, lookup a m = some id → lookup a m' = some id

theorem Ext.refl (m : IdMap) : Ext m m := fun _ _ h => h

theorem Ext.trans {m₁ m₂ m₃ : IdMap} (h₁ : Ext m₁ m₂) (h₂ : Ext m₂ m₃) : Ext m₁ m₃ :=
  fun a id h => h₂ a id (h₁ a id h)

theorem Ext.cons_fresh (m : IdMap) (a id : Nat) (h : lookup a m = none) : Ext m ((a, id) :: m) := by
  intro x i hx
  have : a ≠ x := by
    intro e; subst e; rw [h] at hx; cases hx
  rw [lookup_cons_ne _ _ _ _ this]; exact hx

theorem rho_ext {m m' : IdMap} (hext : Ext m m') (a : Nat) (h : lookup a m ≠ none) :
    rho m' a = rho m a := by
  cases hl : lookup a m with
  | none => exact absurd hl h
  | some id => simp [rho, hl, hext a id hl]

mutual
theorem relabel_ext (m m' : IdMap) (hext : Ext m m') :
    (t : T) → (∀ x ∈ addrs t, lookup x m ≠ none) → relabel m' t = relabel m t
  | .atom a, _ => by simp [relabel]
  | .node addr uniq s ks, hin => by
    cases uniq with
    | true =>
      have hk : ∀ x ∈ addrsL ks, lookup x m ≠ none := by
        intro x hx; exact hin x (by simp [addrs, hx])
      simp [relabel, relabels_ext m m' hext ks hk]
    | false =>
      have hk : ∀ x ∈ addrsL ks, lookup x m ≠ none := by
        intro x hx; exact hin x (by simp [addrs, hx])
      have ha : lookup addr m ≠ none := hin addr (by simp [addrs])
      simp [relabel, relabels_ext m m' hext ks hk, rho_ext hext addr ha]
theorem relabels_ext (m m' : IdMap) (hext : Ext m m') :
    (ts : List T) → (∀ x ∈ addrsL ts, lookup x m ≠ none) → relabels m' ts = relabels m ts
  | [], _ => by simp [relabels]
  | t :: ts, hin => by
    have h1 : ∀ x ∈ addrs t, lookup x m ≠ none := by
      intro x hx; exact hin x (by simp [addrsL, hx])
    have h2 : ∀ x ∈ addrsL ts, lookup x m ≠ none := by
      intro x hx; exact hin x (by simp [addrsL, hx])
    simp [relabels, relabel_ext m m' hext t h1, relabels_ext m m' hext ts h2]
end

/-! ### The invariant relating `node_to_id` and the `NodeMap` -/

/-- `O` is the set of nodes whose `Marked(…)` is still being written / read. -/
structure Inv (h : Nat → T) (m : IdMap) (nm : NodeMap) (O : Nat → Prop) : Prop where
  bound : ∀ a id, lookup a m = some id → id < m.length
  inj : ∀ a a' id, lookup a m = some id → lookup a' m = some id → a = a'
  closed : ∀ a id, lookup a m = some id → ¬ O a →
    ∃ s ks, h a = .node a false s ks ∧ lookup (s, id) nm = some (relabel m (h a)) ∧
      (∀ x ∈ addrs (h a), lookup x m ≠ none)

theorem Inv.open_node {h : Nat → T} {m : IdMap} {nm : NodeMap} {O : Nat → Prop}
    (hinv : Inv h m nm O) (a : Nat) (hl : lookup a m = none) :
    Inv h ((a, m.length) :: m) nm (fun x => O x ∨ x = a) := by
  have hext : Ext m ((a, m.length) :: m) := Ext.cons_fresh m a m.length hl
  refine ⟨?_, ?_, ?_⟩
  · intro x i hx
    by_cases e : a = x
    · subst e; rw [lookup_cons_eq] at hx; cases hx; simp
    · rw [lookup_cons_ne _ _ _ _ e] at hx
      have := hinv.bound x i hx
      simp; omega
  · intro x x' i hx hx'
    by_cases e : a = x
    · by_cases e' : a = x'
      · rw [← e, ← e']
      · subst e
        rw [lookup_cons_eq] at hx; cases hx
        rw [lookup_cons_ne _ _ _ _ e'] at hx'
        have := hinv.bound x' _ hx'
        omega
    · by_cases e' : a = x'
      · subst e'
        rw [lookup_cons_eq] at hx'; cases hx'
        rw [lookup_cons_ne _ _ _ _ e] at hx
        have := hinv.bound x _ hx
        omega
      · rw [lookup_cons_ne _ _ _ _ e] at hx
        rw [lookup_cons_ne _ _ _ _ e'] at hx'
        exact hinv.inj x x' i hx hx'
  · intro x i hx hO
    have hne : a ≠ x := fun e => hO (Or.inr e.symm)
    have hOx : ¬ O x := fun e => hO (Or.inl e)
    rw [lookup_cons_ne _ _ _ _ hne] at hx
    obtain ⟨s, ks, hh, hnm, hall⟩ := hinv.closed x i hx hOx
    refine ⟨s, ks, hh, ?_, ?_⟩
    · rw [relabel_ext m _ hext (h x) hall]; exact hnm
    · intro y hy
      have := hall y hy
      cases hl' : lookup y m with
      | none => exact absurd hl' this
      | some j => rw [hext y j hl']; simp

/-! ### Round trip with sharing -/

mutual
theorem roundtrip (h : Nat → T) :
    (t : T) → (m : IdMap) → (nm : NodeMap) → (O : Nat → Prop) →
    Agrees h t → Inv h m nm O → (∀ a ∈ addrs t, ¬ O a) →
    ∃ nm', deD nm (serD m t).1 = .ok (relabel (serD m t).2 t, nm') ∧ Inv h (serD m t).2 nm' O ∧
      Ext m (serD m t).2 ∧ (∀ x ∈ addrs t, lookup x (serD m t).2 ≠ none)
  | .atom a, m, nm, O, _, hinv, _ => by
    refine ⟨nm, ?_, ?_, ?_, ?_⟩
    · simp [serD, deD, relabel]
    · simpa [serD] using hinv
    · simpa [serD] using Ext.refl m
    · intro x hx; simp [addrs] at hx
  | .node addr uniq s ks, m, nm, O, hag, hinv, hO => by
    cases uniq with
    | true =>
      have hagk : AgreesL h ks := by
        simp [Agrees] at hag; exact hag
      have hOk : ∀ a ∈ addrsL ks, ¬ O a := by
        intro a ha; exact hO a (by simp [addrs, ha])
      obtain ⟨nm', hde, hinv', hext, hall⟩ := roundtrips h ks m nm O hagk hinv hOk
      refine ⟨nm', ?_, ?_, ?_, ?_⟩
      · simp [serD, deD, hde, relabel]
      · simpa [serD] using hinv'
      · simpa [serD] using hext
      · intro x hx
        have : x ∈ addrsL ks := by simpa [addrs] using hx
        simpa [serD] using hall x this
    | false =>
      have hag' := hag
      simp only [Agrees] at hag'
      obtain ⟨hnode, hagk⟩ := hag'
      obtain ⟨hh, hacyc⟩ := hnode trivial
      have hOa : ¬ O addr := hO addr (by simp [addrs])
      cases hl : lookup addr m with
      | some id =>
        obtain ⟨s', ks', hh', hnm, hall⟩ := hinv.closed addr id hl hOa
        have hs : s' = s := by
          rw [hh] at hh'; cases hh'; rfl
        subst hs
        have hser : serD m (.node addr false s' ks) = (.ref s' id, m) := by
          simp [serD, hl]
        rw [hser]
        refine ⟨nm, ?_, hinv, Ext.refl m, ?_⟩
        · simp only [deD]
          rw [hnm, hh]
        · intro x hx
          rw [hh] at hall
          exact hall x hx
      | none =>
        have hinv1 := hinv.open_node addr hl
        have hOk : ∀ a ∈ addrsL ks, ¬ (O a ∨ a = addr) := by
          intro a ha hc
          cases hc with
          | inl hc => exact hO a (by simp [addrs, ha]) hc
          | inr hc => subst hc; exact hacyc ha
        obtain ⟨nm', hde, hinv', hext, hall⟩ :=
          roundtrips h ks ((addr, m.length) :: m) nm (fun x => O x ∨ x = addr) hagk hinv1 hOk
        -- abbreviations
        have hser : serD m (.node addr false s ks) =
            (.marked s m.length (serDs ((addr, m.length) :: m) ks).1,
              (serDs ((addr, m.length) :: m) ks).2) := by
          simp [serD, hl]
        have ha' : lookup addr (serDs ((addr, m.length) :: m) ks).2 = some m.length :=
          hext addr m.length (lookup_cons_eq _ _ _)
        rw [hser]
        refine ⟨((s, m.length), T.node m.length false s
            (relabels (serDs ((addr, m.length) :: m) ks).2 ks)) :: nm', ?_, ?_, ?_, ?_⟩
        · simp only [deD, hde, relabel, rho, ha']
          simp
        · refine ⟨hinv'.bound, hinv'.inj, ?_⟩
          intro x i hx hOx
          by_cases e : x = addr
          · subst e
            have : i = m.length := by
              rw [ha'] at hx; cases hx; rfl
            subst this
            refine ⟨s, ks, hh, ?_, ?_⟩
            · rw [hh]
              simp [lookup, relabel, rho, ha']
            · rw [hh]
              intro y hy
              simp only [addrs] at hy
              cases hy with
              | head => rw [ha']; simp
              | tail _ hy => exact hall y hy
          · obtain ⟨s', ks', hh', hnm, hall'⟩ :=
              hinv'.closed x i hx (fun hc => hc.elim hOx e)
            refine ⟨s', ks', hh', ?_, hall'⟩
            have hne : ¬ ((s, m.length) = (s', i)) := by
              intro hc
              have : i = m.length := by cases hc; rfl
              subst this
              exact e (hinv'.inj x addr _ hx ha')
            simp only [lookup, hne, if_false]
            exact hnm
        · exact Ext.trans (Ext.cons_fresh m addr m.length hl) hext
        · intro x hx
          simp only [addrs] at hx
          cases hx with
          | head => rw [ha']; simp
          | tail _ hx => exact hall x hx
theorem roundtrips (h : Nat → T) :
    (ts : List T) → (m : IdMap) → (nm : NodeMap) → (O : Nat → Prop) →
    AgreesL h ts → Inv h m nm O → (∀ a ∈ addrsL ts, ¬ O a) →
    ∃ nm', deDs nm (serDs m ts).1 = .ok (relabels (serDs m ts).2 ts, nm') ∧
      Inv h (serDs m ts).2 nm' O ∧ Ext m (serDs m ts).2 ∧
      (∀ x ∈ addrsL ts, lookup x (serDs m ts).2 ≠ none)
  | [], m, nm, O, _, hinv, _ => by
    refine ⟨nm, ?_, ?_, ?_, ?_⟩
    · simp [serDs, deDs, relabels]
    · simpa [serDs] using hinv
    · simpa [serDs] using Ext.refl m
    · intro x hx; simp [addrsL] at hx
  | t :: ts, m, nm, O, hag, hinv, hO => by
    simp only [AgreesL] at hag
    obtain ⟨hag1, hag2⟩ := hag
    have hO1 : ∀ a ∈ addrs t, ¬ O a := by
      intro a ha; exact hO a (by simp [addrsL, ha])
    have hO2 : ∀ a ∈ addrsL ts, ¬ O a := by
      intro a ha; exact hO a (by simp [addrsL, ha])
    obtain ⟨nm1, hde1, hinv1, hext1, hall1⟩ := roundtrip h t m nm O hag1 hinv hO1
    obtain ⟨nm2, hde2, hinv2, hext2, hall2⟩ :=
      roundtrips h ts (serD m t).2 nm1 O hag2 hinv1 hO2
    have hser : serDs m (t :: ts) =
        ((serD m t).1 :: (serDs (serD m t).2 ts).1, (serDs (serD m t).2 ts).2) := by
      simp [serDs]
    rw [hser]
    refine ⟨nm2, ?_, hinv2, Ext.trans hext1 hext2, ?_⟩
    · simp only [deDs, hde1, hde2, relabels]
      rw [relabel_ext _ _ hext2 t hall1]
    · intro x hx
      simp only [addrsL, List.mem_append] at hx
      cases hx with
      | inl hx =>
        have := hall1 x hx
        cases hl' : lookup x (serD m t).2 with
        | none => exact absurd hl' this
        | some j => rw [hext2 x j hl']; simp
      | inr hx => exact hall2 x hx
end

theorem inv_empty (h : Nat → T) : Inv h [] [] (fun _ => False) :=
  ⟨by intro a id hl; simp [lookup] at hl, by intro a a' id hl; simp [lookup] at hl,
   by intro a id hl; simp [lookup] at hl⟩

/-! ### Forgetting sharing -/

mutual
theorem unfold_relabel (m : IdMap) : (t : T) → unfold (relabel m t) = unfold t
  | .atom a => by simp [relabel, unfold]
  | .node addr uniq s ks => by
    cases uniq <;> simp [relabel, unfold, unfolds_relabels m ks]
theorem unfolds_relabels (m : IdMap) : (ts : List T) → unfolds (relabels m ts) = unfolds ts
  | [] => by simp [relabels, unfolds]
  | t :: ts => by simp [relabels, unfolds, unfold_relabel m t, unfolds_relabels m ts]
end


/-! ### Framing: `parse` inverts `flat`, and rejects every proper prefix -/

mutual
/-- fuel that certainly suffices for `parse` on `flat d` -/
def cost : D → Nat
  | .atom _ => 1
  | .ref _ _ => 1
  | .marked _ _ ks => 1 + costL ks
  | .plain _ ks => 1 + costL ks
def costL : List D → Nat
  | [] => 0
  | d :: ds => 1 + cost d + costL ds
end

mutual
theorem cost_le : (d : D) → cost d + 1 ≤ 2 * (flat d).length
  | .atom _ => by simp [cost, flat]
  | .ref _ _ => by simp [cost, flat]
  | .marked _ _ ks => by
    have := costL_le ks
    simp [cost, flat]; omega
  | .plain _ ks => by
    have := costL_le ks
    simp [cost, flat]; omega
theorem costL_le : (ds : List D) → costL ds ≤ 2 * (flats ds).length
  | [] => by simp [costL, flats]
  | d :: ds => by
    have := cost_le d
    have := costL_le ds
    simp [costL, flats]; omega
end

mutual
theorem parse_flat : (d : D) → (fuel : Nat) → (rest : List Tok) → cost d ≤ fuel →
    parse fuel (flat d ++ rest) = some (d, rest)
  | .atom a, fuel, rest, hf => by
    cases fuel with
    | zero => simp [cost] at hf
    | succ f => simp [flat, parse]
  | .ref s id, fuel, rest, hf => by
    cases fuel with
    | zero => simp [cost] at hf
    | succ f => simp [flat, parse]
  | .marked s id ks, fuel, rest, hf => by
    cases fuel with
    | zero => simp [cost] at hf
    | succ f =>
      have : costL ks ≤ f := by simp [cost] at hf; omega
      simp [flat, parse, parseN_flats ks f rest this]
  | .plain s ks, fuel, rest, hf => by
    cases fuel with
    | zero => simp [cost] at hf
    | succ f =>
      have : costL ks ≤ f := by simp [cost] at hf; omega
      simp [flat, parse, parseN_flats ks f rest this]
theorem parseN_flats : (ds : List D) → (fuel : Nat) → (rest : List Tok) → costL ds ≤ fuel →
    parseN fuel ds.length (flats ds ++ rest) = some (ds, rest)
  | [], fuel, rest, _ => by simp [flats, parseN]
  | d :: ds, fuel, rest, hf => by
    cases fuel with
    | zero => simp [costL] at hf
    | succ f =>
      have h1 : cost d ≤ f := by simp [costL] at hf; omega
      have h2 : costL ds ≤ f := by simp [costL] at hf; omega
      simp [flats, parseN, List.append_assoc, parse_flat d f (flats ds ++ rest) h1,
        parseN_flats ds f rest h2]
end

mutual
/-- With any fuel, `parse` on a complete value either gives up or returns exactly that value. -/
theorem parse_flat_or_none : (d : D) → (fuel : Nat) → (rest : List Tok) →
    parse fuel (flat d ++ rest) = none ∨ parse fuel (flat d ++ rest) = some (d, rest)
  | .atom a, fuel, rest => by
    cases fuel <;> simp [flat, parse]
  | .ref s id, fuel, rest => by
    cases fuel <;> simp [flat, parse]
  | .marked s id ks, fuel, rest => by
    cases fuel with
    | zero => simp [parse]
    | succ f =>
      cases parseN_flats_or_none ks f rest with
      | inl h => left; simp [flat, parse, h]
      | inr h => right; simp [flat, parse, h]
  | .plain s ks, fuel, rest => by
    cases fuel with
    | zero => simp [parse]
    | succ f =>
      cases parseN_flats_or_none ks f rest with
      | inl h => left; simp [flat, parse, h]
      | inr h => right; simp [flat, parse, h]
theorem parseN_flats_or_none : (ds : List D) → (fuel : Nat) → (rest : List Tok) →
    parseN fuel ds.length (flats ds ++ rest) = none ∨
      parseN fuel ds.length (flats ds ++ rest) = some (ds, rest)
  | [], fuel, rest => by simp [flats, parseN]
  | d :: ds, fuel, rest => by
    cases fuel with
    | zero => simp [parseN]
    | succ f =>
      cases parse_flat_or_none d f (flats ds ++ rest) with
      | inl h => left; simp [flats, parseN, List.append_assoc, h]
      | inr h =>
        cases parseN_flats_or_none ds f rest with
        | inl h' => left; simp [flats, parseN, List.append_assoc, h, h']
        | inr h' => right; simp [flats, parseN, List.append_assoc, h, h']
end

mutual
/-- A proper prefix of a serialised value never parses (whatever the fuel). -/
theorem parse_prefix_none : (d : D) → (fuel : Nat) → (p q : List Tok) → q ≠ [] →
    p ++ q = flat d → parse fuel p = none
  | .atom a, fuel, p, q, hq, he => by
    cases p with
    | nil => cases fuel <;> simp [parse]
    | cons x p' =>
      simp [flat] at he
      exact absurd he.2.2 hq
  | .ref s id, fuel, p, q, hq, he => by
    cases p with
    | nil => cases fuel <;> simp [parse]
    | cons x p' =>
      simp [flat] at he
      exact absurd he.2.2 hq
  | .marked s id ks, fuel, p, q, hq, he => by
    cases p with
    | nil => cases fuel <;> simp [parse]
    | cons x p' =>
      simp [flat] at he
      obtain ⟨hx, hp⟩ := he
      subst hx
      cases fuel with
      | zero => simp [parse]
      | succ f => simp [parse, parseN_prefix_none ks f p' q hq hp]
  | .plain s ks, fuel, p, q, hq, he => by
    cases p with
    | nil => cases fuel <;> simp [parse]
    | cons x p' =>
      simp [flat] at he
      obtain ⟨hx, hp⟩ := he
      subst hx
      cases fuel with
      | zero => simp [parse]
      | succ f => simp [parse, parseN_prefix_none ks f p' q hq hp]
theorem parseN_prefix_none : (ds : List D) → (fuel : Nat) → (p q : List Tok) → q ≠ [] →
    p ++ q = flats ds → parseN fuel ds.length p = none
  | [], fuel, p, q, hq, he => by
    simp [flats] at he
    exact absurd he.2 hq
  | d :: ds, fuel, p, q, hq, he => by
    cases fuel with
    | zero => simp [parseN]
    | succ f =>
      simp only [flats] at he
      rcases List.append_eq_append_iff.mp he with ⟨a', h1, h2⟩ | ⟨c', h1, h2⟩
      · -- flat d = p ++ a'
        by_cases ha : a' = []
        · subst ha
          simp at h1 h2
          -- p = flat d, q = flats ds
          have hp : parse f p = none ∨ parse f p = some (d, []) := by
            have := parse_flat_or_none d f []
            simpa [h1] using this
          cases hp with
          | inl hp => simp [parseN, hp]
          | inr hp =>
            have : parseN f ds.length [] = none :=
              parseN_prefix_none ds f [] q hq (by simp [h2])
            simp [parseN, hp, this]
        · have : parse f p = none := parse_prefix_none d f p a' ha h1.symm
          simp [parseN, this]
      · -- p = flat d ++ c', flats ds = c' ++ q
        have hp : parse f p = none ∨ parse f p = some (d, c') := by
          have := parse_flat_or_none d f c'
          simpa [h1] using this
        cases hp with
        | inl hp => simp [parseN, hp]
        | inr hp =>
          have : parseN f ds.length c' = none := parseN_prefix_none ds f c' q hq h2.symm
          simp [parseN, hp, this]
end

end GluonModel.Share.Proofs
