import GluonModel.Marshal
import GluonModel.Proofs.Marshal
import GluonModel.Proofs.MarshalFull
namespace GluonModel.Marshal.Proofs
open GluonModel.Marshal

/-! ### records are read BY FIELD NAME, whatever the order of the fields in the record value
    (derive(Getable): `data.lookup_field(vm, "<name>")`, codegen/getable.rs:64 and :291) -/

theorem mem_namesOf (n : String) (v : Val) : ∀ ws : List (String × Val), (n, v) ∈ ws → n ∈ namesOf ws
  | [], h => by simp at h
  | (m, w) :: ws, h => by
    simp at h
    rcases h with ⟨rfl, rfl⟩ | h
    · simp [namesOf]
    · simp [namesOf, mem_namesOf n v ws h]

/-- in a record with distinct names, looking a present field up by name finds exactly its value,
    wherever it sits -/
theorem lookupIdx_mem (n : String) (v : Val) : ∀ (ws : List (String × Val)) (i : Nat),
    nodupB (namesOf ws) = true → (n, v) ∈ ws →
    ∃ k, lookupIdx n (namesOf ws) i = some (i + k) ∧ (pushF ws)[k]? = some (push v)
  | [], _, _, h => by simp at h
  | (m, w) :: ws, i, hd, h => by
    obtain ⟨hm, hd'⟩ := namesOf_mem_nodup m w ws hd
    by_cases e : m = n
    · subst e
      have hv : w = v := by
        simp at h
        rcases h with h | h
        · exact h.symm
        · exact absurd (mem_namesOf m v ws h) hm
      subst hv
      exact ⟨0, by simp [namesOf, lookupIdx], by simp [pushF]⟩
    · have h' : (n, v) ∈ ws := by
        simp at h
        rcases h with ⟨rfl, _⟩ | h
        · exact absurd rfl e
        · exact h
      obtain ⟨k, hk1, hk2⟩ := lookupIdx_mem n v ws (i + 1) hd' h'
      refine ⟨k + 1, ?_, ?_⟩
      · simp only [namesOf, lookupIdx, e, if_false, hk1]
        congr 1; omega
      · simpa [pushF] using hk2

theorem lookupField_mem (n : String) (v : Val) (ws : List (String × Val))
    (hd : nodupB (namesOf ws) = true) (h : (n, v) ∈ ws) :
    lookupField (.record (namesOf ws) (pushF ws)) n = some (push v) := by
  obtain ⟨k, hk1, hk2⟩ := lookupIdx_mem n v ws 0 hd h
  simp only [lookupField, hk1]
  simpa using hk2

/-- reading the declared fields `fs` out of a record that holds (at least) the fields `vs`, in ANY order -/
theorem getFs_any_order (ws : List (String × Val)) (hd : nodupB (namesOf ws) = true) :
    ∀ (fs : List (String × TCode)) (vs : List (String × Val)), WTf fs vs = true →
    (∀ p ∈ vs, p ∈ ws) → getFs fs (.record (namesOf ws) (pushF ws)) = some vs
  | [], [], _, _ => by simp [getFs]
  | (n, t) :: fs, (m, v) :: vs, h, hs => by
    simp [WTf] at h
    obtain ⟨⟨rfl, hv⟩, hrest⟩ := h
    have hl := lookupField_mem n v ws hd (hs (n, v) (by simp))
    have h1 := get_push_full t v hv
    have h2 := getFs_any_order ws hd fs vs hrest (fun p hp => hs p (by simp [hp]))
    simp [getFs, hl, h1, h2]
  | [], _ :: _, h, _ => by simp [WTf] at h
  | _ :: _, [], h, _ => by simp [WTf] at h

theorem namesOf_eq_map : ∀ ws : List (String × Val), namesOf ws = ws.map Prod.fst
  | [] => rfl
  | (n, v) :: ws => by simp [namesOf, namesOf_eq_map ws]

theorem nodupB_iff : ∀ l : List String, nodupB l = true ↔ l.Nodup
  | [] => by simp [nodupB]
  | x :: xs => by simp [nodupB, nodupB_iff xs]

/-- distinctness of the field names does not depend on the order of the fields -/
theorem nodupB_namesOf_perm (vs ws : List (String × Val)) (hd : nodupB (namesOf vs) = true)
    (hp : vs.Perm ws) : nodupB (namesOf ws) = true := by
  rw [nodupB_iff, namesOf_eq_map] at *
  exact (hp.map Prod.fst).nodup_iff.mp hd

end GluonModel.Marshal.Proofs
