/-
Totality: the fuel of `mark` always suffices (C05). Model: `GluonModel.GcHeap`.
-/
import GluonModel.GcHeap
import GluonModel.Proofs.GcHeap

namespace GluonModel.GcHeap

/-- Out-degrees of the ids of `l` that are not yet visited. -/
def pending (s : State) (vis : List Nat) : List Nat → Nat
  | [] => 0
  | i :: l => (if i ∈ vis then 0 else (succs s i).length) + pending s vis l

theorem pending_mono (s : State) (vis : List Nat) (x : Nat) (l : List Nat) :
    pending s (x :: vis) l ≤ pending s vis l := by
  induction l with
  | nil => simp [pending]
  | cons i l ih =>
    simp only [pending]
    by_cases h : i ∈ vis
    · have h' : i ∈ x :: vis := List.mem_cons_of_mem _ h
      rw [if_pos h, if_pos h']; omega
    · by_cases h2 : i ∈ x :: vis
      · rw [if_pos h2, if_neg h]; omega
      · rw [if_neg h2, if_neg h]; omega

theorem pending_visit (s : State) (vis : List Nat) (x : Nat) (l : List Nat) (hx : x ∈ l)
    (hv : x ∉ vis) :
    pending s (x :: vis) l + (succs s x).length ≤ pending s vis l := by
  induction l with
  | nil => simp at hx
  | cons i l ih =>
    simp only [pending]
    by_cases hi : i = x
    · subst hi
      have h1 : i ∈ i :: vis := List.mem_cons_self
      have := pending_mono s vis i l
      rw [if_pos h1, if_neg hv]; omega
    · have hx' : x ∈ l := by
        rcases List.mem_cons.mp hx with h | h
        · exact absurd h.symm hi
        · exact h
      have ih' := ih hx'
      by_cases h : i ∈ vis
      · have h' : i ∈ x :: vis := List.mem_cons_of_mem _ h
        rw [if_pos h, if_pos h']; omega
      · have h2 : i ∉ x :: vis := by
          intro hm
          rcases List.mem_cons.mp hm with hm | hm
          · exact hi hm
          · exact h hm
        rw [if_neg h, if_neg h2]; omega

theorem markGo_total (s : State) (t : HeapId) (hwf : WF s) :
    ∀ (f : Nat) (w vis : List Nat), w.length + pending s vis s.ids ≤ f →
      ∃ m, markGo s t f w vis = some m := by
  intro f
  induction f with
  | zero =>
    intro w vis h
    cases w with
    | nil => exact ⟨vis, by simp [markGo]⟩
    | cons x w => simp at h
  | succ f ih =>
    intro w vis h
    cases w with
    | nil => exact ⟨vis, by simp [markGo]⟩
    | cons x w =>
      simp only [markGo]
      split
      · exact ih w vis (by simp at h; omega)
      · rename_i hc
        have hsk : skip s t x = false := by
          cases hs : skip s t x <;> simp [hs] at hc ⊢
        have hvis : x ∉ vis := by
          intro hm
          have : vis.contains x = true := by simpa using hm
          simp [this] at hc
          exact hc.2 hm
        have hlive : ∃ o, s.obj x = some o := by
          unfold skip at hsk
          cases ho : s.obj x with
          | none => simp [ho] at hsk
          | some o => exact ⟨o, rfl⟩
        obtain ⟨o, ho⟩ := hlive
        have hx : x ∈ s.ids := by
          unfold State.ids; exact List.mem_range.mpr (hwf.lt ho)
        have := pending_visit s vis x s.ids hx hvis
        apply ih
        simp only [List.length_append]
        simp at h
        omega

theorem pending_le (s : State) (l : List Nat) :
    pending s [] l ≤ (l.map fun i => (succs s i).length + 1).sum := by
  induction l with
  | nil => simp [pending]
  | cons i l ih =>
    simp only [pending, List.map_cons, List.sum_cons]
    have : ¬ i ∈ ([] : List Nat) := by simp
    rw [if_neg this]; omega

/-- **The fuel of `mark` always suffices.** -/
theorem mark_total' (s : State) (t : HeapId) (hwf : WF s) : ∃ m, mark s t = some m := by
  unfold mark
  apply markGo_total s t hwf
  unfold markFuel
  have := pending_le s s.ids
  omega

theorem collect_total' (s : State) (t : HeapId) (hwf : WF s) : ∃ s', collect s t = some s' := by
  obtain ⟨m, hm⟩ := mark_total' s t hwf
  refine ⟨{ s with obj := sweepObj s t m }, ?_⟩
  simp [collect, hm]

end GluonModel.GcHeap
