import GluonModel.SurfTy
/-! Type safety of `Surf.eval` with respect to `SurfTy.HasType` (fuelled big-step soundness). -/
namespace GluonModel.SurfTy.Proofs
open GluonModel.Surf GluonModel.SurfTy

variable {D : Decls}

/-! ### function types -/

theorem funTy_append (as bs : List STy) (r : STy) : funTy (as ++ bs) r = funTy as (funTy bs r) := by
  induction as with
  | nil => rfl
  | cons a as ih => simp [funTy, ih]

theorem funTy_split : ∀ (σs τs : List STy) (τ ρ : STy), funTy σs τ = funTy τs ρ →
    σs.length ≤ τs.length → ∃ rest, τs = σs ++ rest ∧ τ = funTy rest ρ := by
  intro σs
  induction σs with
  | nil => intro τs τ ρ h _; exact ⟨τs, rfl, h⟩
  | cons a as ih =>
    intro τs τ ρ h hl
    cases τs with
    | nil => simp at hl
    | cons b bs =>
      simp only [funTy, STy.fn.injEq] at h
      obtain ⟨rest, h1, h2⟩ := ih bs τ ρ h.2 (by simpa using hl)
      exact ⟨rest, by simp [h.1, h1], h2⟩

/-! ### lists of shapes -/

theorem shapes_length : ∀ {vs : List Val} {τs : List STy}, HasShapes D vs τs → vs.length = τs.length := by
  intro vs
  induction vs with
  | nil => intro τs h; cases h; rfl
  | cons v vs ih => intro τs h; cases h with | cons _ h2 => simp [ih h2]

theorem shapes_append : ∀ {a : List Val} {σ : List STy} {b : List Val} {τ : List STy},
    HasShapes D a σ → HasShapes D b τ → HasShapes D (a ++ b) (σ ++ τ) := by
  intro a
  induction a with
  | nil => intro σ b τ h1 h2; cases h1; exact h2
  | cons v vs ih => intro σ b τ h1 h2; cases h1 with | cons hv hvs => exact .cons hv (ih hvs h2)

theorem shapes_split : ∀ {σs : List STy} {vs : List Val} {rest : List STy},
    HasShapes D vs (σs ++ rest) →
    HasShapes D (vs.take σs.length) σs ∧ HasShapes D (vs.drop σs.length) rest := by
  intro σs
  induction σs with
  | nil => intro vs rest h; exact ⟨by simpa using HasShapes.nil, by simpa using h⟩
  | cons a as ih =>
    intro vs rest h
    cases h with
    | cons hv hvs =>
      obtain ⟨h1, h2⟩ := ih hvs
      exact ⟨by simpa using HasShapes.cons hv h1, by simpa using h2⟩

theorem shapes_get : ∀ {vs : List Val} {τs : List STy} {i : Nat} {τ : STy},
    HasShapes D vs τs → τs[i]? = some τ → ∃ v, vs[i]? = some v ∧ HasShape D v τ := by
  intro vs
  induction vs with
  | nil => intro τs i τ h hi; cases h; simp at hi
  | cons v vs ih =>
    intro τs i τ h hi
    cases h with
    | cons hv hvs =>
      cases i with
      | zero => simp at hi; subst hi; exact ⟨v, by simp, hv⟩
      | succ i => simp at hi; obtain ⟨w, h1, h2⟩ := ih hvs hi; exact ⟨w, by simpa using h1, h2⟩

theorem shapes_replicate : ∀ {vs : List Val} {n : Nat} {τ : STy},
    HasShapes D vs (List.replicate n τ) → HasShapeAll D vs τ := by
  intro vs
  induction vs with
  | nil => intro n τ _; exact .nil
  | cons v vs ih =>
    intro n τ h
    cases n with
    | zero => simp at h; cases h
    | succ n =>
      simp only [List.replicate_succ] at h
      cases h with | cons hv hvs => exact .cons hv (ih hvs)

/-! ### environments -/

theorem envOk_lookup : ∀ {env : Env} {Γ : Ctx} {x : String} {S : Sch},
    EnvOk D env Γ → lookupCtx Γ x = some S → ∃ v, lookup env x = some v ∧ ∀ τ, S τ → HasShape D v τ := by
  intro env
  induction env with
  | nil => intro Γ x S h hl; cases h; simp [lookupCtx] at hl
  | cons b env ih =>
    intro Γ x S h hl
    cases h with
    | cons hv henv =>
      rename_i y v σ Γ'
      simp only [lookupCtx] at hl
      simp only [lookup]
      split at hl
      · rename_i hxy
        simp at hl; subst hl
        exact ⟨v, by simp [hxy], hv⟩
      · rename_i hxy
        obtain ⟨w, h1, h2⟩ := ih henv hl
        exact ⟨w, by simp [hxy, h1], h2⟩

theorem envOk_append : ∀ {a : Env} {Δ : Ctx} {env : Env} {Γ : Ctx},
    EnvOk D a Δ → EnvOk D env Γ → EnvOk D (a ++ env) (Δ ++ Γ) := by
  intro a
  induction a with
  | nil => intro Δ env Γ h1 h2; cases h1; exact h2
  | cons b a ih => intro Δ env Γ h1 h2; cases h1 with | cons hv ha => exact .cons hv (ih ha h2)

theorem envOk_bind : ∀ (xs : List String) {vs : List Val} {τs : List STy} {env : Env} {Γ : Ctx},
    HasShapes D vs τs → EnvOk D env Γ → EnvOk D (bindParams xs vs env) (bindCtx xs τs Γ) := by
  intro xs
  induction xs with
  | nil => intro vs τs env Γ _ h; simpa [bindParams, bindCtx] using h
  | cons x xs ih =>
    intro vs τs env Γ hs h
    cases hs with
    | nil => simpa [bindParams, bindCtx] using h
    | cons hv hvs =>
      simp only [bindParams, bindCtx]
      exact ih hvs (.cons (fun τ' hτ' => by cases hτ'; exact hv) h)

/-! ### safe results -/

theorem safe_err {e : Err} {σ τ : STy} (h : Safe D (.error e) σ) : Safe D (.error e) τ := by
  cases e <;> exact h

theorem safeL_err {e : Err} {σs : List STy} {τ : STy} (h : SafeL D (.error e) σs) :
    Safe D (.error e) τ := by
  cases e <;> exact h

theorem safe_errL {e : Err} {σ : STy} {τs : List STy} (h : Safe D (.error e) σ) :
    SafeL D (.error e) τs := by
  cases e <;> exact h

theorem safeL_errL {e : Err} {σs τs : List STy} (h : SafeL D (.error e) σs) :
    SafeL D (.error e) τs := by
  cases e <;> exact h

theorem safe_checked (n : Int) : Safe D (checked n) .int := by
  unfold checked
  split
  · exact .int
  · trivial

theorem safe_boolVal (b : Bool) : HasShape D (boolVal b) .bool := by
  cases b
  · exact .false_
  · exact .true_

theorem safe_primInt {op : String} (h : intOp op) (x y : Int) : Safe D (primOp op x y) .int := by
  rcases h with h | h | h | h <;> subst h <;> simp only [primOp]
  · exact safe_checked _
  · simp; exact safe_checked _
  · simp; exact safe_checked _
  · simp
    split
    · trivial
    · exact safe_checked _

theorem safe_primCmp {op : String} (h : cmpOp op) (x y : Int) : Safe D (primOp op x y) .bool := by
  rcases h with h | h <;> subst h <;> simp [primOp] <;> exact safe_boolVal _


/-! ### patterns -/

theorem liftCtx_append (a b : MCtx) : liftCtx (a ++ b) = liftCtx a ++ liftCtx b := by
  simp [liftCtx]

mutual
theorem matchPat_sound : ∀ (p : Pat) {v : Val} {τ : STy} {Δ : MCtx} {b : Env},
    PatType D p τ Δ → HasShape D v τ → matchPat p v = some b → EnvOk D b (liftCtx Δ)
  | .wild, v, τ, Δ, b, hp, hv, hm => by
    cases hp; simp [matchPat] at hm; subst hm; exact .nil
  | .var x, v, τ, Δ, b, hp, hv, hm => by
    cases hp; simp [matchPat] at hm; subst hm
    exact .cons (fun τ' hτ' => by cases hτ'; exact hv) .nil
  | .int n, v, τ, Δ, b, hp, hv, hm => by
    cases hp; cases hv; simp [matchPat] at hm; obtain ⟨_, rfl⟩ := hm; exact .nil
  | .str s, v, τ, Δ, b, hp, hv, hm => by
    cases hp; cases hv; simp [matchPat] at hm; obtain ⟨_, rfl⟩ := hm; exact .nil
  | .ctor tag ps, v, τ, Δ, b, hp, hv, hm => by
    cases hp with
    | ctor hd hps =>
      cases hv with
      | variant hd' hvs =>
        simp only [matchPat] at hm
        split at hm
        · rename_i htag
          subst htag
          rw [hd] at hd'
          cases hd'
          exact matchPats_sound ps hps hvs hm
        · cases hm
  | .record fs, v, τ, Δ, b, hp, hv, hm => by
    cases hp with
    | record hfs =>
      cases hv with
      | recd hvs =>
        simp only [matchPat] at hm
        exact matchFields_sound fs hfs hvs hm
  | .as x p, v, τ, Δ, b, hp, hv, hm => by
    cases hp with
    | as hp' =>
      simp only [matchPat] at hm
      split at hm
      · rename_i b' hb'
        cases hm
        exact .cons (fun τ' hτ' => by cases hτ'; exact hv) (matchPat_sound p hp' hv hb')
      · cases hm
theorem matchPats_sound : ∀ (ps : List Pat) {vs : List Val} {τs : List STy} {Δ : MCtx} {b : Env},
    PatsType D ps τs Δ → HasShapes D vs τs → matchPats ps vs = some b → EnvOk D b (liftCtx Δ)
  | [], vs, τs, Δ, b, hp, hv, hm => by
    cases hp; simp [matchPats] at hm; subst hm; exact .nil
  | p :: ps, vs, τs, Δ, b, hp, hv, hm => by
    cases hp with
    | cons hp1 hps =>
      cases hv with
      | cons hv1 hvs =>
        simp only [matchPats] at hm
        split at hm
        · rename_i b1 hb1
          split at hm
          · rename_i b2 hb2
            cases hm
            rw [liftCtx_append]
            exact envOk_append (matchPats_sound ps hps hvs hb2) (matchPat_sound p hp1 hv1 hb1)
          · cases hm
        · cases hm
theorem matchFields_sound : ∀ (fs : List (Nat × Pat)) {vs : List Val} {τs : List STy} {Δ : MCtx} {b : Env},
    FieldsType D fs τs Δ → HasShapes D vs τs → matchFields fs vs = some b → EnvOk D b (liftCtx Δ)
  | [], vs, τs, Δ, b, hp, hv, hm => by
    cases hp; simp [matchFields] at hm; subst hm; exact .nil
  | (i, p) :: fs, vs, τs, Δ, b, hp, hv, hm => by
    cases hp with
    | cons hi hp1 hfs =>
      obtain ⟨w, hw, hws⟩ := shapes_get hv hi
      simp only [matchFields, hw] at hm
      split at hm
      · rename_i b1 hb1
        split at hm
        · rename_i b2 hb2
          cases hm
          rw [liftCtx_append]
          exact envOk_append (matchFields_sound fs hfs hv hb2) (matchPat_sound p hp1 hws hb1)
        · cases hm
      · cases hm
end

/-! ### record layouts -/

theorem layout_sound : ∀ {layout : List Src} {σs βs τs : List STy} {fs bvs : List Val},
    LayoutOk layout σs βs τs → HasShapes D fs σs → HasShapes D bvs βs →
    ∃ vs, buildRecord layout fs bvs = some vs ∧ HasShapes D vs τs := by
  intro layout
  induction layout with
  | nil => intro σs βs τs fs bvs h _ _; cases h; exact ⟨[], by simp [buildRecord], .nil⟩
  | cons s l ih =>
    intro σs βs τs fs bvs h hf hb
    cases h with
    | field hi hl =>
      obtain ⟨v, hv, hvs⟩ := shapes_get hf hi
      obtain ⟨vs, h1, h2⟩ := ih hl hf hb
      refine ⟨v :: vs, ?_, .cons hvs h2⟩
      simp only [buildRecord] at h1 ⊢
      simp [List.mapM_cons, hv, h1]
    | base hj hl =>
      obtain ⟨v, hv, hvs⟩ := shapes_get hb hj
      obtain ⟨vs, h1, h2⟩ := ih hl hf hb
      refine ⟨v :: vs, ?_, .cons hvs h2⟩
      simp only [buildRecord] at h1 ⊢
      simp [List.mapM_cons, hv, h1]


/-! ### recursive groups -/

theorem funTy_fn : ∀ {τs : List STy} (ρ : STy), τs ≠ [] → ∃ a b, funTy τs ρ = .fn a b := by
  intro τs ρ h
  cases τs with
  | nil => exact absurd rfl h
  | cons t ts => exact ⟨t, funTy ts ρ, rfl⟩

theorem ne_nil_of_length_eq {α β} {xs : List α} {ys : List β} (h : xs.length = ys.length)
    (hy : ys ≠ []) : xs ≠ [] := by
  intro hx; subst hx
  cases ys with
  | nil => exact hy rfl
  | cons _ _ => simp at h

theorem group_get : ∀ {group : List (String × List String × Expr)} {Γ' : Ctx} {τs : List STy}
    {idx : Nat} {τ : STy}, HasGroup D Γ' group τs → τs[idx]? = some τ →
    ∃ f params body σs ρ, group[idx]? = some (f, params, body) ∧ τ = funTy σs ρ ∧
      σs.length = params.length ∧ params ≠ [] ∧ HasType D (bindCtx params σs Γ') body ρ := by
  intro group
  induction group with
  | nil => intro Γ' τs idx τ h hi; cases h; simp at hi
  | cons b rest ih =>
    intro Γ' τs idx τ h hi
    cases h with
    | cons hlen hne hbody hrest =>
      rename_i f0 params0 body0 σs0 ρ0 ts0
      cases idx with
      | zero =>
        simp at hi; subst hi
        exact ⟨f0, params0, body0, σs0, ρ0, by simp, rfl, hlen, hne, hbody⟩
      | succ i =>
        simp at hi
        obtain ⟨f, ps, bd, σs, ρ, h1, h2⟩ := ih hrest hi
        exact ⟨f, ps, bd, σs, ρ, by simpa using h1, h2⟩

theorem envOk_reverse : ∀ {a : Env} {Δ : Ctx}, EnvOk D a Δ → EnvOk D a.reverse Δ.reverse := by
  intro a
  induction a with
  | nil => intro Δ h; cases h; exact .nil
  | cons b a ih =>
    intro Δ h
    cases h with
    | cons hv ha =>
      simp only [List.reverse_cons]
      exact envOk_append (ih ha) (.cons hv .nil)

theorem envOk_recAux {group : List (String × List String × Expr)} {env : Env} {Γ : Ctx}
    {τs : List STy} (henv : EnvOk D env Γ) (hg : HasGroup D (recCtx group τs Γ) group τs) :
    ∀ (bs : List (String × List String × Expr)) (k : Nat) (ts : List STy),
      HasGroup D (recCtx group τs Γ) bs ts → (∀ j, ts[j]? = τs[k + j]?) →
      EnvOk D ((bs.zipIdx k).map fun (b, i) => (b.1, Val.recclos group i env))
        ((bs.zip ts).map fun (b, t) => (b.1, Sch.mono t)) := by
  intro bs
  induction bs with
  | nil => intro k ts h _; cases h; exact .nil
  | cons b bs ih =>
    intro k ts h hts
    cases h with
    | cons hlen hne hbody hrest =>
      rename_i f params body σs ρ ts'
      simp only [List.zipIdx_cons, List.map_cons, List.zip_cons_cons]
      obtain ⟨a, c, hac⟩ := funTy_fn ρ (ne_nil_of_length_eq hlen hne)
      have h0 := hts 0
      simp only [List.getElem?_cons_zero, Nat.add_zero] at h0
      refine .cons ?_ (ih (k + 1) ts' hrest ?_)
      · intro τ' hτ'
        cases hτ'
        rw [hac] at h0 ⊢
        exact .recclos henv hg h0.symm
      · intro j
        have := hts (j + 1)
        simp only [List.getElem?_cons_succ] at this
        rw [this]
        congr 1
        omega

theorem envOk_rec {group : List (String × List String × Expr)} {env : Env} {Γ : Ctx}
    {τs : List STy} (henv : EnvOk D env Γ) (hg : HasGroup D (recCtx group τs Γ) group τs) :
    EnvOk D (recEnv group env) (recCtx group τs Γ) := by
  unfold recEnv
  unfold recCtx at hg ⊢
  refine envOk_append (envOk_reverse ?_) henv
  have := envOk_recAux henv (by unfold recCtx; exact hg) group 0 τs (by unfold recCtx; exact hg) (by intro j; simp)
  simpa using this

/-! ### the main theorem -/

def Sound (D : Decls) (n : Nat) : Prop :=
  (∀ {Γ env e τ}, HasType D Γ e τ → EnvOk D env Γ → Safe D (eval n env e) τ) ∧
  (∀ {Γ env es τs}, HasTypes D Γ es τs → EnvOk D env Γ → SafeL D (evalList n env es) τs) ∧
  (∀ {Γ env v σ alts τ}, HasAlts D Γ σ alts τ → HasShape D v σ → EnvOk D env Γ →
      Safe D (evalAlts n env v alts) τ) ∧
  (∀ {f args σs τ}, HasShape D f (funTy σs τ) → HasShapes D args σs → Safe D (apply n f args) τ)

theorem sound_zero : Sound D 0 := by
  refine ⟨?_, ?_, ?_, ?_⟩ <;> intros
  · simp only [eval]; trivial
  · simp only [evalList]; trivial
  · simp only [evalAlts]; trivial
  · simp only [apply]; trivial

/-- applying a closure-like value (`clos` and `recclos` share this): enough arguments -/
theorem apply_body {n : Nat} (ih : Sound D n) {params : List String} {body : Expr} {env' : Env}
    {Γ' : Ctx} {τs σs : List STy} {ρ τ : STy} {args : List Val}
    (henv : EnvOk D env' Γ') (hlen : τs.length = params.length)
    (hbody : HasType D (bindCtx params τs Γ') body ρ) (heq : funTy σs τ = funTy τs ρ)
    (hargs : HasShapes D args σs) (hge : ¬ args.length < params.length) :
    Safe D (match eval n (bindParams params (args.take params.length) env') body with
      | .error e => .error e
      | .ok r => apply n r (args.drop params.length)) τ := by
  obtain ⟨ihE, _, _, ihP⟩ := ih
  have hl := shapes_length hargs
  obtain ⟨rest, h1, h2⟩ := funTy_split τs σs ρ τ heq.symm (by omega)
  subst h1
  obtain ⟨ht, hd⟩ := shapes_split hargs
  rw [hlen] at ht hd
  have hb := ihE hbody (envOk_bind params ht henv)
  generalize eval n (bindParams params (args.take params.length) env') body = r at hb ⊢
  cases r with
  | error err => exact safe_err hb
  | ok rv =>
    subst h2
    exact ihP hb hd

theorem sound_succ {n : Nat} (ih : Sound D n) : Sound D (n + 1) := by
  have ih' := ih
  obtain ⟨ihE, ihL, ihA, ihP⟩ := ih
  refine ⟨?_, ?_, ?_, ?_⟩
  · intro Γ env e τ hty henv
    cases hty with
    | int => simp only [eval]; exact .int
    | str => simp only [eval]; exact .str
    | var h hS =>
      simp only [eval]
      obtain ⟨v, hv, hs⟩ := envOk_lookup henv h
      simp only [hv]; exact hs _ hS
    | lam hne hlen hbody hτ =>
      simp only [eval]
      subst hτ
      obtain ⟨a, b, hab⟩ := funTy_fn _ (ne_nil_of_length_eq hlen hne)
      rw [hab]
      exact .clos henv hlen hbody hab.symm
    | app hf hφ hargs =>
      simp only [eval]
      have h1 := ihE hf henv
      generalize eval n env _ = r at h1 ⊢
      cases r with
      | error err => exact safe_err h1
      | ok fv =>
        have h2 := ihL hargs henv
        generalize evalList n env _ = rl at h2 ⊢
        cases rl with
        | error err => exact safeL_err h2
        | ok vs =>
          subst hφ
          exact ihP h1 h2
    | let_ h1 hp h2 =>
      simp only [eval]
      have hr := ihE h1 henv
      generalize eval n env _ = r at hr ⊢
      cases r with
      | error err => exact safe_err hr
      | ok v =>
        dsimp only
        cases hm : matchPat _ v with
        | none => trivial
        | some b => exact ihE h2 (envOk_append (matchPat_sound _ hp hr hm) henv)
    | letGen hσ hall h2 =>
      simp only [eval]
      have hr := ihE (hall _ hσ) henv
      generalize hev : eval n env _ = r at hr ⊢
      cases r with
      | error err => exact safe_err hr
      | ok v =>
        simp only [matchPat]
        refine ihE h2 (.cons (fun τ' hτ' => ?_) henv)
        have h' := ihE (hall _ hτ') henv
        rw [hev] at h'
        exact h'
    | letrec hg hb =>
      simp only [eval]
      exact ihE hb (envOk_rec henv hg)
    | ite hc ha hb =>
      simp only [eval]
      have hr := ihE hc henv
      generalize eval n env _ = r at hr ⊢
      cases r with
      | error err => exact safe_err hr
      | ok v =>
        cases hr with
        | false_ => exact ihE hb henv
        | true_ => exact ihE ha henv
    | primInt hop ha hb =>
      simp only [eval]
      have hr := ihE ha henv
      generalize eval n env _ = r at hr ⊢
      cases r with
      | error err => exact safe_err hr
      | ok v =>
        cases hr
        have hr2 := ihE hb henv
        generalize eval n env _ = r2 at hr2 ⊢
        cases r2 with
        | error err => exact safe_err hr2
        | ok v2 =>
          cases hr2
          exact safe_primInt hop _ _
    | primCmp hop ha hb =>
      simp only [eval]
      have hr := ihE ha henv
      generalize eval n env _ = r at hr ⊢
      cases r with
      | error err => exact safe_err hr
      | ok v =>
        cases hr
        have hr2 := ihE hb henv
        generalize eval n env _ = r2 at hr2 ⊢
        cases r2 with
        | error err => exact safe_err hr2
        | ok v2 =>
          cases hr2
          exact safe_primCmp hop _ _
    | and_ ha hb =>
      simp only [eval]
      have hr := ihE ha henv
      generalize eval n env _ = r at hr ⊢
      cases r with
      | error err => exact safe_err hr
      | ok v =>
        cases hr with
        | false_ => exact safe_boolVal false
        | true_ => exact ihE hb henv
    | or_ ha hb =>
      simp only [eval]
      have hr := ihE ha henv
      generalize eval n env _ = r at hr ⊢
      cases r with
      | error err => exact safe_err hr
      | ok v =>
        cases hr with
        | false_ => exact ihE hb henv
        | true_ => exact safe_boolVal true
    | ctor hd har hτ =>
      simp only [eval]
      subst hτ
      split
      · rename_i h0
        subst har
        rename_i τs
        have : τs = [] := List.length_eq_zero_iff.mp h0
        subst this
        exact .variant hd .nil
      · rename_i h0
        subst har
        rename_i τs
        obtain ⟨a, b, hab⟩ := funTy_fn (τs := τs) (.named _) (by intro h; subst h; exact h0 rfl)
        rw [hab]
        exact .ctorfn hd rfl hab.symm
    | false_ => simp only [eval]; exact .false_
    | true_ => simp only [eval]; exact .true_
    | match_ hs halts =>
      simp only [eval]
      have hr := ihE hs henv
      generalize eval n env _ = r at hr ⊢
      cases r with
      | error err => exact safe_err hr
      | ok v => exact ihA halts hr henv
    | record hfs hlay =>
      simp only [eval]
      have hr := ihL hfs henv
      generalize evalList n env _ = r at hr ⊢
      cases r with
      | error err => exact safeL_err hr
      | ok fs =>
        obtain ⟨vs, hb, hvs⟩ := layout_sound hlay hr .nil
        simp only [hb]
        exact .recd hvs
    | update hfs hbe hlay =>
      simp only [eval]
      have hr := ihL hfs henv
      generalize evalList n env _ = r at hr ⊢
      cases r with
      | error err => exact safeL_err hr
      | ok fs =>
        have hr2 := ihE hbe henv
        generalize eval n env _ = r2 at hr2 ⊢
        cases r2 with
        | error err => exact safe_err hr2
        | ok bv =>
          cases hr2 with
          | recd hbvs =>
            obtain ⟨vs, hb, hvs⟩ := layout_sound hlay hr hbvs
            simp only [hb]
            exact .recd hvs
    | proj he hi =>
      simp only [eval]
      have hr := ihE he henv
      generalize eval n env _ = r at hr ⊢
      cases r with
      | error err => exact safe_err hr
      | ok v =>
        cases hr with
        | recd hvs =>
          obtain ⟨w, hw, hs⟩ := shapes_get hvs hi
          simp only [hw]
          exact hs
    | array hes hrep =>
      simp only [eval]
      have hr := ihL hes henv
      generalize evalList n env _ = r at hr ⊢
      cases r with
      | error err => exact safeL_err hr
      | ok vs =>
        subst hrep
        exact .arr (shapes_replicate hr)
    | error => simp only [eval]; trivial
  · intro Γ env es τs hty henv
    cases hty with
    | nil => simp only [evalList]; exact .nil
    | cons h1 h2 =>
      simp only [evalList]
      have hr := ihE h1 henv
      generalize eval n env _ = r at hr ⊢
      cases r with
      | error err => exact safe_errL hr
      | ok v =>
        have hr2 := ihL h2 henv
        generalize evalList n env _ = r2 at hr2 ⊢
        cases r2 with
        | error err => exact safeL_errL hr2
        | ok vs => exact .cons hr hr2
  · intro Γ env v σ alts τ hty hv henv
    cases hty with
    | nil => simp only [evalAlts]; trivial
    | cons hp he hrest =>
      simp only [evalAlts]
      cases hm : matchPat _ v with
      | none => exact ihA hrest hv henv
      | some b => exact ihE he (envOk_append (matchPat_sound _ hp hv hm) henv)
  · intro f args σs τ hf hargs
    cases args with
    | nil =>
      cases hargs
      simp only [apply]
      exact hf
    | cons a as =>
      have hl := shapes_length hargs
      generalize hφ : funTy σs τ = φ at hf
      have hne : σs ≠ [] := by intro h; subst h; simp at hl
      obtain ⟨c, d, hcd⟩ := funTy_fn τ hne
      rw [hcd] at hφ
      cases hf with
      | int => cases hφ
      | str => cases hφ
      | false_ => cases hφ
      | true_ => cases hφ
      | recd _ => cases hφ
      | variant _ _ => cases hφ
      | arr _ => cases hφ
      | clos henv hlen hbody hab =>
        rename_i params body cenv Γ' τs ρ a' b'
        have heq : funTy σs τ = funTy τs ρ := by rw [hcd, hφ, hab]
        simp only [apply]
        split
        · rename_i hlt
          obtain ⟨rest, h1, h2⟩ := funTy_split σs τs τ ρ heq (by omega)
          have hrne : rest ≠ [] := by
            intro h; subst h
            have : τs.length = σs.length := by rw [h1]; simp
            omega
          obtain ⟨x, y, hxy⟩ := funTy_fn ρ hrne
          rw [h2, hxy]
          refine .pap (.clos henv hlen hbody hab) ?_ hargs
          rw [← hxy, ← h2, hcd, hφ]
        · rename_i hge
          exact apply_body ih' henv hlen hbody heq hargs hge
      | recclos henv hg hidx =>
        rename_i group idx cenv Γ' τs a' b'
        obtain ⟨fname, params, body, σs', ρ, hgi, hτ, hlen, hpne, hbody⟩ := group_get hg hidx
        have heq : funTy σs τ = funTy σs' ρ := by rw [hcd, hφ, hτ]
        have henv' := envOk_rec henv hg
        simp only [apply, hgi]
        have hp0 : ¬ params.length = 0 := by
          intro h; exact hpne (List.length_eq_zero_iff.mp h)
        simp only [hp0, if_false]
        split
        · rename_i hlt
          obtain ⟨rest, h1, h2⟩ := funTy_split σs σs' τ ρ heq (by omega)
          have hrne : rest ≠ [] := by
            intro h; subst h
            have : σs'.length = σs.length := by rw [h1]; simp
            omega
          obtain ⟨x, y, hxy⟩ := funTy_fn ρ hrne
          rw [h2, hxy]
          refine .pap (.recclos henv hg hidx) ?_ hargs
          rw [← hxy, ← h2, hcd, hφ]
        · rename_i hge
          exact apply_body ih' henv' hlen hbody heq hargs hge
      | ctorfn hd har hab =>
        rename_i dd tag arity τs a' b'
        have heq : funTy σs τ = funTy τs (.named dd) := by rw [hcd, hφ, hab]
        subst har
        simp only [apply]
        split
        · rename_i hlt
          obtain ⟨rest, h1, h2⟩ := funTy_split σs τs τ _ heq (by omega)
          have hrne : rest ≠ [] := by
            intro h; subst h
            have : τs.length = σs.length := by rw [h1]; simp
            omega
          obtain ⟨x, y, hxy⟩ := funTy_fn (.named dd) hrne
          rw [h2, hxy]
          refine .pap (.ctorfn hd rfl hab) ?_ hargs
          rw [← hxy, ← h2, hcd, hφ]
        · rename_i hge
          split
          · rename_i heql
            obtain ⟨rest, h1, h2⟩ := funTy_split σs τs τ _ heq (by omega)
            have : rest = [] := by
              have : τs.length = σs.length + rest.length := by rw [h1]; simp
              exact List.length_eq_zero_iff.mp (by omega)
            subst this
            simp at h1
            subst h1
            rw [h2]
            exact .variant hd hargs
          · rename_i hneq
            exfalso
            obtain ⟨rest, h1, h2⟩ := funTy_split τs σs _ τ heq.symm (by omega)
            have hrne : rest ≠ [] := by
              intro h; subst h
              have : σs.length = τs.length := by rw [h1]; simp
              omega
            obtain ⟨x, y, hxy⟩ := funTy_fn τ hrne
            rw [hxy] at h2
            cases h2
      | pap hg hφ0 hargs0 =>
        rename_i g args0 φ0 σ0 a' b'
        simp only [apply]
        refine ihP (σs := σ0 ++ σs) ?_ (shapes_append hargs0 hargs)
        rw [funTy_append, hcd, hφ, ← hφ0]
        exact hg

theorem sound_all (D : Decls) : ∀ n, Sound D n
  | 0 => sound_zero
  | n + 1 => sound_succ (sound_all D n)

end GluonModel.SurfTy.Proofs
