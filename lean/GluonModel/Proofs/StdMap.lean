import GluonModel.StdMap
/-! Lemmas about the binary search tree of std/map.glu. -/
namespace GluonModel.StdMap

variable {K V B : Type}

/-- The laws `compare` of a gluon `Ord` instance is expected to obey (they hold for `Int`,
    `icmp_lawful`, and for `String`). -/
structure LawfulCmp (cmp : K → K → Ordering) : Prop where
  eq_iff : ∀ a b, cmp a b = .eq ↔ a = b
  gt_iff : ∀ a b, cmp a b = .gt ↔ cmp b a = .lt
  lt_trans : ∀ a b c, cmp a b = .lt → cmp b c = .lt → cmp a c = .lt

theorem icmp_lawful : LawfulCmp icmp := by
  refine ⟨?_, ?_, ?_⟩
  · intro a b; unfold icmp
    (repeat' split) <;> first | (simp; done) | (simp; omega) | omega
  · intro a b; unfold icmp
    (repeat' split) <;> first | (simp; done) | (simp; omega) | omega
  · intro a b c; unfold icmp
    (repeat' split) <;> first | (simp; done) | (simp; omega) | omega

/-- `p` holds of every key of the tree. -/
def All (p : K → Prop) : Map K V → Prop
  | .tip => True
  | .bin k _ l r => p k ∧ All p l ∧ All p r

/-- The search-tree invariant: keys to the left are smaller, keys to the right are larger. -/
def Ordered (cmp : K → K → Ordering) : Map K V → Prop
  | .tip => True
  | .bin k _ l r =>
    All (fun x => cmp x k = .lt) l ∧ All (fun x => cmp k x = .lt) r ∧ Ordered cmp l ∧ Ordered cmp r

theorem All.imp {p q : K → Prop} (h : ∀ x, p x → q x) : ∀ {m : Map K V}, All p m → All q m
  | .tip, _ => trivial
  | .bin _ _ _ _, ⟨a, b, c⟩ => ⟨h _ a, All.imp h b, All.imp h c⟩

theorem all_insert {cmp : K → K → Ordering} {p : K → Prop} (k : K) (v : V) (hk : p k) :
    ∀ {m : Map K V}, All p m → All p (insert cmp k v m)
  | .tip, _ => ⟨hk, trivial, trivial⟩
  | .bin k2 v2 l r, ⟨a, b, c⟩ => by
    unfold insert
    split
    · exact ⟨a, all_insert k v hk b, c⟩
    · exact ⟨hk, b, c⟩
    · exact ⟨a, b, all_insert k v hk c⟩

theorem insert_ordered {cmp : K → K → Ordering} (hc : LawfulCmp cmp) (k : K) (v : V) :
    ∀ {m : Map K V}, Ordered cmp m → Ordered cmp (insert cmp k v m)
  | .tip, _ => ⟨trivial, trivial, trivial, trivial⟩
  | .bin k2 v2 l r, ⟨a, b, c, d⟩ => by
    unfold insert
    split
    next h => exact ⟨all_insert k v h a, b, insert_ordered hc k v c, d⟩
    next h =>
      have e : k = k2 := (hc.eq_iff _ _).1 h
      subst e
      exact ⟨a, b, c, d⟩
    next h => exact ⟨a, all_insert k v ((hc.gt_iff _ _).1 h) b, c, insert_ordered hc k v d⟩

theorem find_insert_same {cmp : K → K → Ordering} (hc : LawfulCmp cmp) (k : K) (v : V) :
    ∀ m : Map K V, find cmp k (insert cmp k v m) = some v
  | .tip => by simp [insert, find, (hc.eq_iff k k).2 rfl]
  | .bin k2 v2 l r => by
    unfold insert
    split
    next h => simp [find, h, find_insert_same hc k v l]
    next h => simp [find, (hc.eq_iff k k).2 rfl]
    next h => simp [find, h, find_insert_same hc k v r]

theorem find_insert_other {cmp : K → K → Ordering} (hc : LawfulCmp cmp) (k k' : K) (v : V)
    (hne : k' ≠ k) : ∀ m : Map K V, find cmp k' (insert cmp k v m) = find cmp k' m
  | .tip => by
    have : cmp k' k ≠ .eq := fun h => hne ((hc.eq_iff _ _).1 h)
    simp only [insert, find]
    split <;> simp_all
  | .bin k2 v2 l r => by
    unfold insert
    split
    next h => simp only [find]; rw [find_insert_other hc k k' v hne l]
    next h =>
      have e : k = k2 := (hc.eq_iff _ _).1 h
      subst e
      have : cmp k' k ≠ .eq := fun h => hne ((hc.eq_iff _ _).1 h)
      simp only [find]
      split <;> simp_all
    next h => simp only [find]; rw [find_insert_other hc k k' v hne r]

/-! ### `to_list` -/

theorem foldrWithKey_cons (m : Map K V) (acc : List (K × V)) :
    foldrWithKey (fun k v acc => (k, v) :: acc) acc m = toList m ++ acc := by
  induction m generalizing acc with
  | tip => simp [foldrWithKey, toList]
  | bin k v l r ihl ihr =>
    simp only [toList, foldrWithKey]
    rw [ihr acc, ihl, ihr [], ihl ((k, v) :: (toList r ++ []))]
    simp [toList]

theorem toList_tip : toList (.tip : Map K V) = [] := rfl

theorem toList_bin (k : K) (v : V) (l r : Map K V) :
    toList (.bin k v l r) = toList l ++ (k, v) :: toList r := by
  simp only [toList, foldrWithKey]
  rw [foldrWithKey_cons r [], foldrWithKey_cons l]
  simp [toList]

theorem all_iff_toList {p : K → Prop} : ∀ {m : Map K V}, All p m ↔ ∀ x ∈ toList m, p x.1
  | .tip => by simp [All, toList_tip]
  | .bin k v l r => by
    rw [toList_bin]
    simp only [All, List.mem_append, List.mem_cons]
    rw [all_iff_toList (m := l), all_iff_toList (m := r)]
    constructor
    · rintro ⟨a, b, c⟩ x (h | h | h)
      · exact b x h
      · subst h; exact a
      · exact c x h
    · intro h
      exact ⟨h (k, v) (Or.inr (Or.inl rfl)), fun x hx => h x (Or.inl hx), fun x hx => h x (Or.inr (Or.inr hx))⟩

/-- The in-order listing of a search tree is strictly ascending by key. -/
theorem toList_sorted {cmp : K → K → Ordering} (hc : LawfulCmp cmp) :
    ∀ {m : Map K V}, Ordered cmp m → (toList m).Pairwise (fun a b => cmp a.1 b.1 = .lt)
  | .tip, _ => by simp [toList_tip]
  | .bin k v l r, ⟨a, b, c, d⟩ => by
    rw [toList_bin, List.pairwise_append]
    refine ⟨toList_sorted hc c, ?_, ?_⟩
    · rw [List.pairwise_cons]
      exact ⟨fun x hx => all_iff_toList.1 b x hx, toList_sorted hc d⟩
    · intro x hx y hy
      have hxk : cmp x.1 k = .lt := all_iff_toList.1 a x hx
      rcases List.mem_cons.1 hy with h | h
      · subst h; exact hxk
      · exact hc.lt_trans _ _ _ hxk (all_iff_toList.1 b y h)

/-! ### Refinement to the sorted association list -/

theorem insertSorted_append_lt (cmp : K → K → Ordering) (k k2 : K) (v v2 : V) (h : cmp k k2 = .lt)
    (ys : List (K × V)) : ∀ xs : List (K × V),
    insertSorted cmp k v (xs ++ (k2, v2) :: ys) = insertSorted cmp k v xs ++ (k2, v2) :: ys
  | [] => by simp [insertSorted, h]
  | (a, b) :: xs => by
    simp only [List.cons_append, insertSorted]
    split
    · rfl
    · rfl
    · rw [insertSorted_append_lt cmp k k2 v v2 h ys xs]; rfl

theorem insertSorted_append_gt (cmp : K → K → Ordering) (k : K) (v : V) (ys : List (K × V)) :
    ∀ xs : List (K × V), (∀ x ∈ xs, cmp k x.1 = .gt) →
    insertSorted cmp k v (xs ++ ys) = xs ++ insertSorted cmp k v ys
  | [], _ => rfl
  | (a, b) :: xs, hx => by
    have h1 : cmp k a = .gt := hx (a, b) (List.mem_cons_self ..)
    simp only [List.cons_append, insertSorted, h1]
    rw [insertSorted_append_gt cmp k v ys xs (fun x hx' => hx x (List.mem_cons_of_mem _ hx'))]

/-- `insert` on a search tree is `insertSorted` on its listing. -/
theorem toList_insert {cmp : K → K → Ordering} (hc : LawfulCmp cmp) (k : K) (v : V) :
    ∀ {m : Map K V}, Ordered cmp m → toList (insert cmp k v m) = insertSorted cmp k v (toList m)
  | .tip, _ => by simp [insert, toList_bin, toList_tip, insertSorted]
  | .bin k2 v2 l r, ⟨a, b, c, d⟩ => by
    have hl : ∀ x ∈ toList l, cmp x.1 k2 = .lt := all_iff_toList.1 a
    unfold insert
    split
    next h =>
      rw [toList_bin, toList_bin, toList_insert hc k v c, insertSorted_append_lt cmp k k2 v v2 h]
    next h =>
      have e : k = k2 := (hc.eq_iff _ _).1 h
      subst e
      rw [toList_bin, toList_bin, insertSorted_append_gt cmp k v _ _
        (fun x hx => (hc.gt_iff _ _).2 (hl x hx))]
      simp [insertSorted, h]
    next h =>
      have hk : cmp k2 k = .lt := (hc.gt_iff _ _).1 h
      rw [toList_bin, toList_bin, toList_insert hc k v d, insertSorted_append_gt cmp k v _ _
        (fun x hx => (hc.gt_iff _ _).2 (hc.lt_trans _ _ _ (hl x hx) hk))]
      simp [insertSorted, h]

theorem lookup_append_of_none (cmp : K → K → Ordering) (k : K) (ys : List (K × V)) :
    ∀ xs : List (K × V), (∀ x ∈ xs, cmp k x.1 ≠ .eq) → lookup cmp k (xs ++ ys) = lookup cmp k ys
  | [], _ => rfl
  | (a, b) :: xs, hx => by
    have h1 : cmp k a ≠ .eq := hx (a, b) (List.mem_cons_self ..)
    simp only [List.cons_append, lookup, h1, if_false]
    exact lookup_append_of_none cmp k ys xs (fun x hx' => hx x (List.mem_cons_of_mem _ hx'))

theorem lookup_none (cmp : K → K → Ordering) (k : K) :
    ∀ xs : List (K × V), (∀ x ∈ xs, cmp k x.1 ≠ .eq) → lookup cmp k xs = none := by
  intro xs h
  have := lookup_append_of_none cmp k ([] : List (K × V)) xs h
  simpa [lookup] using this

theorem lookup_append_left (cmp : K → K → Ordering) (k : K) (ys : List (K × V))
    (hy : ∀ y ∈ ys, cmp k y.1 ≠ .eq) : ∀ xs : List (K × V),
    lookup cmp k (xs ++ ys) = lookup cmp k xs
  | [] => by simpa [lookup] using lookup_none cmp k ys hy
  | (a, b) :: xs => by
    simp only [List.cons_append, lookup]
    split
    · rfl
    · exact lookup_append_left cmp k ys hy xs

/-- `find` on a search tree is `lookup` in its listing. -/
theorem find_eq_lookup {cmp : K → K → Ordering} (hc : LawfulCmp cmp) (k : K) :
    ∀ {m : Map K V}, Ordered cmp m → find cmp k m = lookup cmp k (toList m)
  | .tip, _ => rfl
  | .bin k2 v2 l r, ⟨a, b, c, d⟩ => by
    have hl : ∀ x ∈ toList l, cmp x.1 k2 = .lt := all_iff_toList.1 a
    have hr : ∀ x ∈ toList r, cmp k2 x.1 = .lt := all_iff_toList.1 b
    rw [toList_bin]
    unfold find
    split
    next h =>
      -- k < k2: nothing at or right of k2 can match
      rw [find_eq_lookup hc k c, lookup_append_left]
      intro y hy he
      have hky : k = y.1 := (hc.eq_iff _ _).1 he
      rcases List.mem_cons.1 hy with e | e
      · subst e; simp [h] at he
      · have := hc.lt_trans _ _ _ h (hr y e)
        rw [← hky] at this
        rw [(hc.eq_iff k k).2 rfl] at this; cases this
    next h =>
      rw [lookup_append_of_none]
      · simp [lookup, h]
      · intro x hx he
        have hkx : k = x.1 := (hc.eq_iff _ _).1 he
        have e : k = k2 := (hc.eq_iff _ _).1 h
        have := hl x hx
        rw [← hkx, e, (hc.eq_iff k2 k2).2 rfl] at this; cases this
    next h =>
      have hk : cmp k2 k = .lt := (hc.gt_iff _ _).1 h
      rw [find_eq_lookup hc k d, lookup_append_of_none]
      · simp [lookup, h]
      · intro x hx he
        have hkx : k = x.1 := (hc.eq_iff _ _).1 he
        have := hc.lt_trans _ _ _ (hl x hx) hk
        rw [← hkx, (hc.eq_iff k k).2 rfl] at this; cases this

end GluonModel.StdMap
