/-
Lemmas for C06, part (i): which primitives can reach a Rust panic inside the `extern "C"` wrapper.
-/
import GluonModel.Prims

namespace GluonModel.Proofs.Prims
open GluonModel.RustStd GluonModel.Prims

/-! ### generic -/

theorem ofR_abort_iff {α} (f : α → Res) (r : R α) : ofR f r = .abort ↔ r = .panic := by
  cases r <;> simp [ofR]

theorem ofRRT_abort_iff {α} (f : α → Res) (r : R (RT α)) : ofRRT f r = .abort ↔ r = .panic := by
  rcases r with (a | _) | _ <;> simp [ofRRT]

theorem map_panic_iff {α β} (f : α → β) (r : R α) : r.map f = .panic ↔ r = .panic := by
  cases r <;> simp [R.map]

theorem lookup_mem {β} (k : String) : ∀ (l : List (String × β)) (v : β), l.lookup k = some v → (k, v) ∈ l
  | [], _, h => by simp [List.lookup] at h
  | (k', v') :: l, v, h => by
    by_cases hk : k = k'
    · subst hk
      simp [List.lookup] at h
      subst h
      simp
    · have : (k == k') = false := by simpa using hk
      simp [List.lookup, this] at h
      exact List.mem_cons_of_mem _ (lookup_mem k l v h)

/-- `is_char_boundary(i)` implies `i ≤ len` (core::str). -/
theorem boundary_le (s : Bytes) (i : Nat) (h : isCharBoundary s i = true) : i ≤ s.length := by
  unfold isCharBoundary at h
  split at h
  · omega
  · split at h
    · omega
    · split at h
      · simp at h
      · omega

/-! ### the guarded wrappers never panic -/

theorem checked_rem_no_panic (a b : Int) : i64_checked_rem a b ≠ .panic := by
  unfold i64_checked_rem
  split
  · simp
  · rename_i h
    rw [Ne, map_panic_iff]
    unfold i64_rem
    have hb : b ≠ 0 := fun e => h (Or.inl e)
    have hm : ¬ (a = i64Min ∧ b = -1) := fun e => h (Or.inr e)
    simp [hb, hm]

theorem checked_rem_euclid_no_panic (a b : Int) : i64_checked_rem_euclid a b ≠ .panic := by
  unfold i64_checked_rem_euclid
  split
  · simp
  · rename_i h
    rw [Ne, map_panic_iff]
    unfold i64_rem_euclid
    have hb : b ≠ 0 := fun e => h (Or.inl e)
    have hm : ¬ (a = i64Min ∧ b = -1) := fun e => h (Or.inr e)
    simp [hb, hm]

theorem int_wrapping_rem_no_panic (a b : Int) : int_wrapping_rem a b ≠ .panic := by
  unfold int_wrapping_rem
  split
  · rename_i h; rw [Ne, map_panic_iff]; unfold i64_wrapping_rem; simp [h]
  · simp

theorem int_wrapping_rem_euclid_no_panic (a b : Int) : int_wrapping_rem_euclid a b ≠ .panic := by
  unfold int_wrapping_rem_euclid
  split
  · rename_i h; rw [Ne, map_panic_iff]; unfold i64_wrapping_rem_euclid; simp [h]
  · simp

theorem int_overflowing_rem_no_panic (a b : Int) : int_overflowing_rem a b ≠ .panic := by
  unfold int_overflowing_rem
  split
  · rename_i h; rw [Ne, map_panic_iff]; unfold i64_overflowing_rem; simp [h]
  · simp

theorem int_overflowing_rem_euclid_no_panic (a b : Int) : int_overflowing_rem_euclid a b ≠ .panic := by
  unfold int_overflowing_rem_euclid
  split
  · rename_i h; rw [Ne, map_panic_iff]; unfold i64_overflowing_rem_euclid; simp [h]
  · simp

theorem array_index_no_panic (xs : List Int) (i : Int) : array_index xs i ≠ .panic := by
  unfold array_index
  simp only []
  split <;> simp

theorem array_slice_no_panic (xs : List Int) (a b : Int) : array_slice xs a b ≠ .panic := by
  unfold array_slice
  simp only []
  split
  · simp
  · split <;> simp

/-- The guard `!s.is_char_boundary(index)` of `string::split_at` is exactly the precondition of
    `str::split_at`. -/
theorem string_split_at_no_panic (s : Bytes) (i : Int) : string_split_at s i ≠ .panic := by
  unfold string_split_at
  simp only []
  split
  · simp
  · rename_i h
    rw [Ne, map_panic_iff]
    unfold str_split_at
    have : isCharBoundary s (toU64 i).toNat = true := by simpa using h
    simp [this]

/-- `string::char_at`: the boundary guard makes `s[index..]` safe. -/
theorem string_char_at_no_panic (s : Bytes) (i : Int) : string_char_at s i ≠ .panic := by
  unfold string_char_at
  simp only []
  split
  · rename_i h
    have hle := boundary_le s _ h
    unfold str_from
    simp only [hle, h, and_self, if_true]
    split <;> simp
  · simp

theorem xor_shift_new_no_panic (seed : List Int) : random_xor_shift_new seed ≠ .panic := by
  unfold random_xor_shift_new
  split <;> simp

theorem prim_error_no_abort (args : List Val) : prim_error args ≠ .abort := by
  unfold prim_error
  split <;> simp

/-! adapters preserve abort-freedom -/

theorem aII_na {f : Int → Int → Outcome} (h : ∀ a b, f a b ≠ .abort) (args : List Val) : aII f args ≠ .abort := by
  unfold aII; split
  · exact h _ _
  · simp
theorem aAI_na {f : List Int → Int → Outcome} (h : ∀ a b, f a b ≠ .abort) (args : List Val) : aAI f args ≠ .abort := by
  unfold aAI; split
  · exact h _ _
  · simp
theorem aAII_na {f : List Int → Int → Int → Outcome} (h : ∀ a b c, f a b c ≠ .abort) (args : List Val) :
    aAII f args ≠ .abort := by
  unfold aAII; split
  · exact h _ _ _
  · simp
theorem aSI_na {f : Bytes → Int → Outcome} (h : ∀ a b, f a b ≠ .abort) (args : List Val) : aSI f args ≠ .abort := by
  unfold aSI; split
  · exact h _ _
  · simp
theorem aAB_na {f : List Int → Outcome} (h : ∀ a, f a ≠ .abort) (args : List Val) : aAB f args ≠ .abort := by
  unfold aAB; split
  · exact h _
  · simp

theorem guarded_no_abort : ∀ p ∈ guardedSems, ∀ args, p.2 args ≠ .abort := by
  intro p hp
  simp only [guardedSems, List.mem_cons, List.mem_nil_iff, or_false] at hp
  rcases hp with rfl | rfl | rfl | rfl | rfl | rfl | rfl | rfl | rfl | rfl | rfl | rfl
  · exact aII_na fun a b => by rw [Ne, ofR_abort_iff]; exact checked_rem_no_panic a b
  · exact aII_na fun a b => by rw [Ne, ofR_abort_iff]; exact checked_rem_euclid_no_panic a b
  · exact aII_na fun a b => by rw [Ne, ofRRT_abort_iff]; exact int_wrapping_rem_no_panic a b
  · exact aII_na fun a b => by rw [Ne, ofRRT_abort_iff]; exact int_wrapping_rem_euclid_no_panic a b
  · exact aII_na fun a b => by rw [Ne, ofRRT_abort_iff]; exact int_overflowing_rem_no_panic a b
  · exact aII_na fun a b => by rw [Ne, ofRRT_abort_iff]; exact int_overflowing_rem_euclid_no_panic a b
  · exact aAI_na fun a b => by rw [Ne, ofRRT_abort_iff]; exact array_index_no_panic a b
  · exact aAII_na fun a b c => by rw [Ne, ofRRT_abort_iff]; exact array_slice_no_panic a b c
  · exact aSI_na fun a b => by rw [Ne, ofRRT_abort_iff]; exact string_split_at_no_panic a b
  · exact aSI_na fun a b => by rw [Ne, ofRRT_abort_iff]; exact string_char_at_no_panic a b
  · exact aAB_na fun a => by rw [Ne, ofRRT_abort_iff]; exact xor_shift_new_no_panic a
  · exact prim_error_no_abort

/-- A primitive outside the offending list never aborts the host, whatever the arguments. -/
theorem rawOutcome_no_abort (name : String) (h : name ∉ offending) (args : List Val) :
    rawOutcome name args ≠ .abort := by
  unfold rawOutcome
  split
  · rename_i f hf
    have hm := lookup_mem name _ f hf
    exact absurd (List.mem_map_of_mem (f := (·.1)) hm) h
  · split
    · rename_i f hf
      exact guarded_no_abort _ (lookup_mem name _ f hf) args
    · split
      · split <;> simp
      · simp

theorem catchUnwind_ne_abort (o : Outcome) : catchUnwind o ≠ .abort := by
  cases o <;> simp [catchUnwind]

theorem catchUnwind_err_iff (o : Outcome) : catchUnwind o = .err ↔ (o = .err ∨ o = .abort) := by
  cases o <;> simp [catchUnwind]

theorem ofR_ne_err {α} (f : α → Res) (r : R α) : ofR f r ≠ .err := by
  cases r <;> simp [ofR]

theorem ofRRT_err_iff {α} (f : α → Res) (r : R (RT α)) : ofRRT f r = .err ↔ r = .ret .panic := by
  rcases r with (a | _) | _ <;> simp [ofRRT]

/-- The hand-written `extern "C"` entries are not in the offending list. -/
theorem rawExtern_not_offending : ∀ n ∈ rawExternNames, n ∉ offending := by decide

/-- No primitive of the tables can abort the host: calls routed through `unpack_and_call` have their
    panics caught; the two hand-written `extern "C"` entries never panic. -/
theorem outcome_no_abort (name : String) (args : List Val) : outcome name args ≠ .abort := by
  unfold outcome
  split
  · rename_i h
    exact rawOutcome_no_abort name (rawExtern_not_offending name h) args
  · exact catchUnwind_ne_abort _

/-! ### the offending primitives: exact abort conditions -/

theorem string_slice_panic_iff (s : Bytes) (a b : Int) :
    string_slice s a b = .panic ↔
      (isCharBoundary s (toU64 a).toNat = true ∧ isCharBoundary s (toU64 b).toNat = true ∧
        (toU64 b).toNat < (toU64 a).toNat) := by
  unfold string_slice
  simp only []
  constructor
  · intro h
    split at h
    · rename_i hb
      simp only [Bool.and_eq_true] at hb
      rw [map_panic_iff] at h
      unfold str_index at h
      split at h
      · simp at h
      · rename_i hn
        refine ⟨hb.1, hb.2, ?_⟩
        have := boundary_le s _ hb.2
        by_cases hlt : (toU64 b).toNat < (toU64 a).toNat
        · exact hlt
        · exact absurd ⟨by omega, this, hb.1, hb.2⟩ hn
    · simp at h
  · intro ⟨h1, h2, h3⟩
    simp only [h1, h2, Bool.and_self, if_true]
    rw [map_panic_iff]
    unfold str_index
    have : ¬ ((toU64 a).toNat ≤ (toU64 b).toNat) := by omega
    simp [this]

end GluonModel.Proofs.Prims
