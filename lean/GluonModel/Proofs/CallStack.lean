import GluonModel.CallStack

namespace GluonModel.CallStack.Proofs
open GluonModel.CallStack

/-- Every function's arguments fit in its declared bound (the compiler pushes the arguments as
    stack variables first, compiler.rs:1127-1129; `StackVerify.check` demands it too). -/
def TblOk (tbl : Tbl) : Prop := ∀ (i : Nat) (info : FnInfo), tbl[i]? = some info → info.args ≤ info.max

/-- A frame was admitted by `add_new_frame`: its whole budget is below the limit. -/
def FrameOk (tbl : Tbl) (limit : Nat) (fr : Frame) : Prop :=
  ∃ info, tbl[fr.fn]? = some info ∧ fr.offset + info.max ≤ limit

/-- Callee `c` sits on caller `p`: the function slot (and the excess object) lie in `p`'s frame, and
    the slot the result will land in is within `p`'s declared bound. -/
def Link (tbl : Tbl) (c p : Frame) : Prop :=
  ∃ pi, tbl[p.fn]? = some pi ∧ p.offset + 1 + exc c ≤ c.offset ∧ c.offset - exc c ≤ p.offset + pi.max

def Chain (tbl : Tbl) : List Frame → Prop
  | [] => True
  | [_] => True
  | c :: p :: rest => Link tbl c p ∧ Chain tbl (p :: rest)

/-- The frames below the top are consistent. -/
def Below (tbl : Tbl) (limit : Nat) (frames : List Frame) : Prop :=
  (∀ fr ∈ frames, FrameOk tbl limit fr) ∧ Chain tbl frames

/-- The top frame is within its declared bound. -/
def TopOk (tbl : Tbl) (s : St) : Prop :=
  match s.frames with
  | [] => False
  | fr :: _ => ∃ info, tbl[fr.fn]? = some info ∧ fr.offset ≤ s.values ∧ s.values - fr.offset ≤ info.max

def Inv (tbl : Tbl) (limit : Nat) (s : St) : Prop := Below tbl limit s.frames ∧ TopOk tbl s

theorem inv_values_le (tbl : Tbl) (limit : Nat) (s : St) (h : Inv tbl limit s) : s.values ≤ limit := by
  obtain ⟨⟨hall, _⟩, htop⟩ := h
  unfold TopOk at htop
  match hs : s.frames with
  | [] => rw [hs] at htop; exact htop.elim
  | fr :: rest =>
    rw [hs] at htop hall
    obtain ⟨info, hi, h1, h2⟩ := htop
    obtain ⟨info', hi', h3⟩ := hall fr (by simp)
    rw [hi] at hi'; cases hi'
    omega

theorem chain_tail (tbl : Tbl) (c : Frame) (rest : List Frame) (h : Chain tbl (c :: rest)) :
    Chain tbl rest := by
  cases rest with
  | nil => trivial
  | cons p r => exact h.2

theorem below_tail (tbl : Tbl) (limit : Nat) (c : Frame) (rest : List Frame)
    (h : Below tbl limit (c :: rest)) : Below tbl limit rest :=
  ⟨fun fr hfr => h.1 fr (by simp [hfr]), chain_tail tbl c rest h.2⟩

theorem exc_le_one (fr : Frame) : exc fr ≤ 1 := by unfold exc; split <;> omega

/-- The heart: `do_call` from a state whose frames are consistent, with the function slot and `n`
    arguments on top of frame `p` and the result slot within `p`'s bound, yields a consistent
    state. -/
theorem doCall_inv (tbl : Tbl) (limit : Nat) (htbl : TblOk tbl) (s s' : St) (c : Callee) (n : Nat)
    (p : Frame) (rest : List Frame) (pi : FnInfo)
    (hfr : s.frames = p :: rest) (hb : Below tbl limit s.frames)
    (hpi : tbl[p.fn]? = some pi)
    (hslot : s.values - n ≤ p.offset + pi.max)
    (h : doCall tbl limit s c n = .ok s') : Inv tbl limit s' := by
  unfold doCall at h
  rw [hfr] at h
  match hc : tbl[c.fn]? with
  | none => rw [hc] at h; simp at h
  | some info =>
    rw [hc] at h
    simp only [] at h
    have hargs := htbl c.fn info hc
    split at h
    · simp at h
    · rename_i hroom
      split at h
      · simp at h
      · rename_i hheld
        split at h
        · -- exact arity
          rename_i htot
          unfold enter at h
          simp only [] at h
          split at h
          · simp at h
          · split at h
            · simp at h
            · rename_i h1 h2
              cases h
              refine ⟨⟨?_, ?_⟩, ?_⟩
              · intro fr hfr'
                simp at hfr'
                rcases hfr' with rfl | hfr'
                · exact ⟨info, hc, by simp; omega⟩
                · exact hb.1 fr (by rw [hfr]; simpa using hfr')
              · show Chain tbl (_ :: p :: rest)
                refine ⟨⟨pi, hpi, ?_, ?_⟩, by rw [hfr] at hb; exact hb.2⟩
                · simp [exc]; omega
                · simp [exc]; omega
              · show TopOk tbl _
                unfold TopOk
                exact ⟨info, hc, by simp, by simp; omega⟩
        · split at h
          · -- partial application built in place
            cases h
            refine ⟨by rw [hfr] at hb; exact hb, ?_⟩
            unfold TopOk
            simp only []
            exact ⟨pi, hpi, by omega, by omega⟩
          · -- over-application
            rename_i hne hnl
            unfold enter at h
            simp only [] at h
            split at h
            · simp at h
            · split at h
              · simp at h
              · rename_i h1 h2
                cases h
                have hex : c.held + n - info.args ≠ 0 := by omega
                refine ⟨⟨?_, ?_⟩, ?_⟩
                · intro fr hfr'
                  simp at hfr'
                  rcases hfr' with rfl | hfr'
                  · exact ⟨info, hc, by simp; omega⟩
                  · exact hb.1 fr (by rw [hfr]; simpa using hfr')
                · show Chain tbl (_ :: p :: rest)
                  refine ⟨⟨pi, hpi, ?_, ?_⟩, by rw [hfr] at hb; exact hb.2⟩
                  · simp [exc, hex]; omega
                  · simp [exc, hex]; omega
                · show TopOk tbl _
                  unfold TopOk
                  exact ⟨info, hc, by simp, by simp; omega⟩

theorem step_inv (tbl : Tbl) (limit : Nat) (htbl : TblOk tbl) (s s' : St) (ev : Ev)
    (hinv : Inv tbl limit s) (h : step tbl limit s ev = .ok s') : Inv tbl limit s' := by
  obtain ⟨hb, htop⟩ := hinv
  unfold TopOk at htop
  obtain ⟨values, frames⟩ := s
  cases frames with
  | nil => exact htop.elim
  | cons fr rest =>
    simp only [] at htop hb
    obtain ⟨info, hi, h1, h2⟩ := htop
    cases ev with
    | push k =>
      simp only [step, hi] at h
      split at h
      · simp at h
      · cases h
        refine ⟨hb, ?_⟩
        unfold TopOk; simp only []
        exact ⟨info, hi, by omega, by omega⟩
    | pop k =>
      simp only [step] at h
      split at h
      · simp at h
      · cases h
        refine ⟨hb, ?_⟩
        unfold TopOk; simp only []
        exact ⟨info, hi, by omega, by omega⟩
    | call c n =>
      simp only [step] at h
      exact doCall_inv tbl limit htbl _ s' c n fr rest info rfl hb hi (by simp; omega) h
    | tailcall c n =>
      cases rest with
      | nil => simp [step] at h
      | cons p rest' =>
        simp only [step] at h
        split at h
        · simp at h
        · split at h
          · simp at h
          · rename_i hroom hslot
            have hbr : Below tbl limit (p :: rest') := below_tail tbl limit fr _ hb
            obtain ⟨pi, hpi, hl1, hl2⟩ := hb.2.1
            have he := exc_le_one fr
            exact doCall_inv tbl limit htbl _ s' c (n + fr.excess) p rest' pi rfl hbr hpi
              (by simp; omega) h
    | ret c =>
      cases rest with
      | nil => simp [step] at h
      | cons p rest' =>
        simp only [step] at h
        split at h
        · simp at h
        · split at h
          · simp at h
          · rename_i hres hslot
            have hbr : Below tbl limit (p :: rest') := below_tail tbl limit fr _ hb
            obtain ⟨pi, hpi, hl1, hl2⟩ := hb.2.1
            split at h
            · rename_i hex
              cases h
              refine ⟨hbr, ?_⟩
              unfold TopOk
              simp only []
              have : exc fr = 0 := by simp [exc, hex]
              exact ⟨pi, hpi, by omega, by omega⟩
            · rename_i hex
              have he1 : exc fr = 1 := by simp [exc, hex]
              cases c with
              | none => simp at h
              | some c =>
                simp only [] at h
                exact doCall_inv tbl limit htbl _ s' c fr.excess p rest' pi rfl hbr hpi
                  (by simp; omega) h

theorem run_inv (tbl : Tbl) (limit : Nat) (htbl : TblOk tbl) (evs : List Ev) (s s' : St)
    (hinv : Inv tbl limit s) (h : run tbl limit s evs = .ok s') : Inv tbl limit s' := by
  induction evs generalizing s with
  | nil => simp [run] at h; cases h; exact hinv
  | cons ev evs ih =>
    simp only [run] at h
    split at h
    · rename_i s1 hs1
      exact ih s1 (step_inv tbl limit htbl s s1 ev hinv hs1) h
    · simp at h

theorem base_inv (tbl : Tbl) (limit : Nat) (host : FnInfo) (h0 : tbl[0]? = some host)
    (hl : host.max ≤ limit) : Inv tbl limit St.base := by
  refine ⟨⟨?_, trivial⟩, ?_⟩
  · intro fr hfr
    simp [St.base] at hfr
    subst hfr
    exact ⟨host, h0, by simpa using hl⟩
  · exact ⟨host, h0, Nat.le_refl _, by simp [St.base]⟩

theorem run_append (tbl : Tbl) (limit : Nat) (a b : List Ev) (s : St) :
    run tbl limit s (a ++ b) =
      match run tbl limit s a with
      | .ok s1 => run tbl limit s1 b
      | .error e => .error e := by
  induction a generalizing s with
  | nil => simp [run]
  | cons ev a ih =>
    simp only [List.cons_append, run]
    split
    · exact ih _
    · rfl

/-! tail calls -/

def isBody : Ev → Bool
  | .push _ => true
  | .pop _ => true
  | _ => false

theorem step_body_frames (tbl : Tbl) (limit : Nat) (s s' : St) (ev : Ev) (hb : isBody ev = true)
    (h : step tbl limit s ev = .ok s') : s'.frames = s.frames := by
  cases ev with
  | push k =>
    simp only [step] at h
    split at h
    · split at h
      · split at h
        · simp at h
        · cases h; rfl
      · simp at h
    · simp at h
  | pop k =>
    simp only [step] at h
    split at h
    · split at h
      · simp at h
      · cases h; rfl
    · simp at h
  | call c n => simp [isBody] at hb
  | tailcall c n => simp [isBody] at hb
  | ret c => simp [isBody] at hb

theorem run_body_frames (tbl : Tbl) (limit : Nat) (evs : List Ev) (s s' : St)
    (hb : ∀ e ∈ evs, isBody e = true) (h : run tbl limit s evs = .ok s') : s'.frames = s.frames := by
  induction evs generalizing s with
  | nil => simp [run] at h; cases h; rfl
  | cons ev evs ih =>
    simp only [run] at h
    split at h
    · rename_i s1 hs1
      have h1 := step_body_frames tbl limit s s1 ev (hb ev (by simp)) hs1
      have h2 := ih s1 (fun e he => hb e (by simp [he])) h
      rw [h2, h1]
    · simp at h

theorem doCall_exact (tbl : Tbl) (limit : Nat) (s : St) (g : Nat) (gi : FnInfo) (p : Frame)
    (rest : List Frame) (hfr : s.frames = p :: rest) (hg : tbl[g]? = some gi) :
    doCall tbl limit s ⟨g, 0⟩ gi.args =
      if s.values < p.offset + gi.args + 1 then .error .stuck
      else if s.values + gi.max > limit then .error .stackOverflow
      else .ok { s with frames := ⟨s.values - gi.args, g, 0⟩ :: s.frames } := by
  simp only [doCall, hfr, hg]
  by_cases h1 : s.values < p.offset + gi.args + 1
  · simp [h1]
  · have h2 : ¬ s.values < gi.args := by omega
    simp [h1, enter, h2]

/-- `TailCall(n)` of a closure with exactly `n` parameters from a frame without excess arguments:
    the callee's frame takes the place of the caller's — same offset, same frames below. -/
theorem tailcall_exact (tbl : Tbl) (limit : Nat) (s s' : St) (fr p : Frame) (rest : List Frame)
    (g n : Nat) (gi : FnInfo) (hfr : s.frames = fr :: p :: rest) (hex : fr.excess = 0)
    (hg : tbl[g]? = some gi) (hn : gi.args = n)
    (h : step tbl limit s (.tailcall ⟨g, 0⟩ n) = .ok s') :
    s'.frames = ⟨fr.offset, g, 0⟩ :: p :: rest ∧ s'.values = fr.offset + n := by
  subst hn
  simp only [step, hfr] at h
  split at h
  · simp at h
  · split at h
    · simp at h
    · simp only [hex, exc, Nat.add_zero, if_true, Nat.sub_zero] at h
      rw [doCall_exact tbl limit _ g gi p rest rfl hg] at h
      split at h
      · simp at h
      · split at h
        · simp at h
        · cases h; simp

structure TailSeg where
  body : List Ev
  g : Nat
  n : Nat

def TailSeg.evs (t : TailSeg) : List Ev := t.body ++ [.tailcall ⟨t.g, 0⟩ t.n]

def SegOk (tbl : Tbl) (t : TailSeg) : Prop :=
  (∀ e ∈ t.body, isBody e = true) ∧ ∃ gi, tbl[t.g]? = some gi ∧ gi.args = t.n

theorem seg_frames (tbl : Tbl) (limit : Nat) (t : TailSeg) (ht : SegOk tbl t) (s s' : St)
    (fr p : Frame) (rest : List Frame) (hfr : s.frames = fr :: p :: rest) (hex : fr.excess = 0)
    (h : run tbl limit s t.evs = .ok s') :
    s'.frames = ⟨fr.offset, t.g, 0⟩ :: p :: rest ∧ s'.values = fr.offset + t.n := by
  unfold TailSeg.evs at h
  rw [run_append] at h
  split at h
  · rename_i s1 hs1
    have hf1 := run_body_frames tbl limit t.body s s1 ht.1 hs1
    obtain ⟨gi, hg, hn⟩ := ht.2
    simp only [run] at h
    split at h
    · rename_i s2 hs2
      simp at h
      subst h
      exact tailcall_exact tbl limit s1 s2 fr p rest t.g t.n gi (by rw [hf1, hfr]) hex hg hn hs2
    · simp at h
  · simp at h

/-- Any chain of exact-arity tail calls (self, mutual, through closure values), of any length,
    keeps the frame stack exactly as deep as it was and the running frame at the same offset. -/
theorem tail_chain_constant (tbl : Tbl) (limit : Nat) (segs : List TailSeg)
    (hs : ∀ t ∈ segs, SegOk tbl t) (s s' : St) (fr p : Frame) (rest : List Frame)
    (hfr : s.frames = fr :: p :: rest) (hex : fr.excess = 0)
    (h : run tbl limit s (segs.flatMap TailSeg.evs) = .ok s') :
    ∃ fn', s'.frames = ⟨fr.offset, fn', 0⟩ :: p :: rest := by
  induction segs generalizing s fr with
  | nil =>
    simp [run] at h; cases h
    exact ⟨fr.fn, by rw [hfr]; cases fr; simp_all⟩
  | cons t segs ih =>
    simp only [List.flatMap_cons] at h
    rw [run_append] at h
    split at h
    · rename_i s1 hs1
      have := seg_frames tbl limit t (hs t (by simp)) s s1 fr p rest hfr hex hs1
      exact ih (fun t' ht' => hs t' (by simp [ht'])) s1 ⟨fr.offset, t.g, 0⟩ this.1 rfl h
    · simp at h

theorem tail_loop_any_length (tbl : Tbl) (limit : Nat) (s0 : St) (iter : List Ev)
    (h1 : run tbl limit s0 iter = .ok s0) (N : Nat) :
    run tbl limit s0 (List.replicate N iter).flatten = .ok s0 := by
  induction N with
  | zero => simp [run]
  | succ N ih =>
    simp only [List.replicate_succ, List.flatten_cons]
    rw [run_append, h1]
    exact ih

/-- One iteration of a self-tail-recursive function, started right after the function was entered,
    ends in exactly the state it started in. -/
theorem tail_self_iteration_returns (tbl : Tbl) (limit : Nat) (f : Nat) (fi : FnInfo)
    (hf : tbl[f]? = some fi) (o : Nat) (p : Frame) (rest : List Frame) (body : List Ev)
    (hb : ∀ e ∈ body, isBody e = true) (s1 : St)
    (h : run tbl limit ⟨o + fi.args, ⟨o, f, 0⟩ :: p :: rest⟩ (body ++ [.tailcall ⟨f, 0⟩ fi.args]) = .ok s1) :
    s1 = ⟨o + fi.args, ⟨o, f, 0⟩ :: p :: rest⟩ := by
  have := seg_frames tbl limit ⟨body, f, fi.args⟩ ⟨hb, fi, hf, rfl⟩ _ s1 ⟨o, f, 0⟩ p rest rfl rfl h
  obtain ⟨v, fr⟩ := s1
  simp at this
  simp [this.1, this.2]

/-! non-tail calls -/

theorem offset_ge_depth (tbl : Tbl) (frames : List Frame) (fr : Frame) (hc : Chain tbl (fr :: frames)) :
    frames.length ≤ fr.offset := by
  induction frames generalizing fr with
  | nil => simp
  | cons p rest ih =>
    obtain ⟨⟨pi, _, hl, _⟩, hrest⟩ := hc
    have := ih p hrest
    simp
    omega

/-- A consistent state never has more frames than `limit + 1`. -/
theorem depth_bounded (tbl : Tbl) (limit : Nat) (s : St) (h : Inv tbl limit s) :
    s.frames.length ≤ limit + 1 := by
  have hv := inv_values_le tbl limit s h
  obtain ⟨⟨_, hc⟩, htop⟩ := h
  unfold TopOk at htop
  obtain ⟨v, frames⟩ := s
  cases frames with
  | nil => exact htop.elim
  | cons fr rest =>
    obtain ⟨info, _, h1, _⟩ := htop
    have := offset_ge_depth tbl rest fr hc
    simp at *
    omega

/-- `Call(n)` of a closure with exactly `n` parameters pushes one frame and leaves the values alone. -/
theorem call_adds_frame (tbl : Tbl) (limit : Nat) (s s' : St) (g n : Nat) (gi : FnInfo)
    (hg : tbl[g]? = some gi) (hn : gi.args = n)
    (h : step tbl limit s (.call ⟨g, 0⟩ n) = .ok s') :
    s'.frames.length = s.frames.length + 1 ∧ s'.values = s.values := by
  subst hn
  simp only [step] at h
  obtain ⟨v, frames⟩ := s
  cases frames with
  | nil => simp [doCall] at h
  | cons p rest =>
    rw [doCall_exact tbl limit _ g gi p rest rfl hg] at h
    split at h
    · simp at h
    · split at h
      · simp at h
      · cases h; simp

/-- In a consistent state with the function and its arguments on the stack, the only way an
    exact-arity call can fail is the stack-overflow check, and it fails exactly when
    `len + max_stack_size > limit`. -/
theorem call_fails_only_overflow (tbl : Tbl) (limit : Nat) (s : St) (fr : Frame) (rest : List Frame)
    (g n : Nat) (gi : FnInfo) (hfr : s.frames = fr :: rest) (hroom : fr.offset + n + 1 ≤ s.values)
    (hg : tbl[g]? = some gi) (hn : gi.args = n) (e : Err)
    (h : step tbl limit s (.call ⟨g, 0⟩ n) = .error e) :
    e = .stackOverflow ∧ s.values + gi.max > limit := by
  subst hn
  simp only [step] at h
  rw [doCall_exact tbl limit s g gi fr rest hfr hg] at h
  split at h
  · omega
  · split at h
    · rename_i hh
      cases h
      exact ⟨rfl, hh⟩
    · simp at h

/-! interrupt -/

theorem execute_prompt (flag : Nat → Bool) (i segs k : Nat) (hk : flag (i + k) = true) :
    (execute flag i segs).1 ≤ k := by
  induction segs generalizing i k with
  | zero => simp [execute]
  | succ segs ih =>
    unfold execute
    by_cases hf : flag i = true
    · simp [hf]
    · simp only [hf]
      cases k with
      | zero => simp at hk; exact absurd hk hf
      | succ k =>
        have := ih (i + 1) k (by rw [Nat.add_assoc, Nat.add_comm 1 k]; exact hk)
        simp
        omega

theorem execute_interrupted (flag : Nat → Bool) (i segs k : Nat) (hk : flag (i + k) = true)
    (hlt : k < segs) : (execute flag i segs).2 = .interrupted := by
  induction segs generalizing i k with
  | zero => omega
  | succ segs ih =>
    unfold execute
    by_cases hf : flag i = true
    · simp [hf]
    · simp only [hf]
      cases k with
      | zero => simp at hk; exact absurd hk hf
      | succ k =>
        exact ih (i + 1) k (by rw [Nat.add_assoc, Nat.add_comm 1 k]; exact hk) (by omega)

theorem execute_unrequested (flag : Nat → Bool) (hf : ∀ j, flag j = false) (i segs : Nat) :
    execute flag i segs = (segs, .finished) := by
  induction segs generalizing i with
  | zero => rfl
  | succ segs ih =>
    simp only [execute, hf i, ih (i + 1)]
    simp

end GluonModel.CallStack.Proofs
