/-
C05: the promotion of a module value WITHOUT mutable cells keeps the machine invariant, so the
invariant (and safety of every collection) holds for every history whose promoted values are
cell-free — D1 is exactly the remaining case.
-/
import GluonModel.GcHeap
import GluonModel.GcMachine
import GluonModel.Proofs.GcHeap
import GluonModel.Proofs.GcIso
import GluonModel.Proofs.GcMachine

namespace GluonModel.GcHeap

/-- Nothing below `v` is a mutable cell (and arrays of arrays / of userdata only with the repaired
    cloner, whose element rule goes through `visited`). -/
def PromoteOK (fixed : Bool) (s : State) (v : Nat) : Prop :=
  ∀ p o, CopyReach s (some 0) v p → s.obj p = some o →
    o.kind ≠ .cell ∧ ((o.kind = .aarr ∨ o.kind = .uarr) → fixed = true)

theorem cloneCtx_of_promote {fixed : Bool} {s : State} {v0 : Nat} (g : Good fixed s)
    (hlive : ∃ o, s.obj v0 = some o) :
    CloneCtx s [] (some 0) fixed (CopyReach s (some 0) v0) := by
  refine ⟨g.wf, ?_, ?_, ?_, ?_, ?_⟩
  · intro v hv
    cases hv with
    | root => exact hlive
    | step _ ho _ he => exact g.nd _ _ ho _ he
  · intro v o hv ho hk e he
    exact CopyReach.step hv ho hk he
  · intro v o _ ho hs
    have : o.owner.length ≤ 0 := by unfold shareable at hs; simpa [ho] using hs
    have : o.owner = [] := List.eq_nil_of_length_eq_zero (by omega)
    rw [this]; exact List.nil_prefix
  · intro v o _ ho hk
    exact (g.objs v o ho).2.2.1 hk
  · intro v o _ ho hk
    rw [(g.objs v o ho).2.1 hk]; exact List.nil_prefix

theorem good_promote {fixed : Bool} {s s' : State} {thr : HeapId} {v r : Nat} (g : Good fixed s)
    (hlive : ∃ o, s.obj v = some o) (hok : PromoteOK fixed s v)
    (h : promoteGlobal s thr fixed v = some (s', r)) : Good fixed s' := by
  unfold promoteGlobal at h
  cases hd : deepClone s [] thr (some 0) fixed v with
  | none => simp [hd] at h
  | some p =>
    obtain ⟨s1, r1⟩ := p
    simp only [hd, Option.some.injEq, Prod.mk.injEq] at h
    obtain ⟨rfl, rfl⟩ := h
    have ctx := cloneCtx_of_promote (v0 := v) g hlive
    have hcell : ∀ p o, CopyReach s (some 0) v p → s.obj p = some o →
        shareable s (some 0) p = false → BypassKind o.kind → fixed = true := by
      intro p o hp ho _ hb
      rcases hb with hb | hb | hb
      · exact absurd hb (hok p o hp ho).1
      · exact (hok p o hp ho).2 (Or.inl hb)
      · exact (hok p o hp ho).2 (Or.inr hb)
    obtain ⟨hwf1, hext, hokr, hfin⟩ := deepClone_post ctx CopyReach.root hd
    have hinv1 := deepClone_inv ctx g.nd g.inv List.nil_prefix CopyReach.root hd
    obtain ⟨vis, _, _, hent, _, honto, _⟩ := deepClone_iso' ctx hcell CopyReach.root hd
    have hgr : s1.groots = s.groots := deepClone_groots hd
    refine ⟨hwf1, hinv1, ?_, ?_, ?_⟩
    · intro q oq hq e he
      have hq' : s1.obj q = some oq := hq
      by_cases hqo : q < s.next
      · rw [hext.2 q hqo] at hq'
        obtain ⟨oe, hoe⟩ := g.nd q oq hq' e he
        exact ⟨oe, by show s1.obj e = some oe; rw [hext.2 e (g.wf.lt hoe)]; exact hoe⟩
      · obtain ⟨o, ho, _, _, _, hedges⟩ := hfin q (by omega) (hwf1.lt hq')
        rw [ho] at hq'; cases hq'
        obtain ⟨oe, hoe, _⟩ := hedges e he
        exact ⟨oe, hoe⟩
    · intro i oi hi
      have hi' : s1.obj i = some oi := hi
      by_cases hio : i < s.next
      · rw [hext.2 i hio] at hi'; exact g.objs i oi hi'
      · obtain ⟨o, ho, hown, hhome, hkind, _⟩ := hfin i (by omega) (hwf1.lt hi')
        rw [ho] at hi'; cases hi'
        obtain ⟨x, hx⟩ := honto i (by omega) (hwf1.lt ho)
        obtain ⟨hrel, _, _, ox, on, hox, hon, hkeq, _⟩ := hent x i hx
        have hoo : on = oi := by rw [ho] at hon; exact (Option.some.inj hon).symm
        have hnc : oi.kind ≠ .cell := by rw [← hoo, hkeq]; exact (hok x ox hrel hox).1
        refine ⟨fun _ => ?_, fun hk => absurd hk hkind.ne_code, fun hk => hkind.shallow_fixed hk,
          fun hk => absurd hk hkind.ne_thread⟩
        rcases hhome with h1 | ⟨_, h1⟩
        · rw [h1, hown]
        · exact absurd h1 hnc
    · intro p hp
      have hp' : p ∈ r1 :: s1.groots := hp
      rcases List.mem_cons.mp hp' with hp' | hp'
      · subst hp'
        obtain ⟨orr, hor, hpre⟩ := hokr
        refine ⟨hwf1.lt hor, ?_⟩
        intro op hop
        have hop' : s1.obj p = some op := hop
        rw [hor] at hop'; cases hop'
        exact List.prefix_nil.mp hpre
      · rw [hgr] at hp'
        obtain ⟨hlt, hown⟩ := g.groots p hp'
        refine ⟨Nat.lt_of_lt_of_le hlt hext.1, ?_⟩
        intro op hop
        have hop' : s1.obj p = some op := hop
        rw [hext.2 p hlt] at hop'
        exact hown op hop'

/-- What a history must satisfy: every promoted value is cell-free at the time of its promotion. -/
def OpOK (fixed : Bool) (s : State) : Op → Prop
  | .promote _ v => PromoteOK fixed s v
  | _ => True

def HistOK (fixed : Bool) : State → List Op → Prop
  | _, [] => True
  | s, op :: ops => OpOK fixed s op ∧ HistOK fixed (step fixed s op) ops

theorem step_good' {fixed : Bool} {s : State} (g : Good fixed s) (op : Op) (hop : OpOK fixed s op) :
    Good fixed (step fixed s op) := by
  cases hp : op.isPromote with
  | false => exact step_good g op hp
  | true =>
    cases op with
    | promote thr v =>
      simp only [step]
      split
      · rename_i hh
        obtain ⟨o, ho, _⟩ := holds_spec hh
        cases hpg : promoteGlobal s thr fixed v with
        | none => exact g
        | some pr =>
          obtain ⟨s', r⟩ := pr
          exact good_promote g ⟨o, ho⟩ hop hpg
      · exact g
    | alloc _ _ _ => simp [Op.isPromote] at hp
    | root _ _ => simp [Op.isPromote] at hp
    | unroot _ _ => simp [Op.isPromote] at hp
    | spawn _ _ => simp [Op.isPromote] at hp
    | dropThread _ => simp [Op.isPromote] at hp
    | store _ _ _ => simp [Op.isPromote] at hp
    | transfer _ _ _ _ => simp [Op.isPromote] at hp
    | collect _ => simp [Op.isPromote] at hp

theorem run_good' {fixed : Bool} : ∀ (ops : List Op) (s : State), Good fixed s →
    HistOK fixed s ops → Good fixed (run fixed s ops) := by
  intro ops
  induction ops with
  | nil => intro s g _; exact g
  | cons op ops ih =>
    intro s g h
    show Good fixed (run fixed (step fixed s op) ops)
    exact ih _ (step_good' g op h.1) h.2

end GluonModel.GcHeap
