/-
C03 — inference terminates: for every program some unification fuel gives an answer of `inferF`
other than `fuel`.  Proved through the stronger "the answer stabilises" statement, which composes
along the clauses of `inferF`.
-/
import GluonModel.HM
import GluonModel.Proofs.HM
import GluonModel.Proofs.HMTerm
import GluonModel.Proofs.HMFuel
import GluonModel.Proofs.HMFuelMono
namespace GluonModel.HM.Proofs
open GluonModel.HM

theorem unifySF_fuel_exists (S : Subst) (n : Nat) (a b : Ty) :
    ∃ N, unifySF false N S n a b ≠ .error .fuel := by
  obtain ⟨N, hN⟩ := unify_fuel_exists n (a.subst S) (b.subst S)
  refine ⟨N, ?_⟩
  unfold unifySF
  rcases h : unify false N n (a.subst S) (b.subst S) with e | ⟨U, n'⟩
  · rw [h] at hN; exact hN
  · intro hh; cases hh

theorem err_ne {α β : Type} {e : UErr} (h : (Except.error e : Except UErr α) ≠ .error .fuel) :
    (Except.error e : Except UErr β) ≠ .error .fuel := by
  intro hh; apply h; cases hh; rfl

/-- from some fuel on, a unification has one answer, and it is not `fuel` -/
theorem unifySF_stab (S : Subst) (n : Nat) (a b : Ty) :
    ∃ N r, r ≠ .error .fuel ∧ ∀ N', N ≤ N' → unifySF false N' S n a b = r := by
  obtain ⟨N, h⟩ := unifySF_fuel_exists S n a b
  exact ⟨N, _, h, fun N' hN => unifySF_mono N N' S n a b _ hN rfl h⟩

/-- from some fuel on, inference has one answer, and it is not `fuel` -/
theorem inferF_stab : ∀ (e : Expr) (Γ : Env) (S : Subst) (n : Nat),
    ∃ N r, r ≠ .error .fuel ∧ ∀ N', N ≤ N' → inferF false N' Γ e S n = r := by
  intro e
  induction e with
  | var x =>
    intro Γ S n
    refine ⟨0, inferF false 0 Γ (.var x) S n, ?_, fun N' _ => by simp only [inferF]⟩
    simp only [inferF]
    cases lookup x Γ with
    | none => intro hh; cases hh
    | some s => intro hh; cases hh
  | lam x b ih =>
    intro Γ S n
    obtain ⟨N₁, r₁, hr₁, h₁⟩ := ih ((x, Scheme.mono (.var n)) :: Γ) S (n + 1)
    rcases r₁ with e | ⟨τ, S₁, n₁⟩
    · exact ⟨N₁, .error e, hr₁, fun N' hN => by simp only [inferF, h₁ N' hN]⟩
    exact ⟨N₁, .ok (fn (.var n) τ, S₁, n₁), (by intro hh; cases hh),
      fun N' hN => by simp only [inferF, h₁ N' hN]⟩
  | app f a ihf iha =>
    intro Γ S n
    obtain ⟨N₁, r₁, hr₁, h₁⟩ := ihf Γ S n
    rcases r₁ with e | ⟨τf, S₁, n₁⟩
    · exact ⟨N₁, .error e, hr₁, fun N' hN => by simp only [inferF, h₁ N' hN]⟩
    obtain ⟨N₂, r₂, hr₂, h₂⟩ := iha Γ S₁ n₁
    rcases r₂ with e | ⟨τa, S₂, n₂⟩
    · exact ⟨N₁ + N₂, .error e, hr₂, fun N' hN => by
        simp only [inferF, h₁ N' (by omega), h₂ N' (by omega)]⟩
    obtain ⟨N₃, r₃, hr₃, h₃⟩ := unifySF_stab S₂ (n₂ + 1) τf (fn τa (.var n₂))
    rcases r₃ with e | ⟨S₃, n₃⟩
    · exact ⟨N₁ + N₂ + N₃, .error e, err_ne hr₃, fun N' hN => by
        simp only [inferF, h₁ N' (by omega), h₂ N' (by omega), h₃ N' (by omega)]⟩
    exact ⟨N₁ + N₂ + N₃, .ok (.var n₂, S₃, n₃), (by intro hh; cases hh), fun N' hN => by
      simp only [inferF, h₁ N' (by omega), h₂ N' (by omega), h₃ N' (by omega)]⟩
  | letE x e b ihe ihb =>
    intro Γ S n
    obtain ⟨N₁, r₁, hr₁, h₁⟩ := ihe Γ S n
    rcases r₁ with e | ⟨τ₁, S₁, n₁⟩
    · exact ⟨N₁, .error e, hr₁, fun N' hN => by simp only [inferF, h₁ N' hN]⟩
    obtain ⟨N₂, r₂, hr₂, h₂⟩ := ihb ((x, generalize S₁ Γ τ₁) :: Γ) S₁ n₁
    exact ⟨N₁ + N₂, r₂, hr₂, fun N' hN => by
      simp only [inferF, h₁ N' (by omega)]
      exact h₂ N' (by omega)⟩
  | int k =>
    intro Γ S n
    exact ⟨0, .ok (tInt, S, n), (by intro hh; cases hh), fun N' _ => by simp only [inferF]⟩
  | str k =>
    intro Γ S n
    exact ⟨0, .ok (tString, S, n), (by intro hh; cases hh), fun N' _ => by simp only [inferF]⟩
  | ifE c t e ihc iht ihe =>
    intro Γ S n
    obtain ⟨N₁, r₁, hr₁, h₁⟩ := ihc Γ S n
    rcases r₁ with e' | ⟨τc, S₁, n₁⟩
    · exact ⟨N₁, .error e', hr₁, fun N' hN => by simp only [inferF, h₁ N' hN]⟩
    obtain ⟨N₂, r₂, hr₂, h₂⟩ := unifySF_stab S₁ n₁ tBool τc
    rcases r₂ with e' | ⟨S₂, n₂⟩
    · exact ⟨N₁ + N₂, .error e', err_ne hr₂, fun N' hN => by
        simp only [inferF, h₁ N' (by omega), h₂ N' (by omega)]⟩
    obtain ⟨N₃, r₃, hr₃, h₃⟩ := iht Γ S₂ n₂
    rcases r₃ with e' | ⟨τt, S₃, n₃⟩
    · exact ⟨N₁ + N₂ + N₃, .error e', hr₃, fun N' hN => by
        simp only [inferF, h₁ N' (by omega), h₂ N' (by omega), h₃ N' (by omega)]⟩
    obtain ⟨N₄, r₄, hr₄, h₄⟩ := ihe Γ S₃ n₃
    rcases r₄ with e' | ⟨τe, S₄, n₄⟩
    · exact ⟨N₁ + N₂ + N₃ + N₄, .error e', hr₄, fun N' hN => by
        simp only [inferF, h₁ N' (by omega), h₂ N' (by omega), h₃ N' (by omega),
          h₄ N' (by omega)]⟩
    obtain ⟨N₅, r₅, hr₅, h₅⟩ := unifySF_stab S₄ n₄ τt τe
    rcases r₅ with e' | ⟨S₅, n₅⟩
    · exact ⟨N₁ + N₂ + N₃ + N₄ + N₅, .error e', err_ne hr₅, fun N' hN => by
        simp only [inferF, h₁ N' (by omega), h₂ N' (by omega), h₃ N' (by omega),
          h₄ N' (by omega), h₅ N' (by omega)]⟩
    exact ⟨N₁ + N₂ + N₃ + N₄ + N₅, .ok (τt, S₅, n₅), (by intro hh; cases hh), fun N' hN => by
      simp only [inferF, h₁ N' (by omega), h₂ N' (by omega), h₃ N' (by omega),
        h₄ N' (by omega), h₅ N' (by omega)]⟩
  | lt a b iha ihb =>
    intro Γ S n
    obtain ⟨N₁, r₁, hr₁, h₁⟩ := iha Γ S n
    rcases r₁ with e | ⟨τa, S₁, n₁⟩
    · exact ⟨N₁, .error e, hr₁, fun N' hN => by simp only [inferF, h₁ N' hN]⟩
    obtain ⟨N₂, r₂, hr₂, h₂⟩ := unifySF_stab S₁ n₁ tInt τa
    rcases r₂ with e | ⟨S₂, n₂⟩
    · exact ⟨N₁ + N₂, .error e, err_ne hr₂, fun N' hN => by
        simp only [inferF, h₁ N' (by omega), h₂ N' (by omega)]⟩
    obtain ⟨N₃, r₃, hr₃, h₃⟩ := ihb Γ S₂ n₂
    rcases r₃ with e | ⟨τb, S₃, n₃⟩
    · exact ⟨N₁ + N₂ + N₃, .error e, hr₃, fun N' hN => by
        simp only [inferF, h₁ N' (by omega), h₂ N' (by omega), h₃ N' (by omega)]⟩
    obtain ⟨N₄, r₄, hr₄, h₄⟩ := unifySF_stab S₃ n₃ tInt τb
    rcases r₄ with e | ⟨S₄, n₄⟩
    · exact ⟨N₁ + N₂ + N₃ + N₄, .error e, err_ne hr₄, fun N' hN => by
        simp only [inferF, h₁ N' (by omega), h₂ N' (by omega), h₃ N' (by omega),
          h₄ N' (by omega)]⟩
    exact ⟨N₁ + N₂ + N₃ + N₄, .ok (tBool, S₄, n₄), (by intro hh; cases hh), fun N' hN => by
      simp only [inferF, h₁ N' (by omega), h₂ N' (by omega), h₃ N' (by omega),
        h₄ N' (by omega)]⟩
  | fnil =>
    intro Γ S n
    exact ⟨0, .ok (.empty, S, n), (by intro hh; cases hh), fun N' _ => by simp only [inferF]⟩
  | fcons l e rest ihe ihr =>
    intro Γ S n
    obtain ⟨N₁, r₁, hr₁, h₁⟩ := ihe Γ S n
    rcases r₁ with e' | ⟨τ, S₁, n₁⟩
    · exact ⟨N₁, .error e', hr₁, fun N' hN => by simp only [inferF, h₁ N' hN]⟩
    obtain ⟨N₂, r₂, hr₂, h₂⟩ := ihr Γ S₁ n₁
    rcases r₂ with e' | ⟨ρ, S₂, n₂⟩
    · exact ⟨N₁ + N₂, .error e', hr₂, fun N' hN => by
        simp only [inferF, h₁ N' (by omega), h₂ N' (by omega)]⟩
    exact ⟨N₁ + N₂, .ok (.ext l τ ρ, S₂, n₂), (by intro hh; cases hh), fun N' hN => by
      simp only [inferF, h₁ N' (by omega), h₂ N' (by omega)]⟩
  | rcd f ih =>
    intro Γ S n
    obtain ⟨N₁, r₁, hr₁, h₁⟩ := ih Γ S n
    rcases r₁ with e | ⟨ρ, S₁, n₁⟩
    · exact ⟨N₁, .error e, hr₁, fun N' hN => by simp only [inferF, h₁ N' hN]⟩
    exact ⟨N₁, .ok (tRec ρ, S₁, n₁), (by intro hh; cases hh),
      fun N' hN => by simp only [inferF, h₁ N' hN]⟩
  | proj e l ih =>
    intro Γ S n
    obtain ⟨N₁, r₁, hr₁, h₁⟩ := ih Γ S n
    rcases r₁ with e' | ⟨τ, S₁, n₁⟩
    · exact ⟨N₁, .error e', hr₁, fun N' hN => by simp only [inferF, h₁ N' hN]⟩
    obtain ⟨N₂, r₂, hr₂, h₂⟩ :=
      unifySF_stab S₁ (n₁ + 2) (tRec (.ext l (.var n₁) (.var (n₁ + 1)))) τ
    cases ha : asRec (τ.subst S₁) with
    | some row =>
      cases hl : lookupField l (rowFields row) with
      | some τl =>
        exact ⟨N₁, .ok (τl, S₁, n₁), (by intro hh; cases hh), fun N' hN => by
          simp only [inferF, h₁ N' hN, ha, hl]⟩
      | none =>
        rcases r₂ with e' | ⟨S₂, n₂⟩
        · exact ⟨N₁ + N₂, .error e', err_ne hr₂, fun N' hN => by
            simp only [inferF, h₁ N' (by omega), ha, hl, h₂ N' (by omega)]⟩
        exact ⟨N₁ + N₂, .ok (.var n₁, S₂, n₂), (by intro hh; cases hh), fun N' hN => by
          simp only [inferF, h₁ N' (by omega), ha, hl, h₂ N' (by omega)]⟩
    | none =>
      by_cases hv : isVar (τ.subst S₁) = true
      · rcases r₂ with e' | ⟨S₂, n₂⟩
        · exact ⟨N₁ + N₂, .error e', err_ne hr₂, fun N' hN => by
            simp only [inferF, h₁ N' (by omega), ha, if_pos hv, h₂ N' (by omega)]⟩
        exact ⟨N₁ + N₂, .ok (.var n₁, S₂, n₂), (by intro hh; cases hh), fun N' hN => by
          simp only [inferF, h₁ N' (by omega), ha, if_pos hv, h₂ N' (by omega)]⟩
      · exact ⟨N₁, .error .badproj, (by intro hh; cases hh), fun N' hN => by
          simp only [inferF, h₁ N' hN, ha, if_neg hv]⟩
  | anil =>
    intro Γ S n
    exact ⟨0, .ok (tArr (.var n), S, n + 1), (by intro hh; cases hh),
      fun N' _ => by simp only [inferF]⟩
  | asnoc init e ihi ihe =>
    intro Γ S n
    obtain ⟨N₁, r₁, hr₁, h₁⟩ := ihi Γ S n
    rcases r₁ with e' | ⟨τi, S₁, n₁⟩
    · exact ⟨N₁, .error e', hr₁, fun N' hN => by simp only [inferF, h₁ N' hN]⟩
    obtain ⟨N₂, r₂, hr₂, h₂⟩ := ihe Γ S₁ n₁
    rcases r₂ with e' | ⟨τe, S₂, n₂⟩
    · exact ⟨N₁ + N₂, .error e', hr₂, fun N' hN => by
        simp only [inferF, h₁ N' (by omega), h₂ N' (by omega)]⟩
    obtain ⟨N₃, r₃, hr₃, h₃⟩ := unifySF_stab S₂ n₂ τi (tArr τe)
    rcases r₃ with e' | ⟨S₃, n₃⟩
    · exact ⟨N₁ + N₂ + N₃, .error e', err_ne hr₃, fun N' hN => by
        simp only [inferF, h₁ N' (by omega), h₂ N' (by omega), h₃ N' (by omega)]⟩
    exact ⟨N₁ + N₂ + N₃, .ok (τi, S₃, n₃), (by intro hh; cases hh), fun N' hN => by
      simp only [inferF, h₁ N' (by omega), h₂ N' (by omega), h₃ N' (by omega)]⟩
  | conA =>
    intro Γ S n
    exact ⟨0, .ok (fn (.var n) (tT (.var n)), S, n + 1), (by intro hh; cases hh),
      fun N' _ => by simp only [inferF]⟩
  | conB =>
    intro Γ S n
    exact ⟨0, .ok (tT (.var n), S, n + 1), (by intro hh; cases hh),
      fun N' _ => by simp only [inferF]⟩

/-- inference terminates: for every program some unification fuel gives an answer other than `fuel` -/
theorem inferF_fuel_exists : ∀ (e : Expr) (Γ : Env) (S : Subst) (n : Nat),
    ∃ N, inferF false N Γ e S n ≠ .error .fuel := by
  intro e Γ S n
  obtain ⟨N, r, hr, h⟩ := inferF_stab e Γ S n
  exact ⟨N, by rw [h N (Nat.le_refl _)]; exact hr⟩

end GluonModel.HM.Proofs
