import GluonModel.Infix
namespace GluonModel.Infix.Proofs
open GluonModel.Infix

theorem action_shift_iff (n s : OpMeta) : action n s = .shift ↔ okRight s n := by
  rcases n with ⟨np, nf⟩
  rcases s with ⟨sp, sf⟩
  unfold action okRight
  cases nf <;> cases sf <;> simp only [] <;> split <;> (try split) <;> simp <;> omega

theorem action_reduce_iff (n s : OpMeta) : action n s = .reduce ↔ okLeft n s := by
  rcases n with ⟨np, nf⟩
  rcases s with ⟨sp, sf⟩
  unfold action okLeft
  cases nf <;> cases sf <;> simp only [] <;> split <;> (try split) <;> simp <;> omega

theorem action_conflict (n s : OpMeta) (h : action n s = .conflict) :
    s.prec = n.prec ∧ s.fix ≠ n.fix := by
  rcases n with ⟨np, nf⟩
  rcases s with ⟨sp, sf⟩
  unfold action at h
  cases nf <;> cases sf <;> simp only [] at h <;> split at h <;> (try split at h) <;> simp at h <;> simp <;> omega

/-! ### Root conditions -/

def rootL (m : OpMeta) : Tree → Prop
  | .leaf _ => True
  | .node _ o _ => match o.info with | none => False | some c => okLeft m c

def rootR (m : OpMeta) : Tree → Prop
  | .leaf _ => True
  | .node _ o _ => match o.info with | none => False | some c => okRight m c

theorem WF_node (l : Tree) (o : Op) (r : Tree) :
    WF (.node l o r) ↔ WF l ∧ WF r ∧ ∃ m, o.info = some m ∧ rootL m l ∧ rootR m r := by
  rw [WF]
  cases ho : o.info with
  | none => simp
  | some m =>
    cases l with
    | leaf a =>
      cases r with
      | leaf b => simp [rootL, rootR]
      | node rl ro rr => cases hro : ro.info <;> simp [rootL, rootR, hro]
    | node ll lo lr =>
      cases r with
      | leaf b => cases hlo : lo.info <;> simp [rootL, rootR, hlo]
      | node rl ro rr =>
        cases hlo : lo.info <;> cases hro : ro.info <;> simp [rootL, rootR, hlo, hro]

theorem rootL_node (m : OpMeta) (l : Tree) (o : Op) (r : Tree) (c : OpMeta) (h : o.info = some c) :
    rootL m (.node l o r) ↔ okLeft m c := by
  simp [rootL, h]

theorem rootR_node (m : OpMeta) (l : Tree) (o : Op) (r : Tree) (c : OpMeta) (h : o.info = some c) :
    rootR m (.node l o r) ↔ okRight m c := by
  simp [rootR, h]

/-! ### Shape invariant and `internal` -/

theorem pushOp_shape (next : Op) (ops : List Op) : ∀ (args : List Tree),
    args.length = ops.length + 1 →
    pushOp next args ops ≠ .error .internal ∧
    ∀ a' o', pushOp next args ops = .ok (a', o') → a'.length = o'.length := by
  induction ops with
  | nil =>
    intro args h
    simp [pushOp]
    simpa using h
  | cons s ops ih =>
    intro args h
    unfold pushOp
    split
    · simp
    · split
      · simp
      · split
        · simp
          simpa using h
        · simp
        · split
          · apply ih
            simp at h ⊢
            omega
          · rename_i hne
            exfalso
            match args, h, hne with
            | [], h, _ => simp at h
            | [_], h, _ => simp at h
            | r :: l :: a, _, hne => exact hne r l a rfl

theorem finish_shape (ops : List Op) : ∀ (args : List Tree),
    args.length = ops.length + 1 → ∃ t, finish args ops = .ok t := by
  induction ops with
  | nil =>
    intro args h
    match args, h with
    | [t], _ => exact ⟨t, rfl⟩
  | cons s ops ih =>
    intro args h
    match args, h with
    | r :: l :: a, h =>
      rw [finish]
      apply ih
      simp at h ⊢
      omega

theorem run_shape (rest : List (Op × Nat)) : ∀ (args : List Tree) (ops : List Op),
    args.length = ops.length + 1 → run args ops rest ≠ .error .internal := by
  induction rest with
  | nil =>
    intro args ops h
    obtain ⟨t, ht⟩ := finish_shape ops args h
    simp [run, ht]
  | cons p rest ih =>
    intro args ops h
    obtain ⟨o, a⟩ := p
    have hp := pushOp_shape o ops args h
    rw [run]
    split
    · rename_i e he
      intro hc
      injection hc with hc
      subst hc
      exact hp.1 he
    · rename_i a' o' he
      apply ih
      have := hp.2 a' o' he
      simp
      omega


/-! ### Conflicts and undefined operators -/

theorem pushOp_conflict (next : Op) (ops : List Op) : ∀ (args : List Tree) (s n : Op),
    pushOp next args ops = .error (.conflict s n) →
    ∃ sm nm, s.info = some sm ∧ n.info = some nm ∧ sm.prec = nm.prec ∧ sm.fix ≠ nm.fix := by
  induction ops with
  | nil => intro args s n h; simp [pushOp] at h
  | cons s' ops ih =>
    intro args s n h
    unfold pushOp at h
    split at h
    · simp at h
    · split at h
      · simp at h
      · rename_i nm hn _ sm hs
        split at h
        · simp at h
        · rename_i hact
          simp at h
          obtain ⟨rfl, rfl⟩ := h
          have := action_conflict nm sm hact
          exact ⟨sm, nm, hs, hn, this.1, this.2⟩
        · split at h
          · exact ih _ s n h
          · simp at h

theorem finish_not_conflict (ops : List Op) : ∀ (args : List Tree) (e : Err),
    finish args ops = .error e → e = .internal := by
  induction ops with
  | nil =>
    intro args e h
    match args, h with
    | [], h => simp [finish] at h; exact h.symm
    | [t], h => simp [finish] at h
    | _ :: _ :: _, h => simp [finish] at h; exact h.symm
  | cons s ops ih =>
    intro args e h
    match args, h with
    | [], h => simp [finish] at h; exact h.symm
    | [t], h => simp [finish] at h; exact h.symm
    | r :: l :: a, h => rw [finish] at h; exact ih _ e h

theorem run_conflict (rest : List (Op × Nat)) : ∀ (args : List Tree) (ops : List Op) (s n : Op),
    run args ops rest = .error (.conflict s n) →
    ∃ sm nm, s.info = some sm ∧ n.info = some nm ∧ sm.prec = nm.prec ∧ sm.fix ≠ nm.fix := by
  induction rest with
  | nil =>
    intro args ops s n h
    rw [run] at h
    have := finish_not_conflict ops args _ h
    simp at this
  | cons p rest ih =>
    intro args ops s n h
    obtain ⟨o, a⟩ := p
    rw [run] at h
    split at h
    · rename_i e he
      injection h with h
      subst h
      exact pushOp_conflict o ops args s n he
    · exact ih _ _ s n h

/-- All operators on the stack have metadata. -/
def Defd (ops : List Op) : Prop := ∀ o ∈ ops, o.info ≠ none

theorem pushOp_defd (next : Op) (hn : next.info ≠ none) (ops : List Op) : ∀ (args : List Tree),
    Defd ops →
    (∀ u, pushOp next args ops ≠ .error (.undefined u)) ∧
    ∀ a' o', pushOp next args ops = .ok (a', o') → Defd o' := by
  induction ops with
  | nil =>
    intro args hd
    simp [pushOp, Defd]
    exact hn
  | cons s ops ih =>
    intro args hd
    have hs : s.info ≠ none := hd s (by simp)
    have hd' : Defd ops := fun o ho => hd o (by simp [ho])
    unfold pushOp
    split
    · contradiction
    · split
      · contradiction
      · split
        · simp
          intro o ho
          simp at ho
          rcases ho with rfl | rfl | ho
          · exact hn
          · exact hs
          · exact hd' o ho
        · simp
        · split
          · exact ih _ hd'
          · simp

theorem run_defd (rest : List (Op × Nat)) (hr : ∀ p ∈ rest, p.1.info ≠ none) :
    ∀ (args : List Tree) (ops : List Op), Defd ops →
    ∀ u, run args ops rest ≠ .error (.undefined u) := by
  induction rest with
  | nil =>
    intro args ops hd u h
    rw [run] at h
    have := finish_not_conflict ops args _ h
    simp at this
  | cons p rest ih =>
    intro args ops hd u h
    obtain ⟨o, a⟩ := p
    have ho : o.info ≠ none := hr (o, a) (by simp)
    have hp := pushOp_defd o ho ops args hd
    rw [run] at h
    split at h
    · rename_i e he
      injection h with h
      subst h
      exact hp.1 u he
    · rename_i a' o' he
      exact ih (fun p hp => hr p (by simp [hp])) _ _ (hp.2 a' o' he) u h


/-! ### The chain represented by a stack state -/

/-- Wrap the chain `p` of the top argument into the pending `(left operand, operator)` pairs. -/
def ctx : List Tree → List Op → Nat × List (Op × Nat) → Nat × List (Op × Nat)
  | l :: args, o :: ops, p => ctx args ops ((flatten l).1, (flatten l).2 ++ (o, p.1) :: p.2)
  | _, _, p => p

theorem ctx_append (args : List Tree) : ∀ (ops : List Op) (p : Nat × List (Op × Nat))
    (s : List (Op × Nat)),
    ctx args ops (p.1, p.2 ++ s) = ((ctx args ops p).1, (ctx args ops p).2 ++ s) := by
  induction args with
  | nil => intro ops p s; simp [ctx]
  | cons l args ih =>
    intro ops p s
    cases ops with
    | nil => simp [ctx]
    | cons o ops =>
      simp only [ctx]
      rw [← ih]
      simp

theorem pushOp_chain (next : Op) (ops : List Op) : ∀ (x : Tree) (args a' : List Tree) (o' : List Op),
    pushOp next (x :: args) ops = .ok (a', o') →
    ∃ x' args'' ops'', a' = x' :: args'' ∧ o' = next :: ops'' ∧
      ctx args'' ops'' (flatten x') = ctx args ops (flatten x) := by
  induction ops with
  | nil =>
    intro x args a' o' h
    simp [pushOp] at h
    obtain ⟨rfl, rfl⟩ := h
    exact ⟨x, args, [], rfl, rfl, rfl⟩
  | cons s ops ih =>
    intro x args a' o' h
    unfold pushOp at h
    split at h
    · simp at h
    · split at h
      · simp at h
      · split at h
        · simp at h
          obtain ⟨rfl, rfl⟩ := h
          exact ⟨x, args, s :: ops, rfl, rfl, rfl⟩
        · simp at h
        · split at h
          · rename_i r l args' heq
            injection heq with h1 h2
            subst h1 h2
            obtain ⟨x', args'', ops'', e1, e2, e3⟩ := ih _ _ _ _ h
            refine ⟨x', args'', ops'', e1, e2, ?_⟩
            rw [e3]
            simp [ctx, flatten]
          · simp at h

theorem finish_chain (ops : List Op) : ∀ (x : Tree) (args : List Tree) (t : Tree),
    finish (x :: args) ops = .ok t → flatten t = ctx args ops (flatten x) := by
  induction ops with
  | nil =>
    intro x args t h
    match args, h with
    | [], h => simp [finish] at h; subst h; simp [ctx]
    | _ :: _, h => simp [finish] at h
  | cons s ops ih =>
    intro x args t h
    match args, h with
    | [], h => simp [finish] at h
    | l :: a, h =>
      rw [finish] at h
      rw [ih _ _ _ h]
      simp [ctx, flatten]

theorem run_chain (rest : List (Op × Nat)) : ∀ (x : Tree) (args : List Tree) (ops : List Op)
    (t : Tree), run (x :: args) ops rest = .ok t →
    flatten t = ((ctx args ops (flatten x)).1, (ctx args ops (flatten x)).2 ++ rest) := by
  induction rest with
  | nil =>
    intro x args ops t h
    rw [run] at h
    simp [finish_chain ops x args t h]
  | cons p rest ih =>
    intro x args ops t h
    obtain ⟨o, a⟩ := p
    rw [run] at h
    split at h
    · simp at h
    · rename_i a' o' he
      obtain ⟨x', args'', ops'', rfl, rfl, e3⟩ := pushOp_chain o ops x args a' o' he
      rw [ih _ _ _ _ h, ← e3]
      have := ctx_append args'' ops'' (flatten x') [(o, a)]
      simp [ctx, flatten, this]


/-! ### The well-formedness invariant of the stacks -/

def topShift (m : OpMeta) : List Op → Prop
  | [] => True
  | o' :: _ => ∃ m', o'.info = some m' ∧ okRight m' m

def Inv : List Tree → List Op → Prop
  | [t], [] => WF t
  | t :: l :: args, o :: ops =>
    WF t ∧ ∃ m, o.info = some m ∧ rootR m t ∧ rootL m l ∧ topShift m ops ∧ Inv (l :: args) ops
  | _, _ => False

theorem Inv_WF_top (ops : List Op) (t : Tree) (args : List Tree) (h : Inv (t :: args) ops) :
    WF t := by
  cases ops with
  | nil =>
    match args, h with
    | [], h => exact h
    | _ :: _, h => simp [Inv] at h
  | cons o ops =>
    match args, h with
    | [], h => simp [Inv] at h
    | _ :: _, h => exact h.1

theorem Inv_reduce (t l : Tree) (args : List Tree) (s : Op) (ops : List Op)
    (h : Inv (t :: l :: args) (s :: ops)) : Inv (.node l s t :: args) ops := by
  obtain ⟨ht, m, hs, hR, hL, hts, hinv⟩ := h
  have hl : WF l := Inv_WF_top _ _ _ hinv
  have hnode : WF (.node l s t) := (WF_node l s t).2 ⟨hl, ht, m, hs, hL, hR⟩
  cases ops with
  | nil =>
    match args, hinv with
    | [], _ => exact hnode
    | _ :: _, hinv => simp [Inv] at hinv
  | cons o' ops' =>
    match args, hinv with
    | [], hinv => simp [Inv] at hinv
    | l' :: args1, hinv =>
      obtain ⟨_, m', ho', hR', hL', hts', hinv'⟩ := hinv
      obtain ⟨m'', ho'', hok⟩ := hts
      rw [ho'] at ho''
      injection ho'' with ho''
      subst ho''
      exact ⟨hnode, m', ho', (rootR_node m' l s t m hs).2 hok, hL', hts', hinv'⟩

theorem pushOp_inv (next : Op) (nm : OpMeta) (hn : next.info = some nm) (ops : List Op) :
    ∀ (t : Tree) (args a' : List Tree) (o' : List Op),
    Inv (t :: args) ops → rootL nm t → pushOp next (t :: args) ops = .ok (a', o') →
    ∀ a, Inv (.leaf a :: a') o' := by
  induction ops with
  | nil =>
    intro t args a' o' hinv hL h a
    simp [pushOp] at h
    obtain ⟨rfl, rfl⟩ := h
    match args, hinv with
    | [], hinv => exact ⟨trivial, nm, hn, trivial, hL, trivial, hinv⟩
    | _ :: _, hinv => simp [Inv] at hinv
  | cons s ops ih =>
    intro t args a' o' hinv hL h a
    match args, hinv with
    | [], hinv => simp [Inv] at hinv
    | l :: args0, hinv =>
      unfold pushOp at h
      split at h
      · simp at h
      · rename_i nm' hn'
        rw [hn] at hn'
        injection hn' with hn'
        subst hn'
        split at h
        · simp at h
        · rename_i sm hs
          split at h
          · rename_i hact
            simp at h
            obtain ⟨rfl, rfl⟩ := h
            exact ⟨trivial, nm, hn, trivial, hL, ⟨sm, hs, (action_shift_iff nm sm).1 hact⟩, hinv⟩
          · simp at h
          · rename_i hact
            split at h
            · rename_i r l' args' heq
              injection heq with h1 h2
              injection h2 with h2 h3
              subst h1 h2 h3
              exact ih _ _ _ _ (Inv_reduce _ _ _ _ _ hinv)
                ((rootL_node nm _ s _ sm hs).2 ((action_reduce_iff nm sm).1 hact)) h a
            · rename_i hne
              exact (hne _ _ _ rfl).elim

theorem finish_inv (ops : List Op) : ∀ (args : List Tree) (t : Tree),
    Inv args ops → finish args ops = .ok t → WF t := by
  induction ops with
  | nil =>
    intro args t hinv h
    match args, hinv, h with
    | [x], hinv, h => simp [finish] at h; subst h; exact hinv
    | [], hinv, _ => simp [Inv] at hinv
    | _ :: _ :: _, hinv, _ => simp [Inv] at hinv
  | cons s ops ih =>
    intro args t hinv h
    match args, hinv, h with
    | [], hinv, _ => simp [Inv] at hinv
    | [_], hinv, _ => simp [Inv] at hinv
    | r :: l :: a, hinv, h =>
      rw [finish] at h
      exact ih _ t (Inv_reduce _ _ _ _ _ hinv) h

theorem run_inv (rest : List (Op × Nat)) (hr : ∀ p ∈ rest, p.1.info ≠ none) :
    ∀ (a : Nat) (args : List Tree) (ops : List Op) (t : Tree),
    Inv (.leaf a :: args) ops → run (.leaf a :: args) ops rest = .ok t → WF t := by
  induction rest with
  | nil =>
    intro a args ops t hinv h
    rw [run] at h
    exact finish_inv _ _ _ hinv h
  | cons p rest ih =>
    intro a args ops t hinv h
    obtain ⟨o, b⟩ := p
    have ho : o.info ≠ none := hr (o, b) (by simp)
    obtain ⟨nm, hnm⟩ := Option.ne_none_iff_exists'.1 ho
    rw [run] at h
    split at h
    · simp at h
    · rename_i a' o' he
      exact ih (fun p hp => hr p (by simp [hp])) b a' o' t
        (pushOp_inv o nm hnm ops _ _ _ _ hinv trivial he b) h


/-! ### Completeness: running over the tokens of a well-formed tree -/

theorem okLeft_okRight (n m c : OpMeta) (h1 : okLeft n m) (h2 : okRight m c) : okLeft n c := by
  unfold okLeft at *
  unfold okRight at h2
  rcases h1 with h1 | ⟨h1, _, h3⟩ <;> rcases h2 with h2 | ⟨h2, h5, _⟩
  · left; omega
  · left; omega
  · left; omega
  · rw [h3] at h5; contradiction

theorem okRight_okLeft (s m c : OpMeta) (h1 : okRight s m) (h2 : okLeft m c) : okRight s c := by
  unfold okRight at *
  unfold okLeft at h2
  rcases h1 with h1 | ⟨h1, _, h3⟩ <;> rcases h2 with h2 | ⟨h2, h5, _⟩
  · left; omega
  · left; omega
  · left; omega
  · rw [h3] at h5; contradiction

theorem rootL_right (nm : OpMeta) (l : Tree) (o : Op) (r : Tree) (hw : WF (.node l o r))
    (h : rootL nm (.node l o r)) : rootL nm r := by
  obtain ⟨_, _, m, ho, _, hR⟩ := (WF_node l o r).1 hw
  have h1 := (rootL_node nm l o r m ho).1 h
  cases r with
  | leaf a => trivial
  | node rl ro rr =>
    cases hro : ro.info with
    | none => simp [rootR, hro] at hR
    | some c =>
      exact (rootL_node nm rl ro rr c hro).2
        (okLeft_okRight nm m c h1 ((rootR_node m rl ro rr c hro).1 hR))

theorem rootR_left (sm : OpMeta) (l : Tree) (o : Op) (r : Tree) (hw : WF (.node l o r))
    (h : rootR sm (.node l o r)) : rootR sm l := by
  obtain ⟨_, _, m, ho, hL, _⟩ := (WF_node l o r).1 hw
  have h1 := (rootR_node sm l o r m ho).1 h
  cases l with
  | leaf a => trivial
  | node ll lo lr =>
    cases hlo : lo.info with
    | none => simp [rootL, hlo] at hL
    | some c =>
      exact (rootR_node sm ll lo lr c hlo).2
        (okRight_okLeft sm m c h1 ((rootL_node m ll lo lr c hlo).1 hL))

/-- Push the right spine of `t` (pending left operands and operators) onto the stacks. -/
def spine : Tree → List Tree → List Op → List Tree × List Op
  | .leaf a, args, ops => (.leaf a :: args, ops)
  | .node l o r, args, ops => spine r (l :: args) (o :: ops)

theorem finish_spine (t : Tree) : ∀ (args : List Tree) (ops : List Op),
    finish (spine t args ops).1 (spine t args ops).2 = finish (t :: args) ops := by
  induction t with
  | leaf a => intro args ops; rfl
  | node l o r _ ihr =>
    intro args ops
    rw [spine, ihr, finish]

theorem pushOp_spine (n : Op) (nm : OpMeta) (hn : n.info = some nm) (x : Tree) :
    ∀ (args : List Tree) (ops : List Op), WF x → rootL nm x →
    pushOp n (spine x args ops).1 (spine x args ops).2 = pushOp n (x :: args) ops := by
  induction x with
  | leaf a => intro args ops _ _; rfl
  | node l o r _ ihr =>
    intro args ops hw hL
    obtain ⟨_, hwr, m, ho, _, _⟩ := (WF_node l o r).1 hw
    have hact : action nm m = .reduce :=
      (action_reduce_iff nm m).2 ((rootL_node nm l o r m ho).1 hL)
    rw [spine, ihr _ _ hwr (rootL_right nm l o r hw hL)]
    conv => lhs; rw [pushOp]
    simp [hn, ho, hact]

def topR (t : Tree) : List Op → Prop
  | [] => True
  | s :: _ => ∃ sm, s.info = some sm ∧ rootR sm t

theorem pushOp_shift (n : Op) (nm : OpMeta) (hn : n.info = some nm) (l r : Tree)
    (args : List Tree) (ops : List Op) (ht : topR (.node l n r) ops) :
    pushOp n (l :: args) ops = .ok (l :: args, n :: ops) := by
  cases ops with
  | nil => rfl
  | cons s ops =>
    obtain ⟨sm, hs, hR⟩ := ht
    have hact : action nm sm = .shift :=
      (action_shift_iff nm sm).2 ((rootR_node sm l n r nm hn).1 hR)
    unfold pushOp
    simp [hn, hs, hact]

theorem run_tree (t : Tree) : ∀ (args : List Tree) (ops : List Op) (rest : List (Op × Nat)),
    WF t → topR t ops →
    run (.leaf (flatten t).1 :: args) ops ((flatten t).2 ++ rest) =
      run (spine t args ops).1 (spine t args ops).2 rest := by
  induction t with
  | leaf a => intro args ops rest _ _; simp [flatten, spine]
  | node l o r ihl ihr =>
    intro args ops rest hw ht
    obtain ⟨hwl, hwr, m, ho, hL, hR⟩ := (WF_node l o r).1 hw
    have htl : topR l ops := by
      cases ops with
      | nil => trivial
      | cons s ops =>
        obtain ⟨sm, hs, hsR⟩ := ht
        exact ⟨sm, hs, rootR_left sm l o r hw hsR⟩
    simp only [flatten, List.append_assoc, List.cons_append]
    rw [ihl args ops _ hwl htl, run, pushOp_spine o m ho l args ops hwl hL,
      pushOp_shift o m ho l r args ops ht]
    simp only []
    rw [ihr (l :: args) (o :: ops) rest hwr ⟨m, ho, hR⟩, spine]

/-! ### The five properties -/

theorem reparse_sound (first : Nat) (rest : List (Op × Nat)) (t : Tree)
    (hd : ∀ p ∈ rest, p.1.info ≠ none)
    (h : reparse first rest = .ok t) : flatten t = (first, rest) ∧ WF t := by
  unfold reparse at h
  constructor
  · rw [run_chain rest _ _ _ t h]
    simp [ctx, flatten]
  · exact run_inv rest hd first [] [] t (by simp [Inv, WF]) h

theorem reparse_complete (t : Tree) (h : WF t) :
    reparse (flatten t).1 (flatten t).2 = .ok t := by
  have := run_tree t [] [] [] h trivial
  rw [List.append_nil] at this
  rw [reparse, this, run, finish_spine, finish]

theorem reparse_never_internal (first : Nat) (rest : List (Op × Nat)) :
    reparse first rest ≠ .error .internal :=
  run_shape rest _ _ (by simp)

theorem reparse_conflict_iff (first : Nat) (rest : List (Op × Nat))
    (hd : ∀ p ∈ rest, p.1.info ≠ none) :
    (∃ s n, reparse first rest = .error (.conflict s n)) ↔
      ¬ ∃ t, flatten t = (first, rest) ∧ WF t := by
  constructor
  · rintro ⟨s, n, h⟩ ⟨t, hf, hw⟩
    have := reparse_complete t hw
    rw [hf] at this
    rw [this] at h
    simp at h
  · intro hno
    cases h : reparse first rest with
    | ok t => exact (hno ⟨t, reparse_sound first rest t hd h⟩).elim
    | error e =>
      cases e with
      | conflict s n => exact ⟨s, n, rfl⟩
      | undefined u => exact (run_defd rest hd _ _ (by simp [Defd]) u h).elim
      | internal => exact (reparse_never_internal first rest h).elim

theorem conflict_is_conflict (first : Nat) (rest : List (Op × Nat)) (s n : Op)
    (h : reparse first rest = .error (.conflict s n)) :
    ∃ sm nm, s.info = some sm ∧ n.info = some nm ∧ sm.prec = nm.prec ∧ sm.fix ≠ nm.fix :=
  run_conflict rest _ _ s n h

end GluonModel.Infix.Proofs
