import GluonModel.Infix
namespace GluonModel.Infix.Proofs
open GluonModel.Infix

theorem reparse_sound (first : Nat) (rest : List (Op × Nat)) (t : Tree)
    (h : reparse first rest = .ok t) : flatten t = (first, rest) ∧ WF t := by
  sorry

theorem reparse_complete (t : Tree) (h : WF t) :
    reparse (flatten t).1 (flatten t).2 = .ok t := by
  sorry

theorem reparse_never_internal (first : Nat) (rest : List (Op × Nat)) :
    reparse first rest ≠ .error .internal := by
  sorry

theorem reparse_conflict_iff (first : Nat) (rest : List (Op × Nat))
    (hd : ∀ p ∈ rest, p.1.info ≠ none) :
    (∃ s n, reparse first rest = .error (.conflict s n)) ↔
      ¬ ∃ t, flatten t = (first, rest) ∧ WF t := by
  sorry

theorem conflict_is_conflict (first : Nat) (rest : List (Op × Nat)) (s n : Op)
    (h : reparse first rest = .error (.conflict s n)) :
    ∃ sm nm, s.info = some sm ∧ n.info = some nm ∧ sm.prec = nm.prec ∧ sm.fix ≠ nm.fix := by
  sorry

end GluonModel.Infix.Proofs
