import GluonModel.Infix
namespace GluonModel.Infix.Proofs
open GluonModel.Infix

/-! ### `action` versus `okLeft` / `okRight` -/

theorem action_shift_iff (n s : OpMeta) : action n s = .shift ↔ okRight s n := by
  rcases n with ⟨np, nf⟩
  rcases s with ⟨sp, sf⟩
  unfold action okRight
  cases nf <;> cases sf <;> simp <;> (repeat' split) <;> simp <;> omega

theorem action_reduce_iff (n s : OpMeta) : action n s = .reduce ↔ okLeft n s := by
  rcases n with ⟨np, nf⟩
  rcases s with ⟨sp, sf⟩
  unfold action okLeft
  cases nf <;> cases sf <;> simp <;> (repeat' split) <;> simp <;> omega

theorem action_conflict (n s : OpMeta) (h : action n s = .conflict) :
    s.prec = n.prec ∧ s.fix ≠ n.fix := by
  rcases n with ⟨np, nf⟩
  rcases s with ⟨sp, sf⟩
  unfold action at h
  cases nf <;> cases sf <;> simp at h <;> (repeat' split at h) <;> simp at h <;> simp <;> omega

end GluonModel.Infix.Proofs
