/-
C04, full language: dead-code elimination with a closed used-set preserves behaviour also for
expressions that define closures.  Closures capture environments and carry code, so the two runs
produce *related* values: a closure of the optimised run is the closure of the original run with
`dce`-optimised bodies, over a related environment (`VRel`).  The relation is syntactic (code +
environment), so no step index is needed; the budget of nested closure calls (`applyN n`) is the
same on both sides because what is dropped makes no call.
-/
import GluonModel.OptCore
import GluonModel.Dce
import GluonModel.Proofs.Dce

namespace GluonModel.Proofs.DceRel
open GluonModel.OptCore GluonModel.Dce GluonModel.Proofs.Dce

mutual
/-- `VRel used v v'`: `v'` is `v` with every closure's group optimised by `dce used`. -/
inductive VRel (used : String → Bool) : Value → Value → Prop
  | lit (l : Lit) : VRel used (.lit l) (.lit l)
  | ext (n : String) : VRel used (.ext n) (.ext n)
  | data (c : String) (rows : List String) {fs fs' : List Value} :
      VRels used fs fs' → VRel used (.data c rows fs) (.data c rows fs')
  | pap {f f' : Value} {as as' : List Value} :
      VRel used f f' → VRels used as as' → VRel used (.pap f as) (.pap f' as')
  | clos {env env' : Env} (group : Closures) (name : String) :
      ERel used env env' → keptClosures used group = true → used name = true →
      VRel used (.clos env group name) (.clos env' (dceClosures used group) name)
inductive VRels (used : String → Bool) : List Value → List Value → Prop
  | nil : VRels used [] []
  | cons {v v' : Value} {vs vs' : List Value} :
      VRel used v v' → VRels used vs vs' → VRels used (v :: vs) (v' :: vs')
/-- The optimised environment lacks the bindings of unused names. -/
inductive ERel (used : String → Bool) : Env → Env → Prop
  | nil : ERel used [] []
  | cons (x : String) {v v' : Value} {env env' : Env} :
      VRel used v v' → ERel used env env' → ERel used ((x, v) :: env) ((x, v') :: env')
  | skip (x : String) (v : Value) {env env' : Env} :
      used x = false → ERel used env env' → ERel used ((x, v) :: env) env'
end

/-- Host-call logs: same functions, related arguments. -/
inductive LRel (used : String → Bool) : Log → Log → Prop
  | nil : LRel used [] []
  | cons (n : String) {as as' : List Value} {l l' : Log} :
      VRels used as as' → LRel used l l' → LRel used ((n, as) :: l) ((n, as') :: l')

inductive ORel (used : String → Bool) : Option Value → Option Value → Prop
  | none : ORel used none none
  | some {v v' : Value} : VRel used v v' → ORel used (some v) (some v')

def OutRel {α : Type} (P : α → α → Prop) : Out α → Out α → Prop
  | .ok a, .ok a' => P a a'
  | .arith, .arith => True
  | .user m, .user m' => m = m'
  | .wrong, .wrong => True
  | .timeout, .timeout => True
  | _, _ => False

/-- The optimised run `r'` is the original run `r` up to `P` on the results and `VRel` on the
    logged arguments, or `r` stopped with a skippable failure and `r'` went on. -/
def RRel {α : Type} (used : String → Bool) (P : α → α → Prop) (r r' : R α) : Prop :=
  (OutRel P r.out r'.out ∧ LRel used r.log r'.log) ∨
  (Skippable r.out ∧ ∃ l1 l2, r'.log = l1 ++ l2 ∧ LRel used r.log l1)

variable {used : String → Bool}

theorem lrel_append {l1 l1' l2 l2' : Log} (h1 : LRel used l1 l1') (h2 : LRel used l2 l2') :
    LRel used (l1 ++ l2) (l1' ++ l2') := by
  induction h1 with
  | nil => simpa using h2
  | cons n ha _ ih => exact LRel.cons n ha ih

theorem vrels_length : ∀ {vs vs' : List Value}, VRels used vs vs' → vs.length = vs'.length
  | _, _, .nil => rfl
  | _, _, .cons _ h => by simp [vrels_length h]

theorem vrels_append : ∀ {a a' b b' : List Value}, VRels used a a' → VRels used b b' →
    VRels used (a ++ b) (a' ++ b')
  | _, _, _, _, .nil, hb => by simpa using hb
  | _, _, _, _, .cons hv h, hb => VRels.cons hv (vrels_append h hb)

theorem vrels_drop : ∀ (n : Nat) {a a' : List Value}, VRels used a a' →
    VRels used (a.drop n) (a'.drop n)
  | 0, _, _, h => by simpa using h
  | _ + 1, _, _, .nil => by simpa using VRels.nil
  | n + 1, _, _, .cons _ h => by simpa using vrels_drop n h

theorem vrels_get : ∀ {a a' : List Value}, VRels used a a' → ∀ (i : Nat), ORel used a[i]? a'[i]?
  | _, _, .nil, i => by simpa using ORel.none
  | _, _, .cons hv _, 0 => by simpa using ORel.some hv
  | _, _, .cons _ h, i + 1 => by simpa using vrels_get h i

theorem erel_lookup : ∀ {env env' : Env}, ERel used env env' → ∀ x, used x = true →
    ORel used (lookup env x) (lookup env' x)
  | _, _, .nil, x, _ => by simpa [lookup] using ORel.none
  | _, _, .cons y hv he, x, hx => by
    simp only [lookup]
    split
    · exact ORel.some hv
    · exact erel_lookup he x hx
  | _, _, .skip y v hy he, x, hx => by
    simp only [lookup]
    have : ¬ y = x := by
      intro e
      subst e
      rw [hy] at hx
      exact Bool.noConfusion hx
    simp only [this, if_false]
    exact erel_lookup he x hx

theorem identV_rel {env env' : Env} (he : ERel used env env') (x : String) (hx : used x = true) :
    VRel used (identV env x) (identV env' x) := by
  unfold identV
  split
  · exact VRel.ext x
  · unfold lookupD
    have := erel_lookup he x hx
    revert this
    cases lookup env x <;> cases lookup env' x <;> intro h <;> cases h
    · exact VRel.ext x
    · rename_i hv; exact hv

theorem litOf_rel {v v' : Value} (h : VRel used v v') : litOf v = litOf v' := by
  cases h <;> rfl

theorem intArgs_rel {vs vs' : List Value} (h : VRels used vs vs') : intArgs vs = intArgs vs' := by
  cases h with
  | nil => rfl
  | cons h1 t =>
    cases t with
    | nil => rfl
    | cons h2 t2 =>
      cases t2 with
      | nil => simp only [intArgs, litOf_rel h1, litOf_rel h2]
      | cons h3 t3 => rfl

theorem outrel_checked (P : Value → Value → Prop) (hl : ∀ l, P (.lit l) (.lit l)) (n : Int) :
    OutRel P (checked n) (checked n) := by
  unfold checked
  split
  · exact hl _
  · trivial

theorem outrel_intOp (op : String) (a b : Int) :
    OutRel (VRel used) (intOp op a b) (intOp op a b) := by
  have hl : ∀ l, VRel used (.lit l) (.lit l) := VRel.lit
  have hb : ∀ b : Bool, OutRel (VRel used) (.ok (boolV b)) (.ok (boolV b)) :=
    fun b => VRel.data _ _ VRels.nil
  unfold intOp
  repeat' split
  all_goals first
    | exact outrel_checked _ hl _
    | exact hb _
    | trivial

theorem builtin_rel (op : String) {vs vs' : List Value} (h : VRels used vs vs') :
    OutRel (VRel used) (builtin op vs) (builtin op vs') := by
  unfold builtin
  rw [← intArgs_rel h]
  split
  · exact outrel_intOp _ _ _
  · trivial

theorem rrel_of_rel {α} {P : α → α → Prop} {r r' : R α} (ho : OutRel P r.out r'.out)
    (hl : LRel used r.log r'.log) : RRel used P r r' := Or.inl ⟨ho, hl⟩

theorem hostCall_rel (name : String) {as as' : List Value} (h : VRels used as as') :
    RRel used (VRel used) (hostCall name as) (hostCall name as') := by
  cases h with
  | nil => exact rrel_of_rel trivial LRel.nil
  | cons h1 t =>
    cases t with
    | cons h2 t2 => exact rrel_of_rel trivial LRel.nil
    | nil =>
      simp only [hostCall]
      split
      · exact rrel_of_rel h1 (LRel.cons _ (VRels.cons h1 VRels.nil) LRel.nil)
      · split
        · rw [← litOf_rel h1]
          split
          · exact rrel_of_rel rfl LRel.nil
          · exact rrel_of_rel trivial LRel.nil
        · exact rrel_of_rel trivial LRel.nil

/-! ### Sequencing -/

theorem bind_rrel {α β} {P : α → α → Prop} {Q : β → β → Prop} (r r' : R α) (k k' : α → R β)
    (h : RRel used P r r') (hk : ∀ a a', P a a' → RRel used Q (k a) (k' a')) :
    RRel used Q (r.bind k) (r'.bind k') := by
  rcases h with ⟨ho, hl⟩ | ⟨hs, l1, l2, hl, hll⟩
  · cases hr : r.out <;> cases hr' : r'.out <;> simp only [hr, hr', OutRel] at ho
    case ok.ok a a' =>
      rcases hk a a' ho with ⟨ho2, hl2⟩ | ⟨hs2, m1, m2, hm, hmm⟩
      · left
        unfold R.bind
        simp only [hr, hr']
        exact ⟨ho2, lrel_append hl hl2⟩
      · right
        unfold R.bind
        simp only [hr, hr']
        exact ⟨hs2, r'.log ++ m1, m2, by rw [hm, List.append_assoc], lrel_append hl hmm⟩
    case arith.arith => left; unfold R.bind; simp only [hr, hr']; exact ⟨trivial, hl⟩
    case user.user m m' => left; unfold R.bind; simp only [hr, hr']; exact ⟨ho, hl⟩
    case wrong.wrong => left; unfold R.bind; simp only [hr, hr']; exact ⟨trivial, hl⟩
    case timeout.timeout => left; unfold R.bind; simp only [hr, hr']; exact ⟨trivial, hl⟩
  · right
    obtain ⟨h1, h2⟩ := bind_skippable r k hs
    obtain ⟨l3, hl3⟩ := bind_log r' k'
    exact ⟨h1, l1, l2 ++ l3, by rw [hl3, hl, List.append_assoc], by rw [h2]; exact hll⟩

theorem rrel_pure {α} {P : α → α → Prop} {a a' : α} (h : P a a') :
    RRel used P (R.pure a) (R.pure a') := Or.inl ⟨h, LRel.nil⟩

/-- A quiet original prefix that the optimised program does not run. -/
theorem rrel_skip_bind {α β} {Q : β → β → Prop} (r : R α) (k : α → R β) (r' : R β)
    (hq : Quiet r) (hk : ∀ a, r.out = .ok a → RRel used Q (k a) r') :
    RRel used Q (r.bind k) r' := by
  obtain ⟨hl, ho⟩ := hq
  rcases ho with hs | ⟨a, ha⟩
  · right
    obtain ⟨h1, h2⟩ := bind_skippable r k hs
    exact ⟨h1, [], r'.log, by simp, by rw [h2, hl]; exact LRel.nil⟩
  · have : r.bind k = k a := by
      unfold R.bind
      simp only [ha, hl, List.nil_append]
    rw [this]
    exact hk a ha

/-! ### Patterns and environments -/

/-- Bindings made by a pattern on related values. -/
inductive BRel (used : String → Bool) : Env → Env → Prop
  | nil : BRel used [] []
  | cons (x : String) {v v' : Value} {bs bs' : Env} :
      VRel used v v' → BRel used bs bs' → BRel used ((x, v) :: bs) ((x, v') :: bs')

theorem erel_append_b {bs bs' env env' : Env} (hb : BRel used bs bs') (he : ERel used env env') :
    ERel used (bs ++ env) (bs' ++ env') := by
  induction hb with
  | nil => simpa using he
  | cons x hv _ ih => exact ERel.cons x hv ih

theorem brel_keys {bs bs' : Env} (hb : BRel used bs bs') : bs.map (·.1) = bs'.map (·.1) := by
  induction hb with
  | nil => rfl
  | cons x _ _ ih => simp [ih]

theorem erel_skip_all {env env' : Env} (he : ERel used env env') :
    ∀ (bs : Env), (∀ p ∈ bs, used p.1 = false) → ERel used (bs ++ env) env'
  | [], _ => by simpa using he
  | (x, v) :: bs, h => by
    have hx : used x = false := h (x, v) (by simp)
    exact ERel.skip x v hx (erel_skip_all he bs (fun p hp => h p (by simp [hp])))

theorem zip_brel : ∀ (xs : List String) {vs vs' : List Value}, VRels used vs vs' →
    BRel used (xs.zip vs) (xs.zip vs')
  | [], _, _, _ => by simpa using BRel.nil
  | _ :: _, _, _, .nil => by simpa using BRel.nil
  | x :: xs, _, _, .cons hv h => by simpa using BRel.cons x hv (zip_brel xs h)

theorem bindFields_rel (rows : List String) {vals vals' : List Value}
    (hv : VRels used vals vals') : ∀ (fs : List (String × String)),
    (bindFields rows vals fs = none ∧ bindFields rows vals' fs = none) ∨
    (∃ bs bs', bindFields rows vals fs = some bs ∧ bindFields rows vals' fs = some bs' ∧
      BRel used bs bs')
  | [] => Or.inr ⟨[], [], rfl, rfl, BRel.nil⟩
  | (f, b) :: rest => by
    simp only [bindFields]
    cases hi : findIdx rows f with
    | none => exact Or.inl ⟨rfl, rfl⟩
    | some i =>
      simp only
      have hg := vrels_get hv i
      rcases bindFields_rel rows hv rest with ⟨h1, h2⟩ | ⟨bs, bs', h1, h2, hb⟩
      · rw [h1, h2]
        left
        constructor <;> (split <;> simp_all)
      · rw [h1, h2]
        revert hg
        cases vals[i]? <;> cases vals'[i]? <;> intro hg <;> cases hg
        · left; exact ⟨rfl, rfl⟩
        · rename_i hvv
          right
          exact ⟨_, _, rfl, rfl, BRel.cons b hvv hb⟩

theorem matchPat_rel (p : Pat) {v v' : Value} (h : VRel used v v') :
    (matchPat p v = none ∧ matchPat p v' = none) ∨
    (∃ bs bs', matchPat p v = some bs ∧ matchPat p v' = some bs' ∧ BRel used bs bs') := by
  cases p with
  | ident x => exact Or.inr ⟨_, _, rfl, rfl, BRel.cons x h BRel.nil⟩
  | lit l =>
    cases h <;> simp only [matchPat]
    · split
      · exact Or.inr ⟨_, _, rfl, rfl, BRel.nil⟩
      · exact Or.inl ⟨rfl, rfl⟩
    all_goals first | exact Or.inl ⟨rfl, rfl⟩ | simp
  | ctor c args =>
    cases h <;> simp only [matchPat]
    case data c' rows fs fs' hfs =>
      rw [← vrels_length hfs]
      split
      · exact Or.inr ⟨_, _, rfl, rfl, zip_brel args hfs⟩
      · exact Or.inl ⟨rfl, rfl⟩
    all_goals first | exact Or.inl ⟨rfl, rfl⟩ | simp
  | record fs =>
    cases h <;> simp only [matchPat]
    case data c' rows vals vals' hv => exact bindFields_rel rows hv fs
    all_goals first | exact Or.inl ⟨rfl, rfl⟩ | simp

/-- Environment of a recursive group and of its optimised group. -/
theorem closureEnv_rel {env env' : Env} (he : ERel used env env') (g : Closures)
    (hg : keptClosures used g = true) {E E' : Env} (hE : ERel used E E') :
    ∀ (cs : Closures), ERel used (closureEnv env g cs ++ E)
      (closureEnv env' (dceClosures used g) (dceClosures used cs) ++ E')
  | .nil => by simpa [closureEnv, dceClosures] using hE
  | .cons n a b rest => by
    by_cases hn : used n = true
    · simp only [closureEnv, dceClosures, hn, if_true, List.cons_append]
      exact ERel.cons n (VRel.clos g n he hg hn) (closureEnv_rel he g hg hE rest)
    · have hn' : used n = false := by simpa using hn
      simp only [closureEnv, dceClosures, hn', Bool.false_eq_true, if_false, List.cons_append]
      exact ERel.skip n _ hn' (closureEnv_rel he g hg hE rest)

theorem findClosure_dce : ∀ (g : Closures) (name : String), keptClosures used g = true →
    used name = true →
    (findClosure g name = none ∧ findClosure (dceClosures used g) name = none) ∨
    (∃ ps b, findClosure g name = some (ps, b) ∧
      findClosure (dceClosures used g) name = some (ps, dce used b) ∧ kept used b = true)
  | .nil, _, _, _ => Or.inl ⟨rfl, rfl⟩
  | .cons n a b rest, name, hk, hu => by
    simp only [keptClosures, Bool.and_eq_true] at hk
    by_cases hn : n = name
    · subst hn
      simp only [hu, if_true] at hk
      right
      refine ⟨a, b, by simp [findClosure], by simp [dceClosures, hu, findClosure], hk.1⟩
    · by_cases hun : used n = true
      · simp only [findClosure, hn, if_false, dceClosures, hun, if_true]
        exact findClosure_dce rest name hk.2 hu
      · have hun' : used n = false := by simpa using hun
        simp only [findClosure, hn, if_false, dceClosures, hun', Bool.false_eq_true]
        exact findClosure_dce rest name hk.2 hu

/-! ### The simulation -/

/-- The two callers map related callees and arguments to related runs. -/
def CallRel (used : String → Bool) (call call' : Caller) : Prop :=
  ∀ f f' as as', VRel used f f' → VRels used as as' →
    RRel used (VRel used) (call f as) (call' f' as')

theorem applyV_rel {call call' : Caller} (hc : CallRel used call call') {f f' : Value}
    {as as' : List Value} (hf : VRel used f f') (ha : VRels used as as') :
    RRel used (VRel used) (applyV call f as) (applyV call' f' as') := by
  cases hf with
  | ext n =>
    simp only [applyV]
    split
    · exact rrel_of_rel (builtin_rel n ha) LRel.nil
    · exact hc _ _ _ _ (VRel.ext n) ha
  | lit l => exact hc _ _ _ _ (VRel.lit l) ha
  | data c rows h => exact hc _ _ _ _ (VRel.data c rows h) ha
  | pap h1 h2 => exact hc _ _ _ _ (VRel.pap h1 h2) ha
  | clos g n he hg hn => exact hc _ _ _ _ (VRel.clos g n he hg hn) ha

def FirstSim (used : String → Bool) (call call' : Caller) : Alts → Prop
  | .nil => True
  | .cons _ b _ => ∀ env env', ERel used env env' →
      RRel used (VRel used) (eval call env b) (eval call' env' (dce used b))

theorem eval_letRec_dce (call' : Caller) (env' : Env) (cs : Closures) (body : Expr) :
    eval call' env' (dce used (.letRec cs body)) =
      eval call' (closureEnv env' (dceClosures used cs) (dceClosures used cs) ++ env')
        (dce used body) := by
  simp only [dce]
  cases h : dceClosures used cs with
  | nil => simp [closureEnv]
  | cons n a b rest => simp [eval]

mutual
theorem sim (call call' : Caller) (hc : CallRel used call call') : ∀ (e : Expr),
    kept used e = true → ∀ env env', ERel used env env' →
    RRel used (VRel used) (eval call env e) (eval call' env' (dce used e))
  | .const l, _, env, env', _ => by
    simp only [dce, eval]; exact rrel_pure (VRel.lit l)
  | .ident x, hk, env, env', he => by
    simp only [kept] at hk
    simp only [dce, eval]
    exact rrel_pure (identV_rel he x hk)
  | .call f args, hk, env, env', he => by
    simp only [kept, Bool.and_eq_true] at hk
    simp only [dce, eval]
    apply bind_rrel _ _ _ _ (sim call call' hc f hk.1 env env' he)
    intro fv fv' hfv
    apply bind_rrel _ _ _ _ (simList call call' hc args hk.2 env env' he)
    intro vs vs' hvs
    exact applyV_rel hc hfv hvs
  | .data c rows args, hk, env, env', he => by
    simp only [kept] at hk
    simp only [dce, eval]
    apply bind_rrel _ _ _ _ (simList call call' hc args hk env env' he)
    intro vs vs' hvs
    exact rrel_pure (VRel.data c rows hvs)
  | .letE x e body, hk, env, env', he => by
    simp only [kept, Bool.and_eq_true] at hk
    by_cases hx : used x = true
    · simp only [hx, if_true] at hk
      simp only [dce, hx, if_true, eval]
      apply bind_rrel _ _ _ _ (sim call call' hc e hk.1 env env' he)
      intro v v' hv
      exact sim call call' hc body hk.2 _ _ (ERel.cons x hv he)
    · have hx' : used x = false := by simpa using hx
      simp only [hx', Bool.false_eq_true, if_false] at hk
      simp only [dce, hx', Bool.false_eq_true, if_false, eval]
      apply rrel_skip_bind _ _ _ (pure_quiet call e hk.1 env)
      intro v _
      exact sim call call' hc body hk.2 _ _ (ERel.skip x v hx' he)
  | .letRec cs body, hk, env, env', he => by
    simp only [kept, Bool.and_eq_true] at hk
    rw [eval_letRec_dce]
    simp only [eval]
    exact sim call call' hc body hk.2 _ _ (closureEnv_rel he cs hk.1 he cs)
  | .matchE s alts, hk, env, env', he => by
    by_cases hd : dropMatch used alts = true
    · simp only [kept, hd, if_true, Bool.and_eq_true] at hk
      obtain ⟨fields, b, hshape, hunused⟩ := dropMatch_shape hd
      have hfirst := simFirst call call' hc alts hk.2
      subst hshape
      simp only [dce, hd, if_true, dceFirstBody, eval]
      simp only [FirstSim] at hfirst
      apply rrel_skip_bind _ _ _ (pure_quiet call s hk.1 env)
      intro v _
      simp only [evalAlts]
      split
      · rename_i bs hbs
        apply hfirst
        apply erel_skip_all he
        intro p hp
        cases v with
        | data c rows vals =>
          simp only [matchPat] at hbs
          obtain ⟨f, hf, hfp⟩ := bindFields_keys rows vals fields bs hbs p hp
          rw [← hfp]
          exact hunused f hf
        | _ => simp [matchPat] at hbs
      · right
        exact ⟨trivial, [], (eval call' env' (dce used b)).log, by simp, LRel.nil⟩
    · have hd' : dropMatch used alts = false := by simpa using hd
      simp only [kept, hd', Bool.false_eq_true, if_false, Bool.and_eq_true] at hk
      simp only [dce, hd', Bool.false_eq_true, if_false, eval]
      apply bind_rrel _ _ _ _ (sim call call' hc s hk.1 env env' he)
      intro v v' hv
      exact simAlts call call' hc alts hk.2 v v' env env' hv he
  | .cast e, hk, env, env', he => by
    simp only [kept] at hk
    simp only [dce, eval]
    exact sim call call' hc e hk env env' he
theorem simList (call call' : Caller) (hc : CallRel used call call') : ∀ (es : Exprs),
    keptList used es = true → ∀ env env', ERel used env env' →
    RRel used (VRels used) (evalList call env es) (evalList call' env' (dceList used es))
  | .nil, _, env, env', _ => by
    simp only [dceList, evalList]; exact rrel_pure VRels.nil
  | .cons e es, hk, env, env', he => by
    simp only [keptList, Bool.and_eq_true] at hk
    simp only [dceList, evalList]
    apply bind_rrel _ _ _ _ (sim call call' hc e hk.1 env env' he)
    intro v v' hv
    apply bind_rrel _ _ _ _ (simList call call' hc es hk.2 env env' he)
    intro vs vs' hvs
    exact rrel_pure (VRels.cons hv hvs)
theorem simAlts (call call' : Caller) (hc : CallRel used call call') : ∀ (alts : Alts),
    keptAlts used alts = true → ∀ v v' env env', VRel used v v' → ERel used env env' →
    RRel used (VRel used) (evalAlts call env v alts) (evalAlts call' env' v' (dceAlts used alts))
  | .nil, _, v, v', env, env', _, _ => by
    simp only [dceAlts, evalAlts]; exact rrel_of_rel trivial LRel.nil
  | .cons p e rest, hk, v, v', env, env', hv, he => by
    simp only [keptAlts, Bool.and_eq_true] at hk
    simp only [dceAlts, evalAlts]
    rcases matchPat_rel p hv with ⟨h1, h2⟩ | ⟨bs, bs', h1, h2, hb⟩
    · rw [h1, h2]
      exact simAlts call call' hc rest hk.2 v v' env env' hv he
    · rw [h1, h2]
      exact sim call call' hc e hk.1 _ _ (erel_append_b hb he)
theorem simFirst (call call' : Caller) (hc : CallRel used call call') : ∀ (alts : Alts),
    keptFirstBody used alts = true → FirstSim used call call' alts
  | .nil, _ => trivial
  | .cons p e rest, hk => by
    simp only [keptFirstBody] at hk
    intro env env' he
    exact sim call call' hc e hk env env' he
end

/-- The concrete caller (closures, partial applications, host functions) respects the relation,
    for every budget of nested closure calls. -/
theorem applyN_rel : ∀ (n : Nat), CallRel used (applyN n) (applyN n)
  | 0 => by
    intro f f' as as' _ _
    exact rrel_of_rel trivial LRel.nil
  | n + 1 => by
    intro f f' as as' hf ha
    cases hf with
    | lit l => exact rrel_of_rel trivial LRel.nil
    | data c rows h => exact rrel_of_rel trivial LRel.nil
    | ext name => simp only [applyN]; exact hostCall_rel name ha
    | pap h1 h2 =>
      simp only [applyN]
      exact applyN_rel n _ _ _ _ h1 (vrels_append h2 ha)
    | clos g name he hg hn =>
      rename_i cenv cenv'
      simp only [applyN]
      rcases findClosure_dce g name hg hn with ⟨h1, h2⟩ | ⟨ps, b, h1, h2, hkb⟩
      · rw [h1, h2]; exact rrel_of_rel trivial LRel.nil
      · rw [h1, h2]
        simp only
        rw [← vrels_length ha]
        split
        · exact rrel_pure (VRel.pap (VRel.clos g name he hg hn) ha)
        · have henv : ERel used (ps.zip as ++ closureEnv cenv g g ++ cenv)
              (ps.zip as' ++ closureEnv cenv' (dceClosures used g) (dceClosures used g) ++ cenv') := by
            rw [List.append_assoc, List.append_assoc]
            exact erel_append_b (zip_brel ps ha) (closureEnv_rel he g hg he g)
          have hr := sim (applyN n) (applyN n) (applyN_rel n) b hkb _ _ henv
          split
          · exact hr
          · apply bind_rrel _ _ _ _ hr
            intro v v' hv
            exact applyN_rel n _ _ _ _ hv (vrels_drop _ ha)

/-- Whole module bodies. -/
theorem run_rel (fuel : Nat) (e : Expr) (hk : kept used e = true) :
    RRel used (VRel used) (run fuel e) (run fuel (dce used e)) :=
  sim (applyN fuel) (applyN fuel) (applyN_rel fuel) e hk [] [] ERel.nil

/-! ### What the host can observe -/

/-- Values without functions: what `canon_value` of the harness prints faithfully. -/
inductive FirstOrder : Value → Prop
  | lit (l : Lit) : FirstOrder (.lit l)
  | data (c : String) (rows : List String) (fs : List Value) :
      (∀ v ∈ fs, FirstOrder v) → FirstOrder (.data c rows fs)

mutual
theorem vrel_firstOrder : ∀ {v v' : Value}, VRel used v v' → FirstOrder v → v' = v
  | _, _, .lit l, _ => rfl
  | _, _, .ext n, _ => rfl
  | _, _, .data c rows h, hf => by
    cases hf with
    | data _ _ _ hall => rw [vrels_firstOrder h hall]
  | _, _, .pap _ _, hf => by cases hf
  | _, _, .clos _ _ _ _ _, hf => by cases hf
theorem vrels_firstOrder : ∀ {vs vs' : List Value}, VRels used vs vs' →
    (∀ v ∈ vs, FirstOrder v) → vs' = vs
  | _, _, .nil, _ => rfl
  | _, _, .cons hv h, hall => by
    rw [vrel_firstOrder hv (hall _ (by simp)),
      vrels_firstOrder h (fun v hv => hall v (by simp [hv]))]
end

def FirstOrderLog (l : Log) : Prop := ∀ c ∈ l, ∀ v ∈ c.2, FirstOrder v

theorem lrel_firstOrder {l l' : Log} (h : LRel used l l') (hf : FirstOrderLog l) : l' = l := by
  induction h with
  | nil => rfl
  | cons n ha _ ih =>
    have h1 := vrels_firstOrder ha (hf _ List.mem_cons_self)
    have h2 := ih (fun c hc => hf c (by simp [hc]))
    rw [h1, h2]

end GluonModel.Proofs.DceRel
