/-
C04: the unnecessary-allocation rewrite for the WHOLE core language (closures included).

The rewritten program evaluates the same code in environments that differ from the original
ones by order and by extra bindings (`dummy` symbols, the pattern binder bound early), and closures
capture those environments.  So values are related by `VRelU`: two closures are related when
their groups are related by the rewrite (`CRelClos`, which contains the identity) and their
environments give related values to every identifier the group mentions — environments are
compared by lookup, not by structure.
-/
import GluonModel.OptCore
import GluonModel.Dce
import GluonModel.Proofs.Dce
import GluonModel.Proofs.DceRel
import GluonModel.Proofs.Ua

namespace GluonModel.Proofs.UaRel
open GluonModel.OptCore GluonModel.Dce GluonModel.Proofs.Dce GluonModel.Proofs.Ua
open GluonModel.Proofs.DceRel (OutRel outrel_checked FirstOrder FirstOrderLog)

/-- The conditions on a rewritten node (`Dce.targetOK` for the one-field pattern `{ f = b }`). -/
structure TargetConds (rows : List String) (args : Exprs) (f b : String) (body : Expr) : Prop where
  idx : (findIdx rows f).isSome = true
  nodup : nodupB rows = true
  len : rows.length = lengthE args
  bnd : isDummy b = false
  args : idsInList (fun x => x != b && !isDummy x) args = true
  body : idsIn (fun x => !isDummy x) body = true

mutual
/-- `CRel e e'`: `e'` is `e` with some nodes rewritten as optimize.rs:247-262 does (none, all, or
    any subset: the identity is included). -/
inductive CRel : Expr → Expr → Prop
  | const (l : Lit) : CRel (.const l) (.const l)
  | ident (x : String) : CRel (.ident x) (.ident x)
  | call {f f' : Expr} {args args' : Exprs} :
      CRel f f' → CRelList args args' → CRel (.call f args) (.call f' args')
  | data (c : String) (rows : List String) {args args' : Exprs} :
      CRelList args args' → CRel (.data c rows args) (.data c rows args')
  | letE (x : String) {e e' b b' : Expr} : CRel e e' → CRel b b' → CRel (.letE x e b) (.letE x e' b')
  | letRec {cs cs' : Closures} {b b' : Expr} :
      CRelClos cs cs' → CRel b b' → CRel (.letRec cs b) (.letRec cs' b')
  | matchE {s s' : Expr} {alts alts' : Alts} :
      CRel s s' → CRelAlts alts alts' → CRel (.matchE s alts) (.matchE s' alts')
  | cast {e e' : Expr} : CRel e e' → CRel (.cast e) (.cast e')
  | target (c : String) (rows : List String) (args : Exprs) (f b : String) (body : Expr) (k : Nat) :
      TargetConds rows args f b body → CRelList args args → CRel body body →
      CRel (.matchE (.data c rows args) (.cons (.record [(f, b)]) body .nil))
        (makeLets [(f, b)] rows args body k).1
inductive CRelList : Exprs → Exprs → Prop
  | nil : CRelList .nil .nil
  | cons {e e' : Expr} {es es' : Exprs} :
      CRel e e' → CRelList es es' → CRelList (.cons e es) (.cons e' es')
inductive CRelAlts : Alts → Alts → Prop
  | nil : CRelAlts .nil .nil
  | cons (p : Pat) {e e' : Expr} {r r' : Alts} :
      CRel e e' → CRelAlts r r' → CRelAlts (.cons p e r) (.cons p e' r')
inductive CRelClos : Closures → Closures → Prop
  | nil : CRelClos .nil .nil
  | cons (n : String) (a : List String) {b b' : Expr} {r r' : Closures} :
      CRel b b' → CRelClos r r' → CRelClos (.cons n a b r) (.cons n a b' r')
end

mutual
/-- Values of the two runs.  `Q` covers the identifiers the closure group mentions; on those the
    two captured environments are both unbound or bound to related values. -/
inductive VRelU : Value → Value → Prop
  | lit (l : Lit) : VRelU (.lit l) (.lit l)
  | ext (n : String) : VRelU (.ext n) (.ext n)
  | data (c : String) (rows : List String) {fs fs' : List Value} :
      VRelsU fs fs' → VRelU (.data c rows fs) (.data c rows fs')
  | pap {f f' : Value} {as as' : List Value} :
      VRelU f f' → VRelsU as as' → VRelU (.pap f as) (.pap f' as')
  | clos {env env' : Env} {g g' : Closures} (n : String) (Q : String → Bool) :
      CRelClos g g' → idsInClosures Q g = true →
      (∀ x, Q x = true → (lookup env x).isSome = (lookup env' x).isSome) →
      (∀ x v, Q x = true → lookup env x = some v →
        VRelU v ((lookup env' x).getD (.lit (.int 0)))) →
      VRelU (.clos env g n) (.clos env' g' n)
inductive VRelsU : List Value → List Value → Prop
  | nil : VRelsU [] []
  | cons {v v' : Value} {vs vs' : List Value} :
      VRelU v v' → VRelsU vs vs' → VRelsU (v :: vs) (v' :: vs')
end

inductive LRelU : Log → Log → Prop
  | nil : LRelU [] []
  | cons (n : String) {as as' : List Value} {l l' : Log} :
      VRelsU as as' → LRelU l l' → LRelU ((n, as) :: l) ((n, as') :: l')

inductive ORelU : Option Value → Option Value → Prop
  | none : ORelU none none
  | some {v v' : Value} : VRelU v v' → ORelU (some v) (some v')

/-- Same outcome up to `P`, same host calls up to `VRelU` on the arguments. -/
def RRelU {α : Type} (P : α → α → Prop) (r r' : R α) : Prop :=
  OutRel P r.out r'.out ∧ LRelU r.log r'.log

theorem rrel_of_rel {α} {P : α → α → Prop} {r r' : R α} (ho : OutRel P r.out r'.out)
    (hl : LRelU r.log r'.log) : RRelU P r r' := ⟨ho, hl⟩

theorem lrel_append {l1 l1' l2 l2' : Log} (h1 : LRelU l1 l1') (h2 : LRelU l2 l2') :
    LRelU (l1 ++ l2) (l1' ++ l2') := by
  induction h1 with
  | nil => simpa using h2
  | cons n ha _ ih => exact LRelU.cons n ha ih

theorem vrels_length : ∀ {vs vs' : List Value}, VRelsU vs vs' → vs.length = vs'.length
  | _, _, .nil => rfl
  | _, _, .cons _ h => by simp [vrels_length h]

theorem vrels_append : ∀ {a a' b b' : List Value}, VRelsU a a' → VRelsU b b' →
    VRelsU (a ++ b) (a' ++ b')
  | _, _, _, _, .nil, hb => by simpa using hb
  | _, _, _, _, .cons hv h, hb => VRelsU.cons hv (vrels_append h hb)

theorem vrels_drop : ∀ (n : Nat) {a a' : List Value}, VRelsU a a' →
    VRelsU (a.drop n) (a'.drop n)
  | 0, _, _, h => by simpa using h
  | _ + 1, _, _, .nil => by simpa using VRelsU.nil
  | n + 1, _, _, .cons _ h => by simpa using vrels_drop n h

theorem vrels_get : ∀ {a a' : List Value}, VRelsU a a' → ∀ (i : Nat), ORelU a[i]? a'[i]?
  | _, _, .nil, i => by simpa using ORelU.none
  | _, _, .cons hv _, 0 => by simpa using ORelU.some hv
  | _, _, .cons _ h, i + 1 => by simpa using vrels_get h i


theorem litOf_rel {v v' : Value} (h : VRelU v v') : litOf v = litOf v' := by
  cases h <;> rfl

theorem intArgs_rel {vs vs' : List Value} (h : VRelsU vs vs') : intArgs vs = intArgs vs' := by
  cases h with
  | nil => rfl
  | cons h1 t =>
    cases t with
    | nil => rfl
    | cons h2 t2 =>
      cases t2 with
      | nil => simp only [intArgs, litOf_rel h1, litOf_rel h2]
      | cons h3 t3 => rfl


theorem outrel_intOp (op : String) (a b : Int) :
    OutRel VRelU (intOp op a b) (intOp op a b) := by
  have hl : ∀ l, VRelU (.lit l) (.lit l) := VRelU.lit
  have hb : ∀ b : Bool, OutRel VRelU (.ok (boolV b)) (.ok (boolV b)) :=
    fun b => VRelU.data _ _ VRelsU.nil
  unfold intOp
  repeat' split
  all_goals first
    | exact outrel_checked _ hl _
    | exact hb _
    | trivial

theorem builtin_rel (op : String) {vs vs' : List Value} (h : VRelsU vs vs') :
    OutRel VRelU (builtin op vs) (builtin op vs') := by
  unfold builtin
  rw [← intArgs_rel h]
  split
  · exact outrel_intOp _ _ _
  · trivial


theorem hostCall_rel (name : String) {as as' : List Value} (h : VRelsU as as') :
    RRelU VRelU (hostCall name as) (hostCall name as') := by
  cases h with
  | nil => exact rrel_of_rel trivial LRelU.nil
  | cons h1 t =>
    cases t with
    | cons h2 t2 => exact rrel_of_rel trivial LRelU.nil
    | nil =>
      simp only [hostCall]
      split
      · exact rrel_of_rel h1 (LRelU.cons _ (VRelsU.cons h1 VRelsU.nil) LRelU.nil)
      · split
        · rw [← litOf_rel h1]
          split
          · exact rrel_of_rel rfl LRelU.nil
          · exact rrel_of_rel trivial LRelU.nil
        · exact rrel_of_rel trivial LRelU.nil


inductive BRelU : Env → Env → Prop
  | nil : BRelU [] []
  | cons (x : String) {v v' : Value} {bs bs' : Env} :
      VRelU v v' → BRelU bs bs' → BRelU ((x, v) :: bs) ((x, v') :: bs')


theorem brel_keys {bs bs' : Env} (hb : BRelU bs bs') : bs.map (·.1) = bs'.map (·.1) := by
  induction hb with
  | nil => rfl
  | cons x _ _ ih => simp [ih]


theorem zip_brel : ∀ (xs : List String) {vs vs' : List Value}, VRelsU vs vs' →
    BRelU (xs.zip vs) (xs.zip vs')
  | [], _, _, _ => by simpa using BRelU.nil
  | _ :: _, _, _, .nil => by simpa using BRelU.nil
  | x :: xs, _, _, .cons hv h => by simpa using BRelU.cons x hv (zip_brel xs h)

theorem bindFields_rel (rows : List String) {vals vals' : List Value}
    (hv : VRelsU vals vals') : ∀ (fs : List (String × String)),
    (bindFields rows vals fs = none ∧ bindFields rows vals' fs = none) ∨
    (∃ bs bs', bindFields rows vals fs = some bs ∧ bindFields rows vals' fs = some bs' ∧
      BRelU bs bs')
  | [] => Or.inr ⟨[], [], rfl, rfl, BRelU.nil⟩
  | (f, b) :: rest => by
    simp only [bindFields]
    cases hi : findIdx rows f with
    | none => exact Or.inl ⟨rfl, rfl⟩
    | some i =>
      simp only
      have hg := vrels_get hv i
      rcases bindFields_rel rows hv rest with ⟨h1, h2⟩ | ⟨bs, bs', h1, h2, hb⟩
      · rw [h1, h2]
        left
        constructor <;> (split <;> simp_all)
      · rw [h1, h2]
        revert hg
        cases vals[i]? <;> cases vals'[i]? <;> intro hg <;> cases hg
        · left; exact ⟨rfl, rfl⟩
        · rename_i hvv
          right
          exact ⟨_, _, rfl, rfl, BRelU.cons b hvv hb⟩

theorem matchPat_rel (p : Pat) {v v' : Value} (h : VRelU v v') :
    (matchPat p v = none ∧ matchPat p v' = none) ∨
    (∃ bs bs', matchPat p v = some bs ∧ matchPat p v' = some bs' ∧ BRelU bs bs') := by
  cases p with
  | ident x => exact Or.inr ⟨_, _, rfl, rfl, BRelU.cons x h BRelU.nil⟩
  | lit l =>
    cases h <;> simp only [matchPat]
    · split
      · exact Or.inr ⟨_, _, rfl, rfl, BRelU.nil⟩
      · exact Or.inl ⟨rfl, rfl⟩
    all_goals first | exact Or.inl ⟨rfl, rfl⟩ | simp
  | ctor c args =>
    cases h <;> simp only [matchPat]
    case data c' rows fs fs' hfs =>
      rw [← vrels_length hfs]
      split
      · exact Or.inr ⟨_, _, rfl, rfl, zip_brel args hfs⟩
      · exact Or.inl ⟨rfl, rfl⟩
    all_goals first | exact Or.inl ⟨rfl, rfl⟩ | simp
  | record fs =>
    cases h <;> simp only [matchPat]
    case data c' rows vals vals' hv => exact bindFields_rel rows hv fs
    all_goals first | exact Or.inl ⟨rfl, rfl⟩ | simp


mutual
theorem vrel_firstOrder : ∀ {v v' : Value}, VRelU v v' → FirstOrder v → v' = v
  | _, _, .lit l, _ => rfl
  | _, _, .ext n, _ => rfl
  | _, _, .data c rows h, hf => by
    cases hf with
    | data _ _ _ hall => rw [vrels_firstOrder h hall]
  | _, _, .pap _ _, hf => by cases hf
  | _, _, .clos _ _ _ _ _ _, hf => by cases hf
theorem vrels_firstOrder : ∀ {vs vs' : List Value}, VRelsU vs vs' →
    (∀ v ∈ vs, FirstOrder v) → vs' = vs
  | _, _, .nil, _ => rfl
  | _, _, .cons hv h, hall => by
    rw [vrel_firstOrder hv (hall _ (by simp)),
      vrels_firstOrder h (fun v hv => hall v (by simp [hv]))]
end

def FirstOrderLog (l : Log) : Prop := ∀ c ∈ l, ∀ v ∈ c.2, FirstOrder v

theorem lrel_firstOrder {l l' : Log} (h : LRelU l l') (hf : FirstOrderLog l) : l' = l := by
  induction h with
  | nil => rfl
  | cons n ha _ ih =>
    have h1 := vrels_firstOrder ha (hf _ List.mem_cons_self)
    have h2 := ih (fun c hc => hf c (by simp [hc]))
    rw [h1, h2]



/-! ### Environments compared by lookup -/

/-- On the names satisfying `Q` the two environments are both unbound or bound to related values. -/
def EnvRelQ (Q : String → Bool) (env env' : Env) : Prop :=
  ∀ x, Q x = true → ORelU (lookup env x) (lookup env' x)

theorem envrel_cons {Q : String → Bool} {env env' : Env} (h : EnvRelQ Q env env') (x : String)
    {v v' : Value} (hv : VRelU v v') : EnvRelQ Q ((x, v) :: env) ((x, v') :: env') := by
  intro y hy
  simp only [lookup]
  split
  · exact ORelU.some hv
  · exact h y hy

theorem envrel_append_b {Q : String → Bool} {bs bs' env env' : Env} (hb : BRelU bs bs')
    (h : EnvRelQ Q env env') : EnvRelQ Q (bs ++ env) (bs' ++ env') := by
  induction hb with
  | nil => simpa using h
  | cons x hv _ ih => exact envrel_cons ih x hv

/-- A binding of a name the code does not mention, on the rewritten side only. -/
theorem envrel_skipR {Q : String → Bool} {env env' : Env} (h : EnvRelQ Q env env') (y : String)
    (w : Value) (hy : Q y = false) : EnvRelQ Q env ((y, w) :: env') := by
  intro x hx
  simp only [lookup]
  have : ¬ y = x := by
    intro e
    subst e
    rw [hy] at hx
    exact Bool.noConfusion hx
  simp only [this, if_false]
  exact h x hx

theorem envrel_weaken {Q Q' : String → Bool} {env env' : Env} (h : EnvRelQ Q env env')
    (hq : ∀ x, Q' x = true → Q x = true) : EnvRelQ Q' env env' :=
  fun x hx => h x (hq x hx)

theorem envrel_prem {Q : String → Bool} {env env' : Env} (h : EnvRelQ Q env env') :
    (∀ x, Q x = true → (lookup env x).isSome = (lookup env' x).isSome) ∧
    (∀ x v, Q x = true → lookup env x = some v →
      VRelU v ((lookup env' x).getD (.lit (.int 0)))) := by
  constructor
  · intro x hx
    have := h x hx
    revert this
    cases lookup env x <;> cases lookup env' x <;> intro h <;> cases h <;> rfl
  · intro x v hx hv
    have := h x hx
    rw [hv] at this
    revert this
    cases lookup env' x <;> intro h <;> cases h
    rename_i hvv
    exact hvv

theorem envrel_of_prem {Q : String → Bool} {env env' : Env}
    (h1 : ∀ x, Q x = true → (lookup env x).isSome = (lookup env' x).isSome)
    (h2 : ∀ x v, Q x = true → lookup env x = some v →
      VRelU v ((lookup env' x).getD (.lit (.int 0)))) : EnvRelQ Q env env' := by
  intro x hx
  have a := h1 x hx
  have b := h2 x
  revert a b
  cases lookup env x <;> cases lookup env' x <;> intro a b <;> simp at a
  · exact ORelU.none
  · rename_i v v'
    exact ORelU.some (by simpa using b v hx rfl)

theorem identV_relU {Q : String → Bool} {env env' : Env} (he : EnvRelQ Q env env') (x : String)
    (hx : Q x = true) : VRelU (identV env x) (identV env' x) := by
  unfold identV
  split
  · exact VRelU.ext x
  · unfold lookupD
    have := he x hx
    revert this
    cases lookup env x <;> cases lookup env' x <;> intro h <;> cases h
    · exact VRelU.ext x
    · rename_i hv; exact hv

theorem bind_rrelU {α β} {P : α → α → Prop} {Q : β → β → Prop} (r r' : R α) (k k' : α → R β)
    (h : RRelU P r r') (hk : ∀ a a', P a a' → RRelU Q (k a) (k' a')) :
    RRelU Q (r.bind k) (r'.bind k') := by
  obtain ⟨ho, hl⟩ := h
  cases hr : r.out <;> cases hr' : r'.out <;> simp only [hr, hr', OutRel] at ho
  case ok.ok a a' =>
    obtain ⟨ho2, hl2⟩ := hk a a' ho
    unfold R.bind
    simp only [hr, hr']
    exact ⟨ho2, lrel_append hl hl2⟩
  case arith.arith => unfold R.bind; simp only [hr, hr']; exact ⟨trivial, hl⟩
  case user.user m m' => unfold R.bind; simp only [hr, hr']; exact ⟨ho, hl⟩
  case wrong.wrong => unfold R.bind; simp only [hr, hr']; exact ⟨trivial, hl⟩
  case timeout.timeout => unfold R.bind; simp only [hr, hr']; exact ⟨trivial, hl⟩

theorem rrelU_pure {α} {P : α → α → Prop} {a a' : α} (h : P a a') :
    RRelU P (R.pure a) (R.pure a') := ⟨h, LRelU.nil⟩

mutual
theorem idsIn_and (Q Q' : String → Bool) : ∀ (e : Expr), idsIn Q e = true → idsIn Q' e = true →
    idsIn (fun x => Q x && Q' x) e = true
  | .const _, _, _ => rfl
  | .ident x, h, h' => by simp only [idsIn] at *; simp [h, h']
  | .call f args, h, h' => by
    simp only [idsIn, Bool.and_eq_true] at *
    exact ⟨idsIn_and Q Q' f h.1 h'.1, idsIn_andList Q Q' args h.2 h'.2⟩
  | .data _ _ args, h, h' => by
    simp only [idsIn] at *; exact idsIn_andList Q Q' args h h'
  | .letE _ e b, h, h' => by
    simp only [idsIn, Bool.and_eq_true] at *
    exact ⟨idsIn_and Q Q' e h.1 h'.1, idsIn_and Q Q' b h.2 h'.2⟩
  | .letRec cs b, h, h' => by
    simp only [idsIn, Bool.and_eq_true] at *
    exact ⟨idsIn_andClos Q Q' cs h.1 h'.1, idsIn_and Q Q' b h.2 h'.2⟩
  | .matchE s alts, h, h' => by
    simp only [idsIn, Bool.and_eq_true] at *
    exact ⟨idsIn_and Q Q' s h.1 h'.1, idsIn_andAlts Q Q' alts h.2 h'.2⟩
  | .cast e, h, h' => by simp only [idsIn] at *; exact idsIn_and Q Q' e h h'
theorem idsIn_andList (Q Q' : String → Bool) : ∀ (es : Exprs), idsInList Q es = true →
    idsInList Q' es = true → idsInList (fun x => Q x && Q' x) es = true
  | .nil, _, _ => rfl
  | .cons e es, h, h' => by
    simp only [idsInList, Bool.and_eq_true] at *
    exact ⟨idsIn_and Q Q' e h.1 h'.1, idsIn_andList Q Q' es h.2 h'.2⟩
theorem idsIn_andAlts (Q Q' : String → Bool) : ∀ (alts : Alts), idsInAlts Q alts = true →
    idsInAlts Q' alts = true → idsInAlts (fun x => Q x && Q' x) alts = true
  | .nil, _, _ => rfl
  | .cons _ e r, h, h' => by
    simp only [idsInAlts, Bool.and_eq_true] at *
    exact ⟨idsIn_and Q Q' e h.1 h'.1, idsIn_andAlts Q Q' r h.2 h'.2⟩
theorem idsIn_andClos (Q Q' : String → Bool) : ∀ (cs : Closures), idsInClosures Q cs = true →
    idsInClosures Q' cs = true → idsInClosures (fun x => Q x && Q' x) cs = true
  | .nil, _, _ => rfl
  | .cons _ _ b r, h, h' => by
    simp only [idsInClosures, Bool.and_eq_true] at *
    exact ⟨idsIn_and Q Q' b h.1 h'.1, idsIn_andClos Q Q' r h.2 h'.2⟩
end

mutual
theorem idsIn_true : ∀ (e : Expr), idsIn (fun _ => true) e = true
  | .const _ => rfl
  | .ident _ => rfl
  | .call f args => by simp [idsIn, idsIn_true f, idsIn_trueList args]
  | .data _ _ args => by simp [idsIn, idsIn_trueList args]
  | .letE _ e b => by simp [idsIn, idsIn_true e, idsIn_true b]
  | .letRec cs b => by simp [idsIn, idsIn_trueClos cs, idsIn_true b]
  | .matchE s alts => by simp [idsIn, idsIn_true s, idsIn_trueAlts alts]
  | .cast e => by simp [idsIn, idsIn_true e]
theorem idsIn_trueList : ∀ (es : Exprs), idsInList (fun _ => true) es = true
  | .nil => rfl
  | .cons e es => by simp [idsInList, idsIn_true e, idsIn_trueList es]
theorem idsIn_trueAlts : ∀ (alts : Alts), idsInAlts (fun _ => true) alts = true
  | .nil => rfl
  | .cons _ e r => by simp [idsInAlts, idsIn_true e, idsIn_trueAlts r]
theorem idsIn_trueClos : ∀ (cs : Closures), idsInClosures (fun _ => true) cs = true
  | .nil => rfl
  | .cons _ _ b r => by simp [idsInClosures, idsIn_true b, idsIn_trueClos r]
end

/-! ### Recursive groups -/

theorem closureEnv_relU {Q : String → Bool} {env env' : Env} {g g' : Closures}
    (hclos : ∀ n, VRelU (.clos env g n) (.clos env' g' n)) {E E' : Env} (hE : EnvRelQ Q E E') :
    ∀ {cs cs' : Closures}, CRelClos cs cs' →
      EnvRelQ Q (closureEnv env g cs ++ E) (closureEnv env' g' cs' ++ E')
  | _, _, .nil => by simpa [closureEnv] using hE
  | _, _, .cons n a _ hr => by
    simp only [closureEnv, List.cons_append]
    exact envrel_cons (closureEnv_relU hclos hE hr) n (hclos n)

theorem findClosure_crel : ∀ {g g' : Closures}, CRelClos g g' → ∀ (name : String),
    (findClosure g name = none ∧ findClosure g' name = none) ∨
    (∃ ps b b', findClosure g name = some (ps, b) ∧ findClosure g' name = some (ps, b') ∧
      CRel b b')
  | _, _, .nil, _ => Or.inl ⟨rfl, rfl⟩
  | _, _, .cons n a hb hr, name => by
    simp only [findClosure]
    split
    · exact Or.inr ⟨a, _, _, rfl, rfl, hb⟩
    · exact findClosure_crel hr name

theorem idsIn_findClosure (Q : String → Bool) : ∀ (g : Closures) (name : String) ps b,
    idsInClosures Q g = true → findClosure g name = some (ps, b) → idsIn Q b = true
  | .nil, _, _, _, _, h => by simp [findClosure] at h
  | .cons n a b0 r, name, ps, b, hi, h => by
    simp only [idsInClosures, Bool.and_eq_true] at hi
    simp only [findClosure] at h
    split at h
    · simp only [Option.some.injEq, Prod.mk.injEq] at h
      rw [← h.2]; exact hi.1
    · exact idsIn_findClosure Q r name ps b hi.2 h

/-! ### The simulation -/

def CallRelU (call call' : Caller) : Prop :=
  ∀ f f' as as', VRelU f f' → VRelsU as as' → RRelU VRelU (call f as) (call' f' as')

theorem applyV_relU {call call' : Caller} (hc : CallRelU call call') {f f' : Value}
    {as as' : List Value} (hf : VRelU f f') (ha : VRelsU as as') :
    RRelU VRelU (applyV call f as) (applyV call' f' as') := by
  cases hf with
  | ext n =>
    simp only [applyV]
    split
    · exact rrel_of_rel (builtin_rel n ha) LRelU.nil
    · exact hc _ _ _ _ (VRelU.ext n) ha
  | lit l => exact hc _ _ _ _ (VRelU.lit l) ha
  | data c rows h => exact hc _ _ _ _ (VRelU.data c rows h) ha
  | pap h1 h2 => exact hc _ _ _ _ (VRelU.pap h1 h2) ha
  | clos n Q h1 h2 h3 h4 => exact hc _ _ _ _ (VRelU.clos n Q h1 h2 h3 h4) ha

theorem vrels_get_some {vs vs' : List Value} (h : VRelsU vs vs') (i : Nat) (hi : i < vs.length) :
    ∃ v v', vs[i]? = some v ∧ vs'[i]? = some v' ∧ VRelU v v' := by
  have hg := vrels_get h i
  have h1 : vs[i]? = some vs[i] := by simp [hi]
  rw [h1] at hg
  revert hg
  cases hv : vs'[i]? <;> intro hg <;> cases hg
  rename_i v' hvv
  exact ⟨_, v', h1, rfl, hvv⟩

mutual
theorem simU (call call' : Caller) (hc : CallRelU call call') : ∀ {e e' : Expr}, CRel e e' →
    ∀ (Q : String → Bool), idsIn Q e = true → ∀ env env', EnvRelQ Q env env' →
    RRelU VRelU (eval call env e) (eval call' env' e')
  | _, _, .const l, _, _, _, _, _ => by simp only [eval]; exact rrelU_pure (VRelU.lit l)
  | _, _, .ident x, Q, hi, env, env', he => by
    simp only [idsIn] at hi
    simp only [eval]
    exact rrelU_pure (identV_relU he x hi)
  | _, _, .call hf ha, Q, hi, env, env', he => by
    simp only [idsIn, Bool.and_eq_true] at hi
    simp only [eval]
    apply bind_rrelU _ _ _ _ (simU call call' hc hf Q hi.1 env env' he)
    intro fv fv' hfv
    apply bind_rrelU _ _ _ _ (simUList call call' hc ha Q hi.2 env env' he)
    intro vs vs' hvs
    exact applyV_relU hc hfv hvs
  | _, _, .data c rows ha, Q, hi, env, env', he => by
    simp only [idsIn] at hi
    simp only [eval]
    apply bind_rrelU _ _ _ _ (simUList call call' hc ha Q hi env env' he)
    intro vs vs' hvs
    exact rrelU_pure (VRelU.data c rows hvs)
  | _, _, .letE x h1 h2, Q, hi, env, env', he => by
    simp only [idsIn, Bool.and_eq_true] at hi
    simp only [eval]
    apply bind_rrelU _ _ _ _ (simU call call' hc h1 Q hi.1 env env' he)
    intro v v' hv
    exact simU call call' hc h2 Q hi.2 _ _ (envrel_cons he x hv)
  | _, _, .letRec (cs := cs) (cs' := cs') hcs hb, Q, hi, env, env', he => by
    simp only [idsIn, Bool.and_eq_true] at hi
    simp only [eval]
    have hp := envrel_prem he
    have hclos : ∀ n, VRelU (.clos env cs n) (.clos env' cs' n) :=
      fun n => VRelU.clos n Q hcs hi.1 hp.1 hp.2
    exact simU call call' hc hb Q hi.2 _ _ (closureEnv_relU hclos he hcs)
  | _, _, .matchE hs ha, Q, hi, env, env', he => by
    simp only [idsIn, Bool.and_eq_true] at hi
    simp only [eval]
    apply bind_rrelU _ _ _ _ (simU call call' hc hs Q hi.1 env env' he)
    intro v v' hv
    exact simUAlts call call' hc ha Q hi.2 v v' env env' hv he
  | _, _, .cast h, Q, hi, env, env', he => by
    simp only [idsIn] at hi
    simp only [eval]
    exact simU call call' hc h Q hi env env' he
  | _, _, .target c rows args f b body k hcond hargs hbody, Q, hi, env, env', he => by
    simp only [idsIn, idsInAlts, Bool.and_eq_true] at hi
    obtain ⟨hia, hib, _⟩ := hi
    obtain ⟨i, hfi⟩ := Option.isSome_iff_exists.1 hcond.idx
    have horig : eval call env (.matchE (.data c rows args) (.cons (.record [(f, b)]) body .nil)) =
        (evalList call env args).bind
          (fun vs => evalAlts call env (.data c rows vs) (.cons (.record [(f, b)]) body .nil)) := by
      simp only [eval, bind_assoc, pure_bind]
    rw [horig]
    have hQ2 := idsIn_andList Q (fun x => x != b && !isDummy x) args hia hcond.args
    apply simUTarget call call' hc f b body hargs rows k
      (fun x => Q x && (x != b && !isDummy x)) env env' _ hQ2 hcond.len
      (envrel_weaken he (fun x hx => by simp only [Bool.and_eq_true] at hx; exact hx.1))
      (by simp) (by intro k; simp [isDummy_dummyName])
    intro vs vs' hvs hlen
    have hilt : i < vs.length := by rw [hlen]; exact findIdx_lt rows f i hfi
    obtain ⟨v, v', hv, hv', hvv⟩ := vrels_get_some hvs i hilt
    simp only [evalAlts, matchPat, bindFields_single, hfi, hv]
    have hQd := idsIn_and Q (fun x => !isDummy x) body hib hcond.body
    apply simU call call' hc hbody _ hQd
    intro x hx
    simp only [Bool.and_eq_true, Bool.not_eq_true'] at hx
    rw [letEnv_lookup f b hcond.bnd x hx.2 rows vs' k env' hcond.nodup
      (by rw [← hlen]; exact vrels_length hvs)]
    simp only [hfi, List.cons_append, List.nil_append, lookup]
    by_cases hbx : b = x
    · simp only [hbx, if_true, hv']
      exact ORelU.some hvv
    · simp only [hbx, if_false]
      exact he x hx.1
theorem simUList (call call' : Caller) (hc : CallRelU call call') : ∀ {es es' : Exprs},
    CRelList es es' → ∀ (Q : String → Bool), idsInList Q es = true → ∀ env env',
    EnvRelQ Q env env' → RRelU VRelsU (evalList call env es) (evalList call' env' es')
  | _, _, .nil, _, _, _, _, _ => by simp only [evalList]; exact rrelU_pure VRelsU.nil
  | _, _, .cons h1 h2, Q, hi, env, env', he => by
    simp only [idsInList, Bool.and_eq_true] at hi
    simp only [evalList]
    apply bind_rrelU _ _ _ _ (simU call call' hc h1 Q hi.1 env env' he)
    intro v v' hv
    apply bind_rrelU _ _ _ _ (simUList call call' hc h2 Q hi.2 env env' he)
    intro vs vs' hvs
    exact rrelU_pure (VRelsU.cons hv hvs)
theorem simUAlts (call call' : Caller) (hc : CallRelU call call') : ∀ {alts alts' : Alts},
    CRelAlts alts alts' → ∀ (Q : String → Bool), idsInAlts Q alts = true → ∀ v v' env env',
    VRelU v v' → EnvRelQ Q env env' →
    RRelU VRelU (evalAlts call env v alts) (evalAlts call' env' v' alts')
  | _, _, .nil, _, _, _, _, _, _, _, _ => by
    simp only [evalAlts]; exact rrel_of_rel trivial LRelU.nil
  | _, _, .cons p h1 h2, Q, hi, v, v', env, env', hv, he => by
    simp only [idsInAlts, Bool.and_eq_true] at hi
    simp only [evalAlts]
    rcases matchPat_rel p hv with ⟨a1, a2⟩ | ⟨bs, bs', a1, a2, hb⟩
    · rw [a1, a2]
      exact simUAlts call call' hc h2 Q hi.2 v v' env env' hv he
    · rw [a1, a2]
      exact simU call call' hc h1 Q hi.1 _ _ (envrel_append_b hb he)
/-- The nested lets of a rewritten node against the evaluation of the record's fields. -/
theorem simUTarget (call call' : Caller) (hc : CallRelU call call') (f b : String) (body : Expr) :
    ∀ {as as' : Exprs}, CRelList as as' → ∀ (rows : List String) (k : Nat) (Q : String → Bool)
      (env env1 : Env) (K : List Value → R Value),
    idsInList Q as = true → rows.length = lengthE as → EnvRelQ Q env env1 →
    Q b = false → (∀ k, Q (dummyName k) = false) →
    (∀ vs vs', VRelsU vs vs' → vs.length = rows.length →
      RRelU VRelU (K vs) (eval call' (letEnv [(f, b)] rows vs' k env1) body)) →
    RRelU VRelU ((evalList call env as).bind K)
      (eval call' env1 (makeLets [(f, b)] rows as' body k).1)
  | _, _, .nil, rows, k, Q, env, env1, K, _, hl, _, _, _, hK => by
    cases rows with
    | cons r rs => simp [lengthE] at hl
    | nil =>
      simp only [evalList, pure_bind, makeLets]
      have := hK [] [] VRelsU.nil rfl
      simpa [letEnv] using this
  | _, _, .cons (e := a) (es := as) h1 h2, rows, k, Q, env, env1, K, hi, hl, he, hb, hd, hK => by
    cases rows with
    | nil => simp [lengthE] at hl
    | cons r rs =>
      simp only [idsInList, Bool.and_eq_true] at hi
      simp only [List.length_cons, lengthE, Nat.add_right_cancel_iff] at hl
      have horig : (evalList call env (.cons a as)).bind K =
          (eval call env a).bind (fun v => (evalList call env as).bind (fun vs => K (v :: vs))) := by
        simp only [evalList, bind_assoc, pure_bind]
      rw [horig]
      simp only [makeLets, eval]
      apply bind_rrelU _ _ _ _ (simU call call' hc h1 Q hi.1 env env1 he)
      intro v v' hv
      have hfresh : Q (fieldBinder [(f, b)] r k).1 = false := by
        rw [fieldBinder_single]
        split
        · exact hb
        · exact hd k
      apply simUTarget call call' hc f b body h2 rs _ Q env _ (fun vs => K (v :: vs)) hi.2 hl
        (envrel_skipR he _ v' hfresh) hb hd
      intro vs vs' hvs hlen
      have := hK (v :: vs) (v' :: vs') (VRelsU.cons hv hvs) (by simp [hlen])
      simpa [letEnv] using this
end

theorem applyN_relU : ∀ (n : Nat), CallRelU (applyN n) (applyN n)
  | 0 => by
    intro f f' as as' _ _
    exact rrel_of_rel trivial LRelU.nil
  | n + 1 => by
    intro f f' as as' hf ha
    cases hf with
    | lit l => exact rrel_of_rel trivial LRelU.nil
    | data c rows h => exact rrel_of_rel trivial LRelU.nil
    | ext name => simp only [applyN]; exact hostCall_rel name ha
    | pap h1 h2 =>
      simp only [applyN]
      exact applyN_relU n _ _ _ _ h1 (vrels_append h2 ha)
    | clos name Q hg hi hp1 hp2 =>
      rename_i cenv cenv' g g'
      simp only [applyN]
      rcases findClosure_crel hg name with ⟨a1, a2⟩ | ⟨ps, b, b', a1, a2, hb⟩
      · rw [a1, a2]; exact rrel_of_rel trivial LRelU.nil
      · rw [a1, a2]
        simp only
        rw [← vrels_length ha]
        split
        · exact rrelU_pure (VRelU.pap (VRelU.clos name Q hg hi hp1 hp2) ha)
        · have hbase : EnvRelQ Q cenv cenv' := envrel_of_prem hp1 hp2
          have hclos : ∀ m, VRelU (.clos cenv g m) (.clos cenv' g' m) :=
            fun m => VRelU.clos m Q hg hi hp1 hp2
          have henv : EnvRelQ Q (ps.zip as ++ closureEnv cenv g g ++ cenv)
              (ps.zip as' ++ closureEnv cenv' g' g' ++ cenv') := by
            rw [List.append_assoc, List.append_assoc]
            exact envrel_append_b (zip_brel ps ha) (closureEnv_relU hclos hbase hg)
          have hr := simU (applyN n) (applyN n) (applyN_relU n) hb Q
            (idsIn_findClosure Q g name ps b hi a1) _ _ henv
          split
          · exact hr
          · apply bind_rrelU _ _ _ _ hr
            intro v v' hv
            exact applyN_relU n _ _ _ _ hv (vrels_drop _ ha)

/-! ### `ua` produces related code -/

mutual
theorem crel_refl : ∀ (e : Expr), CRel e e
  | .const l => .const l
  | .ident x => .ident x
  | .call f args => .call (crel_refl f) (crel_reflList args)
  | .data c rows args => .data c rows (crel_reflList args)
  | .letE x e b => .letE x (crel_refl e) (crel_refl b)
  | .letRec cs b => .letRec (crel_reflClos cs) (crel_refl b)
  | .matchE s alts => .matchE (crel_refl s) (crel_reflAlts alts)
  | .cast e => .cast (crel_refl e)
theorem crel_reflList : ∀ (es : Exprs), CRelList es es
  | .nil => .nil
  | .cons e es => .cons (crel_refl e) (crel_reflList es)
theorem crel_reflAlts : ∀ (alts : Alts), CRelAlts alts alts
  | .nil => .nil
  | .cons p e r => .cons p (crel_refl e) (crel_reflAlts r)
theorem crel_reflClos : ∀ (cs : Closures), CRelClos cs cs
  | .nil => .nil
  | .cons n a b r => .cons n a (crel_refl b) (crel_reflClos r)
end

theorem targetConds_of_ok {rows : List String} {args : Exprs} {fields : List (String × String)}
    {body : Expr} (h : targetOK rows args fields body = true) :
    ∃ f b, fields = [(f, b)] ∧ TargetConds rows args f b body := by
  unfold targetOK at h
  split at h
  · rename_i f b
    simp only [Bool.and_eq_true, beq_iff_eq, Bool.not_eq_true'] at h
    obtain ⟨⟨⟨⟨⟨h1, h2⟩, h3⟩, h4⟩, h5⟩, h6⟩ := h
    exact ⟨f, b, rfl, ⟨h1, h2, h3, h4, h5, h6⟩⟩
  · simp at h

mutual
theorem ua_crel : ∀ (e : Expr) (k : Nat), uaOK e = true → CRel e (ua e k).1
  | .const l, _, _ => by simp only [ua]; exact .const l
  | .ident x, _, _ => by simp only [ua]; exact .ident x
  | .call f args, k, ho => by
    simp only [uaOK, Bool.and_eq_true] at ho
    simp only [ua]
    exact .call (ua_crel f k ho.1) (ua_crelList args _ ho.2)
  | .data c rows args, k, ho => by
    simp only [uaOK] at ho
    simp only [ua]
    exact .data c rows (ua_crelList args k ho)
  | .letE x e b, k, ho => by
    simp only [uaOK, Bool.and_eq_true] at ho
    simp only [ua]
    exact .letE x (ua_crel e k ho.1) (ua_crel b _ ho.2)
  | .letRec cs b, k, ho => by
    simp only [uaOK, Bool.and_eq_true] at ho
    simp only [ua]
    exact .letRec (ua_crelClos cs k ho.1) (ua_crel b _ ho.2)
  | .matchE s alts, k, ho => by
    simp only [ua]
    cases ht : uaTarget s alts with
    | some t =>
      obtain ⟨rows, args, fields, body⟩ := t
      obtain ⟨c, hs, ha⟩ := uaTarget_some ht
      subst hs ha
      simp only [uaOK, ht] at ho
      obtain ⟨f, b, hf, hcond⟩ := targetConds_of_ok ho
      subst hf
      exact .target c rows args f b body k hcond (crel_reflList args) (crel_refl body)
    | none =>
      simp only [uaOK, ht, Bool.and_eq_true] at ho
      exact .matchE (ua_crel s k ho.1) (ua_crelAlts alts _ ho.2)
  | .cast e, k, ho => by
    simp only [uaOK] at ho
    simp only [ua]
    exact .cast (ua_crel e k ho)
theorem ua_crelList : ∀ (es : Exprs) (k : Nat), uaOKList es = true → CRelList es (uaList es k).1
  | .nil, _, _ => by simp only [uaList]; exact .nil
  | .cons e es, k, ho => by
    simp only [uaOKList, Bool.and_eq_true] at ho
    simp only [uaList]
    exact .cons (ua_crel e k ho.1) (ua_crelList es _ ho.2)
theorem ua_crelAlts : ∀ (alts : Alts) (k : Nat), uaOKAlts alts = true →
    CRelAlts alts (uaAlts alts k).1
  | .nil, _, _ => by simp only [uaAlts]; exact .nil
  | .cons p e r, k, ho => by
    simp only [uaOKAlts, Bool.and_eq_true] at ho
    simp only [uaAlts]
    exact .cons p (ua_crel e k ho.1) (ua_crelAlts r _ ho.2)
theorem ua_crelClos : ∀ (cs : Closures) (k : Nat), uaOKClosures cs = true →
    CRelClos cs (uaClosures cs k).1
  | .nil, _, _ => by simp only [uaClosures]; exact .nil
  | .cons n a b r, k, ho => by
    simp only [uaOKClosures, Bool.and_eq_true] at ho
    simp only [uaClosures]
    exact .cons n a (ua_crel b k ho.1) (ua_crelClos r _ ho.2)
end

/-- Whole module bodies, full language. -/
theorem run_relU (fuel : Nat) (e : Expr) (ho : uaOK e = true) :
    RRelU VRelU (run fuel e) (run fuel (unnecessaryAlloc e)) :=
  simU (applyN fuel) (applyN fuel) (applyN_relU fuel) (ua_crel e 0 ho) (fun _ => true)
    (idsIn_true e) [] [] (fun _ _ => ORelU.none)

/-- When the original result and the logged arguments contain no functions the rewritten run is
    equal to it. -/
theorem run_eq_of_firstOrder (fuel : Nat) (e : Expr) (ho : uaOK e = true)
    (hv : ∀ v, (run fuel e).out = .ok v → FirstOrder v) (hl : FirstOrderLog (run fuel e).log) :
    run fuel (unnecessaryAlloc e) = run fuel e := by
  obtain ⟨hout, hlog⟩ := run_relU fuel e ho
  have hlog' := lrel_firstOrder hlog hl
  revert hout hlog' hv
  cases run fuel e with
  | mk o l =>
    cases run fuel (unnecessaryAlloc e) with
    | mk o' l' =>
      intro hv hout hlog'
      simp only at hlog' hout hv
      subst hlog'
      cases o <;> cases o' <;> simp only [OutRel] at hout
      · rename_i v v'
        rw [vrel_firstOrder hout (hv v rfl)]
      · rfl
      · rw [hout]
      · rfl
      · rfl

end GluonModel.Proofs.UaRel
