/-
Lemmas for C08's first clause: the grammar model parses what the explicit-style printer prints.
-/
import GluonModel.ExprGrammar

namespace GluonModel.ExprGrammar.Proofs
open GluonModel.ExprGrammar

/-! ### Unfolding lemmas (one per grammar alternative) -/

theorem pExpr_of_atomStart (f : Nat) (ts : List Tok) (h : startsAtomic ts = true) :
    pExpr (f + 1) ts = pInfix f ts := by
  match ts, h with
  | ⟨.ident _, _⟩ :: _, _ => simp [pExpr]
  | ⟨.int _, _⟩ :: _, _ => simp [pExpr]
  | ⟨.str _, _⟩ :: _, _ => simp [pExpr]
  | ⟨.lp, _⟩ :: _, _ => simp [pExpr]

theorem pExpr_lam (f : Nat) (bs : Span) (r : List Tok) :
    pExpr (f + 1) (⟨.lam, bs⟩ :: r) = pInfix f (⟨.lam, bs⟩ :: r) := by
  simp [pExpr]

theorem pInfix_of_atomStart (f : Nat) (ts : List Tok) (h : startsAtomic ts = true) :
    pInfix (f + 1) ts =
      match pApp f ts with
      | some (l, ⟨.op o, os⟩ :: r) =>
        match pInfix f r with
        | some (rhs, r') => some (.infix l o os rhs, r')
        | none => none
      | res => res := by
  match ts, h with
  | ⟨.ident _, _⟩ :: _, _ => simp [pInfix]
  | ⟨.int _, _⟩ :: _, _ => simp [pInfix]
  | ⟨.str _, _⟩ :: _, _ => simp [pInfix]
  | ⟨.lp, _⟩ :: _, _ => simp [pInfix]

end GluonModel.ExprGrammar.Proofs
