/-
Lemmas for C08's first clause: the grammar model parses what the explicit-style printer prints.
-/
import GluonModel.ExprGrammar

namespace GluonModel.ExprGrammar.Proofs
open GluonModel.ExprGrammar

/-! ### The productions as inference rules about the parser functions -/

def noOp : List Tok → Bool
  | ⟨.op _, _⟩ :: _ => false
  | _ => true

def noComma : List Tok → Bool
  | ⟨.comma, _⟩ :: _ => false
  | _ => true

def noRp : List Tok → Bool
  | ⟨.rp, _⟩ :: _ => false
  | _ => true

def noIdent : List Tok → Bool
  | ⟨.ident _, _⟩ :: _ => false
  | _ => true

theorem r_ident (f n sp r) : pAtomic (f + 1) (⟨.ident n, sp⟩ :: r) = some (.ident n sp, r) := by
  simp [pAtomic]
theorem r_int (f n sp r) : pAtomic (f + 1) (⟨.int n, sp⟩ :: r) = some (.int n sp, r) := by
  simp [pAtomic]
theorem r_str (f n sp r) : pAtomic (f + 1) (⟨.str n, sp⟩ :: r) = some (.str n sp, r) := by
  simp [pAtomic]
theorem r_unit (f l rr r) : pAtomic (f + 1) (⟨.lp, l⟩ :: ⟨.rp, rr⟩ :: r) = some (.unit l rr, r) := by
  simp [pAtomic]

theorem r_paren (f l r b rr r') (h0 : noRp r = true)
    (h : pBody f r = some (b, ⟨.rp, rr⟩ :: r')) :
    pAtomic (f + 1) (⟨.lp, l⟩ :: r) = some (.paren l b rr, r') := by
  match r, h0 with
  | [], _ => simp [pAtomic, h]
  | ⟨t, s⟩ :: r1, h0 =>
    cases t <;> simp [noRp] at h0 <;> simp [pAtomic, h]

theorem r_body_one (f ts a r) (h : pExpr f ts = some (a, r)) (hc : noComma r = true) :
    pBody (f + 1) ts = some (a, r) := by
  match r, hc with
  | [], _ => simp [pBody, h]
  | ⟨t, s⟩ :: r1, hc => cases t <;> simp [noComma] at hc <;> simp [pBody, h]

theorem r_body_comma (f ts a c r b r') (h : pExpr f ts = some (a, ⟨.comma, c⟩ :: r))
    (h2 : pBody f r = some (b, r')) :
    pBody (f + 1) ts = some (.comma a c b, r') := by
  simp [pBody, h, h2]

theorem r_args_stop (f acc ts) (h : startsAtomic ts = false) :
    pArgs (f + 1) acc ts = some (acc, ts) := by
  simp [pArgs, h]

theorem r_args_step (f acc ts a r) (h : startsAtomic ts = true)
    (h2 : pAtomic f ts = some (a, r)) :
    pArgs (f + 1) acc ts = pArgs f (.app acc a) r := by
  simp [pArgs, h, h2]

theorem r_app (f ts a r) (h : pAtomic f ts = some (a, r)) :
    pApp (f + 1) ts = pArgs f a r := by
  simp [pApp, h]

theorem r_lam (f bs r a as ar r2 b r3) (h : takeArgs r = (a :: as, ⟨.arrow, ar⟩ :: r2))
    (h2 : pExpr f r2 = some (b, r3)) :
    pInfix (f + 1) (⟨.lam, bs⟩ :: r) = some (.lam bs (a :: as) ar b, r3) := by
  simp [pInfix, h, h2]

theorem r_infix_op (f ts l o os r rhs r') (h0 : startsAtomic ts = true)
    (h : pApp f ts = some (l, ⟨.op o, os⟩ :: r)) (h2 : pInfix f r = some (rhs, r')) :
    pInfix (f + 1) ts = some (.binop l o os rhs, r') := by
  match ts, h0 with
  | ⟨.ident _, _⟩ :: _, _ => simp [pInfix, h, h2]
  | ⟨.int _, _⟩ :: _, _ => simp [pInfix, h, h2]
  | ⟨.str _, _⟩ :: _, _ => simp [pInfix, h, h2]
  | ⟨.lp, _⟩ :: _, _ => simp [pInfix, h, h2]

theorem r_infix_app (f ts l r) (h0 : startsAtomic ts = true)
    (h : pApp f ts = some (l, r)) (hn : noOp r = true) :
    pInfix (f + 1) ts = some (l, r) := by
  have key : (match (some (l, r) : Option (C × List Tok)) with
      | some (l, ⟨.op o, os⟩ :: r) =>
        match pInfix f r with
        | some (rhs, r') => some (C.binop l o os rhs, r')
        | none => none
      | res => res) = some (l, r) := by
    match r, hn with
    | [], _ => rfl
    | ⟨t, s⟩ :: r1, hn => cases t <;> simp [noOp] at hn <;> rfl
  match ts, h0 with
  | ⟨.ident _, _⟩ :: _, _ => simp only [pInfix, h]; exact key
  | ⟨.int _, _⟩ :: _, _ => simp only [pInfix, h]; exact key
  | ⟨.str _, _⟩ :: _, _ => simp only [pInfix, h]; exact key
  | ⟨.lp, _⟩ :: _, _ => simp only [pInfix, h]; exact key

theorem r_if (f i r c t r1 a e r2 b r3) (h1 : pExpr f r = some (c, ⟨.kThen, t⟩ :: r1))
    (h2 : pExpr f r1 = some (a, ⟨.kElse, e⟩ :: r2)) (h3 : pExpr f r2 = some (b, r3)) :
    pExpr (f + 1) (⟨.kIf, i⟩ :: r) = some (.ite i c t a e b, r3) := by
  simp [pExpr, h1, h2, h3]

theorem r_let (f l x xs r args q r2 rhs n r3 body r4)
    (h0 : takeArgs r = (args, ⟨.eq, q⟩ :: r2))
    (h1 : pExpr f r2 = some (rhs, ⟨.kIn, n⟩ :: r3)) (h2 : pExpr f r3 = some (body, r4)) :
    pExpr (f + 1) (⟨.kLet, l⟩ :: ⟨.ident x, xs⟩ :: r) = some (.letIn l (x, xs) args q rhs n body, r4) := by
  simp [pExpr, h0, h1, h2]

theorem r_block (f s0 r e s r') (h : pExpr f r = some (e, ⟨.cb, s⟩ :: r')) :
    pExpr (f + 1) (⟨.ob, s0⟩ :: r) = some (e, r') := by
  simp [pExpr, h]

theorem r_expr_atom (f : Nat) (ts : List Tok) (h : startsAtomic ts = true) :
    pExpr (f + 1) ts = pInfix f ts := by
  match ts, h with
  | ⟨.ident _, _⟩ :: _, _ => simp [pExpr]
  | ⟨.int _, _⟩ :: _, _ => simp [pExpr]
  | ⟨.str _, _⟩ :: _, _ => simp [pExpr]
  | ⟨.lp, _⟩ :: _, _ => simp [pExpr]

theorem r_expr_lam (f : Nat) (bs : Span) (r : List Tok) :
    pExpr (f + 1) (⟨.lam, bs⟩ :: r) = pInfix f (⟨.lam, bs⟩ :: r) := by
  simp [pExpr]

theorem takeArgs_argToks (args : List Arg) (r : List Tok) (h : noIdent r = true) :
    takeArgs (argToks args ++ r) = (args, r) := by
  induction args with
  | nil =>
    match r, h with
    | [], _ => simp [argToks, takeArgs]
    | ⟨t, s⟩ :: r1, h => cases t <;> simp [noIdent] at h <;> simp [argToks, takeArgs]
  | cons a as ih =>
    obtain ⟨x, sp⟩ := a
    simp [argToks, takeArgs, ih]

/-! ### First tokens of a printed tree -/

theorem startsAtomic_toks (c : C) (rest : List Tok) (hl : Legal c) (h : lvl c ≤ 1) :
    startsAtomic (toks c ++ rest) = true := by
  induction c generalizing rest with
  | ident | int | str | unit | paren => simp [toks, startsAtomic]
  | app f a ihf _ =>
    simp only [Legal] at hl
    simp only [toks, List.append_assoc]
    exact ihf _ hl.1 hl.2.2.1
  | comma | binop | lam | ite | letIn => simp [lvl] at h

theorem noRp_toks (c : C) (rest : List Tok) (hl : Legal c) : noRp (toks c ++ rest) = true := by
  induction c generalizing rest with
  | ident | int | str | unit | paren | lam | ite | letIn => simp [toks, noRp]
  | app f a ihf _ =>
    simp only [Legal] at hl
    simp only [toks, List.append_assoc]
    exact ihf _ hl.1
  | comma a _ b iha _ =>
    simp only [Legal] at hl
    simp only [toks, List.append_assoc]
    exact iha _ hl.1
  | binop l _ _ r ihl _ =>
    simp only [Legal] at hl
    simp only [toks, List.append_assoc]
    exact ihl _ hl.1

theorem size_pos (c : C) : 1 ≤ size c := by
  cases c <;> simp [size]

/-! ### The parser inverts the printer: one claim per grammar level -/

def A (c : C) : Prop := lvl c = 0 → ∀ f rest, 10 * size c ≤ f + 8 →
  pAtomic f (toks c ++ rest) = some (c, rest)
def B (c : C) : Prop := lvl c ≤ 1 → ∀ f rest, 10 * size c ≤ f + 7 →
  ∃ g, f ≤ g + size c ∧ pApp f (toks c ++ rest) = pArgs g c rest
def C1 (c : C) : Prop := lvl c ≤ 1 → ∀ f rest, 10 * size c ≤ f + 7 → startsAtomic rest = false →
  pApp f (toks c ++ rest) = some (c, rest)
def C2 (c : C) : Prop := lvl c ≤ 2 → ∀ f rest, 10 * size c ≤ f + 6 → startsAtomic rest = false →
  noOp rest = true → pInfix f (toks c ++ rest) = some (c, rest)
def C3 (c : C) : Prop := lvl c ≤ 3 → ∀ f rest, 10 * size c ≤ f + 5 → startsAtomic rest = false →
  noOp rest = true → pExpr f (toks c ++ rest) = some (c, rest)
def C4 (c : C) : Prop := ∀ f rest, 10 * size c ≤ f + 4 → startsAtomic rest = false →
  noOp rest = true → noComma rest = true → pBody f (toks c ++ rest) = some (c, rest)

structure All (c : C) : Prop where
  a : A c
  b : B c
  c1 : C1 c
  c2 : C2 c
  c3 : C3 c
  c4 : C4 c

abbrev IH (c : C) : Prop := ∀ c', size c' < size c → Legal c' → All c'

theorem a_of (c : C) (ih : IH c) (hl : Legal c) : A c := by
  intro h0 f rest hf
  obtain ⟨f, rfl⟩ : ∃ f', f = f' + 1 := ⟨f - 1, by have := size_pos c; omega⟩
  cases c with
  | ident n sp => simp [toks, r_ident]
  | int n sp => simp [toks, r_int]
  | str n sp => simp [toks, r_str]
  | unit l r => simp [toks, r_unit]
  | paren l b r =>
    simp only [Legal] at hl
    simp only [toks, List.cons_append, List.append_assoc]
    apply r_paren
    · exact noRp_toks b _ hl
    · have := (ih b (by simp [size]) hl).c4
      simp only [size] at hf
      exact this f _ (by omega) (by simp [startsAtomic]) (by simp [noOp]) (by simp [noComma])
  | comma | app | binop | lam | ite | letIn => simp [lvl] at h0

theorem b_of (c : C) (ih : IH c) (hl : Legal c) (ha : A c) : B c := by
  intro h1 f rest hf
  by_cases h0 : lvl c = 0
  · have := size_pos c
    obtain ⟨f, rfl⟩ : ∃ f', f = f' + 1 := ⟨f - 1, by omega⟩
    exact ⟨f, by omega, r_app _ _ _ _ (ha h0 f rest (by omega))⟩
  · cases c with
    | app c' a =>
      simp only [Legal] at hl
      simp only [size] at hf
      obtain ⟨g', hg', e⟩ := (ih c' (by simp [size]; omega) hl.1).b hl.2.2.1 f (toks a ++ rest) (by omega)
      obtain ⟨g, rfl⟩ : ∃ g, g' = g + 1 := ⟨g' - 1, by have := size_pos a; omega⟩
      refine ⟨g, by simp only [size]; omega, ?_⟩
      simp only [toks, List.append_assoc, e]
      apply r_args_step
      · exact startsAtomic_toks a rest hl.2.1 (by omega)
      · exact (ih a (by simp [size]; omega) hl.2.1).a hl.2.2.2 g rest (by omega)
    | comma | binop | lam | ite | letIn => simp [lvl] at h1
    | ident | int | str | unit | paren => simp [lvl] at h0

theorem c1_of (c : C) (hb : B c) : C1 c := by
  intro h1 f rest hf hs
  obtain ⟨g, hg, e⟩ := hb h1 f rest hf
  obtain ⟨g, rfl⟩ : ∃ g', g = g' + 1 := ⟨g - 1, by have := size_pos c; omega⟩
  rw [e]
  exact r_args_stop _ _ _ hs

theorem c2_of (c : C) (ih : IH c) (hl : Legal c) (hc1 : C1 c) : C2 c := by
  intro h2 f rest hf hs hn
  have := size_pos c
  obtain ⟨f, rfl⟩ : ∃ f', f = f' + 2 := ⟨f - 2, by omega⟩
  by_cases h1 : lvl c ≤ 1
  · exact r_infix_app (f + 1) _ c rest (startsAtomic_toks c rest hl h1)
      (hc1 h1 (f + 1) rest (by omega) hs) hn
  · cases c with
    | binop l o os r =>
      simp only [Legal] at hl
      simp only [size] at hf
      simp only [toks, List.append_assoc, List.cons_append]
      exact r_infix_op (f + 1) _ l o os (toks r ++ rest) r rest
        (startsAtomic_toks l _ hl.1 hl.2.2.1)
        ((ih l (by simp [size]; omega) hl.1).c1 hl.2.2.1 (f + 1) _ (by omega) (by simp [startsAtomic]))
        ((ih r (by simp [size]; omega) hl.2.1).c2 hl.2.2.2 (f + 1) rest (by omega) hs hn)
    | lam bs args ar body =>
      simp only [Legal] at hl
      simp only [size] at hf
      simp only [toks, List.append_assoc, List.cons_append, List.nil_append]
      cases args with
      | nil => exact absurd rfl hl.2.1
      | cons a as =>
        exact r_lam (f + 1) bs _ a as ar _ body rest
          (takeArgs_argToks (a :: as) _ (by simp [noIdent]))
          (r_block f _ _ body dummy rest
            ((ih body (by simp [size]) hl.1).c3 hl.2.2 f _ (by omega) (by simp [startsAtomic])
              (by simp [noOp])))
    | ite | letIn | comma => simp [lvl] at h2
    | ident | int | str | unit | paren | app => simp [lvl] at h1

theorem c3_of (c : C) (ih : IH c) (hl : Legal c) (hc2 : C2 c) : C3 c := by
  intro h3 f rest hf hs hn
  have := size_pos c
  obtain ⟨f, rfl⟩ : ∃ f', f = f' + 2 := ⟨f - 2, by omega⟩
  by_cases h2 : lvl c ≤ 2
  · have e := hc2 h2 (f + 1) rest (by omega) hs hn
    by_cases h1 : lvl c ≤ 1
    · rw [r_expr_atom (f + 1) _ (startsAtomic_toks c rest hl h1)]; exact e
    · cases c with
      | binop l o os r =>
        simp only [Legal] at hl
        simp only [toks, List.append_assoc, List.cons_append] at e ⊢
        rw [r_expr_atom (f + 1) _ (startsAtomic_toks l _ hl.1 hl.2.2.1)]; exact e
      | lam bs args ar body =>
        simp only [toks, List.append_assoc, List.cons_append] at e ⊢
        rw [r_expr_lam]; exact e
      | ite | letIn | comma => simp [lvl] at h2
      | ident | int | str | unit | paren | app => simp [lvl] at h1
  · cases c with
    | ite i c t a e b =>
      simp only [Legal] at hl
      simp only [size] at hf
      obtain ⟨lc, la, lb, vc, va, vb, _⟩ := hl
      have hc := (ih c (by simp [size]; omega) lc).c3 vc
      have ha := (ih a (by simp [size]; omega) la).c3 va
      have hb := (ih b (by simp [size]; omega) lb).c3 vb
      by_cases hi : isIte b = true
      · simp only [toks, hi, ↓reduceIte, List.append_assoc, List.cons_append]
        exact r_if (f + 1) i _ c t _ a e _ b rest
          (hc (f + 1) _ (by omega) (by simp [startsAtomic]) (by simp [noOp]))
          (r_block f _ _ a dummy _ (ha f _ (by omega) (by simp [startsAtomic]) (by simp [noOp])))
          (hb (f + 1) rest (by omega) hs hn)
      · have hi' : isIte b = false := by simpa using hi
        simp only [toks, hi', Bool.false_eq_true, ↓reduceIte, List.append_assoc, List.cons_append,
          List.nil_append]
        exact r_if (f + 1) i _ c t _ a e _ b rest
          (hc (f + 1) _ (by omega) (by simp [startsAtomic]) (by simp [noOp]))
          (r_block f _ _ a dummy _ (ha f _ (by omega) (by simp [startsAtomic]) (by simp [noOp])))
          (r_block f _ _ b dummy rest (hb f (⟨.cb, dummy⟩ :: rest) (by omega) (by simp [startsAtomic]) (by simp [noOp])))
    | letIn l x args q rhs n body =>
      obtain ⟨x, xs⟩ := x
      simp only [Legal] at hl
      simp only [size] at hf
      obtain ⟨lr, lb, vr, vb⟩ := hl
      have hr := (ih rhs (by simp [size]; omega) lr).c3 vr
      have hb := (ih body (by simp [size]; omega) lb).c3 vb
      simp only [toks, List.append_assoc, List.cons_append, List.nil_append]
      exact r_let (f + 1) l x xs _ args q _ rhs n _ body rest
        (takeArgs_argToks args _ (by simp [noIdent]))
        (r_block f _ _ rhs dummy _ (hr f _ (by omega) (by simp [startsAtomic]) (by simp [noOp])))
        (r_block f _ _ body dummy _ (hb f _ (by omega) (by simp [startsAtomic]) (by simp [noOp])))
    | comma => simp [lvl] at h3
    | ident | int | str | unit | paren | app | binop | lam => simp [lvl] at h2

theorem c4_of (c : C) (ih : IH c) (hl : Legal c) (hc3 : C3 c) : C4 c := by
  intro f rest hf hs hn hc
  have := size_pos c
  obtain ⟨f, rfl⟩ : ∃ f', f = f' + 1 := ⟨f - 1, by omega⟩
  by_cases h3 : lvl c ≤ 3
  · exact r_body_one f _ c rest (hc3 h3 f rest (by omega) hs hn) hc
  · cases c with
    | comma a cs b =>
      simp only [Legal] at hl
      simp only [size] at hf
      simp only [toks, List.append_assoc, List.cons_append]
      exact r_body_comma f _ a cs _ b rest
        ((ih a (by simp [size]; omega) hl.1).c3 hl.2.2 f _ (by omega) (by simp [startsAtomic])
          (by simp [noOp]))
        ((ih b (by simp [size]; omega) hl.2.1).c4 f rest (by omega) hs hn hc)
    | ident | int | str | unit | paren | app | binop | lam | ite | letIn => simp [lvl] at h3

theorem all_of (n : Nat) : ∀ c, size c ≤ n → Legal c → All c := by
  induction n with
  | zero => intro c h; have := size_pos c; omega
  | succ n ihn =>
    intro c h hl
    have ih : IH c := fun c' h' hl' => ihn c' (by omega) hl'
    have a := a_of c ih hl
    have b := b_of c ih hl a
    have c1 := c1_of c b
    have c2 := c2_of c ih hl c1
    have c3 := c3_of c ih hl c2
    exact ⟨a, b, c1, c2, c3, c4_of c ih hl c3⟩

/-- The grammar model parses the printed token stream of every legal tree back to that tree. -/
theorem parse_print (c : C) (hl : Legal c) (h3 : lvl c ≤ 3) (fuel : Nat)
    (hf : 10 * size c + 6 ≤ fuel) : parseTop fuel (toksTop c) = some c := by
  obtain ⟨f, rfl⟩ : ∃ f', fuel = f' + 1 := ⟨fuel - 1, by omega⟩
  have e := (all_of (size c) c (Nat.le_refl _) hl).c3 h3 f [⟨.cb, dummy⟩] (by omega)
    (by simp [startsAtomic]) (by simp [noOp])
  simp only [parseTop, toksTop, r_block f dummy _ c dummy [] e]

/-! ### Spans: a node's span is the extent of its printed tokens -/

theorem firstReal_append_of_some (xs ys : List Tok) (t : Tok) (h : firstReal xs = some t) :
    firstReal (xs ++ ys) = some t := by
  induction xs with
  | nil => simp [firstReal] at h
  | cons x xs ih =>
    simp only [List.cons_append, firstReal] at h ⊢
    split
    · simp_all
    · simp_all

theorem lastReal_append_of_some (xs ys : List Tok) (t : Tok) (h : lastReal ys = some t) :
    lastReal (xs ++ ys) = some t := by
  induction xs with
  | nil => simpa using h
  | cons x xs ih => simp only [List.cons_append, lastReal, ih]

theorem first_toks (c : C) : ∃ t, firstReal (toks c) = some t ∧ t.sp.s = (span c).s := by
  induction c with
  | ident | int | str | unit | paren | lam | ite | letIn =>
    simp [toks, firstReal, isReal, span]
  | comma a _ b iha _ =>
    obtain ⟨t, h, e⟩ := iha
    exact ⟨t, by simp only [toks]; exact firstReal_append_of_some _ _ _ h, by simp [span, e]⟩
  | app f a ihf _ =>
    obtain ⟨t, h, e⟩ := ihf
    exact ⟨t, by simp only [toks]; exact firstReal_append_of_some _ _ _ h, by simp [span, e]⟩
  | binop l _ _ r ihl _ =>
    obtain ⟨t, h, e⟩ := ihl
    exact ⟨t, by simp only [toks]; exact firstReal_append_of_some _ _ _ h, by simp [span, e]⟩

theorem lastReal_snoc_cb (xs : List Tok) (t : Tok) (h : lastReal xs = some t) :
    lastReal (xs ++ [⟨.cb, dummy⟩]) = some t := by
  induction xs generalizing t with
  | nil => simp [lastReal] at h
  | cons x xs ih =>
    simp only [List.cons_append, lastReal] at h ⊢
    cases hx : lastReal xs with
    | some y => simp [ih y hx, hx] at h ⊢; exact h
    | none =>
      have : lastReal (xs ++ [⟨.cb, dummy⟩]) = none := by
        clear ih h
        induction xs with
        | nil => simp [lastReal, isReal]
        | cons z zs ihz =>
          simp only [lastReal] at hx
          cases hz : lastReal zs with
          | some w => simp [hz] at hx
          | none =>
            simp only [hz] at hx
            simp only [List.cons_append, lastReal, ihz hz]
            exact hx
      simp [this, hx] at h ⊢; exact h

theorem last_toks (c : C) : ∃ t, lastReal (toks c) = some t ∧ t.sp.e = (span c).e := by
  induction c with
  | ident | int | str | unit => simp [toks, lastReal, isReal, span]
  | paren l b r _ =>
    refine ⟨⟨.rp, r⟩, ?_, by simp [span]⟩
    have : toks (.paren l b r) = (⟨.lp, l⟩ :: toks b) ++ [⟨.rp, r⟩] := by simp [toks]
    rw [this]; exact lastReal_append_of_some _ _ _ (by simp [lastReal, isReal])
  | comma a cs b _ ihb =>
    obtain ⟨t, h, e⟩ := ihb
    refine ⟨t, ?_, by simp [span, e]⟩
    have : toks (.comma a cs b) = (toks a ++ [⟨.comma, cs⟩]) ++ toks b := by simp [toks]
    rw [this]; exact lastReal_append_of_some _ _ _ h
  | app f a _ iha =>
    obtain ⟨t, h, e⟩ := iha
    exact ⟨t, by simp only [toks]; exact lastReal_append_of_some _ _ _ h, by simp [span, e]⟩
  | binop l o os r _ ihr =>
    obtain ⟨t, h, e⟩ := ihr
    refine ⟨t, ?_, by simp [span, e]⟩
    have : toks (.binop l o os r) = (toks l ++ [⟨.op o, os⟩]) ++ toks r := by simp [toks]
    rw [this]; exact lastReal_append_of_some _ _ _ h
  | lam bs args ar body ih =>
    obtain ⟨t, h, e⟩ := ih
    refine ⟨t, ?_, by simp [span, e]⟩
    have : toks (.lam bs args ar body) =
        (⟨.lam, bs⟩ :: (argToks args ++ [⟨.arrow, ar⟩, ⟨.ob, dummy⟩])) ++ (toks body ++ [⟨.cb, dummy⟩]) := by
      simp [toks]
    rw [this]; exact lastReal_append_of_some _ _ _ (lastReal_snoc_cb _ _ h)
  | ite i c t a e b _ _ ihb =>
    obtain ⟨tb, h, eb⟩ := ihb
    refine ⟨tb, ?_, by simp [span, eb]⟩
    by_cases hi : isIte b = true
    · have : toks (.ite i c t a e b) =
          (⟨.kIf, i⟩ :: (toks c ++ ⟨.kThen, t⟩ :: ⟨.ob, dummy⟩ :: (toks a ++ [⟨.cb, dummy⟩, ⟨.kElse, e⟩]))) ++ toks b := by
        simp [toks, hi]
      rw [this]; exact lastReal_append_of_some _ _ _ h
    · have hi' : isIte b = false := by simpa using hi
      have : toks (.ite i c t a e b) =
          (⟨.kIf, i⟩ :: (toks c ++ ⟨.kThen, t⟩ :: ⟨.ob, dummy⟩ :: (toks a ++ [⟨.cb, dummy⟩, ⟨.kElse, e⟩, ⟨.ob, dummy⟩]))) ++
            (toks b ++ [⟨.cb, dummy⟩]) := by
        simp [toks, hi']
      rw [this]; exact lastReal_append_of_some _ _ _ (lastReal_snoc_cb _ _ h)
  | letIn l x args q rhs n body _ ihb =>
    obtain ⟨tb, h, eb⟩ := ihb
    refine ⟨tb, ?_, by simp [span, eb]⟩
    have : toks (.letIn l x args q rhs n body) =
        (⟨.kLet, l⟩ :: ⟨.ident x.1, x.2⟩ :: (argToks args ++ ⟨.eq, q⟩ :: ⟨.ob, dummy⟩ ::
          (toks rhs ++ [⟨.cb, dummy⟩, ⟨.kIn, n⟩, ⟨.ob, dummy⟩]))) ++ (toks body ++ [⟨.cb, dummy⟩]) := by
      simp [toks]
    rw [this]; exact lastReal_append_of_some _ _ _ (lastReal_snoc_cb _ _ h)

/-- The span the parser reports for a node is exactly the extent of the node's printed tokens
    (hidden block tokens excluded). -/
theorem spans_delimit (c : C) : extent (toks c) = some (span c) := by
  obtain ⟨a, ha, ea⟩ := first_toks c
  obtain ⟨b, hb, eb⟩ := last_toks c
  simp [extent, ha, hb, ea, eb]

/-! ### Operator chains -/
open GluonModel.Infix in
def chainToks (arg : Nat → C) : List (Op × Nat) → List Tok
  | [] => []
  | (o, a) :: rest => ⟨.op o.name, dummy⟩ :: (toks (arg a) ++ chainToks arg rest)

open GluonModel.Infix in
theorem toks_ofChain (arg : Nat → C) (f : Nat) (rest : List (Op × Nat)) :
    toks (ofChain arg f rest) = toks (arg f) ++ chainToks arg rest := by
  induction rest generalizing f with
  | nil => simp [ofChain, chainToks]
  | cons p rest ih => obtain ⟨o, a⟩ := p; simp [ofChain, chainToks, toks, ih]

open GluonModel.Infix in
theorem chainToks_append (arg : Nat → C) (xs ys : List (Op × Nat)) :
    chainToks arg (xs ++ ys) = chainToks arg xs ++ chainToks arg ys := by
  induction xs with
  | nil => simp [chainToks]
  | cons p xs ih => obtain ⟨o, a⟩ := p; simp [chainToks, ih]

open GluonModel.Infix in
theorem toks_ofTree (arg : Nat → C) (t : Tree) :
    toks (ofTree arg t) = toks (arg (flatten t).1) ++ chainToks arg (flatten t).2 := by
  induction t with
  | leaf a => simp [ofTree, flatten, chainToks]
  | node l o r ihl ihr => simp [ofTree, flatten, toks, ihl, ihr, chainToks_append, chainToks]

open GluonModel.Infix in
theorem legal_ofChain (arg : Nat → C) (harg : ∀ a, Legal (arg a) ∧ lvl (arg a) ≤ 1) (f : Nat)
    (rest : List (Op × Nat)) : Legal (ofChain arg f rest) ∧ lvl (ofChain arg f rest) ≤ 2 := by
  induction rest generalizing f with
  | nil => exact ⟨(harg f).1, by have := (harg f).2; simp only [ofChain]; omega⟩
  | cons p rest ih =>
    obtain ⟨o, a⟩ := p
    exact ⟨by simp only [ofChain, Legal]; exact ⟨(harg f).1, (ih a).1, (harg f).2, (ih a).2⟩,
      by simp [ofChain, lvl]⟩

end GluonModel.ExprGrammar.Proofs
