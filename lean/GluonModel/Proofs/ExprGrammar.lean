/-
Lemmas for C08's first clause: the grammar model parses what the explicit-style printer prints.
-/
import GluonModel.ExprGrammar

namespace GluonModel.ExprGrammar.Proofs
open GluonModel.ExprGrammar

/-! ### The productions as inference rules about the parser functions -/

def noOp : List Tok → Bool
  | ⟨.op _, _⟩ :: _ => false
  | _ => true

def noComma : List Tok → Bool
  | ⟨.comma, _⟩ :: _ => false
  | _ => true

def noRp : List Tok → Bool
  | ⟨.rp, _⟩ :: _ => false
  | _ => true

def noIdent : List Tok → Bool
  | ⟨.ident _, _⟩ :: _ => false
  | _ => true

theorem r_ident (f n sp r) : pAtomic (f + 1) (⟨.ident n, sp⟩ :: r) = some (.ident n sp, r) := by
  simp [pAtomic]
theorem r_int (f n sp r) : pAtomic (f + 1) (⟨.int n, sp⟩ :: r) = some (.int n sp, r) := by
  simp [pAtomic]
theorem r_str (f n sp r) : pAtomic (f + 1) (⟨.str n, sp⟩ :: r) = some (.str n sp, r) := by
  simp [pAtomic]
theorem r_unit (f l rr r) : pAtomic (f + 1) (⟨.lp, l⟩ :: ⟨.rp, rr⟩ :: r) = some (.unit l rr, r) := by
  simp [pAtomic]

theorem r_paren (f l r b rr r') (h0 : noRp r = true)
    (h : pBody f r = some (b, ⟨.rp, rr⟩ :: r')) :
    pAtomic (f + 1) (⟨.lp, l⟩ :: r) = some (.paren l b rr, r') := by
  match r, h0 with
  | [], _ => simp [pAtomic, h]
  | ⟨t, s⟩ :: r1, h0 =>
    cases t <;> simp [noRp] at h0 <;> simp [pAtomic, h]

theorem r_body_one (f ts a r) (h : pExpr f ts = some (a, r)) (hc : noComma r = true) :
    pBody (f + 1) ts = some (a, r) := by
  match r, hc with
  | [], _ => simp [pBody, h]
  | ⟨t, s⟩ :: r1, hc => cases t <;> simp [noComma] at hc <;> simp [pBody, h]

theorem r_body_comma (f ts a c r b r') (h : pExpr f ts = some (a, ⟨.comma, c⟩ :: r))
    (h2 : pBody f r = some (b, r')) :
    pBody (f + 1) ts = some (.comma a c b, r') := by
  simp [pBody, h, h2]

theorem r_args_stop (f acc ts) (h : startsAtomic ts = false) :
    pArgs (f + 1) acc ts = some (acc, ts) := by
  simp [pArgs, h]

theorem r_args_step (f acc ts a r) (h : startsAtomic ts = true)
    (h2 : pAtomic f ts = some (a, r)) :
    pArgs (f + 1) acc ts = pArgs f (.app acc a) r := by
  simp [pArgs, h, h2]

theorem r_app (f ts a r) (h : pAtomic f ts = some (a, r)) :
    pApp (f + 1) ts = pArgs f a r := by
  simp [pApp, h]

theorem r_lam (f bs r a as ar r2 b r3) (h : takeArgs r = (a :: as, ⟨.arrow, ar⟩ :: r2))
    (h2 : pExpr f r2 = some (b, r3)) :
    pInfix (f + 1) (⟨.lam, bs⟩ :: r) = some (.lam bs (a :: as) ar b, r3) := by
  simp [pInfix, h, h2]

theorem r_infix_op (f ts l o os r rhs r') (h0 : startsAtomic ts = true)
    (h : pApp f ts = some (l, ⟨.op o, os⟩ :: r)) (h2 : pInfix f r = some (rhs, r')) :
    pInfix (f + 1) ts = some (.binop l o os rhs, r') := by
  match ts, h0 with
  | ⟨.ident _, _⟩ :: _, _ => simp [pInfix, h, h2]
  | ⟨.int _, _⟩ :: _, _ => simp [pInfix, h, h2]
  | ⟨.str _, _⟩ :: _, _ => simp [pInfix, h, h2]
  | ⟨.lp, _⟩ :: _, _ => simp [pInfix, h, h2]

theorem r_infix_app (f ts l r) (h0 : startsAtomic ts = true)
    (h : pApp f ts = some (l, r)) (hn : noOp r = true) :
    pInfix (f + 1) ts = some (l, r) := by
  have key : (match (some (l, r) : Option (C × List Tok)) with
      | some (l, ⟨.op o, os⟩ :: r) =>
        match pInfix f r with
        | some (rhs, r') => some (C.binop l o os rhs, r')
        | none => none
      | res => res) = some (l, r) := by
    match r, hn with
    | [], _ => rfl
    | ⟨t, s⟩ :: r1, hn => cases t <;> simp [noOp] at hn <;> rfl
  match ts, h0 with
  | ⟨.ident _, _⟩ :: _, _ => simp only [pInfix, h]; exact key
  | ⟨.int _, _⟩ :: _, _ => simp only [pInfix, h]; exact key
  | ⟨.str _, _⟩ :: _, _ => simp only [pInfix, h]; exact key
  | ⟨.lp, _⟩ :: _, _ => simp only [pInfix, h]; exact key

theorem r_if (f i r c t r1 a e r2 b r3) (h1 : pExpr f r = some (c, ⟨.kThen, t⟩ :: r1))
    (h2 : pExpr f r1 = some (a, ⟨.kElse, e⟩ :: r2)) (h3 : pExpr f r2 = some (b, r3)) :
    pExpr (f + 1) (⟨.kIf, i⟩ :: r) = some (.ite i c t a e b, r3) := by
  simp [pExpr, h1, h2, h3]

theorem r_let (f l x xs r args q r2 rhs n r3 body r4)
    (h0 : takeArgs r = (args, ⟨.eq, q⟩ :: r2))
    (h1 : pExpr f r2 = some (rhs, ⟨.kIn, n⟩ :: r3)) (h2 : pExpr f r3 = some (body, r4)) :
    pExpr (f + 1) (⟨.kLet, l⟩ :: ⟨.ident x, xs⟩ :: r) = some (.letIn l (x, xs) args q rhs n body, r4) := by
  simp [pExpr, h0, h1, h2]

theorem r_block (f s0 r e s r') (h : pExpr f r = some (e, ⟨.cb, s⟩ :: r')) :
    pExpr (f + 1) (⟨.ob, s0⟩ :: r) = some (e, r') := by
  simp [pExpr, h]

theorem r_expr_atom (f : Nat) (ts : List Tok) (h : startsAtomic ts = true) :
    pExpr (f + 1) ts = pInfix f ts := by
  match ts, h with
  | ⟨.ident _, _⟩ :: _, _ => simp [pExpr]
  | ⟨.int _, _⟩ :: _, _ => simp [pExpr]
  | ⟨.str _, _⟩ :: _, _ => simp [pExpr]
  | ⟨.lp, _⟩ :: _, _ => simp [pExpr]

theorem r_expr_lam (f : Nat) (bs : Span) (r : List Tok) :
    pExpr (f + 1) (⟨.lam, bs⟩ :: r) = pInfix f (⟨.lam, bs⟩ :: r) := by
  simp [pExpr]

theorem takeArgs_argToks (args : List Arg) (r : List Tok) (h : noIdent r = true) :
    takeArgs (argToks args ++ r) = (args, r) := by
  induction args with
  | nil =>
    match r, h with
    | [], _ => simp [argToks, takeArgs]
    | ⟨t, s⟩ :: r1, h => cases t <;> simp [noIdent] at h <;> simp [argToks, takeArgs]
  | cons a as ih =>
    obtain ⟨x, sp⟩ := a
    simp [argToks, takeArgs, ih]

/-! ### First tokens of a printed tree -/

theorem startsAtomic_toks (c : C) (rest : List Tok) (hl : Legal c) (h : lvl c ≤ 1) :
    startsAtomic (toks c ++ rest) = true := by
  induction c generalizing rest with
  | ident | int | str | unit | paren => simp [toks, startsAtomic]
  | app f a ihf _ =>
    simp only [Legal] at hl
    simp only [toks, List.append_assoc]
    exact ihf _ hl.1 hl.2.2.1
  | comma | binop | lam | ite | letIn => simp [lvl] at h

theorem noRp_toks (c : C) (rest : List Tok) (hl : Legal c) : noRp (toks c ++ rest) = true := by
  induction c generalizing rest with
  | ident | int | str | unit | paren | lam | ite | letIn => simp [toks, noRp]
  | app f a ihf _ =>
    simp only [Legal] at hl
    simp only [toks, List.append_assoc]
    exact ihf _ hl.1
  | comma a _ b iha _ =>
    simp only [Legal] at hl
    simp only [toks, List.append_assoc]
    exact iha _ hl.1
  | binop l _ _ r ihl _ =>
    simp only [Legal] at hl
    simp only [toks, List.append_assoc]
    exact ihl _ hl.1

theorem size_pos (c : C) : 1 ≤ size c := by
  cases c <;> simp [size]

/-! ### The parser inverts the printer: one claim per grammar level -/

def A (c : C) : Prop := lvl c = 0 → ∀ f rest, 10 * size c ≤ f + 8 →
  pAtomic f (toks c ++ rest) = some (c, rest)
def B (c : C) : Prop := lvl c ≤ 1 → ∀ f rest, 10 * size c ≤ f + 7 →
  ∃ g, f ≤ g + size c ∧ pApp f (toks c ++ rest) = pArgs g c rest
def C1 (c : C) : Prop := lvl c ≤ 1 → ∀ f rest, 10 * size c ≤ f + 7 → startsAtomic rest = false →
  pApp f (toks c ++ rest) = some (c, rest)
def C2 (c : C) : Prop := lvl c ≤ 2 → ∀ f rest, 10 * size c ≤ f + 6 → startsAtomic rest = false →
  noOp rest = true → pInfix f (toks c ++ rest) = some (c, rest)
def C3 (c : C) : Prop := lvl c ≤ 3 → ∀ f rest, 10 * size c ≤ f + 5 → startsAtomic rest = false →
  noOp rest = true → pExpr f (toks c ++ rest) = some (c, rest)
def C4 (c : C) : Prop := ∀ f rest, 10 * size c ≤ f + 4 → startsAtomic rest = false →
  noOp rest = true → noComma rest = true → pBody f (toks c ++ rest) = some (c, rest)

structure All (c : C) : Prop where
  a : A c
  b : B c
  c1 : C1 c
  c2 : C2 c
  c3 : C3 c
  c4 : C4 c

abbrev IH (c : C) : Prop := ∀ c', size c' < size c → Legal c' → All c'

theorem a_of (c : C) (ih : IH c) (hl : Legal c) : A c := by
  intro h0 f rest hf
  obtain ⟨f, rfl⟩ : ∃ f', f = f' + 1 := ⟨f - 1, by have := size_pos c; omega⟩
  cases c with
  | ident n sp => simp [toks, r_ident]
  | int n sp => simp [toks, r_int]
  | str n sp => simp [toks, r_str]
  | unit l r => simp [toks, r_unit]
  | paren l b r =>
    simp only [Legal] at hl
    simp only [toks, List.cons_append, List.append_assoc]
    apply r_paren
    · exact noRp_toks b _ hl
    · have := (ih b (by simp [size]) hl).c4
      simp only [size] at hf
      exact this f _ (by omega) (by simp [startsAtomic]) (by simp [noOp]) (by simp [noComma])
  | comma | app | binop | lam | ite | letIn => simp [lvl] at h0

theorem b_of (c : C) (ih : IH c) (hl : Legal c) (ha : A c) : B c := by
  intro h1 f rest hf
  cases c with
  | app c' a =>
    simp only [Legal] at hl
    simp only [size] at hf
    obtain ⟨g', hg', e⟩ := (ih c' (by simp [size]; omega) hl.1).b hl.2.2.1 f (toks a ++ rest) (by omega)
    obtain ⟨g, rfl⟩ : ∃ g, g' = g + 1 := ⟨g' - 1, by have := size_pos a; omega⟩
    refine ⟨g, by simp only [size]; omega, ?_⟩
    simp only [toks, List.append_assoc, e]
    apply r_args_step
    · exact startsAtomic_toks a rest hl.2.1 (by omega)
    · exact (ih a (by simp [size]; omega) hl.2.1).a hl.2.2.2 g rest (by omega)
  | comma | binop | lam | ite | letIn => simp [lvl] at h1
  | ident | int | str | unit | paren =>
    obtain ⟨f, rfl⟩ : ∃ f', f = f' + 1 := ⟨f - 1, by omega⟩
    refine ⟨f, by have := size_pos ‹C›; first | omega | (simp [size]; omega), ?_⟩
    exact r_app _ _ _ _ (ha (by simp [lvl]) f rest (by omega))

theorem c1_of (c : C) (hb : B c) : C1 c := by
  intro h1 f rest hf hs
  obtain ⟨g, hg, e⟩ := hb h1 f rest hf
  obtain ⟨g, rfl⟩ : ∃ g', g = g' + 1 := ⟨g - 1, by have := size_pos c; omega⟩
  rw [e]
  exact r_args_stop _ _ _ hs

end GluonModel.ExprGrammar.Proofs
