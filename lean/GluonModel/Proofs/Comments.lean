/-
Lemmas and proofs about the comment iterator model `GluonModel.Comments`.
-/
import GluonModel.Comments

namespace GluonModel.Proofs.Comments
open GluonModel.Comments

/-- Every character is Unicode whitespace. -/
def AllWs (l : List Char) : Prop := ∀ c ∈ l, isWs c = true

instance (l : List Char) : Decidable (AllWs l) := by unfold AllWs; infer_instance

theorem AllWs.nil : AllWs [] := by intro c h; cases h

theorem AllWs.append {a b : List Char} (ha : AllWs a) (hb : AllWs b) : AllWs (a ++ b) := by
  intro c h
  rcases List.mem_append.mp h with h | h
  · exact ha c h
  · exact hb c h

theorem wsNoNl_isWs {c : Char} (h : wsNoNl c = true) : isWs c = true := by
  simp [wsNoNl] at h; exact h.1

theorem allWs_of_wsNoNl {l : List Char} (h : ∀ c ∈ l, wsNoNl c = true) : AllWs l :=
  fun c hc => wsNoNl_isWs (h c hc)

theorem isWs_nl : isWs '\n' = true := by decide
theorem isWs_cr : isWs '\r' = true := by decide

/-! ### decompositions of the trimming functions -/

theorem mem_takeWhile_imp (p : Char → Bool) (l : List Char) : ∀ c ∈ l.takeWhile p, p c = true := by
  induction l with
  | nil => intro c h; cases h
  | cons a t ih =>
    intro c h
    simp only [List.takeWhile_cons] at h
    split at h
    · rcases List.mem_cons.mp h with rfl | h
      · assumption
      · exact ih c h
    · cases h

theorem dropWhile_decomp (p : Char → Bool) (l : List Char) :
    ∃ pre, (∀ c ∈ pre, p c = true) ∧ l = pre ++ l.dropWhile p :=
  ⟨l.takeWhile p, fun c hc => mem_takeWhile_imp p l c hc, (List.takeWhile_append_dropWhile).symm⟩

theorem trimEnd_decomp (p : Char → Bool) (l : List Char) :
    ∃ post, (∀ c ∈ post, p c = true) ∧ l = trimEnd p l ++ post := by
  refine ⟨(l.reverse.takeWhile p).reverse, ?_, ?_⟩
  · intro c hc
    exact mem_takeWhile_imp p _ c (List.mem_reverse.mp hc)
  · unfold trimEnd
    rw [← List.reverse_append, List.takeWhile_append_dropWhile, List.reverse_reverse]

theorem trimBoth_decomp (p : Char → Bool) (l : List Char) :
    ∃ pre post, (∀ c ∈ pre, p c = true) ∧ (∀ c ∈ post, p c = true) ∧
      l = pre ++ trimBoth p l ++ post := by
  obtain ⟨pre, hpre, e1⟩ := dropWhile_decomp p l
  obtain ⟨post, hpost, e2⟩ := trimEnd_decomp p (l.dropWhile p)
  refine ⟨pre, post, hpre, hpost, ?_⟩
  unfold trimBoth
  rw [List.append_assoc, ← e2, ← e1]

theorem trimEnd_length_le (p : Char → Bool) (l : List Char) : (trimEnd p l).length ≤ l.length := by
  obtain ⟨post, _, e⟩ := trimEnd_decomp p l
  have := congrArg List.length e
  simp at this; omega

theorem trimBoth_length_le (p : Char → Bool) (l : List Char) : (trimBoth p l).length ≤ l.length := by
  obtain ⟨pre, post, _, _, e⟩ := trimBoth_decomp p l
  have := congrArg List.length e
  simp at this; omega

/-! ### `startsWith` / `endsWith` -/

theorem startsWith_iff {pre l : List Char} : startsWith pre l = true ↔ ∃ t, l = pre ++ t := by
  unfold startsWith
  rw [List.isPrefixOf_iff_prefix]
  constructor
  · rintro ⟨t, rfl⟩; exact ⟨t, rfl⟩
  · rintro ⟨t, rfl⟩; exact ⟨t, rfl⟩

theorem endsWith_iff {suf l : List Char} : endsWith suf l = true ↔ ∃ t, l = t ++ suf := by
  unfold endsWith
  rw [List.isPrefixOf_iff_prefix]
  constructor
  · rintro ⟨t, h⟩
    refine ⟨t.reverse, ?_⟩
    have := congrArg List.reverse h
    simp at this
    exact this.symm
  · rintro ⟨t, rfl⟩
    exact ⟨t.reverse, by simp⟩

/-! ### `lines().next()` -/

theorem dropWhile_head_false (p : Char → Bool) (l : List Char) (c : Char) (t : List Char)
    (h : l.dropWhile p = c :: t) : p c = false := by
  induction l with
  | nil => simp at h
  | cons a l ih =>
    simp only [List.dropWhile_cons] at h
    split at h
    · exact ih h
    · injection h with h1 _
      subst h1
      simpa using ‹¬ p a = true›

theorem stripCr_decomp (a : List Char) : a = stripCr a ∨ a = stripCr a ++ ['\r'] := by
  unfold stripCr
  split
  · rename_i h
    obtain ⟨t, rfl⟩ := endsWith_iff.mp h
    right; simp
  · left; rfl

/-- `firstLine?` of a non-empty string: a prefix, followed by nothing, `\n…` or `\r\n…`. -/
theorem firstLine_spec (s : List Char) (hs : s ≠ []) :
    ∃ cl r, firstLine? s = some cl ∧ s = cl ++ r ∧
      (r = [] ∨ (∃ r', r = '\n' :: r') ∨ (∃ r', r = '\r' :: '\n' :: r')) := by
  unfold firstLine?
  have hne : s.isEmpty = false := by cases s <;> simp_all
  simp only [hne, Bool.false_eq_true, if_false]
  have e := (List.takeWhile_append_dropWhile (p := (· != '\n')) (l := s))
  split
  · rename_i hlt
    cases hd : s.dropWhile (· != '\n') with
    | nil =>
      rw [hd, List.append_nil] at e
      rw [e] at hlt; omega
    | cons c t =>
      have hc := dropWhile_head_false _ _ _ _ hd
      have hc' : c = '\n' := by simpa using hc
      subst hc'
      rw [hd] at e
      rcases stripCr_decomp (s.takeWhile (· != '\n')) with h | h
      · refine ⟨_, '\n' :: t, rfl, ?_, Or.inr (Or.inl ⟨t, rfl⟩)⟩
        rw [← h]; exact e.symm
      · refine ⟨_, '\r' :: '\n' :: t, rfl, ?_, Or.inr (Or.inr ⟨t, rfl⟩)⟩
        conv => lhs; rw [← e, h]
        simp
  · rename_i hge
    refine ⟨_, s.dropWhile (· != '\n'), rfl, e.symm, ?_⟩
    have hl := congrArg List.length e
    rw [List.length_append] at hl
    left
    have : (s.dropWhile (· != '\n')).length = 0 := by omega
    exact List.length_eq_zero_iff.mp this

/-! ### `find` / `rfind` -/

theorem findSub_spec (pat : List Char) (s : List Char) (i : Nat) (h : findSub pat s = some i) :
    ∃ a b, s = a ++ pat ++ b ∧ a.length = i := by
  induction s generalizing i with
  | nil =>
    simp only [findSub] at h
    split at h
    · rename_i hp
      have : pat = [] := by simpa using hp
      subst this
      injection h with h; subst h
      exact ⟨[], [], rfl, rfl⟩
    · cases h
  | cons c cs ih =>
    simp only [findSub] at h
    split at h
    · rename_i hp
      injection h with h; subst h
      obtain ⟨t, ht⟩ := startsWith_iff.mp hp
      exact ⟨[], t, by simpa using ht, rfl⟩
    · cases hf : findSub pat cs with
      | none => rw [hf] at h; cases h
      | some j =>
        rw [hf] at h
        simp at h
        subst h
        obtain ⟨a, b, e, hl⟩ := ih j hf
        exact ⟨c :: a, b, by simp [e], by simp [hl]⟩

theorem rfindSub_spec (pat : List Char) (s : List Char) (i : Nat) (h : rfindSub pat s = some i) :
    ∃ a b, s = a ++ pat ++ b ∧ a.length = i := by
  induction s generalizing i with
  | nil =>
    simp only [rfindSub] at h
    split at h
    · rename_i hp
      have : pat = [] := by simpa using hp
      subst this
      injection h with h; subst h
      exact ⟨[], [], rfl, rfl⟩
    · cases h
  | cons c cs ih =>
    simp only [rfindSub] at h
    cases hf : rfindSub pat cs with
    | some j =>
      rw [hf] at h
      simp at h
      subst h
      obtain ⟨a, b, e, hl⟩ := ih j hf
      exact ⟨c :: a, b, by simp [e], by simp [hl]⟩
    | none =>
      rw [hf] at h
      simp only at h
      split at h
      · rename_i hp
        injection h with h; subst h
        obtain ⟨t, ht⟩ := startsWith_iff.mp hp
        exact ⟨[], t, by simpa using ht, rfl⟩
      · cases h

/-! ### one call of `next` -/

/-- What one call of `next` does, for every input: it never panics; when it returns `None`
    the new `self.src` is the old one minus whitespace at both ends; when it returns
    `Some(item)`, the old `self.src` is `pre ++ item ++ sep ++ rest ++ post` with `pre`, `sep`,
    `post` whitespace only, and something was consumed. -/
def NextSpec (src : List Char) : R → Prop
  | .panic => False
  | .stop r => ∃ pre post, AllWs pre ∧ AllWs post ∧ src = pre ++ r ++ post
  | .yield it r => ∃ pre sep post, AllWs pre ∧ AllWs sep ∧ AllWs post ∧
      src = pre ++ it ++ sep ++ r ++ post ∧ 0 < it.length + sep.length

theorem allWs_nl : AllWs ['\n'] := by
  intro c h; simp at h; subst h; exact isWs_nl
theorem allWs_crnl : AllWs ['\r', '\n'] := by
  intro c h; simp at h; rcases h with rfl | rfl
  · exact isWs_cr
  · exact isWs_nl

theorem next_spec (src : List Char) : NextSpec src (next src) := by
  unfold next
  split
  · -- empty
    exact ⟨[], [], AllWs.nil, AllWs.nil, by simp⟩
  · obtain ⟨pre, post, hpre, hpost, e⟩ := trimBoth_decomp wsNoNl src
    have wpre := allWs_of_wsNoNl hpre
    have wpost := allWs_of_wsNoNl hpost
    generalize trimBoth wsNoNl src = s at e
    simp only
    split
    · -- line comment
      rename_i hlc
      have hs : s ≠ [] := by
        intro h; subst h; simp [isLineComment, startsWith] at hlc
      obtain ⟨cl, r, hfl, hsr, hr⟩ := firstLine_spec s hs
      have hclne : 0 < cl.length := by
        -- `s` starts with "//" and `cl` stops only at a newline
        have h2 : startsWith ['/', '/'] s = true := by
          simp [isLineComment] at hlc; exact hlc.1
        obtain ⟨t, ht⟩ := startsWith_iff.mp h2
        cases cl with
        | nil =>
          exfalso
          simp at hsr
          subst hsr
          rcases hr with h | ⟨r', h⟩ | ⟨r', h⟩ <;> rw [h] at ht <;> simp at ht
        | cons _ _ => simp
      rw [hfl]
      simp only
      have hsl : sliceFrom cl.length s = some r := by
        unfold sliceFrom
        rw [hsr]; simp
      rw [hsl]
      simp only
      rcases hr with h | ⟨r', h⟩ | ⟨r', h⟩
      · subst h
        simp [startsWith]
        exact ⟨pre, [], post, wpre, AllWs.nil, wpost, by rw [e, hsr]; simp, by simpa using hclne⟩
      · subst h
        simp [startsWith, sliceFrom]
        exact ⟨pre, ['\n'], post, wpre, allWs_nl, wpost, by rw [e, hsr]; simp, by simp⟩
      · subst h
        simp [startsWith, sliceFrom]
        exact ⟨pre, ['\r', '\n'], post, wpre, allWs_crnl, wpost, by rw [e, hsr]; simp, by simp⟩
    · split
      · -- block comment
        cases hf : findSub ['*', '/'] s with
        | none =>
          simp only
          exact ⟨pre, post, wpre, wpost, e⟩
        | some i =>
          simp only
          obtain ⟨a, b, hab, hl⟩ := findSub_spec _ _ _ hf
          have hlen : i + 2 ≤ s.length := by rw [hab]; simp; omega
          simp only [sliceTo, sliceFrom, hlen, if_true]
          refine ⟨pre, [], post, wpre, AllWs.nil, wpost, ?_, by simp; omega⟩
          rw [e]; simp
      · split
        · -- blank line
          rename_i hnl
          obtain ⟨t, ht⟩ := startsWith_iff.mp hnl
          subst ht
          simp [sliceFrom]
          exact ⟨pre, ['\n'], post, wpre, allWs_nl, wpost, by rw [e]; simp, by simp⟩
        · exact ⟨pre, post, wpre, wpost, e⟩

/-! ### one call of `next_back` -/

theorem byteLen_append (a b : List Char) : byteLen (a ++ b) = byteLen a + byteLen b := by
  induction a with
  | nil => simp [byteLen]
  | cons c a ih => simp [byteLen, ih]; omega

theorem takeBytes_zero (l : List Char) : takeBytes l 0 = some [] := by
  cases l <;> rfl

/-- Cutting at the byte length of a prefix is on a char boundary and in range. -/
theorem takeBytes_prefix (a b : List Char) : takeBytes (a ++ b) (byteLen a) = some a := by
  induction a with
  | nil => simp [byteLen, takeBytes_zero]
  | cons c a ih =>
    have hpos : 0 < c.utf8Size := Char.utf8Size_pos c
    obtain ⟨k, hk⟩ : ∃ k, byteLen (c :: a) = k + 1 := ⟨c.utf8Size + byteLen a - 1, by simp [byteLen]; omega⟩
    rw [hk]
    simp only [List.cons_append, takeBytes]
    have h1 : c.utf8Size ≤ k + 1 := by simp [byteLen] at hk; omega
    have h2 : k + 1 - c.utf8Size = byteLen a := by simp [byteLen] at hk; omega
    simp [h1, h2, ih]

theorem afterLastNl_decomp (s : List Char) : ∃ p, s = p ++ afterLastNl s := by
  refine ⟨(s.reverse.dropWhile (· != '\n')).reverse, ?_⟩
  unfold afterLastNl
  rw [← List.reverse_append, List.takeWhile_append_dropWhile, List.reverse_reverse]

def BackSpec (src : List Char) : R → Prop
  | .panic => False
  | .stop r => ∃ post, AllWs post ∧ src = r ++ post
  | .yield it r => ∃ sep post, AllWs sep ∧ AllWs post ∧
      src = r ++ sep ++ it ++ post ∧ 0 < it.length + post.length

theorem nextBack_spec (src : List Char) : BackSpec src (nextBack src) := by
  unfold nextBack
  split
  · exact ⟨[], AllWs.nil, by simp⟩
  · obtain ⟨post, hpost, e⟩ := trimEnd_decomp wsNoNl src
    have wpost := allWs_of_wsNoNl hpost
    generalize trimEnd wsNoNl src = s at e
    simp only
    split
    · -- ends with a newline
      rename_i hnl
      -- the newline and what is before it
      have hsplit : ∃ wn nl, s = wn ++ nl ∧ AllWs nl ∧ 0 < nl.length ∧
          (if endsWith ['\r', '\n'] s then 2 else 1) = nl.length := by
        by_cases h2 : endsWith ['\r', '\n'] s = true
        · obtain ⟨t, ht⟩ := endsWith_iff.mp h2
          exact ⟨t, ['\r', '\n'], ht, allWs_crnl, by simp, by simp [h2]⟩
        · obtain ⟨t, ht⟩ := endsWith_iff.mp hnl
          exact ⟨t, ['\n'], ht, allWs_nl, by simp, by simp [h2]⟩
      obtain ⟨wn, nl, hs, wnl, hnlpos, hnlen⟩ := hsplit
      rw [hnlen]
      have hsub : checkedSub s.length nl.length = some wn.length := by
        unfold checkedSub; rw [hs]; simp
      rw [hsub]
      simp only
      have hto : sliceTo wn.length s = some wn := by
        unfold sliceTo; rw [hs]; simp
      rw [hto]
      simp only
      split
      · -- nothing before the newline: `None`
        exact ⟨post, wpost, e⟩
      · split
        · -- a line comment
          obtain ⟨p1, hp1⟩ := afterLastNl_decomp wn
          obtain ⟨ws, _, hws⟩ := dropWhile_decomp isWs (afterLastNl wn)
          generalize (afterLastNl wn).dropWhile isWs = trimmed at hws
          have hwn : wn = (p1 ++ ws) ++ trimmed := by
            conv => lhs; rw [hp1, hws]
            simp
          have hbl : byteLen wn = byteLen (p1 ++ ws) + byteLen trimmed := by
            conv => lhs; rw [hwn]
            exact byteLen_append _ _
          have hcs : checkedSub (byteLen wn) (byteLen trimmed) = some (byteLen (p1 ++ ws)) := by
            unfold checkedSub; rw [hbl]; simp
          rw [hcs]
          simp only
          have htb : takeBytes wn (byteLen (p1 ++ ws)) = some (p1 ++ ws) := by
            conv => lhs; rw [hwn]
            exact takeBytes_prefix _ _
          rw [htb]
          simp only
          obtain ⟨ws2, hws2, e2⟩ := trimEnd_decomp wsNoNl (p1 ++ ws)
          refine ⟨ws2, nl ++ post, allWs_of_wsNoNl hws2, AllWs.append wnl wpost, ?_, by simp; omega⟩
          rw [e, hs, hwn]
          conv => lhs; rw [e2]
          simp
        · -- a blank (or code) line: the newline alone is consumed
          exact ⟨[], nl ++ post, AllWs.nil, AllWs.append wnl wpost, by rw [e, hs]; simp, by simp; omega⟩
    · split
      · -- block comment
        cases hf : rfindSub ['/', '*'] s with
        | none => exact ⟨post, wpost, e⟩
        | some i =>
          simp only
          obtain ⟨a, b, hab, hl⟩ := rfindSub_spec _ _ _ hf
          have hlen : i ≤ s.length := by rw [hab]; simp; omega
          simp only [sliceTo, sliceFrom, hlen, if_true]
          refine ⟨[], post, AllWs.nil, wpost, ?_, ?_⟩
          · rw [e]; simp
          · have : (List.drop i s).length = s.length - i := by simp
            have h3 : i + 2 ≤ s.length := by rw [hab]; simp; omega
            omega
      · exact ⟨post, wpost, e⟩

/-! ### shape of the yielded items -/

/-- An item is a blank-line marker, a `//` (not `///`) comment without a newline, or a
    `/* … */` comment. -/
def ItemShape (it : List Char) : Prop :=
  it = [] ∨ (isLineComment it = true ∧ '\n' ∉ it) ∨
    (startsWith ['/', '*'] it = true ∧ endsWith ['*', '/'] it = true)

theorem mem_dropLast {c : Char} {l : List Char} (h : c ∈ l.dropLast) : c ∈ l :=
  List.mem_of_mem_take (by rw [List.dropLast_eq_take] at h; exact h)

theorem firstLine_no_nl (s cl : List Char) (h : firstLine? s = some cl) : '\n' ∉ cl := by
  unfold firstLine? at h
  have key : '\n' ∉ s.takeWhile (· != '\n') := by
    intro hm
    have := mem_takeWhile_imp (· != '\n') s _ hm
    simp at this
  split at h
  · cases h
  · simp only at h
    split at h
    · injection h with h; subst h
      unfold stripCr
      split
      · intro hm; exact key (mem_dropLast hm)
      · exact key
    · injection h with h; subst h; exact key

theorem next_item_shape (src it r : List Char) (h : next src = .yield it r) : ItemShape it := by
  unfold next at h
  split at h
  · cases h
  · generalize trimBoth wsNoNl src = s at h
    simp only at h
    split at h
    · rename_i hlc
      have hs : s ≠ [] := by
        intro h'; subst h'; simp [isLineComment, startsWith] at hlc
      obtain ⟨cl, r0, hfl, hsr, hr⟩ := firstLine_spec s hs
      have hnn := firstLine_no_nl s cl hfl
      rw [hfl] at h
      simp only at h
      have hcl : it = cl := by
        split at h
        · cases h
        · split at h
          · split at h
            · cases h
            · injection h with h1 _; exact h1.symm
          · split at h
            · split at h
              · cases h
              · injection h with h1 _; exact h1.symm
            · injection h with h1 _; exact h1.symm
      subst hcl
      right; left
      refine ⟨?_, hnn⟩
      -- `it` is a prefix of `s` that ends at a line end; `s` starts with "//" but not "///"
      have h2 : startsWith ['/', '/'] s = true ∧ startsWith ['/', '/', '/'] s = false := by
        simp [isLineComment] at hlc; exact hlc
      obtain ⟨t, ht⟩ := startsWith_iff.mp h2.1
      match it, hsr, hnn with
      | [], hsr, _ =>
        simp at hsr; subst hsr
        rcases hr with h' | ⟨r', h'⟩ | ⟨r', h'⟩ <;> rw [h'] at ht <;> simp at ht
      | [c], hsr, _ =>
        rw [ht] at hsr
        simp at hsr
        obtain ⟨_, h3⟩ := hsr
        rcases hr with h' | ⟨r', h'⟩ | ⟨r', h'⟩ <;> rw [h'] at h3 <;> simp at h3
      | c1 :: c2 :: rest, hsr, _ =>
        rw [ht] at hsr
        simp at hsr
        obtain ⟨e1, e2, e3⟩ := hsr
        subst e1 e2
        simp only [isLineComment, Bool.and_eq_true, Bool.not_eq_true']
        refine ⟨startsWith_iff.mpr ⟨rest, rfl⟩, ?_⟩
        cases hrest : startsWith ['/', '/', '/'] ('/' :: '/' :: rest) with
        | false => rfl
        | true =>
          exfalso
          obtain ⟨u, hu⟩ := startsWith_iff.mp hrest
          have : startsWith ['/', '/', '/'] s = true := by
            apply startsWith_iff.mpr
            refine ⟨u ++ r0, ?_⟩
            rw [ht, e3]
            simp at hu
            simp [hu]
          rw [this] at h2
          exact absurd h2.2 (by simp)
    · split at h
      · rename_i hbc
        cases hf : findSub ['*', '/'] s with
        | none => rw [hf] at h; cases h
        | some i =>
          rw [hf] at h
          simp only at h
          obtain ⟨a, b, hab, hl⟩ := findSub_spec _ _ _ hf
          have hlen : i + 2 ≤ s.length := by rw [hab]; simp; omega
          simp only [sliceTo, sliceFrom, hlen, if_true] at h
          injection h with h1 _
          subst h1
          right; right
          have htake : List.take (i + 2) s = a ++ ['*', '/'] := by
            rw [hab, ← hl]
            have : a ++ ['*', '/'] ++ b = (a ++ ['*', '/']) ++ b := rfl
            rw [List.take_append_of_le_length (by simp)]
            exact List.take_of_length_le (by simp)
          rw [htake]
          refine ⟨?_, endsWith_iff.mpr ⟨a, rfl⟩⟩
          obtain ⟨t, ht⟩ := startsWith_iff.mp hbc
          -- the first occurrence of "*/" in "/*…" is at index ≥ 1, so `a` is not empty
          cases a with
          | nil => rw [ht] at hab; simp at hab
          | cons a1 a' =>
            cases a' with
            | nil =>
              rw [ht] at hab; simp at hab
              obtain ⟨e1, e2, _⟩ := hab
              subst e1
              apply startsWith_iff.mpr
              exact ⟨['/'], by simp⟩
            | cons a2 a'' =>
              rw [ht] at hab; simp at hab
              obtain ⟨e1, e2, _⟩ := hab
              subst e1 e2
              apply startsWith_iff.mpr
              exact ⟨a'' ++ ['*', '/'], by simp⟩
      · split at h
        · split at h
          · cases h
          · injection h with h1 _
            left; exact h1.symm
        · cases h

/-! ### draining the iterator -/

theorem next_no_panic (src : List Char) : next src ≠ .panic := by
  intro h
  have := next_spec src
  rw [h] at this
  exact this

theorem nextBack_no_panic (src : List Char) : nextBack src ≠ .panic := by
  intro h
  have := nextBack_spec src
  rw [h] at this
  exact this

theorem next_shrinks {src it r : List Char} (h : next src = .yield it r) : r.length < src.length := by
  have := next_spec src
  rw [h] at this
  obtain ⟨pre, sep, post, _, _, _, e, hpos⟩ := this
  have := congrArg List.length e
  simp at this
  omega

theorem nextBack_shrinks {src it r : List Char} (h : nextBack src = .yield it r) :
    r.length < src.length := by
  have := nextBack_spec src
  rw [h] at this
  obtain ⟨sep, post, _, _, e, hpos⟩ := this
  have := congrArg List.length e
  simp at this
  omega

/-- `src` is the items in order, separated by whitespace only, followed by `fin` (where the
    iterator stopped) and whitespace that was trimmed off the far end. -/
def Recon : List Char → List (List Char) → List Char → Prop
  | src, [], fin => ∃ pre post, AllWs pre ∧ AllWs post ∧ src = pre ++ fin ++ post
  | src, it :: its, fin => ∃ pre sep mid post, AllWs pre ∧ AllWs sep ∧ AllWs post ∧
      src = pre ++ it ++ sep ++ mid ++ post ∧ Recon mid its fin

/-- The mirror image for the reverse iterator: the items (in the order yielded, i.e. last
    comment first) are found from the end of `src` towards `fin`. -/
def ReconBack : List Char → List (List Char) → List Char → Prop
  | src, [], fin => ∃ post, AllWs post ∧ src = fin ++ post
  | src, it :: its, fin => ∃ mid sep post, AllWs sep ∧ AllWs post ∧
      src = mid ++ sep ++ it ++ post ∧ ReconBack mid its fin

theorem drain_next (n : Nat) (s : List Char) (hn : s.length < n) :
    ∃ its fin, drain next n s = .done its fin ∧ Recon s its fin := by
  induction n generalizing s with
  | zero => omega
  | succ n ih =>
    simp only [drain]
    have hspec := next_spec s
    cases hnx : next s with
    | panic => rw [hnx] at hspec; exact hspec.elim
    | stop r =>
      rw [hnx] at hspec
      obtain ⟨pre, post, h1, h2, e⟩ := hspec
      exact ⟨[], r, rfl, pre, post, h1, h2, e⟩
    | yield it r =>
      rw [hnx] at hspec
      obtain ⟨pre, sep, post, h1, h2, h3, e, _⟩ := hspec
      have hlt := next_shrinks hnx
      obtain ⟨its, fin, hd, hr⟩ := ih r (by omega)
      refine ⟨it :: its, fin, ?_, pre, sep, r, post, h1, h2, h3, e, hr⟩
      simp only [hd, Run.cons]

theorem drain_nextBack (n : Nat) (s : List Char) (hn : s.length < n) :
    ∃ its fin, drain nextBack n s = .done its fin ∧ ReconBack s its fin := by
  induction n generalizing s with
  | zero => omega
  | succ n ih =>
    simp only [drain]
    have hspec := nextBack_spec s
    cases hnx : nextBack s with
    | panic => rw [hnx] at hspec; exact hspec.elim
    | stop r =>
      rw [hnx] at hspec
      obtain ⟨post, h2, e⟩ := hspec
      exact ⟨[], r, rfl, post, h2, e⟩
    | yield it r =>
      rw [hnx] at hspec
      obtain ⟨sep, post, h2, h3, e, _⟩ := hspec
      have hlt := nextBack_shrinks hnx
      obtain ⟨its, fin, hd, hr⟩ := ih r (by omega)
      refine ⟨it :: its, fin, ?_, r, sep, post, h2, h3, e, hr⟩
      simp only [hd, Run.cons]

theorem drain_next_shape (n : Nat) (s : List Char) (its : List (List Char)) (fin : List Char)
    (h : drain next n s = .done its fin) : ∀ it ∈ its, ItemShape it := by
  induction n generalizing s its fin with
  | zero => simp [drain] at h
  | succ n ih =>
    simp only [drain] at h
    cases hnx : next s with
    | panic => rw [hnx] at h; cases h
    | stop r =>
      rw [hnx] at h
      injection h with h1 _
      subst h1
      intro it hit; cases hit
    | yield it0 r =>
      rw [hnx] at h
      simp only at h
      cases hd : drain next n r with
      | panic => rw [hd] at h; cases h
      | fuel => rw [hd] at h; cases h
      | done its' fin' =>
        rw [hd] at h
        simp only [Run.cons] at h
        injection h with h1 _
        subst h1
        intro it hit
        rcases List.mem_cons.mp hit with rfl | hit
        · exact next_item_shape s _ r hnx
        · exact ih r its' fin' hd it hit

/-- The non-whitespace characters of a text, in order. -/
def nonWs (l : List Char) : List Char := l.filter (fun c => !isWs c)

theorem nonWs_append (a b : List Char) : nonWs (a ++ b) = nonWs a ++ nonWs b := by
  simp [nonWs]

theorem nonWs_allWs {a : List Char} (h : AllWs a) : nonWs a = [] := by
  simp only [nonWs, List.filter_eq_nil_iff]
  intro c hc
  simp [h c hc]

theorem Recon.nonWs {src : List Char} {its : List (List Char)} {fin : List Char}
    (h : Recon src its fin) : nonWs src = nonWs its.flatten ++ nonWs fin := by
  induction its generalizing src with
  | nil =>
    obtain ⟨pre, post, h1, h2, e⟩ := h
    subst e
    simp [nonWs_append, nonWs_allWs h1, nonWs_allWs h2]
    rfl
  | cons it its ih =>
    obtain ⟨pre, sep, mid, post, h1, h2, h3, e, hr⟩ := h
    subst e
    simp [nonWs_append, nonWs_allWs h1, nonWs_allWs h2, nonWs_allWs h3, ih hr]

theorem ReconBack.nonWs {src : List Char} {its : List (List Char)} {fin : List Char}
    (h : ReconBack src its fin) : nonWs src = nonWs fin ++ nonWs its.reverse.flatten := by
  induction its generalizing src with
  | nil =>
    obtain ⟨post, h2, e⟩ := h
    subst e
    simp [nonWs_append, nonWs_allWs h2]
    rfl
  | cons it its ih =>
    obtain ⟨mid, sep, post, h2, h3, e, hr⟩ := h
    subst e
    simp [nonWs_append, nonWs_allWs h2, nonWs_allWs h3, ih hr]

end GluonModel.Proofs.Comments
