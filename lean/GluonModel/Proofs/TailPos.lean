import GluonModel.TailPos

namespace GluonModel.TailPos.Proofs
open GluonModel.TailPos

/-- the flag the specification gives a call reached by path `p` in a body compiled with flag `t` -/
def g (t : Bool) (p : List Ctx) : Bool := t && isTailPath p

theorem map_cons_inh (t : Bool) (c : Ctx) (hc : c.inherits = true) (l : List (List Ctx)) :
    (l.map (c :: ·)).map (g t) = l.map (g t) := by
  simp [g, isTailPath, hc, Function.comp_def]

theorem map_cons_non (t : Bool) (c : Ctx) (hc : c.inherits = false) (l : List (List Ctx)) :
    (l.map (c :: ·)).map (g t) = l.map (g false) := by
  simp [g, isTailPath, hc, Function.comp_def]

mutual
theorem flags_eq (t : Bool) : ∀ e : E, flags t e = (paths e).map (g t)
  | .atom => by simp [flags, paths]
  | .letE b body => by
    simp only [flags, paths, List.map_append]
    rw [map_cons_non t _ rfl, map_cons_inh t _ rfl, flags_eq false b, flags_eq t body]
  | .letRec vs body => by
    simp only [flags, paths, List.map_append]
    rw [map_cons_inh t _ rfl, flagsAll_eq t Ctx.recVal rfl vs, flags_eq t body]
  | .call f args => by
    simp only [flags, paths, List.map_append]
    rw [map_cons_non t _ rfl, flags_eq false f, flagsAll_eq t Ctx.callArg rfl args]
    simp [g, isTailPath]
  | .ctor args => by
    simp only [flags, paths]
    rw [flagsAll_eq t Ctx.ctorArg rfl args]
  | .andE l r => by
    simp only [flags, paths, List.map_append]
    rw [map_cons_non t _ rfl, map_cons_inh t _ rfl, flags_eq false l, flags_eq t r]
  | .orE l r => by
    simp only [flags, paths, List.map_append]
    rw [map_cons_non t _ rfl, map_cons_inh t _ rfl, flags_eq false l, flags_eq t r]
  | .binE l r => by
    simp only [flags, paths, List.map_append]
    rw [map_cons_non t _ rfl, map_cons_non t _ rfl, flags_eq false l, flags_eq false r]
  | .primOther l r => by
    simp only [flags, paths, List.map_append]
    rw [map_cons_non t _ rfl, map_cons_non t _ rfl, flags_eq false l, flags_eq false r]
    simp [g, isTailPath, Ctx.inherits]
  | .matchE s alts => by
    simp only [flags, paths, List.map_append]
    rw [map_cons_non t _ rfl, flags_eq false s, altTests_eq t alts, flagsAlts_eq t alts]
  | .data xs => by
    simp only [flags, paths]
    rw [flagsAll_eq t Ctx.dataArg rfl xs]
  | .cast e => by
    simp only [flags, paths]
    rw [map_cons_inh t _ rfl, flags_eq t e]
theorem flagsAll_eq (t : Bool) (c : Ctx) (hc : c.inherits = false) :
    ∀ es : Es, flagsAll es = (pathsAll c es).map (g t)
  | .nil => by simp [flagsAll, pathsAll]
  | .cons e es => by
    simp only [flagsAll, pathsAll, List.map_append]
    rw [map_cons_non t _ hc, flags_eq false e, flagsAll_eq t c hc es]
theorem altTests_eq (t : Bool) : ∀ alts : Alts, altTests alts = (pathsTests alts).map (g t)
  | .nil => by simp [altTests, pathsTests]
  | .cons strLit e rest => by
    simp only [altTests, pathsTests, List.map_append]
    rw [altTests_eq t rest]
    cases strLit <;> simp [g, isTailPath, Ctx.inherits]
theorem flagsAlts_eq (t : Bool) : ∀ alts : Alts, flagsAlts t alts = (pathsAlts alts).map (g t)
  | .nil => by simp [flagsAlts, pathsAlts]
  | .cons _ e rest => by
    simp only [flagsAlts, pathsAlts, List.map_append]
    rw [map_cons_inh t _ rfl, flags_eq t e, flagsAlts_eq t rest]
end

theorem flags_false_all_false (e : E) : ∀ b ∈ flags false e, b = false := by
  rw [flags_eq]; intro b hb; simp [g] at hb; exact hb.2

theorem flags_length (t : Bool) (e : E) : (flags t e).length = (paths e).length := by
  rw [flags_eq]; simp

end GluonModel.TailPos.Proofs
