import GluonModel.Determinism

/-! Lemmas for the C16 property theorems. -/
namespace GluonModel.Determinism.Proofs
open GluonModel.Determinism

/-! ### 1. `gen` does not depend on the variable ids -/

def mapIds (ρ : Nat → Nat) (σ : Subst) : Subst := σ.map (fun p => (ρ p.1, p.2))

theorem lookupVar_mapIds (ρ : Nat → Nat) (hρ : ∀ a b, ρ a = ρ b → a = b) (σ : Subst) (v : Nat) :
    lookupVar (mapIds ρ σ) (ρ v) = lookupVar σ v := by
  induction σ with
  | nil => rfl
  | cons p r ih =>
    obtain ⟨w, k⟩ := p
    simp only [mapIds, List.map_cons, lookupVar]
    by_cases h : w = v
    · subst h; simp
    · have : ρ w ≠ ρ v := fun e => h (hρ _ _ e)
      simp only [this, h, if_false]
      exact ih

theorem gen_mapVars (ρ : Nat → Nat) (hρ : ∀ a b, ρ a = ρ b → a = b) (t : Ty) :
    ∀ σ : Subst, gen (t.mapVars ρ) (mapIds ρ σ) = ((gen t σ).1, mapIds ρ (gen t σ).2) := by
  induction t with
  | var v =>
    intro σ
    simp only [Ty.mapVars, gen, lookupVar_mapIds ρ hρ]
    cases h : lookupVar σ v with
    | some k => simp
    | none => simp [mapIds]
  | int => intro σ; simp [Ty.mapVars, gen]
  | fn a b iha ihb =>
    intro σ
    simp only [Ty.mapVars, gen]
    rw [iha σ]
    simp only
    rw [ihb (gen a σ).2]
  | rnil => intro σ; simp [Ty.mapVars, gen]
  | rcons n t r iht ihr =>
    intro σ
    simp only [Ty.mapVars, gen]
    rw [iht σ]
    simp only
    rw [ihr (gen t σ).2]

theorem generalizeTop_mapVars (ρ : Nat → Nat) (hρ : ∀ a b, ρ a = ρ b → a = b) (t : Ty) :
    generalizeTop (t.mapVars ρ) = generalizeTop t := by
  have h := gen_mapVars ρ hρ t []
  simp only [mapIds, List.map_nil] at h
  simp only [generalizeTop, h, List.map_map]
  congr 1

/-! ### 2. the lexicographic order and sorting -/

theorem leLex_total : ∀ a b : List Nat, (leLex a b || leLex b a) = true
  | [], _ => by simp [leLex]
  | _ :: _, [] => by simp [leLex]
  | a :: as, b :: bs => by
    simp only [leLex]
    by_cases h₁ : a < b
    · simp [h₁]
    · by_cases h₂ : b < a
      · simp [h₂]
      · simp only [h₁, h₂, if_false]
        exact leLex_total as bs

theorem leLex_trans : ∀ a b c : List Nat, leLex a b = true → leLex b c = true → leLex a c = true
  | [], _, _, _, _ => by simp [leLex]
  | _ :: _, [], _, h, _ => by simp [leLex] at h
  | _ :: _, _ :: _, [], _, h => by simp [leLex] at h
  | a :: as, b :: bs, c :: cs, h₁, h₂ => by
    simp only [leLex] at h₁ h₂ ⊢
    by_cases ab : a < b
    · by_cases bc : b < c
      · have : a < c := Nat.lt_trans ab bc
        simp [this]
      · by_cases cb : c < b
        · simp [bc, cb] at h₂
        · have : b = c := by omega
          subst this
          simp [ab]
    · by_cases ba : b < a
      · simp [ab, ba] at h₁
      · have e : a = b := by omega
        subst e
        simp only [ab, if_false] at h₁
        by_cases bc : a < c
        · simp [bc]
        · by_cases cb : c < a
          · simp [bc, cb] at h₂
          · simp only [bc, cb, if_false] at h₂ ⊢
            exact leLex_trans as bs cs h₁ h₂

theorem leLex_antisymm : ∀ a b : List Nat, leLex a b = true → leLex b a = true → a = b
  | [], [], _, _ => rfl
  | [], _ :: _, _, h => by simp [leLex] at h
  | _ :: _, [], h, _ => by simp [leLex] at h
  | a :: as, b :: bs, h₁, h₂ => by
    simp only [leLex] at h₁ h₂
    by_cases ab : a < b
    · have nba : ¬ b < a := by omega
      simp [ab, nba] at h₂
    · by_cases ba : b < a
      · simp [ab, ba] at h₁
      · have e : a = b := by omega
        subst e
        simp only [ab, if_false] at h₁ h₂
        rw [leLex_antisymm as bs h₁ h₂]

theorem sortNames_perm (l₁ l₂ : List (List Nat)) (h : l₁.Perm l₂) : sortNames l₁ = sortNames l₂ := by
  unfold sortNames
  apply List.Perm.eq_of_pairwise (le := fun a b => leLex a b = true)
  · intro a b _ _ hab hba
    exact leLex_antisymm a b hab hba
  · exact List.pairwise_mergeSort leLex_trans leLex_total l₁
  · exact List.pairwise_mergeSort leLex_trans leLex_total l₂
  · exact ((List.mergeSort_perm l₁ leLex).trans h).trans (List.mergeSort_perm l₂ leLex).symm

/-! ### 3. grouping: the bucket order is unobservable -/

section Groups
variable {α κ : Type} [DecidableEq κ]

theorem lookupB_pushTo (m : Buckets α κ) (k k' : κ) (x : α)
    (hk : m.any (fun p => decide (p.1 = k)) = true) :
    lookupB (pushTo m k x) k' = if k' = k then lookupB m k' ++ [x] else lookupB m k' := by
  induction m with
  | nil => simp at hk
  | cons p r ih =>
    obtain ⟨pk, pv⟩ := p
    by_cases e : pk = k
    · subst e
      by_cases e' : k' = pk
      · subst e'
        simp [lookupB, pushTo, List.find?_cons]
      · have ne : ¬ pk = k' := fun h => e' h.symm
        simp only [lookupB, pushTo, List.map_cons, if_true, List.find?_cons, ne, decide_false,
          e', if_false]
        -- the rest of the list: only buckets with key `pk` change, and `k' ≠ pk`
        have : ∀ r : Buckets α κ,
            List.find? (fun p => decide (p.1 = k'))
              (r.map (fun p => if p.1 = pk then (p.1, p.2 ++ [x]) else p))
            = (List.find? (fun p => decide (p.1 = k')) r) := by
          intro r
          induction r with
          | nil => rfl
          | cons q s ihs =>
            obtain ⟨qk, qv⟩ := q
            by_cases e2 : qk = pk
            · subst e2
              simp [List.find?_cons, ne, ihs]
            · by_cases e3 : qk = k'
              · subst e3
                simp [List.find?_cons, e']
              · simp [List.find?_cons, e2, e3, ihs]
        rw [this r]
    · have hk' : r.any (fun p => decide (p.1 = k)) = true := by
        simpa [List.any_cons, e] using hk
      have ih' := ih hk'
      by_cases e' : pk = k'
      · subst e'
        have : ¬ pk = k := e
        simp [lookupB, pushTo, List.find?_cons, e]
      · simp only [lookupB, pushTo, List.map_cons, e, if_false, List.find?_cons, e', decide_false]
        simpa [lookupB, pushTo] using ih'

theorem find?_none_of_any_false (m : Buckets α κ) (k : κ)
    (h : m.any (fun p => decide (p.1 = k)) = false) :
    m.find? (fun p => decide (p.1 = k)) = none := by
  induction m with
  | nil => rfl
  | cons p r ih =>
    simp only [List.any_cons, Bool.or_eq_false_iff] at h
    simp [List.find?_cons, h.1, ih h.2]

theorem lookupB_insertAt (m : Buckets α κ) (i : Nat) (k k' : κ) (x : α)
    (hk : m.any (fun p => decide (p.1 = k)) = false) :
    lookupB (insertAt m i (k, [x])) k' = if k' = k then [x] else lookupB m k' := by
  by_cases e : k' = k
  · subst e
    have h1 : (m.take i).find? (fun p => decide (p.1 = k')) = none := by
      apply find?_none_of_any_false
      cases h : (m.take i).any (fun p => decide (p.1 = k')) with
      | false => rfl
      | true =>
        exfalso
        rw [List.any_eq_true] at h
        obtain ⟨p, hp, hpk⟩ := h
        have : m.any (fun p => decide (p.1 = k')) = true :=
          List.any_eq_true.mpr ⟨p, List.mem_of_mem_take hp, hpk⟩
        rw [hk] at this
        exact Bool.noConfusion this
    simp [lookupB, insertAt, List.find?_append, h1, List.find?_cons]
  · have ne : ¬ k = k' := fun h => e h.symm
    have : (insertAt m i (k, [x])).find? (fun p => decide (p.1 = k'))
        = m.find? (fun p => decide (p.1 = k')) := by
      simp only [insertAt, List.find?_append, List.find?_cons, ne, decide_false]
      rw [← List.find?_append, List.take_append_drop]
    simp [lookupB, this, e]

/-- The state reached after the prefix `p`. -/
structure Inv (key : α → κ) (p : List α) (st : List κ × Buckets α κ) : Prop where
  order : st.1 = (p.map key).eraseDups
  look : ∀ k, lookupB st.2 k = p.filter (fun x => decide (key x = k))
  keys : ∀ k, st.2.any (fun q => decide (q.1 = k)) = true ↔ k ∈ p.map key

theorem any_pushTo (m : Buckets α κ) (k k' : κ) (x : α) :
    (pushTo m k x).any (fun q => decide (q.1 = k')) = m.any (fun q => decide (q.1 = k')) := by
  induction m with
  | nil => rfl
  | cons p r ih =>
    obtain ⟨pk, pv⟩ := p
    simp only [pushTo, List.map_cons, List.any_cons] at ih ⊢
    by_cases e : pk = k
    · simp [e, ih]
    · simp [e, ih]

theorem any_insertAt (m : Buckets α κ) (i : Nat) (e : κ × List α) (k' : κ) :
    (insertAt m i e).any (fun q => decide (q.1 = k'))
      = (decide (e.1 = k') || m.any (fun q => decide (q.1 = k'))) := by
  have h : m.any (fun q => decide (q.1 = k'))
      = ((m.take i).any (fun q => decide (q.1 = k')) || (m.drop i).any (fun q => decide (q.1 = k'))) := by
    rw [← List.any_append, List.take_append_drop]
  simp only [insertAt, List.any_append, List.any_cons, h]
  cases (m.take i).any (fun q => decide (q.1 = k')) <;> cases decide (e.1 = k') <;> simp

theorem inv_step (pos : κ → Nat → Nat) (key : α → κ) (p : List α) (st : List κ × Buckets α κ)
    (x : α) (h : Inv key p st) : Inv key (p ++ [x]) (groupStep pos key st x) := by
  unfold groupStep
  by_cases hm : st.2.any (fun q => decide (q.1 = key x)) = true
  · -- known key
    have hmem : key x ∈ p.map key := (h.keys (key x)).mp hm
    simp only [hm, if_true]
    refine ⟨?_, ?_, ?_⟩
    · simp only [List.map_append, List.map_cons, List.map_nil, List.eraseDups_append]
      have : List.removeAll [key x] (p.map key) = [] := by
        simp [List.removeAll]
        exact List.mem_map.mp hmem
      rw [this]
      simp [h.order]
    · intro k
      rw [lookupB_pushTo _ _ _ _ hm, h.look k, List.filter_append]
      by_cases e : k = key x
      · subst e; simp
      · have : ¬ key x = k := fun h => e h.symm
        simp [e, this]
    · intro k
      rw [any_pushTo, h.keys k]
      simp only [List.map_append, List.mem_append, List.map_cons, List.map_nil, List.mem_singleton]
      constructor
      · intro h'; exact Or.inl h'
      · intro h'
        rcases h' with h' | h'
        · exact h'
        · subst h'; exact hmem
  · -- new key
    have hm' : st.2.any (fun q => decide (q.1 = key x)) = false := by
      cases h' : st.2.any (fun q => decide (q.1 = key x)) with
      | false => rfl
      | true => exact absurd h' hm
    have hnot : key x ∉ p.map key := fun hh => hm ((h.keys (key x)).mpr hh)
    simp only [hm', Bool.false_eq_true, if_false]
    refine ⟨?_, ?_, ?_⟩
    · simp only [List.map_append, List.map_cons, List.map_nil, List.eraseDups_append]
      have : List.removeAll [key x] (p.map key) = [key x] := by
        simp [List.removeAll]
        intro a ha e
        exact hnot (List.mem_map.mpr ⟨a, ha, e⟩)
      rw [this, h.order]
      simp [List.eraseDups_cons]
    · intro k
      rw [lookupB_insertAt _ _ _ _ _ hm', h.look k, List.filter_append]
      by_cases e : k = key x
      · subst e
        have : p.filter (fun y => decide (key y = key x)) = [] := by
          rw [List.filter_eq_nil_iff]
          intro a ha hk
          exact hnot (List.mem_map.mpr ⟨a, ha, of_decide_eq_true hk⟩)
        simp [this]
      · have : ¬ key x = k := fun h => e h.symm
        simp [e, this]
    · intro k
      rw [any_insertAt]
      simp only [List.map_append, List.mem_append, List.map_cons, List.map_nil, List.mem_singleton,
        Bool.or_eq_true, decide_eq_true_eq]
      rw [h.keys k]
      constructor
      · intro h'
        rcases h' with h' | h'
        · exact Or.inr h'.symm
        · exact Or.inl h'
      · intro h'
        rcases h' with h' | h'
        · exact Or.inr h'
        · exact Or.inl h'.symm

theorem inv_foldl (pos : κ → Nat → Nat) (key : α → κ) (xs : List α) :
    ∀ (p : List α) (st : List κ × Buckets α κ), Inv key p st →
      Inv key (p ++ xs) (xs.foldl (groupStep pos key) st) := by
  induction xs with
  | nil => intro p st h; simpa using h
  | cons x xs ih =>
    intro p st h
    have := ih (p ++ [x]) (groupStep pos key st x) (inv_step pos key p st x h)
    simpa [List.foldl_cons, List.append_assoc] using this

theorem groupsImpl_eq_spec (pos : κ → Nat → Nat) (key : α → κ) (xs : List α) :
    groupsImpl pos key xs = groupsSpec key xs := by
  have h0 : Inv key ([] : List α) (([], []) : List κ × Buckets α κ) :=
    ⟨rfl, fun k => rfl, fun k => by simp⟩
  have h := inv_foldl pos key xs [] ([], []) h0
  simp only [List.nil_append] at h
  unfold groupsImpl groupsSpec
  simp only
  rw [h.order]
  apply List.map_congr_left
  intro k _
  rw [h.look k]

end Groups

/-! ### 4. the code map -/

theorem fileStart_append (h : List Nat) (len : Nat) :
    fileStart (h ++ [len]) = fileStart h + len + 1 := by
  simp [fileStart, List.foldl_append]

theorem foldl_start_mono (h : List Nat) : ∀ s, s ≤ h.foldl (fun s len => s + len + 1) s := by
  induction h with
  | nil => intro s; exact Nat.le_refl s
  | cons a r ih =>
    intro s
    simp only [List.foldl_cons]
    exact Nat.le_trans (by omega) (ih (s + a + 1))

end GluonModel.Determinism.Proofs

namespace GluonModel.Determinism.Proofs
open GluonModel.Determinism

/-- To evaluate `sortNames` on a concrete list: exhibit the sorted permutation. -/
theorem sortNames_eq (l s : List (List Nat)) (hperm : l.Perm s)
    (hs : s.Pairwise (fun a b => leLex a b = true)) : sortNames l = s := by
  rw [sortNames_perm l s hperm]
  exact List.mergeSort_of_pairwise hs

end GluonModel.Determinism.Proofs

namespace GluonModel.Determinism.Proofs
open GluonModel.Determinism

/-! ### 5. errors of concurrent macro expansions -/

section Collect
variable {ε : Type}

theorem leIdx_trans (a b c : Nat × ε) : leIdx a b = true → leIdx b c = true → leIdx a c = true := by
  simp only [leIdx, decide_eq_true_eq]; omega

theorem leIdx_total (a b : Nat × ε) : (leIdx a b || leIdx b a) = true := by
  simp only [leIdx, Bool.or_eq_true, decide_eq_true_eq]; omega

/-- The tagged errors in source order are strictly increasing in the tag and all tags are ≥ s. -/
theorem collect_zipIdx_sorted (results : List (Option ε)) :
    ∀ s, (collectErrors (results.zipIdx s)).Pairwise (fun a b => a.1 < b.1) ∧
      ∀ a ∈ collectErrors (results.zipIdx s), s ≤ a.1 := by
  induction results with
  | nil => intro s; simp [collectErrors]
  | cons r rs ih =>
    intro s
    obtain ⟨hp, hge⟩ := ih (s + 1)
    cases r with
    | none =>
      simp only [List.zipIdx_cons, collectErrors, List.filterMap_cons, Option.map_none]
      refine ⟨hp, fun a ha => ?_⟩
      have := hge a ha
      omega
    | some e =>
      simp only [List.zipIdx_cons, collectErrors, List.filterMap_cons, Option.map_some]
      refine ⟨List.pairwise_cons.mpr ⟨fun a ha => ?_, hp⟩, fun a ha => ?_⟩
      · have := hge a ha
        simp only
        omega
      · rcases List.mem_cons.mp ha with h | h
        · subst h; exact Nat.le_refl _
        · have := hge a h
          omega

theorem collect_zipIdx_map_snd (results : List (Option ε)) :
    ∀ s, (collectErrors (results.zipIdx s)).map (fun p => p.2) = results.filterMap id := by
  induction results with
  | nil => intro s; simp [collectErrors]
  | cons r rs ih =>
    intro s
    cases r with
    | none =>
      simpa [List.zipIdx_cons, collectErrors] using ih (s + 1)
    | some e =>
      simpa [List.zipIdx_cons, collectErrors] using ih (s + 1)

theorem eq_of_same_tag {l : List (Nat × ε)} (h : l.Pairwise (fun a b => a.1 < b.1)) :
    ∀ a b, a ∈ l → b ∈ l → a.1 = b.1 → a = b := by
  induction l with
  | nil => intro a b ha; simp at ha
  | cons x xs ih =>
    obtain ⟨hx, hxs⟩ := List.pairwise_cons.mp h
    intro a b ha hb e
    rcases List.mem_cons.mp ha with ha' | ha' <;> rcases List.mem_cons.mp hb with hb' | hb'
    · rw [ha', hb']
    · subst ha'; have := hx b hb'; omega
    · subst hb'; have := hx a ha'; omega
    · exact ih hxs a b ha' hb' e

theorem reportErrors_of_perm (results : List (Option ε)) (arrived : List (Option ε × Nat))
    (h : arrived.Perm (tagTasks results)) : reportErrors arrived = results.filterMap id := by
  have hsorted := (collect_zipIdx_sorted results 0).1
  have hperm : (collectErrors arrived).Perm (collectErrors (results.zipIdx 0)) :=
    List.Perm.filterMap _ h
  have hle : (collectErrors (results.zipIdx 0)).Pairwise (fun a b => leIdx a b = true) :=
    hsorted.imp (fun {a b} hab => by simp only [leIdx, decide_eq_true_eq]; omega)
  have key : (collectErrors arrived).mergeSort leIdx = collectErrors (results.zipIdx 0) := by
    apply List.Perm.eq_of_pairwise (le := fun a b => leIdx a b = true)
    · intro a b ha hb hab hba
      have ha' : a ∈ collectErrors (results.zipIdx 0) :=
        hperm.subset ((List.mergeSort_perm _ _).subset ha)
      simp only [leIdx, decide_eq_true_eq] at hab hba
      exact eq_of_same_tag hsorted a b ha' hb (by omega)
    · exact List.pairwise_mergeSort leIdx_trans leIdx_total _
    · exact hle
    · exact (List.mergeSort_perm _ _).trans hperm
  unfold reportErrors
  rw [key]
  exact collect_zipIdx_map_snd results 0

theorem reportErrorsLateNumbering_eq (arrived : List (Option ε)) :
    reportErrorsLateNumbering arrived = arrived.filterMap id :=
  reportErrors_of_perm arrived arrived.zipIdx (List.Perm.refl _)

end Collect

end GluonModel.Determinism.Proofs
