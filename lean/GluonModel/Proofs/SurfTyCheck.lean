import GluonModel.SurfTyCheck
/-! Soundness of the executable checker `inferA` with respect to the declarative `HasType`. -/
namespace GluonModel.SurfTy.Proofs
open GluonModel.Surf GluonModel.SurfTy

variable {D : Decls}

mutual
theorem beq_eq : ∀ (a b : STy), STy.beq a b = true → a = b
  | .int, b, h => by cases b <;> simp [STy.beq] at h ⊢
  | .str, b, h => by cases b <;> simp [STy.beq] at h ⊢
  | .bool, b, h => by cases b <;> simp [STy.beq] at h ⊢
  | .fn a₁ a₂, b, h => by
    cases b <;> simp [STy.beq] at h ⊢
    exact ⟨beq_eq _ _ h.1, beq_eq _ _ h.2⟩
  | .recd as, b, h => by
    cases b <;> simp [STy.beq] at h ⊢
    exact beqList_eq _ _ h
  | .named d, b, h => by
    cases b <;> simp [STy.beq] at h ⊢
    exact h
  | .arr a, b, h => by
    cases b <;> simp [STy.beq] at h ⊢
    exact beq_eq _ _ h
  | .tvar n, b, h => by
    cases b <;> simp [STy.beq] at h ⊢
    exact h
theorem beqList_eq : ∀ (as bs : List STy), beqList as bs = true → as = bs
  | [], bs, h => by cases bs <;> simp [beqList] at h ⊢
  | a :: as, bs, h => by
    cases bs <;> simp [beqList] at h ⊢
    exact ⟨beq_eq _ _ h.1, beqList_eq _ _ h.2⟩
end

theorem peel_sound : ∀ (σs : List STy) (φ τ : STy), peel φ σs = some τ → φ = funTy σs τ := by
  intro σs
  induction σs with
  | nil => intro φ τ h; simp [peel] at h; simp [funTy, h]
  | cons s ss ih =>
    intro φ τ h
    cases φ <;> simp [peel] at h
    rename_i a b
    obtain ⟨h1, h2⟩ := h
    have := beq_eq _ _ h1
    subst this
    simp [funTy, ih b τ h2]

theorem allBeq_sound : ∀ (τs : List STy) (t : STy), allBeq t τs = true → τs = List.replicate τs.length t := by
  intro τs
  induction τs with
  | nil => intro t _; rfl
  | cons s ss ih =>
    intro t h
    simp [allBeq] at h
    have := beq_eq _ _ h.1
    subst this
    simp [List.replicate_succ, ← ih s h.2]

theorem checkLayout_sound : ∀ (l : List Src) (σs βs τs : List STy),
    checkLayout l σs βs = some τs → LayoutOk l σs βs τs := by
  intro l
  induction l with
  | nil => intro σs βs τs h; simp [checkLayout] at h; subst h; exact .nil
  | cons s l ih =>
    intro σs βs τs h
    cases s with
    | field i =>
      simp only [checkLayout] at h
      split at h
      · rename_i τ hi
        split at h
        · rename_i τs' hl
          cases h
          exact .field hi (ih _ _ _ hl)
        · cases h
      · cases h
    | base j =>
      simp only [checkLayout] at h
      split at h
      · rename_i τ hj
        split at h
        · rename_i τs' hl
          cases h
          exact .base hj (ih _ _ _ hl)
        · cases h
      · cases h

theorem isIntOp_sound {op : String} (h : isIntOp op = true) : intOp op := by
  simp [isIntOp] at h
  rcases h with ((h | h) | h) | h
  · exact .inl h
  · exact .inr (.inl h)
  · exact .inr (.inr (.inl h))
  · exact .inr (.inr (.inr h))

theorem isCmpOp_sound {op : String} (h : isCmpOp op = true) : cmpOp op := by
  simp [isCmpOp] at h
  exact h


/-! ### substitution of type variables -/

theorem substList_eq_map (R : Nat → STy) : ∀ ts : List STy, substList R ts = ts.map (STy.subst R)
  | [] => rfl
  | t :: ts => by simp [substList, substList_eq_map R ts]

theorem substList_length (R : Nat → STy) (ts : List STy) : (substList R ts).length = ts.length := by
  simp [substList_eq_map]

theorem substList_get {R : Nat → STy} {ts : List STy} {i : Nat} {τ : STy} (h : ts[i]? = some τ) :
    (substList R ts)[i]? = some (τ.subst R) := by
  rw [substList_eq_map]; simp [h]

mutual
/-- composition: substituting twice is substituting once with the composed substitution -/
theorem subst_comp (S R : Nat → STy) : ∀ t : STy,
    (t.subst S).subst R = t.subst (fun n => (S n).subst R)
  | .int => by simp [STy.subst]
  | .str => by simp [STy.subst]
  | .bool => by simp [STy.subst]
  | .fn a b => by simp [STy.subst, subst_comp S R a, subst_comp S R b]
  | .recd fs => by simp [STy.subst, substList_comp S R fs]
  | .named d => by simp [STy.subst]
  | .arr t => by simp [STy.subst, subst_comp S R t]
  | .tvar n => by simp [STy.subst]
theorem substList_comp (S R : Nat → STy) : ∀ ts : List STy,
    substList R (substList S ts) = substList (fun n => (S n).subst R) ts
  | [] => by simp [substList]
  | t :: ts => by simp [substList, subst_comp S R t, substList_comp S R ts]
end

mutual
/-- a substitution matters only on the variables that occur -/
theorem subst_congr (R R' : Nat → STy) : ∀ t : STy,
    (∀ n, t.occurs n = true → R n = R' n) → t.subst R = t.subst R'
  | .int, _ => by simp [STy.subst]
  | .str, _ => by simp [STy.subst]
  | .bool, _ => by simp [STy.subst]
  | .fn a b, h => by
    simp only [STy.subst]
    rw [subst_congr R R' a (fun n hn => h n (by simp [STy.occurs, hn])),
        subst_congr R R' b (fun n hn => h n (by simp [STy.occurs, hn]))]
  | .recd fs, h => by
    simp only [STy.subst]
    rw [substList_congr R R' fs (fun n hn => h n (by simp [STy.occurs, hn]))]
  | .named d, _ => by simp [STy.subst]
  | .arr t, h => by
    simp only [STy.subst]
    rw [subst_congr R R' t (fun n hn => h n (by simp [STy.occurs, hn]))]
  | .tvar m, h => by
    simp only [STy.subst]
    exact h m (by simp [STy.occurs])
theorem substList_congr (R R' : Nat → STy) : ∀ ts : List STy,
    (∀ n, occursList n ts = true → R n = R' n) → substList R ts = substList R' ts
  | [], _ => by simp [substList]
  | t :: ts, h => by
    simp only [substList]
    rw [subst_congr R R' t (fun n hn => h n (by simp [occursList, hn])),
        substList_congr R R' ts (fun n hn => h n (by simp [occursList, hn]))]
end

mutual
theorem subst_id : ∀ t : STy, t.subst STy.tvar = t
  | .int => by simp [STy.subst]
  | .str => by simp [STy.subst]
  | .bool => by simp [STy.subst]
  | .fn a b => by simp [STy.subst, subst_id a, subst_id b]
  | .recd fs => by simp [STy.subst, substList_id fs]
  | .named d => by simp [STy.subst]
  | .arr t => by simp [STy.subst, subst_id t]
  | .tvar n => by simp [STy.subst]
theorem substList_id : ∀ ts : List STy, substList STy.tvar ts = ts
  | [] => by simp [substList]
  | t :: ts => by simp [substList, subst_id t, substList_id ts]
end

theorem funTy_subst (R : Nat → STy) : ∀ (σs : List STy) (τ : STy),
    (funTy σs τ).subst R = funTy (substList R σs) (τ.subst R)
  | [], τ => by simp [funTy, substList]
  | a :: as, τ => by simp [funTy, substList, STy.subst, funTy_subst R as τ]

theorem instSub_not_mem : ∀ {vs : List Nat} {ts : List STy} {n : Nat}, n ∉ vs → instSub vs ts n = .tvar n
  | [], _, _, _ => by simp [instSub]
  | v :: vs, [], _, _ => by simp [instSub]
  | v :: vs, t :: ts, n, h => by
    simp only [List.mem_cons, not_or] at h
    simp only [instSub, h.1, if_false]
    exact instSub_not_mem h.2

/-! ### the meaning of syntactic schemes -/

def substM (R : Nat → STy) (Δ : MCtx) : MCtx := Δ.map fun b => (b.1, b.2.subst R)

theorem substM_append (R : Nat → STy) (a b : MCtx) : substM R (a ++ b) = substM R a ++ substM R b := by
  simp [substM]

theorem lookup_den (R : Nat → STy) : ∀ {Γ : PCtx} {x : String} {s : Scheme},
    lookupCtx Γ x = some s → lookupCtx (denCtx R Γ) x = some (den R s)
  | [], x, s, h => by simp [lookupCtx] at h
  | (y, s') :: Γ, x, s, h => by
    simp only [lookupCtx, denCtx, List.map_cons] at h ⊢
    split at h
    · rename_i hxy
      simp only [hxy, if_true]
      cases h; rfl
    · rename_i hxy
      simp only [hxy, if_false]
      exact lookup_den R h

/-- a scheme without quantified variables is a monomorphic binding -/
theorem den_mono (R : Nat → STy) (τ : STy) : den R ([], τ) = Sch.mono (τ.subst R) := by
  funext t
  apply propext
  constructor
  · rintro ⟨R', h1, h2⟩
    have : R' = R := funext fun n => h1 n (by simp)
    subst this
    exact h2
  · intro h
    exact ⟨R, fun _ _ => rfl, h⟩

theorem denCtx_bind (R : Nat → STy) : ∀ (xs : List String) (τs : List STy) (Γ : PCtx),
    denCtx R (bindP xs τs Γ) = bindCtx xs (substList R τs) (denCtx R Γ)
  | [], τs, Γ => by simp [bindP, bindCtx]
  | x :: xs, [], Γ => by simp [bindP, bindCtx, substList]
  | x :: xs, t :: ts, Γ => by
    simp only [bindP, bindCtx, substList]
    rw [denCtx_bind R xs ts]
    simp [denCtx, den_mono]

theorem denCtx_lift (R : Nat → STy) (Γ : PCtx) : ∀ (Δ : MCtx),
    denCtx R (liftP Δ ++ Γ) = liftCtx (substM R Δ) ++ denCtx R Γ
  | [] => by simp [liftP, liftCtx, substM]
  | b :: Δ => by
    have ih := denCtx_lift R Γ Δ
    simp only [liftP, liftCtx, substM, denCtx, List.map_cons, List.cons_append, List.map_append,
      List.map_map] at ih ⊢
    rw [den_mono]
    simp only [List.cons.injEq, true_and]
    simpa using ih

theorem zip_den (R : Nat → STy) : ∀ (g : List (String × List String × Expr)) (τs : List STy),
    ((g.zip τs).map fun (b, t) => (b.1, den R (([] : List Nat), t))) =
      ((g.zip (substList R τs)).map fun (b, t) => (b.1, Sch.mono t))
  | [], τs => by simp
  | b :: g, [] => by simp [substList]
  | b :: g, t :: ts => by
    have ih := zip_den R g ts
    simp only [substList, List.zip_cons_cons, List.map_cons, den_mono] at ih ⊢
    rw [ih]

theorem denCtx_rec (R : Nat → STy) (g : List (String × List String × Expr)) (τs : List STy) (Γ : PCtx) :
    denCtx R (recP g τs Γ) = recCtx g (substList R τs) (denCtx R Γ) := by
  unfold recP recCtx denCtx
  simp only [List.map_append, List.map_reverse, List.map_map]
  congr 2
  have := zip_den R g τs
  simpa [Function.comp_def] using this

/-- one inclusion of `den_agree` -/
theorem den_sub (R R' : Nat → STy) (ws : List Nat) (t : STy)
    (h : ∀ n, t.occurs n = true → n ∉ ws → R' n = R n) (u : STy) :
    den R' (ws, t) u → den R (ws, t) u := by
  rintro ⟨R'', h1, h2⟩
  refine ⟨fun n => if n ∈ ws then R'' n else R n, ?_, ?_⟩
  · intro n hn
    simp only [] at hn
    simp [hn]
  · rw [h2]
    apply subst_congr
    intro n hocc
    by_cases hn : n ∈ ws
    · simp [hn]
    · simp only [hn, if_false]
      rw [h1 n hn, h n hocc hn]

/-- valuations that agree on the FREE variables of a scheme give it the same meaning -/
theorem den_agree (R R' : Nat → STy) (ws : List Nat) (t : STy)
    (h : ∀ n, t.occurs n = true → n ∉ ws → R' n = R n) : den R' (ws, t) = den R (ws, t) := by
  funext u
  apply propext
  exact ⟨den_sub R R' ws t h u, den_sub R' R ws t (fun n h1 h2 => (h n h1 h2).symm) u⟩

/-- the core of generalisation: re-valuing variables that are not free in the context does not
    change the meaning of the context -/
theorem denCtx_agree (R R' : Nat → STy) (vs : List Nat) : ∀ (Γ : PCtx),
    (∀ n, n ∉ vs → R' n = R n) → (∀ v, v ∈ vs → freeInCtx v Γ = false) → denCtx R' Γ = denCtx R Γ
  | [], _, _ => rfl
  | (x, (ws, t)) :: Γ, hag, hfree => by
    simp only [denCtx, List.map_cons]
    have ih := denCtx_agree R R' vs Γ hag (fun v hv => by
      have := hfree v hv
      simp only [freeInCtx, Bool.or_eq_false_iff] at this
      exact this.2)
    simp only [denCtx] at ih
    rw [ih, den_agree R R' ws t]
    intro n hocc hn
    apply hag
    intro hvs
    have := hfree n hvs
    simp only [freeInCtx, Bool.or_eq_false_iff] at this
    have h1 := this.1
    simp [hocc, hn] at h1

theorem layout_subst (R : Nat → STy) : ∀ {l : List Src} {σs βs τs : List STy},
    LayoutOk l σs βs τs → LayoutOk l (substList R σs) (substList R βs) (substList R τs) := by
  intro l
  induction l with
  | nil => intro σs βs τs h; cases h; exact .nil
  | cons s l ih =>
    intro σs βs τs h
    cases h with
    | field hi hl => exact .field (substList_get hi) (ih hl)
    | base hj hl => exact .base (substList_get hj) (ih hl)

theorem substList_replicate (R : Nat → STy) (n : Nat) (t : STy) :
    substList R (List.replicate n t) = List.replicate n (t.subst R) := by
  rw [substList_eq_map]; simp

mutual
theorem patCheck_sound (hD : DClosed D) (R : Nat → STy) : ∀ (p : Pat) (τ : STy) (Δ : MCtx),
    patCheck D p τ = some Δ → PatType D p (τ.subst R) (substM R Δ)
  | .wild, τ, Δ, h => by simp [patCheck] at h; subst h; exact .wild
  | .var x, τ, Δ, h => by simp [patCheck] at h; subst h; exact .var
  | .int n, τ, Δ, h => by
    cases τ <;> simp [patCheck] at h
    subst h; exact .int
  | .str s, τ, Δ, h => by
    cases τ <;> simp [patCheck] at h
    subst h; exact .str
  | .ctor tag ps, τ, Δ, h => by
    cases τ <;> simp only [patCheck] at h <;> try (cases h)
    split at h
    · rename_i τs hd
      have := patsCheck_sound hD R ps τs Δ h
      rw [hD _ _ _ hd R] at this
      exact .ctor hd this
    · cases h
  | .record fs, τ, Δ, h => by
    cases τ <;> simp only [patCheck] at h <;> try (cases h)
    exact .record (fieldsCheck_sound hD R fs _ Δ h)
  | .as x p, τ, Δ, h => by
    simp only [patCheck] at h
    split at h
    · rename_i Δ' hp
      cases h
      exact .as (patCheck_sound hD R p τ Δ' hp)
    · cases h
theorem patsCheck_sound (hD : DClosed D) (R : Nat → STy) : ∀ (ps : List Pat) (τs : List STy) (Δ : MCtx),
    patsCheck D ps τs = some Δ → PatsType D ps (substList R τs) (substM R Δ)
  | [], τs, Δ, h => by
    cases τs <;> simp [patsCheck] at h
    subst h; exact .nil
  | p :: ps, τs, Δ, h => by
    cases τs with
    | nil => simp [patsCheck] at h
    | cons τ τs =>
      simp only [patsCheck] at h
      split at h
      · rename_i Δ₁ h1
        split at h
        · rename_i Δ₂ h2
          cases h
          rw [substM_append]
          exact .cons (patCheck_sound hD R p τ Δ₁ h1) (patsCheck_sound hD R ps τs Δ₂ h2)
        · cases h
      · cases h
theorem fieldsCheck_sound (hD : DClosed D) (R : Nat → STy) : ∀ (fs : List (Nat × Pat)) (τs : List STy) (Δ : MCtx),
    fieldsCheck D fs τs = some Δ → FieldsType D fs (substList R τs) (substM R Δ)
  | [], τs, Δ, h => by simp [fieldsCheck] at h; subst h; exact .nil
  | (i, p) :: fs, τs, Δ, h => by
    simp only [fieldsCheck] at h
    split at h
    · rename_i τ hi
      split at h
      · rename_i Δ₁ h1
        split at h
        · rename_i Δ₂ h2
          cases h
          rw [substM_append]
          exact .cons (substList_get hi) (patCheck_sound hD R p τ Δ₁ h1) (fieldsCheck_sound hD R fs τs Δ₂ h2)
        · cases h
      · cases h
    · cases h
end

theorem hasTypes_length : ∀ {es : List Expr} {Γ : Ctx} {τs : List STy},
    HasTypes D Γ es τs → τs.length = es.length := by
  intro es
  induction es with
  | nil => intro Γ τs h; cases h; rfl
  | cons e es ih => intro Γ τs h; cases h with | cons _ h2 => simp [ih h2]

theorem map_fst_ne_nil {α β} {xs : List (α × β)} (h : xs.isEmpty = false) : xs.map Prod.fst ≠ [] := by
  cases xs with
  | nil => simp at h
  | cons _ _ => simp

mutual
/-- Soundness of the polymorphic checker: under EVERY valuation `R` of the type variables the
    erased program has the instance `τ.subst R` in the meaning of the context. (This is the
    substitution lemma for schemes in the form the checker needs: `letp` uses it at the
    re-valued `R'`, `denCtx_agree` brings the context back.) -/
theorem inferA_sound (hD : DClosed D) : ∀ (a : AExpr) {Γ : PCtx} {τ : STy}, inferA D Γ a = some τ →
    ∀ R : Nat → STy, HasType D (denCtx R Γ) a.erase (τ.subst R)
  | .int n, Γ, τ, h, R => by simp [inferA] at h; subst h; exact .int
  | .str s, Γ, τ, h, R => by simp [inferA] at h; subst h; exact .str
  | .var x insts, Γ, τ, h, R => by
    simp only [inferA] at h
    split at h
    · rename_i vs τ₀ hl
      split at h
      · cases h
        refine .var (lookup_den R hl) ?_
        refine ⟨fun n => (instSub vs insts n).subst R, ?_, ?_⟩
        · intro n hn
          simp only [instSub_not_mem hn, STy.subst]
        · exact subst_comp _ _ _
      · cases h
    · cases h
  | .lam xs body, Γ, τ, h, R => by
    simp only [inferA] at h
    split at h
    · cases h
    · rename_i hne
      split at h
      · rename_i ρ hb
        cases h
        simp only [AExpr.erase]
        rw [funTy_subst]
        have hbody := inferA_sound hD body hb R
        rw [denCtx_bind] at hbody
        exact .lam (map_fst_ne_nil (by simpa using hne)) (by simp [substList_length]) hbody rfl
      · cases h
  | .app f args, Γ, τ, h, R => by
    simp only [inferA] at h
    split at h
    · rename_i φ hf
      split at h
      · rename_i σs hargs
        exact .app (inferA_sound hD f hf R) (by rw [peel_sound σs φ τ h, funTy_subst])
          (inferList_sound hD args hargs R)
      · cases h
    · cases h
  | .let_ p e₁ e₂, Γ, τ, h, R => by
    simp only [inferA] at h
    split at h
    · rename_i σ h1
      split at h
      · rename_i Δ hp
        have h2 := inferA_sound hD e₂ h R
        rw [denCtx_lift] at h2
        exact .let_ (inferA_sound hD e₁ h1 R) (patCheck_sound hD R p σ Δ hp) h2
      · cases h
    · cases h
  | .letp x vs e₁ e₂, Γ, τ, h, R => by
    simp only [inferA] at h
    split at h
    · rename_i τ₁ h1
      split at h
      · rename_i hfree
        simp only [AExpr.erase]
        have h2 := inferA_sound hD e₂ h R
        refine .letGen (S := den R (vs, τ₁)) (σ := τ₁.subst R) ⟨R, fun _ _ => rfl, rfl⟩ ?_ h2
        rintro τ' ⟨R', hagree, rfl⟩
        have h1' := inferA_sound hD e₁ h1 R'
        rw [denCtx_agree R R' vs Γ hagree (by
          intro v hv
          have := List.all_eq_true.mp hfree v hv
          simpa using this)] at h1'
        exact h1'
      · cases h
    · cases h
  | .letrec binds body, Γ, τ, h, R => by
    simp only [inferA] at h
    split at h
    · rename_i hb
      have hg := checkBinds_sound hD binds hb R
      have hbody := inferA_sound hD body h R
      rw [denCtx_rec] at hg hbody
      exact .letrec hg hbody
    · cases h
  | .ite c a b, Γ, τ, h, R => by
    simp only [inferA] at h
    split at h
    · rename_i τ₁ τ₂ hc ha hb
      split at h
      · rename_i heq
        cases h
        have := beq_eq _ _ heq
        subst this
        have hc' := inferA_sound hD c hc R
        simp only [STy.subst] at hc'
        exact .ite hc' (inferA_sound hD a ha R) (inferA_sound hD b hb R)
      · cases h
    · cases h
  | .prim op a b, Γ, τ, h, R => by
    simp only [inferA] at h
    split at h
    · rename_i ha hb
      have ha' := inferA_sound hD a ha R
      have hb' := inferA_sound hD b hb R
      simp only [STy.subst] at ha' hb'
      split at h
      · rename_i hop
        cases h
        exact .primInt (isIntOp_sound hop) ha' hb'
      · split at h
        · rename_i hop
          cases h
          exact .primCmp (isCmpOp_sound hop) ha' hb'
        · cases h
    · cases h
  | .and_ a b, Γ, τ, h, R => by
    simp only [inferA] at h
    split at h
    · rename_i ha hb
      cases h
      have ha' := inferA_sound hD a ha R
      have hb' := inferA_sound hD b hb R
      simp only [STy.subst] at ha' hb'
      exact .and_ ha' hb'
    · cases h
  | .or_ a b, Γ, τ, h, R => by
    simp only [inferA] at h
    split at h
    · rename_i ha hb
      cases h
      have ha' := inferA_sound hD a ha R
      have hb' := inferA_sound hD b hb R
      simp only [STy.subst] at ha' hb'
      exact .or_ ha' hb'
    · cases h
  | .ctor d tag arity, Γ, τ, h, R => by
    simp only [inferA] at h
    split at h
    · rename_i τs hd
      split at h
      · rename_i har
        cases h
        rw [funTy_subst, hD _ _ _ hd R]
        exact .ctor hd (by simpa using har) rfl
      · cases h
    · cases h
  | .bool b, Γ, τ, h, R => by
    simp [inferA] at h; subst h
    cases b
    · exact .false_
    · exact .true_
  | .match_ s alts t, Γ, τ, h, R => by
    simp only [inferA] at h
    split at h
    · rename_i σ hs
      split at h
      · rename_i ha
        cases h
        exact .match_ (inferA_sound hD s hs R) (checkAlts_sound hD alts ha R)
      · cases h
    · cases h
  | .record fields none layout, Γ, τ, h, R => by
    simp only [inferA] at h
    split at h
    · rename_i σs hf
      split at h
      · rename_i τs hl
        cases h
        have hlay := layout_subst R (checkLayout_sound _ _ _ _ hl)
        simp only [substList] at hlay
        exact .record (inferList_sound hD fields hf R) hlay
      · cases h
    · cases h
  | .record fields (some be) layout, Γ, τ, h, R => by
    simp only [inferA] at h
    split at h
    · rename_i σs βs hf hb
      split at h
      · rename_i τs hl
        cases h
        have hbe := inferA_sound hD be hb R
        simp only [STy.subst] at hbe
        exact .update (inferList_sound hD fields hf R) hbe (layout_subst R (checkLayout_sound _ _ _ _ hl))
      · cases h
    · cases h
  | .proj e i, Γ, τ, h, R => by
    simp only [inferA] at h
    split at h
    · rename_i τs he
      have he' := inferA_sound hD e he R
      simp only [STy.subst] at he'
      exact .proj he' (substList_get h)
    · cases h
  | .array t es, Γ, τ, h, R => by
    simp only [inferA] at h
    split at h
    · rename_i τs hes
      split at h
      · rename_i hall
        cases h
        have hts := inferList_sound hD es hes R
        have hlen := hasTypes_length hts
        refine .array hts ?_
        rw [← hlen, substList_length]
        conv => lhs; rw [allBeq_sound τs t hall]
        exact substList_replicate R _ _
      · cases h
    · cases h
  | .error msg t, Γ, τ, h, R => by simp [inferA] at h; subst h; exact .error
theorem inferList_sound (hD : DClosed D) : ∀ (es : AList) {Γ : PCtx} {τs : List STy},
    inferList D Γ es = some τs → ∀ R : Nat → STy, HasTypes D (denCtx R Γ) es.erase (substList R τs)
  | .nil, Γ, τs, h, R => by simp [inferList] at h; subst h; exact .nil
  | .cons e es, Γ, τs, h, R => by
    simp only [inferList] at h
    split at h
    · rename_i τ τs' he hes
      cases h
      exact .cons (inferA_sound hD e he R) (inferList_sound hD es hes R)
    · cases h
theorem checkAlts_sound (hD : DClosed D) : ∀ (alts : AAlts) {Γ : PCtx} {σ t : STy},
    checkAlts D Γ σ alts t = true → ∀ R : Nat → STy,
      HasAlts D (denCtx R Γ) (σ.subst R) alts.erase (t.subst R)
  | .nil, Γ, σ, t, h, R => .nil
  | .cons p e rest, Γ, σ, t, h, R => by
    simp only [checkAlts] at h
    split at h
    · rename_i Δ hp
      split at h
      · rename_i τ he
        simp only [Bool.and_eq_true] at h
        have := beq_eq _ _ h.1
        subst this
        have he' := inferA_sound hD e he R
        rw [denCtx_lift] at he'
        exact .cons (patCheck_sound hD R p σ Δ hp) he' (checkAlts_sound hD rest h.2 R)
      · cases h
    · cases h
theorem checkBinds_sound (hD : DClosed D) : ∀ (binds : ABinds) {Γ' : PCtx},
    checkBinds D Γ' binds = true → ∀ R : Nat → STy,
      HasGroup D (denCtx R Γ') binds.erase (substList R binds.tys)
  | .nil, Γ', h, R => .nil
  | .cons f params ret body rest, Γ', h, R => by
    simp only [checkBinds, Bool.and_eq_true] at h
    obtain ⟨⟨hne, hb⟩, hrest⟩ := h
    split at hb
    · rename_i ρ hbody
      have := beq_eq _ _ hb
      subst this
      have hbody' := inferA_sound hD body hbody R
      rw [denCtx_bind] at hbody'
      simp only [ABinds.tys, ABinds.erase, substList, funTy_subst]
      exact .cons (by simp [substList_length]) (map_fst_ne_nil (by simpa using hne)) hbody'
        (checkBinds_sound hD rest hrest R)
    · cases hb
end

theorem surfDeclsA_closed : DClosed surfDeclsA := by
  intro d tag τs h R
  unfold surfDeclsA at h
  split at h <;> cases h <;> simp [substList, STy.subst]

end GluonModel.SurfTy.Proofs
