import GluonModel.SurfTyCheck
/-! Soundness of the executable checker `inferA` with respect to the declarative `HasType`. -/
namespace GluonModel.SurfTy.Proofs
open GluonModel.Surf GluonModel.SurfTy

variable {D : Decls}

mutual
theorem beq_eq : ∀ (a b : STy), STy.beq a b = true → a = b
  | .int, b, h => by cases b <;> simp [STy.beq] at h ⊢
  | .str, b, h => by cases b <;> simp [STy.beq] at h ⊢
  | .bool, b, h => by cases b <;> simp [STy.beq] at h ⊢
  | .fn a₁ a₂, b, h => by
    cases b <;> simp [STy.beq] at h ⊢
    exact ⟨beq_eq _ _ h.1, beq_eq _ _ h.2⟩
  | .recd as, b, h => by
    cases b <;> simp [STy.beq] at h ⊢
    exact beqList_eq _ _ h
  | .named d, b, h => by
    cases b <;> simp [STy.beq] at h ⊢
    exact h
  | .arr a, b, h => by
    cases b <;> simp [STy.beq] at h ⊢
    exact beq_eq _ _ h
theorem beqList_eq : ∀ (as bs : List STy), beqList as bs = true → as = bs
  | [], bs, h => by cases bs <;> simp [beqList] at h ⊢
  | a :: as, bs, h => by
    cases bs <;> simp [beqList] at h ⊢
    exact ⟨beq_eq _ _ h.1, beqList_eq _ _ h.2⟩
end

theorem peel_sound : ∀ (σs : List STy) (φ τ : STy), peel φ σs = some τ → φ = funTy σs τ := by
  intro σs
  induction σs with
  | nil => intro φ τ h; simp [peel] at h; simp [funTy, h]
  | cons s ss ih =>
    intro φ τ h
    cases φ <;> simp [peel] at h
    rename_i a b
    obtain ⟨h1, h2⟩ := h
    have := beq_eq _ _ h1
    subst this
    simp [funTy, ih b τ h2]

theorem allBeq_sound : ∀ (τs : List STy) (t : STy), allBeq t τs = true → τs = List.replicate τs.length t := by
  intro τs
  induction τs with
  | nil => intro t _; rfl
  | cons s ss ih =>
    intro t h
    simp [allBeq] at h
    have := beq_eq _ _ h.1
    subst this
    simp [List.replicate_succ, ← ih s h.2]

theorem checkLayout_sound : ∀ (l : List Src) (σs βs τs : List STy),
    checkLayout l σs βs = some τs → LayoutOk l σs βs τs := by
  intro l
  induction l with
  | nil => intro σs βs τs h; simp [checkLayout] at h; subst h; exact .nil
  | cons s l ih =>
    intro σs βs τs h
    cases s with
    | field i =>
      simp only [checkLayout] at h
      split at h
      · rename_i τ hi
        split at h
        · rename_i τs' hl
          cases h
          exact .field hi (ih _ _ _ hl)
        · cases h
      · cases h
    | base j =>
      simp only [checkLayout] at h
      split at h
      · rename_i τ hj
        split at h
        · rename_i τs' hl
          cases h
          exact .base hj (ih _ _ _ hl)
        · cases h
      · cases h

theorem isIntOp_sound {op : String} (h : isIntOp op = true) : intOp op := by
  simp [isIntOp] at h
  rcases h with ((h | h) | h) | h
  · exact .inl h
  · exact .inr (.inl h)
  · exact .inr (.inr (.inl h))
  · exact .inr (.inr (.inr h))

theorem isCmpOp_sound {op : String} (h : isCmpOp op = true) : cmpOp op := by
  simp [isCmpOp] at h
  exact h

mutual
theorem patCheck_sound : ∀ (p : Pat) (τ : STy) (Δ : Ctx), patCheck D p τ = some Δ → PatType D p τ Δ
  | .wild, τ, Δ, h => by simp [patCheck] at h; subst h; exact .wild
  | .var x, τ, Δ, h => by simp [patCheck] at h; subst h; exact .var
  | .int n, τ, Δ, h => by
    cases τ <;> simp [patCheck] at h
    subst h; exact .int
  | .str s, τ, Δ, h => by
    cases τ <;> simp [patCheck] at h
    subst h; exact .str
  | .ctor tag ps, τ, Δ, h => by
    cases τ <;> simp only [patCheck] at h <;> try (cases h)
    split at h
    · rename_i τs hd
      exact .ctor hd (patsCheck_sound ps τs Δ h)
    · cases h
  | .record fs, τ, Δ, h => by
    cases τ <;> simp only [patCheck] at h <;> try (cases h)
    exact .record (fieldsCheck_sound fs _ Δ h)
  | .as x p, τ, Δ, h => by
    simp only [patCheck] at h
    split at h
    · rename_i Δ' hp
      cases h
      exact .as (patCheck_sound p τ Δ' hp)
    · cases h
theorem patsCheck_sound : ∀ (ps : List Pat) (τs : List STy) (Δ : Ctx),
    patsCheck D ps τs = some Δ → PatsType D ps τs Δ
  | [], τs, Δ, h => by
    cases τs <;> simp [patsCheck] at h
    subst h; exact .nil
  | p :: ps, τs, Δ, h => by
    cases τs with
    | nil => simp [patsCheck] at h
    | cons τ τs =>
      simp only [patsCheck] at h
      split at h
      · rename_i Δ₁ h1
        split at h
        · rename_i Δ₂ h2
          cases h
          exact .cons (patCheck_sound p τ Δ₁ h1) (patsCheck_sound ps τs Δ₂ h2)
        · cases h
      · cases h
theorem fieldsCheck_sound : ∀ (fs : List (Nat × Pat)) (τs : List STy) (Δ : Ctx),
    fieldsCheck D fs τs = some Δ → FieldsType D fs τs Δ
  | [], τs, Δ, h => by simp [fieldsCheck] at h; subst h; exact .nil
  | (i, p) :: fs, τs, Δ, h => by
    simp only [fieldsCheck] at h
    split at h
    · rename_i τ hi
      split at h
      · rename_i Δ₁ h1
        split at h
        · rename_i Δ₂ h2
          cases h
          exact .cons hi (patCheck_sound p τ Δ₁ h1) (fieldsCheck_sound fs τs Δ₂ h2)
        · cases h
      · cases h
    · cases h
end

theorem hasTypes_length : ∀ {es : List Expr} {Γ : Ctx} {τs : List STy},
    HasTypes D Γ es τs → τs.length = es.length := by
  intro es
  induction es with
  | nil => intro Γ τs h; cases h; rfl
  | cons e es ih => intro Γ τs h; cases h with | cons _ h2 => simp [ih h2]

theorem map_fst_ne_nil {α β} {xs : List (α × β)} (h : xs.isEmpty = false) : xs.map Prod.fst ≠ [] := by
  cases xs with
  | nil => simp at h
  | cons _ _ => simp

mutual
theorem inferA_sound : ∀ (a : AExpr) {Γ : Ctx} {τ : STy}, inferA D Γ a = some τ → HasType D Γ a.erase τ
  | .int n, Γ, τ, h => by simp [inferA] at h; subst h; exact .int
  | .str s, Γ, τ, h => by simp [inferA] at h; subst h; exact .str
  | .var x, Γ, τ, h => by simp only [inferA] at h; exact .var h
  | .lam xs body, Γ, τ, h => by
    simp only [inferA] at h
    split at h
    · cases h
    · rename_i hne
      split at h
      · rename_i ρ hb
        cases h
        simp only [AExpr.erase]
        exact .lam (map_fst_ne_nil (by simpa using hne)) (by simp) (inferA_sound body hb) rfl
      · cases h
  | .app f args, Γ, τ, h => by
    simp only [inferA] at h
    split at h
    · rename_i φ hf
      split at h
      · rename_i σs hargs
        exact .app (inferA_sound f hf) (peel_sound σs φ τ h) (inferList_sound args hargs)
      · cases h
    · cases h
  | .let_ p e₁ e₂, Γ, τ, h => by
    simp only [inferA] at h
    split at h
    · rename_i σ h1
      split at h
      · rename_i Δ hp
        exact .let_ (inferA_sound e₁ h1) (patCheck_sound p σ Δ hp) (inferA_sound e₂ h)
      · cases h
    · cases h
  | .letrec binds body, Γ, τ, h => by
    simp only [inferA] at h
    split at h
    · rename_i hb
      exact .letrec (checkBinds_sound binds hb) (inferA_sound body h)
    · cases h
  | .ite c a b, Γ, τ, h => by
    simp only [inferA] at h
    split at h
    · rename_i τ₁ τ₂ hc ha hb
      split at h
      · rename_i heq
        cases h
        have := beq_eq _ _ heq
        subst this
        exact .ite (inferA_sound c hc) (inferA_sound a ha) (inferA_sound b hb)
      · cases h
    · cases h
  | .prim op a b, Γ, τ, h => by
    simp only [inferA] at h
    split at h
    · rename_i ha hb
      split at h
      · rename_i hop
        cases h
        exact .primInt (isIntOp_sound hop) (inferA_sound a ha) (inferA_sound b hb)
      · split at h
        · rename_i hop
          cases h
          exact .primCmp (isCmpOp_sound hop) (inferA_sound a ha) (inferA_sound b hb)
        · cases h
    · cases h
  | .and_ a b, Γ, τ, h => by
    simp only [inferA] at h
    split at h
    · rename_i ha hb
      cases h
      exact .and_ (inferA_sound a ha) (inferA_sound b hb)
    · cases h
  | .or_ a b, Γ, τ, h => by
    simp only [inferA] at h
    split at h
    · rename_i ha hb
      cases h
      exact .or_ (inferA_sound a ha) (inferA_sound b hb)
    · cases h
  | .ctor d tag arity, Γ, τ, h => by
    simp only [inferA] at h
    split at h
    · rename_i τs hd
      split at h
      · rename_i har
        cases h
        exact .ctor hd (by simpa using har) rfl
      · cases h
    · cases h
  | .bool b, Γ, τ, h => by
    simp [inferA] at h; subst h
    cases b
    · exact .false_
    · exact .true_
  | .match_ s alts t, Γ, τ, h => by
    simp only [inferA] at h
    split at h
    · rename_i σ hs
      split at h
      · rename_i ha
        cases h
        exact .match_ (inferA_sound s hs) (checkAlts_sound alts ha)
      · cases h
    · cases h
  | .record fields none layout, Γ, τ, h => by
    simp only [inferA] at h
    split at h
    · rename_i σs hf
      split at h
      · rename_i τs hl
        cases h
        exact .record (inferList_sound fields hf) (checkLayout_sound _ _ _ _ hl)
      · cases h
    · cases h
  | .record fields (some be) layout, Γ, τ, h => by
    simp only [inferA] at h
    split at h
    · rename_i σs βs hf hb
      split at h
      · rename_i τs hl
        cases h
        exact .update (inferList_sound fields hf) (inferA_sound be hb) (checkLayout_sound _ _ _ _ hl)
      · cases h
    · cases h
  | .proj e i, Γ, τ, h => by
    simp only [inferA] at h
    split at h
    · rename_i τs he
      exact .proj (inferA_sound e he) h
    · cases h
  | .array t es, Γ, τ, h => by
    simp only [inferA] at h
    split at h
    · rename_i τs hes
      split at h
      · rename_i hall
        cases h
        have hts := inferList_sound es hes
        have hlen := hasTypes_length hts
        exact .array hts (by rw [← hlen]; exact allBeq_sound τs t hall)
      · cases h
    · cases h
  | .error msg t, Γ, τ, h => by simp [inferA] at h; subst h; exact .error
theorem inferList_sound : ∀ (es : AList) {Γ : Ctx} {τs : List STy},
    inferList D Γ es = some τs → HasTypes D Γ es.erase τs
  | .nil, Γ, τs, h => by simp [inferList] at h; subst h; exact .nil
  | .cons e es, Γ, τs, h => by
    simp only [inferList] at h
    split at h
    · rename_i τ τs' he hes
      cases h
      exact .cons (inferA_sound e he) (inferList_sound es hes)
    · cases h
theorem checkAlts_sound : ∀ (alts : AAlts) {Γ : Ctx} {σ t : STy},
    checkAlts D Γ σ alts t = true → HasAlts D Γ σ alts.erase t
  | .nil, Γ, σ, t, h => .nil
  | .cons p e rest, Γ, σ, t, h => by
    simp only [checkAlts] at h
    split at h
    · rename_i Δ hp
      split at h
      · rename_i τ he
        simp only [Bool.and_eq_true] at h
        have := beq_eq _ _ h.1
        subst this
        exact .cons (patCheck_sound p σ Δ hp) (inferA_sound e he) (checkAlts_sound rest h.2)
      · cases h
    · cases h
theorem checkBinds_sound : ∀ (binds : ABinds) {Γ' : Ctx},
    checkBinds D Γ' binds = true → HasGroup D Γ' binds.erase binds.tys
  | .nil, Γ', h => .nil
  | .cons f params ret body rest, Γ', h => by
    simp only [checkBinds, Bool.and_eq_true] at h
    obtain ⟨⟨hne, hb⟩, hrest⟩ := h
    split at hb
    · rename_i ρ hbody
      have := beq_eq _ _ hb
      subst this
      exact .cons (by simp) (map_fst_ne_nil (by simpa using hne)) (inferA_sound body hbody)
        (checkBinds_sound rest hrest)
    · cases hb
end

end GluonModel.SurfTy.Proofs
