/-
Lemmas for the host-handle laws of C05 (wave 2): `root` / `unroot` change the root list of exactly
one thread by exactly one occurrence of exactly one object.
-/
import GluonModel.GcHandles
import GluonModel.Proofs.GcHeap
import GluonModel.Proofs.GcMachine

namespace GluonModel.GcHeap

theorem addRoot_obj_eq (s : State) (t : HeapId) (r i : Nat) :
    (addRoot s t r).obj i = addRootObj s t r i := rfl

theorem mapRoots_obj_eq (s : State) (t : HeapId) (f : List Nat → List Nat) (i : Nat) :
    (mapRoots s t f).obj i = mapRootsObj s t f i := rfl

theorem count_cons_ite (r x : Nat) (l : List Nat) :
    (r :: l).count x = l.count x + (if x = r then 1 else 0) := by
  by_cases h : x = r
  · subst h; simp
  · have h' : r ≠ x := fun e => h e.symm
    simp [h, h']

theorem count_erase_ite (r x : Nat) (l : List Nat) :
    (l.erase r).count x = l.count x - (if x = r then 1 else 0) := by
  by_cases h : x = r
  · subst h; simp [List.count_erase_self]
  · have h' : r ≠ x := fun e => h e.symm
    simp [h, List.count_erase_of_ne h]

theorem root_count {fixed : Bool} {s : State} {t : HeapId} {r i : Nat}
    (hh : holds s t r = true) (hi : isThreadOf s i t) (x : Nat) :
    rootCount (step fixed s (.root t r)) i x = rootCount s i x + (if x = r then 1 else 0) := by
  obtain ⟨o, ho, hk, hm⟩ := hi
  have hs : step fixed s (.root t r) = addRoot s t r := by simp [step, hh]
  unfold rootCount
  rw [hs, addRoot_obj_eq]
  unfold addRootObj
  simp only [ho, if_pos (And.intro hk hm)]
  exact count_cons_ite r x o.edges

theorem unroot_count {fixed : Bool} {s : State} {t : HeapId} {r i : Nat}
    (hr : isThreadObj s r = false) (hi : isThreadOf s i t) (x : Nat) :
    rootCount (step fixed s (.unroot t r)) i x = rootCount s i x - (if x = r then 1 else 0) := by
  obtain ⟨o, ho, hk, hm⟩ := hi
  have hs : step fixed s (.unroot t r) = mapRoots s t (fun l => l.erase r) := by simp [step, hr]
  unfold rootCount
  rw [hs, mapRoots_obj_eq]
  unfold mapRootsObj
  simp only [ho, if_pos (And.intro hk hm)]
  exact count_erase_ite r x o.edges

theorem root_other {fixed : Bool} {s : State} {t : HeapId} {r i : Nat}
    (hi : ¬ isThreadOf s i t) : (step fixed s (.root t r)).obj i = s.obj i := by
  by_cases hh : holds s t r = true
  · have hs : step fixed s (.root t r) = addRoot s t r := by simp [step, hh]
    rw [hs, addRoot_obj_eq]
    unfold addRootObj
    cases ho : s.obj i with
    | none => rfl
    | some o =>
      have : ¬ (o.kind = .thread ∧ o.home = t) := fun h => hi ⟨o, ho, h.1, h.2⟩
      simp only [if_neg this]
  · have hs : step fixed s (.root t r) = s := by simp [step, hh]
    rw [hs]

theorem unroot_other {fixed : Bool} {s : State} {t : HeapId} {r i : Nat}
    (hi : ¬ isThreadOf s i t) : (step fixed s (.unroot t r)).obj i = s.obj i := by
  by_cases hr : isThreadObj s r = true
  · have hs : step fixed s (.unroot t r) = s := by simp [step, hr]
    rw [hs]
  · have hs : step fixed s (.unroot t r) = mapRoots s t (fun l => l.erase r) := by simp [step, hr]
    rw [hs, mapRoots_obj_eq]
    unfold mapRootsObj
    cases ho : s.obj i with
    | none => rfl
    | some o =>
      have : ¬ (o.kind = .thread ∧ o.home = t) := fun h => hi ⟨o, ho, h.1, h.2⟩
      simp only [if_neg this]

/-- An object of a swept heap that no root reaches is freed. -/
theorem collect_frees_unreachable {s s' : State} {t : HeapId} (hc : collect s t = some s')
    {p : Nat} {op : Obj} (hop : s.obj p = some op) (hin : t <+: op.owner)
    (hun : ¬ Reach s (AllRoots s) p) : s'.obj p = none := by
  cases h' : s'.obj p with
  | none => rfl
  | some op' =>
    have e := collect_sub hc h'
    rw [hop] at e
    cases e
    exact absurd (collect_complete' hc h' hin) hun

end GluonModel.GcHeap
