/-
C03 — `inferF` is monotone in the unification fuel: more fuel never changes an answer of
inference other than `fuel`.
-/
import GluonModel.HM
import GluonModel.Proofs.HM
import GluonModel.Proofs.HMTerm
import GluonModel.Proofs.HMFuel

namespace GluonModel.HM.Proofs
open GluonModel.HM

theorem unifySF_mono (fuel fuel' : Nat) (S : Subst) (n : Nat) (a b : Ty) (r : Except UErr (Subst × Nat))
    (hle : fuel ≤ fuel') (h : unifySF false fuel S n a b = r) (hr : r ≠ .error .fuel) :
    unifySF false fuel' S n a b = r := by
  unfold unifySF at h ⊢
  cases h₁ : unify false fuel n (a.subst S) (b.subst S) with
  | error e =>
    rw [h₁] at h
    rw [unify_mono fuel fuel' n _ _ _ hle h₁
      (by intro hh; injection hh with hh; subst hh; exact hr h.symm)]
    exact h
  | ok p =>
    rw [h₁] at h
    rw [unify_mono fuel fuel' n _ _ _ hle h₁ (by intro hh; cases hh)]
    exact h

/- One step of the monotonicity proof: case-split on the sub-result `t` at the small fuel; an
error (which cannot be `fuel`, or the whole answer `r` would be) closes the goal, a success is
transported to the large fuel with `m` and the `match` is reduced on both sides.
Uses the hypotheses `h` (the run at the small fuel) and `hr` (`r ≠ .error .fuel`) by name. -/
set_option hygiene false in
local macro "fuel_step " h₁:ident " : " t:term " with " pat:rcasesPat " using " m:term : tactic =>
  `(tactic|
    (rcases $h₁:ident : $t with e | $pat
     · rw [$h₁:ident] at h
       rw [($m) $h₁ (by intro hh; injection hh with hh; subst hh; exact hr h.symm)]
       exact h
     rw [$h₁:ident] at h
     rw [($m) $h₁ (by intro hh; cases hh)]
     simp only at h ⊢))

/-- more fuel never changes an answer of inference other than `fuel` -/
theorem inferF_mono (fuel fuel' : Nat) (hle : fuel ≤ fuel') : ∀ (e : Expr) (Γ : Env) (S : Subst) (n : Nat)
    (r : Except UErr (Ty × Subst × Nat)),
    inferF false fuel Γ e S n = r → r ≠ .error .fuel → inferF false fuel' Γ e S n = r := by
  have U : ∀ (S : Subst) (n : Nat) (a b : Ty) (r : Except UErr (Subst × Nat)),
      unifySF false fuel S n a b = r → r ≠ .error .fuel → unifySF false fuel' S n a b = r :=
    fun S n a b r h hr => unifySF_mono fuel fuel' S n a b r hle h hr
  intro e
  induction e with
  | var x => intro Γ S n r h hr; simp only [inferF] at h ⊢; exact h
  | lam x b ih =>
    intro Γ S n r h hr
    simp only [inferF] at h ⊢
    fuel_step h₁ : inferF false fuel ((x, Scheme.mono (.var n)) :: Γ) b S (n + 1) with ⟨τ, S₁, n₁⟩
      using ih _ _ _ _
    exact h
  | app f a ihf iha =>
    intro Γ S n r h hr
    simp only [inferF] at h ⊢
    fuel_step h₁ : inferF false fuel Γ f S n with ⟨τf, S₁, n₁⟩ using ihf _ _ _ _
    fuel_step h₂ : inferF false fuel Γ a S₁ n₁ with ⟨τa, S₂, n₂⟩ using iha _ _ _ _
    fuel_step h₃ : unifySF false fuel S₂ (n₂ + 1) τf (fn τa (.var n₂)) with ⟨S₃, n₃⟩ using U _ _ _ _ _
    exact h
  | letE x e b ihe ihb =>
    intro Γ S n r h hr
    simp only [inferF] at h ⊢
    fuel_step h₁ : inferF false fuel Γ e S n with ⟨τ₁, S₁, n₁⟩ using ihe _ _ _ _
    exact ihb _ _ _ _ h hr
  | int k => intro Γ S n r h hr; simp only [inferF] at h ⊢; exact h
  | str k => intro Γ S n r h hr; simp only [inferF] at h ⊢; exact h
  | ifE c t e ihc iht ihe =>
    intro Γ S n r h hr
    simp only [inferF] at h ⊢
    fuel_step h₁ : inferF false fuel Γ c S n with ⟨τc, S₁, n₁⟩ using ihc _ _ _ _
    fuel_step h₂ : unifySF false fuel S₁ n₁ tBool τc with ⟨S₂, n₂⟩ using U _ _ _ _ _
    fuel_step h₃ : inferF false fuel Γ t S₂ n₂ with ⟨τt, S₃, n₃⟩ using iht _ _ _ _
    fuel_step h₄ : inferF false fuel Γ e S₃ n₃ with ⟨τe, S₄, n₄⟩ using ihe _ _ _ _
    fuel_step h₅ : unifySF false fuel S₄ n₄ τt τe with ⟨S₅, n₅⟩ using U _ _ _ _ _
    exact h
  | lt a b iha ihb =>
    intro Γ S n r h hr
    simp only [inferF] at h ⊢
    fuel_step h₁ : inferF false fuel Γ a S n with ⟨τa, S₁, n₁⟩ using iha _ _ _ _
    fuel_step h₂ : unifySF false fuel S₁ n₁ tInt τa with ⟨S₂, n₂⟩ using U _ _ _ _ _
    fuel_step h₃ : inferF false fuel Γ b S₂ n₂ with ⟨τb, S₃, n₃⟩ using ihb _ _ _ _
    fuel_step h₄ : unifySF false fuel S₃ n₃ tInt τb with ⟨S₄, n₄⟩ using U _ _ _ _ _
    exact h
  | fnil => intro Γ S n r h hr; simp only [inferF] at h ⊢; exact h
  | fcons l e rest ihe ihr =>
    intro Γ S n r h hr
    simp only [inferF] at h ⊢
    fuel_step h₁ : inferF false fuel Γ e S n with ⟨τ, S₁, n₁⟩ using ihe _ _ _ _
    fuel_step h₂ : inferF false fuel Γ rest S₁ n₁ with ⟨ρ, S₂, n₂⟩ using ihr _ _ _ _
    exact h
  | rcd f ih =>
    intro Γ S n r h hr
    simp only [inferF] at h ⊢
    fuel_step h₁ : inferF false fuel Γ f S n with ⟨ρ, S₁, n₁⟩ using ih _ _ _ _
    exact h
  | proj e l ih =>
    intro Γ S n r h hr
    simp only [inferF] at h ⊢
    fuel_step h₁ : inferF false fuel Γ e S n with ⟨τ, S₁, n₁⟩ using ih _ _ _ _
    cases ha : asRec (τ.subst S₁) with
    | some row =>
      rw [ha] at h
      simp only at h ⊢
      cases hl : lookupField l (rowFields row) with
      | some τl =>
        rw [hl] at h
        exact h
      | none =>
        rw [hl] at h
        simp only at h ⊢
        fuel_step h₂ : unifySF false fuel S₁ (n₁ + 2) (tRec (.ext l (.var n₁) (.var (n₁ + 1)))) τ
          with ⟨S₂, n₂⟩ using U _ _ _ _ _
        exact h
    | none =>
      rw [ha] at h
      simp only at h ⊢
      by_cases hv : isVar (τ.subst S₁) = true
      · rw [if_pos hv] at h ⊢
        fuel_step h₂ : unifySF false fuel S₁ (n₁ + 2) (tRec (.ext l (.var n₁) (.var (n₁ + 1)))) τ
          with ⟨S₂, n₂⟩ using U _ _ _ _ _
        exact h
      · rw [if_neg hv] at h ⊢
        exact h
  | anil => intro Γ S n r h hr; simp only [inferF] at h ⊢; exact h
  | asnoc init e ihi ihe =>
    intro Γ S n r h hr
    simp only [inferF] at h ⊢
    fuel_step h₁ : inferF false fuel Γ init S n with ⟨τi, S₁, n₁⟩ using ihi _ _ _ _
    fuel_step h₂ : inferF false fuel Γ e S₁ n₁ with ⟨τe, S₂, n₂⟩ using ihe _ _ _ _
    fuel_step h₃ : unifySF false fuel S₂ n₂ τi (tArr τe) with ⟨S₃, n₃⟩ using U _ _ _ _ _
    exact h
  | conA => intro Γ S n r h hr; simp only [inferF] at h ⊢; exact h
  | conB => intro Γ S n r h hr; simp only [inferF] at h ⊢; exact h

end GluonModel.HM.Proofs
