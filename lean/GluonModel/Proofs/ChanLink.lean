/-
The formal link between the coroutine interpreter `runOps` and the trace semantics `runTrace`:
whatever program runs (any thread bodies, any resume/yield schedule, any fuel), the primitive calls it
makes form ONE trace of `(thread, op)` calls; the primitives' state is that trace's final state and the
result events of the observation log are exactly that trace's result events, in order.
Consequences: trace-level state invariants (no blackhole between forces) transfer to programs; forces in
programs never wait; the failure clause on the program log.
-/
import GluonModel.Chan
import GluonModel.Proofs.Chan
import GluonModel.Proofs.ChanThreads
import GluonModel.Proofs.ChanProgram

namespace GluonModel.Chan

/-- A primitive call as a program makes it: thread, inside `catch`?, operation. -/
abbrev Step := Nat × Bool × POp

def stepsTrace (st : List Step) : List (Nat × POp) := st.map (fun x => (x.1, x.2.2))

/-- The result events (kinds 1–6, 8, 9) a trace of calls logs, oldest first. -/
def traceEvents (d : Decls) : List Step → PState → List Ev
  | [], _ => []
  | (tid, c, op) :: rest, s =>
    primEvents tid c op (pstep d tid op s).2 ++ traceEvents d rest (pstep d tid op s).1

/-- Result events of primitive calls (as opposed to force-begin 7, thunk-start 10, resume 11–13, yield 14). -/
def isPrimKind (e : Ev) : Bool := decide (e.kind ≤ 6 ∨ e.kind = 8 ∨ e.kind = 9)

theorem stepsTrace_append (a b : List Step) : stepsTrace (a ++ b) = stepsTrace a ++ stepsTrace b := by
  simp [stepsTrace]

theorem traceEvents_snoc (d : Decls) (st : List Step) (tid : Nat) (c : Bool) (op : POp) (s : PState) :
    traceEvents d (st ++ [(tid, c, op)]) s =
      traceEvents d st s ++ primEvents tid c op (pstep d tid op (runTrace d (stepsTrace st) s).1).2 := by
  induction st generalizing s with
  | nil => simp [traceEvents, stepsTrace, runTrace]
  | cons x st ih =>
    obtain ⟨t, c', o⟩ := x
    simp only [List.cons_append, traceEvents, ih, List.append_assoc]
    simp [stepsTrace, runTrace_cons]

theorem runTrace_snoc_state (d : Decls) (tr : List (Nat × POp)) (tid : Nat) (op : POp) (s : PState) :
    (runTrace d (tr ++ [(tid, op)]) s).1 = (pstep d tid op (runTrace d tr s).1).1 := by
  rw [runTrace_append]
  simp [runTrace]

theorem primEvents_allPrim (tid : Nat) (c : Bool) (p : POp) (r : PRes) :
    (primEvents tid c p r).filter isPrimKind = primEvents tid c p r := by
  rw [List.filter_eq_self]
  intro e he
  cases p with
  | send c' v => simp [primEvents] at he; subst he; simp [isPrimKind]
  | recv c' => cases r <;> simp [primEvents] at he <;> subst he <;> simp [isPrimKind]
  | load x => cases r <;> simp [primEvents] at he <;> subst he <;> simp [isPrimKind]
  | store x v => simp [primEvents] at he; subst he; simp [isPrimKind]
  | force k =>
    cases r with
    | forced fr =>
      cases fr with
      | ok v => simp [primEvents] at he; subst he; simp [isPrimKind]
      | err e' => cases c <;> simp [primEvents] at he; subst he; simp [isPrimKind]
      | pending => simp [primEvents] at he
      | nofuel => simp [primEvents] at he
    | sent => simp [primEvents] at he
    | got v => simp [primEvents] at he
    | empty => simp [primEvents] at he
    | loaded v => simp [primEvents] at he
    | stored => simp [primEvents] at he

theorem primEvents_reverse (tid : Nat) (c : Bool) (p : POp) (r : PRes) :
    (primEvents tid c p r).reverse = primEvents tid c p r := by
  cases p with
  | send c' v => simp [primEvents]
  | recv c' => cases r <;> simp [primEvents]
  | load x => cases r <;> simp [primEvents]
  | store x v => simp [primEvents]
  | force k =>
    cases r with
    | forced fr =>
      cases fr with
      | ok v => simp [primEvents]
      | err e' => cases c <;> simp [primEvents]
      | pending => simp [primEvents]
      | nofuel => simp [primEvents]
    | sent => simp [primEvents]
    | got v => simp [primEvents]
    | empty => simp [primEvents]
    | loaded v => simp [primEvents]
    | stored => simp [primEvents]

theorem filter_isPrimKind_nil (l : List Ev) (h : ∀ e ∈ l, e.kind = 7 ∨ 10 ≤ e.kind) :
    l.filter isPrimKind = [] := by
  rw [List.filter_eq_nil_iff]
  intro e he
  have := h e he
  simp [isPrimKind]
  omega

/-- `s` is linked to the trace `steps` run from `p0`. -/
def LinkedBy (d : Decls) (p0 : PState) (steps : List Step) (s : St) : Prop :=
  s.p = (runTrace d (stepsTrace steps) p0).1 ∧
  (s.log.filter isPrimKind).reverse = traceEvents d steps p0

def Linked (d : Decls) (p0 : PState) (s : St) : Prop := ∃ steps, LinkedBy d p0 steps s

theorem doPrim_linked (d : Decls) (p0 : PState) (tid : Nat) (c : Bool) (p : POp) (s : St)
    (h : Linked d p0 s) : Linked d p0 (doPrim d tid c p s).1 := by
  obtain ⟨steps, hp, hl⟩ := h
  refine ⟨steps ++ [(tid, c, p)], ?_, ?_⟩
  · simp only [doPrim, stepsTrace_append]
    rw [show stepsTrace [(tid, c, p)] = [(tid, p)] from rfl, runTrace_snoc_state, ← hp]
  · have hrun : (runEvents s.p.lz.runs (pstep d tid p s.p).1.lz.runs).filter isPrimKind = [] :=
      filter_isPrimKind_nil _ (fun e he => Or.inr (by rw [runEvents_kind _ _ e he]; decide))
    have hbeg : (beginEvents tid p).filter isPrimKind = [] :=
      filter_isPrimKind_nil _ (fun e he => Or.inl (beginEvents_kind _ _ e he))
    simp only [doPrim, List.filter_append, hrun, hbeg, primEvents_allPrim, List.append_nil,
      List.nil_append, List.reverse_append, primEvents_reverse]
    rw [traceEvents_snoc, hl, ← hp]

theorem emit_linked (d : Decls) (p0 : PState) (s : St) (e : Ev) (hk : 10 < e.kind) (h : Linked d p0 s) :
    Linked d p0 (s.emit e) := by
  obtain ⟨steps, hp, hl⟩ := h
  refine ⟨steps, by simpa [St.emit] using hp, ?_⟩
  have : isPrimKind e = false := by simp [isPrimKind]; omega
  simpa [St.emit, List.filter_cons, this] using hl

theorem runOps_linked (d : Decls) (p0 : PState) (fuel tid : Nat) (ops : List Op) (s : St)
    (h : Linked d p0 s) : Linked d p0 (runOps d fuel tid ops s).1 := by
  refine runOps_preserves d (Linked d p0) (doPrim_linked d p0) (emit_linked d p0) ?_ fuel tid ops s h
  intro tid t s0 ops s1 o s2 _ _ h1 heq
  have hth : ∀ th, Linked d p0 { s1 with th := th } := by
    intro th; obtain ⟨steps, hp, hl⟩ := h1; exact ⟨steps, hp, hl⟩
  cases o <;> simp [afterChild] at heq <;> subst heq
  · exact emit_linked d p0 _ _ (by simp) (hth _)
  · exact emit_linked d p0 _ _ (by simp) (hth _)
  · exact emit_linked d p0 _ _ (by simp) (hth _)
  · exact emit_linked d p0 _ _ (by simp) (hth _)


/-! ## Transfer: what holds for every trace state holds for every program state -/

/-- No blackhole survives between two primitive calls of a program (transfer of `trace_noBH`). -/
theorem linked_noBH (d : Decls) (n : Nat) (hb : Bounded d n) (hn : n + 2 ≤ forceFuel) (cells : Nat → Int)
    (s : St) (h : Linked d (PState.init cells) s) : NoBH s.p.lz := by
  obtain ⟨steps, hp, _⟩ := h
  rw [hp]
  exact trace_noBH d n hb hn _ _ (init_noBH cells)

theorem doPrim_not_pending (d : Decls) (n : Nat) (hb : Bounded d n) (hn : n + 2 ≤ forceFuel)
    (cells : Nat → Int) (tid : Nat) (c : Bool) (p : POp) (s : St) (h : Linked d (PState.init cells) s) :
    (doPrim d tid c p s).2 ≠ .forced .pending := by
  have hno := linked_noBH d n hb hn cells s h
  cases p with
  | send c' v => simp [doPrim, pstep]
  | recv c' => cases hq : s.p.chans c' <;> simp [doPrim, pstep, hq]
  | load x => simp [doPrim, pstep]
  | store x v => simp [doPrim, pstep]
  | force k =>
    have := (force_top d n hb hn tid k s.p.lz hno).2.1
    simpa [doPrim, pstep] using this

/-! ## Failure clause on the program log -/

/-- Every logged force error of lazy `k` is the failure recorded in `k`'s cell. -/
def FailInv (s : St) : Prop :=
  ∀ e ∈ s.log, e.kind = 9 → ∀ k : Nat, e.a = (k : Int) → ∃ err : FErr, err.code = e.b ∧ s.p.lz.st k = .failed err

theorem doPrim_failInv (d : Decls) (tid : Nat) (c : Bool) (p : POp) (s : St)
    (hno : NoBH s.p.lz) (h : FailInv s) : FailInv (doPrim d tid c p s).1 := by
  intro e he hk9 k hak
  simp only [doPrim] at he ⊢
  rcases List.mem_append.mp he with he | he
  · rcases List.mem_append.mp he with he | he
    · rcases List.mem_append.mp he with he | he
      · cases p with
        | send c' v => simp [primEvents] at he; subst he; simp at hk9
        | recv c' => cases hr : (pstep d tid (.recv c') s.p).2 <;> rw [hr] at he <;> simp [primEvents] at he <;> subst he <;> simp at hk9
        | load x => cases hr : (pstep d tid (.load x) s.p).2 <;> rw [hr] at he <;> simp [primEvents] at he <;> subst he <;> simp at hk9
        | store x v => simp [primEvents] at he; subst he; simp at hk9
        | force j =>
          cases hr : (force d forceFuel tid j s.p.lz).2 with
          | ok v =>
            have hr' : (pstep d tid (.force j) s.p).2 = .forced (.ok v) := by simp [pstep, hr]
            rw [hr'] at he
            simp [primEvents] at he
            subst he; simp at hk9
          | err e' =>
            have hr' : (pstep d tid (.force j) s.p).2 = .forced (.err e') := by simp [pstep, hr]
            rw [hr'] at he
            cases c <;> simp [primEvents] at he
            subst he
            simp at hak
            have hjk : j = k := by omega
            subst hjk
            exact ⟨e', rfl, by simpa [pstep] using force_top_err_records d tid j s.p.lz hno e' hr⟩
          | pending =>
            have hr' : (pstep d tid (.force j) s.p).2 = .forced .pending := by simp [pstep, hr]
            rw [hr'] at he; simp [primEvents] at he
          | nofuel =>
            have hr' : (pstep d tid (.force j) s.p).2 = .forced .nofuel := by simp [pstep, hr]
            rw [hr'] at he; simp [primEvents] at he
      · rw [runEvents_kind _ _ e he] at hk9; cases hk9
    · rw [beginEvents_kind _ _ e he] at hk9; cases hk9
  · obtain ⟨err, hc, hv⟩ := h e he hk9 k hak
    refine ⟨err, hc, ?_⟩
    cases p with
    | send c' v => simpa [pstep] using hv
    | recv c' => cases hq : s.p.chans c' <;> simpa [pstep, hq] using hv
    | load x => simpa [pstep] using hv
    | store x v => simpa [pstep] using hv
    | force j => simpa [pstep] using force_failed_stable d forceFuel tid j s.p.lz k err hv

theorem emit_failInv (s : St) (e : Ev) (hk : 10 < e.kind) (h : FailInv s) : FailInv (s.emit e) := by
  intro e' he' hk9 k hak
  simp [St.emit] at he'
  rcases he' with he' | he'
  · subst he'; omega
  · exact h e' he' hk9 k hak

/-- Linked to a trace from the initial state, and the failure invariant. -/
def LinkFail (d : Decls) (cells : Nat → Int) (s : St) : Prop :=
  Linked d (PState.init cells) s ∧ FailInv s

theorem runOps_linkFail (d : Decls) (n : Nat) (hb : Bounded d n) (hn : n + 2 ≤ forceFuel)
    (cells : Nat → Int) (fuel tid : Nat) (ops : List Op) (s : St)
    (h : LinkFail d cells s) : LinkFail d cells (runOps d fuel tid ops s).1 := by
  refine runOps_preserves d (LinkFail d cells) ?_ ?_ ?_ fuel tid ops s h
  · intro tid c p s h
    exact ⟨doPrim_linked d _ tid c p s h.1, doPrim_failInv d tid c p s (linked_noBH d n hb hn cells s h.1) h.2⟩
  · intro s e hk h
    exact ⟨emit_linked d _ s e hk h.1, emit_failInv s e hk h.2⟩
  · intro tid t s0 ops s1 o s2 _ _ h1 heq
    have hth : ∀ th, LinkFail d cells { s1 with th := th } := by
      intro th
      obtain ⟨⟨steps, hp, hl⟩, hf⟩ := h1
      exact ⟨⟨steps, hp, hl⟩, fun e he => hf e he⟩
    cases o <;> simp [afterChild] at heq <;> subst heq
    · exact ⟨emit_linked d _ _ _ (by simp) (hth _).1, emit_failInv _ _ (by simp) (hth _).2⟩
    · exact ⟨emit_linked d _ _ _ (by simp) (hth _).1, emit_failInv _ _ (by simp) (hth _).2⟩
    · exact ⟨emit_linked d _ _ _ (by simp) (hth _).1, emit_failInv _ _ (by simp) (hth _).2⟩
    · exact ⟨emit_linked d _ _ _ (by simp) (hth _).1, emit_failInv _ _ (by simp) (hth _).2⟩

/-! ## Programs never block in a force -/

theorem runOps_never_blocked (d : Decls) (n : Nat) (hb : Bounded d n) (hn : n + 2 ≤ forceFuel)
    (cells : Nat → Int) :
    ∀ (fuel tid : Nat) (ops : List Op) (s : St),
      Linked d (PState.init cells) s → (∀ t, s.th t ≠ .blocked) →
      (runOps d fuel tid ops s).2 ≠ .blocked ∧ ∀ t, (runOps d fuel tid ops s).1.th t ≠ .blocked := by
  intro fuel
  induction fuel with
  | zero => intro tid ops s _ hth; simpa [runOps] using hth
  | succ fuel ih =>
    intro tid ops s hl hth
    cases ops with
    | nil => simpa [runOps] using hth
    | cons op rest =>
      cases op with
      | prim p =>
        have hnp := doPrim_not_pending d n hb hn cells tid true p s hl
        have hl1 := doPrim_linked d _ tid true p s hl
        have hth1 : ∀ t, (doPrim d tid true p s).1.th t ≠ .blocked := by simpa [doPrim] using hth
        simp only [runOps]
        split
        · rename_i heq; exact absurd heq hnp
        · exact ⟨by simp, hth1⟩
        · exact ih _ _ _ hl1 hth1
      | forceU k =>
        have hnp := doPrim_not_pending d n hb hn cells tid false (.force k) s hl
        have hl1 := doPrim_linked d _ tid false (.force k) s hl
        have hth1 : ∀ t, (doPrim d tid false (.force k) s).1.th t ≠ .blocked := by simpa [doPrim] using hth
        simp only [runOps]
        split
        · exact ih _ _ _ hl1 hth1
        · exact ⟨by simp, hth1⟩
        · rename_i heq; exact absurd heq hnp
        · exact ⟨by simp, hth1⟩
      | yield =>
        simp only [runOps]
        split
        · exact ih _ _ _ (emit_linked d _ _ _ (by simp) hl) (by simpa [St.emit] using hth)
        · exact ⟨by simp, by simpa [St.emit] using hth⟩
      | resume t =>
        simp only [runOps]
        split
        · exact ih _ _ _ (emit_linked d _ _ _ (by simp) hl) (by simpa [St.emit] using hth)
        · exact ih _ _ _ (emit_linked d _ _ _ (by simp) hl) (by simpa [St.emit] using hth)
        · exact ih _ _ _ (emit_linked d _ _ _ (by simp) hl) (by simpa [St.emit] using hth)
        · rename_i hb'; exact absurd hb' (hth t)
        · rename_i cops hready
          obtain ⟨hco, hcth⟩ := ih t cops s hl hth
          have hcl := runOps_linked d _ fuel t cops s hl
          have hlth : ∀ th, Linked d (PState.init cells) { (runOps d fuel t cops s).1 with th := th } := by
            intro th; obtain ⟨steps, hp, hlg⟩ := hcl; exact ⟨steps, hp, hlg⟩
          cases ho : (runOps d fuel t cops s).2 with
          | fin =>
            simp only [ho, afterChild]
            refine ih _ _ _ (emit_linked d _ _ _ (by simp) (hlth _)) ?_
            intro t'; simp only [St.emit, upd]; split
            · simp
            · exact hcth t'
          | yielded r =>
            simp only [ho, afterChild]
            refine ih _ _ _ (emit_linked d _ _ _ (by simp) (hlth _)) ?_
            intro t'; simp only [St.emit, upd]; split
            · simp
            · exact hcth t'
          | blocked => exact absurd ho hco
          | failed e f =>
            simp only [ho, afterChild]
            refine ih _ _ _ (emit_linked d _ _ _ (by simp) (hlth _)) ?_
            intro t'; simp only [St.emit, upd]; split
            · simp
            · exact hcth t'
          | panic =>
            simp only [ho, afterChild]
            exact ⟨by simp, hcth⟩
          | nofuel =>
            simp only [ho, afterChild]
            exact ⟨by simp, hcth⟩


/-- A force inside `catch` that neither waits nor runs out of fuel logs its answer as the newest entry. -/
theorem doPrim_force_answered (d : Decls) (tid k : Nat) (s : St)
    (h1 : (force d forceFuel tid k s.p.lz).2 ≠ .nofuel) (h2 : (force d forceFuel tid k s.p.lz).2 ≠ .pending) :
    ∃ e rest, (doPrim d tid true (.force k) s).1.log = e :: rest ∧ e.tid = tid ∧ e.a = (k : Int) ∧
      (e.kind = 8 ∨ e.kind = 9) := by
  cases hr : (force d forceFuel tid k s.p.lz).2 with
  | ok v =>
    refine ⟨⟨tid, 8, k, v⟩, (doPrim d tid true (.force k) s).1.log.tail, ?_, rfl, rfl, Or.inl rfl⟩
    simp [doPrim, pstep, hr, primEvents]
  | err e =>
    refine ⟨⟨tid, 9, k, e.code⟩, (doPrim d tid true (.force k) s).1.log.tail, ?_, rfl, rfl, Or.inr rfl⟩
    simp [doPrim, pstep, hr, primEvents]
  | pending => exact absurd hr h2
  | nofuel => exact absurd hr h1

end GluonModel.Chan
